// Driver for C07 (a server completes only when its client-authentication policy is satisfied).
//
// Every case is a *history* of one or two connections against REAL servers of one stack:
//
//	kind=full    one full handshake, real client with an odd certificate configuration   (A)
//	kind=script  one full handshake, scripted client (c08's VerifScript) that omits / forges
//	             CertificateVerify, sends unrequested / missing Certificate messages, …    (B)
//	kind=hist    two connections of one real client against two server Configs that share
//	             one SessionCache (policy pol, then pol2; cfg2 = same | otherca | later)   (C)
//	kind=shist   two connections of one SCRIPTED client against two such Configs: the second
//	             ClientHello offers the session id the first connection announced and the script
//	             resumes with the master secret it derived itself — also when the first handshake
//	             was refused (a real client never offers the session of a failed handshake)   (D)
//	             with suite2= decl=cli|srv cli2= (phase decl): the second ClientHello offers the
//	             session id but NOT the session's suite (decl=cli), or the second server no longer
//	             supports it (decl=srv) — the resumption must be declined — and ANOTHER script
//	             (cli2) is played on the full handshake that follows on the same connection      (E)
//
// The case line carries the scenario (the tokens needed to re-execute it) followed by the
// client's *behaviour as seen on the wire* (which handshake messages it sent, how many
// certificates) and the verdicts of the real smx509 path validation of those certificates
// under the server's ClientCAs / Time for three acceptable-usage sets — the inputs of the Lean
// model and spec. The observation is what the real server reported.
//
//	case:  stack= kind= suite= pol= [pol2= cfg2= [suite2= decl= cli2=]] cli=  K.e= K.msg= K.n= K.parse=
//	       K.c0= K.c1= K.leaf= K.kx= K.cv= K.fin= [K.sig=]  (K = 1, 2)   [2.offer= 2.mech= now0= now1=]
//	       K.leaf: the first certificate THIS client put on the wire, named by its bytes (fp; "-": none);
//	       2.mech: the session's suite is still offered by the second ClientHello (sniffed) and
//	       supported by the second server Config
//	       c0 / c1: the verdicts of certificate 0 / 1 EACH ON ITS OWN (okClient okClientOrServer
//	       okAnyUsage) and the kind of its public key (s SM2, p other curve, r RSA, x other)
//	obs :  K.srv=done|err K.resumed= K.peers= K.chains= K.pleaf= K.vleaf= K.req= K.cls= K.alert= K.cli=
//	       K.pleaf / K.vleaf: ConnectionState().PeerCertificates[0] / VerifiedChains[0][0], named the same way
package main

import (
	"crypto"
	"crypto/ecdsa"
	"crypto/rand"
	"crypto/rsa"
	"errors"
	"fmt"
	"os"
	"sort"
	"strings"
	"sync"
	"time"

	"github.com/emmansun/gmsm/sm2"
	"github.com/emmansun/gmsm/sm3"
	"github.com/emmansun/gmsm/smx509"

	"verifharness/internal/hx"
	"verifharness/internal/pki"
)

var policies = []string{"NoClientCert", "RequestClientCert", "RequireAnyClientCert",
	"VerifyClientCertIfGiven", "RequireAndVerifyClientCert", "RequireAndVerifyAnyKeyUsageClientCert"}

func polIndex(name string) int {
	for i, p := range policies {
		if p == name {
			return i
		}
	}
	return 0
}

func isECDHE(suite string) bool { return suite == "e011" || suite == "e051" }

func suiteID(s string) uint16 {
	var v uint16
	fmt.Sscanf(s, "%x", &v)
	return v
}

// ---------------------------------------------------------------------------
// client certificate catalogue

type cliCerts struct {
	sig, enc *pki.Leaf // nil = none
	sigKey   any       // private key used with sig (wrongkey scenario), nil = sig.Key
}

func clientCerts(cli string) cliCerts {
	s, x := pki.Std(), pki.C07()
	switch cli {
	case "trusted":
		return cliCerts{sig: s.CliSig, enc: s.CliEnc}
	case "sigonly":
		return cliCerts{sig: s.CliSig}
	case "untrusted":
		return cliCerts{sig: s.CliOthSig, enc: s.CliOthEnc}
	case "expired":
		return cliCerts{sig: s.CliExpSig, enc: s.CliExpEnc}
	case "eku": // serverAuth only: inside the documented usage set, must be ACCEPTED
		return cliCerts{sig: s.CliEKUSig, enc: s.CliEKUEnc}
	case "ekucode": // codeSigning only: the "wrong extended key usage" of the property
		return cliCerts{sig: x.CodeSig, enc: x.CodeEnc}
	case "noeku":
		return cliCerts{sig: x.NoEKUSig, enc: x.NoEKUEnc}
	case "clionly":
		return cliCerts{sig: x.CliOnlySig, enc: x.CliOnlyEnc}
	case "wrongkey": // trusted certificate, CertificateVerify made with another key
		return cliCerts{sig: s.CliSig, enc: s.CliEnc, sigKey: s.OtherSig.Key}
	case "mixed": // trusted signing certificate, encryption certificate from an unknown CA
		return cliCerts{sig: s.CliSig, enc: s.CliOthEnc}
	case "mixedexp": // trusted signing certificate, expired encryption certificate
		return cliCerts{sig: s.CliSig, enc: s.CliExpEnc}
	case "p256": // foreign key type (the real client cannot sign with it)
		return cliCerts{sig: s.P256Sig, enc: s.P256Enc}
	// mixed pairs: ONE of the two certificates is bad, in each way a certificate can be bad
	// (the signing certificate matters on every suite, the encryption certificate on ECDHE)
	case "sigoth-encok":
		return cliCerts{sig: s.CliOthSig, enc: s.CliEnc}
	case "sigexp-encok":
		return cliCerts{sig: s.CliExpSig, enc: s.CliEnc}
	case "sigcode-encok":
		return cliCerts{sig: x.CodeSig, enc: s.CliEnc}
	case "sigok-enccode":
		return cliCerts{sig: s.CliSig, enc: x.CodeEnc}
	case "sigoth-encexp": // both bad, differently
		return cliCerts{sig: s.CliOthSig, enc: s.CliExpEnc}
	// somebody else's certificate with a foreign key type, CertificateVerify by an unrelated
	// SM2 key (the real client signs with whatever private key it is given)
	case "rsa-otherkey":
		return cliCerts{sig: x.RSASig, enc: s.CliEnc, sigKey: s.OtherSig.Key}
	case "rsaoth-otherkey":
		return cliCerts{sig: x.RSAOthSig, enc: s.CliEnc, sigKey: s.OtherSig.Key}
	case "p256-otherkey":
		return cliCerts{sig: s.P256Sig, enc: s.CliEnc, sigKey: s.OtherSig.Key}
	case "ed-otherkey":
		return cliCerts{sig: s.EdSig, enc: s.CliEnc, sigKey: s.OtherSig.Key}
	}
	return cliCerts{}
}

// ---------------------------------------------------------------------------
// wire sniffing (everything before ChangeCipherSpec is in the clear)

type hsMsg struct {
	typ  byte
	body []byte
	raw  []byte // as hashed into the transcript
}

type flight struct {
	msgs   []hsMsg
	ccs    bool
	after  int    // records after the ChangeCipherSpec
	alerts []byte // descriptions of plaintext alerts
}

// sniffStream parses a TLCP byte stream (5-byte record headers).
func sniffStream(data []byte) flight {
	var f flight
	var hand []byte
	for len(data) >= 5 {
		typ := data[0]
		n := int(data[3])<<8 | int(data[4])
		if len(data) < 5+n {
			break
		}
		payload := data[5 : 5+n]
		data = data[5+n:]
		if f.ccs {
			f.after++
			continue
		}
		switch typ {
		case 20:
			f.ccs = true
		case 21:
			if len(payload) == 2 {
				f.alerts = append(f.alerts, payload[1])
			}
		case 22:
			hand = append(hand, payload...)
		}
	}
	for len(hand) >= 4 {
		n := int(hand[1])<<16 | int(hand[2])<<8 | int(hand[3])
		if len(hand) < 4+n {
			break
		}
		f.msgs = append(f.msgs, hsMsg{typ: hand[0], body: hand[4 : 4+n], raw: hand[:4+n]})
		hand = hand[4+n:]
	}
	return f
}

// sniffPackets parses DTLCP datagrams (13-byte record headers, 12-byte handshake headers);
// epoch-0 handshake messages are collected once per message_seq (retransmissions repeat them).
func sniffPackets(dgrams [][]byte) flight {
	var f flight
	seen := map[int]bool{}
	for _, d := range dgrams {
		for len(d) >= 13 {
			typ := d[0]
			epoch := int(d[3])<<8 | int(d[4])
			n := int(d[11])<<8 | int(d[12])
			if len(d) < 13+n {
				break
			}
			payload := d[13 : 13+n]
			d = d[13+n:]
			if epoch > 0 {
				f.after++
				continue
			}
			switch typ {
			case 20:
				f.ccs = true
			case 21:
				if len(payload) == 2 {
					f.alerts = append(f.alerts, payload[1])
				}
			case 22:
				for len(payload) >= 12 {
					ln := int(payload[1])<<16 | int(payload[2])<<8 | int(payload[3])
					seq := int(payload[4])<<8 | int(payload[5])
					off := int(payload[6])<<16 | int(payload[7])<<8 | int(payload[8])
					fl := int(payload[9])<<16 | int(payload[10])<<8 | int(payload[11])
					if len(payload) < 12+fl {
						break
					}
					if off == 0 && fl == ln && !seen[seq] {
						seen[seq] = true
						f.msgs = append(f.msgs, hsMsg{typ: payload[0], body: payload[12 : 12+fl], raw: payload[:12+fl]})
					}
					payload = payload[12+fl:]
				}
			}
		}
	}
	return f
}

func (f flight) has(t byte) bool {
	for _, m := range f.msgs {
		if m.typ == t {
			return true
		}
	}
	return false
}

func (f flight) get(t byte) *hsMsg {
	for i := range f.msgs {
		if f.msgs[i].typ == t {
			return &f.msgs[i]
		}
	}
	return nil
}

// certList splits the body of a Certificate message.
func certList(body []byte) [][]byte {
	var out [][]byte
	if len(body) < 3 {
		return out
	}
	body = body[3:]
	for len(body) >= 3 {
		n := int(body[0])<<16 | int(body[1])<<8 | int(body[2])
		if len(body) < 3+n {
			break
		}
		out = append(out, body[3:3+n])
		body = body[3+n:]
	}
	return out
}

// ---------------------------------------------------------------------------
// verdicts of the real path validation

func b01(b bool) string {
	if b {
		return "1"
	}
	return "0"
}

// keyKind: s = SM2 curve, p = another curve, r = RSA, x = anything else
func keyKind(pub any) string {
	switch k := pub.(type) {
	case *ecdsa.PublicKey:
		if k.Curve == sm2.P256() {
			return "s"
		}
		return "p"
	case *rsa.PublicKey:
		return "r"
	}
	return "x"
}

// judgeCerts returns parse=, and the c0/c1 tokens: okClient okClientOrServer okAnyUsage keyKind
// for the certificate at index 0 and 1, validated like a server would (roots, time; the other
// certificates of the list as intermediates: from index 1 for ECC, from index 2 for ECDHE).
func judgeCerts(ders [][]byte, roots *smx509.CertPool, now time.Time, ecdhe bool) (parse string, toks [2]string) {
	toks = [2]string{"-", "-"}
	certs := make([]*smx509.Certificate, len(ders))
	parse = "1"
	for i, d := range ders {
		c, err := smx509.ParseCertificate(d)
		if err != nil {
			parse = "0"
			return
		}
		certs[i] = c
	}
	start := 1
	if ecdhe {
		start = 2
	}
	inter := smx509.NewCertPool()
	if len(certs) > start {
		for _, c := range certs[start:] {
			inter.AddCert(c)
		}
	}
	for i := 0; i < 2 && i < len(certs); i++ {
		v := func(us ...smx509.ExtKeyUsage) bool {
			_, err := certs[i].Verify(smx509.VerifyOptions{Roots: roots, CurrentTime: now, Intermediates: inter, KeyUsages: us})
			return err == nil
		}
		toks[i] = b01(v(smx509.ExtKeyUsageClientAuth)) + b01(v(smx509.ExtKeyUsageClientAuth, smx509.ExtKeyUsageServerAuth)) +
			b01(v(smx509.ExtKeyUsageAny)) + keyKind(certs[i].PublicKey)
	}
	return
}

// behaviour tokens of one connection from the two sniffed directions
type connInfo struct {
	ecdhe   bool
	cf, sf  flight
	cvBits  string // scenario knowledge: byLeafKey, overTranscript
	finOK   bool   // scenario knowledge: the Finished the client sends is the right one
	tlcp    bool
	ders    [][]byte
	roots   *smx509.CertPool
	now     time.Time
	resumed bool
}

func (ci *connInfo) tokens(k string) string {
	var sb strings.Builder
	w := func(key, val string) { fmt.Fprintf(&sb, " %s.%s=%s", k, key, val) }
	w("e", b01(ci.ecdhe))
	cm := ci.cf.get(11)
	w("msg", b01(cm != nil))
	ci.ders = nil
	if cm != nil {
		ci.ders = certList(cm.body)
	}
	w("n", fmt.Sprint(len(ci.ders)))
	parse, ct := judgeCerts(ci.ders, ci.roots, ci.now, ci.ecdhe)
	w("parse", parse)
	w("c0", ct[0])
	w("c1", ct[1])
	// which certificate heads the list THIS client presented (named by its bytes on the wire)
	if len(ci.ders) > 0 {
		w("leaf", fp(ci.ders[0]))
	} else {
		w("leaf", "-")
	}
	w("kx", b01(ci.cf.has(16)))
	cv := ci.cf.get(15)
	if cv == nil {
		w("cv", "none")
	} else {
		w("cv", ci.cvBits)
	}
	w("fin", b01(ci.cf.ccs && ci.cf.after > 0 && ci.finOK))
	// independent check of the CertificateVerify signature (TLCP only): SM2 over SM3 of the
	// handshake messages ClientHello … ClientKeyExchange in wire order
	if ci.tlcp && cv != nil && len(ci.ders) > 0 && parse == "1" {
		w("sig", b01(checkCV(ci)))
	}
	return sb.String()
}

func checkCV(ci *connInfo) bool {
	cv := ci.cf.get(15)
	leaf, err := smx509.ParseCertificate(ci.ders[0])
	if err != nil || len(cv.body) < 2 {
		return false
	}
	pub, ok := leaf.PublicKey.(*ecdsa.PublicKey)
	if !ok {
		return false
	}
	n := int(cv.body[0])<<8 | int(cv.body[1])
	if len(cv.body) < 2+n {
		return false
	}
	sig := cv.body[2 : 2+n]
	h := sm3.New()
	// wire order: ClientHello, server flight up to ServerHelloDone, client messages before CV
	first := true
	for _, m := range ci.cf.msgs {
		if m.typ == 1 && first {
			h.Write(m.raw)
			first = false
		}
	}
	for _, m := range ci.sf.msgs {
		h.Write(m.raw)
		if m.typ == 14 {
			break
		}
	}
	for _, m := range ci.cf.msgs {
		if m.typ == 1 {
			continue
		}
		if m.typ == 15 {
			break
		}
		h.Write(m.raw)
	}
	return sm2.VerifyASN1WithSM2(pub, nil, h.Sum(nil), sig)
}

// fp names a certificate by its BYTES, stably across runs (the catalogue's keys are generated per
// process, so a hash of the DER would differ from run to run): the first DER seen under a
// "<subject CN>@<issuer CN>" label keeps it, a different DER with the same names gets a numbered
// one (none in the catalogue); bytes that do not parse are named by their hash.
var (
	fpMu     sync.Mutex
	fpByDER  = map[string]string{}
	fpLabels = map[string]int{}
)

func fp(der []byte) string {
	h := sm3.Sum(der)
	key := string(h[:])
	fpMu.Lock()
	defer fpMu.Unlock()
	if l, ok := fpByDER[key]; ok {
		return l
	}
	label := "raw-" + hx.Hex(h[:4])
	if c, err := smx509.ParseCertificate(der); err == nil {
		clean := func(s string) string {
			if s == "" {
				return "?"
			}
			return strings.Map(func(r rune) rune {
				if r == ' ' || r == '=' || r == '\t' || r == '\n' {
					return '_'
				}
				return r
			}, s)
		}
		label = clean(c.Subject.CommonName) + "@" + clean(c.Issuer.CommonName)
	}
	fpLabels[label]++
	if n := fpLabels[label]; n > 1 {
		label = fmt.Sprintf("%s#%d", label, n)
	}
	fpByDER[key] = label
	return label
}

// leafOf / chainLeafOf: the names (fp) of PeerCertificates[0] and VerifiedChains[0][0] of a server's
// ConnectionState ("-": the list is empty)
func leafOf(peers []*smx509.Certificate) string {
	if len(peers) == 0 || peers[0] == nil {
		return "-"
	}
	return fp(peers[0].Raw)
}

func chainLeafOf(chains [][]*smx509.Certificate) string {
	if len(chains) == 0 || len(chains[0]) == 0 || chains[0][0] == nil {
		return "-"
	}
	return fp(chains[0][0].Raw)
}

// classify the server's error text
func errClass(err error) string {
	if err == nil {
		return "-"
	}
	s := err.Error()
	switch {
	case strings.Contains(s, "didn't provide a certificate"):
		return "nocert"
	case strings.Contains(s, "didn't provide both"):
		return "ecdhe2"
	case strings.Contains(s, "failed to parse client certificate"):
		return "parse"
	case strings.Contains(s, "unsupported public key"):
		return "keytype"
	case strings.Contains(s, "invalid signature by the client certificate"):
		return "pop"
	case strings.Contains(s, "Finished message is incorrect"):
		return "finished"
	case strings.Contains(s, "unexpected message"), strings.Contains(s, "unexpected handshake message"):
		return "order"
	case strings.Contains(s, "failed to verify certificate"), strings.Contains(s, "x509:"):
		return "chain"
	case strings.Contains(s, "no cipher suite supported"), strings.Contains(s, "no supported"):
		return "suite"
	case strings.Contains(s, "remote error"):
		return "peer-alert"
	case strings.Contains(s, "EOF"), strings.Contains(s, "closed"):
		return "eof"
	case strings.Contains(s, "timeout"), strings.Contains(s, "deadline"):
		return "timeout"
	case strings.HasPrefix(s, "panic"):
		return "panic"
	}
	var cve interface{ Unwrap() error }
	if errors.As(err, &cve) {
		return "chain"
	}
	return "other"
}

// observation tokens of one connection
type connObs struct {
	err           error
	resumed       bool
	peers, chains int
	pleaf, vleaf  string // names (fp) of PeerCertificates[0] / VerifiedChains[0][0] ("-": none)
	req           string // "-": the server never sent a full-handshake flight
	alert         string
	cliErr        error
	panicked      string
}

func (o connObs) tokens(k string) string {
	var sb strings.Builder
	w := func(key, val string) { fmt.Fprintf(&sb, " %s.%s=%s", k, key, val) }
	if o.panicked != "" {
		w("srv", "panic")
	} else if o.err == nil {
		w("srv", "done")
	} else {
		w("srv", "err")
	}
	if o.err == nil && o.panicked == "" {
		w("resumed", b01(o.resumed))
		w("peers", fmt.Sprint(o.peers))
		w("chains", b01(o.chains > 0))
		w("pleaf", o.pleaf)
		w("vleaf", o.vleaf)
	} else {
		w("resumed", "-")
		w("peers", "-")
		w("chains", "-")
		w("pleaf", "-")
		w("vleaf", "-")
	}
	w("req", o.req)
	w("cls", errClass(o.err))
	w("alert", o.alert)
	if o.cliErr == nil {
		w("cli", "ok")
	} else {
		w("cli", "err")
	}
	return sb.String()
}

// reqTok: was a CertificateRequest part of the server's full-handshake flight?
func reqTok(f flight) string {
	if !f.has(11) {
		return "-"
	}
	return b01(f.has(13))
}

// offerTok: does the (first) ClientHello of the flight carry a session id?
// body = version(2) random(32) session_id<0..32> …, on both stacks
func offerTok(f flight) string {
	m := f.get(1)
	return b01(m != nil && len(m.body) > 34 && m.body[34] > 0)
}

func alertTok(f flight) string {
	if len(f.alerts) == 0 {
		return "-"
	}
	return fmt.Sprint(f.alerts[0])
}

// ---------------------------------------------------------------------------
// scenarios

type scen struct {
	stack, kind, suite, pol, pol2, cfg2, cli string
	// scripted histories whose second connection differs from the first (phase decl): the suite the
	// second connection negotiates, why the offered session cannot be resumed (decl=cli: the second
	// ClientHello no longer offers the session's suite; decl=srv: the second server Config no longer
	// supports it) and the script the second client plays on the full handshake that follows
	suite2, decl, cli2 string
	offer              []string // not part of the description: the suites of this connection's ClientHello
}

func mkScen(stack, kind, suite, pol, pol2, cfg2, cli string) scen {
	return scen{stack: stack, kind: kind, suite: suite, pol: pol, pol2: pol2, cfg2: cfg2, cli: cli}
}

func (s scen) desc() string {
	d := fmt.Sprintf("stack=%s kind=%s suite=%s pol=%s", s.stack, s.kind, s.suite, s.pol)
	if s.kind == "hist" || s.kind == "shist" {
		d += fmt.Sprintf(" pol2=%s cfg2=%s", s.pol2, s.cfg2)
	}
	if s.decl != "" {
		d += fmt.Sprintf(" suite2=%s decl=%s cli2=%s", s.suite2, s.decl, s.cli2)
	}
	return d + " cli=" + s.cli
}

// the suites a scripted client's ClientHello offers
func (s scen) offered() []uint16 {
	if len(s.offer) == 0 {
		return []uint16{suiteID(s.suite)}
	}
	var out []uint16
	for _, x := range s.offer {
		out = append(out, suiteID(x))
	}
	return out
}

// second returns the scenario of the second connection of a scripted history and the suites of
// the second server Config.
func (s scen) second() (scen, []uint16) {
	if s.decl == "" {
		return s, []uint16{suiteID(s.suite)}
	}
	s2 := s
	s2.suite, s2.cli = s.suite2, s.cli2
	switch s.decl {
	case "srv": // the client still offers the session's suite, the server no longer supports it
		s2.offer = []string{s.suite, s.suite2}
		return s2, []uint16{suiteID(s.suite2)}
	default: // "cli": the server still supports the session's suite, the client no longer offers it
		s2.offer = []string{s.suite2}
		return s2, []uint16{suiteID(s.suite2), suiteID(s.suite)}
	}
}

// mechTok: the checks of a resumption that have nothing to do with client authentication hold —
// the second ClientHello (sniffed) still offers the suite of the first connection and the second
// server Config (scenario) still supports it.
func mechTok(ci2 *connInfo, sessionSuite string, srv2 []uint16) string {
	want := suiteID(sessionSuite)
	off, sup := false, false
	for _, x := range helloSuites(ci2.cf, !ci2.tlcp) {
		off = off || x == want
	}
	for _, x := range srv2 {
		sup = sup || x == want
	}
	return b01(off && sup)
}

// helloSuites: the cipher suites of the (first) ClientHello of the flight.
// body = version(2) random(32) session_id<0..32> [DTLCP: cookie<0..255>] cipher_suites<2..>
func helloSuites(f flight, dtls bool) []uint16 {
	m := f.get(1)
	if m == nil || len(m.body) < 35 {
		return nil
	}
	b := m.body[34:]
	skip := func() bool {
		if len(b) < 1 || len(b) < 1+int(b[0]) {
			return false
		}
		b = b[1+int(b[0]):]
		return true
	}
	if !skip() || (dtls && !skip()) || len(b) < 2 {
		return nil
	}
	n := int(b[0])<<8 | int(b[1])
	b = b[2:]
	if len(b) < n {
		return nil
	}
	var out []uint16
	for i := 0; i+1 < n; i += 2 {
		out = append(out, uint16(b[i])<<8|uint16(b[i+1]))
	}
	return out
}

// histTail: the tokens of a history that relate its two connections
func histTail(ci1, ci2 *connInfo, sessionSuite string, srv2 []uint16, roots2 *smx509.CertPool, now2 time.Time) string {
	_, nowToks := judgeCerts(ci1.ders, roots2, now2, ci1.ecdhe)
	return fmt.Sprintf(" 2.offer=%s 2.mech=%s now0=%s now1=%s", offerTok(ci2.cf), mechTok(ci2, sessionSuite, srv2), nowToks[0], nowToks[1])
}

func parseScen(desc string) scen {
	var s scen
	s.stack, _ = hx.KV(desc, "stack")
	s.kind, _ = hx.KV(desc, "kind")
	s.suite, _ = hx.KV(desc, "suite")
	s.pol, _ = hx.KV(desc, "pol")
	s.pol2, _ = hx.KV(desc, "pol2")
	s.cfg2, _ = hx.KV(desc, "cfg2")
	s.cli, _ = hx.KV(desc, "cli")
	s.suite2, _ = hx.KV(desc, "suite2")
	s.decl, _ = hx.KV(desc, "decl")
	s.cli2, _ = hx.KV(desc, "cli2")
	return s
}

// roots / time of the second server configuration of a history
func cfg2Of(name string) (*smx509.CertPool, time.Time) {
	st := pki.Std()
	switch name {
	case "otherca":
		return st.Other.Pool, pki.Now
	case "later":
		return st.Root.Pool, pki.Now.Add(60 * 24 * time.Hour)
	}
	return st.Root.Pool, pki.Now
}

// execute runs one scenario on the real code and returns the full trace line parts.
func execute(s scen) (caseLine, obs string) {
	var caseTok, obsTok string
	p := hx.Guard(func() {
		if s.stack == "dtlcp" {
			caseTok, obsTok = runDTLCP(s)
		} else {
			caseTok, obsTok = runTLCP(s)
		}
	})
	if p != "" {
		return s.desc() + " 1.e=0 1.msg=0 1.n=0 1.parse=1 1.c0=- 1.c1=- 1.kx=0 1.cv=none 1.fin=0", "panic=" + p
	}
	return s.desc() + caseTok, strings.TrimSpace(obsTok)
}

var realClients = []string{"none", "trusted", "sigonly", "untrusted", "expired", "eku", "ekucode", "noeku",
	"clionly", "wrongkey", "mixed", "mixedexp", "p256",
	"sigoth-encok", "sigexp-encok", "sigcode-encok", "sigok-enccode", "sigoth-encexp",
	"rsa-otherkey", "rsaoth-otherkey", "p256-otherkey", "ed-otherkey"}

var scriptClients = []string{"s-good", "s-nocv", "s-cvotherkey", "s-cvothertr", "s-cvnocert", "s-cvnomsg",
	"s-unreq", "s-nomsg", "s-onecert", "s-onecert-nocv", "s-edsig", "s-garbage", "s-badfin", "s-untrusted-nocv", "s-empty",
	"s-cvgarbage", "s-cvemptysig",
	"s-rsa-otherkey", "s-rsa-garbage", "s-rsa-emptysig", "s-rsa-nocv", "s-rsa-rsasig", "s-rsaoth-otherkey",
	"s-p256-otherkey", "s-p256-garbage", "s-p256-nocv", "s-ed-garbage", "s-ed-nocv"}

// ---------------------------------------------------------------------------
// scripted clients, the plan shared by both stacks

type scriptPlan struct {
	sig, enc   *pki.Leaf // the pair the script is configured with (signs the CertificateVerify by default)
	certs      [][]byte  // chain to send instead of the configured pair (nil: the pair)
	emptyCerts bool      // send an empty certificate list
	sendCert   int       // 0: iff requested, 1: always, -1: never
	sendCV     int       // 0: iff requested, 1: always, -1: never
	cvKey      crypto.PrivateKey
	cvBody     func(transcriptHash []byte) []byte // CertificateVerify body to send instead of a generated one
	cvBits     string                             // scenario knowledge: byLeafKey, overTranscript
	finOK      bool
}

// cvFrame puts the 2-byte length in front of a signature.
func cvFrame(sig []byte) []byte { return append([]byte{byte(len(sig) >> 8), byte(len(sig))}, sig...) }

// a well-formed ASN.1 SEQUENCE{INTEGER r, INTEGER s} that is nobody's signature
var garbageSig = []byte{0x30, 0x0a, 0x02, 0x03, 0x01, 0x02, 0x03, 0x02, 0x03, 0x04, 0x05, 0x06}

func scriptPlanOf(cli string) scriptPlan {
	st, x := pki.Std(), pki.C07()
	pl := scriptPlan{sig: st.CliSig, enc: st.CliEnc, cvBits: "11", finOK: true}
	garbage := func([]byte) []byte { return cvFrame(garbageSig) }
	empty := func([]byte) []byte { return cvFrame(nil) }
	foreign := func(leaf *pki.Leaf) { pl.certs = [][]byte{leaf.DER, pl.enc.DER} }
	switch cli {
	case "s-good":
	case "s-eku": // ANOTHER identity under the trusted root (serverAuth-only usage: inside the documented set)
		pl.sig, pl.enc = st.CliEKUSig, st.CliEKUEnc
	case "s-untrusted": // a pair under an unknown CA, proof of possession in order
		pl.sig, pl.enc = st.CliOthSig, st.CliOthEnc
	case "s-nocv":
		pl.sendCV = -1
	case "s-untrusted-nocv":
		pl.sig, pl.enc = st.CliOthSig, st.CliOthEnc
		pl.sendCV = -1
	case "s-cvotherkey":
		pl.cvKey, pl.cvBits = st.OtherSig.Key, "01"
	case "s-cvothertr":
		key := pl.sig.Key
		pl.cvBody, pl.cvBits = func([]byte) []byte { return signOther(key) }, "10"
	case "s-cvgarbage":
		pl.cvBody, pl.cvBits = garbage, "00"
	case "s-cvemptysig":
		pl.cvBody, pl.cvBits = empty, "00"
	case "s-cvnocert":
		pl.emptyCerts, pl.sendCV, pl.cvBits = true, 1, "01"
	case "s-cvnomsg":
		pl.sendCert, pl.sendCV, pl.cvBits = -1, 1, "01"
	case "s-unreq":
		pl.sendCert, pl.sendCV = 1, 1
	case "s-nomsg":
		pl.sendCert, pl.sendCV = -1, -1
	case "s-onecert-nocv":
		pl.certs, pl.sendCV = [][]byte{pl.sig.DER}, -1
	case "s-onecert":
		pl.certs = [][]byte{pl.sig.DER}
	case "s-edsig": // Ed25519 certificate, CertificateVerify by the configured SM2 key
		foreign(st.EdSig)
		pl.cvBits = "01"
	case "s-ed-garbage":
		foreign(st.EdSig)
		pl.cvBody, pl.cvBits = garbage, "00"
	case "s-ed-nocv":
		foreign(st.EdSig)
		pl.sendCV = -1
	case "s-garbage":
		pl.certs, pl.cvBits = [][]byte{{0x30, 0x03, 0x01, 0x01, 0xff}, pl.enc.DER}, "01"
	case "s-badfin":
		pl.finOK = false
	case "s-empty":
		pl.emptyCerts, pl.sendCV = true, -1
	// somebody else's certificate with an RSA key: whatever follows, nothing proves possession
	case "s-rsa-otherkey":
		foreign(x.RSASig)
		pl.cvKey, pl.cvBits = st.OtherSig.Key, "01"
	case "s-rsaoth-otherkey":
		foreign(x.RSAOthSig)
		pl.cvKey, pl.cvBits = st.OtherSig.Key, "01"
	case "s-rsa-garbage":
		foreign(x.RSASig)
		pl.cvBody, pl.cvBits = garbage, "00"
	case "s-rsa-emptysig":
		foreign(x.RSASig)
		pl.cvBody, pl.cvBits = empty, "00"
	case "s-rsa-nocv":
		foreign(x.RSASig)
		pl.sendCV = -1
	case "s-rsa-rsasig": // a genuine RSA signature by the certificate's own key over the transcript:
		// made with the leaf key over the right transcript, yet not a signature of the suite's scheme
		foreign(x.RSASig)
		key := x.RSASig.Key.(*rsa.PrivateKey)
		pl.cvBody = func(th []byte) []byte {
			sig, err := rsa.SignPKCS1v15(rand.Reader, key, crypto.SHA256, th)
			if err != nil {
				sig = []byte{0}
			}
			return cvFrame(sig)
		}
	// a P-256 certificate (the type assertion to *ecdsa.PublicKey succeeds, the SM2 verification decides)
	case "s-p256-otherkey":
		foreign(st.P256Sig)
		pl.cvKey, pl.cvBits = st.OtherSig.Key, "01"
	case "s-p256-garbage":
		foreign(st.P256Sig)
		pl.cvBody, pl.cvBits = garbage, "00"
	case "s-p256-nocv":
		foreign(st.P256Sig)
		pl.sendCV = -1
	}
	return pl
}

func (pl scriptPlan) decide(requested bool) (sendCert, sendCV bool) {
	sendCert, sendCV = requested, requested
	if pl.sendCert != 0 {
		sendCert = pl.sendCert > 0
	}
	if pl.sendCV != 0 {
		sendCV = pl.sendCV > 0
	}
	return
}

// transcriptHash is SM3 over the handshake messages the script has sent and received so far
func transcriptHash(msgs [][]byte) []byte {
	h := sm3.New()
	for _, m := range msgs {
		h.Write(m)
	}
	return h.Sum(nil)
}

func generate(o hx.Opts) []scen {
	var out []scen
	thorough := o.Tier == "thorough" || o.Scale > 1
	suites := []string{"e013", "e051"}
	if thorough {
		suites = []string{"e013", "e053", "e011", "e051"}
	}
	want := func(phase string) bool { return o.Phase == "" || o.Phase == phase }
	stacks := []string{"tlcp", "dtlcp"}
	// witnesses first: F6 (session made without a certificate resumed under a requiring policy;
	// session with an unverified certificate resumed under a verifying policy), F52
	if want("hist") {
		for _, st := range stacks {
			out = append(out,
				mkScen(st, "hist", "e013", "NoClientCert", "RequireAndVerifyClientCert", "same", "none"),
				mkScen(st, "hist", "e013", "RequireAnyClientCert", "RequireAndVerifyClientCert", "same", "untrusted"),
				mkScen(st, "hist", "e013", "RequireAndVerifyClientCert", "RequireAndVerifyClientCert", "otherca", "trusted"))
		}
	}
	if want("full") {
		for _, st := range stacks {
			out = append(out, mkScen(st, "full", "e013", "RequireAndVerifyClientCert", "", "", "eku"))
			for _, su := range suites {
				for _, pol := range policies {
					for _, cli := range realClients {
						if isECDHE(su) && (cli == "none" || cli == "sigonly") {
							continue // a real client without two certificates does not offer ECDHE
						}
						out = append(out, mkScen(st, "full", su, pol, "", "", cli))
					}
				}
			}
		}
	}
	if want("script") {
		for _, st := range stacks {
			if st == "dtlcp" && !dtlcpScriptAvailable {
				continue
			}
			for _, su := range suites {
				for _, pol := range policies {
					for _, cli := range scriptClients {
						out = append(out, mkScen(st, "script", su, pol, "", "", cli))
					}
				}
			}
		}
	}
	if want("hist") {
		clis := []string{"none", "trusted", "untrusted", "eku"}
		if thorough {
			clis = []string{"none", "trusted", "sigonly", "untrusted", "expired", "eku", "ekucode", "noeku", "mixed",
				"sigoth-encok", "sigexp-encok", "sigok-enccode"}
		}
		for _, st := range stacks {
			for _, su := range suites {
				for _, p1 := range policies {
					for _, p2 := range policies {
						for _, cli := range clis {
							if isECDHE(su) && (cli == "none" || cli == "sigonly") {
								continue
							}
							out = append(out, mkScen(st, "hist", su, p1, p2, "same", cli))
						}
					}
				}
				// a second configuration with other client roots / a later clock
				for _, c2 := range []string{"otherca", "later"} {
					for _, p1 := range []string{"RequestClientCert", "RequireAnyClientCert", "RequireAndVerifyClientCert"} {
						for _, p2 := range policies {
							out = append(out, mkScen(st, "hist", su, p1, p2, c2, "trusted"))
						}
					}
				}
			}
		}
	}
	// scripted histories: the second connection offers the session id the first one announced,
	// with the master secret the script derived itself — after EVERY kind of first connection
	// (completed, refused at the certificates, at the CertificateVerify, at the Finished, …)
	if want("shist") {
		for _, st := range stacks {
			if st == "dtlcp" && !dtlcpScriptAvailable {
				continue
			}
			// the plain attack first: somebody else's trusted certificate, CertificateVerify by another key
			out = append(out, mkScen(st, "shist", "e013", "RequireAndVerifyClientCert", "RequireAndVerifyClientCert", "same", "s-cvotherkey"))
			for _, su := range suites {
				for _, p1 := range policies {
					for _, p2 := range policies {
						for _, cli := range scriptClients {
							out = append(out, mkScen(st, "shist", su, p1, p2, "same", cli))
						}
					}
				}
				// a second configuration with other client roots / a later clock
				for _, c2 := range []string{"otherca", "later"} {
					for _, p1 := range []string{"RequireAnyClientCert", "RequireAndVerifyClientCert"} {
						for _, cli := range scriptClients {
							out = append(out, mkScen(st, "shist", su, p1, "RequireAndVerifyClientCert", c2, cli))
						}
					}
				}
			}
		}
	}
	// DECLINED resumptions: the second ClientHello offers the session id the first connection
	// announced, but the session cannot be resumed for a reason that has nothing to do with client
	// authentication — its suite is no longer offered by the client (decl=cli) or no longer
	// supported by the server (decl=srv) — so a full handshake follows on the same connection object,
	// in which ANOTHER scripted client presents nothing (empty list / no Certificate message), the
	// same certificate, a different trusted one, an untrusted one, or a certificate without proof
	// of possession. Whatever checkForResumption looked at, the connection must report what THIS
	// client presented.
	if want("decl") {
		type sp struct{ s1, s2, decl string }
		pairs := []sp{{"e053", "e013", "cli"}, {"e053", "e013", "srv"}, {"e051", "e013", "cli"}, {"e013", "e051", "cli"}}
		if thorough {
			pairs = append(pairs, sp{"e013", "e053", "cli"}, sp{"e013", "e053", "srv"}, sp{"e051", "e053", "srv"},
				sp{"e011", "e051", "cli"}, sp{"e013", "e011", "srv"})
		}
		firsts := []string{"s-good", "s-eku", "s-empty", "s-untrusted"}
		seconds := []string{"s-empty", "s-nomsg", "s-good", "s-eku", "s-untrusted", "s-nocv"}
		for _, st := range stacks {
			if st == "dtlcp" && !dtlcpScriptAvailable {
				continue
			}
			// the plain case first: a certificate holder's session, then somebody without a certificate
			out = append(out, scen{stack: st, kind: "shist", suite: "e053", pol: "VerifyClientCertIfGiven", pol2: "VerifyClientCertIfGiven",
				cfg2: "same", cli: "s-good", suite2: "e013", decl: "cli", cli2: "s-empty"})
			for _, pr := range pairs {
				for _, p1 := range policies {
					for _, p2 := range policies {
						for _, c1 := range firsts {
							for _, c2 := range seconds {
								out = append(out, scen{stack: st, kind: "shist", suite: pr.s1, pol: p1, pol2: p2, cfg2: "same",
									cli: c1, suite2: pr.s2, decl: pr.decl, cli2: c2})
							}
						}
					}
				}
			}
			// … and under a second configuration in which the session's certificates no longer verify
			for _, c2 := range []string{"otherca", "later"} {
				for _, p2 := range []string{"VerifyClientCertIfGiven", "RequireAndVerifyClientCert"} {
					for _, cl2 := range seconds {
						out = append(out, scen{stack: st, kind: "shist", suite: "e053", pol: "RequireAndVerifyClientCert", pol2: p2, cfg2: c2,
							cli: "s-good", suite2: "e013", decl: "cli", cli2: cl2})
					}
				}
			}
		}
	}
	// de-duplicate, keeping order
	seen := map[string]bool{}
	var uniq []scen
	for _, s := range out {
		d := s.desc()
		if !seen[d] {
			seen[d] = true
			uniq = append(uniq, s)
		}
	}
	return uniq
}

func main() {
	o := hx.ParseOpts()
	tr := hx.NewTrace(o.Out)
	defer tr.Close()
	pki.Std()
	pki.C07()
	var scens []scen
	if o.Replay != "" {
		for _, d := range hx.ReplayCases(o.Replay) {
			scens = append(scens, parseScen(d))
		}
	} else {
		scens = generate(o)
	}
	type res struct{ c, o string }
	results := make([]res, len(scens))
	var wg sync.WaitGroup
	sem := make(chan struct{}, 12)
	for i := range scens {
		wg.Add(1)
		sem <- struct{}{}
		go func(i int) {
			defer wg.Done()
			defer func() { <-sem }()
			c, ob := execute(scens[i])
			results[i] = res{c, ob}
		}(i)
	}
	wg.Wait()
	hist := map[string]int{}
	for _, r := range results {
		tr.Line(r.c, r.o)
		for _, t := range strings.Fields(r.o) {
			if strings.HasSuffix(strings.SplitN(t, "=", 2)[0], ".cls") || strings.HasSuffix(strings.SplitN(t, "=", 2)[0], ".srv") {
				hist[t]++
			}
		}
	}
	var keys []string
	for k := range hist {
		keys = append(keys, k)
	}
	sort.Strings(keys)
	for _, k := range keys {
		fmt.Fprintf(os.Stderr, "c07: %-22s %d\n", k, hist[k])
	}
	fmt.Fprintf(os.Stderr, "c07: %d cases\n", len(results))
}

package main

import (
	"fmt"
	"time"

	"github.com/emmansun/gmsm/smx509"

	"gitee.com/Trisia/gotlcp/dtlcp"
	"verifharness/internal/pair"
	"verifharness/internal/pki"
)

// the DTLCP scripted peer (/repo/dtlcp/verif_script.go) is wired in dtlcp_script.go when it exists
var dtlcpScriptAvailable = false

var dtlcpScriptRun func(s scen) (string, string)

var dtlcpScriptHistRun func(s scen) (string, string)

var dtlcpPolicies = map[string]dtlcp.ClientAuthType{
	"NoClientCert": dtlcp.NoClientCert, "RequestClientCert": dtlcp.RequestClientCert,
	"RequireAnyClientCert": dtlcp.RequireAnyClientCert, "VerifyClientCertIfGiven": dtlcp.VerifyClientCertIfGiven,
	"RequireAndVerifyClientCert":            dtlcp.RequireAndVerifyClientCert,
	"RequireAndVerifyAnyKeyUsageClientCert": dtlcp.RequireAndVerifyAnyKeyUsageClientCert,
}

func dServer(pol, suite string, roots *smx509.CertPool, now time.Time, cache dtlcp.SessionCache) *dtlcp.Config {
	cfg := pair.DServer()
	cfg.ClientAuth = dtlcpPolicies[pol]
	cfg.ClientCAs = roots
	cfg.CipherSuites = []uint16{suiteID(suite)}
	cfg.Time = func() time.Time { return now }
	cfg.SessionCache = cache
	return cfg
}

func dClient(cli string, cache dtlcp.SessionCache) *dtlcp.Config {
	cfg := pair.DClient()
	cfg.SessionCache = cache
	cc := clientCerts(cli)
	if cc.sig != nil {
		key := cc.sig.Key
		if cc.sigKey != nil {
			key = cc.sigKey
		}
		sigC := dtlcp.Certificate{Certificate: [][]byte{cc.sig.DER}, PrivateKey: key}
		cfg.Certificates = []dtlcp.Certificate{sigC}
		cfg.GetClientCertificate = func(*dtlcp.CertificateRequestInfo) (*dtlcp.Certificate, error) { return &sigC, nil }
		if cc.enc != nil {
			encC := dtlcp.Certificate{Certificate: [][]byte{cc.enc.DER}, PrivateKey: cc.enc.Key}
			cfg.Certificates = append(cfg.Certificates, encC)
			cfg.GetClientKECertificate = func(*dtlcp.CertificateRequestInfo) (*dtlcp.Certificate, error) { return &encC, nil }
		}
	}
	return cfg
}

func dtlcpConn(ccfg, scfg *dtlcp.Config, s scen, roots *smx509.CertPool, now time.Time) (*connInfo, connObs) {
	c, srv, ce, se, r := pair.DTLCP(ccfg, scfg, nil)
	ci := &connInfo{ecdhe: isECDHE(s.suite), cf: sniffPackets(ce.SentCopy()), sf: sniffPackets(se.SentCopy()),
		cvBits: cvBitsOf(s.cli), finOK: true, roots: roots, now: now}
	st := srv.ConnectionState()
	ob := connObs{err: r.SErr, resumed: st.DidResume, peers: len(st.PeerCertificates), chains: len(st.VerifiedChains),
		pleaf: leafOf(st.PeerCertificates), vleaf: chainLeafOf(st.VerifiedChains),
		req: reqTok(ci.sf), alert: alertTok(ci.sf), cliErr: r.CErr}
	if r.TimedOut && ob.err == nil {
		ob.err = fmt.Errorf("timeout")
	}
	// stop timers / dwell goroutines
	go func() { c.Close(); srv.Close(); ce.Close(); se.Close() }()
	return ci, ob
}

func runDTLCP(s scen) (string, string) {
	st := pki.Std()
	switch s.kind {
	case "script":
		if dtlcpScriptRun != nil {
			return dtlcpScriptRun(s)
		}
		return " 1.e=0 1.msg=0 1.n=0 1.parse=1 1.c0=- 1.c1=- 1.kx=0 1.cv=none 1.fin=0", "skipped=no-dtlcp-script"
	case "shist":
		if dtlcpScriptHistRun != nil {
			return dtlcpScriptHistRun(s)
		}
		return " 1.e=0 1.msg=0 1.n=0 1.parse=1 1.c0=- 1.c1=- 1.kx=0 1.cv=none 1.fin=0", "skipped=no-dtlcp-script"
	case "hist":
		cache := dtlcp.NewLRUSessionCache(8)
		ccfg := dClient(s.cli, dtlcp.NewLRUSessionCache(8))
		ci1, ob1 := dtlcpConn(ccfg, dServer(s.pol, s.suite, st.Root.Pool, pki.Now, cache), s, st.Root.Pool, pki.Now)
		t1 := ci1.tokens("1")
		roots2, now2 := cfg2Of(s.cfg2)
		ci2, ob2 := dtlcpConn(ccfg, dServer(s.pol2, s.suite, roots2, now2, cache), s, roots2, now2)
		t2 := ci2.tokens("2")
		return t1 + t2 + histTail(ci1, ci2, s.suite, []uint16{suiteID(s.suite)}, roots2, now2), ob1.tokens("1") + ob2.tokens("2")
	default:
		ci, ob := dtlcpConn(dClient(s.cli, nil), dServer(s.pol, s.suite, st.Root.Pool, pki.Now, nil), s, st.Root.Pool, pki.Now)
		return ci.tokens("1"), ob.tokens("1")
	}
}

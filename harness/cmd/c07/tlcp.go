package main

import (
	"crypto"
	"crypto/rand"
	"fmt"
	"time"

	"github.com/emmansun/gmsm/sm2"
	"github.com/emmansun/gmsm/sm3"
	"github.com/emmansun/gmsm/smx509"

	"gitee.com/Trisia/gotlcp/tlcp"
	"verifharness/internal/pair"
	"verifharness/internal/pki"
)

// by identifier, so that a re-ordering of the constants in the source keeps the *named* policy
var tlcpPolicies = map[string]tlcp.ClientAuthType{
	"NoClientCert": tlcp.NoClientCert, "RequestClientCert": tlcp.RequestClientCert,
	"RequireAnyClientCert": tlcp.RequireAnyClientCert, "VerifyClientCertIfGiven": tlcp.VerifyClientCertIfGiven,
	"RequireAndVerifyClientCert":            tlcp.RequireAndVerifyClientCert,
	"RequireAndVerifyAnyKeyUsageClientCert": tlcp.RequireAndVerifyAnyKeyUsageClientCert,
}

func tServer(pol, suite string, roots *smx509.CertPool, now time.Time, cache tlcp.SessionCache) *tlcp.Config {
	cfg := pair.TServer()
	cfg.ClientAuth = tlcpPolicies[pol]
	cfg.ClientCAs = roots
	cfg.CipherSuites = []uint16{suiteID(suite)}
	cfg.Time = func() time.Time { return now }
	cfg.SessionCache = cache
	return cfg
}

func tClient(cli string, cache tlcp.SessionCache) *tlcp.Config {
	cfg := pair.TClient()
	cfg.SessionCache = cache
	cc := clientCerts(cli)
	if cc.sig != nil {
		key := cc.sig.Key
		if cc.sigKey != nil {
			key = cc.sigKey
		}
		sigC := tlcp.Certificate{Certificate: [][]byte{cc.sig.DER}, PrivateKey: key}
		cfg.Certificates = []tlcp.Certificate{sigC}
		// callbacks: send the certificates whatever CAs the server names
		cfg.GetClientCertificate = func(*tlcp.CertificateRequestInfo) (*tlcp.Certificate, error) { return &sigC, nil }
		if cc.enc != nil {
			encC := tlcp.Certificate{Certificate: [][]byte{cc.enc.DER}, PrivateKey: cc.enc.Key}
			cfg.Certificates = append(cfg.Certificates, encC)
			cfg.GetClientKECertificate = func(*tlcp.CertificateRequestInfo) (*tlcp.Certificate, error) { return &encC, nil }
		}
	}
	return cfg
}

func cvBitsOf(cli string) string {
	// wrongkey: signed with a key that is not the certificate's; p256: an ECDSA P-256 signature
	// is not an SM2 signature under the certificate's key (the independent check agrees)
	switch cli {
	case "wrongkey", "p256", "rsa-otherkey", "rsaoth-otherkey", "p256-otherkey", "ed-otherkey":
		return "01"
	}
	return "11"
}

// one real-client connection
func tlcpConn(ccfg, scfg *tlcp.Config, s scen, roots *smx509.CertPool, now time.Time) (*connInfo, connObs) {
	c, srv, ce, se, r := pair.TLCP(ccfg, scfg, nil)
	defer ce.Close()
	defer se.Close()
	_ = c
	ci := &connInfo{ecdhe: isECDHE(s.suite), cf: sniffStream(ce.SentBytes()), sf: sniffStream(se.SentBytes()),
		cvBits: cvBitsOf(s.cli), finOK: true, tlcp: true, roots: roots, now: now}
	st := srv.ConnectionState()
	ob := connObs{err: r.SErr, resumed: st.DidResume, peers: len(st.PeerCertificates), chains: len(st.VerifiedChains),
		pleaf: leafOf(st.PeerCertificates), vleaf: chainLeafOf(st.VerifiedChains),
		req: reqTok(ci.sf), alert: alertTok(ci.sf), cliErr: r.CErr}
	if r.TimedOut && ob.err == nil {
		ob.err = fmt.Errorf("timeout")
	}
	return ci, ob
}

func runTLCP(s scen) (string, string) {
	st := pki.Std()
	switch s.kind {
	case "script":
		return tlcpScript(s)
	case "shist":
		return tlcpScriptHist(s)
	case "hist":
		cache := tlcp.NewLRUSessionCache(8)
		ccfg := tClient(s.cli, tlcp.NewLRUSessionCache(8))
		ci1, ob1 := tlcpConn(ccfg, tServer(s.pol, s.suite, st.Root.Pool, pki.Now, cache), s, st.Root.Pool, pki.Now)
		t1 := ci1.tokens("1")
		roots2, now2 := cfg2Of(s.cfg2)
		ci2, ob2 := tlcpConn(ccfg, tServer(s.pol2, s.suite, roots2, now2, cache), s, roots2, now2)
		t2 := ci2.tokens("2")
		return t1 + t2 + histTail(ci1, ci2, s.suite, []uint16{suiteID(s.suite)}, roots2, now2), ob1.tokens("1") + ob2.tokens("2")
	default:
		ci, ob := tlcpConn(tClient(s.cli, nil), tServer(s.pol, s.suite, st.Root.Pool, pki.Now, nil), s, st.Root.Pool, pki.Now)
		return ci.tokens("1"), ob.tokens("1")
	}
}

// ---------------------------------------------------------------------------
// scripted clients (B)

// signOther makes a CertificateVerify body signed by key over a *different* transcript
func signOther(key crypto.PrivateKey) []byte {
	h := sm3.Sum([]byte("a different handshake transcript"))
	sig, err := key.(crypto.Signer).Sign(rand.Reader, h[:], sm2.NewSM2SignerOption(true, nil))
	if err != nil {
		sig = []byte{0x30, 0x00}
	}
	return append([]byte{byte(len(sig) >> 8), byte(len(sig))}, sig...)
}

// sessOffer is what a scripted client keeps of a connection in order to ask for its resumption:
// the session id the server announced and the master secret the script derived ITSELF (from its
// own pre-master secret) — whether or not the server went on to accept the handshake.
type sessOffer struct {
	id, master []byte
}

func tlcpScript(s scen) (string, string) {
	st := pki.Std()
	ci, ob, _ := tlcpScriptConn(s, tServer(s.pol, s.suite, st.Root.Pool, pki.Now, nil), nil, st.Root.Pool, pki.Now)
	return ci.tokens("1"), ob.tokens("1")
}

// tlcpScriptHist: two connections of the scripted client s.cli against two server Configs sharing
// one SessionCache; the second connection offers the session of the first (completed or not).
func tlcpScriptHist(s scen) (string, string) {
	st := pki.Std()
	cache := tlcp.NewLRUSessionCache(8)
	ci1, ob1, offer := tlcpScriptConn(s, tServer(s.pol, s.suite, st.Root.Pool, pki.Now, cache), nil, st.Root.Pool, pki.Now)
	t1 := ci1.tokens("1")
	roots2, now2 := cfg2Of(s.cfg2)
	// the second connection: the same script on the same suite, or (phase decl) another script on
	// another suite, the session's suite no longer offered by the client / supported by the server
	s2, srv2 := s.second()
	scfg2 := tServer(s.pol2, s2.suite, roots2, now2, cache)
	scfg2.CipherSuites = srv2
	ci2, ob2, _ := tlcpScriptConn(s2, scfg2, offer, roots2, now2)
	t2 := ci2.tokens("2")
	return t1 + t2 + histTail(ci1, ci2, s.suite, srv2, roots2, now2), ob1.tokens("1") + ob2.tokens("2")
}

// tlcpScriptConn runs one scripted-client connection against a real server. With an offer the
// ClientHello carries its session id; when the server resumes, the script finishes the abbreviated
// handshake with the offered master secret, otherwise it plays its plan on the full handshake.
func tlcpScriptConn(s scen, scfg *tlcp.Config, offer *sessOffer, roots *smx509.CertPool, now time.Time) (*connInfo, connObs, *sessOffer) {
	st := pki.Std()
	ce, se := pair.StreamPipe()
	defer ce.Close()
	defer se.Close()
	srv := tlcp.Server(se, scfg)
	done := make(chan error, 1)
	var panicked string
	go func() {
		var err error
		defer func() {
			if r := recover(); r != nil {
				panicked = fmt.Sprint(r)
				err = fmt.Errorf("panic: %v", r)
			}
			done <- err
		}()
		err = srv.Handshake()
	}()

	pl := scriptPlanOf(s.cli)
	ccfg := &tlcp.Config{
		Certificates: []tlcp.Certificate{pair.TCert(pl.sig), pair.TCert(pl.enc)},
		CipherSuites: s.offered(), Time: pki.NowFn, RootCAs: st.Root.Pool,
	}
	sc := tlcp.NewVerifScript("client", ce, ccfg)
	if offer != nil {
		sc.SessionID, sc.ResumeMaster = offer.id, offer.master
	}
	cvBits, finOK := pl.cvBits, pl.finOK

	// everything the script does runs under a watchdog: closing the pipe unblocks it
	fin := make(chan struct{})
	go func() {
		defer close(fin)
		defer func() { recover() }()
		if sc.Send("ClientHello", nil) != nil {
			return
		}
		for {
			ev, err := sc.ReadMsg()
			if err != nil || ev.Kind == "Alert" {
				return
			}
			if ev.Kind == "ServerHello" && sc.Resuming {
				// abbreviated handshake: ChangeCipherSpec, Finished of the server, then ours —
				// computed with the master secret the script brought along
				finOK = true
				if sc.ExpectCCS() != nil {
					return
				}
				if ev, err := sc.ReadMsg(); err != nil || ev.Kind != "Finished" {
					return
				}
				if sc.SendCCS() != nil {
					return
				}
				_ = sc.Send("Finished", nil)
				return
			}
			if ev.Kind == "ServerHelloDone" {
				break
			}
		}
		sendCert, sendCV := pl.decide(sc.CertRequested)
		var certOpts, cvOpts *tlcp.VerifSendOpts
		if pl.emptyCerts {
			certOpts = &tlcp.VerifSendOpts{EmptyCerts: true}
		} else if pl.certs != nil {
			certOpts = &tlcp.VerifSendOpts{Certificates: pl.certs}
		}
		if pl.cvKey != nil {
			cvOpts = &tlcp.VerifSendOpts{SignKey: pl.cvKey}
		}
		if sendCert {
			if sc.Send("Certificate", certOpts) != nil {
				return
			}
		}
		if sc.Send("ClientKeyExchange", nil) != nil {
			return
		}
		if sendCV {
			if pl.cvBody != nil {
				cvOpts = &tlcp.VerifSendOpts{Body: pl.cvBody(transcriptHash(sc.Transcript()))}
			}
			if sc.Send("CertificateVerify", cvOpts) != nil {
				return
			}
		}
		if sc.SendCCS() != nil {
			return
		}
		var fo *tlcp.VerifSendOpts
		if !finOK {
			fo = &tlcp.VerifSendOpts{Mutate: func(m []byte) []byte { m[len(m)-1] ^= 0x55; return m }}
		}
		if sc.Send("Finished", fo) != nil {
			return
		}
		for {
			ev, err := sc.ReadMsg()
			if err != nil || ev.Kind == "Alert" || ev.Kind == "Finished" {
				return
			}
		}
	}()
	var serr error
	select {
	case serr = <-done:
	case <-time.After(10 * time.Second):
		ce.Close()
		se.Close()
		serr = <-done
		if serr == nil {
			serr = fmt.Errorf("timeout")
		}
	}
	select {
	case <-fin:
	case <-time.After(2 * time.Second):
		ce.Close()
		se.Close()
		<-fin
	}
	ci := &connInfo{ecdhe: isECDHE(s.suite), cf: sniffStream(ce.SentBytes()), sf: sniffStream(se.SentBytes()),
		cvBits: cvBits, finOK: finOK, tlcp: true, roots: roots, now: now}
	cs := srv.ConnectionState()
	ob := connObs{err: serr, resumed: cs.DidResume, peers: len(cs.PeerCertificates), chains: len(cs.VerifiedChains),
		pleaf: leafOf(cs.PeerCertificates), vleaf: chainLeafOf(cs.VerifiedChains),
		req: reqTok(ci.sf), alert: alertTok(ci.sf), panicked: panicked}
	if !sc.PeerFinishedOK {
		ob.cliErr = fmt.Errorf("no server Finished")
	}
	// what the script can offer next time: the announced session id with ITS OWN master secret
	var next *sessOffer
	if id := sc.SessionIDInUse(); len(id) > 0 && sc.HasMaster() {
		next = &sessOffer{id: append([]byte(nil), id...), master: sc.Master()}
	}
	return ci, ob, next
}

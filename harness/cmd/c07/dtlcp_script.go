package main

import (
	"fmt"
	"time"

	"github.com/emmansun/gmsm/smx509"

	"gitee.com/Trisia/gotlcp/dtlcp"
	"verifharness/internal/pair"
	"verifharness/internal/pki"
)

func init() {
	dtlcpScriptAvailable = true
	dtlcpScriptRun = dtlcpScript
	dtlcpScriptHistRun = dtlcpScriptHist
}

// dtlcpScript is the DTLCP twin of tlcpScript (scripted clients over the datagram pipe; the
// cookie exchange is answered by re-sending the ClientHello with the cookie).
func dtlcpScript(s scen) (string, string) {
	st := pki.Std()
	ci, ob, _ := dtlcpScriptConn(s, dServer(s.pol, s.suite, st.Root.Pool, pki.Now, nil), nil, st.Root.Pool, pki.Now)
	return ci.tokens("1"), ob.tokens("1")
}

// dtlcpScriptHist is the DTLCP twin of tlcpScriptHist.
func dtlcpScriptHist(s scen) (string, string) {
	st := pki.Std()
	cache := dtlcp.NewLRUSessionCache(8)
	ci1, ob1, offer := dtlcpScriptConn(s, dServer(s.pol, s.suite, st.Root.Pool, pki.Now, cache), nil, st.Root.Pool, pki.Now)
	t1 := ci1.tokens("1")
	roots2, now2 := cfg2Of(s.cfg2)
	// the second connection: the same script on the same suite, or (phase decl) another script on
	// another suite, the session's suite no longer offered by the client / supported by the server
	s2, srv2 := s.second()
	scfg2 := dServer(s.pol2, s2.suite, roots2, now2, cache)
	scfg2.CipherSuites = srv2
	ci2, ob2, _ := dtlcpScriptConn(s2, scfg2, offer, roots2, now2)
	t2 := ci2.tokens("2")
	return t1 + t2 + histTail(ci1, ci2, s.suite, srv2, roots2, now2), ob1.tokens("1") + ob2.tokens("2")
}

func dtlcpScriptConn(s scen, scfg *dtlcp.Config, offer *sessOffer, roots *smx509.CertPool, now time.Time) (*connInfo, connObs, *sessOffer) {
	st := pki.Std()
	// the scripted client steps at its own pace: the real server must never retransmit or
	// fragment mid-case (the watchdog below bounds a case that waits for input)
	scfg.InitialRetransmitTimeout = time.Hour
	scfg.MaxRetransmitTimeout = time.Hour
	scfg.PMTU = 16000
	ce, se := pair.PacketPipe()
	defer ce.Close()
	defer se.Close()
	srv := dtlcp.Server(se, ce.LocalAddr(), scfg)
	done := make(chan error, 1)
	var panicked string
	go func() {
		var err error
		defer func() {
			if r := recover(); r != nil {
				panicked = fmt.Sprint(r)
				err = fmt.Errorf("panic: %v", r)
			}
			done <- err
		}()
		err = srv.Handshake()
	}()

	pl := scriptPlanOf(s.cli)
	ccfg := &dtlcp.Config{
		Certificates: []dtlcp.Certificate{pair.DCert(pl.sig), pair.DCert(pl.enc)},
		CipherSuites: s.offered(), Time: pki.NowFn, RootCAs: st.Root.Pool,
	}
	sc := dtlcp.NewVerifScript("client", ce, se.LocalAddr(), ccfg)
	if offer != nil {
		sc.SessionID, sc.ResumeMaster = offer.id, offer.master
	}
	cvBits, finOK := pl.cvBits, pl.finOK

	// everything the script does runs under a watchdog: closing the pipe unblocks it
	fin := make(chan struct{})
	go func() {
		defer close(fin)
		defer func() { recover() }()
		if sc.Send("ClientHello", nil) != nil {
			return
		}
		for {
			ev, err := sc.ReadMsg()
			if err != nil || ev.Kind == "Alert" {
				return
			}
			if ev.Kind == "HelloVerifyRequest" {
				if sc.Send("ClientHello", nil) != nil {
					return
				}
			}
			if ev.Kind == "ServerHello" && sc.Resuming {
				// abbreviated handshake with the master secret the script brought along
				finOK = true
				if sc.ExpectCCS() != nil {
					return
				}
				if ev, err := sc.ReadMsg(); err != nil || ev.Kind != "Finished" {
					return
				}
				if sc.SendCCS() != nil {
					return
				}
				_ = sc.Send("Finished", nil)
				return
			}
			if ev.Kind == "ServerHelloDone" {
				break
			}
		}
		sendCert, sendCV := pl.decide(sc.CertRequested)
		var certOpts, cvOpts *dtlcp.VerifSendOpts
		if pl.emptyCerts {
			certOpts = &dtlcp.VerifSendOpts{EmptyCerts: true}
		} else if pl.certs != nil {
			certOpts = &dtlcp.VerifSendOpts{Certificates: pl.certs}
		}
		if pl.cvKey != nil {
			cvOpts = &dtlcp.VerifSendOpts{SignKey: pl.cvKey}
		}
		if sendCert {
			if sc.Send("Certificate", certOpts) != nil {
				return
			}
		}
		if sc.Send("ClientKeyExchange", nil) != nil {
			return
		}
		if sendCV {
			if pl.cvBody != nil {
				cvOpts = &dtlcp.VerifSendOpts{Body: pl.cvBody(transcriptHash(sc.Transcript()))}
			}
			if sc.Send("CertificateVerify", cvOpts) != nil {
				return
			}
		}
		if sc.SendCCS() != nil {
			return
		}
		var fo *dtlcp.VerifSendOpts
		if !finOK {
			fo = &dtlcp.VerifSendOpts{Mutate: func(m []byte) []byte { m[len(m)-1] ^= 0x55; return m }}
		}
		if sc.Send("Finished", fo) != nil {
			return
		}
		for {
			ev, err := sc.ReadMsg()
			if err != nil || ev.Kind == "Alert" || ev.Kind == "Finished" {
				return
			}
		}
	}()
	var serr error
	select {
	case serr = <-done:
	case <-time.After(10 * time.Second):
		ce.Close()
		se.Close()
		serr = <-done
		if serr == nil {
			serr = fmt.Errorf("timeout")
		}
	}
	select {
	case <-fin:
	case <-time.After(2 * time.Second):
		ce.Close()
		se.Close()
		<-fin
	}
	ci := &connInfo{ecdhe: isECDHE(s.suite), cf: sniffPackets(ce.SentCopy()), sf: sniffPackets(se.SentCopy()),
		cvBits: cvBits, finOK: finOK, roots: roots, now: now}
	cs := srv.ConnectionState()
	ob := connObs{err: serr, resumed: cs.DidResume, peers: len(cs.PeerCertificates), chains: len(cs.VerifiedChains),
		pleaf: leafOf(cs.PeerCertificates), vleaf: chainLeafOf(cs.VerifiedChains),
		req: reqTok(ci.sf), alert: alertTok(ci.sf), panicked: panicked}
	go func() { srv.Close() }()
	if !sc.PeerFinishedOK {
		ob.cliErr = fmt.Errorf("no server Finished")
	}
	var next *sessOffer
	if id := sc.SessionIDInUse(); len(id) > 0 && sc.HasMaster() {
		next = &sessOffer{id: append([]byte(nil), id...), master: sc.Master()}
	}
	return ci, ob, next
}

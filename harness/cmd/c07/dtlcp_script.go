package main

import (
	"fmt"
	"time"

	"gitee.com/Trisia/gotlcp/dtlcp"
	"verifharness/internal/pair"
	"verifharness/internal/pki"
)

func init() {
	dtlcpScriptAvailable = true
	dtlcpScriptRun = dtlcpScript
}

// dtlcpScript is the DTLCP twin of tlcpScript (scripted clients over the datagram pipe; the
// cookie exchange is answered by re-sending the ClientHello with the cookie).
func dtlcpScript(s scen) (string, string) {
	st := pki.Std()
	scfg := dServer(s.pol, s.suite, st.Root.Pool, pki.Now, nil)
	// the scripted client steps at its own pace: the real server must never retransmit or
	// fragment mid-case (the watchdog below bounds a case that waits for input)
	scfg.InitialRetransmitTimeout = time.Hour
	scfg.MaxRetransmitTimeout = time.Hour
	scfg.PMTU = 16000
	ce, se := pair.PacketPipe()
	defer ce.Close()
	defer se.Close()
	srv := dtlcp.Server(se, ce.LocalAddr(), scfg)
	done := make(chan error, 1)
	var panicked string
	go func() {
		var err error
		defer func() {
			if r := recover(); r != nil {
				panicked = fmt.Sprint(r)
				err = fmt.Errorf("panic: %v", r)
			}
			done <- err
		}()
		err = srv.Handshake()
	}()

	pl := scriptPlanOf(s.cli)
	ccfg := &dtlcp.Config{
		Certificates: []dtlcp.Certificate{pair.DCert(pl.sig), pair.DCert(pl.enc)},
		CipherSuites: []uint16{suiteID(s.suite)}, Time: pki.NowFn, RootCAs: st.Root.Pool,
	}
	sc := dtlcp.NewVerifScript("client", ce, se.LocalAddr(), ccfg)
	cvBits, finOK := pl.cvBits, pl.finOK

	// everything the script does runs under a watchdog: closing the pipe unblocks it
	fin := make(chan struct{})
	go func() {
		defer close(fin)
		defer func() { recover() }()
		if sc.Send("ClientHello", nil) != nil {
			return
		}
		for {
			ev, err := sc.ReadMsg()
			if err != nil || ev.Kind == "Alert" {
				return
			}
			if ev.Kind == "HelloVerifyRequest" {
				if sc.Send("ClientHello", nil) != nil {
					return
				}
			}
			if ev.Kind == "ServerHelloDone" {
				break
			}
		}
		sendCert, sendCV := pl.decide(sc.CertRequested)
		var certOpts, cvOpts *dtlcp.VerifSendOpts
		if pl.emptyCerts {
			certOpts = &dtlcp.VerifSendOpts{EmptyCerts: true}
		} else if pl.certs != nil {
			certOpts = &dtlcp.VerifSendOpts{Certificates: pl.certs}
		}
		if pl.cvKey != nil {
			cvOpts = &dtlcp.VerifSendOpts{SignKey: pl.cvKey}
		}
		if sendCert {
			if sc.Send("Certificate", certOpts) != nil {
				return
			}
		}
		if sc.Send("ClientKeyExchange", nil) != nil {
			return
		}
		if sendCV {
			if pl.cvBody != nil {
				cvOpts = &dtlcp.VerifSendOpts{Body: pl.cvBody(transcriptHash(sc.Transcript()))}
			}
			if sc.Send("CertificateVerify", cvOpts) != nil {
				return
			}
		}
		if sc.SendCCS() != nil {
			return
		}
		var fo *dtlcp.VerifSendOpts
		if !finOK {
			fo = &dtlcp.VerifSendOpts{Mutate: func(m []byte) []byte { m[len(m)-1] ^= 0x55; return m }}
		}
		if sc.Send("Finished", fo) != nil {
			return
		}
		for {
			ev, err := sc.ReadMsg()
			if err != nil || ev.Kind == "Alert" || ev.Kind == "Finished" {
				return
			}
		}
	}()
	var serr error
	select {
	case serr = <-done:
	case <-time.After(10 * time.Second):
		ce.Close()
		se.Close()
		serr = <-done
		if serr == nil {
			serr = fmt.Errorf("timeout")
		}
	}
	select {
	case <-fin:
	case <-time.After(2 * time.Second):
		ce.Close()
		se.Close()
		<-fin
	}
	ci := &connInfo{ecdhe: isECDHE(s.suite), cf: sniffPackets(ce.SentCopy()), sf: sniffPackets(se.SentCopy()),
		cvBits: cvBits, finOK: finOK, roots: st.Root.Pool, now: pki.Now}
	cs := srv.ConnectionState()
	ob := connObs{err: serr, resumed: cs.DidResume, peers: len(cs.PeerCertificates), chains: len(cs.VerifiedChains),
		req: reqTok(ci.sf), alert: alertTok(ci.sf), panicked: panicked}
	go func() { srv.Close() }()
	if !sc.PeerFinishedOK {
		ob.cliErr = fmt.Errorf("no server Finished")
	}
	return ci.tokens("1"), ob.tokens("1")
}

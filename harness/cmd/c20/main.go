// Driver for C20: runs the real protocol adapter (package pa) over scripted in-memory
// transports and writes `case => observed` lines for the Lean oracle (model + spec).
//
// phase route: detect() (through the verif hook, exactly what Read/Write call) on a connection
// returned by the adaptive listener's Accept, retried `tries` times; then the bytes the
// selected stack would see, by driving ProtocolDetectConn.Read with the given buffer sizes.
// phase pub: the same kind of scripts through Read / Write of the PUBLIC object Accept returned
// (what a server application holds): every call goes through conn(), so whatever conn() keeps of
// an earlier detection is exercised.  No hooks.
// phase e2e: no hooks — a real TLCP / crypto/tls client handshakes and echoes through
// pa.NewListener over a re-segmenting transport; `slow=<k>`: the client's first record arrives in
// two pieces around an expired read deadline of the server's first call.
// phase close: no hooks — the first Read / Write on the public object is parked (k bytes of the
// first record delivered, client silent) and ANOTHER goroutine calls Close / a deadline setter;
// watchdog: a call that does not return is the observation `hang`.
// phase listen (listen.go): one listener, one accept loop, SEVERAL peers (silent, slow, first record
// split over time, early disconnects, real clients) in every order; logical time in ticks.
// Every phase calls the listener's Accept under a watchdog: an Accept that does not return although a
// connection is waiting in the inner listener is the observation `accept=hang`.
package main

import (
	"crypto/tls"
	"errors"
	"fmt"
	"io"
	"net"
	"strconv"
	"strings"
	"sync"
	"sync/atomic"
	"time"

	"gitee.com/Trisia/gotlcp/pa"
	"gitee.com/Trisia/gotlcp/tlcp"
	"verifharness/internal/hx"
	"verifharness/internal/pair"
	"verifharness/internal/pki"
)

// ---------------------------------------------------------------------------
// scripted transport: data chunks, timeouts, then EOF

type ev struct {
	timeout bool
	data    []byte
}

type scriptConn struct {
	evs []ev
}

type tmo struct{}

func (tmo) Error() string   { return "i/o timeout" }
func (tmo) Timeout() bool   { return true }
func (tmo) Temporary() bool { return true }

func (c *scriptConn) Read(p []byte) (int, error) {
	if len(p) == 0 {
		return 0, nil
	}
	if len(c.evs) == 0 {
		return 0, io.EOF
	}
	e := &c.evs[0]
	if e.timeout {
		c.evs = c.evs[1:]
		return 0, tmo{}
	}
	n := copy(p, e.data)
	if n == len(e.data) {
		c.evs = c.evs[1:]
	} else {
		e.data = e.data[n:]
	}
	return n, nil
}
func (c *scriptConn) Write(p []byte) (int, error)        { return len(p), nil }
func (c *scriptConn) Close() error                       { return nil }
func (c *scriptConn) LocalAddr() net.Addr                { return &net.TCPAddr{} }
func (c *scriptConn) RemoteAddr() net.Addr               { return &net.TCPAddr{} }
func (c *scriptConn) SetDeadline(t time.Time) error      { return nil }
func (c *scriptConn) SetReadDeadline(t time.Time) error  { return nil }
func (c *scriptConn) SetWriteDeadline(t time.Time) error { return nil }

// oneListener hands out the given connections.
type oneListener struct{ ch chan net.Conn }

func (l *oneListener) Accept() (net.Conn, error) {
	c, ok := <-l.ch
	if !ok {
		return nil, net.ErrClosed
	}
	return c, nil
}
func (l *oneListener) Close() error   { return nil }
func (l *oneListener) Addr() net.Addr { return &net.TCPAddr{} }

// acceptWD: the listener's Accept under a watchdog.  The inner listener has a connection waiting, so
// an Accept that does not come back is waiting for something else (the peer's first bytes, ...).
func acceptWD(ln net.Listener) (net.Conn, error, bool) {
	type res struct {
		c   net.Conn
		err error
	}
	ch := make(chan res, 1)
	go func() {
		c, err := ln.Accept()
		ch <- res{c, err}
	}()
	select {
	case r := <-ch:
		return r.c, r.err, true
	case <-time.After(watchdogFor(watchdog)):
		stuckSeen.Add(1)
		return nil, nil, false
	}
}

func parseEvs(s string) []ev {
	if s == "-" || s == "" {
		return nil
	}
	var out []ev
	for _, t := range strings.Split(s, ",") {
		if t == "T" {
			out = append(out, ev{timeout: true})
		} else if strings.HasPrefix(t, "D") {
			if len(t) == 1 {
				out = append(out, ev{data: []byte{}})
			} else {
				out = append(out, ev{data: hx.UnHex(t[1:])})
			}
		} else {
			panic("bad event " + t)
		}
	}
	return out
}

func showEvs(evs []ev) string {
	if len(evs) == 0 {
		return "-"
	}
	ss := make([]string, len(evs))
	for i, e := range evs {
		if e.timeout {
			ss[i] = "T"
		} else if len(e.data) == 0 {
			ss[i] = "D"
		} else {
			ss[i] = "D" + hx.Hex(e.data)
		}
	}
	return strings.Join(ss, ",")
}

// ---------------------------------------------------------------------------
// configurations

var tlsSrvCfg *tls.Config

func configs(shape string) (*tlcp.Config, *tls.Config) {
	if tlsSrvCfg == nil {
		l := pki.Std().P256Sig
		tlsSrvCfg = &tls.Config{Certificates: []tls.Certificate{{Certificate: [][]byte{l.DER}, PrivateKey: l.Key}},
			Time: pki.NowFn}
	}
	switch shape {
	case "tlcp":
		return pair.TServer(), nil
	case "tls":
		return nil, tlsSrvCfg
	}
	return pair.TServer(), tlsSrvCfg
}

func errClass(err error) string {
	var ns *pa.ProtocolNotSupportError
	var ne net.Error
	switch {
	case err == nil:
		return "ok"
	case errors.As(err, &ns):
		return "unsupported"
	case errors.Is(err, io.ErrUnexpectedEOF):
		return "unexpected_eof"
	case errors.Is(err, io.EOF):
		return "eof"
	case errors.As(err, &ne) && ne.Timeout():
		return "timeout"
	case strings.Contains(err.Error(), "config not set"):
		return "config"
	}
	return "other"
}

func stackOf(c net.Conn) string {
	switch c.(type) {
	case nil:
		return "none"
	case *tlcp.Conn:
		return "tlcp"
	case *tls.Conn:
		return "tls"
	}
	return "other"
}

func parseInts(s string) []int {
	if s == "-" || s == "" {
		return nil
	}
	var out []int
	for _, t := range strings.Split(s, ",") {
		v, _ := strconv.Atoi(t)
		out = append(out, v)
	}
	return out
}

func joinOr(ss []string) string {
	if len(ss) == 0 {
		return "-"
	}
	return strings.Join(ss, ",")
}

func execRoute(desc string) string {
	shape, _ := hx.KV(desc, "cfg")
	evS, _ := hx.KV(desc, "ev")
	tries := hx.KVInt(desc, "tries")
	bufS, _ := hx.KV(desc, "bufs")
	tc, sc := configs(shape)
	inner := &oneListener{ch: make(chan net.Conn, 1)}
	inner.ch <- &scriptConn{evs: parseEvs(evS)}
	ln := pa.NewListener(inner, tc, sc)
	c, err, back := acceptWD(ln)
	if !back {
		return "accept=hang"
	}
	if err != nil {
		return "accept=" + errClass(err)
	}
	sw := c.(*pa.ProtocolSwitchServerConn)
	var att []string
	for i := 0; i < tries; i++ {
		var derr error
		if p := hx.Guard(func() { derr = pa.VerifDetect(sw) }); p != "" {
			att = append(att, "panic")
			break
		}
		if derr == nil {
			att = append(att, stackOf(sw.ProtectedConn()))
			break
		}
		att = append(att, errClass(derr))
	}
	pd := pa.VerifDetectConn(sw)
	mj, mn := pa.VerifVersion(pd)
	var rd []string
	if sw.ProtectedConn() != nil {
		for _, n := range parseInts(bufS) {
			b := make([]byte, n)
			var m int
			var rerr error
			if p := hx.Guard(func() { m, rerr = pd.Read(b) }); p != "" {
				rd = append(rd, "-/panic")
				break
			}
			rd = append(rd, hx.Hex(b[:m])+"/"+errClass(rerr))
		}
	}
	return fmt.Sprintf("att=%s ver=%s reads=%s", joinOr(att), hx.Hex([]byte{mj, mn}), joinOr(rd))
}

// ---------------------------------------------------------------------------
// pub: Read / Write of the public object over a scripted transport

const watchdog = 1500 * time.Millisecond

func execPub(desc string) string {
	shape, _ := hx.KV(desc, "cfg")
	evS, _ := hx.KV(desc, "ev")
	opS, _ := hx.KV(desc, "ops")
	tc, sc := configs(shape)
	inner := &oneListener{ch: make(chan net.Conn, 1)}
	inner.ch <- &scriptConn{evs: parseEvs(evS)}
	ln := pa.NewListener(inner, tc, sc)
	c, err, back := acceptWD(ln)
	if !back {
		return "accept=hang"
	}
	if err != nil {
		return "accept=" + errClass(err)
	}
	sw := c.(*pa.ProtocolSwitchServerConn)
	var att []string
	if opS != "-" && opS != "" {
		for _, op := range strings.Split(opS, ",") {
			done := make(chan string, 1)
			go func() {
				var cerr error
				if p := hx.Guard(func() {
					if op == "W" {
						_, cerr = c.Write([]byte{0x2a})
					} else {
						_, cerr = c.Read(make([]byte, 64))
					}
				}); p != "" {
					done <- "panic"
					return
				}
				// a call made once a stack is installed is that stack's business
				if pc := sw.ProtectedConn(); pc != nil {
					done <- stackOf(pc)
				} else if cerr == nil {
					done <- "ok"
				} else {
					done <- errClass(cerr)
				}
			}()
			var r string
			select {
			case r = <-done:
			case <-time.After(5 * time.Second):
				r = "hang"
			}
			att = append(att, r)
			if r == "hang" {
				break
			}
		}
	}
	return "att=" + joinOr(att)
}

// ---------------------------------------------------------------------------
// close: a second goroutine while the first call is parked

// countConn tells the driver when a Read of the transport is in progress and how many bytes
// the transport has handed out so far.
type countConn struct {
	net.Conn
	inRead atomic.Int32
	got    atomic.Int64
}

func (c *countConn) Read(p []byte) (int, error) {
	c.inRead.Add(1)
	n, err := c.Conn.Read(p)
	c.got.Add(int64(n))
	c.inRead.Add(-1)
	return n, err
}

func closeClass(err error) string {
	var ne net.Error
	switch {
	case err == nil:
		return "ok"
	case errors.As(err, &ne) && ne.Timeout():
		return "timeout"
	}
	return "err"
}

func execClose(desc string) string {
	shape, _ := hx.KV(desc, "cfg")
	major := hx.KVInt(desc, "major")
	k := hx.KVInt(desc, "k")
	first, _ := hx.KV(desc, "first")
	act, _ := hx.KV(desc, "act")
	tc, sc := configs(shape)
	ce, se := pair.StreamPipe()
	defer ce.Close()
	defer se.Close()
	cw := &countConn{Conn: se}
	inner := &oneListener{ch: make(chan net.Conn, 1)}
	inner.ch <- cw
	ln := pa.NewListener(inner, tc, sc)
	// the client's k bytes are on the wire before the server gets round to Accept
	if k > 0 {
		ce.Inject(stream(byte(major), k))
	}
	c, err, back := acceptWD(ln)
	if !back {
		return "accept=hang"
	}
	if err != nil {
		return "accept=" + errClass(err)
	}
	callDone := make(chan string, 1)
	go func() {
		var cerr error
		if p := hx.Guard(func() {
			if first == "W" {
				_, cerr = c.Write([]byte{0x2a})
			} else {
				_, cerr = c.Read(make([]byte, 64))
			}
		}); p != "" {
			callDone <- "panic"
			return
		}
		callDone <- closeClass(cerr)
	}()
	// wait until that call is parked in a transport read with all k bytes consumed
	parked := false
	for t0 := time.Now(); time.Since(t0) < 5*time.Second; {
		if cw.inRead.Load() == 1 && cw.got.Load() == int64(k) {
			parked = true
			break
		}
		select {
		case r := <-callDone:
			return "early=" + r
		default:
		}
		time.Sleep(50 * time.Microsecond)
	}
	if !parked {
		return "parked=no"
	}
	past := time.Unix(1, 0)
	actDone := make(chan struct{}, 1)
	go func() {
		switch act {
		case "close":
			c.Close()
		case "rdl":
			c.SetReadDeadline(past)
		case "dl":
			c.SetDeadline(past)
		case "wdl+close":
			c.SetWriteDeadline(past)
			c.Close()
		}
		actDone <- struct{}{}
	}()
	// one watchdog for both: the action must return and the parked call must come back
	actS, callS := "hang", "hang"
	wd := time.After(watchdog)
	for wait := true; wait && (actS == "hang" || callS == "hang"); {
		var ac chan struct{}
		var cc chan string
		if actS == "hang" {
			ac = actDone
		}
		if callS == "hang" {
			cc = callDone
		}
		select {
		case <-ac:
			actS = "ok"
		case callS = <-cc:
		case <-wd:
			wait = false
		}
	}
	// release whatever is still stuck: the raw transport goes away under the adapter
	ce.Close()
	se.Close()
	if actS == "hang" {
		select {
		case <-actDone:
		case <-time.After(watchdog):
		}
	}
	if callS == "hang" {
		select {
		case <-callDone:
		case <-time.After(watchdog):
		}
	}
	return fmt.Sprintf("act=%s call=%s", actS, callS)
}

// ---------------------------------------------------------------------------
// e2e

// gatedEnd is a client-side transport whose FIRST Write delivers only the first k bytes, tells
// the driver, and holds the rest back until the gate opens: a slow / badly segmented first record.
type gatedEnd struct {
	*pair.StreamEnd
	k         int
	gate      chan struct{}
	delivered chan struct{}
	started   bool
}

func (g *gatedEnd) Write(b []byte) (int, error) {
	if g.started {
		return g.StreamEnd.Write(b)
	}
	g.started = true
	k := g.k
	if k > len(b) {
		k = len(b)
	}
	if k > 0 {
		if _, err := g.StreamEnd.Write(b[:k]); err != nil {
			close(g.delivered)
			return 0, err
		}
	}
	close(g.delivered)
	<-g.gate
	n, err := g.StreamEnd.Write(b[k:])
	return k + n, err
}

func execE2E(desc string) string {
	client, _ := hx.KV(desc, "client")
	shape, _ := hx.KV(desc, "cfg")
	seg := hx.KVInt(desc, "seg")
	rb := hx.KVInt(desc, "rb")
	msgS, _ := hx.KV(desc, "msg")
	msg := hx.UnHex(msgS)
	if rb < 1 {
		rb = 1
	}
	slowS, slow := hx.KV(desc, "slow")
	first, _ := hx.KV(desc, "first")
	var pre []byte
	if ps, ok := hx.KV(desc, "pre"); ok && ps != "-" && first == "W" {
		pre = hx.UnHex(ps)
	}
	tc, sc := configs(shape)
	ce, se := pair.StreamPipe()
	if seg > 0 {
		se.MaxRead = func(avail int) int { return seg }
	}
	var cconn net.Conn = ce
	var ge *gatedEnd
	if slow {
		k, _ := strconv.Atoi(slowS)
		ge = &gatedEnd{StreamEnd: ce, k: k, gate: make(chan struct{}), delivered: make(chan struct{})}
		cconn = ge
	}
	var gateOnce sync.Once
	openGate := func() {
		if ge != nil {
			gateOnce.Do(func() { close(ge.gate) })
		}
	}
	defer openGate()
	inner := &oneListener{ch: make(chan net.Conn, 1)}
	inner.ch <- se
	ln := pa.NewListener(inner, tc, sc)
	served := make(chan string, 1)
	poll := make(chan string, 1)
	acceptHung := make(chan struct{})
	go func() {
		c, err, back := acceptWD(ln)
		if !back {
			close(acceptHung)
			poll <- "none"
			served <- "none"
			openGate()
			se.Close()
			return
		}
		if err != nil {
			poll <- "none"
			served <- "none"
			return
		}
		sw := c.(*pa.ProtocolSwitchServerConn)
		buf := make([]byte, rb)
		total := 0
		if slow {
			// the k bytes are there, nothing more will come before the gate opens; the server's
			// first call runs under a read deadline that has expired
			<-ge.delivered
			c.SetReadDeadline(time.Unix(1, 0))
			pd := make(chan string, 1)
			go func() {
				var perr error
				if p := hx.Guard(func() {
					if first == "W" {
						_, perr = c.Write(pre)
					} else {
						_, perr = c.Read(buf)
					}
				}); p != "" {
					pd <- "panic"
					return
				}
				pd <- errClass(perr)
			}()
			select {
			case r := <-pd:
				poll <- r
			case <-time.After(5 * time.Second):
				poll <- "hang"
				openGate()
				served <- "none"
				se.Close() // the raw transport goes away under the stuck call; the client sees EOF
				return
			}
			// the deadline is cleared, the rest of the record arrives, the server goes on
			c.SetReadDeadline(time.Time{})
			openGate()
		}
		okPre := true
		if first == "W" && len(pre) > 0 {
			if _, werr := c.Write(pre); werr != nil {
				okPre = false
			}
		}
		for okPre && total < len(msg) {
			n, err := c.Read(buf)
			if n > 0 {
				if _, werr := c.Write(buf[:n]); werr != nil {
					break
				}
				total += n
			}
			if err != nil {
				break
			}
		}
		served <- stackOf(sw.ProtectedConn())
		if total < len(msg) {
			c.Close()
			se.Close()
		}
	}()
	type res struct {
		hs   bool
		echo []byte
	}
	done := make(chan res, 1)
	go func() {
		var conn net.Conn
		var herr error
		if client == "tlcp" {
			cc := tlcp.Client(cconn, pair.TClient())
			herr = cc.Handshake()
			conn = cc
		} else {
			cc := tls.Client(cconn, &tls.Config{InsecureSkipVerify: true, Time: pki.NowFn})
			herr = cc.Handshake()
			conn = cc
		}
		if herr != nil {
			done <- res{}
			return
		}
		if _, err := conn.Write(msg); err != nil {
			done <- res{hs: true}
			return
		}
		back := make([]byte, len(pre)+len(msg))
		n, _ := io.ReadFull(conn, back)
		done <- res{hs: true, echo: back[:n]}
	}()
	var r res
	select {
	case r = <-done:
	case <-time.After(20 * time.Second):
		openGate()
		ce.Close()
		se.Close()
		r = <-done
		r.hs = false
	}
	pollS := ""
	if slow {
		select {
		case p := <-poll:
			pollS = "poll=" + p + " "
		case <-time.After(6 * time.Second):
			pollS = "poll=hang "
		}
	}
	var sv string
	select {
	case sv = <-served:
	case <-time.After(5 * time.Second):
		sv = "hang"
	}
	ce.Close()
	se.Close()
	select {
	case <-acceptHung:
		return "accept=hang"
	default:
	}
	hs := "fail"
	if r.hs {
		hs = "ok"
	}
	return fmt.Sprintf("%sserved=%s hs=%s echo=%s", pollS, sv, hs, hx.Hex(r.echo))
}

func execute(desc string) string {
	ph, _ := hx.KV(desc, "ph")
	var out string
	if p := hx.Guard(func() {
		switch ph {
		case "e2e":
			out = execE2E(desc)
		case "pub":
			out = execPub(desc)
		case "close":
			out = execClose(desc)
		case "listen":
			out = execListen(desc)
		default:
			out = execRoute(desc)
		}
	}); p != "" {
		return "panic=" + p
	}
	return out
}

// ---------------------------------------------------------------------------
// generation

// compositions of n into positive parts
func compositions(n int) [][]int {
	if n == 0 {
		return [][]int{{}}
	}
	var out [][]int
	for first := 1; first <= n; first++ {
		for _, rest := range compositions(n - first) {
			out = append(out, append([]int{first}, rest...))
		}
	}
	return out
}

func chunk(stream []byte, parts []int) []ev {
	var out []ev
	off := 0
	for _, p := range parts {
		if off >= len(stream) {
			break
		}
		end := off + p
		if end > len(stream) {
			end = len(stream)
		}
		out = append(out, ev{data: stream[off:end]})
		off = end
	}
	if off < len(stream) {
		out = append(out, ev{data: stream[off:]})
	}
	return out
}

func rep(n, k int) string {
	ss := make([]string, k)
	for i := range ss {
		ss[i] = strconv.Itoa(n)
	}
	return strings.Join(ss, ",")
}

func stream(major byte, n int) []byte {
	s := []byte{0x16, major, 0x01, 0x00, 0x06, 0xa0, 0xa1, 0xa2, 0xa3, 0xa4, 0xa5, 0xa6, 0xa7}
	if n < len(s) {
		return s[:n]
	}
	return s
}

// randScript: chunks of 0..24 bytes (empty chunks included) biased towards the bytes that
// matter (0x01, 0x03, 0x16), read time-outs anywhere
func randScript(rng *hx.Rand) []ev {
	var evs []ev
	ne := rng.Intn(9)
	first := true
	for j := 0; j < ne; j++ {
		if rng.Chance(12) {
			evs = append(evs, ev{timeout: true})
			continue
		}
		d := rng.Bytes(rng.Intn(5))
		if rng.Chance(5) {
			d = rng.Bytes(5 + rng.Intn(20))
		}
		for k := range d {
			if rng.Chance(60) {
				d[k] = hx.Pick(rng, []byte{1, 3, 0x16})
			}
		}
		if first && len(d) > 1 && rng.Chance(50) {
			d[1] = hx.Pick(rng, []byte{1, 3})
		}
		if len(d) > 0 {
			first = false
		}
		evs = append(evs, ev{data: d})
	}
	return evs
}

var shapes = []string{"dual", "tlcp", "tls"}

func main() {
	o := hx.ParseOpts()
	tr := hx.NewTrace(o.Out)
	defer tr.Close()
	replaying := o.Replay != ""
	emit := func(desc string) {
		// a tree that hangs systematically (40 watchdog expiries in this process, each a reported spec
		// failure): the rest of the phase would cost a watchdog per case and add nothing
		if !replaying && stuckSeen.Load() >= 40 {
			return
		}
		tr.Line(desc, execute(desc))
	}
	if replaying {
		for _, c := range hx.ReplayCases(o.Replay) {
			emit(c)
		}
		return
	}
	rng := hx.NewRand(o.Seed)
	thorough := o.Tier == "thorough"

	if o.Phase == "" || o.Phase == "route" {
		// 1. witnesses of F21 first: a retry must not route on bytes from the middle of the stream
		emit("ph=route cfg=dual ev=D1602000005,D160101002e tries=2 bufs=5,5")
		emit("ph=route cfg=dual ev=D160303,T,D00010100002a tries=2 bufs=2,0,9")
		emit("ph=route cfg=tlcp ev=D16,T,D01,T,D0100,T,D05aabb tries=5 bufs=1,1,1,1,1,1,1,1")

		// 2. all 256 version bytes x configuration shapes (whole header in one chunk, and byte by byte)
		for v := 0; v < 256; v++ {
			for _, sh := range shapes {
				s := stream(byte(v), 11)
				emit(fmt.Sprintf("ph=route cfg=%s ev=%s tries=1 bufs=3,0,8,8", sh, showEvs(chunk(s, []int{11}))))
				emit(fmt.Sprintf("ph=route cfg=%s ev=%s tries=2 bufs=16,16", sh, showEvs(chunk(s, []int{1, 1, 1, 1, 1, 1}))))
			}
		}
		// 3. every segmentation of the first 8 bytes x read buffer sizes 0..8 and large
		comps := compositions(8)
		for ci, parts := range comps {
			for _, mj := range []byte{1, 3} {
				s := stream(mj, 13)
				for _, k := range []int{0, 1, 2, 3, 4, 5, 6, 7, 8, 4096} {
					if !thorough && (ci+k)%3 != 0 && k != 4 && k != 5 {
						continue
					}
					emit(fmt.Sprintf("ph=route cfg=dual ev=%s tries=1 bufs=%s", showEvs(chunk(s, parts)), rep(k, 16)))
				}
				// mixed buffer sizes
				var bs []string
				for i := 0; i < 12; i++ {
					bs = append(bs, strconv.Itoa(rng.Intn(9)))
				}
				emit(fmt.Sprintf("ph=route cfg=dual ev=%s tries=1 bufs=%s,64,64", showEvs(chunk(s, parts)), strings.Join(bs, ",")))
			}
		}
		// 4. client goes away after 0..5 bytes, every segmentation, every shape, with retries
		for n := 0; n <= 5; n++ {
			for _, parts := range compositions(n) {
				for _, sh := range shapes {
					for _, mj := range []byte{1, 3, 0} {
						emit(fmt.Sprintf("ph=route cfg=%s ev=%s tries=%d bufs=4,4,4", sh, showEvs(chunk(stream(mj, n), parts)), 1+rng.Intn(3)))
					}
				}
			}
		}
		// 5. one read time-out at every position of every segmentation of the first 6 bytes
		for _, parts := range compositions(6) {
			for _, mj := range []byte{1, 3, 2} {
				evs := chunk(stream(mj, 10), parts)
				for pos := 0; pos <= len(evs); pos++ {
					if !thorough && (pos+len(parts)+int(mj))%2 == 0 {
						continue
					}
					w := append(append(append([]ev{}, evs[:pos]...), ev{timeout: true}), evs[pos:]...)
					emit(fmt.Sprintf("ph=route cfg=%s ev=%s tries=3 bufs=7,7,7", hx.Pick(rng, shapes), showEvs(w)))
				}
			}
		}
		// 6. random scripts
		n := 4000
		if thorough {
			n = 120000
		}
		n *= o.Scale
		for i := 0; i < n; i++ {
			evs := randScript(rng)
			var bs []string
			for j := rng.Intn(12); j > 0; j-- {
				if rng.Chance(10) {
					bs = append(bs, "100")
				} else {
					bs = append(bs, strconv.Itoa(rng.Intn(10)))
				}
			}
			emit(fmt.Sprintf("ph=route cfg=%s ev=%s tries=%d bufs=%s", hx.Pick(rng, shapes), showEvs(evs), rng.Intn(5), joinOr(bs)))
		}
	}

	if o.Phase == "" || o.Phase == "pub" {
		pub := func(sh string, evs []ev, ops string) {
			emit(fmt.Sprintf("ph=pub cfg=%s ev=%s ops=%s", sh, showEvs(evs), ops))
		}
		split := func(s []byte, cuts ...int) []ev { // chunks with a read time-out at every cut
			var out []ev
			off := 0
			for _, c := range cuts {
				if c > off {
					out = append(out, ev{data: s[off:c]})
				}
				out = append(out, ev{timeout: true})
				off = c
			}
			return append(out, ev{data: s[off:]})
		}
		// 1. the first call's read deadline expires after k = 0..4 header bytes, then the rest
		//    arrives: the next call must route (Read-first and Write-first, every shape)
		for k := 0; k <= 4; k++ {
			for _, mj := range []byte{1, 3, 2} {
				for _, sh := range shapes {
					for _, ops := range []string{"R,R,R", "W,W,W", "R,W,R", "W,R,W"} {
						pub(sh, split(stream(mj, 11), k), ops)
					}
				}
			}
		}
		// 2. two and three expired deadlines inside the header
		for a := 0; a <= 4; a++ {
			for b := a; b <= 5; b++ {
				for _, mj := range []byte{1, 3} {
					pub("dual", split(stream(mj, 12), a, b), hx.Pick(rng, []string{"R,R,R,R", "W,R,W,R", "R,W,W,R"}))
					if !thorough && (a+b)%2 == 1 {
						continue
					}
					pub(hx.Pick(rng, shapes), split(stream(mj, 12), a, b, 5), "R,W,R,W,R")
				}
			}
		}
		// 3. one read time-out at every position of every segmentation of the first 6 bytes
		for _, parts := range compositions(6) {
			for _, mj := range []byte{1, 3, 2} {
				evs := chunk(stream(mj, 10), parts)
				for pos := 0; pos <= len(evs); pos++ {
					if !thorough && (pos+len(parts)+int(mj))%2 == 1 {
						continue
					}
					w := append(append(append([]ev{}, evs[:pos]...), ev{timeout: true}), evs[pos:]...)
					pub(hx.Pick(rng, shapes), w, hx.Pick(rng, []string{"R,R,R", "W,W,R", "R,W"}))
				}
			}
		}
		// 4. no time-out at all: every segmentation of the first 5 bytes, the verdict is repeated at every call
		for _, parts := range compositions(5) {
			for _, mj := range []byte{1, 3, 0, 0x16} {
				pub(hx.Pick(rng, shapes), chunk(stream(mj, 9), parts), hx.Pick(rng, []string{"R", "W", "R,W,R", "W,W"}))
			}
		}
		// 5. client goes away after 0..4 bytes (with and without an expired deadline before that)
		for n := 0; n <= 4; n++ {
			for _, parts := range compositions(n) {
				for _, mj := range []byte{1, 3} {
					pub(hx.Pick(rng, shapes), chunk(stream(mj, n), parts), "R,W,R")
					pub(hx.Pick(rng, shapes), append([]ev{{timeout: true}}, chunk(stream(mj, n), parts)...), "W,R,R")
				}
			}
		}
		// 6. random scripts, random call sequences
		n := 1500
		if thorough {
			n = 60000
		}
		n *= o.Scale
		for i := 0; i < n; i++ {
			evs := randScript(rng)
			var ops []string
			for j := rng.Intn(6); j > 0; j-- {
				ops = append(ops, hx.Pick(rng, []string{"R", "R", "W"}))
			}
			pub(hx.Pick(rng, shapes), evs, joinOr(ops))
		}
	}

	if o.Phase == "" || o.Phase == "listen" {
		genListen(emit, rng, thorough, o.Scale)
	}

	if o.Phase == "" || o.Phase == "close" {
		for k := 0; k <= 7; k++ {
			for _, first := range []string{"R", "W"} {
				for _, act := range []string{"close", "rdl", "dl", "wdl+close"} {
					for ci, cm := range [][2]string{{"dual", "1"}, {"dual", "3"}, {"dual", "2"}, {"tlcp", "1"}, {"tls", "3"}} {
						// beyond the header only a configured stack can be parked
						if cm[1] == "2" && k >= 5 {
							continue
						}
						if !thorough && (ci >= 3 || (act != "close" && (ci+k)%2 == 1)) {
							continue
						}
						emit(fmt.Sprintf("ph=close cfg=%s major=%s k=%d first=%s act=%s", cm[0], cm[1], k, first, act))
					}
				}
			}
		}
	}

	if o.Phase == "" || o.Phase == "e2e" {
		// the client's first record in two pieces (k = 0..4 bytes first) around an expired read
		// deadline of the server's first call, Read-first and Write-first
		for _, cl := range []string{"tlcp", "tls"} {
			for _, sh := range shapes {
				for k := 0; k <= 4; k++ {
					for _, first := range []string{"R", "W"} {
						msg := rng.Bytes(1 + rng.Intn(200))
						pre := "-"
						if first == "W" {
							pre = hx.Hex(rng.Bytes(1 + rng.Intn(9)))
						}
						emit(fmt.Sprintf("ph=e2e client=%s cfg=%s seg=%d rb=%d msg=%s slow=%d first=%s pre=%s", cl, sh,
							hx.Pick(rng, []int{0, 1, 3}), hx.Pick(rng, []int{1, 5, 64}), hx.Hex(msg), k, first, pre))
					}
				}
			}
		}
		segs := []int{0, 1, 2, 3, 5, 7}
		rbs := []int{1, 4, 5, 6, 64, 4096}
		for _, cl := range []string{"tlcp", "tls"} {
			for _, sh := range shapes {
				for si, seg := range segs {
					for ri, rb := range rbs {
						if !thorough && (si+ri)%3 != 0 {
							continue
						}
						msg := rng.Bytes(1 + rng.Intn(300))
						emit(fmt.Sprintf("ph=e2e client=%s cfg=%s seg=%d rb=%d msg=%s", cl, sh, seg, rb, hx.Hex(msg)))
					}
				}
			}
		}
	}
}

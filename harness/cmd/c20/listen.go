// Phase `listen` of the C20 driver: ONE adaptive listener, the usual server loop
//
//	for { c, err := ln.Accept(); if err != nil { return }; go serve(c) }
//
// in front of SEVERAL peers over blocking in-memory transports.  Time is counted in ticks: the
// driver performs the peers' acts of one tick (connect, send a chunk, go away, open a gate) and
// goes on to the next tick only when the world has come to rest, i.e. every goroutine of the
// server and of the real clients is parked in one of the instrumented blocking points (the inner
// listener's Accept, a transport Read, a gate) or has finished.  Rest is detected exactly (a
// counter of running goroutines kept under one mutex, the waker accounts for the goroutines it
// wakes), so there are no sleeps and the observation is deterministic; a watchdog only bounds
// the run when some goroutine blocks elsewhere (`wd=<tick>`).
//
// Observed per peer: the tick at which Accept returned its connection, tick and answer of the
// first call on it, and the bytes the serving stack read (mode D, through the hooks of phase
// route) or the outcome of a real client's handshake + echo (mode R, public API only).
package main

import (
	"crypto/tls"
	"fmt"
	"io"
	"net"
	"strconv"
	"strings"
	"sync"
	"sync/atomic"
	"time"

	"gitee.com/Trisia/gotlcp/pa"
	"gitee.com/Trisia/gotlcp/tlcp"
	"verifharness/internal/hx"
	"verifharness/internal/pair"
	"verifharness/internal/pki"
)

// ---------------------------------------------------------------------------
// the world: exact detection of rest

type world struct {
	mu      sync.Mutex
	cond    *sync.Cond // every parked goroutine waits here
	idle    *sync.Cond // the driver waits here
	busy    int        // goroutines of the world that are not parked
	live    int        // goroutines of the world that have not finished
	waiting int
	tick    int
	done    bool
}

func newWorld() *world {
	w := &world{}
	w.cond = sync.NewCond(&w.mu)
	w.idle = sync.NewCond(&w.mu)
	return w
}

// park: mu held.  The goroutine cannot go on until somebody changes the state of the world.
func (w *world) park() {
	w.waiting++
	w.busy--
	if w.busy == 0 {
		w.idle.Broadcast()
	}
	w.cond.Wait()
}

// wake: mu held.  The state changed: everybody parked looks again (and is running until it parks again).
func (w *world) wake() {
	w.busy += w.waiting
	w.waiting = 0
	w.cond.Broadcast()
}

func (w *world) spawnLocked(f func()) {
	w.busy++
	w.live++
	go func() {
		defer func() {
			w.mu.Lock()
			w.busy--
			w.live--
			if w.busy == 0 || w.live == 0 {
				w.idle.Broadcast()
			}
			w.mu.Unlock()
		}()
		f()
	}()
}

// stuckSeen: after two watchdog expiries in this process the watchdogs get short (the tree under
// test hangs systematically; every further case would otherwise cost the full wait)
var stuckSeen atomic.Int32

func watchdogFor(long time.Duration) time.Duration {
	if stuckSeen.Load() >= 2 {
		return 250 * time.Millisecond
	}
	return long
}

// waitFor: mu NOT held.  Waits until cond() holds (evaluated under mu) or the watchdog expires.
func (w *world) waitFor(cond func() bool, wd time.Duration) bool {
	w.mu.Lock()
	defer w.mu.Unlock()
	expired := false
	t := time.AfterFunc(wd, func() {
		w.mu.Lock()
		expired = true
		w.idle.Broadcast()
		w.mu.Unlock()
	})
	defer t.Stop()
	for !cond() && !expired {
		w.idle.Wait()
	}
	if !cond() {
		stuckSeen.Add(1)
		return false
	}
	return true
}

// ---------------------------------------------------------------------------
// blocking in-memory transport and listener

type lbuf struct {
	data     []byte
	eof      bool // the writer has gone away: EOF once drained
	rdClosed bool // the reader has gone away: writes fail
}

type laddr string

func (a laddr) Network() string { return "mem" }
func (a laddr) String() string  { return string(a) }

type lend struct {
	w       *world
	in, out *lbuf
	closed  bool
	seg     int // most bytes one Read returns (0: no limit)
	remote  laddr
}

func lpipe(w *world, id, seg int) (cli, srv *lend) {
	a, b := &lbuf{}, &lbuf{}
	cli = &lend{w: w, in: b, out: a, remote: "server"}
	srv = &lend{w: w, in: a, out: b, seg: seg, remote: laddr("peer:" + strconv.Itoa(id))}
	return
}

func (e *lend) Read(p []byte) (int, error) {
	e.w.mu.Lock()
	defer e.w.mu.Unlock()
	for {
		if e.closed {
			return 0, net.ErrClosed
		}
		if len(p) == 0 {
			return 0, nil
		}
		if len(e.in.data) > 0 {
			n := len(e.in.data)
			if n > len(p) {
				n = len(p)
			}
			if e.seg > 0 && n > e.seg {
				n = e.seg
			}
			copy(p, e.in.data[:n])
			e.in.data = e.in.data[n:]
			return n, nil
		}
		if e.in.eof {
			return 0, io.EOF
		}
		if e.w.done {
			return 0, net.ErrClosed
		}
		e.w.park()
	}
}

func (e *lend) writeLocked(p []byte) (int, error) {
	if e.closed {
		return 0, net.ErrClosed
	}
	if e.out.rdClosed || e.out.eof {
		return 0, io.ErrClosedPipe
	}
	e.out.data = append(e.out.data, p...)
	e.w.wake()
	return len(p), nil
}

func (e *lend) Write(p []byte) (int, error) {
	e.w.mu.Lock()
	defer e.w.mu.Unlock()
	return e.writeLocked(p)
}

func (e *lend) closeLocked() {
	if e.closed {
		return
	}
	e.closed = true
	e.out.eof = true
	e.in.rdClosed = true
	e.w.wake()
}

func (e *lend) Close() error {
	e.w.mu.Lock()
	defer e.w.mu.Unlock()
	e.closeLocked()
	return nil
}
func (e *lend) LocalAddr() net.Addr                { return laddr("local") }
func (e *lend) RemoteAddr() net.Addr               { return e.remote }
func (e *lend) SetDeadline(t time.Time) error      { return nil }
func (e *lend) SetReadDeadline(t time.Time) error  { return nil }
func (e *lend) SetWriteDeadline(t time.Time) error { return nil }

type llistener struct {
	w      *world
	q      []net.Conn
	closed bool
}

func (l *llistener) Accept() (net.Conn, error) {
	l.w.mu.Lock()
	defer l.w.mu.Unlock()
	for {
		if l.closed || l.w.done {
			return nil, net.ErrClosed
		}
		if len(l.q) > 0 {
			c := l.q[0]
			l.q = l.q[1:]
			return c, nil
		}
		l.w.park()
	}
}
func (l *llistener) Close() error {
	l.w.mu.Lock()
	defer l.w.mu.Unlock()
	l.closed = true
	l.w.wake()
	return nil
}
func (l *llistener) Addr() net.Addr { return laddr("listener") }

// gatedLend: a client transport whose FIRST Write delivers only the first k bytes and holds the
// rest back until the world's tick reaches `open` (a first record split over time).
type gatedLend struct {
	*lend
	k, open int
	started bool
}

func (g *gatedLend) Write(b []byte) (int, error) {
	if g.started {
		return g.lend.Write(b)
	}
	g.started = true
	k := g.k
	if k > len(b) {
		k = len(b)
	}
	w := g.lend.w
	w.mu.Lock()
	if k > 0 {
		if _, err := g.lend.writeLocked(b[:k]); err != nil {
			w.mu.Unlock()
			return 0, err
		}
	}
	for w.tick < g.open && !w.done {
		w.park()
	}
	n, err := g.lend.writeLocked(b[k:])
	w.mu.Unlock()
	return k + n, err
}

// ---------------------------------------------------------------------------
// peers

type lact struct {
	at    int // absolute tick
	close bool
	data  []byte
}

type lpeer struct {
	arrive int // absolute tick
	acts   []lact
	real   string // "", "tlcp", "tls"
	k, g   int    // real client with a split first record: k bytes at once, the rest g ticks later (g < 0: not split)
	// run time
	cli, srv *lend
	acc      int // tick at which Accept returned the connection, -1: never
	hasDec   bool
	decTick  int
	decClass string
	stackAt  bool // the first call came back with a stack installed (or has not come back)
	got      []byte
	cres     string
	sw       *pa.ProtocolSwitchServerConn
}

func parsePeers(s string) []*lpeer {
	var out []*lpeer
	if s == "-" || s == "" {
		return out
	}
	t0 := 0
	for _, ps := range strings.Split(s, "|") {
		i := strings.Index(ps, "/")
		if i < 0 {
			panic("bad peer " + ps)
		}
		gap, _ := strconv.Atoi(ps[:i])
		body := ps[i+1:]
		p := &lpeer{arrive: t0 + gap, acc: -1, g: -1}
		t0 = p.arrive
		switch {
		case strings.HasPrefix(body, "C"):
			f := strings.Split(body[1:], ":")
			p.real = f[0]
			if len(f) == 3 {
				p.k, _ = strconv.Atoi(f[1])
				p.g, _ = strconv.Atoi(f[2])
			}
		case body == "-":
		default:
			t := p.arrive
			for _, as := range strings.Split(body, ",") {
				j := 0
				for j < len(as) && as[j] >= '0' && as[j] <= '9' {
					j++
				}
				g, _ := strconv.Atoi(as[:j])
				t += g
				switch {
				case as[j:] == "X":
					p.acts = append(p.acts, lact{at: t, close: true})
				case strings.HasPrefix(as[j:], "D"):
					p.acts = append(p.acts, lact{at: t, data: hx.UnHex(as[j+1:])})
				default:
					panic("bad act " + as)
				}
			}
		}
		out = append(out, p)
	}
	return out
}

var echoMsg = []byte("ping through the adapter")

func execListen(desc string) string {
	shape, _ := hx.KV(desc, "cfg")
	mode, _ := hx.KV(desc, "mode")
	rb := hx.KVInt(desc, "rb")
	if rb < 1 {
		rb = 1
	}
	seg := hx.KVInt(desc, "seg")
	ps, _ := hx.KV(desc, "peers")
	peers := parsePeers(ps)
	tc, sc := configs(shape)
	w := newWorld()
	inner := &llistener{w: w}
	ln := pa.NewListener(inner, tc, sc)

	last := 0
	for _, p := range peers {
		if p.arrive > last {
			last = p.arrive
		}
		if p.g >= 0 && p.arrive+p.g > last {
			last = p.arrive + p.g
		}
		for _, a := range p.acts {
			if a.at > last {
				last = a.at
			}
		}
	}

	peerOf := func(c net.Conn) *lpeer {
		s := c.RemoteAddr().String()
		if !strings.HasPrefix(s, "peer:") {
			return nil
		}
		i, err := strconv.Atoi(s[5:])
		if err != nil || i < 0 || i >= len(peers) {
			return nil
		}
		return peers[i]
	}
	decide := func(p *lpeer, class string, stack bool) {
		w.mu.Lock()
		if !p.hasDec {
			p.hasDec, p.decTick, p.decClass, p.stackAt = true, w.tick, class, stack
		}
		w.mu.Unlock()
	}
	serve := func(c net.Conn, p *lpeer) {
		sw, _ := c.(*pa.ProtocolSwitchServerConn)
		if mode == "D" {
			if sw == nil {
				decide(p, "other", false)
				return
			}
			var derr error
			if pn := hx.Guard(func() { derr = pa.VerifDetect(sw) }); pn != "" {
				decide(p, "panic", false)
				return
			}
			if derr != nil {
				decide(p, errClass(derr), false)
				return
			}
			decide(p, stackOf(sw.ProtectedConn()), true)
			pd := pa.VerifDetectConn(sw)
			buf := make([]byte, rb)
			for {
				var n int
				var err error
				if pn := hx.Guard(func() { n, err = pd.Read(buf) }); pn != "" {
					return
				}
				w.mu.Lock()
				p.got = append(p.got, buf[:n]...)
				w.mu.Unlock()
				if err != nil {
					return
				}
			}
		}
		// mode R: an echo server on the public object, no hooks
		defer c.Close()
		buf := make([]byte, 64)
		first := true
		for {
			var n int
			var err error
			if pn := hx.Guard(func() { n, err = c.Read(buf) }); pn != "" {
				if first {
					decide(p, "panic", false)
				}
				return
			}
			if first {
				first = false
				var pc net.Conn
				if sw != nil {
					pc = sw.ProtectedConn()
				}
				if pc != nil {
					decide(p, stackOf(pc), true)
				} else if err == nil {
					decide(p, "ok", false)
				} else {
					decide(p, errClass(err), false)
				}
			}
			if n > 0 {
				if _, werr := c.Write(buf[:n]); werr != nil {
					return
				}
			}
			if err != nil {
				return
			}
		}
	}
	client := func(p *lpeer) {
		var tr net.Conn = p.cli
		if p.g >= 0 {
			tr = &gatedLend{lend: p.cli, k: p.k, open: p.arrive + p.g}
		}
		res := "fail"
		defer func() {
			w.mu.Lock()
			p.cres = res
			w.mu.Unlock()
			p.cli.Close()
		}()
		var conn net.Conn
		var herr error
		if p.real == "tlcp" {
			cc := tlcp.Client(tr, pair.TClient())
			herr = cc.Handshake()
			conn = cc
		} else {
			cc := tls.Client(tr, &tls.Config{InsecureSkipVerify: true, Time: pki.NowFn})
			herr = cc.Handshake()
			conn = cc
		}
		if herr != nil {
			return
		}
		if _, err := conn.Write(echoMsg); err != nil {
			return
		}
		back := make([]byte, len(echoMsg))
		if _, err := io.ReadFull(conn, back); err != nil || string(back) != string(echoMsg) {
			return
		}
		res = "ok"
	}

	// the server
	w.mu.Lock()
	w.spawnLocked(func() {
		for {
			c, err := ln.Accept()
			if err != nil {
				return
			}
			p := peerOf(c)
			if p == nil {
				c.Close()
				continue
			}
			w.mu.Lock()
			p.acc = w.tick
			if sw, ok := c.(*pa.ProtocolSwitchServerConn); ok {
				p.sw = sw
			}
			w.spawnLocked(func() { serve(c, p) })
			w.mu.Unlock()
		}
	})
	w.mu.Unlock()

	wd := -1
	for t := 0; t <= last && wd < 0; t++ {
		w.mu.Lock()
		w.tick = t
		for i, p := range peers {
			if p.arrive == t {
				p.cli, p.srv = lpipe(w, i, seg)
				inner.q = append(inner.q, p.srv)
				if p.real != "" {
					pp := p
					w.spawnLocked(func() { client(pp) })
				}
			}
			for _, a := range p.acts {
				if a.at != t || p.cli == nil || p.cli.closed {
					continue
				}
				if a.close {
					p.cli.closeLocked()
				} else {
					p.cli.writeLocked(a.data)
				}
			}
		}
		w.wake()
		w.mu.Unlock()
		if !w.waitFor(func() bool { return w.busy == 0 }, watchdogFor(3*time.Second)) {
			wd = t
		}
	}

	// the world is at rest: snapshot of what Accept and the first calls have done
	type snap struct {
		acc, decTick  int
		hasDec, stack bool
		class, cres   string
		got           []byte
	}
	w.mu.Lock()
	snaps := make([]snap, len(peers))
	for i, p := range peers {
		snaps[i] = snap{acc: p.acc, decTick: p.decTick, hasDec: p.hasDec, stack: p.stackAt, class: p.decClass, cres: p.cres}
	}
	// then every peer goes away (end of its stream): a stack that serves a connection reads to the end.  (A Read
	// with a buffer longer than the rest of the replayed header hands that rest out only together with what the
	// transport has next — or with its end.)
	for _, p := range peers {
		if p.cli != nil {
			p.cli.closeLocked()
		}
	}
	w.wake()
	w.mu.Unlock()
	if wd < 0 && !w.waitFor(func() bool { return w.busy == 0 }, watchdogFor(3*time.Second)) {
		wd = last + 1
	}
	w.mu.Lock()
	for i, p := range peers {
		if snaps[i].hasDec && snaps[i].stack {
			snaps[i].got = append([]byte(nil), p.got...)
		}
	}
	// teardown: everything goes away under the server
	w.done = true
	inner.closed = true
	for _, p := range peers {
		if p.cli != nil {
			p.srv.closeLocked()
		}
	}
	w.wake()
	w.mu.Unlock()
	ended := w.waitFor(func() bool { return w.live == 0 }, watchdogFor(2*time.Second))

	outs := make([]string, len(peers))
	for i, p := range peers {
		s := snaps[i]
		if s.acc < 0 {
			outs[i] = "-/-/-"
			continue
		}
		dec := "-"
		if s.hasDec {
			dec = fmt.Sprintf("%d:%s", s.decTick, s.class)
		}
		switch {
		case p.real != "":
			res := s.cres
			if res == "" {
				res = "fail"
			}
			outs[i] = fmt.Sprintf("%d/%s/%s", s.acc, dec, res)
		case mode == "D":
			got := "-"
			if len(s.got) > 0 {
				got = hx.Hex(s.got)
			}
			outs[i] = fmt.Sprintf("%d/%s/%s", s.acc, dec, got)
		default:
			// mode R, scripted peer: an adapter error of the first call with its tick; otherwise the stack
			// installed in the end (when the first call returns is then the stack's business)
			if s.hasDec && !s.stack {
				outs[i] = fmt.Sprintf("%d/%s/-", s.acc, dec)
			} else {
				fin := "?"
				if ended && p.sw != nil {
					fin = stackOf(p.sw.ProtectedConn())
				}
				outs[i] = fmt.Sprintf("%d/~%s/-", s.acc, fin)
			}
		}
	}
	res := "conns=" + joinBar(outs)
	if wd >= 0 {
		res += fmt.Sprintf(" wd=%d", wd)
	}
	return res
}

func joinBar(ss []string) string {
	if len(ss) == 0 {
		return "-"
	}
	return strings.Join(ss, "|")
}

// ---------------------------------------------------------------------------
// generation

// lhdr: a first record of peer i with the given major version: header + six bytes that name the peer
func lhdr(mj byte, i int) []byte {
	s := []byte{0x16, mj, 0x01, 0x00, 0x06}
	for j := 0; j < 6; j++ {
		s = append(s, byte(0x10*(i+1)+j))
	}
	return s
}

// lkind: the acts of a scripted peer of the given kind (i = its position, for a payload of its own)
func lkind(kind string, i int) string {
	h := func(mj byte) string { return hx.Hex(lhdr(mj, i)) }
	cut := func(mj byte, gaps []int, cuts ...int) string { // the first record in pieces, gaps[j] ticks before piece j
		s := lhdr(mj, i)
		var out []string
		off := 0
		for j, c := range append(cuts, len(s)) {
			out = append(out, fmt.Sprintf("%dD%s", gaps[j], hx.Hex(s[off:c])))
			off = c
		}
		return strings.Join(out, ",")
	}
	switch kind {
	case "S": // connects and stays silent
		return "-"
	case "F1", "F3", "F2": // the whole first record at once (major 1, 3, 2 = unsupported)
		return "0D" + h(kind[1]-'0')
	case "P1": // first record split over three ticks
		return cut(1, []int{0, 1, 1}, 2, 4)
	case "P3": // byte by byte over five ticks
		return cut(3, []int{0, 1, 1, 1, 1, 0}, 1, 2, 3, 4, 5)
	case "L3": // nothing for two ticks, then everything
		return "2D" + h(3)
	case "L1":
		return "3D" + h(1)
	case "W1": // four bytes, the fifth two ticks later
		return cut(1, []int{0, 2}, 4)
	case "K": // three bytes, then silent
		return "0D160101"
	case "E": // two bytes, gone a tick later
		return "0D1603,1X"
	case "E4": // four bytes over two ticks, then gone
		return "0D1601,1D0100,1X"
	case "X": // gone at once
		return "0X"
	case "Z": // a full record, then gone
		return "0D" + h(1) + ",0X"
	}
	panic("kind " + kind)
}

func genListen(emit func(string), rng *hx.Rand, thorough bool, scale int) {
	cs := func(cfg, mode string, rb, seg int, ps []string) {
		// a tree on which the world does not come to rest again and again (a goroutine blocked outside the
		// instrumented transports): eight reports are enough, every further case would cost a watchdog
		if stuckSeen.Load() >= 8 {
			return
		}
		emit(fmt.Sprintf("ph=listen cfg=%s mode=%s rb=%d seg=%d peers=%s", cfg, mode, rb, seg, strings.Join(ps, "|")))
	}
	peer := func(gap int, kind string, i int) string {
		if strings.HasPrefix(kind, "C") {
			return fmt.Sprintf("%d/%s", gap, kind)
		}
		return fmt.Sprintf("%d/%s", gap, lkind(kind, i))
	}
	// 1. the crisp schedules first: a silent peer at the head of the queue, then a complete first record
	cs("dual", "D", 4, 0, []string{"0/-", "0/0D1601010006"})
	cs("dual", "D", 4, 0, []string{"0/-", "1/0D1603030006"})
	cs("dual", "R", 4, 0, []string{"0/-", "0/Ctlcp", "0/Ctls"})
	// 2. every ordered pair of kinds, the second peer connecting the same tick and a tick later
	kinds := []string{"S", "F1", "F3", "F2", "P1", "P3", "L3", "W1", "K", "E", "E4", "X", "Z"}
	rbs := []int{1, 4, 5, 7, 64}
	for ai, a := range kinds {
		for bi, b := range kinds {
			for gap := 0; gap <= 1; gap++ {
				if !thorough && gap == 1 && (ai+bi)%2 == 1 {
					continue
				}
				cs(hx.Pick(rng, []string{"dual", "dual", "tlcp", "tls"}), "D", hx.Pick(rng, rbs), hx.Pick(rng, []int{0, 0, 1, 3}),
					[]string{peer(0, a, 0), peer(gap, b, 1)})
			}
		}
	}
	// 3. every ordered triple over the kinds that differ in WHEN their header is complete
	k3 := []string{"S", "F1", "P3", "L1", "K", "E"}
	for _, a := range k3 {
		for _, b := range k3 {
			for _, c := range k3 {
				cs("dual", "D", hx.Pick(rng, rbs), hx.Pick(rng, []int{0, 2}),
					[]string{peer(rng.Intn(2), a, 0), peer(rng.Intn(2), b, 1), peer(rng.Intn(3), c, 2)})
			}
		}
	}
	// 4. random schedules: 2..5 peers, random acts
	n := 400
	if thorough {
		n = 20000
	}
	n *= scale
	for i := 0; i < n; i++ {
		np := 2 + rng.Intn(4)
		var ps []string
		for j := 0; j < np; j++ {
			var acts []string
			s := lhdr(hx.Pick(rng, []byte{1, 3, 1, 3, 2, 0x16}), j)
			off := 0
			for off < len(s) && !rng.Chance(15) {
				m := 1 + rng.Intn(4)
				if rng.Chance(20) {
					m = len(s)
				}
				if off+m > len(s) {
					m = len(s) - off
				}
				acts = append(acts, fmt.Sprintf("%dD%s", rng.Intn(3), hx.Hex(s[off:off+m])))
				off += m
			}
			if rng.Chance(30) {
				acts = append(acts, fmt.Sprintf("%dX", rng.Intn(3)))
			}
			body := "-"
			if len(acts) > 0 {
				body = strings.Join(acts, ",")
			}
			ps = append(ps, fmt.Sprintf("%d/%s", rng.Intn(3), body))
		}
		cs(hx.Pick(rng, shapes), "D", hx.Pick(rng, rbs), rng.Intn(4), ps)
	}
	// 5. public API only: real TLCP / crypto/tls clients (handshake + echo) next to silent, slow and vanishing
	//    peers, in every order; scripted peers with a complete first record too (`~stack`)
	kr := []string{"S", "K", "E", "F2", "F1", "Ctlcp", "Ctls", "Ctlcp:2:1", "Ctls:0:2"}
	for ai, a := range kr {
		for bi, b := range kr {
			if !strings.HasPrefix(a, "C") && !strings.HasPrefix(b, "C") && !thorough && (ai+bi)%2 == 1 {
				continue
			}
			cs(hx.Pick(rng, []string{"dual", "dual", "dual", "tlcp", "tls"}), "R", 4, hx.Pick(rng, []int{0, 0, 3}),
				[]string{peer(0, a, 0), peer(rng.Intn(2), b, 1)})
		}
	}
	perms := [][3]int{{0, 1, 2}, {0, 2, 1}, {1, 0, 2}, {1, 2, 0}, {2, 0, 1}, {2, 1, 0}}
	for _, trio := range [][3]string{{"S", "Ctlcp", "Ctls"}, {"K", "Ctls:3:2", "Ctlcp"}, {"W1", "Ctlcp:4:1", "E"}} {
		for _, pm := range perms {
			for _, sh := range shapes {
				if !thorough && sh != "dual" && (pm[0]+pm[1]*2)%3 != 0 {
					continue
				}
				cs(sh, "R", 4, 0, []string{peer(0, trio[pm[0]], 0), peer(rng.Intn(2), trio[pm[1]], 1), peer(rng.Intn(2), trio[pm[2]], 2)})
			}
		}
	}
}

package main

// Phase wf of C04: a transport write that FAILS while a protected record is going out, followed by
// another protected record on the same connection.
//
// After a real handshake and a few messages each way, the transport of one side (client or server)
// is armed: the write that carries the next application-data record (or the second record of a large
// message) lets only the first k bytes through — k past the header and the explicit IV / nonce, up
// to the whole record — and returns a timeout error, as a TCP write deadline or a failing datagram
// path does.  Then the library is made to emit one more protected record: Close (close_notify),
// CloseWrite, an alert of the read path (tlcp: a record that does not authenticate arrives; dtlcp: a
// record of an unknown content type sealed by the Lean side under the peer's keys arrives), or a
// refused second Write followed by Close/CloseWrite.
//
// Captured is, per direction, every record as it was HANDED to the transport (the failed one in
// full, with `fault=<offset>:<k>` saying how much of it got out).  The Lean oracle re-derives the keys
// and demands what an independent implementation of the standard demands of the bytes on the wire:
// the record after the failed one is sealed under the NEXT sequence number and no explicit
// nonce / IV repeats under the key.
//
// case    : op=wf stack suite side npre cut at next seed           (configuration, re-executable)
//           master smaster pre c2s s2c sentc sents fault            (captured)
// observed: ok=1 werr=<0|1> tail=<failed record and later ones>

import (
	"fmt"
	"net"
	"strings"
	"sync"
	"time"

	"gitee.com/Trisia/gotlcp/dtlcp"
	"gitee.com/Trisia/gotlcp/tlcp"
	"verifharness/internal/hx"
	"verifharness/internal/pair"
	"verifharness/internal/pki"
)

type wfCfg struct {
	stack, side, cut, next string
	suite                  uint16
	pre, at                int
	seed                   uint64
}

func wfDesc(c wfCfg) string {
	return fmt.Sprintf("op=wf stack=%s suite=%d side=%s npre=%d cut=%s at=%d next=%s seed=%d",
		c.stack, c.suite, c.side, c.pre, c.cut, c.at, c.next, c.seed)
}

// faultState is shared by the stream and the datagram wrapper: it records every write as handed
// over and, once armed, fails one of them after k bytes.
type faultState struct {
	mu       sync.Mutex
	armed    bool
	skip     int    // writes to let through before the failing one
	cut      string // min | half | last | full
	min      int    // header + explicit IV/nonce + 1
	attempts [][]byte
	faultIdx int // index into attempts of the failed write, -1 = none
	k        int
}

func (f *faultState) arm(skip int, cut string, min int) {
	f.mu.Lock()
	f.armed, f.skip, f.cut, f.min = true, skip, cut, min
	f.mu.Unlock()
}

// decide records the write and says how many bytes to let through (-1: all, no fault).
func (f *faultState) decide(p []byte) int {
	f.mu.Lock()
	defer f.mu.Unlock()
	f.attempts = append(f.attempts, append([]byte(nil), p...))
	if !f.armed {
		return -1
	}
	if f.skip > 0 {
		f.skip--
		return -1
	}
	f.armed = false
	k := len(p)
	switch f.cut {
	case "min":
		k = f.min
	case "half":
		k = (f.min + len(p)) / 2
	case "last":
		k = len(p) - 1
	}
	if k > len(p) {
		k = len(p)
	}
	f.faultIdx, f.k = len(f.attempts)-1, k
	return k
}

func (f *faultState) snapshot() (all []byte, off, k, from int) {
	f.mu.Lock()
	defer f.mu.Unlock()
	off, from = -1, -1
	for i, a := range f.attempts {
		if i == f.faultIdx {
			off, from = len(all), i
		}
		all = append(all, a...)
	}
	return all, off, f.k, from
}

type faultStream struct {
	*pair.StreamEnd
	fs *faultState
}

func (c *faultStream) Write(p []byte) (int, error) {
	k := c.fs.decide(p)
	if k < 0 {
		return c.StreamEnd.Write(p)
	}
	c.StreamEnd.Write(p[:k])
	return k, pair.ErrTimeout
}

type faultPacket struct {
	*pair.PacketEnd
	fs *faultState
}

func (c *faultPacket) WriteTo(p []byte, a net.Addr) (int, error) {
	c.fs.mu.Lock()
	n0 := len(c.fs.attempts)
	c.fs.mu.Unlock()
	k := c.fs.decide(p)
	if k < 0 {
		n, err := c.PacketEnd.WriteTo(p, a)
		if err != nil { // closed transport: nothing went out
			c.fs.mu.Lock()
			c.fs.attempts = c.fs.attempts[:n0]
			c.fs.mu.Unlock()
		}
		return n, err
	}
	// a datagram goes out whole or not at all: it went out, and the path reports a failure
	c.PacketEnd.WriteTo(p, a)
	return len(p), pair.ErrTimeout
}

func hsBoth(c, s func() error, abort func()) (error, error, bool) {
	var ce, se error
	var wg sync.WaitGroup
	wg.Add(2)
	go func() { defer wg.Done(); ce = c() }()
	go func() { defer wg.Done(); se = s() }()
	done := make(chan struct{})
	go func() { wg.Wait(); close(done) }()
	select {
	case <-done:
		return ce, se, false
	case <-time.After(20 * time.Second):
		abort()
		<-done
		return ce, se, true
	}
}

type wfOut struct {
	cp    capture
	off   int
	k     int
	werr  bool
	nrec  int
	tail  []byte
	extra string
}

func explicitLen(id uint16) int {
	if isGCM(id) {
		return 8
	}
	return 16
}

type closeWriter interface {
	rw
	Close() error
	CloseWrite() error
}

// after the failed write: make the library seal one more record
func wfNext(cfg wfCfg, f closeWriter, provoke func()) {
	switch cfg.next {
	case "close":
		f.Close()
	case "closewrite":
		f.CloseWrite()
	case "alert":
		provoke()
		f.SetReadDeadline(time.Now().Add(2 * time.Second))
		buf := make([]byte, 4096)
		for i := 0; i < 4; i++ {
			if _, err := f.Read(buf); err != nil {
				break
			}
		}
	case "write2":
		f.Write([]byte("again")) // refused: the write error is sticky; nothing may be sealed
		if cfg.stack == "tlcp" {
			f.Close()
		} else {
			f.CloseWrite()
		}
	}
}

func wfMessage(cfg wfCfg, r *hx.Rand) []byte {
	if cfg.at == 0 {
		return append([]byte{'F'}, r.Bytes(r.Intn(700))...)
	}
	if cfg.stack == "tlcp" {
		return append([]byte{'F'}, r.Bytes(17000+r.Intn(3000))...) // more than one record whatever the sizing
	}
	return append([]byte{'F'}, r.Bytes(1500+r.Intn(600))...) // more than the default PMTU
}

func runWFTLCP(cfg wfCfg) (o wfOut, err string) {
	s := pki.Std()
	cc := &tCache{inner: tlcp.NewLRUSessionCache(8)}
	sc := &tCache{inner: tlcp.NewLRUSessionCache(8)}
	ccfg := &tlcp.Config{RootCAs: s.Root.Pool, ServerName: "test.example", Time: pki.NowFn, CipherSuites: []uint16{cfg.suite}, SessionCache: cc}
	scfg := &tlcp.Config{Certificates: []tlcp.Certificate{pair.TCert(s.SrvSig), pair.TCert(s.SrvEnc)}, Time: pki.NowFn,
		CipherSuites: []uint16{cfg.suite}, SessionCache: sc}
	ce, se := pair.StreamPipe()
	fs := &faultState{faultIdx: -1}
	var cconn, sconn net.Conn = ce, se
	if cfg.side == "client" {
		cconn = &faultStream{ce, fs}
	} else {
		sconn = &faultStream{se, fs}
	}
	c, sv := tlcp.Client(cconn, ccfg), tlcp.Server(sconn, scfg)
	defer func() { ce.Close(); se.Close() }()
	if e1, e2, to := hsBoth(c.Handshake, sv.Handshake, func() { ce.Close(); se.Close() }); e1 != nil || e2 != nil || to {
		return o, fmt.Sprintf("handshake:%v/%v", e1, e2)
	}
	rnd := hx.NewRand(cfg.seed)
	cm, call := genMsgs(rnd, cfg.pre, 600)
	sm, sall := genMsgs(rnd, cfg.pre, 600)
	if e := exchange(c, sv, cm, sm, len(call), len(sall)); e != nil {
		return o, "data:" + e.Error()
	}
	f, p, pEnd := c, sv, se
	if cfg.side == "server" {
		f, p, pEnd = sv, c, ce
	}
	msg := wfMessage(cfg, rnd)
	fs.arm(cfg.at, cfg.cut, 5+explicitLen(cfg.suite)+1)
	_, werr := f.Write(msg)
	o.werr = werr != nil
	wfNext(cfg, f, func() {
		// a record that does not authenticate: the read path answers with a fatal alert
		g := append([]byte{23, 1, 1, 0, 48}, rnd.Bytes(48)...)
		pEnd.Inject(g)
	})
	f.Close()
	p.Close()
	all, off, k, from := fs.snapshot()
	o.off, o.k = off, k
	if from >= 0 {
		o.nrec = len(fs.attempts) - from - 1
		o.tail = all[off:]
	}
	if cfg.side == "client" {
		o.cp.c2s, o.cp.s2c = all, se.SentBytes()
		call = append(call, msg...)
	} else {
		o.cp.c2s, o.cp.s2c = ce.SentBytes(), all
		sall = append(sall, msg...)
	}
	o.cp.master, o.cp.smast = cc.master, sc.master
	o.cp.sentc, o.cp.sents = call, sall
	return o, ""
}

func runWFDTLCP(cfg wfCfg) (o wfOut, err string) {
	cc := &dCache{inner: dtlcp.NewLRUSessionCache(8)}
	sc := &dCache{inner: dtlcp.NewLRUSessionCache(8)}
	ccfg, scfg := pair.DClient(), pair.DServer()
	ccfg.CipherSuites, scfg.CipherSuites = []uint16{cfg.suite}, []uint16{cfg.suite}
	ccfg.SessionCache, scfg.SessionCache = cc, sc
	ccfg.InitialRetransmitTimeout, scfg.InitialRetransmitTimeout = 6*time.Second, 6*time.Second
	ce, se := pair.PacketPipe()
	fs := &faultState{faultIdx: -1}
	var cconn, sconn net.PacketConn = ce, se
	if cfg.side == "client" {
		cconn = &faultPacket{ce, fs}
	} else {
		sconn = &faultPacket{se, fs}
	}
	c, sv := dtlcp.Client(cconn, se.LocalAddr(), ccfg), dtlcp.Server(sconn, ce.LocalAddr(), scfg)
	defer func() { ce.Close(); se.Close() }()
	if e1, e2, to := hsBoth(c.Handshake, sv.Handshake, func() { ce.Close(); se.Close() }); e1 != nil || e2 != nil || to {
		return o, fmt.Sprintf("handshake:%v/%v", e1, e2)
	}
	rnd := hx.NewRand(cfg.seed)
	cm, call := genMsgs(rnd, cfg.pre, 600)
	sm, sall := genMsgs(rnd, cfg.pre, 600)
	if e := exchange(c, sv, cm, sm, len(call), len(sall)); e != nil {
		return o, "data:" + e.Error()
	}
	f, p, fEnd, pEnd := c, sv, ce, se
	if cfg.side == "server" {
		f, p, fEnd, pEnd = sv, c, se, ce
	}
	wire := func(e *pair.PacketEnd) (w []byte) {
		for _, d := range e.SentCopy() {
			w = append(w, d...)
		}
		return
	}
	msg := wfMessage(cfg, rnd)
	fs.arm(cfg.at, "full", 0)
	_, werr := f.Write(msg)
	o.werr = werr != nil
	bad := ""
	wfNext(cfg, f, func() {
		// a record of an unknown content type that DOES authenticate (sealed by the Lean side under
		// the peer's write keys, a fresh sequence number): the read path answers with an alert
		ch, sh := dtlcpLastMessage(wire(ce), 1), dtlcpLastMessage(wire(se), 2)
		if len(ch) < 34 || len(sh) < 34 {
			bad = "hellos"
			return
		}
		cmac, smac, ckey, skey, civ, siv := dtlcp.VerifKeys(cfg.suite, cc.master, ch[2:34], sh[2:34])
		mac, key, iv := smac, skey, siv // the peer of a faulting client is the server
		if cfg.side == "server" {
			mac, key, iv = cmac, ckey, civ
		}
		nonce := rnd.Bytes(16)
		seq := uint64(1000 + rnd.Intn(1000))
		if isGCM(cfg.suite) {
			nonce = seqBytes(false, 1, seq)
		}
		rec := leanSeal(fmt.Sprintf("stack=dtlcp suite=%d key=%s iv=%s mac=%s epoch=1 seq=%d typ=99 ver=257 nonce=%s payload=%s",
			cfg.suite, hx.Hex(key), hx.Hex(iv), hx.Hex(mac), seq, hx.Hex(nonce), hx.Hex(rnd.Bytes(5))))
		if rec == nil {
			bad = "sealer"
			return
		}
		fEnd.Deliver(rec, pEnd.LocalAddr())
	})
	if bad != "" {
		return o, bad
	}
	f.Close()
	p.Close()
	all, off, k, from := fs.snapshot()
	o.off, o.k = off, k
	if from >= 0 {
		o.nrec = len(fs.attempts) - from - 1
		o.tail = all[off:]
	}
	if cfg.side == "client" {
		o.cp.c2s, o.cp.s2c = all, wire(se)
		call = append(call, msg...)
	} else {
		o.cp.c2s, o.cp.s2c = wire(ce), all
		sall = append(sall, msg...)
	}
	o.cp.master, o.cp.smast = cc.master, sc.master
	o.cp.sentc, o.cp.sents = call, sall
	return o, ""
}

func executeWFFull(desc string) (captured, obs string) {
	cfg := wfCfg{stack: "tlcp", side: "client"}
	if v, _ := hx.KV(desc, "stack"); v == "dtlcp" {
		cfg.stack = "dtlcp"
	}
	if v, _ := hx.KV(desc, "side"); v == "server" {
		cfg.side = "server"
	}
	cfg.cut, _ = hx.KV(desc, "cut")
	cfg.next, _ = hx.KV(desc, "next")
	cfg.suite = uint16(kvU64(desc, "suite"))
	cfg.pre, cfg.at = int(kvU64(desc, "npre")), int(kvU64(desc, "at"))
	cfg.seed = kvU64(desc, "seed")
	var o wfOut
	var e string
	if p := hx.Guard(func() {
		if cfg.stack == "tlcp" {
			o, e = runWFTLCP(cfg)
		} else {
			o, e = runWFDTLCP(cfg)
		}
	}); p != "" {
		return "", "panic=" + p
	}
	if e != "" {
		return "", "setup=" + strings.ReplaceAll(e, " ", "_")
	}
	captured = fmt.Sprintf("master=%s smaster=%s pre=- c2s=%s s2c=%s sentc=%s sents=%s fault=%d:%d",
		hx.Hex(o.cp.master), hx.Hex(o.cp.smast), hx.Hex(o.cp.c2s), hx.Hex(o.cp.s2c), hx.Hex(o.cp.sentc), hx.Hex(o.cp.sents), o.off, o.k)
	return captured, fmt.Sprintf("ok=1 werr=%d tail=%s", b01(o.werr), hx.Hex(o.tail))
}

func wfCases(o hx.Opts, emit func(string)) {
	r := hx.NewRand(o.Seed + 131)
	reps := 1
	if o.Tier == "thorough" {
		reps = 12
	}
	reps *= o.Scale
	// the whole product every pass (a case costs a few milliseconds); passes differ in the number and
	// sizes of the messages before the fault, i.e. in the sequence numbers involved
	for rep := 0; rep < reps; rep++ {
		for _, st := range []string{"tlcp", "dtlcp"} {
			nexts := []string{"close", "closewrite", "alert", "write2"}
			cuts := []string{"min", "half", "last", "full"}
			if st == "dtlcp" {
				// dtlcp's Close shuts the transport before close_notify (nothing is sealed), and a
				// datagram goes out whole or not at all
				nexts = []string{"closewrite", "alert", "write2"}
				cuts = []string{"full"}
			}
			for _, id := range []uint16{0xe053, 0xe013} {
				for _, side := range []string{"client", "server"} {
					for _, nx := range nexts {
						for _, cut := range cuts {
							for at := 0; at < 2; at++ {
								emit(wfDesc(wfCfg{stack: st, suite: id, side: side, next: nx, cut: cut, at: at,
									pre: r.Intn(4), seed: r.U64() >> 1}))
							}
						}
					}
				}
			}
		}
	}
}

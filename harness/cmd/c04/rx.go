package main

// Layer 3 of C04 (phase rx): what the real RECEIVE paths of a live connection accept.
// After a real handshake the client sends A (delivered), then B is held back on the wire; a copy
// T of a genuine protected record with ONE authenticated header field rewritten (type, version,
// epoch, sequence number, length) — or, as a control, untouched — is put in front of the server;
// then the genuine C, the held-back genuine B and D follow. The server reads through the public
// API (tlcp: Read; dtlcp: Read and ReadFrom) until D arrives.
//
// For the CBC suite T is also a record SEALED BY THE LEAN SIDE (oracle_c04 seal) under the client's
// write keys, in B's place in the sequence, with LONG padding (GB/T 38636 6.3.3.4.2 allows up to 255
// bytes): well-formed (fields padlong, padmid — it must be delivered) or with damaged padding bytes
// far from / near the end (padbadfar, padbadfirst, padbadnear — it must not).
//
// For the GCM suite T is also a record sealed by the Lean side under the client's write key and write
// IV, in B's place in the sequence, whose 8-byte explicit nonce is the SENDER'S OWN CHOICE instead of
// a copy of epoch ‖ seq_num (fields noncectr, noncezero, nonceones, nonceoff, nonceswap): the
// standard leaves the explicit part to the sender, so it must be delivered by every receive path.
//
// The standard's verdict (Lean oracle, keys re-derived from the capture): T does not authenticate
// unless untouched, so it must not be delivered, and it must change nothing — C, B and D must
// still arrive (dtlcp; on tlcp a forged record is fatal: nothing more is delivered and Read fails).
//
// case    : op=rx stack suite path field seed            (configuration, re-executable)
//           master smaster pre c2s s2c sentc sents t brec b c d   (captured)
// observed: got=<payload>,<payload>,…|-  end=d|timeout|err

import (
	"fmt"
	"net"
	"os"
	"strings"
	"sync"
	"time"

	"gitee.com/Trisia/gotlcp/dtlcp"
	"gitee.com/Trisia/gotlcp/tlcp"
	"verifharness/internal/hx"
	"verifharness/internal/pair"
	"verifharness/internal/pki"
)

type rxCfg struct {
	stack, path, field string
	suite              uint16
	seed               uint64
}

func rxDesc(c rxCfg) string {
	return fmt.Sprintf("op=rx stack=%s suite=%d path=%s field=%s seed=%d", c.stack, c.suite, c.path, c.field, c.seed)
}

// tamper rewrites one header field of a copy of rec (hl = header length). prev is an older
// genuine record of the same direction (already delivered).
func tamper(field string, rec, prev []byte, hl int) []byte {
	t := append([]byte(nil), rec...)
	switch field {
	case "none":
	case "type":
		t[0] = 22
	case "type21":
		t[0] = 21
	case "version":
		t[2] ^= 1
	case "versionhi":
		t[1] ^= 2
	case "epoch2":
		t[3], t[4] = 0, 2
	case "epoch0":
		t[3], t[4] = 0, 0
	case "epoch257":
		t[3], t[4] = 1, 1
	case "seq":
		t[10] += 7
	case "seqhi":
		t[6] ^= 1
	case "length": // one byte shorter, length field adjusted
		t = t[:len(t)-1]
		n := len(t) - hl
		t[hl-2], t[hl-1] = byte(n>>8), byte(n)
	case "lengthblock": // one cipher block shorter
		t = t[:len(t)-16]
		n := len(t) - hl
		t[hl-2], t[hl-1] = byte(n>>8), byte(n)
	case "replay": // tlcp: an older genuine record in place of the expected one (implicit seq differs)
		t = append([]byte(nil), prev...)
	case "replayepoch2": // dtlcp: an already delivered record with its epoch rewritten
		t = append([]byte(nil), prev...)
		t[3], t[4] = 0, 2
	}
	return t
}

type rxOut struct {
	cp          capture
	padlen      int
	t, brec     []byte
	b, c, d     []byte
	got         [][]byte
	end         string
}

func collect(read func([]byte) (int, error), setDL func(time.Time) error, d []byte) (got [][]byte, end string) {
	setDL(time.Now().Add(1500 * time.Millisecond))
	buf := make([]byte, 20000)
	for len(got) < 8 {
		n, err := read(buf)
		if n > 0 {
			m := append([]byte(nil), buf[:n]...)
			got = append(got, m)
			if string(m) == string(d) {
				return got, "d"
			}
		}
		if err != nil {
			if ne, ok := err.(net.Error); ok && ne.Timeout() {
				return got, "timeout"
			}
			if strings.Contains(err.Error(), "deadline") || strings.Contains(err.Error(), "timeout") {
				return got, "timeout"
			}
			return got, "err"
		}
	}
	return got, "many"
}

func rxMsgs(seed uint64) (a, b, c, d []byte) {
	r := hx.NewRand(seed)
	mk := func(tag byte) []byte { return append([]byte{tag}, r.Bytes(8+r.Intn(40))...) }
	return mk('A'), mk('B'), mk('C'), mk('D')
}

func runRXTLCP(cfg rxCfg) (o rxOut, err string) {
	s := pki.Std()
	cc := &tCache{inner: tlcp.NewLRUSessionCache(8)}
	sc := &tCache{inner: tlcp.NewLRUSessionCache(8)}
	ccfg := &tlcp.Config{RootCAs: s.Root.Pool, ServerName: "test.example", Time: pki.NowFn, CipherSuites: []uint16{cfg.suite}, SessionCache: cc}
	scfg := &tlcp.Config{Certificates: []tlcp.Certificate{pair.TCert(s.SrvSig), pair.TCert(s.SrvEnc)}, Time: pki.NowFn,
		CipherSuites: []uint16{cfg.suite}, SessionCache: sc}
	var mu sync.Mutex
	hold := false
	var held []byte
	c, sv, ce, se, r := pair.TLCP(ccfg, scfg, func(ce, se *pair.StreamEnd) {
		ce.OnWrite = func(data []byte) [][]byte {
			mu.Lock()
			defer mu.Unlock()
			if hold {
				hold = false
				held = append([]byte(nil), data...)
				return nil
			}
			return [][]byte{data}
		}
	})
	defer func() { ce.Close(); se.Close() }()
	if !r.OK() {
		return o, r.String()
	}
	a, b, cm, d := rxMsgs(cfg.seed)
	o.b, o.c, o.d = b, cm, d
	before := len(ce.SentBytes())
	if _, e := c.Write(a); e != nil {
		return o, "writeA"
	}
	if got, _ := collect(sv.Read, sv.SetReadDeadline, a); len(got) != 1 {
		return o, "baseline"
	}
	arec := ce.SentBytes()[before:]
	mu.Lock()
	hold = true
	mu.Unlock()
	c.Write(b)
	mu.Lock()
	o.brec = held
	mu.Unlock()
	if len(o.brec) < 5 {
		return o, "hold"
	}
	o.t = tamper(cfg.field, o.brec, arec, 5)
	if leanSealed(cfg.field) {
		ch, sh := tlcpHandshakeMsgs(ce.SentBytes()), tlcpHandshakeMsgs(se.SentBytes())
		if len(ch) == 0 || len(sh) == 0 || len(ch[0]) < 38 || len(sh[0]) < 38 {
			return o, "hellos"
		}
		cmac, _, ckey, _, civ, _ := tlcp.VerifKeys(cfg.suite, cc.master, ch[0][6:38], sh[0][6:38])
		seq := protectedCount(ce.SentBytes()) - 1 // B is the last one; T takes its place
		o.t, o.padlen = sealForeign(cfg, "tlcp", ckey, civ, cmac, 0, uint64(seq))
		if o.t == nil {
			return o, "sealer"
		}
	}
	ce.Inject(o.t)
	c.Write(cm)
	c.Write(d)
	o.got, o.end = collect(sv.Read, sv.SetReadDeadline, d)
	c.Close()
	sv.Close()
	o.cp.c2s, o.cp.s2c = ce.SentBytes(), se.SentBytes()
	o.cp.master, o.cp.smast = cc.master, sc.master
	o.cp.sentc = append(append(append(append([]byte(nil), a...), b...), cm...), d...)
	return o, ""
}

func runRXDTLCP(cfg rxCfg) (o rxOut, err string) {
	cc := &dCache{inner: dtlcp.NewLRUSessionCache(8)}
	sc := &dCache{inner: dtlcp.NewLRUSessionCache(8)}
	ccfg, scfg := pair.DClient(), pair.DServer()
	ccfg.CipherSuites, scfg.CipherSuites = []uint16{cfg.suite}, []uint16{cfg.suite}
	ccfg.SessionCache, scfg.SessionCache = cc, sc
	ccfg.InitialRetransmitTimeout, scfg.InitialRetransmitTimeout = 6*time.Second, 6*time.Second
	var mu sync.Mutex
	hold := false
	var held []byte
	c, sv, ce, se, r := pair.DTLCP(ccfg, scfg, func(ce, se *pair.PacketEnd) {
		ce.OnSend = func(idx int, data []byte) [][]byte {
			mu.Lock()
			defer mu.Unlock()
			if hold {
				hold = false
				held = append([]byte(nil), data...)
				return nil
			}
			return [][]byte{data}
		}
	})
	defer func() { ce.Close(); se.Close() }()
	if !r.OK() {
		return o, r.String()
	}
	read := sv.Read
	if cfg.path == "readfrom" {
		read = func(p []byte) (int, error) { n, _, e := sv.ReadFrom(p); return n, e }
	}
	a, b, cm, d := rxMsgs(cfg.seed)
	o.b, o.c, o.d = b, cm, d
	if _, e := c.Write(a); e != nil {
		return o, "writeA"
	}
	if got, _ := collect(read, sv.SetReadDeadline, a); len(got) != 1 {
		return o, "baseline"
	}
	sent := ce.SentCopy()
	arec := sent[len(sent)-1]
	mu.Lock()
	hold = true
	mu.Unlock()
	c.Write(b)
	mu.Lock()
	o.brec = held
	mu.Unlock()
	if len(o.brec) < 13 {
		return o, "hold"
	}
	o.t = tamper(cfg.field, o.brec, arec, 13)
	if leanSealed(cfg.field) {
		var cwire, swire []byte
		for _, x := range ce.SentCopy() {
			cwire = append(cwire, x...)
		}
		for _, x := range se.SentCopy() {
			swire = append(swire, x...)
		}
		ch, sh := dtlcpLastMessage(cwire, 1), dtlcpLastMessage(swire, 2)
		if len(ch) < 34 || len(sh) < 34 {
			return o, "hellos"
		}
		cmac, _, ckey, _, civ, _ := dtlcp.VerifKeys(cfg.suite, cc.master, ch[2:34], sh[2:34])
		var seq uint64
		for _, b := range o.brec[5:11] {
			seq = seq<<8 | uint64(b)
		}
		o.t, o.padlen = sealForeign(cfg, "dtlcp", ckey, civ, cmac, int(o.brec[3])<<8|int(o.brec[4]), seq)
		if o.t == nil {
			return o, "sealer"
		}
	}
	se.Deliver(o.t, ce.LocalAddr())
	c.Write(cm)
	se.Deliver(o.brec, ce.LocalAddr()) // the genuine B arrives late (reordering is legal on datagrams)
	c.Write(d)
	o.got, o.end = collect(read, sv.SetReadDeadline, d)
	c.Close()
	sv.Close()
	for _, x := range ce.SentCopy() {
		o.cp.c2s = append(o.cp.c2s, x...)
	}
	for _, x := range se.SentCopy() {
		o.cp.s2c = append(o.cp.s2c, x...)
	}
	o.cp.master, o.cp.smast = cc.master, sc.master
	o.cp.sentc = append(append(append(append([]byte(nil), a...), b...), cm...), d...)
	return o, ""
}

func executeRXFull(desc string) (captured, obs string) {
	cfg := rxCfg{stack: "tlcp"}
	if v, _ := hx.KV(desc, "stack"); v == "dtlcp" {
		cfg.stack = "dtlcp"
	}
	cfg.path, _ = hx.KV(desc, "path")
	cfg.field, _ = hx.KV(desc, "field")
	cfg.suite = uint16(kvU64(desc, "suite"))
	cfg.seed = kvU64(desc, "seed")
	var o rxOut
	var e string
	if p := hx.Guard(func() {
		if cfg.stack == "tlcp" {
			o, e = runRXTLCP(cfg)
		} else {
			o, e = runRXDTLCP(cfg)
		}
	}); p != "" {
		return "", "panic=" + p
	}
	if e != "" {
		return "", "setup=" + strings.ReplaceAll(e, " ", "_")
	}
	captured = fmt.Sprintf("master=%s smaster=%s pre=- c2s=%s s2c=%s sentc=%s sents=- t=%s brec=%s b=%s c=%s d=%s padlen=%d",
		hx.Hex(o.cp.master), hx.Hex(o.cp.smast), hx.Hex(o.cp.c2s), hx.Hex(o.cp.s2c), hx.Hex(o.cp.sentc),
		hx.Hex(o.t), hx.Hex(o.brec), hx.Hex(o.b), hx.Hex(o.c), hx.Hex(o.d), o.padlen)
	var gs []string
	for _, g := range o.got {
		gs = append(gs, hx.Hex(g))
	}
	got := "-"
	if len(gs) > 0 {
		got = strings.Join(gs, ",")
	}
	return captured, fmt.Sprintf("got=%s end=%s", got, o.end)
}

// the Lean side as a sender, started on first use
var (
	sealOnce sync.Once
	theSeal  *sealer
	sealMu   sync.Mutex
)

func leanSeal(req string) []byte {
	sealOnce.Do(func() {
		path := oraclePath
		if path == "" { // replay runs pass no -oracle: the framework's build output
			if _, err := os.Stat("../lean/.lake/build/bin/oracle_c04"); err == nil {
				path = "../lean/.lake/build/bin/oracle_c04"
			}
		}
		theSeal = newSealer(path)
	})
	if theSeal == nil {
		return nil
	}
	sealMu.Lock()
	defer sealMu.Unlock()
	return theSeal.seal(req)
}

// protectedCount: records after the ChangeCipherSpec in a TLCP byte stream
func protectedCount(wire []byte) int {
	n, after := 0, false
	for i := 0; i+5 <= len(wire); {
		l := int(wire[i+3])<<8 | int(wire[i+4])
		if i+5+l > len(wire) {
			break
		}
		if after {
			n++
		}
		if wire[i] == 20 {
			after = true
		}
		i += 5 + l
	}
	return n
}

// dtlcpLastMessage reassembles the epoch-0 handshake message of type typ with the highest message_seq.
func dtlcpLastMessage(wire []byte, typ byte) []byte {
	type asm struct {
		body []byte
		have int
	}
	msgs := map[int]*asm{}
	best := -1
	for i := 0; i+13 <= len(wire); {
		n := int(wire[i+11])<<8 | int(wire[i+12])
		if i+13+n > len(wire) {
			break
		}
		if wire[i] == 22 && wire[i+3] == 0 && wire[i+4] == 0 {
			p := wire[i+13 : i+13+n]
			for len(p) >= 12 {
				total := int(p[1])<<16 | int(p[2])<<8 | int(p[3])
				ms := int(p[4])<<8 | int(p[5])
				off := int(p[6])<<16 | int(p[7])<<8 | int(p[8])
				fl := int(p[9])<<16 | int(p[10])<<8 | int(p[11])
				if 12+fl > len(p) {
					break
				}
				if p[0] == typ && off+fl <= total {
					a := msgs[ms]
					if a == nil {
						a = &asm{body: make([]byte, total)}
						msgs[ms] = a
					}
					if len(a.body) == total {
						copy(a.body[off:], p[12:12+fl])
						a.have += fl
					}
					if ms > best {
						best = ms
					}
				}
				p = p[12+fl:]
			}
		}
		i += 13 + n
	}
	if a := msgs[best]; a != nil && a.have >= len(a.body) {
		return a.body
	}
	return nil
}

// leanSealed: the record put in front of the receiver is sealed by the Lean side under the
// client's write keys (fields pad…: CBC with long padding; nonce…: GCM with an explicit nonce of
// the sender's own choosing), not a rewritten copy of a genuine record.
func leanSealed(field string) bool {
	return strings.HasPrefix(field, "pad") || strings.HasPrefix(field, "nonce")
}

func sealForeign(cfg rxCfg, stack string, key, iv, mac []byte, epoch int, seq uint64) ([]byte, int) {
	if strings.HasPrefix(cfg.field, "nonce") {
		return sealNonce(cfg, stack, key, iv, epoch, seq), 0
	}
	return sealPadded(cfg, stack, key, iv, mac, epoch, seq)
}

// sealNonce asks the Lean side for an SM4-GCM application-data record under the given write key and
// write IV, for the given epoch / sequence number, whose 8-byte nonce_explicit is NOT a copy of
// epoch ‖ seq_num. RFC 5288 section 3 (which GB/T 38636 follows for the GCM suites): the explicit
// part is "chosen by the sender and carried in each record"; it "MAY be the 64-bit sequence
// number". A receiver therefore takes it from the record, whatever it is.
//
//	noncectr   a counter of the sender's own with a random start value
//	noncezero  all-zero        nonceones  all-ones
//	nonceoff   the sequence number plus a small offset (a counter that started elsewhere)
//	nonceswap  the sequence number, byte-reversed
func sealNonce(cfg rxCfg, stack string, key, iv []byte, epoch int, seq uint64) []byte {
	r := hx.NewRand(cfg.seed ^ 0x90ce)
	x := append([]byte{'T'}, r.Bytes(8+r.Intn(40))...)
	own := make([]byte, 8) // what gotlcp's own sender would write
	v := seq
	if stack == "dtlcp" {
		v |= uint64(epoch) << 48
	}
	for i := 7; i >= 0; i-- {
		own[i] = byte(v)
		v >>= 8
	}
	e := make([]byte, 8)
	switch cfg.field {
	case "noncectr":
		copy(e, r.Bytes(8))
	case "noncezero":
	case "nonceones":
		for i := range e {
			e[i] = 0xff
		}
	case "nonceoff":
		copy(e, own)
		e[7] += byte(1 + r.Intn(200))
	case "nonceswap":
		for i := range e {
			e[i] = own[7-i]
		}
	default:
		return nil
	}
	if string(e) == string(own) { // the one value these cases are not about
		e[0] ^= 0x80
	}
	return leanSeal(fmt.Sprintf("stack=%s suite=%d key=%s iv=%s mac=- epoch=%d seq=%d typ=23 ver=257 nonce=%s payload=%s",
		stack, cfg.suite, hx.Hex(key), hx.Hex(iv), epoch, seq, hx.Hex(e), hx.Hex(x)))
}

// sealPadded asks the Lean side for an application-data record (9 bytes starting with 'T') under
// the given write keys and sequence number whose padding is the variant cfg.field names.
func sealPadded(cfg rxCfg, stack string, key, iv, mac []byte, epoch int, seq uint64) (rec []byte, padlen int) {
	r := hx.NewRand(cfg.seed ^ 0x5eed)
	x := append([]byte{'T'}, r.Bytes(8)...)
	p0 := 15 - (len(x)+32)%16
	kmax := (255 - p0) / 16
	p := p0 + 16*kmax
	if cfg.field == "padmid" {
		p = p0 + 16*(1+r.Intn(kmax-1))
	}
	tail := make([]byte, p+1)
	for i := range tail {
		tail[i] = byte(p)
	}
	switch cfg.field {
	case "padlong", "padmid":
	case "padbadfar":
		tail[r.Intn(p+1-16)] ^= byte(1 + r.Intn(255))
	case "padbadfirst":
		tail[0] ^= byte(1 + r.Intn(255))
	case "padbadnear":
		tail[p-15+r.Intn(15)] ^= byte(1 + r.Intn(255))
	default:
		return nil, 0
	}
	rec = leanSeal(fmt.Sprintf("stack=%s suite=%d key=%s iv=%s mac=%s epoch=%d seq=%d typ=23 ver=257 nonce=%s payload=%s tail=%s",
		stack, cfg.suite, hx.Hex(key), hx.Hex(iv), hx.Hex(mac), epoch, seq, hx.Hex(r.Bytes(16)), hx.Hex(x), hx.Hex(tail)))
	return rec, p
}

func rxCases(o hx.Opts, emit func(string)) {
	r := hx.NewRand(o.Seed + 99)
	reps := 1
	if o.Tier == "thorough" {
		reps = 8
	}
	reps *= o.Scale
	dfields := []string{"epoch2", "replayepoch2", "epoch0", "epoch257", "type", "type21", "version", "versionhi", "seq", "seqhi", "length", "lengthblock", "none"}
	tfields := []string{"type", "type21", "version", "versionhi", "length", "lengthblock", "replay", "none"}
	for rep := 0; rep < reps; rep++ {
		for _, id := range []uint16{0xe013, 0xe053} {
			for _, path := range []string{"read", "readfrom"} {
				for _, f := range dfields {
					emit(rxDesc(rxCfg{stack: "dtlcp", suite: id, path: path, field: f, seed: r.U64() >> 1}))
				}
			}
			for _, f := range tfields {
				emit(rxDesc(rxCfg{stack: "tlcp", suite: id, path: "read", field: f, seed: r.U64() >> 1}))
			}
		}
		// long CBC padding sealed by the Lean side, through every receive path of both stacks
		for _, f := range []string{"padlong", "padmid", "padbadfar", "padbadfirst", "padbadnear"} {
			for _, path := range []string{"read", "readfrom"} {
				emit(rxDesc(rxCfg{stack: "dtlcp", suite: 0xe013, path: path, field: f, seed: r.U64() >> 1}))
			}
			emit(rxDesc(rxCfg{stack: "tlcp", suite: 0xe013, path: "read", field: f, seed: r.U64() >> 1}))
		}
		// GCM records sealed by the Lean side whose explicit nonce is the sender's own choice (not
		// a copy of epoch ‖ seq_num), through every receive path of both stacks: they must be opened
		for _, f := range []string{"noncectr", "noncezero", "nonceones", "nonceoff", "nonceswap"} {
			for _, path := range []string{"read", "readfrom"} {
				emit(rxDesc(rxCfg{stack: "dtlcp", suite: 0xe053, path: path, field: f, seed: r.U64() >> 1}))
			}
			emit(rxDesc(rxCfg{stack: "tlcp", suite: 0xe053, path: "read", field: f, seed: r.U64() >> 1}))
		}
	}
}

package main

// Layer 3 of C04 (phase rx): what the real RECEIVE paths of a live connection accept.
// After a real handshake the client sends A (delivered), then B is held back on the wire; a copy
// T of a genuine protected record with ONE authenticated header field rewritten (type, version,
// epoch, sequence number, length) — or, as a control, untouched — is put in front of the server;
// then the genuine C, the held-back genuine B and D follow. The server reads through the public
// API (tlcp: Read; dtlcp: Read and ReadFrom) until D arrives.
//
// For the CBC suite T is also a record SEALED BY THE LEAN SIDE (oracle_c04 seal) under the client's
// write keys, in B's place in the sequence, with LONG padding (GB/T 38636 6.3.3.4.2 allows up to 255
// bytes): well-formed (fields padlong, padmid — it must be delivered) or with damaged padding bytes
// far from / near the end (padbadfar, padbadfirst, padbadnear — it must not).
//
// For the GCM suite T is also a record sealed by the Lean side under the client's write key and write
// IV, in B's place in the sequence, whose 8-byte explicit nonce is the SENDER'S OWN CHOICE instead of
// a copy of epoch ‖ seq_num (fields noncectr, noncezero, nonceones, nonceoff, nonceswap): the
// standard leaves the explicit part to the sender, so it must be delivered by every receive path.
//
// The standard's verdict (Lean oracle, keys re-derived from the capture): T does not authenticate
// unless untouched, so it must not be delivered, and it must change nothing — C, B and D must
// still arrive (dtlcp; on tlcp a forged record is fatal: nothing more is delivered and Read fails).
//
// NEVER-PROTECTED records (fields plain<type>e<epoch>, tlcp: plain<type>): T is a record that was never
// sealed at all — a plaintext body behind a header that claims application_data / alert / handshake /
// change_cipher_spec, version 0x0101 and (dtlcp) epoch 0 or the current epoch, any sequence number —
// put in front of a receiver that holds keys. The standard's receiver opens everything after the
// peer's ChangeCipherSpec under the read state installed then (Spec.KeySchedule.receive), so none of
// it may be delivered or acted upon. Such records, and the rewritten-epoch ones, are injected at every
// point of a connection's life where the receiver holds keys: `at=hs` right after the handshake,
// before any application record (for a dtlcp server that is its 2*MSL dwell period), `at=app` (the
// default) after the first application record; `recv=server` (default: the client sends) or
// `recv=client` (the server sends, the client's receive paths are under test); both stacks (tlcp: a
// plaintext record in the stream after ChangeCipherSpec).
//
// case    : op=rx stack suite path field seed [at] [recv]  (configuration, re-executable)
//           master smaster pre c2s s2c sentc sents t brec b c d   (captured)
// observed: got=<payload>,<payload>,…|-  end=d|timeout|err

import (
	"fmt"
	"net"
	"os"
	"strings"
	"sync"
	"time"

	"gitee.com/Trisia/gotlcp/dtlcp"
	"gitee.com/Trisia/gotlcp/tlcp"
	"verifharness/internal/hx"
	"verifharness/internal/pair"
	"verifharness/internal/pki"
)

type rxCfg struct {
	stack, path, field string
	suite              uint16
	seed               uint64
	at                 string // "" / "app": after the first application record; "hs": right after the handshake
	recv               string // "" / "server": the server's receive paths; "client": the client's
}

func rxDesc(c rxCfg) string {
	d := fmt.Sprintf("op=rx stack=%s suite=%d path=%s field=%s seed=%d", c.stack, c.suite, c.path, c.field, c.seed)
	if c.at == "hs" {
		d += " at=hs"
	}
	if c.recv == "client" {
		d += " recv=client"
	}
	return d
}

// plainField: fields plain<type>[e<epoch>] — a record that was never protected
func plainField(field string) (typ, epoch int, ok bool) {
	if !strings.HasPrefix(field, "plain") {
		return 0, 0, false
	}
	f := strings.TrimPrefix(field, "plain")
	if i := strings.IndexByte(f, 'e'); i >= 0 {
		if _, err := fmt.Sscanf(f[i+1:], "%d", &epoch); err != nil {
			return 0, 0, false
		}
		f = f[:i]
	}
	if _, err := fmt.Sscanf(f, "%d", &typ); err != nil {
		return 0, 0, false
	}
	return typ, epoch, true
}

// plainRecord builds a record that was never sealed: header (hl = 5 or 13 bytes; type, version
// 0x0101, dtlcp: the epoch the field names and a sequence number drawn from {B's own, 0, the next
// one, a random 48-bit value}) followed by a PLAINTEXT body of that type: application data ('T' +
// random bytes; half of the time a whole number of cipher blocks, long enough to pass every length
// check of a CBC / GCM opening), an alert (close_notify, a fatal one, a warning), a handshake
// fragment (a HelloRequest-like stub or a copy of a genuine plaintext handshake record of the
// sender's first flight: what a retransmission looks like), ChangeCipherSpec.
func plainRecord(cfg rxCfg, hl int, brec []byte, firstFlight []byte) []byte {
	typ, epoch, _ := plainField(cfg.field)
	r := hx.NewRand(cfg.seed ^ 0x91a1)
	var body []byte
	switch typ {
	case 21:
		body = hx.Pick(r, [][]byte{{1, 0}, {2, 40}, {2, 20}, {1, 90}, {1, 0}})
	case 22:
		body = []byte{0, 0, 0, 0}
		if hl == 13 {
			body = []byte{0, 0, 0, 0, 0, 9, 0, 0, 0, 0, 0, 0}
		}
		if r.Bool() && len(firstFlight) > hl {
			body = append([]byte(nil), firstFlight[hl:]...)
		}
	case 20:
		body = []byte{1}
	default:
		n := 8 + r.Intn(40)
		if r.Bool() {
			n = 16*(4+r.Intn(4)) - 1
		}
		body = append([]byte{'T'}, r.Bytes(n)...)
	}
	t := make([]byte, hl, hl+len(body))
	t[0], t[1], t[2] = byte(typ), 1, 1
	if hl == 13 {
		t[3], t[4] = byte(epoch>>8), byte(epoch)
		copy(t[5:11], brec[5:11])
		switch r.Intn(4) {
		case 0:
			copy(t[5:11], []byte{0, 0, 0, 0, 0, 0})
		case 1:
			t[10]++
		case 2:
			copy(t[5:11], r.Bytes(6))
		}
	}
	t[hl-2], t[hl-1] = byte(len(body)>>8), byte(len(body))
	return append(t, body...)
}

// tamper rewrites one header field of a copy of rec (hl = header length). prev is an older
// genuine record of the same direction (already delivered).
func tamper(field string, rec, prev []byte, hl int) []byte {
	t := append([]byte(nil), rec...)
	switch field {
	case "none":
	case "type":
		t[0] = 22
	case "type21":
		t[0] = 21
	case "version":
		t[2] ^= 1
	case "versionhi":
		t[1] ^= 2
	case "epoch2":
		t[3], t[4] = 0, 2
	case "epoch0":
		t[3], t[4] = 0, 0
	case "epoch257":
		t[3], t[4] = 1, 1
	case "seq":
		t[10] += 7
	case "seqhi":
		t[6] ^= 1
	case "length": // one byte shorter, length field adjusted
		t = t[:len(t)-1]
		n := len(t) - hl
		t[hl-2], t[hl-1] = byte(n>>8), byte(n)
	case "lengthblock": // one cipher block shorter
		t = t[:len(t)-16]
		n := len(t) - hl
		t[hl-2], t[hl-1] = byte(n>>8), byte(n)
	case "replay": // tlcp: an older genuine record in place of the expected one (implicit seq differs)
		t = append([]byte(nil), prev...)
	case "replayepoch2": // dtlcp: an already delivered record with its epoch rewritten
		t = append([]byte(nil), prev...)
		t[3], t[4] = 0, 2
	}
	return t
}

type rxOut struct {
	cp          capture
	padlen      int
	t, brec     []byte
	b, c, d     []byte
	got         [][]byte
	end         string
}

func collect(read func([]byte) (int, error), setDL func(time.Time) error, d []byte) (got [][]byte, end string) {
	setDL(time.Now().Add(1500 * time.Millisecond))
	buf := make([]byte, 20000)
	for len(got) < 8 {
		n, err := read(buf)
		if n > 0 {
			m := append([]byte(nil), buf[:n]...)
			got = append(got, m)
			if string(m) == string(d) {
				return got, "d"
			}
		}
		if err != nil {
			if ne, ok := err.(net.Error); ok && ne.Timeout() {
				return got, "timeout"
			}
			if strings.Contains(err.Error(), "deadline") || strings.Contains(err.Error(), "timeout") {
				return got, "timeout"
			}
			return got, "err"
		}
	}
	return got, "many"
}

func rxMsgs(seed uint64) (a, b, c, d []byte) {
	r := hx.NewRand(seed)
	mk := func(tag byte) []byte { return append([]byte{tag}, r.Bytes(8+r.Intn(40))...) }
	return mk('A'), mk('B'), mk('C'), mk('D')
}

func runRXTLCP(cfg rxCfg) (o rxOut, err string) {
	s := pki.Std()
	cc := &tCache{inner: tlcp.NewLRUSessionCache(8)}
	sc := &tCache{inner: tlcp.NewLRUSessionCache(8)}
	ccfg := &tlcp.Config{RootCAs: s.Root.Pool, ServerName: "test.example", Time: pki.NowFn, CipherSuites: []uint16{cfg.suite}, SessionCache: cc}
	scfg := &tlcp.Config{Certificates: []tlcp.Certificate{pair.TCert(s.SrvSig), pair.TCert(s.SrvEnc)}, Time: pki.NowFn,
		CipherSuites: []uint16{cfg.suite}, SessionCache: sc}
	var mu sync.Mutex
	hold := false
	var held []byte
	fromClient := cfg.recv != "client"
	c, sv, ce, se, r := pair.TLCP(ccfg, scfg, func(ce, se *pair.StreamEnd) {
		snd := ce
		if !fromClient {
			snd = se
		}
		snd.OnWrite = func(data []byte) [][]byte {
			mu.Lock()
			defer mu.Unlock()
			if hold {
				hold = false
				held = append([]byte(nil), data...)
				return nil
			}
			return [][]byte{data}
		}
	})
	defer func() { ce.Close(); se.Close() }()
	if !r.OK() {
		return o, r.String()
	}
	// the sending connection and its transport end; the receiving connection
	snd, rcv, sndEnd := c, sv, ce
	if !fromClient {
		snd, rcv, sndEnd = sv, c, se
	}
	a, b, cm, d := rxMsgs(cfg.seed)
	o.b, o.c, o.d = b, cm, d
	before := len(sndEnd.SentBytes())
	var sent []byte
	arec := []byte(nil)
	if cfg.at != "hs" {
		if _, e := snd.Write(a); e != nil {
			return o, "writeA"
		}
		if got, _ := collect(rcv.Read, rcv.SetReadDeadline, a); len(got) != 1 {
			return o, "baseline"
		}
		arec = sndEnd.SentBytes()[before:]
		sent = append(sent, a...)
	}
	mu.Lock()
	hold = true
	mu.Unlock()
	snd.Write(b)
	mu.Lock()
	o.brec = held
	mu.Unlock()
	if len(o.brec) < 5 {
		return o, "hold"
	}
	if arec == nil { // nothing older to replay right after the handshake: the sender's Finished record
		arec = lastRecordTLCP(sndEnd.SentBytes()[:before])
	}
	o.t = tamper(cfg.field, o.brec, arec, 5)
	if _, _, ok := plainField(cfg.field); ok {
		o.t = plainRecord(cfg, 5, o.brec, firstRecordTLCP(sndEnd.SentBytes()))
	}
	if leanSealed(cfg.field) {
		ch, sh := tlcpHandshakeMsgs(ce.SentBytes()), tlcpHandshakeMsgs(se.SentBytes())
		if len(ch) == 0 || len(sh) == 0 || len(ch[0]) < 38 || len(sh[0]) < 38 {
			return o, "hellos"
		}
		cmac, smac, ckey, skey, civ, siv := tlcp.VerifKeys(cfg.suite, cc.master, ch[0][6:38], sh[0][6:38])
		if !fromClient {
			cmac, ckey, civ = smac, skey, siv
		}
		seq := protectedCount(sndEnd.SentBytes()) - 1 // B is the last one; T takes its place
		o.t, o.padlen = sealForeign(cfg, "tlcp", ckey, civ, cmac, 0, uint64(seq))
		if o.t == nil {
			return o, "sealer"
		}
	}
	sndEnd.Inject(o.t)
	snd.Write(cm)
	snd.Write(d)
	o.got, o.end = collect(rcv.Read, rcv.SetReadDeadline, d)
	c.Close()
	sv.Close()
	o.cp.c2s, o.cp.s2c = ce.SentBytes(), se.SentBytes()
	o.cp.master, o.cp.smast = cc.master, sc.master
	sent = append(append(append(sent, b...), cm...), d...)
	if fromClient {
		o.cp.sentc = sent
	} else {
		o.cp.sents = sent
	}
	return o, ""
}

// firstRecordTLCP / lastRecordTLCP: the first (a plaintext handshake record) and the last complete
// record of a TLCP byte stream
func firstRecordTLCP(wire []byte) []byte {
	if len(wire) < 5 {
		return nil
	}
	l := int(wire[3])<<8 | int(wire[4])
	if 5+l > len(wire) {
		return nil
	}
	return wire[:5+l]
}

func lastRecordTLCP(wire []byte) []byte {
	var last []byte
	for i := 0; i+5 <= len(wire); {
		l := int(wire[i+3])<<8 | int(wire[i+4])
		if i+5+l > len(wire) {
			break
		}
		last = wire[i : i+5+l]
		i += 5 + l
	}
	return last
}

func runRXDTLCP(cfg rxCfg) (o rxOut, err string) {
	cc := &dCache{inner: dtlcp.NewLRUSessionCache(8)}
	sc := &dCache{inner: dtlcp.NewLRUSessionCache(8)}
	ccfg, scfg := pair.DClient(), pair.DServer()
	ccfg.CipherSuites, scfg.CipherSuites = []uint16{cfg.suite}, []uint16{cfg.suite}
	ccfg.SessionCache, scfg.SessionCache = cc, sc
	ccfg.InitialRetransmitTimeout, scfg.InitialRetransmitTimeout = 6*time.Second, 6*time.Second
	var mu sync.Mutex
	hold := false
	var held []byte
	fromClient := cfg.recv != "client"
	c, sv, ce, se, r := pair.DTLCP(ccfg, scfg, func(ce, se *pair.PacketEnd) {
		snd := ce
		if !fromClient {
			snd = se
		}
		snd.OnSend = func(idx int, data []byte) [][]byte {
			mu.Lock()
			defer mu.Unlock()
			if hold {
				hold = false
				held = append([]byte(nil), data...)
				return nil
			}
			return [][]byte{data}
		}
	})
	defer func() { ce.Close(); se.Close() }()
	if !r.OK() {
		return o, r.String()
	}
	snd, rcv, sndEnd, rcvEnd := c, sv, ce, se
	if !fromClient {
		snd, rcv, sndEnd, rcvEnd = sv, c, se, ce
	}
	read := rcv.Read
	if cfg.path == "readfrom" {
		read = func(p []byte) (int, error) { n, _, e := rcv.ReadFrom(p); return n, e }
	}
	a, b, cm, d := rxMsgs(cfg.seed)
	o.b, o.c, o.d = b, cm, d
	var sentApp []byte
	if cfg.at != "hs" {
		if _, e := snd.Write(a); e != nil {
			return o, "writeA"
		}
		if got, _ := collect(read, rcv.SetReadDeadline, a); len(got) != 1 {
			return o, "baseline"
		}
		sentApp = append(sentApp, a...)
	}
	sent := sndEnd.SentCopy()
	arec := lastRecordDTLCP(sent[len(sent)-1]) // the newest genuine record delivered so far (A, or the Finished)
	mu.Lock()
	hold = true
	mu.Unlock()
	snd.Write(b)
	mu.Lock()
	o.brec = held
	mu.Unlock()
	if len(o.brec) < 13 {
		return o, "hold"
	}
	o.t = tamper(cfg.field, o.brec, arec, 13)
	if _, _, ok := plainField(cfg.field); ok {
		o.t = plainRecord(cfg, 13, o.brec, lastRecordDTLCP(sent[0]))
	}
	if leanSealed(cfg.field) {
		var cwire, swire []byte
		for _, x := range ce.SentCopy() {
			cwire = append(cwire, x...)
		}
		for _, x := range se.SentCopy() {
			swire = append(swire, x...)
		}
		ch, sh := dtlcpLastMessage(cwire, 1), dtlcpLastMessage(swire, 2)
		if len(ch) < 34 || len(sh) < 34 {
			return o, "hellos"
		}
		cmac, smac, ckey, skey, civ, siv := dtlcp.VerifKeys(cfg.suite, cc.master, ch[2:34], sh[2:34])
		if !fromClient {
			cmac, ckey, civ = smac, skey, siv
		}
		var seq uint64
		for _, b := range o.brec[5:11] {
			seq = seq<<8 | uint64(b)
		}
		o.t, o.padlen = sealForeign(cfg, "dtlcp", ckey, civ, cmac, int(o.brec[3])<<8|int(o.brec[4]), seq)
		if o.t == nil {
			return o, "sealer"
		}
	}
	rcvEnd.Deliver(o.t, sndEnd.LocalAddr())
	snd.Write(cm)
	rcvEnd.Deliver(o.brec, sndEnd.LocalAddr()) // the genuine B arrives late (reordering is legal on datagrams)
	snd.Write(d)
	o.got, o.end = collect(read, rcv.SetReadDeadline, d)
	c.Close()
	sv.Close()
	for _, x := range ce.SentCopy() {
		o.cp.c2s = append(o.cp.c2s, x...)
	}
	for _, x := range se.SentCopy() {
		o.cp.s2c = append(o.cp.s2c, x...)
	}
	o.cp.master, o.cp.smast = cc.master, sc.master
	sentApp = append(append(append(sentApp, b...), cm...), d...)
	if fromClient {
		o.cp.sentc = sentApp
	} else {
		o.cp.sents = sentApp
	}
	return o, ""
}

// lastRecordDTLCP: the last complete record of a datagram
func lastRecordDTLCP(dg []byte) []byte {
	var last []byte
	for i := 0; i+13 <= len(dg); {
		n := int(dg[i+11])<<8 | int(dg[i+12])
		if i+13+n > len(dg) {
			break
		}
		last = dg[i : i+13+n]
		i += 13 + n
	}
	return last
}

func executeRXFull(desc string) (captured, obs string) {
	cfg := rxCfg{stack: "tlcp"}
	if v, _ := hx.KV(desc, "stack"); v == "dtlcp" {
		cfg.stack = "dtlcp"
	}
	cfg.path, _ = hx.KV(desc, "path")
	cfg.field, _ = hx.KV(desc, "field")
	cfg.suite = uint16(kvU64(desc, "suite"))
	cfg.seed = kvU64(desc, "seed")
	cfg.at, _ = hx.KV(desc, "at")
	cfg.recv, _ = hx.KV(desc, "recv")
	var o rxOut
	var e string
	if p := hx.Guard(func() {
		if cfg.stack == "tlcp" {
			o, e = runRXTLCP(cfg)
		} else {
			o, e = runRXDTLCP(cfg)
		}
	}); p != "" {
		return "", "panic=" + p
	}
	if e != "" {
		return "", "setup=" + strings.ReplaceAll(e, " ", "_")
	}
	captured = fmt.Sprintf("master=%s smaster=%s pre=- c2s=%s s2c=%s sentc=%s sents=%s t=%s brec=%s b=%s c=%s d=%s padlen=%d",
		hx.Hex(o.cp.master), hx.Hex(o.cp.smast), hx.Hex(o.cp.c2s), hx.Hex(o.cp.s2c), hx.Hex(o.cp.sentc), hx.Hex(o.cp.sents),
		hx.Hex(o.t), hx.Hex(o.brec), hx.Hex(o.b), hx.Hex(o.c), hx.Hex(o.d), o.padlen)
	var gs []string
	for _, g := range o.got {
		gs = append(gs, hx.Hex(g))
	}
	got := "-"
	if len(gs) > 0 {
		got = strings.Join(gs, ",")
	}
	return captured, fmt.Sprintf("got=%s end=%s", got, o.end)
}

// the Lean side as a sender, started on first use
var (
	sealOnce sync.Once
	theSeal  *sealer
	sealMu   sync.Mutex
)

func leanSeal(req string) []byte {
	sealOnce.Do(func() {
		path := oraclePath
		if path == "" { // replay runs pass no -oracle: the framework's build output
			if _, err := os.Stat("../lean/.lake/build/bin/oracle_c04"); err == nil {
				path = "../lean/.lake/build/bin/oracle_c04"
			}
		}
		theSeal = newSealer(path)
	})
	if theSeal == nil {
		return nil
	}
	sealMu.Lock()
	defer sealMu.Unlock()
	return theSeal.seal(req)
}

// protectedCount: records after the ChangeCipherSpec in a TLCP byte stream
func protectedCount(wire []byte) int {
	n, after := 0, false
	for i := 0; i+5 <= len(wire); {
		l := int(wire[i+3])<<8 | int(wire[i+4])
		if i+5+l > len(wire) {
			break
		}
		if after {
			n++
		}
		if wire[i] == 20 {
			after = true
		}
		i += 5 + l
	}
	return n
}

// dtlcpLastMessage reassembles the epoch-0 handshake message of type typ with the highest message_seq.
func dtlcpLastMessage(wire []byte, typ byte) []byte {
	type asm struct {
		body []byte
		have int
	}
	msgs := map[int]*asm{}
	best := -1
	for i := 0; i+13 <= len(wire); {
		n := int(wire[i+11])<<8 | int(wire[i+12])
		if i+13+n > len(wire) {
			break
		}
		if wire[i] == 22 && wire[i+3] == 0 && wire[i+4] == 0 {
			p := wire[i+13 : i+13+n]
			for len(p) >= 12 {
				total := int(p[1])<<16 | int(p[2])<<8 | int(p[3])
				ms := int(p[4])<<8 | int(p[5])
				off := int(p[6])<<16 | int(p[7])<<8 | int(p[8])
				fl := int(p[9])<<16 | int(p[10])<<8 | int(p[11])
				if 12+fl > len(p) {
					break
				}
				if p[0] == typ && off+fl <= total {
					a := msgs[ms]
					if a == nil {
						a = &asm{body: make([]byte, total)}
						msgs[ms] = a
					}
					if len(a.body) == total {
						copy(a.body[off:], p[12:12+fl])
						a.have += fl
					}
					if ms > best {
						best = ms
					}
				}
				p = p[12+fl:]
			}
		}
		i += 13 + n
	}
	if a := msgs[best]; a != nil && a.have >= len(a.body) {
		return a.body
	}
	return nil
}

// leanSealed: the record put in front of the receiver is sealed by the Lean side under the
// client's write keys (fields pad…: CBC with long padding; nonce…: GCM with an explicit nonce of
// the sender's own choosing), not a rewritten copy of a genuine record.
func leanSealed(field string) bool {
	return strings.HasPrefix(field, "pad") || strings.HasPrefix(field, "nonce")
}

func sealForeign(cfg rxCfg, stack string, key, iv, mac []byte, epoch int, seq uint64) ([]byte, int) {
	if strings.HasPrefix(cfg.field, "nonce") {
		return sealNonce(cfg, stack, key, iv, epoch, seq), 0
	}
	return sealPadded(cfg, stack, key, iv, mac, epoch, seq)
}

// sealNonce asks the Lean side for an SM4-GCM application-data record under the given write key and
// write IV, for the given epoch / sequence number, whose 8-byte nonce_explicit is NOT a copy of
// epoch ‖ seq_num. RFC 5288 section 3 (which GB/T 38636 follows for the GCM suites): the explicit
// part is "chosen by the sender and carried in each record"; it "MAY be the 64-bit sequence
// number". A receiver therefore takes it from the record, whatever it is.
//
//	noncectr   a counter of the sender's own with a random start value
//	noncezero  all-zero        nonceones  all-ones
//	nonceoff   the sequence number plus a small offset (a counter that started elsewhere)
//	nonceswap  the sequence number, byte-reversed
func sealNonce(cfg rxCfg, stack string, key, iv []byte, epoch int, seq uint64) []byte {
	r := hx.NewRand(cfg.seed ^ 0x90ce)
	x := append([]byte{'T'}, r.Bytes(8+r.Intn(40))...)
	own := make([]byte, 8) // what gotlcp's own sender would write
	v := seq
	if stack == "dtlcp" {
		v |= uint64(epoch) << 48
	}
	for i := 7; i >= 0; i-- {
		own[i] = byte(v)
		v >>= 8
	}
	e := make([]byte, 8)
	switch cfg.field {
	case "noncectr":
		copy(e, r.Bytes(8))
	case "noncezero":
	case "nonceones":
		for i := range e {
			e[i] = 0xff
		}
	case "nonceoff":
		copy(e, own)
		e[7] += byte(1 + r.Intn(200))
	case "nonceswap":
		for i := range e {
			e[i] = own[7-i]
		}
	default:
		return nil
	}
	if string(e) == string(own) { // the one value these cases are not about
		e[0] ^= 0x80
	}
	return leanSeal(fmt.Sprintf("stack=%s suite=%d key=%s iv=%s mac=- epoch=%d seq=%d typ=23 ver=257 nonce=%s payload=%s",
		stack, cfg.suite, hx.Hex(key), hx.Hex(iv), epoch, seq, hx.Hex(e), hx.Hex(x)))
}

// sealPadded asks the Lean side for an application-data record (9 bytes starting with 'T') under
// the given write keys and sequence number whose padding is the variant cfg.field names.
func sealPadded(cfg rxCfg, stack string, key, iv, mac []byte, epoch int, seq uint64) (rec []byte, padlen int) {
	r := hx.NewRand(cfg.seed ^ 0x5eed)
	x := append([]byte{'T'}, r.Bytes(8)...)
	p0 := 15 - (len(x)+32)%16
	kmax := (255 - p0) / 16
	p := p0 + 16*kmax
	if cfg.field == "padmid" {
		p = p0 + 16*(1+r.Intn(kmax-1))
	}
	tail := make([]byte, p+1)
	for i := range tail {
		tail[i] = byte(p)
	}
	switch cfg.field {
	case "padlong", "padmid":
	case "padbadfar":
		tail[r.Intn(p+1-16)] ^= byte(1 + r.Intn(255))
	case "padbadfirst":
		tail[0] ^= byte(1 + r.Intn(255))
	case "padbadnear":
		tail[p-15+r.Intn(15)] ^= byte(1 + r.Intn(255))
	default:
		return nil, 0
	}
	rec = leanSeal(fmt.Sprintf("stack=%s suite=%d key=%s iv=%s mac=%s epoch=%d seq=%d typ=23 ver=257 nonce=%s payload=%s tail=%s",
		stack, cfg.suite, hx.Hex(key), hx.Hex(iv), hx.Hex(mac), epoch, seq, hx.Hex(r.Bytes(16)), hx.Hex(x), hx.Hex(tail)))
	return rec, p
}

func rxCases(o hx.Opts, emit func(string)) {
	r := hx.NewRand(o.Seed + 99)
	reps := 1
	if o.Tier == "thorough" {
		reps = 8
	}
	reps *= o.Scale
	dfields := []string{"epoch2", "replayepoch2", "epoch0", "epoch257", "type", "type21", "version", "versionhi", "seq", "seqhi", "length", "lengthblock", "none"}
	tfields := []string{"type", "type21", "version", "versionhi", "length", "lengthblock", "replay", "none"}
	for rep := 0; rep < reps; rep++ {
		for _, id := range []uint16{0xe013, 0xe053} {
			for _, path := range []string{"read", "readfrom"} {
				for _, f := range dfields {
					emit(rxDesc(rxCfg{stack: "dtlcp", suite: id, path: path, field: f, seed: r.U64() >> 1}))
				}
			}
			for _, f := range tfields {
				emit(rxDesc(rxCfg{stack: "tlcp", suite: id, path: "read", field: f, seed: r.U64() >> 1}))
			}
		}
		// long CBC padding sealed by the Lean side, through every receive path of both stacks
		for _, f := range []string{"padlong", "padmid", "padbadfar", "padbadfirst", "padbadnear"} {
			for _, path := range []string{"read", "readfrom"} {
				emit(rxDesc(rxCfg{stack: "dtlcp", suite: 0xe013, path: path, field: f, seed: r.U64() >> 1}))
			}
			emit(rxDesc(rxCfg{stack: "tlcp", suite: 0xe013, path: "read", field: f, seed: r.U64() >> 1}))
		}
		// GCM records sealed by the Lean side whose explicit nonce is the sender's own choice (not
		// a copy of epoch ‖ seq_num), through every receive path of both stacks: they must be opened
		for _, f := range []string{"noncectr", "noncezero", "nonceones", "nonceoff", "nonceswap"} {
			for _, path := range []string{"read", "readfrom"} {
				emit(rxDesc(rxCfg{stack: "dtlcp", suite: 0xe053, path: path, field: f, seed: r.U64() >> 1}))
			}
			emit(rxDesc(rxCfg{stack: "tlcp", suite: 0xe053, path: "read", field: f, seed: r.U64() >> 1}))
		}
		// records that were NEVER PROTECTED (plaintext body; application data, alert, handshake,
		// ChangeCipherSpec; dtlcp: epoch 0 and the current epoch), and copies of genuine records with
		// the epoch rewritten / replayed, at every point where the receiver holds keys: right after
		// the handshake (at=hs; the dtlcp server is in its dwell period then) and after the first
		// application record, in front of the server's and of the client's receive paths
		rr := hx.NewRand(o.Seed + 991 + uint64(rep))
		for _, id := range []uint16{0xe013, 0xe053} {
			for _, recv := range []string{"server", "client"} {
				for _, at := range []string{"hs", "app"} {
					for _, path := range []string{"read", "readfrom"} {
						fields := []string{"plain23e0", "plain21e0", "plain23e1", "plain21e1", "plain22e0", "plain22e1", "plain20e0", "plain20e1"}
						if at == "hs" || recv == "client" { // (at=app recv=server: the cases above)
							fields = append(fields, "epoch0", "replayepoch2", "none")
							if o.Tier == "thorough" {
								fields = append(fields, "epoch2", "type", "type21", "version", "seq", "length")
							}
						}
						for _, f := range fields {
							emit(rxDesc(rxCfg{stack: "dtlcp", suite: id, path: path, field: f, seed: rr.U64() >> 1, at: at, recv: recv}))
						}
					}
					fields := []string{"plain23", "plain21", "plain22", "plain20"}
					if at == "hs" || recv == "client" {
						fields = append(fields, "type", "replay", "none")
						if o.Tier == "thorough" {
							fields = append(fields, "type21", "version", "length")
						}
					}
					for _, f := range fields {
						emit(rxDesc(rxCfg{stack: "tlcp", suite: id, path: "read", field: f, seed: rr.U64() >> 1, at: at, recv: recv}))
					}
				}
			}
		}
		// Lean-sealed records in front of the CLIENT's receive paths and right after the handshake
		for _, c := range []struct {
			id uint16
			f  string
		}{{0xe013, "padlong"}, {0xe013, "padbadfar"}, {0xe053, "noncectr"}, {0xe053, "noncezero"}} {
			at := hx.Pick(rr, []string{"hs", "app"})
			emit(rxDesc(rxCfg{stack: "dtlcp", suite: c.id, path: hx.Pick(rr, []string{"read", "readfrom"}), field: c.f, seed: rr.U64() >> 1, at: at, recv: "client"}))
			emit(rxDesc(rxCfg{stack: "tlcp", suite: c.id, path: "read", field: c.f, seed: rr.U64() >> 1, at: at, recv: "client"}))
			emit(rxDesc(rxCfg{stack: "dtlcp", suite: c.id, path: hx.Pick(rr, []string{"read", "readfrom"}), field: c.f, seed: rr.U64() >> 1, at: "hs"}))
		}
	}
}

// Driver for C04: runs the real key schedule and record protection of both stacks on chosen
// inputs and writes `case => observed` lines for the Lean oracle, which re-derives everything
// with its own SM3 / HMAC / PRF / SM4 / CBC / GCM written from the standards.
//
// phase prim : layer 1 — pHash / PRF / master secret / key block / Finished on random inputs;
//
//	halfConn.encrypt, Conn.writeRecordLocked and halfConn.decrypt on random keys,
//	sequence numbers, epochs, types and payload sizes 0..16384; records sealed by the
//	Lean side (oracle_c04 seal) and tampered records are fed to the real decrypt.
//
// phase hs   : layer 2 — real handshakes (hs.go); ECDHE: the SM2 key agreement of one or both
//
//	sides is computed by a module of the driver (ka.go) so that the agreed value is known.
//
// phase rx   : layer 3 — genuine records with one rewritten header field, and Lean-sealed CBC
//
//	records with long (legal or damaged) padding and Lean-sealed GCM records with a
//	sender-chosen explicit nonce, fed to the real receive paths
//	(Read / ReadFrom) of a live connection (rx.go).
//
// phase wf   : a transport write that fails after part of a protected record went out, followed by
//
//	another protected record (close_notify / alert) on the same connection (wf.go).
package main

import (
	"bufio"
	"bytes"
	"flag"
	"fmt"
	"io"
	"os"
	"os/exec"
	"strconv"
	"strings"

	"gitee.com/Trisia/gotlcp/dtlcp"
	"gitee.com/Trisia/gotlcp/tlcp"
	"verifharness/internal/hx"
)

var suites = []uint16{0xe011, 0xe013, 0xe051, 0xe053}

func isGCM(id uint16) bool { return id == 0xe051 || id == 0xe053 }

func kvHex(desc, key string) []byte {
	s, ok := hx.KV(desc, key)
	if !ok {
		return nil
	}
	return hx.UnHex(s)
}

func kvU64(desc, key string) uint64 {
	s, _ := hx.KV(desc, key)
	v, _ := strconv.ParseUint(s, 10, 64)
	return v
}

// execute re-runs one case description on the real code.
func execute(desc string) (obs string) {
	op, _ := hx.KV(desc, "op")
	if op == "hs" {
		return executeHS(desc)
	}
	if op == "rx" {
		_, obs := executeRXFull(desc)
		return obs
	}
	if op == "wf" {
		_, obs := executeWFFull(desc)
		return obs
	}
	if op == "cw" {
		_, obs := executeCWFull(desc)
		return obs
	}
	stack, _ := hx.KV(desc, "stack")
	id := uint16(kvU64(desc, "suite"))
	tl := stack == "tlcp"
	if p := hx.Guard(func() {
		switch op {
		case "phash":
			n := int(kvU64(desc, "n"))
			var out []byte
			if tl {
				out = tlcp.VerifPHash(kvHex(desc, "secret"), kvHex(desc, "seed"), n)
			} else {
				out = dtlcp.VerifPHash(kvHex(desc, "secret"), kvHex(desc, "seed"), n)
			}
			obs = "out=" + hx.Hex(out)
		case "prf":
			n := int(kvU64(desc, "n"))
			var out []byte
			if tl {
				out = tlcp.VerifPRF(id, kvHex(desc, "secret"), kvHex(desc, "label"), kvHex(desc, "seed"), n)
			} else {
				out = dtlcp.VerifPRF(id, kvHex(desc, "secret"), kvHex(desc, "label"), kvHex(desc, "seed"), n)
			}
			obs = "out=" + hx.Hex(out)
		case "master":
			var out []byte
			if tl {
				out = tlcp.VerifMaster(id, kvHex(desc, "pre"), kvHex(desc, "cr"), kvHex(desc, "sr"))
			} else {
				out = dtlcp.VerifMaster(id, kvHex(desc, "pre"), kvHex(desc, "cr"), kvHex(desc, "sr"))
			}
			obs = "out=" + hx.Hex(out)
		case "keys":
			var a, b, c, d, e, f []byte
			if tl {
				a, b, c, d, e, f = tlcp.VerifKeys(id, kvHex(desc, "master"), kvHex(desc, "cr"), kvHex(desc, "sr"))
			} else {
				a, b, c, d, e, f = dtlcp.VerifKeys(id, kvHex(desc, "master"), kvHex(desc, "cr"), kvHex(desc, "sr"))
			}
			obs = fmt.Sprintf("cmac=%s smac=%s ckey=%s skey=%s civ=%s siv=%s", hx.Hex(a), hx.Hex(b), hx.Hex(c), hx.Hex(d), hx.Hex(e), hx.Hex(f))
		case "fin":
			var c, s []byte
			if tl {
				c, s = tlcp.VerifFinishedSums(id, kvHex(desc, "master"), kvHex(desc, "transcript"))
			} else {
				c, s = dtlcp.VerifFinishedSums(id, kvHex(desc, "master"), kvHex(desc, "transcript"))
			}
			obs = "client=" + hx.Hex(c) + " server=" + hx.Hex(s)
		case "enc", "write", "dec":
			obs = executeRecord(desc, op, tl, id)
		default:
			obs = "unknown-op"
		}
	}); p != "" {
		return "panic=" + p
	}
	return obs
}

func executeRecord(desc, op string, tl bool, id uint16) string {
	key, iv, mac := kvHex(desc, "key"), kvHex(desc, "iv"), kvHex(desc, "mac")
	seq := kvU64(desc, "seq")
	epoch := uint16(kvU64(desc, "epoch"))
	typ := byte(kvU64(desc, "typ"))
	ver := uint16(kvU64(desc, "ver"))
	var rnd io.Reader = bytes.NewReader(kvHex(desc, "rand"))
	if k := int(kvU64(desc, "rchunk")); k > 0 {
		rnd = &chunkReader{rnd, k} // short reads are legal for an io.Reader
	}
	pmtu := int(kvU64(desc, "pmtu"))
	if tl {
		v, err := tlcp.VerifNewRecordConn(id, key, iv, mac, rnd)
		if err != nil {
			return "err=setup"
		}
		switch op {
		case "enc":
			rec, err := v.Encrypt(seq, typ, ver, kvHex(desc, "payload"))
			if err != nil {
				return "err=" + errName(err)
			}
			return "rec=" + hx.Hex(rec)
		case "write":
			wire, next, err := v.WriteRecord(seq, typ, kvHex(desc, "payload"))
			if err != nil {
				return "err=" + errName(err)
			}
			return fmt.Sprintf("wire=%s nepoch=0 nseq=%d", hx.Hex(wire), next)
		case "dec":
			pt, t, a := v.Decrypt(seq, kvHex(desc, "rec"))
			if a != 0 {
				return fmt.Sprintf("out=alert:%d", a)
			}
			return fmt.Sprintf("out=ok:%d:%s", t, hx.Hex(pt))
		}
	} else {
		v, err := dtlcp.VerifNewRecordConn(id, key, iv, mac, rnd, pmtu)
		if err != nil {
			return "err=setup"
		}
		switch op {
		case "enc":
			rec, err := v.Encrypt(epoch, seq, typ, ver, kvHex(desc, "payload"))
			if err != nil {
				return "err=" + errName(err)
			}
			return "rec=" + hx.Hex(rec)
		case "write":
			wire, ne, ns, err := v.WriteRecord(epoch, seq, typ, kvHex(desc, "payload"))
			if err != nil {
				return "err=" + errName(err)
			}
			return fmt.Sprintf("wire=%s nepoch=%d nseq=%d", hx.Hex(wire), ne, ns)
		case "dec":
			pt, t, a := v.Decrypt(kvHex(desc, "rec"))
			if a != 0 {
				return fmt.Sprintf("out=alert:%d", a)
			}
			return fmt.Sprintf("out=ok:%d:%s", t, hx.Hex(pt))
		}
	}
	return "unknown-op"
}

// chunkReader returns at most k bytes per Read.
type chunkReader struct {
	r io.Reader
	k int
}

func (c *chunkReader) Read(p []byte) (int, error) {
	if len(p) > c.k {
		p = p[:c.k]
	}
	return c.r.Read(p)
}

func errName(err error) string {
	if err == io.ErrUnexpectedEOF || err == io.EOF {
		return "rand-exhausted"
	}
	return strings.ReplaceAll(err.Error(), " ", "_")
}

// maxPayload asks the real maxPayloadSizeForWrite (the chunking itself is C06/C15's subject; the
// model takes it as an input).
func maxPayload(tl bool, id uint16, pmtu int, typ byte) int {
	k, iv, m := make([]byte, 16), make([]byte, 16), make([]byte, 32)
	if isGCM(id) {
		iv = iv[:4]
	}
	if tl {
		v, _ := tlcp.VerifNewRecordConn(id, k, iv, m, nil)
		return v.MaxPayload(typ)
	}
	v, _ := dtlcp.VerifNewRecordConn(id, k, iv, m, nil, pmtu)
	return v.MaxPayload(typ)
}

// ---------------------------------------------------------------------------
// the Lean side as a sender

type sealer struct {
	cmd *exec.Cmd
	in  io.WriteCloser
	out *bufio.Reader
}

func newSealer(path string) *sealer {
	if path == "" {
		return nil
	}
	cmd := exec.Command(path, "seal")
	in, err1 := cmd.StdinPipe()
	out, err2 := cmd.StdoutPipe()
	if err1 != nil || err2 != nil || cmd.Start() != nil {
		fmt.Fprintln(os.Stderr, "c04: cannot start", path, "seal — Lean-sealed records are skipped")
		return nil
	}
	return &sealer{cmd, in, bufio.NewReaderSize(out, 1<<20)}
}

func (s *sealer) seal(req string) []byte {
	fmt.Fprintln(s.in, req)
	line, err := s.out.ReadString('\n')
	line = strings.TrimSpace(line)
	if err != nil || line == "BAD" {
		return nil
	}
	return hx.UnHex(line)
}

func (s *sealer) close() {
	if s != nil {
		s.in.Close()
		s.cmd.Wait()
	}
}

// ---------------------------------------------------------------------------
// generators

type gen struct {
	r    *hx.Rand
	emit func(string)
	sl   *sealer
}

var sizes = []int{0, 1, 2, 15, 16, 17, 31, 32, 33, 47, 48, 63, 64, 255, 256, 1000, 1399, 1400, 4095, 4096, 16383, 16384}

func (g *gen) size(max int) int {
	switch g.r.Intn(10) {
	case 0, 1, 2:
		s := hx.Pick(g.r, sizes)
		if s <= max {
			return s
		}
		return max
	case 3:
		return g.r.Intn(max + 1)
	case 4, 5:
		return g.r.Intn(min(max, 2048) + 1)
	default:
		return g.r.Intn(min(max, 200) + 1)
	}
}

func (g *gen) seq(tl bool) uint64 {
	lim := uint64(1) << 48
	switch g.r.Intn(8) {
	case 0:
		return 0
	case 1:
		return uint64(g.r.Intn(4))
	case 2:
		if tl {
			return ^uint64(0) - 1 - uint64(g.r.Intn(64)) // close to, never at, the wrap
		}
		return lim - 1 - uint64(g.r.Intn(64))
	case 3:
		return (uint64(1) << uint(8*g.r.Intn(6)+8)) - uint64(g.r.Intn(2)) // byte carries
	default:
		if tl {
			return g.r.U64() >> uint(g.r.Intn(60))
		}
		return (g.r.U64() >> 16) >> uint(g.r.Intn(44))
	}
}

func (g *gen) keyMaterial(id uint16) (key, iv, mac []byte) {
	key = g.r.Bytes(16)
	if isGCM(id) {
		return key, g.r.Bytes(4), nil
	}
	return key, g.r.Bytes(16), g.r.Bytes(32)
}

func (g *gen) stack() (string, bool) {
	if g.r.Bool() {
		return "tlcp", true
	}
	return "dtlcp", false
}

// rchunk: how many bytes the random source returns per Read at most (0 = as many as asked)
func (g *gen) rchunk() int { return hx.Pick(g.r, []int{0, 0, 1, 1, 2, 5, 15}) }

func (g *gen) typ() int { return hx.Pick(g.r, []int{23, 23, 23, 22, 21, 20}) }

func (g *gen) schedule() {
	st, _ := g.stack()
	id := hx.Pick(g.r, suites)
	switch g.r.Intn(5) {
	case 0:
		g.emit(fmt.Sprintf("op=phash stack=%s secret=%s seed=%s n=%d", st, hx.Hex(g.r.Bytes(g.r.Intn(100))), hx.Hex(g.r.Bytes(g.r.Intn(120))), g.r.Intn(300)))
	case 1:
		g.emit(fmt.Sprintf("op=prf stack=%s suite=%d secret=%s label=%s seed=%s n=%d", st, id, hx.Hex(g.r.Bytes(g.r.Intn(80))), hx.Hex(g.r.Bytes(g.r.Intn(20))), hx.Hex(g.r.Bytes(g.r.Intn(80))), g.r.Intn(200)))
	case 2:
		g.emit(fmt.Sprintf("op=master stack=%s suite=%d pre=%s cr=%s sr=%s", st, id, hx.Hex(g.r.Bytes(hx.Pick(g.r, []int{48, 48, 48, 32, 1, 64}))), hx.Hex(g.r.Bytes(32)), hx.Hex(g.r.Bytes(32))))
	case 3:
		g.emit(fmt.Sprintf("op=keys stack=%s suite=%d master=%s cr=%s sr=%s", st, id, hx.Hex(g.r.Bytes(48)), hx.Hex(g.r.Bytes(32)), hx.Hex(g.r.Bytes(32))))
	case 4:
		g.emit(fmt.Sprintf("op=fin stack=%s suite=%d master=%s transcript=%s", st, id, hx.Hex(g.r.Bytes(48)), hx.Hex(g.r.Bytes(g.r.Intn(3000)))))
	}
}

func (g *gen) recordCase(big bool) {
	st, tl := g.stack()
	id := hx.Pick(g.r, suites)
	key, iv, mac := g.keyMaterial(id)
	seq := g.seq(tl)
	epoch := 0
	if !tl {
		epoch = hx.Pick(g.r, []int{1, 1, 1, 0, 2, 255, 256, 65535})
	}
	max := 16384
	if !big {
		max = 600
	}
	base := fmt.Sprintf("stack=%s suite=%d key=%s iv=%s mac=%s epoch=%d seq=%d", st, id, hx.Hex(key), hx.Hex(iv), hx.Hex(mac), epoch, seq)
	switch g.r.Intn(4) {
	case 0: // one call of halfConn.encrypt
		p := g.r.Bytes(g.size(max))
		g.emit(fmt.Sprintf("op=enc %s typ=%d ver=%d payload=%s rand=%s rchunk=%d", base, g.typ(), 0x0101, hx.Hex(p), hx.Hex(g.r.Bytes(16)), g.rchunk()))
	case 1: // writeRecordLocked (several records when the payload exceeds the limit)
		pmtu := 0
		n := g.size(3 * max)
		if n == 0 {
			n = 1
		}
		if !tl {
			pmtu = hx.Pick(g.r, []int{0, 0, 576, 1400, 1500, 9000, 20000})
		}
		typ := hx.Pick(g.r, []int{23, 23, 22, 21})
		mp := maxPayload(tl, id, pmtu, byte(typ))
		nrec := (n + mp - 1) / mp
		if nrec > 40 {
			n = 40 * mp
			nrec = 40
		}
		p := g.r.Bytes(n)
		g.emit(fmt.Sprintf("op=write %s typ=%d payload=%s rand=%s pmtu=%d maxp=%d rchunk=%d", base, typ, hx.Hex(p), hx.Hex(g.r.Bytes(16*nrec)), pmtu, mp, g.rchunk()))
	default: // decrypt: a record sealed by the Lean side, possibly tampered with
		g.decCase(st, tl, id, base, key, iv, mac, epoch, seq, max)
	}
}

func (g *gen) decCase(st string, tl bool, id uint16, base string, key, iv, mac []byte, epoch int, seq uint64, max int) {
	p := g.r.Bytes(g.size(max))
	typ := g.typ()
	var rec []byte
	var nonce []byte
	if isGCM(id) {
		nonce = g.r.Bytes(8) // the receiver must accept any explicit nonce, not only seq
		if g.r.Bool() {
			nonce = seqBytes(tl, epoch, seq)
		}
	} else {
		nonce = g.r.Bytes(16)
	}
	// CBC: the standard lets a sender pad up to 255 bytes; a quarter of the CBC records carry long
	// padding — well-formed, or with damaged bytes anywhere in it (also farther than one block from
	// the end), or with a padding_length that claims more bytes than were appended
	padHow := ""
	if g.sl != nil {
		req := fmt.Sprintf("%s typ=%d ver=257 nonce=%s payload=%s", base, typ, hx.Hex(nonce), hx.Hex(p))
		if !isGCM(id) && g.r.Intn(4) == 0 {
			var tail []byte
			tail, padHow = g.padTail(len(p))
			req += " tail=" + hx.Hex(tail)
		}
		rec = g.sl.seal(req)
	}
	origin := "lean"
	if rec == nil { // no Lean sender available: let the real code seal it
		origin = "go"
		obs := execute(fmt.Sprintf("op=enc %s typ=%d ver=257 payload=%s rand=%s", base, typ, hx.Hex(p), hx.Hex(nonce)))
		if !strings.HasPrefix(obs, "rec=") {
			return
		}
		rec = hx.UnHex(obs[4:])
	}
	hl := 13
	if tl {
		hl = 5
	}
	rseq := seq
	how := "none"
	sel := g.r.Intn(12)
	if padHow != "" { // one variation at a time
		how, sel = padHow, 99
	}
	switch sel {
	case 0: // another type in the header
		rec[0] ^= byte(1 + g.r.Intn(3))
		how = "type"
	case 1: // another version
		rec[1+g.r.Intn(2)] ^= byte(1 << uint(g.r.Intn(8)))
		how = "version"
	case 2: // receiver expects another sequence number / header carries another one
		if tl {
			rseq = seq + 1
		} else {
			rec[5+g.r.Intn(6)] ^= byte(1 << uint(g.r.Intn(8)))
		}
		how = "seq"
	case 3: // another epoch
		if !tl {
			rec[3+g.r.Intn(2)] ^= byte(1 << uint(g.r.Intn(8)))
			how = "epoch"
		}
	case 4: // one bit of the protected body
		if len(rec) > hl {
			rec[hl+g.r.Intn(len(rec)-hl)] ^= byte(1 << uint(g.r.Intn(8)))
			how = "body"
		}
	case 5: // truncated by one block / one byte, length field adjusted
		cut := hx.Pick(g.r, []int{1, 16})
		if len(rec)-hl > cut {
			rec = rec[:len(rec)-cut]
			n := len(rec) - hl
			rec[hl-2], rec[hl-1] = byte(n>>8), byte(n)
			how = "truncate"
		}
	case 6: // another key on the receiving side
		key = append([]byte(nil), key...)
		key[g.r.Intn(16)] ^= 1
		how = "key"
	case 7: // another MAC key / write IV on the receiving side
		if isGCM(id) {
			iv = append([]byte(nil), iv...)
			iv[g.r.Intn(4)] ^= 1
			how = "writeiv"
		} else {
			mac = append([]byte(nil), mac...)
			mac[g.r.Intn(32)] ^= 1
			how = "mackey"
		}
	}
	g.emit(fmt.Sprintf("op=dec stack=%s suite=%d key=%s iv=%s mac=%s epoch=%d seq=%d rec=%s origin=%s tamper=%s",
		st, id, hx.Hex(key), hx.Hex(iv), hx.Hex(mac), epoch, rseq, hx.Hex(rec), origin, how))
}

// padTail returns the bytes that follow content ‖ MAC of a CBC record with LONG padding for n
// bytes of content (HMAC-SM3: 32 bytes): padding_length p = minimal + 16k, k >= 1, p <= 255.
func (g *gen) padTail(n int) (tail []byte, how string) {
	p0 := 15 - (n+32)%16
	kmax := (255 - p0) / 16
	k := 1 + g.r.Intn(kmax)
	if g.r.Intn(3) == 0 {
		k = kmax
	}
	p := p0 + 16*k
	return padVariant(g.r, p, g.r.Intn(5))
}

// padVariant builds p+1 bytes of padding of value p and damages them according to kind.
func padVariant(r *hx.Rand, p, kind int) (tail []byte, how string) {
	tail = bytes.Repeat([]byte{byte(p)}, p+1)
	flip := func(i int) { tail[i] ^= byte(1 + r.Intn(255)) }
	switch kind {
	case 0, 1:
		return tail, "longpad" // legal
	case 2: // one byte farther than one block from the end
		flip(r.Intn(p + 1 - 16))
		return tail, "padbytefar"
	case 3: // one to three bytes anywhere in the padding (not the length byte)
		for j := 1 + r.Intn(3); j > 0; j-- {
			flip(r.Intn(p))
		}
		return tail, "padbyte"
	default: // padding_length claims 16 more bytes than there are
		if p+16 > 255 {
			flip(0)
			return tail, "padbytefirst"
		}
		return bytes.Repeat([]byte{byte(p + 16)}, p+1), "padshort"
	}
}

func seqBytes(tl bool, epoch int, seq uint64) []byte {
	b := make([]byte, 8)
	for i := 7; i >= 0; i-- {
		b[i] = byte(seq)
		seq >>= 8
	}
	if !tl {
		b[0], b[1] = byte(epoch>>8), byte(epoch)
	}
	return b
}

func primCases(o hx.Opts, emit func(string), oracle string) {
	g := &gen{r: hx.NewRand(o.Seed), emit: emit, sl: newSealer(oracle)}
	defer g.sl.close()
	zero16, zero32 := hx.Hex(make([]byte, 16)), hx.Hex(make([]byte, 32))

	// 1. witnesses and boundary cases (always first)
	for _, st := range []string{"tlcp", "dtlcp"} {
		for _, id := range suites {
			iv := zero16
			if isGCM(id) {
				iv = "00000000"
			}
			base := fmt.Sprintf("stack=%s suite=%d key=%s iv=%s mac=%s", st, id, zero16, iv, zero32)
			for _, n := range []int{0, 1, 15, 16, 17, 31, 32} {
				emit(fmt.Sprintf("op=enc %s epoch=1 seq=%d typ=23 ver=257 payload=%s rand=%s", base, n, hx.Hex(bytes.Repeat([]byte{0xab}, n)), zero16))
			}
			// the sequence number is the last one before the wrap
			if st == "tlcp" {
				emit(fmt.Sprintf("op=enc %s epoch=0 seq=18446744073709551614 typ=23 ver=257 payload=01 rand=%s", base, zero16))
				// at the wrap the implementation must refuse (panic), never reuse sequence number 0
				emit(fmt.Sprintf("op=enc %s epoch=0 seq=18446744073709551615 typ=23 ver=257 payload=01 rand=%s", base, zero16))
			} else {
				emit(fmt.Sprintf("op=enc %s epoch=1 seq=281474976710655 typ=23 ver=257 payload=01 rand=%s", base, zero16))
			}
			if !isGCM(id) { // a random source that returns one byte per Read: every IV must still be 16 fresh bytes
				rb := make([]byte, 64)
				for i := range rb {
					rb[i] = byte(0xa0 + i)
				}
				emit(fmt.Sprintf("op=enc %s epoch=1 seq=5 typ=23 ver=257 payload=0102 rand=%s rchunk=1", base, hx.Hex(rb[:16])))
				pm := 0
				if st == "dtlcp" {
					pm = 576
				}
				mp := maxPayload(st == "tlcp", id, pm, 23)
				ep := 0
				if st == "dtlcp" {
					ep = 1
				}
				emit(fmt.Sprintf("op=write %s epoch=%d seq=5 typ=23 payload=%s rand=%s pmtu=%d maxp=%d rchunk=1", base, ep,
					hx.Hex(bytes.Repeat([]byte{7}, 3*mp+1)), hx.Hex(rb), pm, mp))
			}
			emit(fmt.Sprintf("op=keys stack=%s suite=%d master=%s cr=%s sr=%s", st, id, hx.Hex(bytes.Repeat([]byte{1}, 48)), hx.Hex(bytes.Repeat([]byte{2}, 32)), hx.Hex(bytes.Repeat([]byte{3}, 32))))
		}
		emit(fmt.Sprintf("op=master stack=%s suite=57363 pre=%s cr=%s sr=%s", st, hx.Hex(bytes.Repeat([]byte{1}, 48)), hx.Hex(bytes.Repeat([]byte{2}, 32)), hx.Hex(bytes.Repeat([]byte{3}, 32))))
		emit(fmt.Sprintf("op=fin stack=%s suite=57363 master=%s transcript=%s", st, hx.Hex(bytes.Repeat([]byte{1}, 48)), "616263"))
		for _, n := range []int{0, 1, 31, 32, 33, 64, 65, 128} {
			emit(fmt.Sprintf("op=phash stack=%s secret=0b0b0b seed=cdcdcd n=%d", st, n))
		}
	}

	// long CBC padding through the real decrypt of both stacks: 3 bytes of content + 32 of MAC take
	// 12 + 16k bytes of padding; the largest (252), one in the middle, each well-formed and with one
	// byte damaged at the far end, in the middle and next to the length byte
	if g.sl != nil {
		for _, st := range []string{"tlcp", "dtlcp"} {
			for _, id := range []uint16{0xe013, 0xe011} {
				base := fmt.Sprintf("stack=%s suite=%d key=%s iv=%s mac=%s epoch=1 seq=7", st, id, zero16, zero16, zero32)
				for _, p := range []int{252, 124, 28} {
					for _, dmg := range []int{-1, 0, p / 2, p - 17, p - 1} {
						tail := bytes.Repeat([]byte{byte(p)}, p+1)
						how := "longpad"
						if dmg >= 0 {
							tail[dmg] ^= 0x80
							how = fmt.Sprintf("padbyte@%d", p-dmg) // distance from the end
						}
						rec := g.sl.seal(fmt.Sprintf("%s typ=23 ver=257 nonce=%s payload=616263 tail=%s", base, zero16, hx.Hex(tail)))
						if rec != nil {
							emit(fmt.Sprintf("op=dec %s rec=%s origin=lean tamper=%s", base, hx.Hex(rec), how))
						}
					}
				}
			}
		}
	}

	// 2. random
	nSched, nSmall, nBig := 600, 1200, 120
	if o.Tier == "thorough" {
		nSched, nSmall, nBig = 20000, 60000, 6000
	}
	for i := 0; i < nSched*o.Scale; i++ {
		g.schedule()
	}
	for i := 0; i < nSmall*o.Scale; i++ {
		g.recordCase(false)
	}
	for i := 0; i < nBig*o.Scale; i++ {
		g.recordCase(true)
	}
}

// oraclePath: oracle_c04, whose `seal` mode is the Lean-side sender (phases prim, rx, wf)
var oraclePath string

func main() {
	oracle := flag.String("oracle", "", "path of oracle_c04 (its `seal` mode is the Lean-side sender)")
	o := hx.ParseOpts()
	oraclePath = *oracle
	tr := hx.NewTrace(o.Out)
	defer tr.Close()
	emit := func(desc string) {
		if op, _ := hx.KV(desc, "op"); op == "hs" || op == "rx" || op == "wf" || op == "cw" {
			cfg := configPart(desc)
			var captured, obs string
			switch op {
			case "rx":
				captured, obs = executeRXFull(cfg)
			case "wf":
				captured, obs = executeWFFull(cfg)
			case "cw":
				captured, obs = executeCWFull(cfg)
			default:
				captured, obs = executeHSFull(cfg)
			}
			if captured != "" {
				cfg += " " + captured
			}
			tr.Line(cfg, obs)
			return
		}
		tr.Line(desc, execute(desc))
	}

	if o.Replay != "" {
		for _, c := range hx.ReplayCases(o.Replay) {
			emit(c)
		}
		return
	}
	switch o.Phase {
	case "hs":
		hsCases(o, emit)
	case "rx":
		rxCases(o, emit)
	case "wf":
		wfCases(o, emit)
	case "cw":
		cwCases(o, func(desc, captured, obs string) {
			if captured != "" {
				desc += " " + captured
			}
			tr.Line(desc, obs)
		})
	default:
		primCases(o, emit, *oracle)
	}
}

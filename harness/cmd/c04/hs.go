package main

// Layer 2 of C04: real handshakes between the two real endpoints over an in-memory transport.
// Everything both sides put on the wire is captured; the master secret is read from each
// side's session-cache entry; for ECC suites the pre-master secret is recovered by opening the
// ClientKeyExchange with the server's encryption private key (real SM2, outside the library); for
// ECDHE suites it is the agreed value computed by the driver's own SM2 key-agreement module, which
// the public Config carries as the encryption certificate's PrivateKey (ka.go) - including
// handshakes whose agreed value starts with zero bytes.
// The Lean oracle then re-derives master secret, key block and both Finished values and opens
// every protected record of each direction under that direction's key.
//
// case    : op=hs stack suite auth resume nc ns pmtu seed rshort msz ka   (configuration, re-executable)
//           master smaster pre c2s s2c sentc sents          (captured; replaced on replay)
// observed: ok resumed cfin sfin  |  ok=0 err=...

import (
	"crypto"
	"crypto/rand"
	"fmt"
	"io"
	"strings"
	"sync"
	"time"

	"gitee.com/Trisia/gotlcp/dtlcp"
	"gitee.com/Trisia/gotlcp/tlcp"
	"github.com/emmansun/gmsm/sm2"
	"verifharness/internal/hx"
	"verifharness/internal/pair"
	"verifharness/internal/pki"
)

type capture struct {
	c2s, s2c       []byte
	master, smast  []byte
	pre            []byte
	sentc, sents   []byte
	cfin, sfin     []byte
	crng, srng     []byte
	resumed, ok    bool
	err            string
}

// shortReader wraps crypto/rand: every Read returns at most `chunk` bytes (legal for an
// io.Reader) and everything handed out is recorded, so that the oracle can check that each
// explicit CBC IV on the wire is a run of bytes the random source actually produced.
type shortReader struct {
	mu    sync.Mutex
	chunk int
	out   []byte
}

func (s *shortReader) Read(p []byte) (int, error) {
	if len(p) > s.chunk {
		p = p[:s.chunk]
	}
	n, err := rand.Read(p)
	s.mu.Lock()
	s.out = append(s.out, p[:n]...)
	s.mu.Unlock()
	return n, err
}

func (s *shortReader) bytes() []byte {
	if s == nil {
		return nil
	}
	s.mu.Lock()
	defer s.mu.Unlock()
	return append([]byte(nil), s.out...)
}

// recording session caches ---------------------------------------------------

type tCache struct {
	mu     sync.Mutex
	inner  tlcp.SessionCache
	master []byte
}

func (t *tCache) Get(k string) (*tlcp.SessionState, bool) { return t.inner.Get(k) }
func (t *tCache) Put(k string, s *tlcp.SessionState) {
	if s != nil {
		_, _, _, m, _ := tlcp.VerifSessionInfo(s)
		t.mu.Lock()
		t.master = append([]byte(nil), m...)
		t.mu.Unlock()
	}
	t.inner.Put(k, s)
}

type dCache struct {
	mu     sync.Mutex
	inner  dtlcp.SessionCache
	master []byte
}

func (t *dCache) Get(k string) (*dtlcp.SessionState, bool) { return t.inner.Get(k) }
func (t *dCache) Put(k string, s *dtlcp.SessionState) {
	if s != nil {
		_, _, _, m, _ := dtlcp.VerifSessionInfo(s)
		t.mu.Lock()
		t.master = append([]byte(nil), m...)
		t.mu.Unlock()
	}
	t.inner.Put(k, s)
}

// application data ------------------------------------------------------------

type rw interface {
	Read([]byte) (int, error)
	Write([]byte) (int, error)
	SetReadDeadline(time.Time) error
}

func genMsgs(r *hx.Rand, n, max int) (msgs [][]byte, all []byte) {
	for i := 0; i < n; i++ {
		sz := 1 + r.Intn(max)
		switch r.Intn(6) {
		case 0:
			sz = 1 + r.Intn(min(max, 40))
		case 1:
			sz = max
		}
		m := r.Bytes(sz)
		msgs = append(msgs, m)
		all = append(all, m...)
	}
	return
}

// exchange writes the messages both ways concurrently and reads them on the other side.
func exchange(c, s rw, cm, sm [][]byte, nc, ns int) error {
	var wg sync.WaitGroup
	errs := make([]error, 4)
	dl := time.Now().Add(20 * time.Second)
	c.SetReadDeadline(dl)
	s.SetReadDeadline(dl)
	wr := func(i int, w rw, msgs [][]byte) {
		defer wg.Done()
		for _, m := range msgs {
			if _, err := w.Write(m); err != nil {
				errs[i] = err
				return
			}
		}
	}
	rd := func(i int, r rw, n int) {
		defer wg.Done()
		buf := make([]byte, 70000)
		for n > 0 {
			k, err := r.Read(buf)
			n -= k
			if err != nil {
				errs[i] = err
				return
			}
		}
	}
	wg.Add(4)
	go wr(0, c, cm)
	go wr(1, s, sm)
	go rd(2, s, nc)
	go rd(3, c, ns)
	wg.Wait()
	for _, e := range errs {
		if e != nil {
			return e
		}
	}
	return nil
}

// pre-master secret from the captured ClientKeyExchange (ECC suites) --------------

func tlcpHandshakeMsgs(wire []byte) (msgs [][]byte) {
	var hs []byte
	for i := 0; i+5 <= len(wire); {
		n := int(wire[i+3])<<8 | int(wire[i+4])
		if wire[i] == 20 || i+5+n > len(wire) {
			break
		}
		if wire[i] == 22 {
			hs = append(hs, wire[i+5:i+5+n]...)
		}
		i += 5 + n
	}
	for len(hs) >= 4 {
		n := int(hs[1])<<16 | int(hs[2])<<8 | int(hs[3])
		if 4+n > len(hs) {
			break
		}
		msgs = append(msgs, hs[:4+n])
		hs = hs[4+n:]
	}
	return
}

// dtlcpMessage reassembles the body of the first epoch-0 handshake message of type typ.
func dtlcpMessage(wire []byte, typ byte) []byte {
	var body []byte
	have := 0
	for i := 0; i+13 <= len(wire); {
		n := int(wire[i+11])<<8 | int(wire[i+12])
		if i+13+n > len(wire) {
			break
		}
		if wire[i] == 22 && wire[i+3] == 0 && wire[i+4] == 0 {
			p := wire[i+13 : i+13+n]
			for len(p) >= 12 {
				total := int(p[1])<<16 | int(p[2])<<8 | int(p[3])
				off := int(p[6])<<16 | int(p[7])<<8 | int(p[8])
				fl := int(p[9])<<16 | int(p[10])<<8 | int(p[11])
				if 12+fl > len(p) {
					break
				}
				if p[0] == typ && off+fl <= total {
					if body == nil {
						body = make([]byte, total)
					}
					if len(body) == total {
						copy(body[off:], p[12:12+fl])
						have += fl
					}
				}
				p = p[12+fl:]
			}
		}
		i += 13 + n
	}
	if body != nil && have >= len(body) {
		return body
	}
	return nil
}

func openCKE(body []byte) []byte {
	if len(body) < 5 {
		return nil
	}
	n := int(body[0])<<8 | int(body[1])
	if 2+n != len(body) {
		return nil
	}
	ct := body[2:]
	if l := 3 + int(ct[2]); len(ct) >= l && ct[1] == 0x81 {
		ct = ct[:l]
	}
	dec, ok := pki.Std().SrvEnc.Key.(crypto.Decrypter)
	if !ok {
		return nil
	}
	plain, err := dec.Decrypt(rand.Reader, ct, sm2.ASN1DecrypterOpts)
	if err != nil {
		return nil
	}
	return plain
}

// one captured handshake per stack -----------------------------------------------

type hsCfg struct {
	stack          string
	suite          uint16
	auth, resume   bool
	nc, ns, pmtu   int
	seed           uint64
	rshort         int // > 0: Config.Rand of both sides returns at most rshort bytes per Read (and is recorded)
	msz            int // > 0: cap on the size of one application message
	ka             string // ECDHE: who computes the SM2 key agreement (ka.go); "" = lib
}

func isECDHE(id uint16) bool { return id == 0xe011 || id == 0xe051 }

func runTLCP(cfg hsCfg) (cp capture) {
	s := pki.Std()
	cc := &tCache{inner: tlcp.NewLRUSessionCache(8)}
	sc := &tCache{inner: tlcp.NewLRUSessionCache(8)}
	ccfg := &tlcp.Config{RootCAs: s.Root.Pool, ServerName: "test.example", Time: pki.NowFn,
		CipherSuites: []uint16{cfg.suite}, SessionCache: cc}
	scfg := &tlcp.Config{Certificates: []tlcp.Certificate{pair.TCert(s.SrvSig), pair.TCert(s.SrvEnc)}, Time: pki.NowFn,
		CipherSuites: []uint16{cfg.suite}, SessionCache: sc}
	var crd, srd *shortReader
	if cfg.rshort > 0 {
		crd, srd = &shortReader{chunk: cfg.rshort}, &shortReader{chunk: cfg.rshort}
		ccfg.Rand, scfg.Rand = crd, srd
	}
	if cfg.auth {
		ccfg.Certificates = []tlcp.Certificate{pair.TCert(s.CliSig), pair.TCert(s.CliEnc)}
		scfg.ClientAuth = tlcp.RequireAndVerifyClientCert
		scfg.ClientCAs = s.Root.Pool
	}
	// ECDHE: the encryption key of a side may be a key-agreement module of the driver (ka.go)
	kc, ks := kaSetup(cfg.ka)
	if kc != nil && len(ccfg.Certificates) == 2 {
		ccfg.Certificates[1].PrivateKey = kc
	}
	if ks != nil {
		scfg.Certificates[1].PrivateKey = ks
	}
	if cfg.resume { // prime both caches with a full handshake first
		c, sv, ce, se, r := pair.TLCP(ccfg, scfg, nil)
		if !r.OK() {
			cp.err = "priming:" + r.String()
			return
		}
		c.Close()
		sv.Close()
		ce.Close()
		se.Close()
	}
	c, sv, ce, se, r := pair.TLCP(ccfg, scfg, nil)
	defer func() { ce.Close(); se.Close() }()
	if !r.OK() {
		cp.err = r.String()
		return
	}
	rnd := hx.NewRand(cfg.seed)
	maxMsg := 16384 * 2
	if cfg.msz > 0 {
		maxMsg = cfg.msz
	}
	cm, call := genMsgs(rnd, cfg.nc, maxMsg)
	sm, sall := genMsgs(rnd, cfg.ns, maxMsg)
	if err := exchange(c, sv, cm, sm, len(call), len(sall)); err != nil {
		cp.err = "data:" + err.Error()
		return
	}
	c.Close()
	sv.Close()
	cp.cfin, cp.sfin, cp.resumed, _ = tlcp.VerifConnFinished(c)
	cp.c2s, cp.s2c = ce.SentBytes(), se.SentBytes()
	cp.master, cp.smast = cc.master, sc.master
	cp.sentc, cp.sents = call, sall
	cp.crng, cp.srng = crd.bytes(), srd.bytes()
	if !isECDHE(cfg.suite) && !cp.resumed {
		for _, m := range tlcpHandshakeMsgs(cp.c2s) {
			if m[0] == 16 {
				cp.pre = openCKE(m[4:])
			}
		}
	}
	if isECDHE(cfg.suite) && !cp.resumed {
		var clash bool
		if cp.pre, clash = kaAgreed(kc, ks); clash {
			cp.err = "driver:the two key-agreement modules computed different values"
			return
		}
	}
	cp.ok = true
	return
}

func runDTLCP(cfg hsCfg) (cp capture) {
	s := pki.Std()
	cc := &dCache{inner: dtlcp.NewLRUSessionCache(8)}
	sc := &dCache{inner: dtlcp.NewLRUSessionCache(8)}
	ccfg := pair.DClient()
	scfg := pair.DServer()
	ccfg.CipherSuites, scfg.CipherSuites = []uint16{cfg.suite}, []uint16{cfg.suite}
	ccfg.SessionCache, scfg.SessionCache = cc, sc
	ccfg.PMTU, scfg.PMTU = cfg.pmtu, cfg.pmtu
	// no retransmission while a slow peer computes: the capture should be one clean run
	ccfg.InitialRetransmitTimeout, scfg.InitialRetransmitTimeout = 6*time.Second, 6*time.Second
	var crd, srd *shortReader
	if cfg.rshort > 0 {
		crd, srd = &shortReader{chunk: cfg.rshort}, &shortReader{chunk: cfg.rshort}
		ccfg.Rand, scfg.Rand = crd, srd
	}
	if cfg.auth {
		ccfg.Certificates = []dtlcp.Certificate{pair.DCert(s.CliSig), pair.DCert(s.CliEnc)}
		scfg.ClientAuth = dtlcp.RequireAndVerifyClientCert
		scfg.ClientCAs = s.Root.Pool
	}
	kc, ks := kaSetup(cfg.ka)
	if kc != nil && len(ccfg.Certificates) == 2 {
		ccfg.Certificates[1].PrivateKey = kc
	}
	if ks != nil {
		scfg.Certificates = append([]dtlcp.Certificate(nil), scfg.Certificates...)
		scfg.Certificates[1].PrivateKey = ks
	}
	if cfg.resume {
		c, sv, ce, se, r := pair.DTLCP(ccfg, scfg, nil)
		if !r.OK() {
			cp.err = "priming:" + r.String()
			return
		}
		c.Close()
		sv.Close()
		ce.Close()
		se.Close()
	}
	c, sv, ce, se, r := pair.DTLCP(ccfg, scfg, nil)
	defer func() { ce.Close(); se.Close() }()
	if !r.OK() {
		cp.err = r.String()
		return
	}
	rnd := hx.NewRand(cfg.seed)
	maxMsg := 1200
	if cfg.pmtu > 0 {
		maxMsg = cfg.pmtu - 100
	}
	if maxMsg > 16384 {
		maxMsg = 16384
	}
	if cfg.msz > 0 && cfg.msz < maxMsg {
		maxMsg = cfg.msz
	}
	cm, call := genMsgs(rnd, cfg.nc, maxMsg)
	sm, sall := genMsgs(rnd, cfg.ns, maxMsg)
	if err := exchange(c, sv, cm, sm, len(call), len(sall)); err != nil {
		cp.err = "data:" + err.Error()
		return
	}
	c.Close()
	sv.Close()
	cp.cfin, cp.sfin, cp.resumed, _ = dtlcp.VerifConnFinished(c)
	for _, d := range ce.SentCopy() {
		cp.c2s = append(cp.c2s, d...)
	}
	for _, d := range se.SentCopy() {
		cp.s2c = append(cp.s2c, d...)
	}
	cp.master, cp.smast = cc.master, sc.master
	cp.sentc, cp.sents = call, sall
	cp.crng, cp.srng = crd.bytes(), srd.bytes()
	if !isECDHE(cfg.suite) && !cp.resumed {
		if b := dtlcpMessage(cp.c2s, 16); b != nil {
			cp.pre = openCKE(b)
		}
	}
	if isECDHE(cfg.suite) && !cp.resumed {
		var clash bool
		if cp.pre, clash = kaAgreed(kc, ks); clash {
			cp.err = "driver:the two key-agreement modules computed different values"
			return
		}
	}
	cp.ok = true
	return
}

func b01(b bool) int {
	if b {
		return 1
	}
	return 0
}

func hsDesc(c hsCfg) string {
	ka := c.ka
	if ka == "" || !isECDHE(c.suite) {
		ka = "lib"
	}
	return fmt.Sprintf("op=hs stack=%s suite=%d auth=%d resume=%d nc=%d ns=%d pmtu=%d seed=%d rshort=%d msz=%d ka=%s",
		c.stack, c.suite, b01(c.auth), b01(c.resume), c.nc, c.ns, c.pmtu, c.seed, c.rshort, c.msz, ka)
}

// executeHS runs the configuration part of desc; it returns the captured tokens (appended to
// the case) and the observation.
func executeHSFull(desc string) (captured, obs string) {
	cfg := hsCfg{stack: "tlcp"}
	if v, _ := hx.KV(desc, "stack"); v == "dtlcp" {
		cfg.stack = "dtlcp"
	}
	cfg.suite = uint16(kvU64(desc, "suite"))
	cfg.auth = kvU64(desc, "auth") == 1
	cfg.resume = kvU64(desc, "resume") == 1
	cfg.nc, cfg.ns, cfg.pmtu = int(kvU64(desc, "nc")), int(kvU64(desc, "ns")), int(kvU64(desc, "pmtu"))
	cfg.seed = kvU64(desc, "seed")
	cfg.rshort, cfg.msz = int(kvU64(desc, "rshort")), int(kvU64(desc, "msz"))
	if cfg.ka, _ = hx.KV(desc, "ka"); !isECDHE(cfg.suite) {
		cfg.ka = ""
	}
	var cp capture
	if p := hx.Guard(func() {
		if cfg.stack == "tlcp" {
			cp = runTLCP(cfg)
		} else {
			cp = runDTLCP(cfg)
		}
	}); p != "" {
		return "", "panic=" + p
	}
	if !cp.ok {
		return "", "ok=0 err=" + strings.ReplaceAll(cp.err, " ", "_")
	}
	captured = fmt.Sprintf("master=%s smaster=%s pre=%s c2s=%s s2c=%s sentc=%s sents=%s crng=%s srng=%s",
		hx.Hex(cp.master), hx.Hex(cp.smast), hx.Hex(cp.pre), hx.Hex(cp.c2s), hx.Hex(cp.s2c), hx.Hex(cp.sentc), hx.Hex(cp.sents),
		hx.Hex(cp.crng), hx.Hex(cp.srng))
	obs = fmt.Sprintf("ok=1 resumed=%d cfin=%s sfin=%s", b01(cp.resumed), hx.Hex(cp.cfin), hx.Hex(cp.sfin))
	return
}

func executeHS(desc string) string {
	_, obs := executeHSFull(desc)
	return obs
}

// configPart strips captured tokens from a replayed case.
func configPart(desc string) string {
	if i := strings.Index(desc, " master="); i >= 0 {
		return desc[:i]
	}
	return desc
}

func hsCases(o hx.Opts, emit func(string)) {
	r := hx.NewRand(o.Seed + 77)
	reps := 1
	if o.Tier == "thorough" {
		reps = 27 // 27 x 24 configurations = 648 handshakes
	}
	reps *= o.Scale
	// a random source that returns short reads, CBC suites, many small records each way:
	// every explicit IV must be fresh bytes of the source and no IV may repeat under a key
	for rep := 0; rep < reps; rep++ {
		for _, st := range []string{"tlcp", "dtlcp"} {
			for _, id := range []uint16{0xe013, 0xe011} {
				emit(hsDesc(hsCfg{stack: st, suite: id, auth: isECDHE(id), nc: 90 + r.Intn(40), ns: 90 + r.Intn(40),
					seed: r.U64() >> 1, rshort: hx.Pick(r, []int{1, 1, 2, 5}), msz: 24}))
			}
		}
	}
	// ECDHE: agreed values that start with zero bytes. The standard takes the 48 bytes of the SM2
	// key agreement as the pre-master secret, as they are; about one real handshake in 256 has a
	// leading zero byte. `lead`: a real one (the client's module draws ephemeral keys until the
	// agreed value starts with 00, the server runs the library's agreement); `pin:`: both sides'
	// modules hand back the given value (k leading zero bytes for several k, all-zero, zero tail,
	// and a control without zeros).
	for rep := 0; rep < reps; rep++ {
		for _, st := range []string{"tlcp", "dtlcp"} {
			for _, id := range []uint16{0xe011, 0xe051} {
				base := hsCfg{stack: st, suite: id, auth: true, msz: 64}
				mk := func(ka string) {
					c := base
					c.nc, c.ns, c.seed, c.ka = 1+r.Intn(2), 1+r.Intn(2), r.U64()>>1, ka
					emit(hsDesc(c))
				}
				mk("lead")
				pin := func(zeros int, tailZeros int) string {
					z := r.Bytes(48)
					for i := range z {
						if z[i] == 0 {
							z[i] = 1
						}
						if i < zeros || i >= 48-tailZeros {
							z[i] = 0
						}
					}
					return "pin:" + hx.Hex(z)
				}
				mk(pin(1, 0))
				mk(pin(2+r.Intn(6), 0))
				mk(pin(hx.Pick(r, []int{16, 32, 47, 48}), 0))
				mk(pin(0, 1+r.Intn(8)))
			}
		}
	}
	for rep := 0; rep < reps; rep++ {
		for _, st := range []string{"tlcp", "dtlcp"} {
			for _, id := range suites {
				for _, resume := range []bool{false, true} {
					for _, auth := range []bool{false, true} {
						if isECDHE(id) && !auth {
							continue // GB/T 38636 6.4.5.8: ECDHE requires the client certificate
						}
						c := hsCfg{stack: st, suite: id, auth: auth, resume: resume, nc: 1 + r.Intn(6), ns: 1 + r.Intn(6), seed: r.U64() >> 1}
						if st == "dtlcp" {
							c.pmtu = hx.Pick(r, []int{0, 0, 576, 1400, 9000})
						}
						c.rshort = hx.Pick(r, []int{0, 0, 1, 3, 16})
						if isECDHE(id) {
							// who computes the SM2 key agreement: the library on both sides (the agreed
							// value is then not observable), or a module of the driver on one / both
							// sides, which records the value for the oracle
							c.ka = hx.Pick(r, []string{"lib", "cli", "srv", "both"})
						}
						emit(hsDesc(c))
					}
				}
			}
		}
	}
}

var _ = io.EOF

package main

// SM2 key agreement OUTSIDE the library (ECDHE suites).
//
// Both stacks let Certificate.PrivateKey of the encryption certificate implement their
// SM2KeyAgreement interface (the documented way to plug in a hardware key): the library then calls
// GenerateAgreementData / GenerateKey (server, sponsor) and GenerateAgreementDataAndKey (client,
// responder) on it and uses what comes back as the pre-master secret. kaKey is such a key. It
// computes the agreement itself (gmsm's SM2MQV + SM2SharedKey, never a line of gotlcp) and RECORDS
// the 48-byte agreed value Z, so that the Lean oracle can demand
//
//	master_secret = PRF(Z, "master secret", client_random + server_random)[0..47]
//
// for ECDHE handshakes as it does for ECC ones - the pre-master secret is obtained independently of
// the code under test.
//
// modes (token ka= of an op=hs case):
//
//	lib        no kaKey: both sides run the library's own sm2ke (Z is not observable)
//	cli | srv  that side carries a kaKey, the other runs the library's sm2ke: the library's
//	           agreement must arrive at the value computed outside of it
//	both       both sides carry a kaKey (they must agree; then Z is recorded)
//	lead       the client carries a kaKey that draws ephemeral keys until the REAL agreed value
//	           starts with a zero byte (expected 256 draws); the server runs the library's sm2ke.
//	           A genuine handshake of the 1-in-256 kind.
//	pin:<hex>  both sides carry a kaKey; real ephemeral points go on the wire, the value handed
//	           back is the given 48 bytes (several leading zero bytes, all-zero, zero tail: values a
//	           real agreement produces too rarely to wait for)

import (
	"crypto/rand"
	"errors"
	"strings"
	"sync"

	"github.com/emmansun/gmsm/ecdh"
	"github.com/emmansun/gmsm/sm2"
	"verifharness/internal/hx"
	"verifharness/internal/pki"
)

type kaKey struct {
	*sm2.PrivateKey // Public(), Sign, Decrypt: everything else the stacks may ask of the key
	prv             *ecdh.PrivateKey
	lead            int    // > 0: responder draws until Z has this many leading zero bytes
	pin             []byte // non-nil: hand back these bytes instead of the computed value

	mu     sync.Mutex
	ePrv   *ecdh.PrivateKey // sponsor state between GenerateAgreementData and GenerateKey
	keyLen int
	uid    []byte
	z      []byte // what the last agreement handed to the library
	draws  int
}

func newKAKey(l *pki.Leaf) *kaKey {
	k, ok := l.Key.(*sm2.PrivateKey)
	if !ok {
		panic("c04: encryption key is not SM2")
	}
	e, err := k.ECDH()
	if err != nil {
		panic(err)
	}
	return &kaKey{PrivateKey: k, prv: e}
}

func (k *kaKey) out(z []byte) []byte {
	if k.pin != nil {
		z = k.pin
	}
	k.z = append([]byte(nil), z...)
	return append([]byte(nil), z...)
}

// Z is the value the last agreement returned to the library.
func (k *kaKey) Z() []byte {
	if k == nil {
		return nil
	}
	k.mu.Lock()
	defer k.mu.Unlock()
	return append([]byte(nil), k.z...)
}

// GenerateAgreementData: sponsor (server) picks its ephemeral key (GB/T 36322 6.3.15).
func (k *kaKey) GenerateAgreementData(sponsorId []byte, keyLen int) (*ecdh.PublicKey, *ecdh.PublicKey, error) {
	k.mu.Lock()
	defer k.mu.Unlock()
	if keyLen <= 0 {
		return nil, nil, errors.New("kaKey: key length")
	}
	e, err := ecdh.P256().GenerateKey(rand.Reader)
	if err != nil {
		return nil, nil, err
	}
	k.ePrv, k.keyLen, k.uid = e, keyLen, sponsorId
	return k.prv.PublicKey(), e.PublicKey(), nil
}

// GenerateKey: sponsor (server) computes the agreed value (GB/T 36322 6.3.16).
func (k *kaKey) GenerateKey(responseId []byte, responsePubKey, responseTmpPubKey *ecdh.PublicKey) ([]byte, error) {
	k.mu.Lock()
	defer k.mu.Unlock()
	if k.ePrv == nil {
		return nil, errors.New("kaKey: GenerateKey before GenerateAgreementData")
	}
	uv, err := k.prv.SM2MQV(k.ePrv, responsePubKey, responseTmpPubKey)
	if err != nil {
		return nil, err
	}
	z, err := uv.SM2SharedKey(false, k.keyLen, k.prv.PublicKey(), responsePubKey, k.uid, responseId)
	if err != nil {
		return nil, err
	}
	return k.out(z), nil
}

func leadingZeros(b []byte) int {
	n := 0
	for n < len(b) && b[n] == 0 {
		n++
	}
	return n
}

// GenerateAgreementDataAndKey: responder (client) picks its ephemeral key and computes the agreed
// value (GB/T 36322 6.3.17).
func (k *kaKey) GenerateAgreementDataAndKey(responseId, sponsorId []byte, sponsorPubKey, sponsorTmpPubKey *ecdh.PublicKey, keyLen int) (*ecdh.PublicKey, []byte, error) {
	k.mu.Lock()
	defer k.mu.Unlock()
	for draw := 1; ; draw++ {
		e, err := ecdh.P256().GenerateKey(rand.Reader)
		if err != nil {
			return nil, nil, err
		}
		uv, err := k.prv.SM2MQV(e, sponsorPubKey, sponsorTmpPubKey)
		if err != nil {
			return nil, nil, err
		}
		z, err := uv.SM2SharedKey(true, keyLen, k.prv.PublicKey(), sponsorPubKey, responseId, sponsorId)
		if err != nil {
			return nil, nil, err
		}
		if leadingZeros(z) >= k.lead || draw >= 40000 {
			k.draws = draw
			return e.PublicKey(), k.out(z), nil
		}
	}
}

// kaSetup returns the keys to put into the client's and the server's encryption certificate
// (nil: leave the plain *sm2.PrivateKey, i.e. the library's own agreement).
func kaSetup(mode string) (cli, srv *kaKey) {
	s := pki.Std()
	switch {
	case mode == "cli":
		cli = newKAKey(s.CliEnc)
	case mode == "srv":
		srv = newKAKey(s.SrvEnc)
	case mode == "both":
		cli, srv = newKAKey(s.CliEnc), newKAKey(s.SrvEnc)
	case mode == "lead":
		cli = newKAKey(s.CliEnc)
		cli.lead = 1
	case strings.HasPrefix(mode, "pin:"):
		z := hx.UnHex(strings.TrimPrefix(mode, "pin:"))
		cli, srv = newKAKey(s.CliEnc), newKAKey(s.SrvEnc)
		cli.pin, srv.pin = z, z
	}
	return
}

// kaAgreed: the agreed value of a finished handshake as computed outside the library (nil when no
// side carried a kaKey), and whether two kaKeys disagreed (a defect of the driver / gmsm, not of
// the code under test).
func kaAgreed(cli, srv *kaKey) (z []byte, clash bool) {
	cz, sz := cli.Z(), srv.Z()
	switch {
	case cz != nil && sz != nil:
		return cz, string(cz) != string(sz)
	case cz != nil:
		return cz, false
	default:
		return sz, false
	}
}

package main

// Phase cw of C04: TWO PRODUCERS of protected records on one connection.
//
// The sequence number of a TLCP record is implicit: the n-th protected record of a direction ON THE
// WIRE is opened under number n.  A record is sealed under the connection's next number and then
// handed to the transport; when several goroutines produce records of one direction (Write and
// Write, Write and CloseWrite's close_notify, Write and an alert raised by the reading goroutine —
// all documented as safe for concurrent use), sealing and hand-over must stay ONE step, or a record
// sealed later can reach the wire first and nothing after it opens any more.
//
// After a real handshake and a few messages each way, the transport of one side is wrapped by a
// gate.  Once armed, the gate HOLDS the next transport write — the record of producer 1's message A,
// already sealed — inside the transport (a transport may block: TCP back-pressure) until either a
// second write arrives at the transport or `cwHold` passes; producer 2 (a second Write, CloseWrite,
// or the read path answering a record that does not authenticate with an alert) is started the
// moment A's record is held.  Everything is recorded in the order it is put on the wire.
//
// The standard's verdict is that of every other capture of this check (Oracle.C04HS.check): every
// protected record of each direction, in wire order, opens under that direction's key with the next
// sequence number (DTLCP: carries it), type, version and length authenticated.
//
// case    : op=cw stack suite side second npre seed          (configuration, re-executable)
//           master smaster pre c2s s2c sentc sents            (captured; the gated side in wire order)
// observed: ok=1 swapped=<1 if a second record reached the wire while the first was held in the transport>

import (
	"fmt"
	"net"
	"strings"
	"sync"
	"time"

	"gitee.com/Trisia/gotlcp/dtlcp"
	"gitee.com/Trisia/gotlcp/tlcp"
	"verifharness/internal/hx"
	"verifharness/internal/pair"
	"verifharness/internal/pki"
)

// cwHold: how long the first record is held in the transport waiting for a second one. With the
// record lock held across the hand-over no second one can come and the time simply passes.
const cwHold = 150 * time.Millisecond

type cwCfg struct {
	stack, side, second string
	suite               uint16
	pre                 int
	seed                uint64
}

func cwDesc(c cwCfg) string {
	return fmt.Sprintf("op=cw stack=%s suite=%d side=%s second=%s npre=%d seed=%d", c.stack, c.suite, c.side, c.second, c.pre, c.seed)
}

type gateState struct {
	mu      sync.Mutex
	armed   bool
	holding bool
	held    chan struct{} // closed when the first write is being held
	arrived chan struct{} // a second write went through while the first was held
	wire    [][]byte      // every write, in the order it was put on the wire
	swapped bool
}

func newGate() *gateState {
	return &gateState{held: make(chan struct{}), arrived: make(chan struct{}, 4)}
}

func (g *gateState) arm() { g.mu.Lock(); g.armed = true; g.mu.Unlock() }

func (g *gateState) write(p []byte, through func([]byte) (int, error)) (int, error) {
	g.mu.Lock()
	if g.armed {
		g.armed, g.holding = false, true
		g.mu.Unlock()
		close(g.held)
		select {
		case <-g.arrived:
		case <-time.After(cwHold):
		}
		g.mu.Lock()
		g.holding = false
		g.wire = append(g.wire, append([]byte(nil), p...))
		n, err := through(p)
		g.mu.Unlock()
		return n, err
	}
	second := g.holding
	g.wire = append(g.wire, append([]byte(nil), p...))
	n, err := through(p)
	if second {
		g.swapped = true
	}
	g.mu.Unlock()
	if second {
		select {
		case g.arrived <- struct{}{}:
		default:
		}
	}
	return n, err
}

func (g *gateState) snapshot() (all []byte, swapped bool) {
	g.mu.Lock()
	defer g.mu.Unlock()
	for _, w := range g.wire {
		all = append(all, w...)
	}
	return all, g.swapped
}

type gateStream struct {
	*pair.StreamEnd
	g *gateState
}

func (c *gateStream) Write(p []byte) (int, error) { return c.g.write(p, c.StreamEnd.Write) }

type gatePacket struct {
	*pair.PacketEnd
	g *gateState
}

func (c *gatePacket) WriteTo(p []byte, a net.Addr) (int, error) {
	return c.g.write(p, func(b []byte) (int, error) { return c.PacketEnd.WriteTo(b, a) })
}

type cwOut struct {
	cp      capture
	swapped bool
}

// cwSecond: what producer 2 does (it starts when A's record is held in the transport); returns
// the application bytes it wrote
func cwSecond(cfg cwCfg, f closeWriter, msgB []byte, provoke func()) []byte {
	switch cfg.second {
	case "write":
		if _, err := f.Write(msgB); err == nil {
			return msgB
		}
	case "closewrite":
		f.CloseWrite()
	case "alert":
		provoke()
		f.SetReadDeadline(time.Now().Add(2 * time.Second))
		buf := make([]byte, 4096)
		for i := 0; i < 4; i++ {
			if _, err := f.Read(buf); err != nil {
				break
			}
		}
	}
	return nil
}

// cwProduce runs the two producers and returns the application bytes that were written, A first
func cwProduce(cfg cwCfg, g *gateState, f closeWriter, rnd *hx.Rand, provoke func()) []byte {
	msgA := append([]byte{'A'}, rnd.Bytes(1+rnd.Intn(300))...)
	msgB := append([]byte{'B'}, rnd.Bytes(1+rnd.Intn(300))...)
	g.arm()
	var wg sync.WaitGroup
	var wroteA bool
	var wroteB []byte
	wg.Add(2)
	go func() {
		defer wg.Done()
		_, err := f.Write(msgA)
		wroteA = err == nil
	}()
	go func() {
		defer wg.Done()
		select {
		case <-g.held:
		case <-time.After(5 * time.Second):
			return
		}
		wroteB = cwSecond(cfg, f, msgB, provoke)
	}()
	wg.Wait()
	var out []byte
	if wroteA {
		out = append(out, msgA...)
	}
	return append(out, wroteB...)
}

func runCWTLCP(cfg cwCfg) (o cwOut, err string) {
	s := pki.Std()
	cc := &tCache{inner: tlcp.NewLRUSessionCache(8)}
	sc := &tCache{inner: tlcp.NewLRUSessionCache(8)}
	ccfg := &tlcp.Config{RootCAs: s.Root.Pool, ServerName: "test.example", Time: pki.NowFn, CipherSuites: []uint16{cfg.suite}, SessionCache: cc}
	scfg := &tlcp.Config{Certificates: []tlcp.Certificate{pair.TCert(s.SrvSig), pair.TCert(s.SrvEnc)}, Time: pki.NowFn,
		CipherSuites: []uint16{cfg.suite}, SessionCache: sc}
	ce, se := pair.StreamPipe()
	g := newGate()
	var cconn, sconn net.Conn = ce, se
	if cfg.side == "client" {
		cconn = &gateStream{ce, g}
	} else {
		sconn = &gateStream{se, g}
	}
	c, sv := tlcp.Client(cconn, ccfg), tlcp.Server(sconn, scfg)
	defer func() { ce.Close(); se.Close() }()
	if e1, e2, to := hsBoth(c.Handshake, sv.Handshake, func() { ce.Close(); se.Close() }); e1 != nil || e2 != nil || to {
		return o, fmt.Sprintf("handshake:%v/%v", e1, e2)
	}
	rnd := hx.NewRand(cfg.seed)
	cm, call := genMsgs(rnd, cfg.pre, 600)
	sm, sall := genMsgs(rnd, cfg.pre, 600)
	if e := exchange(c, sv, cm, sm, len(call), len(sall)); e != nil {
		return o, "data:" + e.Error()
	}
	f, p, pEnd := c, sv, se
	if cfg.side == "server" {
		f, p, pEnd = sv, c, ce
	}
	wrote := cwProduce(cfg, g, f, rnd, func() {
		// a record that does not authenticate: the read path answers with a fatal alert
		pEnd.Inject(append([]byte{23, 1, 1, 0, 48}, rnd.Bytes(48)...))
	})
	f.Close()
	p.Close()
	all, swapped := g.snapshot()
	o.swapped = swapped
	if cfg.side == "client" {
		o.cp.c2s, o.cp.s2c = all, se.SentBytes()
		call = append(call, wrote...)
	} else {
		o.cp.c2s, o.cp.s2c = ce.SentBytes(), all
		sall = append(sall, wrote...)
	}
	o.cp.master, o.cp.smast = cc.master, sc.master
	o.cp.sentc, o.cp.sents = call, sall
	return o, ""
}

func runCWDTLCP(cfg cwCfg) (o cwOut, err string) {
	cc := &dCache{inner: dtlcp.NewLRUSessionCache(8)}
	sc := &dCache{inner: dtlcp.NewLRUSessionCache(8)}
	ccfg, scfg := pair.DClient(), pair.DServer()
	ccfg.CipherSuites, scfg.CipherSuites = []uint16{cfg.suite}, []uint16{cfg.suite}
	ccfg.SessionCache, scfg.SessionCache = cc, sc
	ccfg.InitialRetransmitTimeout, scfg.InitialRetransmitTimeout = 6*time.Second, 6*time.Second
	ce, se := pair.PacketPipe()
	g := newGate()
	var cconn, sconn net.PacketConn = ce, se
	if cfg.side == "client" {
		cconn = &gatePacket{ce, g}
	} else {
		sconn = &gatePacket{se, g}
	}
	c, sv := dtlcp.Client(cconn, se.LocalAddr(), ccfg), dtlcp.Server(sconn, ce.LocalAddr(), scfg)
	defer func() { ce.Close(); se.Close() }()
	if e1, e2, to := hsBoth(c.Handshake, sv.Handshake, func() { ce.Close(); se.Close() }); e1 != nil || e2 != nil || to {
		return o, fmt.Sprintf("handshake:%v/%v", e1, e2)
	}
	rnd := hx.NewRand(cfg.seed)
	cm, call := genMsgs(rnd, cfg.pre, 600)
	sm, sall := genMsgs(rnd, cfg.pre, 600)
	if e := exchange(c, sv, cm, sm, len(call), len(sall)); e != nil {
		return o, "data:" + e.Error()
	}
	f, p := c, sv
	if cfg.side == "server" {
		f, p = sv, c
	}
	wire := func(e *pair.PacketEnd) (w []byte) {
		for _, d := range e.SentCopy() {
			w = append(w, d...)
		}
		return
	}
	wrote := cwProduce(cfg, g, f, rnd, func() {})
	f.Close()
	p.Close()
	all, swapped := g.snapshot()
	o.swapped = swapped
	if cfg.side == "client" {
		o.cp.c2s, o.cp.s2c = all, wire(se)
		call = append(call, wrote...)
	} else {
		o.cp.c2s, o.cp.s2c = wire(ce), all
		sall = append(sall, wrote...)
	}
	o.cp.master, o.cp.smast = cc.master, sc.master
	o.cp.sentc, o.cp.sents = call, sall
	return o, ""
}

func executeCWFull(desc string) (captured, obs string) {
	cfg := cwCfg{stack: "tlcp", side: "client"}
	if v, _ := hx.KV(desc, "stack"); v == "dtlcp" {
		cfg.stack = "dtlcp"
	}
	if v, _ := hx.KV(desc, "side"); v == "server" {
		cfg.side = "server"
	}
	cfg.second, _ = hx.KV(desc, "second")
	cfg.suite = uint16(kvU64(desc, "suite"))
	cfg.pre = int(kvU64(desc, "npre"))
	cfg.seed = kvU64(desc, "seed")
	var o cwOut
	var e string
	if p := hx.Guard(func() {
		if cfg.stack == "tlcp" {
			o, e = runCWTLCP(cfg)
		} else {
			o, e = runCWDTLCP(cfg)
		}
	}); p != "" {
		return "", "panic=" + p
	}
	if e != "" {
		return "", "setup=" + strings.ReplaceAll(e, " ", "_")
	}
	captured = fmt.Sprintf("master=%s smaster=%s pre=- c2s=%s s2c=%s sentc=%s sents=%s",
		hx.Hex(o.cp.master), hx.Hex(o.cp.smast), hx.Hex(o.cp.c2s), hx.Hex(o.cp.s2c), hx.Hex(o.cp.sentc), hx.Hex(o.cp.sents))
	return captured, fmt.Sprintf("ok=1 swapped=%d", b01(o.swapped))
}

// cwCases: the whole product every pass; the cases of a pass run side by side (each spends cwHold
// waiting for a second record that, with the lock held across the hand-over, cannot come).
func cwCases(o hx.Opts, emitLine func(desc, captured, obs string)) {
	r := hx.NewRand(o.Seed + 171)
	reps := 1
	if o.Tier == "thorough" {
		reps = 12
	}
	reps *= o.Scale
	for rep := 0; rep < reps; rep++ {
		var cases []cwCfg
		for _, st := range []string{"tlcp", "dtlcp"} {
			seconds := []string{"write", "closewrite", "alert"}
			if st == "dtlcp" {
				seconds = []string{"write", "closewrite"}
			}
			for _, id := range []uint16{0xe053, 0xe013} {
				for _, side := range []string{"client", "server"} {
					for _, sec := range seconds {
						cases = append(cases, cwCfg{stack: st, suite: id, side: side, second: sec, pre: r.Intn(4), seed: r.U64() >> 1})
					}
				}
			}
		}
		caps, obss := make([]string, len(cases)), make([]string, len(cases))
		var wg sync.WaitGroup
		sem := make(chan struct{}, 10)
		for i := range cases {
			wg.Add(1)
			sem <- struct{}{}
			go func(i int) {
				defer wg.Done()
				defer func() { <-sem }()
				caps[i], obss[i] = executeCWFull(cwDesc(cases[i]))
			}(i)
		}
		wg.Wait()
		for i := range cases {
			emitLine(cwDesc(cases[i]), caps[i], obss[i])
		}
	}
}

// Driver for C06: runs the real TLCP record layer as a byte stream and writes
// `case => observed` lines for the Lean oracle (model + spec).
//
//   - phase mps: maxPayloadSizeForWrite called directly on a hooked Conn (all counters).
//   - phase loop: two hooked Conns with matching dummy keys (no handshake): the sender's real
//     Write/CloseWrite produce the wire; the wire is re-chunked and fed to the receiver's real
//     Read with cycling buffer sizes.
//   - phase e2e: a real connection over an in-memory pipe for each of the four suites (full
//     handshake or resumed session, client or server writing), then the same experiment
//     through it (re-segmenting transport); with gate=1 the writer's last handshake flight is
//     delivered together with its application records, so that the reader's handshake ends on
//     transport reads that also carry application data.
//
// Transport modes of the loop and e2e phases (optional tokens, omitted when 0):
//
//   - eof=1: the reader's transport reports end-of-stream TOGETHER with its last chunk (n > 0
//     and io.EOF from one Read, which io.Reader allows) instead of by a separate empty Read.
//   - last=<n>: the last chunk is the final n bytes of the stream; what comes before is cut by seg.
//   - hc=1 w2=.. seg2=.. bufs2=..: half-close. The first writer calls CloseWrite after its writes
//     and keeps reading; the peer reads to end-of-stream, writes w2 and closes; the half-closed
//     side reads the response. eof/last then describe the response's transport.
//
//   - to=<k1>,<k2>,..: read time-outs (not together with last/hc/gate=1). The reader's transport stalls after
//     k1, k2, .. bytes of the stream (increasing offsets, anywhere: inside a record header, inside a body
//     after one or more segments, between records): the transport Read that finds nothing returns a
//     time-out (a temporary net.Error, what a blocked Read returns when the read deadline fires); the
//     reader then extends its read deadline, the rest arrives and it goes on reading. The bytes
//     before and after every stall are cut by seg (the cycle restarts after a stall).
//
// The transports keep deadlines the way a net.Conn does: a Read (Write) whose deadline has passed
// fails with os.ErrDeadlineExceeded whether or not bytes are available.
package main

import (
	"errors"
	"fmt"
	"io"
	"net"
	"os"
	"strconv"
	"strings"
	"sync"
	"time"

	"gitee.com/Trisia/gotlcp/tlcp"
	"verifharness/internal/hx"
	"verifharness/internal/pair"
	"verifharness/internal/pki"
)

// ---------------------------------------------------------------------------
// transports

// mem is the transport of a hooked Conn (loop phase): it records what is written, hands out one
// prepared chunk per Read, and keeps deadlines like a net.Conn.
type mem struct {
	writes   [][]byte
	chunks   [][]byte
	ended    bool // the peer has closed: end-of-stream after the chunks (otherwise a Read would block)
	eofLast  bool // end-of-stream is reported together with the last chunk
	// later: what arrives after each stall of the transport. With chunks used up and later non-empty a Read
	// finds nothing and the reader's deadline fires (time-out); the next segment arrives once the reader
	// has extended its read deadline
	later    [][][]byte
	rdl, wdl time.Time
}

var errWouldBlock = errors.New("transport read would block: nothing more was sent")

func expired(t time.Time) bool { return !t.IsZero() && !time.Now().Before(t) }

func (m *mem) Close() error                       { return nil }
func (m *mem) LocalAddr() net.Addr                { return &net.TCPAddr{} }
func (m *mem) RemoteAddr() net.Addr               { return &net.TCPAddr{} }
func (m *mem) SetDeadline(t time.Time) error      { m.rdl, m.wdl = t, t; return nil }
func (m *mem) SetReadDeadline(t time.Time) error {
	m.rdl = t
	if len(m.chunks) == 0 && len(m.later) > 0 && !expired(t) {
		m.chunks, m.later = m.later[0], m.later[1:]
	}
	return nil
}
func (m *mem) SetWriteDeadline(t time.Time) error { m.wdl = t; return nil }

func (m *mem) Read(p []byte) (int, error) {
	if expired(m.rdl) {
		return 0, os.ErrDeadlineExceeded
	}
	if len(p) == 0 {
		return 0, nil
	}
	if len(m.chunks) == 0 && len(m.later) > 0 {
		// nothing more for now: the Read blocks until the reader's deadline fires
		return 0, os.ErrDeadlineExceeded
	}
	if len(m.chunks) == 0 {
		if m.ended {
			return 0, io.EOF
		}
		return 0, errWouldBlock
	}
	n := copy(p, m.chunks[0])
	if n == len(m.chunks[0]) {
		m.chunks = m.chunks[1:]
	} else {
		m.chunks[0] = m.chunks[0][n:]
	}
	if len(m.chunks) == 0 && len(m.later) == 0 && m.ended && m.eofLast {
		return n, io.EOF
	}
	return n, nil
}

func (m *mem) Write(p []byte) (int, error) {
	if expired(m.wdl) {
		return 0, os.ErrDeadlineExceeded
	}
	m.writes = append(m.writes, append([]byte(nil), p...))
	return len(p), nil
}

func (m *mem) all() []byte {
	var out []byte
	for _, w := range m.writes {
		out = append(out, w...)
	}
	return out
}

// tconn is the transport of a real connection (e2e phase): a pair.StreamEnd that keeps deadlines
// like a net.Conn and, once armed, cuts what it delivers by seg/last and can report end-of-stream
// together with the last chunk. All bytes of the armed stream are queued before the first armed Read.
type tconn struct {
	*pair.StreamEnd
	mu        sync.Mutex
	rdl, wdl  time.Time
	armed     bool
	seg       []int
	i         int
	remaining int // bytes of the armed stream not yet delivered
	last      int
	eofLast   bool
	total     int   // length of the armed stream
	stalls    []int // offsets of the armed stream after which the transport stalls (increasing)
	stalled   bool  // a Read has timed out at stalls[0]; cleared when the reader extends its deadline
}

func wrap(e *pair.StreamEnd) *tconn {
	t := &tconn{StreamEnd: e}
	e.MaxRead = t.next
	return t
}

func (t *tconn) arm(seg []int, total, last int, eofLast bool) {
	if len(seg) == 0 {
		seg = []int{512}
	}
	t.mu.Lock()
	t.armed, t.seg, t.i, t.remaining, t.last, t.eofLast = true, seg, 0, total, last, eofLast
	t.total, t.stalls, t.stalled = total, nil, false
	t.mu.Unlock()
}

func (t *tconn) setStalls(offs []int) {
	t.mu.Lock()
	t.stalls = append([]int(nil), offs...)
	t.mu.Unlock()
}

// resume: the reader has extended its deadline after a time-out; the bytes behind the stall arrive
func (t *tconn) resume(d time.Time) {
	if t.stalled && !expired(d) {
		t.stalled = false
		t.stalls = t.stalls[1:]
		t.i = 0
	}
}

// next is the StreamEnd's MaxRead: the size of the chunk the coming Read returns
func (t *tconn) next(avail int) int {
	t.mu.Lock()
	defer t.mu.Unlock()
	if !t.armed {
		return avail
	}
	if t.last > 0 && t.remaining <= t.last {
		return t.remaining
	}
	v := t.seg[t.i%len(t.seg)]
	t.i++
	if t.last > 0 && v > t.remaining-t.last {
		v = t.remaining - t.last
	}
	if len(t.stalls) > 0 {
		if room := t.stalls[0] - (t.total - t.remaining); v > room {
			v = room
		}
	}
	return v
}

func (t *tconn) Read(p []byte) (int, error) {
	t.mu.Lock()
	rdl := t.rdl
	t.mu.Unlock()
	if expired(rdl) {
		return 0, os.ErrDeadlineExceeded
	}
	t.mu.Lock()
	if t.armed && len(t.stalls) > 0 && t.total-t.remaining >= t.stalls[0] {
		// nothing more for now: the Read blocks until the reader's deadline fires
		t.stalled = true
		t.mu.Unlock()
		return 0, os.ErrDeadlineExceeded
	}
	t.mu.Unlock()
	n, err := t.StreamEnd.Read(p)
	t.mu.Lock()
	if t.armed && n > 0 {
		t.remaining -= n
		if t.eofLast && t.remaining == 0 && err == nil {
			err = io.EOF
		}
	}
	t.mu.Unlock()
	return n, err
}

func (t *tconn) Write(p []byte) (int, error) {
	t.mu.Lock()
	wdl := t.wdl
	t.mu.Unlock()
	if expired(wdl) {
		return 0, os.ErrDeadlineExceeded
	}
	return t.StreamEnd.Write(p)
}

func (t *tconn) SetDeadline(d time.Time) error {
	t.mu.Lock()
	t.rdl, t.wdl = d, d
	t.resume(d)
	t.mu.Unlock()
	return t.StreamEnd.SetReadDeadline(d)
}

func (t *tconn) SetReadDeadline(d time.Time) error {
	t.mu.Lock()
	t.rdl = d
	t.resume(d)
	t.mu.Unlock()
	return t.StreamEnd.SetReadDeadline(d)
}

func (t *tconn) SetWriteDeadline(d time.Time) error {
	t.mu.Lock()
	t.wdl = d
	t.mu.Unlock()
	return nil
}

func chunkBy(pat []int, w []byte) [][]byte {
	ok := len(pat) > 0
	for _, p := range pat {
		if p <= 0 {
			ok = false
		}
	}
	if !ok {
		pat = []int{512}
	}
	var out [][]byte
	for i := 0; len(w) > 0; i++ {
		n := pat[i%len(pat)]
		if n > len(w) {
			n = len(w)
		}
		out = append(out, w[:n])
		w = w[n:]
	}
	return out
}

// chunksOf: seg cycled; with last > 0 the final `last` bytes form the last chunk
func chunksOf(pat []int, last int, w []byte) [][]byte {
	if last <= 0 || len(w) == 0 {
		return chunkBy(pat, w)
	}
	if last > len(w) {
		last = len(w)
	}
	k := len(w) - last
	return append(chunkBy(pat, w[:k]), w[k:])
}

// stallSegments cuts w at the (increasing) offsets offs and chunks every piece by pat; offsets outside
// 1..len(w)-1 or out of order are ignored, as the oracle does
func stallOffsets(offs []int, n int) []int {
	var out []int
	prev := 0
	for _, k := range offs {
		if k > prev && k < n {
			out = append(out, k)
			prev = k
		}
	}
	return out
}

func stallSegments(pat []int, offs []int, w []byte) [][][]byte {
	var out [][][]byte
	prev := 0
	for _, k := range stallOffsets(offs, len(w)) {
		out = append(out, chunkBy(pat, w[prev:k]))
		prev = k
	}
	return append(out, chunkBy(pat, w[prev:]))
}

// ---------------------------------------------------------------------------

func pattern(seed, j, n int) []byte {
	b := make([]byte, n)
	for i := range b {
		b[i] = byte(i*131 + j*17 + seed)
	}
	return b
}

func parseInts(s string) []int {
	if s == "-" || s == "" {
		return nil
	}
	var out []int
	for _, t := range strings.Split(s, ",") {
		v, _ := strconv.Atoi(t)
		out = append(out, v)
	}
	return out
}

func showInts(v []int) string {
	if len(v) == 0 {
		return "-"
	}
	ss := make([]string, len(v))
	for i, x := range v {
		ss[i] = strconv.Itoa(x)
	}
	return strings.Join(ss, ",")
}

func kindNum(k string) int {
	switch k {
	case "gcm":
		return 1
	case "cbc":
		return 2
	}
	return 0
}

func endClass(err error) string {
	switch {
	case err == nil:
		return "ok"
	case err == io.EOF:
		return "eof"
	case errors.Is(err, os.ErrDeadlineExceeded):
		// a time-out: the reader extends its deadline and reads on
		return "to"
	}
	return "other"
}

// header lengths of the records in a wire image
func recordLens(wire []byte) []int {
	var out []int
	for len(wire) >= 5 {
		n := int(wire[3])<<8 | int(wire[4])
		out = append(out, n)
		if 5+n > len(wire) {
			break
		}
		wire = wire[5+n:]
	}
	return out
}

// readLoop cycles through bufs until the first error, then reads once more
// With stalls (the case has a to= token) a time-out is reported as such ("to") and the reader extends its
// read deadline and reads on; without, a time-out is an error like any other (no transport of such a case
// ever stalls).
func readLoop(c net.Conn, bufs []int, total int, stalls ...bool) (string, []byte) {
	if len(bufs) == 0 {
		bufs = []int{1024}
	}
	var rd []string
	var data []byte
	extra := false
	for i, left := 0, 4*total+20; left > 0; i, left = i+1, left-1 {
		b := make([]byte, bufs[i%len(bufs)])
		n, err := c.Read(b)
		data = append(data, b[:n]...)
		cls := endClass(err)
		if cls == "to" && len(stalls) == 0 {
			cls = "other"
		}
		rd = append(rd, strconv.Itoa(n)+"/"+cls)
		if cls == "to" {
			// a time-out is not an error of the stream: extend the deadline and go on
			c.SetReadDeadline(time.Now().Add(time.Hour))
			continue
		}
		if err != nil {
			if extra {
				break
			}
			extra = true
		}
	}
	if len(rd) == 0 {
		return "-", data
	}
	return strings.Join(rd, ","), data
}

func execMps(desc string) string {
	kind, _ := hx.KV(desc, "kind")
	c := tlcp.VerifStreamConn(&mem{}, kindNum(kind), hx.KVInt(desc, "dyn") == 0)
	tlcp.VerifSetTxCounters(c, int64(hx.KVInt(desc, "bs")), int64(hx.KVInt(desc, "ps")))
	var out []int
	for i := hx.KVInt(desc, "k"); i > 0; i-- {
		out = append(out, tlcp.VerifMaxPayload(c, hx.KVInt(desc, "app") == 1))
	}
	_, ps := tlcp.VerifTxCounters(c)
	return fmt.Sprintf("mp=%s ps=%d", showInts(out), ps)
}

// plainLens: plaintext length of every record of a wire image: a receiver with a buffer no record can fill
func plainLens(wire []byte, k int) []int {
	var pl []int
	tap := tlcp.VerifStreamConn(&mem{chunks: chunkBy(nil, wire), ended: true}, k, true)
	for i := 0; i < len(wire)/5+2; i++ {
		b := make([]byte, 1<<16)
		n, err := tap.Read(b)
		if n > 0 {
			pl = append(pl, n)
		}
		if err != nil {
			break
		}
	}
	return pl
}

func writeAll(c *tlcp.Conn, seed int, sizes []int) (ns []int, total int) {
	for j, n := range sizes {
		m, err := c.Write(pattern(seed, j, n))
		if err != nil {
			m = -1 - m
		}
		ns = append(ns, m)
		total += n
	}
	return
}

func execLoop(desc string) string {
	kind, _ := hx.KV(desc, "kind")
	k := kindNum(kind)
	dynOff := hx.KVInt(desc, "dyn") == 0
	sizesS, _ := hx.KV(desc, "w")
	segS, _ := hx.KV(desc, "seg")
	bufS, _ := hx.KV(desc, "bufs")
	seed := hx.KVInt(desc, "seed")
	eofLast := hx.KVInt(desc, "eof") == 1
	last := hx.KVInt(desc, "last")
	hc := hx.KVInt(desc, "hc") == 1
	ta := &mem{}
	snd := tlcp.VerifStreamConn(ta, k, dynOff)
	tlcp.VerifSetTxCounters(snd, int64(hx.KVInt(desc, "bs")), int64(hx.KVInt(desc, "ps")))
	ns, total := writeAll(snd, seed, parseInts(sizesS))
	if hx.KVInt(desc, "close") == 1 || hc {
		snd.CloseWrite()
	}
	wire := ta.all()
	pl := plainLens(wire, k)
	if !hc {
		tb := &mem{chunks: chunksOf(parseInts(segS), last, wire), ended: true, eofLast: eofLast}
		if toS, ok := hx.KV(desc, "to"); ok {
			segs := stallSegments(parseInts(segS), parseInts(toS), wire)
			tb.chunks, tb.later = segs[0], segs[1:]
		}
		rcv := tlcp.VerifStreamConn(tb, k, true)
		var st []bool
		if len(tb.later) > 0 {
			st = []bool{true}
		}
		rd, data := readLoop(rcv, parseInts(bufS), total, st...)
		return fmt.Sprintf("n=%s recs=%s pl=%s reads=%s data=%s", showInts(ns), showInts(recordLens(wire)), showInts(pl), rd, hx.Hex(data))
	}
	// half-close: the peer reads the request to end-of-stream (its transport has not ended), answers and
	// closes; the first writer, whose write side is shut down, reads the response
	seg2S, ok := hx.KV(desc, "seg2")
	if !ok {
		seg2S = segS
	}
	buf2S, ok := hx.KV(desc, "bufs2")
	if !ok {
		buf2S = bufS
	}
	w2S, _ := hx.KV(desc, "w2")
	tb := &mem{chunks: chunkBy(parseInts(segS), wire)}
	peer := tlcp.VerifStreamConn(tb, k, dynOff)
	rd, data := readLoop(peer, parseInts(bufS), total)
	ns2, total2 := writeAll(peer, seed+1, parseInts(w2S))
	peer.Close()
	wire2 := tb.all()
	pl2 := plainLens(wire2, k)
	ta.chunks, ta.ended, ta.eofLast = chunksOf(parseInts(seg2S), last, wire2), true, eofLast
	rd2, data2 := readLoop(snd, parseInts(buf2S), total2)
	return fmt.Sprintf("n=%s recs=%s pl=%s reads=%s data=%s n2=%s recs2=%s pl2=%s reads2=%s data2=%s",
		showInts(ns), showInts(recordLens(wire)), showInts(pl), rd, hx.Hex(data),
		showInts(ns2), showInts(recordLens(wire2)), showInts(pl2), rd2, hx.Hex(data2))
}

var suites = map[string]uint16{
	"ecc-gcm": tlcp.ECC_SM4_GCM_SM3, "ecc-cbc": tlcp.ECC_SM4_CBC_SM3,
	"ecdhe-gcm": tlcp.ECDHE_SM4_GCM_SM3, "ecdhe-cbc": tlcp.ECDHE_SM4_CBC_SM3,
}

// hsTimeout bounds every wait of an e2e case (a handshake or a read that can no longer make
// progress is an observation, not a hang of the driver).
const hsTimeout = 20 * time.Second

// execE2E runs one real connection and then the stream experiment through it.
//
//	res=0|1   full handshake / resumed session (a first connection fills both session caches)
//	dir=c2s|s2c  who writes the application data (the other side reads)
//	gate=0|1  0: the writer starts after both handshakes have returned.
//	          1: the writer's last handshake flight (ChangeCipherSpec + Finished) is kept back
//	             by the transport and delivered together with the application records (and the
//	             close-notify) that follow it, as one byte stream cut by `seg`: the reader's
//	             handshake and its Reads work on the same transport reads. Only possible when
//	             the writer sends the last flight: the server of a full handshake, the client
//	             of a resumed one.
func execE2E(desc string) string {
	suite, _ := hx.KV(desc, "suite")
	sizesS, _ := hx.KV(desc, "w")
	segS, _ := hx.KV(desc, "seg")
	bufS, _ := hx.KV(desc, "bufs")
	dir, _ := hx.KV(desc, "dir")
	sizes := parseInts(sizesS)
	seed := hx.KVInt(desc, "seed")
	resumed := hx.KVInt(desc, "res") == 1
	gated := hx.KVInt(desc, "gate") == 1
	s2c := dir == "s2c"
	std := pki.Std()
	ccfg, scfg := pair.TClient(), pair.TServer()
	ccfg.CipherSuites = []uint16{suites[suite]}
	ccfg.DynamicRecordSizingDisabled = hx.KVInt(desc, "dyn") == 0
	scfg.DynamicRecordSizingDisabled = ccfg.DynamicRecordSizingDisabled
	ccfg.Certificates = []tlcp.Certificate{pair.TCert(std.CliSig), pair.TCert(std.CliEnc)}
	scfg.ClientAuth = tlcp.RequireAndVerifyClientCert
	scfg.ClientCAs = std.Root.Pool
	if resumed {
		ccfg.SessionCache = tlcp.NewLRUSessionCache(4)
		scfg.SessionCache = tlcp.NewLRUSessionCache(4)
		c0, s0, ce0, se0, r0 := pair.TLCP(ccfg, scfg, nil)
		if !r0.OK() {
			return "handshake=first:" + strings.ReplaceAll(r0.String(), " ", "_")
		}
		c0.Close()
		s0.Close()
		ce0.Close()
		se0.Close()
	}
	ce, se := pair.StreamPipe()
	defer ce.Close()
	defer se.Close()
	ct, st := wrap(ce), wrap(se)
	c, s := tlcp.Client(ct, ccfg), tlcp.Server(st, scfg)
	w, r, we, re, wt, rt := c, s, ce, se, ct, st
	if s2c {
		w, r, we, re, wt, rt = s, c, se, ce, st, ct
	}
	eofLast := hx.KVInt(desc, "eof") == 1
	last := hx.KVInt(desc, "last")
	hc := hx.KVInt(desc, "hc") == 1 && !gated
	// the writer's transport: from its ChangeCipherSpec on, everything is kept back
	var held []byte
	holding := false
	if gated {
		we.OnWrite = func(d []byte) [][]byte {
			if holding || (len(d) > 0 && d[0] == 20) {
				holding = true
				held = append(held, d...)
				return nil
			}
			return [][]byte{d}
		}
	}
	// the reader's transport: once armed, one Read returns the next chunk of `seg`
	seg := parseInts(segS)
	watchdog := time.AfterFunc(hsTimeout, func() { ce.Close(); se.Close() })
	defer watchdog.Stop()
	rdone := make(chan error, 1)
	go func() { rdone <- r.Handshake() }()
	werr := w.Handshake()
	var rerr error
	if !gated {
		rerr = <-rdone
	}
	if werr != nil || rerr != nil {
		return "handshake=" + strings.ReplaceAll(pair.Result{CErr: werr, SErr: rerr}.String(), " ", "_")
	}
	if w.ConnectionState().DidResume != resumed {
		return fmt.Sprintf("handshake=resumed:%v", w.ConnectionState().DidResume)
	}
	pre := recordLens(held)
	bs0, ps0 := tlcp.VerifTxCounters(w)
	before := len(we.Sent)
	ns, total := writeAll(w, seed, sizes)
	closing := hx.KVInt(desc, "close") == 1 || hc
	if closing && (gated || hc) {
		// gate: the close-notify joins the kept-back bytes; the transport ends after they are delivered
		// half-close: only the write direction is shut down
		w.CloseWrite()
	} else if closing {
		w.Close()
	}
	sentSince := func(e *pair.StreamEnd, from int) (recs []int, bytes int) {
		for _, wr := range e.Sent[from:] {
			recs = append(recs, recordLens(wr)...)
			bytes += len(wr)
		}
		return
	}
	recs, sent := sentSince(we, before)
	if gated {
		sent = len(held)
	}
	if hc {
		// the request's transport does not end
		rt.arm(seg, sent, 0, false)
	} else {
		rt.arm(seg, sent, last, eofLast)
		if toS, ok := hx.KV(desc, "to"); ok && !gated {
			rt.setStalls(stallOffsets(parseInts(toS), sent))
		}
	}
	if gated {
		we.Inject(held)
	}
	if (!closing || gated) && !hc {
		we.CloseWriteRaw()
	}
	hs := "-"
	if gated {
		// the reader's handshake ends on the transport reads that also carry application data
		hs = endClass(<-rdone)
	}
	var stl []bool
	if _, ok := hx.KV(desc, "to"); ok && !gated && !hc {
		stl = []bool{true}
	}
	rd, data := readLoop(r, parseInts(bufS), total, stl...)
	out := fmt.Sprintf("bs0=%d ps0=%d pre=%s hs=%s n=%s recs=%s pl=? reads=%s data=%s", bs0, ps0, showInts(pre), hs, showInts(ns), showInts(recs), rd, hx.Hex(data))
	if !hc {
		return out
	}
	// half-close: the peer has read the request to end-of-stream; it answers and closes, and the side whose
	// write direction is shut down reads the response
	seg2S, ok := hx.KV(desc, "seg2")
	if !ok {
		seg2S = segS
	}
	buf2S, ok := hx.KV(desc, "bufs2")
	if !ok {
		buf2S = bufS
	}
	w2S, _ := hx.KV(desc, "w2")
	bs2, ps2 := tlcp.VerifTxCounters(r)
	before2 := len(re.Sent)
	ns2, total2 := writeAll(r, seed+1, parseInts(w2S))
	r.Close()
	recs2, sent2 := sentSince(re, before2)
	wt.arm(parseInts(seg2S), sent2, last, eofLast)
	rd2, data2 := readLoop(w, parseInts(buf2S), total2)
	return out + fmt.Sprintf(" bs2=%d ps2=%d n2=%s recs2=%s pl2=? reads2=%s data2=%s", bs2, ps2, showInts(ns2), showInts(recs2), rd2, hx.Hex(data2))
}

func execute(desc string) string {
	ph, _ := hx.KV(desc, "ph")
	var out string
	if p := hx.Guard(func() {
		switch ph {
		case "mps":
			out = execMps(desc)
		case "e2e":
			out = execE2E(desc)
		default:
			out = execLoop(desc)
		}
	}); p != "" {
		return "panic=" + p
	}
	return out
}

// ---------------------------------------------------------------------------
// generation

// sizes at which the record split changes: partial sums of the ramp the real code reports
func rampBoundaries(kind string) []int {
	c := tlcp.VerifStreamConn(&mem{}, kindNum(kind), false)
	var out []int
	sum := 0
	for sum < 70000 {
		sum += tlcp.VerifMaxPayload(c, true)
		out = append(out, sum)
	}
	return out
}

func rep(n, k int) string {
	ss := make([]string, k)
	for i := range ss {
		ss[i] = strconv.Itoa(n)
	}
	return strings.Join(ss, ",")
}

// randMode draws the transport mode of a random case: nothing (half of the cases), end-of-stream with the
// last chunk, a chosen last chunk, a half-close with a random response
func randMode(r *hx.Rand, hcOK bool) string {
	out := ""
	switch r.Intn(6) {
	case 0, 1:
		out = " eof=1"
	case 2:
		out = fmt.Sprintf(" eof=%d last=%d", r.Intn(2), 1+r.Intn(hx.Pick(r, []int{8, 64, 512})))
	}
	if hcOK && r.Intn(4) == 0 {
		var ws []int
		for j := r.Intn(4); j >= 0; j-- {
			ws = append(ws, r.Intn(hx.Pick(r, []int{10, 1300, 4000, 20000})))
		}
		out = fmt.Sprintf(" hc=1 w2=%s seg2=%d,%d bufs2=%d,%d", showInts(ws), 64+r.Intn(448), 1+r.Intn(512), 50+r.Intn(3000), 50+r.Intn(20000)) + out
	}
	return strings.Replace(out, " eof=0", "", 1)
}

var segPats = []string{"1", "2", "3,5,7", "5", "512", "13,1,511", "6,4", "100"}
var bufPats = []string{"1", "2", "7", "16384", "65536", "1,2,3,5,8,13,21", "1024", "16383,1"}

func main() {
	o := hx.ParseOpts()
	tr := hx.NewTrace(o.Out)
	defer tr.Close()
	emit := func(desc string) { tr.Line(desc, execute(desc)) }
	if o.Replay != "" {
		for _, c := range hx.ReplayCases(o.Replay) {
			emit(c)
		}
		return
	}
	rng := hx.NewRand(o.Seed)
	// the transport-mode tokens (eof, last, hc) of the random cases come from a stream of their own, so
	// that the rest of every random case is what it was before these modes existed
	rng2 := hx.NewRand(o.Seed + 7919)
	// and so do the read time-outs (to)
	rng3 := hx.NewRand(o.Seed + 104729)
	// randStalls: a quarter of the random cases whose mode allows it get 1..3 stalls at random offsets
	randStalls := func(mode string, approxWire int) string {
		if strings.Contains(mode, "last=") || strings.Contains(mode, "hc=") || rng3.Intn(4) != 0 {
			return ""
		}
		var offs []int
		k := 0
		for j := 1 + rng3.Intn(3); j > 0; j-- {
			k += 1 + rng3.Intn(hx.Pick(rng3, []int{5, 40, approxWire/2 + 2}))
			offs = append(offs, k)
		}
		return " to=" + showInts(offs)
	}
	thorough := o.Tier == "thorough"
	kinds := []string{"gcm", "cbc"}

	if o.Phase == "" || o.Phase == "mps" {
		for _, kind := range []string{"none", "gcm", "cbc"} {
			for _, dyn := range []int{0, 1} {
				for _, app := range []int{0, 1} {
					for _, bs := range []int{0, 1, 131071, 131072, 131073, 1 << 30} {
						for _, ps := range []int{0, 1, 2, 3, 4, 5, 6, 7, 8, 9, 10, 11, 12, 13, 14, 15, 16, 17, 18, 19, 20, 999, 1000, 1001, 1002, 5000} {
							emit(fmt.Sprintf("ph=mps kind=%s dyn=%d app=%d bs=%d ps=%d k=3", kind, dyn, app, bs, ps))
						}
					}
				}
			}
		}
		n := 2000 * o.Scale
		if thorough {
			n *= 20
		}
		for i := 0; i < n; i++ {
			emit(fmt.Sprintf("ph=mps kind=%s dyn=%d app=%d bs=%d ps=%d k=%d", hx.Pick(rng, []string{"none", "gcm", "cbc"}),
				rng.Intn(2), rng.Intn(4)/3^1, rng.Intn(140000), rng.Intn(1100), rng.Intn(5)))
		}
	}

	if o.Phase == "" || o.Phase == "loop" {
		// small streams under every segmentation x buffer pattern, incl. 1-byte chunks and 1-byte buffers
		for _, kind := range kinds {
			for _, seg := range segPats {
				for _, bufs := range bufPats {
					for _, cl := range []int{0, 1} {
						emit(fmt.Sprintf("ph=loop kind=%s dyn=1 bs=0 ps=0 w=0,1,300,0,1500,7 seed=%d close=%d seg=%s bufs=%s", kind, rng.Intn(256), cl, seg, bufs))
					}
				}
			}
		}
		// sizes around every boundary of the ramp the real code reports, and around the record limit
		for _, kind := range kinds {
			var sizes []int
			for _, b := range rampBoundaries(kind) {
				sizes = append(sizes, b-1, b, b+1)
			}
			sizes = append(sizes, 0, 1, 16383, 16384, 16385, 3*16384+7)
			for i, sz := range sizes {
				if !thorough && sz > 20000 && i%3 != 0 {
					continue
				}
				for _, dyn := range []int{1, 0} {
					if dyn == 0 && sz < 16000 && sz > 1 {
						continue
					}
					emit(fmt.Sprintf("ph=loop kind=%s dyn=%d bs=0 ps=0 w=%d seed=%d close=1 seg=%s bufs=%s", kind, dyn, sz, rng.Intn(256),
						hx.Pick(rng, []string{"512", "100", "511,1", "64,448"}), hx.Pick(rng, []string{"16384", "65536", "1024", "4096,1", "20000"})))
				}
			}
			// the boost threshold and the packet-count guard
			for _, bs := range []int{131072 - 3000, 131071, 131072, 120000} {
				for _, ps := range []int{0, 5, 999, 1000, 1001} {
					emit(fmt.Sprintf("ph=loop kind=%s dyn=1 bs=%d ps=%d w=2500,1,2500,20000 seed=%d close=1 seg=512 bufs=4096", kind, bs, ps, rng.Intn(256)))
				}
			}
		}
		// runs of zero-length writes between data: a Write of no bytes must neither emit anything the
		// receiver counts as a useless record nor disturb what follows, however many there are
		for _, kind := range kinds {
			for _, k := range []int{1, 2, 16, 17, 18, 48} {
				emit(fmt.Sprintf("ph=loop kind=%s dyn=1 bs=0 ps=0 w=3,%s,5 seed=%d close=1 seg=512 bufs=4096", kind, rep(0, k), rng.Intn(256)))
				emit(fmt.Sprintf("ph=loop kind=%s dyn=0 bs=0 ps=0 w=%s,7 seed=%d close=0 seg=7,512,1 bufs=1,7", kind, rep(0, k), rng.Intn(256)))
			}
		}
		// the ramp must never overshoot the plaintext limit: k tiny writes, then one write that
		// still has more than a full record outstanding at every step of the ramp; and bulk
		// writes that run through the whole ramp before the 128 KiB boost
		for _, kind := range kinds {
			for k := 1; k <= 20; k++ {
				emit(fmt.Sprintf("ph=loop kind=%s dyn=1 bs=0 ps=0 w=%s,%d seed=%d close=1 seg=512 bufs=65536", kind, rep(1, k), 3*16384+7, rng.Intn(256)))
			}
			for _, bulk := range []int{124 * 1024, 200 * 1024} {
				emit(fmt.Sprintf("ph=loop kind=%s dyn=1 bs=0 ps=0 w=%d seed=%d close=1 seg=512 bufs=65536", kind, bulk, rng.Intn(256)))
				emit(fmt.Sprintf("ph=loop kind=%s dyn=1 bs=1285 ps=0 w=%d seed=%d close=1 seg=509,3 bufs=16384,1", kind, bulk, rng.Intn(256)))
			}
		}
		// the end of the transport's stream arrives TOGETHER with the last chunk (n > 0 and io.EOF from one
		// transport Read): under every segmentation x buffer pattern; with the last chunk starting at every
		// position of the stream's tail (inside the close-notify, at its first byte, inside and across the
		// data records before it), closed by a close-notify or just ended; and the same cuts without it
		for _, kind := range kinds {
			for i, seg := range segPats {
				for j, bufs := range bufPats {
					emit(fmt.Sprintf("ph=loop kind=%s dyn=1 bs=0 ps=0 w=0,1,300,0,1500,7 seed=%d close=%d seg=%s bufs=%s eof=1", kind, rng2.Intn(256), (i+j)%2, seg, bufs))
				}
			}
			for l := 1; l <= 260; l++ {
				if !thorough && l > 120 && l%4 != 0 {
					continue
				}
				emit(fmt.Sprintf("ph=loop kind=%s dyn=1 bs=0 ps=0 w=9,40,3 seed=%d close=%d seg=%s bufs=%s eof=1 last=%d", kind, rng2.Intn(256), l%2,
					hx.Pick(rng2, []string{"512", "7", "1", "100"}), hx.Pick(rng2, bufPats), l))
				if l%3 == 0 {
					emit(fmt.Sprintf("ph=loop kind=%s dyn=1 bs=0 ps=0 w=9,40,3 seed=%d close=%d seg=512 bufs=%s last=%d", kind, rng2.Intn(256), 1-l%2, hx.Pick(rng2, bufPats), l))
				}
			}
			emit(fmt.Sprintf("ph=loop kind=%s dyn=1 bs=0 ps=0 w=%d seed=%d close=1 seg=512 bufs=65536 eof=1", kind, 3*16384+7, rng2.Intn(256)))
			emit(fmt.Sprintf("ph=loop kind=%s dyn=0 bs=0 ps=0 w=16385,1 seed=%d close=1 seg=509,3 bufs=16384,1 eof=1 last=1", kind, rng2.Intn(256)))
			emit(fmt.Sprintf("ph=loop kind=%s dyn=1 bs=0 ps=0 w=%s,40000 seed=%d close=0 seg=512 bufs=4096 eof=1 last=512", kind, rep(1, 12), rng2.Intn(256)))
		}
		// half-close: the first writer sends a request, shuts its write direction down (CloseWrite) and
		// keeps reading; the peer reads to end-of-stream, answers and closes. Responses from nothing to
		// several full records, under every segmentation x buffer pattern, dynamic sizing on and off
		for _, kind := range kinds {
			for i, seg := range segPats {
				for j, bufs := range bufPats {
					emit(fmt.Sprintf("ph=loop kind=%s dyn=1 bs=0 ps=0 w=10,20 seed=%d close=1 seg=%s bufs=%s hc=1 w2=0,1,300,0,1500,7 seg2=%s bufs2=%s%s", kind, rng2.Intn(256),
						segPats[(i+3)%len(segPats)], bufPats[(j+5)%len(bufPats)], seg, bufs, []string{"", " eof=1"}[(i+j)%2]))
				}
			}
			for _, dyn := range []int{1, 0} {
				for _, w2 := range []string{"-", "0", "1", "1000", "16384", "16385", "50000", strconv.Itoa(3*16384 + 7), "700,2,49159", rep(1, 12) + ",40000"} {
					emit(fmt.Sprintf("ph=loop kind=%s dyn=%d bs=0 ps=0 w=24 seed=%d close=1 seg=512 bufs=4096 hc=1 w2=%s seg2=%s bufs2=%s", kind, dyn, rng2.Intn(256), w2,
						hx.Pick(rng2, []string{"512", "100", "511,1", "64,448"}), hx.Pick(rng2, []string{"16384", "65536", "1024", "4096,1", "3000"})))
				}
				emit(fmt.Sprintf("ph=loop kind=%s dyn=%d bs=0 ps=0 w=- seed=%d close=1 seg=512 bufs=4096 hc=1 w2=5,5000 seg2=512 bufs2=4096", kind, dyn, rng2.Intn(256)))
				emit(fmt.Sprintf("ph=loop kind=%s dyn=%d bs=131071 ps=999 w=2500,20000 seed=%d close=1 seg=512 bufs=4096 hc=1 w2=2500,1,2500,20000 seg2=512 bufs2=4096 eof=1 last=7", kind, dyn, rng2.Intn(256)))
			}
		}
		// read time-outs anywhere: the reader's transport stalls after k bytes of the stream - at every
		// offset of a three-record stream (inside each 5-byte header, inside each body after any number of
		// segments, at the record boundaries, inside the close-notify) - the blocked transport Read
		// returns a time-out, the reader extends its deadline and reads on: what it reads must still be the
		// written stream. Under four segmentations (whole pieces, 7-byte, 1-byte and 3,5-byte chunks), with
		// the end of the transport reported with the last chunk or separately; two and three stalls in one
		// stream (same header, header and body, consecutive records); records of 1000 and 16384 bytes
		for _, kind := range kinds {
			// length of the stream as the real sender produces it (three records and the close-notify)
			probe := &mem{}
			psnd := tlcp.VerifStreamConn(probe, kindNum(kind), false)
			writeAll(psnd, 0, []int{9, 40, 3})
			psnd.CloseWrite()
			wireLen := len(probe.all())
			for k := 1; k < wireLen; k++ {
				for i, seg := range []string{"512", "7", "1", "3,5"} {
					if !thorough && k > 40 && (k+i)%2 == 1 {
						continue
					}
					emit(fmt.Sprintf("ph=loop kind=%s dyn=1 bs=0 ps=0 w=9,40,3 seed=%d close=%d seg=%s bufs=%s%s to=%d", kind, rng3.Intn(256), (k+i)%2, seg,
						hx.Pick(rng3, bufPats), []string{"", " eof=1"}[(k/2+i)%2], k))
				}
				if k%3 == 0 {
					emit(fmt.Sprintf("ph=loop kind=%s dyn=1 bs=0 ps=0 w=9,40,3 seed=%d close=1 seg=%s bufs=%s to=%d,%d,%d", kind, rng3.Intn(256),
						hx.Pick(rng3, []string{"512", "7", "1", "2"}), hx.Pick(rng3, bufPats), 1+k/3, 2+k/3+rng3.Intn(3), k+3))
				}
			}
			for _, to := range []string{"3", "5", "6", "100", "300", "100,300", "1,2,3,4", "4,5,6", "1028", "1030", "1040,1300", "300,1031,1500"} {
				for _, seg := range []string{"100", "512", "64,448"} {
					emit(fmt.Sprintf("ph=loop kind=%s dyn=1 bs=0 ps=0 w=1000,700 seed=%d close=1 seg=%s bufs=%s to=%s", kind, rng3.Intn(256), seg,
						hx.Pick(rng3, []string{"4096", "1000", "333,1"}), to))
				}
			}
			for _, to := range []string{"2", "600", "1024", "16000", "16500,16600", "20000,30000,40000"} {
				emit(fmt.Sprintf("ph=loop kind=%s dyn=0 bs=0 ps=0 w=16384,16385 seed=%d close=1 seg=512 bufs=65536 to=%s", kind, rng3.Intn(256), to))
			}
		}
		// random
		n := 300 * o.Scale
		if thorough {
			n = 6000 * o.Scale
		}
		for i := 0; i < n; i++ {
			var ws []int
			tot := 0
			for j := rng.Intn(6); j >= 0; j-- {
				sz := rng.Intn(40)
				switch rng.Intn(6) {
				case 0:
					sz = rng.Intn(3000)
				case 1:
					sz = 1100 + rng.Intn(200)
				case 2:
					if thorough || i%10 == 0 {
						sz = rng.Intn(40000)
					}
				}
				ws = append(ws, sz)
				tot += sz
			}
			seg := []string{strconv.Itoa(1 + rng.Intn(512))}
			for j := rng.Intn(4); j > 0; j-- {
				seg = append(seg, strconv.Itoa(1+rng.Intn(hx.Pick(rng, []int{3, 16, 512}))))
			}
			if tot > 6000 { // keep the byte-at-a-time work for the small streams
				seg = []string{strconv.Itoa(64 + rng.Intn(448)), strconv.Itoa(200 + rng.Intn(300))}
			}
			var bufs []string
			for j := rng.Intn(5); j >= 0; j-- {
				b := 1 + rng.Intn(hx.Pick(rng, []int{4, 64, 2000, 20000}))
				if tot > 6000 && b < 50 {
					b += 50
				}
				bufs = append(bufs, strconv.Itoa(b))
			}
			bs, ps := 0, 0
			if rng.Chance(30) {
				bs, ps = rng.Intn(140000), rng.Intn(1010)
			}
			mode := randMode(rng2, true)
			emit(fmt.Sprintf("ph=loop kind=%s dyn=%d bs=%d ps=%d w=%s seed=%d close=%d seg=%s bufs=%s", hx.Pick(rng, kinds), rng.Intn(4)/3^1,
				bs, ps, showInts(ws), rng.Intn(256), rng.Intn(2), strings.Join(seg, ","), strings.Join(bufs, ",")) + mode + randStalls(mode, tot))
		}
	}

	if o.Phase == "" || o.Phase == "e2e" {
		names := []string{"ecc-gcm", "ecc-cbc", "ecdhe-gcm", "ecdhe-cbc"}
		kindOf := func(su string) string { return su[strings.Index(su, "-")+1:] }
		// the four ways a connection comes about and is used: full handshake or resumed session,
		// client or server writing. gate=1 (the reader's handshake ends on transport reads that
		// also carry application data) exists where the writer sends the last handshake flight.
		type mode struct {
			res  int
			dir  string
			gate int
		}
		plain := []mode{{0, "c2s", 0}, {0, "s2c", 0}, {1, "c2s", 0}, {1, "s2c", 0}}
		gated := []mode{{1, "c2s", 1}, {0, "s2c", 1}}
		e2ex := func(r *hx.Rand, su string, m mode, dyn int, w string, cl int, seg, bufs, extra string) {
			emit(fmt.Sprintf("ph=e2e suite=%s kind=%s dyn=%d res=%d dir=%s gate=%d w=%s seed=%d close=%d seg=%s bufs=%s%s",
				su, kindOf(su), dyn, m.res, m.dir, m.gate, w, r.Intn(256), cl, seg, bufs, extra))
		}
		e2e := func(su string, m mode, dyn int, w string, cl int, seg, bufs string) {
			e2ex(rng, su, m, dyn, w, cl, seg, bufs, "")
		}
		for _, su := range names {
			for _, dyn := range []int{1, 0} {
				e2e(su, plain[0], dyn, "0,1,1200,5000,16385,3", 1, "7,512,1", "1000,1,16384")
				e2e(su, plain[0], dyn, "700,2,49159", 1, "512", "65536")
				e2e(su, plain[0], dyn, "10,20,30", 0, "1", "1,7")
			}
			// every kind of connection, writer starting after both handshakes returned
			for _, m := range plain[1:] {
				e2e(su, m, 1, "0,1,1200,5000,16385,3", 1, "7,512,1", "1000,1,16384")
				e2e(su, m, 0, "10,20,30", 0, "1", "1,7")
				e2e(su, m, 1, "700,2,20000", 1, "512", "65536")
			}
		}
		// the handshake/application boundary: the writer's ChangeCipherSpec + Finished and its
		// application records (+ close-notify) arrive as one byte stream. First under the fixed
		// segmentations and buffer patterns of the loop phase, then with the first transport read
		// ending at every position from the first byte of the flight to well inside the second
		// application record (flight = 51 bytes with GCM, 91 with CBC; the rest in 512-byte reads),
		// and with the cut repeated every c bytes.
		for _, su := range names {
			if !thorough && strings.HasPrefix(su, "ecdhe") {
				continue
			}
			for _, m := range gated {
				for i, seg := range segPats {
					for _, cl := range []int{0, 1} {
						e2e(su, m, 1, "0,1,300,0,1500,7", cl, seg, bufPats[(i+cl)%len(bufPats)])
					}
				}
				for c := 1; c <= 140; c++ {
					e2e(su, m, 1, "9,40,3", c%2, fmt.Sprintf("%d,512", c), hx.Pick(rng, bufPats))
					if thorough || c%3 == 0 {
						e2e(su, m, 1, "9,40,3", 1-c%2, strconv.Itoa(c), hx.Pick(rng, bufPats))
					}
				}
				// bulk right behind the Finished, and the ramp
				e2e(su, m, 1, strconv.Itoa(3*16384+7), 1, "512", "65536")
				e2e(su, m, 0, "16385,1", 1, "509,3", "16384,1")
				e2e(su, m, 1, rep(1, 12)+",40000", 1, "512", "65536")
			}
		}
		for _, su := range names[2:] {
			if thorough {
				break
			}
			for _, m := range gated {
				e2e(su, m, 1, "0,1,300,0,1500,7", 1, "512", "7")
				e2e(su, m, 1, "0,1,300,0,1500,7", 0, "1", "16384")
				e2e(su, m, 0, "9,40,3", 1, "60,1,512", "1")
			}
		}
		// runs of zero-length writes on a real connection
		for _, su := range names {
			for _, k := range []int{1, 16, 17, 48} {
				e2e(su, plain[0], 1, fmt.Sprintf("3,%s,5", rep(0, k)), 1, "512", "4096")
			}
		}
		// right after the handshake: bulk writes through the whole ramp, and k tiny writes followed
		// by one that has more than a full record outstanding at every step
		for _, su := range names {
			if !thorough && strings.HasPrefix(su, "ecdhe") {
				continue
			}
			for _, bulk := range []int{124 * 1024, 200 * 1024} {
				e2e(su, plain[0], 1, strconv.Itoa(bulk), 1, "512", "65536")
			}
			for k := 1; k <= 20; k++ {
				if !thorough && (k < 11 || k > 16) {
					continue
				}
				e2e(su, plain[0], 1, fmt.Sprintf("%s,%d", rep(1, k), 3*16384+7), 1, "512", "65536")
			}
		}
		// the end of the transport's stream arrives together with the last chunk, on real connections: every
		// kind of connection and direction, closed or just ended; across the handshake boundary; and with the
		// last chunk starting at every position of the tail
		for _, su := range names {
			for i, m := range plain {
				e2ex(rng2, su, m, 1, "0,1,1200,5000,16385,3", 1, "7,512,1", "1000,1,16384", " eof=1")
				e2ex(rng2, su, m, i%2, "10,20,30", 0, segPats[i], "1,7", " eof=1")
				e2ex(rng2, su, m, 1, "700,2,20000", 1, "512", "65536", " eof=1 last=1")
			}
			if !thorough && strings.HasPrefix(su, "ecdhe") {
				continue
			}
			for _, m := range gated {
				for i, seg := range segPats {
					e2ex(rng2, su, m, 1, "0,1,300,0,1500,7", i%2, seg, bufPats[(i+3)%len(bufPats)], " eof=1")
				}
				for l := 1; l <= 200; l += 3 {
					e2ex(rng2, su, m, 1, "9,40,3", l%2, hx.Pick(rng2, []string{"512", "7", "60,1"}), hx.Pick(rng2, bufPats), fmt.Sprintf(" eof=1 last=%d", l))
				}
			}
			for l := 1; l <= 140; l++ {
				if thorough || l%2 == 1 {
					e2ex(rng2, su, plain[l%4], 1, "9,40,3", l%2, hx.Pick(rng2, []string{"512", "7", "1"}), hx.Pick(rng2, bufPats), fmt.Sprintf(" eof=1 last=%d", l))
				}
			}
		}
		// half-close on real connections: request, CloseWrite, the peer reads to end-of-stream, answers (from
		// one byte to several full records) and closes; the half-closed side reads the response. Either side
		// half-closing, full and resumed handshakes, all suites
		for _, su := range names {
			for i, m := range plain {
				for j, w2 := range []string{"1", "1000", "50000", "0,1,1200,5000,16385,3", strconv.Itoa(3*16384 + 7)} {
					if !thorough && j >= 3 && (i+j)%2 == 1 {
						continue
					}
					e2ex(rng2, su, m, (i+j+1)%2, "24", 1, "512", "100", fmt.Sprintf(" hc=1 w2=%s seg2=%s bufs2=%s%s", w2,
						hx.Pick(rng2, []string{"512", "100", "511,1", "64,448"}), hx.Pick(rng2, []string{"3000", "65536", "1024", "4096,1"}), []string{"", " eof=1"}[j%2]))
				}
				e2ex(rng2, su, m, 1, "0,1,300", 1, segPats[i], bufPats[i], fmt.Sprintf(" hc=1 w2=0,1,300,0,1500,7 seg2=%s bufs2=%s", segPats[(i+4)%len(segPats)], bufPats[(i+2)%len(bufPats)]))
				e2ex(rng2, su, m, 1, "-", 1, "512", "64", " hc=1 w2=5,5000 seg2=1 bufs2=4096 eof=1 last=3")
			}
		}
		// read time-outs on real connections: every kind of connection and direction, the transport stalling
		// inside the first record's header (every offset), inside its body after one and after several
		// segments, at the record boundary and inside the following records; several stalls per stream
		for _, su := range names {
			for i, m := range plain {
				for j, to := range []string{"1", "2", "3", "4", "5", "6", "100", "300", "100,300", "3,300,1031", "1029", "1031,1040", "1,2,3,4,5"} {
					if !thorough && j >= 6 && (i+j)%2 == 1 {
						continue
					}
					e2ex(rng3, su, m, (i+j)%2, "1000,700", 1-(i+j)%3/2, []string{"100", "512", "64,448", "1"}[(i+j)%4], hx.Pick(rng3, []string{"4096", "1000", "333,1"}),
						[]string{"", " eof=1"}[(i+j/2)%2]+" to="+to)
				}
				e2ex(rng3, su, m, 1, "9,40,3", 1, "7", "16384", fmt.Sprintf(" to=%d,%d", 1+rng3.Intn(4), 6+rng3.Intn(60)))
			}
		}
		n := 24 * o.Scale
		if thorough {
			n = 600 * o.Scale
		}
		all := append(append([]mode{}, plain...), gated...)
		for i := 0; i < n; i++ {
			su := hx.Pick(rng, names)
			var ws []int
			for j := rng.Intn(5); j >= 0; j-- {
				ws = append(ws, rng.Intn(hx.Pick(rng, []int{10, 1300, 4000, 20000})))
			}
			m := hx.Pick(rng, all)
			mode := randMode(rng2, m.gate == 0)
			if m.gate == 0 {
				tot := 0
				for _, w := range ws {
					tot += w
				}
				mode += randStalls(mode, tot)
			}
			e2ex(rng, su, m, rng.Intn(2), showInts(ws), rng.Intn(2),
				fmt.Sprintf("%d,%d", hx.Pick(rng, []int{1 + rng.Intn(100), 64 + rng.Intn(448)}), 1+rng.Intn(512)),
				fmt.Sprintf("%d,%d", 50+rng.Intn(3000), 50+rng.Intn(20000)), mode)
		}
	}
}

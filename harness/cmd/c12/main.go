// Driver for C12: call histories on a real TLCP connection over a scripted in-memory transport.
//
// Phases:
//
//	api    histories of Read / Write / Close / CloseWrite / Handshake on one end (the unit under
//	       test) interleaved with what the peer and the transport do: data records, alerts of every
//	       level x code, close_notify, transport EOF at a record boundary or at any byte offset
//	       inside a record, temporary (timeout) and permanent transport errors, write failures.
//	       `seg=all`: after the handshake a transport read of the unit returns everything the
//	       transport holds (TCP-like: what the peer wrote back to back arrives together, e.g. its
//	       last data record and its close_notify); default: one record per transport read.
//	cancel HandshakeContext whose context is cancelled when the k-th transport operation of the
//	       handshake happens (every k, both ends), then more calls.
//	early  a plaintext application-data record injected in front of the j-th handshake record the
//	       peer sends (every j, both ends).
//	dial   the public Dialer.DialContext over loopback TCP against a peer that accepts the connection
//	       and stalls in the handshake (never reads / reads the ClientHello / then answers with part
//	       of a handshake record), for a net.Dialer without bound, with a 30 s Timeout, a 30 s
//	       Deadline, both, and a caller whose context is cancelled 50 ms after the peer began to stall / has a
//	       300 ms deadline / was cancelled before the call; and the converse: a 200 ms Timeout /
//	       Deadline of the net.Dialer and a caller that never cancels. Observed: the class of the
//	       error and whether the call returned within 2 s of the moment its context ended
//	       (`when=prompt`); otherwise `res=blocked when=late` and the driver moves on.
//
// One concurrent situation is part of the api histories, because Close is documented to be
// callable in it ("this Close is really just being used to break the Write"): a Write on another
// goroutine that sits inside the transport write. `WP<n>` starts it (observation `block` when it
// reached the transport, where the wrapper parks it; otherwise what it returned), `WK` lets the
// transport write go on and reports what the Write returned (`none`: nothing was in flight). While
// it is parked it holds c.out: calls that need that mutex (Write, CloseWrite) would wait for it;
// they are not run, the observation is `block` (waiting is C13's subject).
//
// One case per line; observed = one result per API call:
//
//	ok | ok.<hex> | okerr.<hex>.<err> | <err>     err = eof ueof closed shutdown early_cw remote.N
//	                                                     local.N hdr toomany ctx timeout perm block other
package main

import (
	"context"
	"errors"
	"fmt"
	"io"
	"net"
	"strconv"
	"strings"
	"sync"
	"time"

	"gitee.com/Trisia/gotlcp/tlcp"
	"verifharness/internal/hx"
	"verifharness/internal/pair"
)

var tr *hx.Trace

// wrap is the transport under the unit under test: it hands over at most the rest of the current
// record per Read (or, with all set, everything there is), can fail writes, counts operations and
// can cancel a context at the k-th one.
type wrap struct {
	*pair.StreamEnd
	mu      sync.Mutex
	all     bool // a Read returns everything the transport holds (set after the handshake)
	hdr     []byte
	rem     int
	wmode   string // "", "t" (timeout), "p" (permanent)
	ops     int
	cancelK int
	cancel  context.CancelFunc
	fired   bool // cancel was called (inside the cancelK-th transport operation of the handshake)
	closedC chan struct{}
	once    sync.Once
	// the next Write parks (a peer that does not read, full socket buffers) until released or closed
	parkNext bool
	entered  chan struct{} // closed when the write has reached the gate
	release  chan struct{} // closed to let it go on
}

var errBoom = errors.New("boom: transport failed")

func (w *wrap) tick() {
	w.mu.Lock()
	w.ops++
	fire := w.cancel != nil && w.ops == w.cancelK
	if fire {
		w.fired = true
	}
	w.mu.Unlock()
	if fire {
		w.cancel()
		select { // the interrupter goroutine closes the transport; wait for it so that the outcome is deterministic
		case <-w.closedC:
		case <-time.After(3 * time.Second):
		}
	}
}

func (w *wrap) Read(p []byte) (int, error) {
	w.tick()
	if len(p) == 0 || w.all {
		return w.StreamEnd.Read(p)
	}
	if w.rem == 0 {
		need := 5 - len(w.hdr)
		if len(p) < need {
			need = len(p)
		}
		n, err := w.StreamEnd.Read(p[:need])
		w.hdr = append(w.hdr, p[:n]...)
		if len(w.hdr) == 5 {
			w.rem = int(w.hdr[3])<<8 | int(w.hdr[4])
			w.hdr = w.hdr[:0]
		}
		return n, err
	}
	m := w.rem
	if len(p) < m {
		m = len(p)
	}
	n, err := w.StreamEnd.Read(p[:m])
	w.rem -= n
	return n, err
}

func (w *wrap) Write(p []byte) (int, error) {
	w.tick()
	select {
	case <-w.closedC: // a closed transport refuses writes as closed, whatever else is scripted
		return 0, net.ErrClosed
	default:
	}
	w.mu.Lock()
	if w.parkNext {
		w.parkNext = false
		ent, rel := w.entered, w.release
		w.mu.Unlock()
		close(ent)
		select {
		case <-rel:
		case <-w.closedC:
		}
		select {
		case <-w.closedC: // the transport was closed under the write
			return 0, net.ErrClosed
		default:
		}
		w.mu.Lock()
	}
	mode := w.wmode
	w.mu.Unlock()
	switch mode {
	case "t":
		return 0, pair.ErrTimeout
	case "p":
		return 0, errBoom
	case "h": // a write deadline that expires after part of the record has gone out
		n, _ := w.StreamEnd.Write(p[:len(p)/2])
		return n, pair.ErrTimeout
	}
	return w.StreamEnd.Write(p)
}

func (w *wrap) Close() error {
	err := w.StreamEnd.Close()
	w.once.Do(func() { close(w.closedC) })
	return err
}

func errEnum(err error) string {
	kind, code := tlcp.VerifErrKind(err)
	switch kind {
	case "nil":
		return "ok"
	case "eof":
		return "eof"
	case "unexpected_eof":
		return "ueof"
	case "closed":
		return "closed"
	case "shutdown":
		return "shutdown"
	case "early_closewrite":
		return "early_cw"
	case "local_alert":
		return "local." + strconv.Itoa(code)
	case "remote_alert":
		return "remote." + strconv.Itoa(code)
	case "record_header":
		return "hdr"
	case "timeout":
		return "timeout"
	case "alert":
		return "alert." + strconv.Itoa(code)
	}
	if errors.Is(err, context.Canceled) {
		return "ctx"
	}
	if errors.Is(err, context.DeadlineExceeded) {
		return "ctxdl"
	}
	s := err.Error()
	switch {
	case strings.Contains(s, "boom"):
		return "perm"
	case strings.Contains(s, "too many ignored records"):
		return "toomany"
	case strings.Contains(s, "closed pipe"), errors.Is(err, net.ErrClosed):
		return "closed"
	}
	return "other"
}

func pattern(i, n int) []byte {
	out := make([]byte, n)
	for j := range out {
		out[j] = byte((i*37 + j*11 + 1) % 256)
	}
	return out
}

type endpoints struct {
	uut, peer *tlcp.Conn
	uw        *wrap
	pe        *pair.StreamEnd
	peerObs   []string // what the peer's application read (PR ops)
	// the transport keeps ONE pending read error; the script (and the model) queue them
	ttPending  int  // scripted timeouts not yet reported
	permQueued bool // a permanent error scripted while a timeout was still pending
	// the Write in flight (WP … WK)
	flightRes chan string   // what it returned
	flightRel chan struct{} // closed to release it
	// Close has been called: the interlock refuses every Write at once, and the transport has been
	// closed under the Write in flight — nothing waits for it any more
	closeCalled bool
}

// setup builds a pair; side = which end is the unit under test. If doHandshake, both handshakes run.
func setup(side, suite string, doHandshake bool) (*endpoints, string) {
	id := uint16(0xe053)
	if suite == "cbc" {
		id = 0xe013
	}
	ce, se := pair.StreamPipe()
	ccfg, scfg := pair.TClient(), pair.TServer()
	ccfg.CipherSuites = []uint16{id}
	ep := &endpoints{}
	if side == "client" {
		ep.uw = &wrap{StreamEnd: ce, closedC: make(chan struct{})}
		ep.uut, ep.peer, ep.pe = tlcp.Client(ep.uw, ccfg), tlcp.Server(se, scfg), se
	} else {
		ep.uw = &wrap{StreamEnd: se, closedC: make(chan struct{})}
		ep.uut, ep.peer, ep.pe = tlcp.Server(ep.uw, scfg), tlcp.Client(ce, ccfg), ce
	}
	if doHandshake {
		var e1, e2 error
		var wg sync.WaitGroup
		wg.Add(2)
		go func() { defer wg.Done(); e1 = ep.uut.Handshake() }()
		go func() { defer wg.Done(); e2 = ep.peer.Handshake() }()
		done := make(chan struct{})
		go func() { wg.Wait(); close(done) }()
		select {
		case <-done:
		case <-time.After(20 * time.Second):
			ce.Close()
			se.Close()
			<-done
			return nil, "handshake=timeout"
		}
		if e1 != nil || e2 != nil {
			return nil, fmt.Sprintf("handshake=%s/%s", errEnum(e1), errEnum(e2))
		}
	}
	return ep, ""
}

// ---------------------------------------------------------------------------------------- api

// runOps executes the ops of a history on an established pair and returns the observations.
func runOps(ep *endpoints, ops []string, startIdx int) []string {
	var obs []string
	for i, op := range ops {
		idx := startIdx + i
		arg := func(s string) int { v, _ := strconv.Atoi(s); return v }
		switch {
		case op[0] == 'R':
			buf := make([]byte, arg(op[1:]))
			ep.uw.SetReadDeadline(time.Now().Add(80 * time.Millisecond))
			t0 := time.Now()
			var n int
			var err error
			if ep.flightRes != nil && !ep.closeCalled {
				// a Read that has to send an alert would wait for c.out, which the Write in flight holds
				// (the histories generated avoid it): do not hang the run
				done := make(chan struct{})
				go func() { n, err = ep.uut.Read(buf); close(done) }()
				select {
				case <-done:
				case <-time.After(3 * time.Second):
					obs = append(obs, "hang")
					return obs
				}
			} else {
				n, err = ep.uut.Read(buf)
			}
			ep.uw.SetReadDeadline(time.Time{})
			e := errEnum(err)
			if (e == "timeout" || e == "other") && time.Since(t0) > 60*time.Millisecond {
				e = "block"
			} else if e == "timeout" {
				// the scripted temporary error has been reported; the transport recovers, unless more is queued
				if ep.ttPending > 0 {
					ep.ttPending--
				}
				switch {
				case ep.ttPending > 0:
				case ep.permQueued:
					ep.permQueued = false
					ep.pe.FailPeerRead(errBoom)
				default:
					ep.pe.FailPeerRead(nil)
				}
			}
			switch {
			case err == nil && len(buf) == 0:
				obs = append(obs, "ok")
			case err == nil:
				obs = append(obs, "ok."+hx.Hex(buf[:n]))
			case n > 0:
				obs = append(obs, "okerr."+hx.Hex(buf[:n])+"."+e)
			default:
				obs = append(obs, e)
			}
		case strings.HasPrefix(op, "WP"): // a Write on another goroutine, observed up to the transport write
			if ep.flightRes != nil && !ep.closeCalled {
				obs = append(obs, "block") // it would wait for c.out, held by the Write in flight: not run
				break
			}
			ent, rel := make(chan struct{}), make(chan struct{})
			ep.uw.mu.Lock()
			ep.uw.parkNext, ep.uw.entered, ep.uw.release = true, ent, rel
			ep.uw.mu.Unlock()
			res := make(chan string, 1)
			data := pattern(idx, arg(op[2:]))
			go func() {
				var err error
				if pan := hx.Guard(func() { _, err = ep.uut.Write(data) }); pan != "" {
					res <- "panic"
					return
				}
				res <- errEnum(err)
			}()
			select {
			case <-ent:
				if ep.flightRes == nil {
					ep.flightRes, ep.flightRel = res, rel
				}
				obs = append(obs, "block")
			case r := <-res: // it returned without getting to the transport
				ep.uw.mu.Lock()
				ep.uw.parkNext = false
				ep.uw.mu.Unlock()
				obs = append(obs, r)
			case <-time.After(5 * time.Second):
				obs = append(obs, "hang")
			}
		case op == "WK": // the transport write of the Write in flight goes on; the Write returns
			if ep.flightRes == nil {
				obs = append(obs, "none")
				break
			}
			close(ep.flightRel)
			select {
			case r := <-ep.flightRes:
				obs = append(obs, r)
			case <-time.After(5 * time.Second):
				obs = append(obs, "hang")
			}
			ep.flightRes, ep.flightRel = nil, nil
		case op[0] == 'W':
			if ep.flightRes != nil && !ep.closeCalled {
				obs = append(obs, "block") // see WP
				break
			}
			_, err := ep.uut.Write(pattern(idx, arg(op[1:])))
			obs = append(obs, errEnum(err))
		case op == "C":
			ep.closeCalled = true
			obs = append(obs, errEnum(ep.uut.Close()))
		case op == "CW":
			if ep.flightRes != nil {
				obs = append(obs, "block") // closeNotify would wait for c.out: not run
				break
			}
			obs = append(obs, errEnum(ep.uut.CloseWrite()))
		case op == "H":
			obs = append(obs, errEnum(ep.uut.Handshake()))
		// ---- the peer and the transport
		case strings.HasPrefix(op, "PR"): // the peer's application reads
			buf := make([]byte, arg(op[2:]))
			ep.pe.SetReadDeadline(time.Now().Add(80 * time.Millisecond))
			t0 := time.Now()
			n, err := ep.peer.Read(buf)
			ep.pe.SetReadDeadline(time.Time{})
			e := errEnum(err)
			if (e == "timeout" || e == "other") && time.Since(t0) > 60*time.Millisecond {
				e = "block"
			}
			switch {
			case err == nil:
				ep.peerObs = append(ep.peerObs, "ok."+hx.Hex(buf[:n]))
			case n > 0:
				ep.peerObs = append(ep.peerObs, "okerr."+hx.Hex(buf[:n])+"."+e)
			default:
				ep.peerObs = append(ep.peerObs, e)
			}
		case strings.HasPrefix(op, "pg"): // a record that does not authenticate is injected towards the unit
			body := pattern(idx, 20)
			ep.pe.Inject(append([]byte{byte(arg(op[2:])), 1, 1, 0, byte(len(body))}, body...))
		case strings.HasPrefix(op, "pd"):
			tlcp.VerifRxWriteRecord(ep.peer, 23, pattern(idx, arg(op[2:])))
		case strings.HasPrefix(op, "ph"):
			tlcp.VerifRxWriteRecord(ep.peer, 22, pattern(idx, arg(op[2:])))
		case strings.HasPrefix(op, "pa"):
			p := strings.Split(op[2:], ".")
			tlcp.VerifSendAlert(ep.peer, uint8(arg(p[0])), uint8(arg(p[1])))
		case op == "pc":
			ep.peer.CloseWrite()
		case op == "te":
			ep.pe.CloseWriteRaw()
		case strings.HasPrefix(op, "tx"): // tx<n>.<k>: a data record of n bytes, cut after k wire bytes, then EOF
			p := strings.Split(op[2:], ".")
			var rec []byte
			ep.pe.OnWrite = func(d []byte) [][]byte { rec = d; return nil }
			tlcp.VerifRxWriteRecord(ep.peer, 23, pattern(idx, arg(p[0])))
			ep.pe.OnWrite = nil
			k := arg(p[1])
			if k > len(rec) {
				k = len(rec)
			}
			ep.pe.Inject(rec[:k])
			ep.pe.CloseWriteRaw()
		case op == "tt":
			if !ep.permQueued {
				ep.ttPending++
				ep.pe.FailPeerRead(pair.ErrTimeout)
			}
		case op == "tp":
			if ep.ttPending > 0 {
				ep.permQueued = true
			} else {
				ep.pe.FailPeerRead(errBoom)
			}
		case strings.HasPrefix(op, "wf"):
			ep.uw.mu.Lock()
			ep.uw.wmode = op[2:]
			if ep.uw.wmode == "n" {
				ep.uw.wmode = ""
			}
			ep.uw.mu.Unlock()
		}
	}
	return obs
}

// emitAPI runs one history. seg = "" (one record per transport read of the unit) or "all".
func emitAPI(side, suite, seg string, ops []string) {
	desc := fmt.Sprintf("api side=%s suite=%s ops=%s", side, suite, strings.Join(ops, ","))
	if seg == "all" {
		desc = fmt.Sprintf("api side=%s suite=%s seg=all ops=%s", side, suite, strings.Join(ops, ","))
	}
	ep, bad := setup(side, suite, true)
	if bad != "" {
		tr.Line(desc, bad)
		return
	}
	ep.uw.all = seg == "all"
	var obs []string
	pan := hx.Guard(func() { obs = runOps(ep, ops, 0) })
	ep.uut.Close()
	ep.peer.Close()
	ep.pe.Close()
	ep.uw.Close()
	if ep.flightRes != nil { // a Write still in flight at the end of the history: broken by the teardown
		select {
		case <-ep.flightRes:
		case <-time.After(2 * time.Second):
		}
	}
	o := "res=" + strings.Join(obs, ",")
	if len(obs) == 0 {
		o = "res=-"
	}
	if len(ep.peerObs) > 0 {
		o += " peer=" + strings.Join(ep.peerObs, ",")
	}
	if pan != "" {
		o += " panic=" + pan
	}
	tr.Line(desc, o)
}

func phaseAPI(o hx.Opts, r *hx.Rand) {
	thorough := o.Tier == "thorough"
	sides := []string{"client", "server"}
	suites := []string{"gcm"}
	if thorough {
		suites = []string{"gcm", "cbc"}
	}
	for _, side := range sides {
		for _, su := range suites {
			e := func(ops ...string) { emitAPI(side, su, "", ops) }
			ea := func(ops ...string) { emitAPI(side, su, "all", ops) }
			reads := func(k, b int) []string {
				var out []string
				for i := 0; i < k; i++ {
					out = append(out, "R"+strconv.Itoa(b))
				}
				return out
			}
			cat := func(a []string, b ...string) []string { return append(append([]string{}, a...), b...) }
			// witnesses first
			e("pd5", "R2", "C", "R10", "R10")   // Read after Close with plaintext still pending
			e("pd5", "pc", "R10", "R10", "R10") // data, then close_notify: EOF after all data, sticky
			e("pd5", "te", "R10", "R10", "R10") // EOF at a record boundary
			e("C", "C", "R5", "W5", "H", "CW")  // close twice; everything after
			e("CW", "W5", "W5", "pd3", "R5", "CW", "C", "C")
			e("pa2.40", "R5", "R5", "W5", "H", "C") // received fatal alert: reads stay failed, write still works
			e("W3", "pd4", "R10", "W3")
			// the transport ends at every byte offset of the last two records
			for _, n := range []int{7, 1} {
				L := 5 + 8 + n + 16
				if su == "cbc" {
					L = 5 + 16 + (n+32+16)/16*16
				}
				for k := 0; k <= L; k++ {
					e("pd3", fmt.Sprintf("tx%d.%d", n, k), "R10", "R10", "R10", "R10")
					if thorough || k%7 == 0 {
						e(fmt.Sprintf("tx%d.%d", n, k), "R2", "R2", "W1", "C", "R2")
					}
				}
			}
			// alerts of every level x a set of codes, before and after data
			levels := []int{0, 1, 2, 3, 255}
			codes := []int{0, 10, 20, 40, 42, 48, 80, 90, 100, 255}
			for _, l := range levels {
				for _, c := range codes {
					a := fmt.Sprintf("pa%d.%d", l, c)
					e("pd2", a, "pd3", "R10", "R10", "R10", "W1", "R10")
					if thorough {
						e(a, "R1", "H", "W2", "CW", "R1", "C", "C")
					}
				}
			}
			// 16 / 17 warnings
			w16 := []string{}
			for i := 0; i < 16; i++ {
				w16 = append(w16, "pa1.90")
			}
			e(append(append([]string{}, w16...), "pd2", "R5", "R5")...)
			e(append(append([]string{}, w16...), "pa1.90", "pd2", "R5", "R5")...)
			// transport errors
			e("pd2", "tt", "R5", "R5", "pd3", "R5", "R5")
			e("tt", "R5", "pd3", "R5", "W1")
			e("tt", "R5", "tt", "R5", "pd3", "tt", "R5", "R5", "R5")
			e("pd2", "tp", "R5", "R5", "R5", "W1", "C")
			e("wft", "W3", "W3", "wfn", "W3", "R1", "C")
			e("wfp", "W3", "wfn", "W3", "CW", "C", "C")
			e("wft", "CW", "wfn", "CW", "W1", "C")
			e("wfp", "C", "C", "W1")
			// write deadlines: the transport reports a timeout having taken nothing (wft) or half of the
			// record (wfh); the deadline is then cleared (wfn). Every later Write must fail, and the
			// peer must never be handed a record out of sequence (PR = the peer's application reads).
			e("wft", "W3", "wfn", "W3", "PR8", "W2", "PR8")
			e("wft", "W3", "W3", "wfn", "PR8", "W3", "PR8")
			e("W3", "PR8", "wft", "W5", "wfn", "W5", "PR8", "PR8")
			e("wfh", "W40", "wfn", "W3", "PR8", "W3")
			e("W2", "wfh", "W9", "wfn", "W1", "CW", "C")
			e("wft", "W3", "wfn", "CW", "W1", "C", "PR8")
			e("wfp", "W3", "wfn", "W3", "PR8")
			e("wft", "W0", "W3", "wfn", "W0", "W3", "PR8")
			// the unit has half-closed (CloseWrite) and then receives bad input: the error must still be
			// reported, latched, and the alert sent
			w17 := append(append([]string{"CW"}, w16...), "pa1.90", "pd2", "R5", "R5")
			e(w17...)
			e("CW", "pg23", "R5", "R5", "pd3", "R5", "W1")
			e("CW", "pd2", "pg21", "pd3", "R5", "R5", "R5", "PR8", "PR8")
			e("CW", "pa3.90", "R5", "R5", "pd2", "R5", "PR8", "PR8")
			e("CW", "ph5", "R5", "R5", "PR8", "PR8")
			e("CW", "tx7.3", "R5", "R5")
			e("CW", "pa2.40", "R5", "R5", "W1")
			e("CW", "pg22", "pg23", "pd4", "R5", "R5", "C", "R5")
			e("pg23", "R5", "R5", "pd3", "R5", "W1", "PR8")
			e("pd2", "pg22", "R5", "R5", "R5")
			e("W0", "R0", "C", "R0", "W0")
			e("ph5", "pd2", "R5", "R5", "W1")
			// the transport fails exactly at the close_notify record (timeout having taken nothing /
			// permanently / timeout after half of the record) and works again afterwards: the write side
			// is shut down all the same, the result stays reported, nothing more reaches the peer
			for _, f := range []string{"wft", "wfp", "wfh"} {
				e(f, "CW", "wfn", "W1", "W1", "PR8")
				e(f, "CW", "wfn", "CW", "W1", "C", "C")
				e(f, "CW", "wfn", "C", "W1", "CW")
				e("W2", "PR8", f, "CW", "wfn", "W3", "CW", "W3", "C", "PR8")
				e(f, "C", "wfn", "W1", "CW", "C")
				e("pd3", f, "CW", "wfn", "R5", "W1", "pd2", "R5", "CW")
			}
			// ---- a fatal error of the record layer while the transport refuses writes (a write deadline that
			// has lapsed: nothing / half of the alert record is taken; a transport error): the alert is lost,
			// the connection is dead all the same — when the transport works again every Write must fail
			for _, f := range []string{"wft", "wfp", "wfh"} {
				for _, bad := range []string{"pg23", "pg21", "pg22", "ph3", "pa3.40", "pa0.20"} {
					e(f, bad, "R5", "R5", "wfn", "W1", "W1", "C")
					e("pd3", f, bad, "R5", "R5", "wfn", "W2", "R5")
					if thorough || bad == "pg23" {
						e(f, bad, "R5", "wfn", "CW", "W1", "H", "C")
						e("W2", "PR8", f, bad, "R5", "wfn", "W3", "PR8")
						ea("pd3", f, bad, "R3", "R3", "wfn", "W1", "R3")
					}
				}
				e(cat(cat([]string{f}, w16...), "pa1.90", "pd2", "R5", "wfn", "W1", "R5")...)
				ea("pd3", f, "pg21", "R3", "wfn", "W1", "R3") // the look-ahead meets the forgery: bytes and the error, alert lost
			}
			e("wft", "pg23", "wfn", "R5", "W1")   // the deadline is re-armed before the error is detected: the alert goes out
			e("wft", "pd3", "R5", "wfn", "W1")    // no error detected: the Write works
			e("wft", "pa2.40", "R5", "wfn", "W1") // a RECEIVED fatal alert: reads are dead, Write still works (as in crypto/tls)
			// ---- Close while a Write sits in the transport write (WP … WK): the Write is broken, and the
			// connection is closed for every later call whatever was in flight
			e("pd5", "R2", "WP3", "C", "R10", "C", "W1", "WK", "R10", "C", "H")
			e("WP3", "C", "WK", "W1", "C", "R5")
			e("WP3", "C", "C", "R5", "W1", "WP1", "WK", "WK")
			e("WP40", "pd3", "R5", "H", "R0", "C", "WK", "C", "CW", "R5")
			e("WP3", "pc", "R5", "R5", "C", "R5", "WK", "W1")
			e("pd2", "WP3", "te", "R1", "C", "R1", "R1", "WK", "C")
			e("WP3", "pa2.40", "R5", "C", "WK", "R5", "C")
			ea("pd5", "pc", "R2", "WP3", "C", "R9", "R9", "WK", "C")
			ea("pd3", "pd4", "R2", "WP1", "R2", "C", "R9", "WK", "W1")
			// … and without Close the Write cut in two is an ordinary Write
			e("WP3", "WK", "W1", "PR8", "PR8", "C", "C")
			e("WP3", "R0", "H", "pd3", "R5", "WK", "W2", "PR8", "PR8", "CW", "W1")
			e("WP0", "WK", "WP3", "W1", "CW", "WP1", "WK", "W1", "CW", "WK")
			e("WP3", "wfp", "WK", "wfn", "W1", "CW", "C")
			e("WP3", "wft", "WK", "wfn", "W1", "PR8", "C")
			e("WP9", "wfh", "WK", "wfn", "W1", "C")
			e("CW", "WP3", "WK", "C", "WP3", "WK")
			e("C", "WP3", "WK", "R5")
			e("wft", "W3", "wfn", "WP3", "WK")
			// ---- the transport hands over everything it holds in one read (seg=all): what the peer wrote
			// back to back is buffered together, the close-notify look-ahead of Read is live.
			// The peer's last data record and its close_notify / a clean end / a fatal alert, read with
			// buffers smaller than, equal to and larger than the record
			for _, n := range []int{1, 2, 5, 9} {
				seen := map[int]bool{}
				for _, b := range []int{1, 2, n - 1, n, n + 1, 64} {
					if b < 1 || seen[b] {
						continue
					}
					seen[b] = true
					k := (n+b-1)/b + 2
					ea(cat([]string{"pd" + strconv.Itoa(n), "pc"}, reads(k, b)...)...)
					if b <= 2 || b >= n {
						ea(cat([]string{"pd" + strconv.Itoa(n), "te"}, reads(k, b)...)...)
						ea(cat([]string{"pd" + strconv.Itoa(n), "pa2.40"}, reads(k, b)...)...)
					}
				}
			}
			ea("pd3", "pd4", "pc", "R2", "R2", "R2", "R2", "R2", "R2") // two records and the close
			ea("pd3", "pd4", "pc", "R3", "R4", "R4")                   // reads that end exactly on record boundaries
			ea("pd5", "R2", "pc", "R2", "R2", "R2")                    // the close arrives after the last transport read
			ea("pd5", "pc", "R2", "C", "R2")                           // Close with the tail still buffered
			ea("pd5", "pc", "R2", "CW", "R9", "W1", "R9")
			ea("pd3", "pa1.90", "pd4", "pc", "R3", "R2", "R2", "R2") // the look-ahead meets a warning, then more data
			ea("pd3", "pa1.90", "R3", "R3", "pd2", "R3")             // … and then nothing: it waits with the bytes in hand
			ea("pd3", "pa1.90", "tt", "R3", "R3", "pd2", "R3")       // … a timeout behind the warning
			ea("pd3", "pa1.90", "tp", "R3", "R3", "R3")              // … a failed transport behind the warning
			ea("pd3", "pa1.90", "te", "R3", "R3", "R3")              // … a clean end behind the warning
			ea("pd3", "pa1.0", "R2", "R2", "R2")                     // close_notify whatever its level byte
			ea("pd3", "pa3.0", "R3", "R3")
			ea("pd3", "pa3.40", "R3", "R3")                  // an alert of an undefined level
			ea("pd3", "pg21", "R2", "R2", "R2", "pd2", "R2") // garbage typed as an alert right behind the data
			ea("pd3", "pg23", "R3", "R3", "W1")
			ea("pd3", "ph5", "R3", "R3")
			ea("pd3", "tx5.7", "R2", "R2", "R2") // the stream ends inside the next record
			ea("pd3", "tx5.3", "R3", "R3")
			ea("pd3", "tx5.0", "R3", "R3")
			ea("pd0", "pd3", "pd0", "pc", "R1", "R1", "R1", "R1") // empty records around the data
			ea("pc", "pd3", "R3", "R3")                           // data after the close is never delivered
			ea("pd3", "pc", "W2", "R3", "W2", "R3", "H")
		}
	}
	// random histories
	n := 300 * o.Scale
	if thorough {
		n = 20000 * o.Scale
	}
	for i := 0; i < n; i++ {
		side := hx.Pick(r, sides)
		su := hx.Pick(r, suites)
		ln := 2 + r.Intn(12)
		seg := hx.Pick(r, []string{"", "", "", "all", "all"})
		var ops []string
		ended := false    // nothing more may arrive (EOF / permanent error queued)
		needRead := false // a scripted timeout is pending: the next op must be a Read
		peerRecs := 0     // records queued towards the unit
		ttUsed := false   // the transport holds ONE pending read error: at most one scripted timeout per history
		hazard := false   // a record that makes this side send an alert has been queued (pg, ph, alerts of an undefined level)
		for j := 0; j < ln; j++ {
			if needRead {
				ops = append(ops, "R"+strconv.Itoa(1+r.Intn(8)))
				needRead = false
				continue
			}
			if n := len(ops); n > 0 && ops[n-1][0] == 'p' || n > 0 && strings.HasPrefix(ops[n-1], "tx") {
				peerRecs++
			}
			if seg == "all" && peerRecs >= 6 && !ended {
				// keep what is pending in the transport below bytes.MinRead (512 bytes), so that
				// "one read returns everything" holds exactly (6 records of at most 69 wire bytes)
				ended = true
			}
			if r.Intn(100) < 5 {
				// the transport refuses exactly one call's writes and works again afterwards
				ops = append(ops, "wf"+hx.Pick(r, []string{"t", "p", "h"}), hx.Pick(r, []string{"CW", "CW", "C", "W3"}), "wfn")
				continue
			}
			if y := r.Intn(100); y < 4 && !ended {
				// the transport refuses writes at the moment the record layer detects a fatal error (the
				// alert is lost) and works again afterwards
				ops = append(ops, "wf"+hx.Pick(r, []string{"t", "p", "h"}),
					hx.Pick(r, []string{"pg21", "pg22", "pg23", "pg23", "ph2", "pa3.40", "pa0.20"}),
					"R"+strconv.Itoa(hx.Pick(r, []int{1, 5, 64})), "wfn")
				if r.Intn(2) == 0 {
					ops = append(ops, "W"+strconv.Itoa(hx.Pick(r, []int{0, 1, 3})))
				}
				ended = true // what follows a fatal error is never looked at
				hazard = true
				continue
			} else if y < 9 && !hazard {
				// a Write on another goroutine sits in the transport write; reads and what the peer does go
				// on (nothing that makes this side send an alert: that would wait for the mutex the Write
				// holds); Close breaks the Write; calls after Close; then the Write returns
				ops = append(ops, "WP"+strconv.Itoa(hx.Pick(r, []int{0, 1, 3, 40})))
				safe := func(afterClose bool) string {
					z := r.Intn(100)
					switch {
					case z < 35:
						return "R" + strconv.Itoa(hx.Pick(r, []int{0, 1, 2, 5, 64}))
					case z < 45:
						return "H"
					case afterClose && z < 60:
						return "W" + strconv.Itoa(hx.Pick(r, []int{0, 1, 3}))
					case afterClose && z < 75:
						return "C"
					case afterClose && z < 80:
						return "WP1"
					case z < 50:
						return "PR8"
					case ended || (seg == "all" && peerRecs >= 5):
						return "R" + strconv.Itoa(1+r.Intn(8))
					case z < 75:
						peerRecs++
						return "pd" + strconv.Itoa(hx.Pick(r, []int{1, 3, 9}))
					case z < 85:
						peerRecs++
						return "pc"
					case z < 92:
						peerRecs++
						return "pa2." + strconv.Itoa(hx.Pick(r, []int{20, 40}))
					default:
						ended = true
						return "te"
					}
				}
				for k := r.Intn(4); k > 0; k-- {
					ops = append(ops, safe(false))
				}
				if r.Intn(100) < 70 {
					ops = append(ops, "C")
					for k := r.Intn(4); k > 0; k-- {
						ops = append(ops, safe(true))
					}
				}
				ops = append(ops, "WK")
				continue
			}
			x := r.Intn(100)
			switch {
			case x < 20:
				ops = append(ops, "R"+strconv.Itoa(hx.Pick(r, []int{0, 1, 2, 5, 64})))
			case x < 22:
				ops = append(ops, "PR8")
			case x < 34:
				ops = append(ops, "W"+strconv.Itoa(hx.Pick(r, []int{0, 1, 3, 40})))
			case x < 40:
				ops = append(ops, "C")
			case x < 46:
				ops = append(ops, "CW")
			case x < 50:
				ops = append(ops, "H")
			case ended:
				ops = append(ops, "R"+strconv.Itoa(1+r.Intn(8)))
			case x < 66:
				ops = append(ops, "pd"+strconv.Itoa(hx.Pick(r, []int{0, 1, 3, 9})))
			case x < 74:
				lvl := hx.Pick(r, []int{1, 1, 2, 2, 0, 3})
				hazard = hazard || lvl == 0 || lvl == 3
				ops = append(ops, fmt.Sprintf("pa%d.%d", lvl, hx.Pick(r, []int{0, 10, 20, 40, 90, 100})))
			case x < 79:
				ops = append(ops, "pc")
			case x < 83:
				ops = append(ops, "te")
				ended = true
			case x < 88:
				ops = append(ops, fmt.Sprintf("tx%d.%d", 1+r.Intn(6), r.Intn(40)))
				ended = true
			case x < 92:
				if ttUsed {
					ops = append(ops, "R"+strconv.Itoa(1+r.Intn(8)))
					break
				}
				ttUsed = true
				ops = append(ops, "tt")
				needRead = true
			case x < 94:
				ops = append(ops, "tp")
				ended = true
			case x < 96:
				ops = append(ops, "wf"+hx.Pick(r, []string{"t", "p", "n", "h", "n"}))
			case x < 97:
				ops = append(ops, "pg"+strconv.Itoa(hx.Pick(r, []int{21, 22, 23})))
				hazard = true
				ended = true // what follows a forgery is never looked at
			case x < 98:
				ops = append(ops, "PR8")
			default:
				hazard = true
				ops = append(ops, "ph"+strconv.Itoa(1+r.Intn(5)))
			}
		}
		if needRead {
			ops = append(ops, "R3")
		}
		emitAPI(side, su, seg, ops)
	}
}

// ---------------------------------------------------------------------------------------- cancel

func emitCancel(side string, k int, after []string) {
	desc := fmt.Sprintf("cancel side=%s k=%d ops=%s", side, k, strings.Join(after, ","))
	ep, _ := setup(side, "gcm", false)
	ctx, cancel := context.WithCancel(context.Background())
	defer cancel()
	ep.uw.cancelK, ep.uw.cancel = k, cancel
	var e1 error
	var wg sync.WaitGroup
	wg.Add(2)
	go func() { defer wg.Done(); e1 = ep.uut.HandshakeContext(ctx) }()
	go func() {
		defer wg.Done()
		ep.pe.SetReadDeadline(time.Now().Add(5 * time.Second))
		ep.peer.Handshake()
	}()
	wg.Wait()
	ep.uw.mu.Lock()
	// the context was cancelled inside a transport operation of the handshake, i.e. strictly before
	// the handshake completed (the operation only proceeds once the interrupter has closed the
	// transport, or after 3 s if nothing did): the handshake must have been aborted
	fired := ep.uw.fired
	ep.uw.cancel = nil
	ep.uw.mu.Unlock()
	obs := []string{errEnum(e1)}
	pan := hx.Guard(func() { obs = append(obs, runOps(ep, after, 1)...) })
	ep.uut.Close()
	ep.peer.Close()
	ep.pe.Close()
	o := fmt.Sprintf("res=%s fired=%s", strings.Join(obs, ","), b01(fired))
	if pan != "" {
		o += " panic=" + pan
	}
	tr.Line(desc, o)
}

func b01(b bool) string {
	if b {
		return "1"
	}
	return "0"
}

func phaseCancel(o hx.Opts) {
	for _, side := range []string{"client", "server"} {
		// how many transport operations does an undisturbed handshake make?
		ep, _ := setup(side, "gcm", true)
		total := ep.uw.ops
		ep.uut.Close()
		ep.peer.Close()
		for k := 1; k <= total+2; k++ {
			emitCancel(side, k, []string{"H", "R3", "W3", "H", "C", "C"})
			if o.Tier == "thorough" {
				emitCancel(side, k, []string{"W1", "R1", "CW", "H"})
			}
		}
	}
}

// ---------------------------------------------------------------------------------------- early

// splitRecords cuts a handshake flight into its records.
func splitRecords(d []byte) [][]byte {
	var out [][]byte
	for len(d) >= 5 {
		n := int(d[3])<<8 | int(d[4])
		if len(d) < 5+n {
			break
		}
		out = append(out, d[:5+n])
		d = d[5+n:]
	}
	if len(d) > 0 {
		out = append(out, d)
	}
	return out
}

func emitEarly(side string, j int, ln int) {
	ep, _ := setup(side, "gcm", false)
	// the man in the middle sits on what the peer writes; before the j-th record it injects
	// a plaintext application-data record
	count := 0
	afterCCS := false
	injected := false
	first := false
	ep.pe.OnWrite = func(d []byte) [][]byte {
		var out [][]byte
		for _, rec := range splitRecords(d) {
			if count == j && !injected {
				injected = true
				first = count == 0
				body := pattern(7, ln)
				out = append(out, append([]byte{23, 1, 1, byte(ln >> 8), byte(ln)}, body...))
			}
			if !injected && rec[0] == 20 {
				afterCCS = true
			}
			count++
			out = append(out, rec)
		}
		return out
	}
	var e1 error
	var wg sync.WaitGroup
	wg.Add(2)
	go func() { defer wg.Done(); e1 = ep.uut.Handshake() }()
	go func() {
		defer wg.Done()
		ep.pe.SetReadDeadline(time.Now().Add(400 * time.Millisecond))
		ep.peer.Handshake()
	}()
	wg.Wait()
	ep.pe.OnWrite = nil
	obs := []string{errEnum(e1)}
	pan := hx.Guard(func() { obs = append(obs, runOps(ep, []string{"R8", "H", "W1"}, 1)...) })
	ep.uut.Close()
	ep.peer.Close()
	ep.pe.Close()
	desc := fmt.Sprintf("early side=%s j=%d len=%d injected=%s first=%s afterccs=%s", side, j, ln, b01(injected), b01(first), b01(afterCCS))
	o := "res=" + strings.Join(obs, ",")
	if pan != "" {
		o += " panic=" + pan
	}
	tr.Line(desc, o)
}

func phaseEarly(o hx.Opts) {
	for _, side := range []string{"client", "server"} {
		for j := 0; j < 8; j++ {
			for _, ln := range []int{3, 0, 40} {
				emitEarly(side, j, ln)
			}
		}
	}
}

// ---------------------------------------------------------------------------------------- dial

const (
	dialLong   = 30 * time.Second       // a bound of the net.Dialer that must not matter
	dialShort  = 200 * time.Millisecond // a bound of the net.Dialer that ends the call
	dialCancel = 50 * time.Millisecond  // the caller cancels this long after the peer began to stall
	dialCtxDl  = 300 * time.Millisecond // the deadline of the caller's context
	dialBound  = 2 * time.Second        // "prompt": returned within this of the context ending
)

func dialErrClass(err error) string {
	var ne net.Error
	switch {
	case err == nil:
		return "ok"
	case errors.Is(err, context.Canceled):
		return "ctx"
	case errors.Is(err, context.DeadlineExceeded):
		return "ctxdl"
	case errors.As(err, &ne) && ne.Timeout():
		return "timeout"
	}
	return errEnum(err)
}

// stallPeer accepts one connection on ln and stalls at the given point of the handshake (stalled
// is closed when it is there); it keeps the connection open until stop is closed.
func stallPeer(ln net.Listener, stall string, stalled, stop chan struct{}) {
	c, err := ln.Accept()
	if err != nil {
		close(stalled)
		return
	}
	defer c.Close()
	if stall == "hello" || stall == "partial" {
		// the ClientHello record
		hdr := make([]byte, 5)
		c.SetReadDeadline(time.Now().Add(5 * time.Second))
		if _, err := io.ReadFull(c, hdr); err == nil {
			io.ReadFull(c, make([]byte, int(hdr[3])<<8|int(hdr[4])))
		}
	}
	if stall == "partial" {
		// the header of an 80-byte handshake record and the first bytes of a ServerHello
		c.Write([]byte{22, 1, 1, 0, 80, 2, 0, 0, 76, 1, 1})
	}
	close(stalled)
	<-stop
}

// dialOnce runs one scenario. The subject is a context that ends while the HANDSHAKE waits: when
// the call came back before the peer had reached its stalling point although the caller's context
// was not cancelled beforehand (a loaded machine: the context ended while net.Dialer was still
// connecting, whose timeout errors are the net package's), the scenario is run again.
func dialOnce(nd, stall, caller string) string {
	cfg := pair.TClient() // (the first call makes the certificates: not inside the timed part)
	r := ""
	for try := 0; try < 4; try++ {
		var reached bool
		r, reached = dialTry(cfg, nd, stall, caller)
		if reached || caller == "pre" {
			break
		}
	}
	return r
}

func dialTry(cfg *tlcp.Config, nd, stall, caller string) (string, bool) {
	ln, err := net.Listen("tcp", "127.0.0.1:0")
	if err != nil {
		return "res=nolisten when=prompt", true
	}
	stalled, stop := make(chan struct{}), make(chan struct{})
	defer close(stop)
	defer ln.Close()
	go stallPeer(ln, stall, stalled, stop)

	d := &net.Dialer{}
	ended := make(chan struct{}) // closed when the context of the call has ended
	var once sync.Once
	end := func() { once.Do(func() { close(ended) }) }
	switch nd {
	case "to":
		d.Timeout = dialLong
	case "dl":
		d.Deadline = time.Now().Add(dialLong)
	case "both":
		d.Timeout = dialLong
		d.Deadline = time.Now().Add(dialLong + time.Second)
	case "shortto":
		d.Timeout = dialShort
		time.AfterFunc(dialShort, end)
	case "shortdl":
		d.Deadline = time.Now().Add(dialShort)
		time.AfterFunc(dialShort, end)
	}
	ctx, cancel := context.Background(), context.CancelFunc(func() {})
	switch caller {
	case "cancel":
		// while the handshake waits for the stalled peer
		ctx, cancel = context.WithCancel(ctx)
		go func() {
			select {
			case <-stalled:
			case <-time.After(5 * time.Second):
			}
			time.Sleep(dialCancel)
			cancel()
			end()
		}()
	case "pre":
		ctx, cancel = context.WithCancel(ctx)
		cancel()
		end()
	case "deadline":
		ctx, cancel = context.WithTimeout(ctx, dialCtxDl)
		time.AfterFunc(dialCtxDl, end)
	}
	defer cancel()
	dialer := &tlcp.Dialer{NetDialer: d, Config: cfg}
	isStalled := func() bool {
		select {
		case <-stalled:
			return true
		case <-time.After(500 * time.Millisecond):
			// (the peer may still be reading the ClientHello when the call is already back)
			return false
		}
	}
	res := make(chan string, 1)
	go func() {
		var c net.Conn
		var err error
		if p := hx.Guard(func() { c, err = dialer.DialContext(ctx, "tcp", ln.Addr().String()) }); p != "" {
			res <- "panic." + p
			return
		}
		if c != nil {
			c.Close()
		}
		cl := dialErrClass(err)
		if caller == "never" && cl == "ctxdl" {
			// the dialer's own bound: the error of the derived context or of the connect, a timeout
			cl = "timeout"
		}
		res <- cl
	}()
	select {
	case r := <-res:
		return "res=" + r + " when=prompt", isStalled()
	case <-ended:
	}
	select {
	case r := <-res:
		return "res=" + r + " when=prompt", isStalled()
	case <-time.After(dialBound):
		// still inside DialContext: the deferred calls close the peer's end and the listener, the
		// call is left to itself
		return "res=blocked when=late", true
	}
}

func dialDesc(nd, stall, caller string) string {
	return fmt.Sprintf("dial nd=%s stall=%s caller=%s", nd, stall, caller)
}

func phaseDial(o hx.Opts) {
	type cs struct{ nd, stall, caller string }
	var cases []cs
	for _, stall := range []string{"accept", "hello", "partial"} {
		for _, nd := range []string{"none", "to", "dl", "both"} {
			for _, caller := range []string{"cancel", "deadline"} {
				cases = append(cases, cs{nd, stall, caller})
			}
		}
		cases = append(cases, cs{"shortto", stall, "never"}, cs{"shortdl", stall, "never"})
	}
	for _, nd := range []string{"none", "to", "dl", "both"} {
		cases = append(cases, cs{nd, "accept", "pre"})
	}
	// the cases do nothing but wait: run them side by side, report them in order
	out := make([]string, len(cases))
	var wg sync.WaitGroup
	for i, c := range cases {
		wg.Add(1)
		go func() { defer wg.Done(); out[i] = dialOnce(c.nd, c.stall, c.caller) }()
	}
	wg.Wait()
	for i, c := range cases {
		tr.Line(dialDesc(c.nd, c.stall, c.caller), out[i])
	}
}

func main() {
	o := hx.ParseOpts()
	tr = hx.NewTrace(o.Out)
	defer tr.Close()
	if o.Replay != "" {
		for _, c := range hx.ReplayCases(o.Replay) {
			side, _ := hx.KV(c, "side")
			opsS, _ := hx.KV(c, "ops")
			var ops []string
			if opsS != "" && opsS != "-" {
				ops = strings.Split(opsS, ",")
			}
			switch strings.Fields(c)[0] {
			case "api":
				su, _ := hx.KV(c, "suite")
				seg, _ := hx.KV(c, "seg")
				emitAPI(side, su, seg, ops)
			case "cancel":
				emitCancel(side, hx.KVInt(c, "k"), ops)
			case "early":
				emitEarly(side, hx.KVInt(c, "j"), hx.KVInt(c, "len"))
			case "dial":
				nd, _ := hx.KV(c, "nd")
				stall, _ := hx.KV(c, "stall")
				caller, _ := hx.KV(c, "caller")
				tr.Line(dialDesc(nd, stall, caller), dialOnce(nd, stall, caller))
			}
		}
		return
	}
	r := hx.NewRand(o.Seed)
	switch o.Phase {
	case "api":
		phaseAPI(o, r)
	case "cancel":
		phaseCancel(o)
	case "early":
		phaseEarly(o)
	case "dial":
		phaseDial(o)
	default:
		phaseAPI(o, r)
		phaseCancel(o)
		phaseEarly(o)
		phaseDial(o)
	}
}

package main

// Facts of session resumption (C10, and the connection half of C11), per stack:
//
//   - resClientFullOrder / resClientResumeOrder / resServerFullOrder / resServerResumeOrder:
//     the ORDER of the calls establishKeys / sendFinished / readFinished / createNewSession /
//     createSessionState / doFullHandshake / doResumeHandshake / pickCipherSuite in the two
//     branches of clientHandshakeState.handshake() and serverHandshakeState.handshake()
//     (F16 is visible here: createNewSession before readFinished);
//   - resClientPutArgs: the value expressions of the SessionCache.Put calls in
//     createNewSession, and resClientPutDistinct (F5: the same expression twice = one object
//     under two keys);
//   - resCleanupGuard / resCleanupKeys: the condition and the keys of the deferred cleanup in
//     clientHandshake;
//   - resLoadKey: the argument of SessionCache.Get in loadSession; resLoadVerifiesCerts: whether
//     loadSession refuses (returns no session) when the recorded certificates do not verify;
//     resLoadClones: whether the handshake gets its own copy of the cached session (F40);
//   - resServerGuards: the conditions under which checkForResumption returns false, in order
//     (INFORMATIONAL since the translation tie Tie/ResumeDecision.lean; never "missing");
//   - resClientResumedExpr: the expression returned by serverResumedSession; resClientChecks:
//     the conditions of the error returns that follow it in processServerHello;
//   - resSessionIdLen / resSessionIdFromRand: `hs.hello.sessionId = make([]byte, N)` filled by
//     io.ReadFull(c.config.rand(), …) in the server's doFullHandshake;
//     resSessionIdWrites: EVERY assignment to hs.hello.sessionId in doFullHandshake with its enclosing
//     conditions ("fresh:<n>" = make([]byte, n)), resSessionIdRandGuards: the conditions enclosing that
//     io.ReadFull (a full handshake always names a fresh identifier: one unconditional write);
//   - resServerPutCount: number of SessionCache.Put calls in createSessionState;
//   - the server's view of its peer on the resumption path:
//     resResumeCertGuards: the conditions that enclose the call of c.processCertsFromClient in
//     doResumeHandshake (empty = unconditional), resResumeCertArg its argument, resResumeCertSource
//     the expression the argument's certificate list is collected from, resResumeVerifyConnGuards
//     the conditions enclosing the call of c.config.VerifyConnection there;
//     resServerPeerWriters: the functions of handshake_server.go that assign c.peerCertificates;
//     resSessionPeerExpr: what createSessionState records as peerCertificates, and
//     resFullRecordsPeer: doFullHandshake sets hs.peerCertificates = c.peerCertificates;
//   - resOfferedIdReaders: the functions of handshake_server.go that read the session identifier
//     OFFERED by the client (`….clientHello.sessionId`, directly or through a local alias) — the
//     identifier is opaque SessionID<0..32>: it is a cache key (checkForResumption) and is echoed
//     (doResumeHandshake), nothing else may look at it, its length in particular.

import (
	"fmt"
	"go/ast"
	"sort"
	"strings"
)

func init() {
	extraFactFns = append(extraFactFns, emitResumption)
	for _, st := range []string{"tlcp", "dtlcp"} {
		extraHashed[st] = append(extraHashed[st],
			"Conn.loadSession", "Conn.clientHandshake", "clientHandshakeState.handshake",
			"clientHandshakeState.processServerHello", "clientHandshakeState.serverResumedSession",
			"clientHandshakeState.createNewSession", "serverHandshakeState.handshake",
			"serverHandshakeState.checkForResumption", "serverHandshakeState.doResumeHandshake",
			"serverHandshakeState.createSessionState", "serverHandshakeState.processClientHello")
	}
}

var resInteresting = map[string]bool{
	"establishKeys": true, "sendFinished": true, "readFinished": true, "createNewSession": true,
	"createSessionState": true, "doFullHandshake": true, "doResumeHandshake": true, "pickCipherSuite": true,
}

// callsInOrder lists the interesting `hs.X(...)` calls of a statement list in source order.
func callsInOrder(stmts []ast.Stmt) []string {
	var out []string
	for _, st := range stmts {
		ast.Inspect(st, func(n ast.Node) bool {
			if ce, ok := n.(*ast.CallExpr); ok {
				if se, ok := ce.Fun.(*ast.SelectorExpr); ok {
					if x, ok := se.X.(*ast.Ident); ok && x.Name == "hs" && resInteresting[se.Sel.Name] {
						out = append(out, se.Sel.Name)
					}
				}
			}
			return true
		})
	}
	return out
}

// branches finds the first top-level `if <cond> { A } else { B }` whose condition has the
// given source text and returns the call orders of A and B.
func branches(p *pkg, key, cond string) (then, els []string, ok bool) {
	for _, st := range body(p, key) {
		is, isIf := st.(*ast.IfStmt)
		if !isIf || p.src(is.Cond) != cond {
			continue
		}
		eb, isBlock := is.Else.(*ast.BlockStmt)
		if !isBlock {
			continue
		}
		return callsInOrder(is.Body.List), callsInOrder(eb.List), true
	}
	return nil, nil, false
}

// putCalls returns (key expr, value expr) of every `….SessionCache.Put(k, v)` below n.
func putCalls(p *pkg, n ast.Node) (keys, vals []string) {
	ast.Inspect(n, func(n ast.Node) bool {
		if ce, ok := n.(*ast.CallExpr); ok && len(ce.Args) == 2 {
			if strings.HasSuffix(p.src(ce.Fun), ".SessionCache.Put") {
				keys = append(keys, p.src(ce.Args[0]))
				vals = append(vals, p.src(ce.Args[1]))
			}
		}
		return true
	})
	return
}

func emitResumption(e *emitter, p *pkg) {
	if p.name != "tlcp" && p.name != "dtlcp" {
		return
	}
	e.comment("session resumption (handshake_client.go / handshake_server.go)")
	miss := func(name string) { e.missing = append(e.missing, e.key(name)) }

	resume, full, ok := branches(p, "clientHandshakeState.handshake", "isResume")
	e.strList("resClientResumeOrder", resume)
	e.strList("resClientFullOrder", full)
	if !ok {
		miss("resClientFullOrder")
	}
	sresume, sfull, ok := branches(p, "serverHandshakeState.handshake", "hs.checkForResumption()")
	e.strList("resServerResumeOrder", sresume)
	e.strList("resServerFullOrder", sfull)
	if !ok {
		miss("resServerFullOrder")
	}

	// createNewSession: the Put calls
	var keys, vals []string
	if fd := p.funcs["clientHandshakeState.createNewSession"]; fd != nil && fd.Body != nil {
		keys, vals = putCalls(p, fd.Body)
	}
	e.strList("resClientPutKeys", keys)
	e.strList("resClientPutArgs", vals)
	distinct := len(vals) > 0
	for i := range vals {
		for j := i + 1; j < len(vals); j++ {
			if vals[i] == vals[j] {
				distinct = false
			}
		}
	}
	e.boolean("resClientPutDistinct", distinct)
	if len(vals) == 0 {
		miss("resClientPutArgs")
	}

	// deferred cleanup in clientHandshake
	guard := ""
	var ckeys, cvals []string
	for _, st := range body(p, "Conn.clientHandshake") {
		ds, ok := st.(*ast.DeferStmt)
		if !ok {
			continue
		}
		fl, ok := ds.Call.Fun.(*ast.FuncLit)
		if !ok {
			continue
		}
		for _, s := range fl.Body.List {
			if is, ok := s.(*ast.IfStmt); ok && is.Else == nil {
				k, v := putCalls(p, is.Body)
				if len(k) > 0 {
					guard = p.src(is.Cond)
					ckeys, cvals = k, v
				}
			}
		}
	}
	e.str("resCleanupGuard", guard)
	e.strList("resCleanupKeys", ckeys)
	allNil := len(cvals) > 0
	for _, v := range cvals {
		if v != "nil" {
			allNil = false
		}
	}
	e.boolean("resCleanupPutsNil", allNil)
	if guard == "" {
		miss("resCleanupGuard")
	}

	// loadSession: key of the lookup
	loadKey := ""
	if fd := p.funcs["Conn.loadSession"]; fd != nil && fd.Body != nil {
		ast.Inspect(fd.Body, func(n ast.Node) bool {
			if ce, ok := n.(*ast.CallExpr); ok && len(ce.Args) == 1 && strings.HasSuffix(p.src(ce.Fun), ".SessionCache.Get") {
				loadKey = p.src(ce.Args[0])
			}
			return true
		})
	}
	// does loadSession re-verify the recorded certificates before offering the session (F13 repair)?
	loadVerifies := false
	if fd := p.funcs["Conn.loadSession"]; fd != nil && fd.Body != nil {
		for _, st := range fd.Body.List {
			if is, ok := st.(*ast.IfStmt); ok && is.Init != nil && strings.Contains(p.src(is.Init), "verifySessionCertificates(session.peerCertificates)") && p.src(is.Cond) == "err != nil" {
				for _, b := range is.Body.List {
					if rs, ok := b.(*ast.ReturnStmt); ok && len(rs.Results) == 2 && p.src(rs.Results[1]) == "nil" {
						loadVerifies = true
					}
				}
			}
		}
	}
	e.boolean("resLoadVerifiesCerts", loadVerifies)
	// does the handshake work on its own copy of the loaded session (F40 repair)?
	loadClones := false
	if fd := p.funcs["Conn.loadSession"]; fd != nil && fd.Body != nil {
		for _, st := range fd.Body.List {
			if as, ok := st.(*ast.AssignStmt); ok && len(as.Lhs) == 1 && len(as.Rhs) == 1 &&
				p.src(as.Lhs[0]) == "session" && p.src(as.Rhs[0]) == "session.clone()" {
				loadClones = true
			}
		}
	}
	e.boolean("resLoadClones", loadClones)
	e.str("resLoadKey", loadKey)
	if loadKey == "" {
		miss("resLoadKey")
	}

	// checkForResumption: conditions of the top-level `if c { return false }`
	var guards []string
	endsTrue := false
	for _, st := range body(p, "serverHandshakeState.checkForResumption") {
		switch s := st.(type) {
		case *ast.IfStmt:
			if s.Else == nil && len(s.Body.List) == 1 {
				if rs, ok := s.Body.List[0].(*ast.ReturnStmt); ok && len(rs.Results) == 1 && p.src(rs.Results[0]) == "false" {
					guards = append(guards, p.src(s.Cond))
				}
			}
		case *ast.ReturnStmt:
			endsTrue = len(s.Results) == 1 && p.src(s.Results[0]) == "true"
		}
	}
	// informational since the translation tie (checkForResumption is translated to Lean on every run and
	// lean/Gotlcp/Tie/ResumeDecision.lean proves when the translated text answers true and that its decision is the
	// model's): not pinned by C10_facts, never "missing" — a renamed local or a re-arranged guard must not fail
	// every property's check
	e.strList("resServerGuards", guards)
	e.boolean("resServerGuardsEndTrue", endsTrue)

	// serverResumedSession: returned expression
	expr := ""
	for _, st := range body(p, "clientHandshakeState.serverResumedSession") {
		if rs, ok := st.(*ast.ReturnStmt); ok && len(rs.Results) == 1 {
			expr = p.src(rs.Results[0])
		}
	}
	e.str("resClientResumedExpr", expr)
	if expr == "" {
		miss("resClientResumedExpr")
	}

	// processServerHello: the checks after `if !hs.serverResumedSession() { return false, nil }`
	var checks []string
	seen := false
	for _, st := range body(p, "clientHandshakeState.processServerHello") {
		is, ok := st.(*ast.IfStmt)
		if !ok {
			continue
		}
		c := p.src(is.Cond)
		if c == "!hs.serverResumedSession()" {
			seen = true
			continue
		}
		if !seen {
			continue
		}
		// a check is an if whose then- or else-branch returns an error
		retErr := func(b *ast.BlockStmt) bool {
			if b == nil {
				return false
			}
			for _, s := range b.List {
				if rs, ok := s.(*ast.ReturnStmt); ok && len(rs.Results) == 2 && p.src(rs.Results[1]) != "nil" {
					return true
				}
			}
			return false
		}
		if retErr(is.Body) {
			checks = append(checks, c)
		} else if eb, ok := is.Else.(*ast.BlockStmt); ok && retErr(eb) {
			checks = append(checks, "!("+c+")")
		}
	}
	e.strList("resClientChecks", checks)
	if !seen {
		miss("resClientChecks")
	}

	// server doFullHandshake: session id generation
	var idLen int64
	okLen, fromRand := false, false
	if fd := p.funcs["serverHandshakeState.doFullHandshake"]; fd != nil && fd.Body != nil {
		ast.Inspect(fd.Body, func(n ast.Node) bool {
			switch s := n.(type) {
			case *ast.AssignStmt:
				if len(s.Lhs) == 1 && len(s.Rhs) == 1 && p.src(s.Lhs[0]) == "hs.hello.sessionId" {
					if ce, ok := s.Rhs[0].(*ast.CallExpr); ok && p.src(ce.Fun) == "make" && len(ce.Args) == 2 && p.src(ce.Args[0]) == "[]byte" {
						idLen, okLen = p.evalInt(ce.Args[1], 0, 0)
					}
				}
			case *ast.CallExpr:
				if p.src(s.Fun) == "io.ReadFull" && len(s.Args) == 2 && strings.HasSuffix(p.src(s.Args[0]), "config.rand()") && p.src(s.Args[1]) == "hs.hello.sessionId" {
					fromRand = true
				}
			}
			return true
		})
	}
	e.nat("resSessionIdLen", idLen, okLen)
	e.boolean("resSessionIdFromRand", fromRand)

	// createSessionState: one Put
	var skeys []string
	if fd := p.funcs["serverHandshakeState.createSessionState"]; fd != nil && fd.Body != nil {
		skeys, _ = putCalls(p, fd.Body)
	}
	e.nat("resServerPutCount", int64(len(skeys)), true)

	// the server's peer identity on the resumption path
	guardsOf := func(key string, match func(*ast.CallExpr) bool) (guards []string, arg string, found bool) {
		var walk func(stmts []ast.Stmt, conds []string)
		check := func(n ast.Node, conds []string) {
			if n == nil {
				return
			}
			ast.Inspect(n, func(x ast.Node) bool {
				if _, isLit := x.(*ast.FuncLit); isLit {
					return false
				}
				if ce, ok := x.(*ast.CallExpr); ok && match(ce) && !found {
					found = true
					guards = append([]string{}, conds...)
					if len(ce.Args) == 1 {
						arg = p.src(ce.Args[0])
					}
				}
				return true
			})
		}
		walk = func(stmts []ast.Stmt, conds []string) {
			for _, st := range stmts {
				switch s := st.(type) {
				case *ast.IfStmt:
					check(s.Init, conds)
					check(s.Cond, conds)
					c := p.src(s.Cond)
					walk(s.Body.List, append(append([]string{}, conds...), c))
					switch el := s.Else.(type) {
					case *ast.BlockStmt:
						walk(el.List, append(append([]string{}, conds...), "!("+c+")"))
					case *ast.IfStmt:
						walk([]ast.Stmt{el}, append(append([]string{}, conds...), "!("+c+")"))
					}
				case *ast.ForStmt:
					walk(s.Body.List, append(append([]string{}, conds...), "for"))
				case *ast.RangeStmt:
					walk(s.Body.List, append(append([]string{}, conds...), "range "+p.src(s.X)))
				case *ast.BlockStmt:
					walk(s.List, conds)
				case *ast.SwitchStmt:
					walk(s.Body.List, append(append([]string{}, conds...), "switch"))
				case *ast.CaseClause:
					walk(s.Body, conds)
				default:
					check(st, conds)
				}
			}
		}
		walk(body(p, key), nil)
		return
	}
	// EVERY write of the ServerHello's session identifier in doFullHandshake, with the conditions that
	// enclose it ("cond && cond => rhs"; unconditional: "rhs"), and the conditions enclosing the draw from
	// Config.rand: a full handshake must ALWAYS name a fresh identifier (one unconditional make + ReadFull) —
	// an identifier taken from anywhere else (the offered one, the session found in the cache) on some
	// path makes the client take the ServerHello of a full handshake for a resumption
	var idWrites []string
	{
		var walk func(stmts []ast.Stmt, conds []string)
		note := func(st ast.Stmt, conds []string) {
			ast.Inspect(st, func(x ast.Node) bool {
				if _, isLit := x.(*ast.FuncLit); isLit {
					return false
				}
				if as, ok := x.(*ast.AssignStmt); ok {
					for i, l := range as.Lhs {
						if p.src(l) == "hs.hello.sessionId" {
							rhs := "?"
							if len(as.Rhs) == len(as.Lhs) {
								rhs = p.src(as.Rhs[i])
								// a new buffer of n bytes (to be filled from Config.rand): "fresh:<n>"
								if ce, ok := as.Rhs[i].(*ast.CallExpr); ok && p.src(ce.Fun) == "make" && len(ce.Args) == 2 && p.src(ce.Args[0]) == "[]byte" {
									if n, ok := p.evalInt(ce.Args[1], 0, 0); ok {
										rhs = fmt.Sprintf("fresh:%d", n)
									}
								}
							}
							if len(conds) > 0 {
								rhs = strings.Join(conds, " && ") + " => " + rhs
							}
							idWrites = append(idWrites, rhs)
						}
					}
				}
				return true
			})
		}
		walk = func(stmts []ast.Stmt, conds []string) {
			for _, st := range stmts {
				switch s := st.(type) {
				case *ast.IfStmt:
					if s.Init != nil {
						note(s.Init, conds)
					}
					c := p.src(s.Cond)
					walk(s.Body.List, append(append([]string{}, conds...), c))
					switch el := s.Else.(type) {
					case *ast.BlockStmt:
						walk(el.List, append(append([]string{}, conds...), "!("+c+")"))
					case *ast.IfStmt:
						walk([]ast.Stmt{el}, append(append([]string{}, conds...), "!("+c+")"))
					}
				case *ast.ForStmt:
					walk(s.Body.List, append(append([]string{}, conds...), "for"))
				case *ast.RangeStmt:
					walk(s.Body.List, append(append([]string{}, conds...), "range "+p.src(s.X)))
				case *ast.BlockStmt:
					walk(s.List, conds)
				case *ast.SwitchStmt:
					walk(s.Body.List, append(append([]string{}, conds...), "switch"))
				case *ast.TypeSwitchStmt:
					walk(s.Body.List, append(append([]string{}, conds...), "switch"))
				case *ast.SelectStmt:
					walk(s.Body.List, append(append([]string{}, conds...), "select"))
				case *ast.CaseClause:
					walk(s.Body, conds)
				case *ast.CommClause:
					walk(s.Body, conds)
				case *ast.LabeledStmt:
					walk([]ast.Stmt{s.Stmt}, conds)
				default:
					note(st, conds)
				}
			}
		}
		walk(body(p, "serverHandshakeState.doFullHandshake"), nil)
	}
	e.strList("resSessionIdWrites", idWrites)
	rg, _, rfound := guardsOf("serverHandshakeState.doFullHandshake", func(ce *ast.CallExpr) bool {
		return p.src(ce.Fun) == "io.ReadFull" && len(ce.Args) == 2 && strings.HasSuffix(p.src(ce.Args[0]), "config.rand()") && p.src(ce.Args[1]) == "hs.hello.sessionId"
	})
	e.strList("resSessionIdRandGuards", rg)
	if len(idWrites) == 0 || !rfound {
		miss("resSessionIdWrites")
	}
	cg, carg, cfound := guardsOf("serverHandshakeState.doResumeHandshake", func(ce *ast.CallExpr) bool {
		return p.src(ce.Fun) == "c.processCertsFromClient"
	})
	e.strList("resResumeCertGuards", cg)
	e.str("resResumeCertArg", carg)
	if !cfound {
		miss("resResumeCertGuards")
	}
	// where the certificate list of that argument comes from: a top-level
	// `for _, cert := range X { sessionCerts = append(sessionCerts, cert.Raw) }`
	source := ""
	for _, st := range body(p, "serverHandshakeState.doResumeHandshake") {
		if rs, ok := st.(*ast.RangeStmt); ok && len(rs.Body.List) == 1 {
			if as, ok := rs.Body.List[0].(*ast.AssignStmt); ok && len(as.Lhs) == 1 && len(as.Rhs) == 1 &&
				p.src(as.Lhs[0]) == "sessionCerts" && p.src(as.Rhs[0]) == "append(sessionCerts, "+p.src(rs.Value)+".Raw)" {
				source = p.src(rs.X)
			}
		}
	}
	e.str("resResumeCertSource", source)
	vg, _, vfound := guardsOf("serverHandshakeState.doResumeHandshake", func(ce *ast.CallExpr) bool {
		return p.src(ce.Fun) == "c.config.VerifyConnection"
	})
	e.strList("resResumeVerifyConnGuards", vg)
	if !vfound {
		miss("resResumeVerifyConnGuards")
	}
	// who assigns c.peerCertificates on the server side
	var writers []string
	for key, fd := range p.funcs {
		if fd.Body == nil || p.fset.Position(fd.Pos()).Filename == "" || !strings.HasSuffix(p.fset.Position(fd.Pos()).Filename, "handshake_server.go") {
			continue
		}
		w := false
		ast.Inspect(fd.Body, func(n ast.Node) bool {
			if as, ok := n.(*ast.AssignStmt); ok {
				for _, l := range as.Lhs {
					if s := p.src(l); s == "c.peerCertificates" || s == "hs.c.peerCertificates" {
						w = true
					}
				}
			}
			return true
		})
		if w {
			writers = append(writers, key)
		}
	}
	sort.Strings(writers)
	e.strList("resServerPeerWriters", writers)
	// what the server's session records as the peer
	peerExpr := ""
	if fd := p.funcs["serverHandshakeState.createSessionState"]; fd != nil && fd.Body != nil {
		ast.Inspect(fd.Body, func(n ast.Node) bool {
			if kv, ok := n.(*ast.KeyValueExpr); ok && p.src(kv.Key) == "peerCertificates" {
				peerExpr = p.src(kv.Value)
			}
			return true
		})
	}
	e.str("resSessionPeerExpr", peerExpr)
	if peerExpr == "" {
		miss("resSessionPeerExpr")
	}
	records := false
	for _, st := range body(p, "serverHandshakeState.doFullHandshake") {
		ast.Inspect(st, func(n ast.Node) bool {
			if as, ok := n.(*ast.AssignStmt); ok && len(as.Lhs) == 1 && len(as.Rhs) == 1 &&
				p.src(as.Lhs[0]) == "hs.peerCertificates" && p.src(as.Rhs[0]) == "c.peerCertificates" {
				records = true
			}
			return true
		})
	}
	e.boolean("resFullRecordsPeer", records)
	// who reads the session identifier offered by the client on the server side
	var readers []string
	for key, fd := range p.funcs {
		if fd.Body == nil || !strings.HasSuffix(p.fset.Position(fd.Pos()).Filename, "handshake_server.go") {
			continue
		}
		reads := false
		ast.Inspect(fd.Body, func(n ast.Node) bool {
			if se, ok := n.(*ast.SelectorExpr); ok && se.Sel.Name == "sessionId" {
				switch x := se.X.(type) {
				case *ast.SelectorExpr:
					reads = reads || x.Sel.Name == "clientHello"
				case *ast.Ident:
					reads = reads || x.Name == "clientHello"
				}
			}
			return true
		})
		if reads {
			readers = append(readers, key)
		}
	}
	sort.Strings(readers)
	e.strList("resOfferedIdReaders", readers)
	if len(readers) == 0 {
		miss("resOfferedIdReaders")
	}
}

package main

// Transcript-membership facts for C03.
//
// For each handshake function of tlcp / dtlcp the ordered list of the calls that decide what
// enters `finishedHash`:
//
//	R:nil | R:hash            c.readHandshake(nil | &hs.finishedHash)
//	W:<msg>:nil | W:<msg>:hash c.writeHandshakeRecord(<msg>, nil | &hs.finishedHash)
//	T:<msg>                   transcriptMsg(<msg>, &hs.finishedHash)
//	CCSR / CCSW               c.readChangeCipherSpec() / c.writeChangeCipherRecord()
//	SUM:client | SUM:server   hs.finishedHash.clientSum / serverSum
//	NEW                       newFinishedHash(…)
//
// plus, from readRecordOrCCS, the guards of the ChangeCipherSpec and handshake cases and the
// record-version comparison, and the Finished comparisons of both readFinished functions.

import (
	"go/ast"
	"strings"
)

func init() {
	extraFactFns = append(extraFactFns, emitTranscript)
	for _, p := range []string{"tlcp", "dtlcp"} {
		extraHashed[p] = append(extraHashed[p],
			"Conn.clientHandshake", "clientHandshakeState.handshake", "clientHandshakeState.doFullHandshake",
			"clientHandshakeState.readFinished", "clientHandshakeState.sendFinished",
			"Conn.readClientHello", "Conn.serverHandshake", "serverHandshakeState.handshake", "serverHandshakeState.doFullHandshake",
			"serverHandshakeState.doResumeHandshake", "serverHandshakeState.readFinished",
			"serverHandshakeState.sendFinished", "Conn.readRecordOrCCS", "Conn.readHandshake",
			"Conn.writeHandshakeRecord", "transcriptMsg")
	}
}

func trArg(p *pkg, e ast.Expr) string {
	s := strings.ReplaceAll(p.src(e), " ", "")
	if s == "nil" {
		return "nil"
	}
	if strings.Contains(s, "finishedHash") {
		return "hash"
	}
	return s
}

func trCalls(p *pkg, key string) ([]string, bool) {
	fd := p.funcs[key]
	if fd == nil || fd.Body == nil {
		return nil, false
	}
	var out []string
	ast.Inspect(fd.Body, func(n ast.Node) bool {
		call, ok := n.(*ast.CallExpr)
		if !ok {
			return true
		}
		name := ""
		switch f := call.Fun.(type) {
		case *ast.SelectorExpr:
			name = f.Sel.Name
		case *ast.Ident:
			name = f.Name
		}
		switch name {
		case "readHandshake":
			if len(call.Args) == 1 {
				out = append(out, "R:"+trArg(p, call.Args[0]))
			}
		case "writeHandshakeRecord":
			if len(call.Args) == 2 {
				out = append(out, "W:"+strings.ReplaceAll(p.src(call.Args[0]), " ", "")+":"+trArg(p, call.Args[1]))
			}
		case "transcriptMsg":
			if len(call.Args) == 2 {
				out = append(out, "T:"+strings.ReplaceAll(p.src(call.Args[0]), " ", ""))
			}
		case "readChangeCipherSpec":
			out = append(out, "CCSR")
		case "writeChangeCipherRecord":
			out = append(out, "CCSW")
		case "clientSum":
			out = append(out, "SUM:client")
		case "serverSum":
			out = append(out, "SUM:server")
		case "newFinishedHash":
			out = append(out, "NEW")
		}
		return true
	})
	return out, true
}

// caseConds: the conditions of the `if` statements directly inside `case <label>:` of the
// record-type switch of readRecordOrCCS, in order.
func caseConds(p *pkg, key, label string) ([]string, bool) {
	fd := p.funcs[key]
	if fd == nil || fd.Body == nil {
		return nil, false
	}
	var out []string
	found := false
	ast.Inspect(fd.Body, func(n ast.Node) bool {
		cc, ok := n.(*ast.CaseClause)
		if !ok || len(cc.List) != 1 || p.src(cc.List[0]) != label || found {
			return true
		}
		found = true
		for _, st := range cc.Body {
			if is, ok := st.(*ast.IfStmt); ok {
				out = append(out, p.src(is.Cond))
			}
		}
		return false
	})
	return out, found
}

// condContaining: the first `if` condition of the function whose text contains sub.
func condContaining(p *pkg, key, sub string) (string, bool) {
	fd := p.funcs[key]
	if fd == nil || fd.Body == nil {
		return "", false
	}
	res, ok := "", false
	ast.Inspect(fd.Body, func(n ast.Node) bool {
		if is, isIf := n.(*ast.IfStmt); isIf && !ok {
			if s := p.src(is.Cond); strings.Contains(s, sub) {
				res, ok = strings.Join(strings.Fields(s), " "), true
			}
		}
		return true
	})
	return res, ok
}

func emitTranscript(e *emitter, p *pkg) {
	if p.name != "tlcp" && p.name != "dtlcp" {
		return
	}
	e.comment("transcript membership (C03): calls that decide what enters finishedHash, in order")
	hf, okHF := p.constInt("alertHandshakeFailure")
	e.nat("trAlertHandshakeFailure", hf, okHF)
	fns := []struct{ fact, key string }{
		{"trClientHandshake", "Conn.clientHandshake"},
		{"trClientHS", "clientHandshakeState.handshake"},
		{"trClientFull", "clientHandshakeState.doFullHandshake"},
		{"trClientReadFinished", "clientHandshakeState.readFinished"},
		{"trClientSendFinished", "clientHandshakeState.sendFinished"},
		{"trServerHandshake", "Conn.serverHandshake"},
		{"trServerReadHello", "Conn.readClientHello"},
		{"trServerHS", "serverHandshakeState.handshake"},
		{"trServerFull", "serverHandshakeState.doFullHandshake"},
		{"trServerResume", "serverHandshakeState.doResumeHandshake"},
		{"trServerReadFinished", "serverHandshakeState.readFinished"},
		{"trServerSendFinished", "serverHandshakeState.sendFinished"},
	}
	for _, f := range fns {
		calls, ok := trCalls(p, f.key)
		if !ok {
			e.missing = append(e.missing, e.key(f.fact))
		}
		e.strList(f.fact, calls)
		// the same, split by kind (decide-friendly): reads / writes as "passes the hash" flags,
		// transcriptMsg arguments, and whether the Finished sum precedes the transcriptMsg calls
		var reads, writes []string
		var adds []string
		sumBeforeAdd := true
		seenSum := false
		for _, c := range calls {
			switch {
			case strings.HasPrefix(c, "R:"):
				reads = append(reads, map[bool]string{true: "true", false: "false"}[c == "R:hash"])
			case strings.HasPrefix(c, "W:"):
				writes = append(writes, map[bool]string{true: "true", false: "false"}[strings.HasSuffix(c, ":hash")])
			case strings.HasPrefix(c, "T:"):
				adds = append(adds, c[2:])
				if !seenSum {
					sumBeforeAdd = false
				}
			case strings.HasPrefix(c, "SUM:"):
				seenSum = true
			}
		}
		e.raw(f.fact+"Reads", "List Bool", "["+strings.Join(reads, ", ")+"]", reads)
		e.raw(f.fact+"Writes", "List Bool", "["+strings.Join(writes, ", ")+"]", writes)
		e.strList(f.fact+"Adds", adds)
		e.boolean(f.fact+"SumBeforeAdd", seenSum && sumBeforeAdd)
	}
	for _, c := range []struct{ fact, label string }{
		{"trCcsGuards", "recordTypeChangeCipherSpec"},
		{"trHandshakeGuards", "recordTypeHandshake"},
	} {
		conds, ok := caseConds(p, "Conn.readRecordOrCCS", c.label)
		if !ok {
			e.missing = append(e.missing, e.key(c.fact))
		}
		e.strList(c.fact, conds)
	}
	v, ok := condContaining(p, "Conn.readRecordOrCCS", "vers != c.vers")
	if !ok {
		e.missing = append(e.missing, e.key("trVersionCheck"))
	}
	e.str("trVersionCheck", v)
	for _, c := range []struct{ fact, key string }{
		{"trClientFinishedCompare", "clientHandshakeState.readFinished"},
		{"trServerFinishedCompare", "serverHandshakeState.readFinished"},
	} {
		v, ok := condContaining(p, c.key, "ConstantTimeCompare")
		if !ok {
			e.missing = append(e.missing, e.key(c.fact))
		}
		e.str(c.fact, v)
	}
}

package main

// Transcript-membership facts for C03.
//
// For each handshake function of tlcp / dtlcp the ordered list of the calls that decide what
// enters `finishedHash`:
//
//	R:nil | R:hash            c.readHandshake(nil | &hs.finishedHash)
//	W:<msg>:nil | W:<msg>:hash c.writeHandshakeRecord(<msg>, nil | &hs.finishedHash)
//	T:<msg>                   transcriptMsg(<msg>, &hs.finishedHash)
//	CCSR / CCSW               c.readChangeCipherSpec() / c.writeChangeCipherRecord()
//	SUM:client | SUM:server   hs.finishedHash.clientSum / serverSum
//	NEW                       newFinishedHash(…)
//
// plus, from readRecordOrCCS, the guards of the ChangeCipherSpec and handshake cases and the
// record-version comparison, and the Finished comparisons of both readFinished functions.
//
// Which BYTES enter the hash for a message that was received (trRaw*, trAddedTypes,
// trReadHandshake*): `readHandshake(hash)` writes the `data` it decoded; a message read with
// `nil` and added later goes through `transcriptMsg` -> `marshal()`, which returns the received
// bytes only when `unmarshal` kept them in `raw` and `marshal` returns `raw` when it is set.
// Otherwise the hash covers a re-encoding of the parsed fields, and bytes a decoder skips
// (unknown extensions, ...) are not authenticated by Finished.

import (
	"go/ast"
	"sort"
	"strings"
)

func init() {
	extraFactFns = append(extraFactFns, emitTranscript)
	for _, p := range []string{"tlcp", "dtlcp"} {
		extraHashed[p] = append(extraHashed[p],
			"Conn.clientHandshake", "clientHandshakeState.handshake", "clientHandshakeState.doFullHandshake",
			"clientHandshakeState.readFinished", "clientHandshakeState.sendFinished",
			"Conn.readClientHello", "Conn.serverHandshake", "serverHandshakeState.handshake", "serverHandshakeState.doFullHandshake",
			"serverHandshakeState.doResumeHandshake", "serverHandshakeState.readFinished",
			"serverHandshakeState.sendFinished", "Conn.readRecordOrCCS", "Conn.readHandshake",
			"Conn.writeHandshakeRecord", "transcriptMsg", "Conn.readChangeCipherSpec")
		// the codec methods that decide which bytes `transcriptMsg(decoded message)` hashes
		for _, t := range []string{"clientHelloMsg", "serverHelloMsg", "certificateMsg", "serverKeyExchangeMsg",
			"certificateRequestMsg", "serverHelloDoneMsg", "clientKeyExchangeMsg", "certificateVerifyMsg", "finishedMsg"} {
			extraHashed[p] = append(extraHashed[p], t+".marshal", t+".unmarshal")
		}
	}
}

func trArg(p *pkg, e ast.Expr) string {
	s := strings.ReplaceAll(p.src(e), " ", "")
	if s == "nil" {
		return "nil"
	}
	if strings.Contains(s, "finishedHash") {
		return "hash"
	}
	return s
}

func trCalls(p *pkg, key string) ([]string, bool) {
	fd := p.funcs[key]
	if fd == nil || fd.Body == nil {
		return nil, false
	}
	var out []string
	ast.Inspect(fd.Body, func(n ast.Node) bool {
		call, ok := n.(*ast.CallExpr)
		if !ok {
			return true
		}
		name := ""
		switch f := call.Fun.(type) {
		case *ast.SelectorExpr:
			name = f.Sel.Name
		case *ast.Ident:
			name = f.Name
		}
		switch name {
		case "readHandshake":
			if len(call.Args) == 1 {
				out = append(out, "R:"+trArg(p, call.Args[0]))
			}
		case "writeHandshakeRecord":
			if len(call.Args) == 2 {
				out = append(out, "W:"+strings.ReplaceAll(p.src(call.Args[0]), " ", "")+":"+trArg(p, call.Args[1]))
			}
		case "transcriptMsg":
			if len(call.Args) == 2 {
				out = append(out, "T:"+strings.ReplaceAll(p.src(call.Args[0]), " ", ""))
			}
		case "readChangeCipherSpec":
			out = append(out, "CCSR")
		case "writeChangeCipherRecord":
			out = append(out, "CCSW")
		case "clientSum":
			out = append(out, "SUM:client")
		case "serverSum":
			out = append(out, "SUM:server")
		case "newFinishedHash":
			out = append(out, "NEW")
		}
		return true
	})
	return out, true
}

// caseConds: the conditions of the `if` statements directly inside `case <label>:` of the
// record-type switch of readRecordOrCCS, in order.
func caseConds(p *pkg, key, label string) ([]string, bool) {
	fd := p.funcs[key]
	if fd == nil || fd.Body == nil {
		return nil, false
	}
	var out []string
	found := false
	ast.Inspect(fd.Body, func(n ast.Node) bool {
		cc, ok := n.(*ast.CaseClause)
		if !ok || len(cc.List) != 1 || p.src(cc.List[0]) != label || found {
			return true
		}
		found = true
		for _, st := range cc.Body {
			if is, ok := st.(*ast.IfStmt); ok {
				out = append(out, p.src(is.Cond))
			}
		}
		return false
	})
	return out, found
}

// trCaseFatalConds: the top-level `if` statements of the case clause `label` whose body ENDS the
// connection: the last statement of the body is `return c.in.setErrorLocked(c.sendAlert(<alert>))`.
// Each is reported as "<condition> => <alert>"; a guard that is still there but whose body drops the
// record, retries or continues is not in the list.
func trCaseFatalConds(p *pkg, key, label string) []string {
	fd := p.funcs[key]
	if fd == nil || fd.Body == nil {
		return nil
	}
	var out []string
	found := false
	ast.Inspect(fd.Body, func(n ast.Node) bool {
		cc, ok := n.(*ast.CaseClause)
		if !ok || len(cc.List) != 1 || p.src(cc.List[0]) != label || found {
			return true
		}
		found = true
		for _, st := range cc.Body {
			is, ok := st.(*ast.IfStmt)
			if !ok || is.Body == nil || len(is.Body.List) == 0 {
				continue
			}
			ret, ok := is.Body.List[len(is.Body.List)-1].(*ast.ReturnStmt)
			if !ok || len(ret.Results) != 1 {
				continue
			}
			txt := strings.Join(strings.Fields(p.src(ret.Results[0])), "")
			const pre, suf = "c.in.setErrorLocked(c.sendAlert(", "))"
			if strings.HasPrefix(txt, pre) && strings.HasSuffix(txt, suf) {
				out = append(out, p.src(is.Cond)+" => "+txt[len(pre):len(txt)-len(suf)])
			}
		}
		return false
	})
	return out
}

// condContaining: the first `if` condition of the function whose text contains sub.
func condContaining(p *pkg, key, sub string) (string, bool) {
	fd := p.funcs[key]
	if fd == nil || fd.Body == nil {
		return "", false
	}
	res, ok := "", false
	ast.Inspect(fd.Body, func(n ast.Node) bool {
		if is, isIf := n.(*ast.IfStmt); isIf && !ok {
			if s := p.src(is.Cond); strings.Contains(s, sub) {
				res, ok = strings.Join(strings.Fields(s), " "), true
			}
		}
		return true
	})
	return res, ok
}

// trRecvIdent: the name of the receiver variable of a method ("" when unnamed).
func trRecvIdent(fd *ast.FuncDecl) string {
	if fd == nil || fd.Recv == nil || len(fd.Recv.List) != 1 || len(fd.Recv.List[0].Names) != 1 {
		return ""
	}
	return fd.Recv.List[0].Names[0].Name
}

// trKeepsRaw: does message type T keep the bytes it was decoded from, and give them back from
// marshal()?  (a) the struct has a field `raw`; (b) the first statement of marshal is
// `if m.raw != nil { return m.raw, nil }`; (c) unmarshal has exactly one statement that assigns
// `m.raw` or `*m`, it is a direct statement of the body, and it is `m.raw = <param>` or
// `*m = T{raw: <param>}`.
func trKeepsRaw(p *pkg, t string) bool {
	ts := p.types[t]
	if ts == nil {
		return false
	}
	st, ok := ts.Type.(*ast.StructType)
	if !ok {
		return false
	}
	hasRaw := false
	for _, f := range st.Fields.List {
		for _, n := range f.Names {
			if n.Name == "raw" {
				hasRaw = true
			}
		}
	}
	if !hasRaw {
		return false
	}
	mf, uf := p.funcs[t+".marshal"], p.funcs[t+".unmarshal"]
	if mf == nil || uf == nil || mf.Body == nil || uf.Body == nil || len(mf.Body.List) == 0 {
		return false
	}
	mr := trRecvIdent(mf)
	is, ok := mf.Body.List[0].(*ast.IfStmt)
	if !ok || is.Init != nil || is.Else != nil || p.src(is.Cond) != mr+".raw != nil" || len(is.Body.List) != 1 {
		return false
	}
	if p.src(is.Body.List[0]) != "return "+mr+".raw, nil" {
		return false
	}
	ur := trRecvIdent(uf)
	if uf.Type.Params == nil || len(uf.Type.Params.List) != 1 || len(uf.Type.Params.List[0].Names) != 1 {
		return false
	}
	param := uf.Type.Params.List[0].Names[0].Name
	// every assignment that touches m.raw or *m (anywhere in the body)
	n := 0
	ast.Inspect(uf.Body, func(x ast.Node) bool {
		if as, ok := x.(*ast.AssignStmt); ok {
			for _, l := range as.Lhs {
				if s := p.src(l); s == ur+".raw" || s == "*"+ur {
					n++
				}
			}
		}
		return true
	})
	if n != 1 {
		return false
	}
	for _, s := range uf.Body.List {
		as, ok := s.(*ast.AssignStmt)
		if !ok || len(as.Lhs) != 1 || len(as.Rhs) != 1 {
			continue
		}
		switch p.src(as.Lhs[0]) {
		case ur + ".raw":
			return p.src(as.Rhs[0]) == param
		case "*" + ur:
			return p.src(as.Rhs[0]) == t+"{raw: "+param+"}"
		}
	}
	return false
}

// trMsgTypeOf resolves the message type of a transcriptMsg argument inside function fd:
// `hs.X` through the field X of the receiver's struct, a local through its declaration
// (`X, ok := msg.(*T)`, `X := &T{…}`, `X := new(T)`, `var X *T`). "?" when unresolved.
func trMsgTypeOf(p *pkg, fd *ast.FuncDecl, arg ast.Expr) string {
	star := func(e ast.Expr) string {
		if s, ok := e.(*ast.StarExpr); ok {
			if id, ok := s.X.(*ast.Ident); ok {
				return id.Name
			}
		}
		return "?"
	}
	switch a := arg.(type) {
	case *ast.SelectorExpr:
		x, ok := a.X.(*ast.Ident)
		if !ok || fd.Recv == nil || len(fd.Recv.List) != 1 || trRecvIdent(fd) != x.Name {
			return "?"
		}
		ts := p.types[recvName(fd.Recv.List[0].Type)]
		if ts == nil {
			return "?"
		}
		st, ok := ts.Type.(*ast.StructType)
		if !ok {
			return "?"
		}
		for _, f := range st.Fields.List {
			for _, n := range f.Names {
				if n.Name == a.Sel.Name {
					return star(f.Type)
				}
			}
		}
	case *ast.Ident:
		res := "?"
		ast.Inspect(fd.Body, func(x ast.Node) bool {
			switch s := x.(type) {
			case *ast.AssignStmt:
				if len(s.Lhs) >= 1 && len(s.Rhs) == 1 && p.src(s.Lhs[0]) == a.Name && res == "?" {
					switch r := s.Rhs[0].(type) {
					case *ast.TypeAssertExpr:
						if r.Type != nil {
							res = star(r.Type)
						}
					case *ast.UnaryExpr:
						if cl, ok := r.X.(*ast.CompositeLit); ok {
							if id, ok := cl.Type.(*ast.Ident); ok {
								res = id.Name
							}
						}
					case *ast.CallExpr:
						if id, ok := r.Fun.(*ast.Ident); ok && id.Name == "new" && len(r.Args) == 1 {
							if t, ok := r.Args[0].(*ast.Ident); ok {
								res = t.Name
							}
						}
					}
				}
			case *ast.ValueSpec:
				for _, n := range s.Names {
					if n.Name == a.Name && s.Type != nil && res == "?" {
						res = star(s.Type)
					}
				}
			}
			return true
		})
		return res
	}
	return "?"
}

func trEmitRawFacts(e *emitter, p *pkg, fnKeys []string) {
	e.comment("which bytes of a RECEIVED message enter finishedHash (C03)")
	var codec, kept []string
	for name := range p.types {
		if p.funcs[name+".marshal"] != nil && p.funcs[name+".unmarshal"] != nil {
			codec = append(codec, name)
			if trKeepsRaw(p, name) {
				kept = append(kept, name)
			}
		}
	}
	sort.Strings(codec)
	sort.Strings(kept)
	e.strList("trMsgCodecTypes", codec)
	e.strList("trRawKeptTypes", kept)
	// the message types handed to transcriptMsg by the handshake functions
	seen := map[string]bool{}
	var added []string
	for _, key := range fnKeys {
		fd := p.funcs[key]
		if fd == nil || fd.Body == nil {
			continue
		}
		ast.Inspect(fd.Body, func(n ast.Node) bool {
			call, ok := n.(*ast.CallExpr)
			if !ok || len(call.Args) != 2 {
				return true
			}
			if id, ok := call.Fun.(*ast.Ident); ok && id.Name == "transcriptMsg" {
				t := trMsgTypeOf(p, fd, call.Args[0])
				if !seen[t] {
					seen[t] = true
					added = append(added, t)
				}
			}
			return true
		})
	}
	sort.Strings(added)
	e.strList("trAddedTypes", added)
	// assignments to some `.raw` outside the codec methods (a reset makes marshal re-encode)
	var resets []string
	var keys []string
	for k := range p.funcs {
		keys = append(keys, k)
	}
	sort.Strings(keys)
	for _, k := range keys {
		fd := p.funcs[k]
		// setMessageSeq (datagram stack) drops `raw` by design; its CALLS are listed instead
		if fd.Body == nil || strings.HasSuffix(k, ".marshal") || strings.HasSuffix(k, ".unmarshal") || strings.HasSuffix(k, ".setMessageSeq") {
			continue
		}
		ast.Inspect(fd.Body, func(n ast.Node) bool {
			switch x := n.(type) {
			case *ast.AssignStmt:
				for _, l := range x.Lhs {
					if se, ok := l.(*ast.SelectorExpr); ok && se.Sel.Name == "raw" {
						resets = append(resets, k+":"+p.src(l))
					}
				}
			case *ast.CallExpr:
				if se, ok := x.Fun.(*ast.SelectorExpr); ok && se.Sel.Name == "setMessageSeq" {
					resets = append(resets, k+":"+p.src(se.X)+".setMessageSeq")
				}
			}
			return true
		})
	}
	e.strList("trRawResets", resets)
	// readHandshake: what it decodes and what it writes into the hash it was given
	var wr, un []string
	if fd := p.funcs["Conn.readHandshake"]; fd != nil && fd.Body != nil {
		ast.Inspect(fd.Body, func(n ast.Node) bool {
			call, ok := n.(*ast.CallExpr)
			if !ok {
				return true
			}
			if se, ok := call.Fun.(*ast.SelectorExpr); ok && len(call.Args) == 1 {
				switch {
				case se.Sel.Name == "Write" && p.src(se.X) == "transcript":
					wr = append(wr, p.src(call.Args[0]))
				case se.Sel.Name == "unmarshal":
					un = append(un, p.src(call.Args[0]))
				}
			}
			return true
		})
	} else {
		e.missing = append(e.missing, e.key("trReadHandshakeHashed"))
	}
	e.strList("trReadHandshakeHashed", wr)
	e.strList("trReadHandshakeDecoded", un)
}

// trContext names where a node sits inside its function: the innermost enclosing `case X:` clause
// of a switch when there is one, else the innermost enclosing `if cond` body (an `if` whose Init /
// Cond holds the node does not count), "top" otherwise.
func trContext(p *pkg, stack []ast.Node, n ast.Node) string {
	inside := func(outer ast.Node) bool { return outer != nil && outer.Pos() <= n.Pos() && n.End() <= outer.End() }
	ifCtx := ""
	for i := len(stack) - 1; i >= 0; i-- {
		switch x := stack[i].(type) {
		case *ast.CaseClause:
			if len(x.List) == 0 {
				return "default"
			}
			return "case " + strings.Join(strings.Fields(p.src(x.List[0])), " ")
		case *ast.IfStmt:
			if ifCtx == "" && (inside(x.Body) || (x.Else != nil && inside(x.Else))) {
				ifCtx = "if " + strings.Join(strings.Fields(p.src(x.Cond)), " ")
			}
		}
	}
	if ifCtx != "" {
		return ifCtx
	}
	return "top"
}

// trSites lists "<function>:<context>" for every node of the package (non-test, non-verif files)
// that match selects, functions in sorted order, sites in source order.
func trSites(p *pkg, match func(n ast.Node) bool) []string {
	var keys []string
	for k := range p.funcs {
		keys = append(keys, k)
	}
	sort.Strings(keys)
	var out []string
	for _, k := range keys {
		fd := p.funcs[k]
		if fd.Body == nil {
			continue
		}
		var stack []ast.Node
		ast.Inspect(fd.Body, func(n ast.Node) bool {
			if n == nil {
				stack = stack[:len(stack)-1]
				return true
			}
			if match(n) {
				out = append(out, k+":"+trContext(p, stack, n))
			}
			stack = append(stack, n)
			return true
		})
	}
	return out
}

// trIsDoneStore: the statement that makes handshakeComplete() true —
// `atomic.StoreUint32(&c.handshakeStatus, 1)` (stream stack) / `c.hsState.Store(int32(stateFinished))`.
func trIsDoneStore(p *pkg, n ast.Node) bool {
	call, ok := n.(*ast.CallExpr)
	if !ok {
		return false
	}
	s := strings.ReplaceAll(p.src(call), " ", "")
	if strings.HasPrefix(s, "atomic.StoreUint32(&") && strings.HasSuffix(s, ".handshakeStatus,1)") {
		return true
	}
	return strings.HasSuffix(s, ".hsState.Store(int32(stateFinished))")
}

// trEmitSwitchFacts: where the read cipher state is switched, where the wait for a
// ChangeCipherSpec ends, and where a handshake is marked complete.
func trEmitSwitchFacts(e *emitter, p *pkg) {
	e.comment("where the read cipher is switched / a ChangeCipherSpec stops being expected / completion is marked (C03)")
	// every `<conn>.in.changeCipherSpec()` call
	e.strList("trInCipherSwitches", trSites(p, func(n ast.Node) bool {
		call, ok := n.(*ast.CallExpr)
		return ok && len(call.Args) == 0 && strings.HasSuffix(strings.ReplaceAll(p.src(call.Fun), " ", ""), ".in.changeCipherSpec")
	}))
	// every assignment to the parameter `expectChangeCipherSpec`, and every `deferredCCS = true`
	assigns := func(name string, rhs string) func(n ast.Node) bool {
		return func(n ast.Node) bool {
			as, ok := n.(*ast.AssignStmt)
			if !ok {
				return false
			}
			for i, l := range as.Lhs {
				ls := strings.ReplaceAll(p.src(l), " ", "")
				if ls == name || strings.HasSuffix(ls, "."+name) {
					if rhs == "" || (i < len(as.Rhs) && p.src(as.Rhs[i]) == rhs) || len(as.Rhs) != len(as.Lhs) {
						return true
					}
				}
			}
			return false
		}
	}
	e.strList("trExpectCcsAssigns", trSites(p, assigns("expectChangeCipherSpec", "")))
	e.strList("trDeferredCcsSets", trSites(p, assigns("deferredCCS", "true")))
	// completion marks, with what follows each inside its function: "last" when it is a direct
	// statement of the function body and everything behind it is assignments / plain calls ended by
	// `return nil`; "early" otherwise
	var marks []string
	var keys []string
	for k := range p.funcs {
		keys = append(keys, k)
	}
	sort.Strings(keys)
	for _, k := range keys {
		fd := p.funcs[k]
		if fd.Body == nil {
			continue
		}
		top := map[ast.Node]int{}
		for i, st := range fd.Body.List {
			if es, ok := st.(*ast.ExprStmt); ok {
				top[es.X] = i
			}
		}
		ast.Inspect(fd.Body, func(n ast.Node) bool {
			if n == nil || !trIsDoneStore(p, n) {
				return true
			}
			pos := "early"
			if i, ok := top[n]; ok {
				pos = "last"
				rest := fd.Body.List[i+1:]
				for j, st := range rest {
					switch x := st.(type) {
					case *ast.AssignStmt:
					case *ast.ExprStmt:
						if _, isCall := x.X.(*ast.CallExpr); !isCall || trIsDoneStore(p, x.X) {
							pos = "early"
						}
					case *ast.ReturnStmt:
						if j != len(rest)-1 || len(x.Results) != 1 || p.src(x.Results[0]) != "nil" {
							pos = "early"
						}
					default:
						pos = "early"
					}
				}
				if len(rest) == 0 {
					pos = "early"
				} else if _, ok := rest[len(rest)-1].(*ast.ReturnStmt); !ok {
					pos = "early"
				}
			}
			marks = append(marks, k+":"+pos)
			return true
		})
	}
	e.strList("trDoneMarks", marks)
}

func emitTranscript(e *emitter, p *pkg) {
	if p.name != "tlcp" && p.name != "dtlcp" {
		return
	}
	e.comment("transcript membership (C03): calls that decide what enters finishedHash, in order")
	hf, okHF := p.constInt("alertHandshakeFailure")
	e.nat("trAlertHandshakeFailure", hf, okHF)
	fns := []struct{ fact, key string }{
		{"trClientHandshake", "Conn.clientHandshake"},
		{"trClientHS", "clientHandshakeState.handshake"},
		{"trClientFull", "clientHandshakeState.doFullHandshake"},
		{"trClientReadFinished", "clientHandshakeState.readFinished"},
		{"trClientSendFinished", "clientHandshakeState.sendFinished"},
		{"trServerHandshake", "Conn.serverHandshake"},
		{"trServerReadHello", "Conn.readClientHello"},
		{"trServerHS", "serverHandshakeState.handshake"},
		{"trServerFull", "serverHandshakeState.doFullHandshake"},
		{"trServerResume", "serverHandshakeState.doResumeHandshake"},
		{"trServerReadFinished", "serverHandshakeState.readFinished"},
		{"trServerSendFinished", "serverHandshakeState.sendFinished"},
	}
	var fnKeys []string
	for _, f := range fns {
		fnKeys = append(fnKeys, f.key)
	}
	trEmitRawFacts(e, p, fnKeys)
	trEmitSwitchFacts(e, p)
	for _, f := range fns {
		calls, ok := trCalls(p, f.key)
		if !ok {
			e.missing = append(e.missing, e.key(f.fact))
		}
		e.strList(f.fact, calls)
		// the same, split by kind (decide-friendly): reads / writes as "passes the hash" flags,
		// transcriptMsg arguments, and whether the Finished sum precedes the transcriptMsg calls
		var reads, writes []string
		var adds []string
		sumBeforeAdd := true
		seenSum := false
		for _, c := range calls {
			switch {
			case strings.HasPrefix(c, "R:"):
				reads = append(reads, map[bool]string{true: "true", false: "false"}[c == "R:hash"])
			case strings.HasPrefix(c, "W:"):
				writes = append(writes, map[bool]string{true: "true", false: "false"}[strings.HasSuffix(c, ":hash")])
			case strings.HasPrefix(c, "T:"):
				adds = append(adds, c[2:])
				if !seenSum {
					sumBeforeAdd = false
				}
			case strings.HasPrefix(c, "SUM:"):
				seenSum = true
			}
		}
		e.raw(f.fact+"Reads", "List Bool", "["+strings.Join(reads, ", ")+"]", reads)
		e.raw(f.fact+"Writes", "List Bool", "["+strings.Join(writes, ", ")+"]", writes)
		e.strList(f.fact+"Adds", adds)
		e.boolean(f.fact+"SumBeforeAdd", seenSum && sumBeforeAdd)
	}
	for _, c := range []struct{ fact, label string }{
		{"trCcsGuards", "recordTypeChangeCipherSpec"},
		{"trHandshakeGuards", "recordTypeHandshake"},
	} {
		conds, ok := caseConds(p, "Conn.readRecordOrCCS", c.label)
		if !ok {
			e.missing = append(e.missing, e.key(c.fact))
		}
		e.strList(c.fact, conds)
		// which of these guards answer with a fatal alert (and which alert)
		e.strList(strings.Replace(c.fact, "Guards", "FatalGuards", 1), trCaseFatalConds(p, "Conn.readRecordOrCCS", c.label))
	}
	v, ok := condContaining(p, "Conn.readRecordOrCCS", "vers != c.vers")
	if !ok {
		e.missing = append(e.missing, e.key("trVersionCheck"))
	}
	e.str("trVersionCheck", v)
	for _, c := range []struct{ fact, key string }{
		{"trClientFinishedCompare", "clientHandshakeState.readFinished"},
		{"trServerFinishedCompare", "serverHandshakeState.readFinished"},
	} {
		v, ok := condContaining(p, c.key, "ConstantTimeCompare")
		if !ok {
			e.missing = append(e.missing, e.key(c.fact))
		}
		e.str(c.fact, v)
	}
}

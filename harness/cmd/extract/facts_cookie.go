package main

// Facts for C18 (stateless cookie exchange of the DTLCP server), dtlcp package only:
//
//   - (informational only since these three functions are translated to Lean and tied to the model
//     by Tie/Cookie.lean; not pinned, never "missing") what generateCookie feeds to the MAC, in order
//     (address, parameters, length prefixes), under which key and hash; that verifyCookie recomputes
//     and compares in constant time; the field layout written by clientHelloMsg.marshalForCookie;
//   - where the cookie secret comes from (effectiveCookieSecret);
//   - a control skeleton of the cookie loop at the start of serverHandshake: its shape, the
//     direct calls made before the loop can exit, every function name reachable (by name,
//     over-approximated) before the exit, the handshake message types handed to
//     writeHandshakeRecord there, and the names reachable only after the loop.

import (
	"go/ast"
	"go/token"
	"sort"
	"strings"
)

func init() {
	extraFactFns = append(extraFactFns, emitCookie)
	extraHashed["dtlcp"] = append(extraHashed["dtlcp"],
		"clientHelloMsg.marshalForCookie", "Conn.effectiveCookieSecret", "Conn.serverHandshake",
		"Conn.readClientHello", "Conn.readNextClientHello", "helloVerifyRequestMsg.marshal",
		"clientHelloMsg.unmarshal")
}

// callee name of a call expression: package-level function idents and every selector name;
// builtins and conversions (plain idents that are not package functions) are skipped.
func calleeName(p *pkg, c *ast.CallExpr) (string, bool) {
	switch f := c.Fun.(type) {
	case *ast.Ident:
		if _, ok := p.funcs[f.Name]; ok {
			return f.Name, true
		}
		return "", false
	case *ast.SelectorExpr:
		return f.Sel.Name, true
	}
	return "", false
}

// callsIn lists callee names of all calls inside the nodes, in source order.
func callsIn(p *pkg, nodes ...ast.Node) []string {
	type pc struct {
		pos  token.Pos
		name string
	}
	var found []pc
	for _, n := range nodes {
		if n == nil {
			continue
		}
		ast.Inspect(n, func(x ast.Node) bool {
			if c, ok := x.(*ast.CallExpr); ok {
				if nm, ok := calleeName(p, c); ok {
					found = append(found, pc{c.Pos(), nm})
				}
			}
			return true
		})
	}
	sort.SliceStable(found, func(i, j int) bool { return found[i].pos < found[j].pos })
	out := make([]string, len(found))
	for i, f := range found {
		out[i] = f.name
	}
	return out
}

// byName: method/function name -> keys in p.funcs
func funcsByName(p *pkg) map[string][]string {
	m := map[string][]string{}
	for k := range p.funcs {
		n := k
		if i := strings.LastIndex(k, "."); i >= 0 {
			n = k[i+1:]
		}
		m[n] = append(m[n], k)
	}
	return m
}

// reachable: every callee name reachable from the given start names, resolving a name to
// all package functions/methods carrying it (over-approximation; calls through function
// values such as c.handshakeFn or config callbacks are leaves).
func reachable(p *pkg, start []string) (names map[string]bool, fns map[string]bool) {
	by := funcsByName(p)
	names = map[string]bool{}
	fns = map[string]bool{}
	todo := append([]string{}, start...)
	for len(todo) > 0 {
		n := todo[len(todo)-1]
		todo = todo[:len(todo)-1]
		if names[n] {
			continue
		}
		names[n] = true
		for _, k := range by[n] {
			if fns[k] {
				continue
			}
			fns[k] = true
			if fd := p.funcs[k]; fd != nil && fd.Body != nil {
				todo = append(todo, callsIn(p, fd.Body)...)
			}
		}
	}
	return
}

func sortedKeys(m map[string]bool) []string {
	out := make([]string, 0, len(m))
	for k := range m {
		out = append(out, k)
	}
	sort.Strings(out)
	return out
}

// msgTypeOf finds, inside fn, the composite/new type assigned to identifier name
// (`x := &T{...}`, `x := new(T)`, `x = new(T)`); "" when unknown.
func msgTypeOf(p *pkg, fn *ast.FuncDecl, name string) string {
	res := ""
	ast.Inspect(fn.Body, func(n ast.Node) bool {
		as, ok := n.(*ast.AssignStmt)
		if !ok {
			return true
		}
		for i, l := range as.Lhs {
			id, ok := l.(*ast.Ident)
			if !ok || id.Name != name || i >= len(as.Rhs) {
				continue
			}
			switch r := as.Rhs[i].(type) {
			case *ast.UnaryExpr:
				if cl, ok := r.X.(*ast.CompositeLit); ok && r.Op == token.AND {
					res = p.src(cl.Type)
				}
			case *ast.CallExpr:
				if f, ok := r.Fun.(*ast.Ident); ok && f.Name == "new" && len(r.Args) == 1 {
					res = p.src(r.Args[0])
				}
			}
		}
		return true
	})
	return res
}

// classify one argument of h.Write in generateCookie
func cookieWriteToken(p *pkg, arg ast.Expr, alias map[string]string) string {
	s := p.src(arg)
	if a, ok := alias[s]; ok {
		s = a
	}
	switch s {
	case "[]byte(clientAddr)":
		return "addr"
	case "clientParams":
		return "params"
	}
	// []byte{byte(len(X) >> 8), byte(len(X))}  -> len16:<X>
	if cl, ok := arg.(*ast.CompositeLit); ok && p.src(cl.Type) == "[]byte" && len(cl.Elts) == 2 {
		hi, lo := p.src(cl.Elts[0]), p.src(cl.Elts[1])
		for _, x := range []string{"clientAddr", "clientParams"} {
			inner := x
			for k, v := range alias {
				if v == "[]byte("+x+")" {
					if hi == "byte(len("+k+") >> 8)" && lo == "byte(len("+k+"))" {
						inner = k
					}
				}
			}
			if hi == "byte(len("+inner+") >> 8)" && lo == "byte(len("+inner+"))" {
				if x == "clientAddr" {
					return "len16:addr"
				}
				return "len16:params"
			}
		}
	}
	return "other:" + s
}

func emitCookie(e *emitter, p *pkg) {
	if p.name != "dtlcp" {
		return
	}
	e.comment("cookie.go / handshake_server.go: stateless cookie exchange (C18)")

	// ---- generateCookie: the MAC input
	var writes []string
	keyed := false
	okGen := false
	if fd := p.funcs["generateCookie"]; fd != nil && fd.Body != nil {
		okGen = true
		alias := map[string]string{} // local ident -> defining expression source
		hname := ""
		for _, st := range fd.Body.List {
			switch s := st.(type) {
			case *ast.AssignStmt:
				if len(s.Lhs) == 1 && len(s.Rhs) == 1 {
					if id, ok := s.Lhs[0].(*ast.Ident); ok {
						r := p.src(s.Rhs[0])
						if r == "hmac.New(sm3.New, secret)" {
							hname = id.Name
							keyed = true
						} else {
							alias[id.Name] = r
						}
					}
				}
			case *ast.ExprStmt:
				if c, ok := s.X.(*ast.CallExpr); ok {
					if sel, ok := c.Fun.(*ast.SelectorExpr); ok && sel.Sel.Name == "Write" && p.src(sel.X) == hname && len(c.Args) == 1 {
						writes = append(writes, cookieWriteToken(p, c.Args[0], alias))
					} else {
						writes = append(writes, "other:"+p.src(c))
					}
				}
			case *ast.ReturnStmt:
				if len(s.Results) != 1 || p.src(s.Results[0]) != hname+".Sum(nil)" {
					writes = append(writes, "other:return "+p.src(s))
				}
			default:
				writes = append(writes, "other:stmt")
			}
		}
	}
	// cookieWrites, cookieMacIsHmacSm3OfSecret, cookieVerifyRecomputesConstTime and
	// cookieParamsLayout are informational since the translation tie (Tie/Cookie.lean proves the
	// translated generateCookie / verifyCookie / marshalForCookie equal to the model for all
	// inputs): they match statement TEXTS, so a rename-only edit changes them; they are no longer
	// pinned by C18_facts, do not parameterise the model, and an unrecognised shape or an absent
	// function is never reported as a missing fact (go2lean lists it in Src.untranslated instead)
	_ = okGen
	e.strList("cookieWrites", writes)
	e.boolean("cookieMacIsHmacSm3OfSecret", keyed)

	// ---- verifyCookie: recompute + constant-time compare
	rec := false
	if b := body(p, "verifyCookie"); len(b) == 2 {
		if as, ok := b[0].(*ast.AssignStmt); ok && len(as.Rhs) == 1 && p.src(as.Lhs[0]) == "expected" &&
			p.src(as.Rhs[0]) == "generateCookie(secret, clientAddr, clientParams)" {
			if rs, ok := b[1].(*ast.ReturnStmt); ok && len(rs.Results) == 1 &&
				p.src(rs.Results[0]) == "subtle.ConstantTimeCompare(expected, cookie) == 1" {
				rec = true
			}
		}
	}
	e.boolean("cookieVerifyRecomputesConstTime", rec)

	// ---- marshalForCookie: layout
	var layout []string
	okLay := false
	if fd := p.funcs["clientHelloMsg.marshalForCookie"]; fd != nil && fd.Body != nil {
		okLay = true
		tok := func(args []ast.Expr, ellipsis bool) string {
			if ellipsis && len(args) == 1 {
				return "bytes:" + strings.TrimPrefix(p.src(args[0]), "m.")
			}
			ss := make([]string, len(args))
			for i, a := range args {
				ss[i] = p.src(a)
			}
			j := strings.Join(ss, ",")
			for _, f := range []string{"vers", "sessionId", "cipherSuites", "compressionMethods", "random", "cookie"} {
				switch j {
				case "byte(m." + f + " >> 8),byte(m." + f + ")":
					return "u16:" + f
				case "byte(len(m." + f + "))":
					return "len8:" + f
				case "byte(len(m." + f + ") >> 8),byte(len(m." + f + "))":
					return "len16:" + f
				}
			}
			return "other:" + j
		}
		var walk func(list []ast.Stmt, each string)
		walk = func(list []ast.Stmt, each string) {
			for _, st := range list {
				switch s := st.(type) {
				case *ast.AssignStmt:
					if len(s.Lhs) == 1 && len(s.Rhs) == 1 && p.src(s.Lhs[0]) == "b" {
						if c, ok := s.Rhs[0].(*ast.CallExpr); ok && p.src(c.Fun) == "append" && len(c.Args) >= 2 && p.src(c.Args[0]) == "b" {
							t := tok(c.Args[1:], c.Ellipsis.IsValid())
							if each != "" {
								if t == "other:byte(cs >> 8),byte(cs)" {
									t = "each16:" + each
								} else {
									t = "other:in-loop " + t
								}
							}
							layout = append(layout, t)
							continue
						}
						if c, ok := s.Rhs[0].(*ast.CallExpr); ok && p.src(c.Fun) == "make" {
							continue // capacity only
						}
					}
					if len(s.Lhs) == 1 && p.src(s.Lhs[0]) == "total" {
						continue // capacity computation
					}
					layout = append(layout, "other:"+p.src(s))
				case *ast.RangeStmt:
					if p.src(s.Value) == "cs" && strings.HasPrefix(p.src(s.X), "m.") {
						walk(s.Body.List, strings.TrimPrefix(p.src(s.X), "m."))
					} else {
						layout = append(layout, "other:range")
					}
				case *ast.ReturnStmt:
					if len(s.Results) != 1 || p.src(s.Results[0]) != "b" {
						layout = append(layout, "other:return")
					}
				default:
					layout = append(layout, "other:stmt")
				}
			}
		}
		walk(fd.Body.List, "")
	}
	_ = okLay // informational, see above: never "missing"
	e.strList("cookieParamsLayout", layout)

	// ---- clientHelloMsg.unmarshal: does it insist on one complete, unfragmented message
	// (fragment_offset 0, fragment_length = length = bytes present)?  Added by the F18 repair;
	// the decoder model follows whichever form the tree has.
	strict := false
	if b := body(p, "clientHelloMsg.unmarshal"); len(b) > 0 {
		if is, ok := b[0].(*ast.IfStmt); ok && is.Init == nil && p.src(is.Cond) == "!dtlcpIsCompleteMessage(data, typeClientHello)" &&
			len(is.Body.List) == 1 && p.src(is.Body.List[0]) == "return false" {
			if cb := body(p, "dtlcpIsCompleteMessage"); len(cb) > 0 {
				if rs, ok := cb[len(cb)-1].(*ast.ReturnStmt); ok && len(rs.Results) == 1 &&
					p.src(rs.Results[0]) == "fragOff == 0 && fragLen == bodyLen && len(data)-dtlcpHeaderLen == bodyLen" {
					strict = true
				}
			}
		}
	}
	e.boolean("cookieHelloUnmarshalCompleteOnly", strict)

	// ---- effectiveCookieSecret: configured secret if non-empty, else a per-connection
	// field filled once from config.rand() with `cookieSecretLen` bytes
	cfgFirst, perConn, fromRand, fixedFallback := false, false, false, false
	var secLen int64
	okLen := false
	if b := body(p, "Conn.effectiveCookieSecret"); len(b) == 3 {
		if is, ok := b[0].(*ast.IfStmt); ok && is.Init != nil && p.src(is.Init) == "secret := c.config.CookieSecret" &&
			p.src(is.Cond) == "len(secret) > 0" && len(is.Body.List) == 1 && p.src(is.Body.List[0]) == "return secret" {
			cfgFirst = true
		}
		if is, ok := b[1].(*ast.IfStmt); ok && p.src(is.Cond) == "len(c.cookieSecret) == 0" {
			ast.Inspect(is.Body, func(n ast.Node) bool {
				switch x := n.(type) {
				case *ast.AssignStmt:
					if len(x.Lhs) == 1 && len(x.Rhs) == 1 && p.src(x.Lhs[0]) == "c.cookieSecret" {
						if c, ok := x.Rhs[0].(*ast.CallExpr); ok && p.src(c.Fun) == "make" && len(c.Args) == 2 {
							secLen, okLen = p.evalInt(c.Args[1], 0, 0)
						}
					}
					if len(x.Lhs) == 1 && p.src(x.Lhs[0]) == "c.cookieSecret[i]" {
						fixedFallback = true
					}
				case *ast.CallExpr:
					if p.src(x) == "io.ReadFull(c.config.rand(), c.cookieSecret)" {
						fromRand = true
					}
				}
				return true
			})
		}
		if rs, ok := b[2].(*ast.ReturnStmt); ok && len(rs.Results) == 1 && p.src(rs.Results[0]) == "c.cookieSecret" {
			perConn = true
		}
	}
	e.boolean("cookieSecretConfiguredFirst", cfgFirst)
	e.boolean("cookieSecretPerConnField", perConn)
	e.boolean("cookieSecretFromConfigRand", fromRand)
	e.boolean("cookieSecretFixedFallbackOnRandError", fixedFallback)
	e.nat("cookieSecretLen", secLen, okLen)
	// the field is not copied from anywhere else: the only assignments to cookieSecret in the package
	assigns := 0
	for _, f := range p.files {
		ast.Inspect(f, func(n ast.Node) bool {
			if as, ok := n.(*ast.AssignStmt); ok {
				for _, l := range as.Lhs {
					if sel, ok := l.(*ast.SelectorExpr); ok && sel.Sel.Name == "cookieSecret" {
						assigns++
					}
				}
			}
			if kv, ok := n.(*ast.KeyValueExpr); ok && p.src(kv.Key) == "cookieSecret" {
				assigns++
			}
			return true
		})
	}
	e.raw("cookieSecretAssignSites", "Nat", itoa(assigns), assigns)

	// ---- cookie loop skeleton
	sh := p.funcs["Conn.serverHandshake"]
	var loop *ast.ForStmt
	var pre, post []ast.Node
	if sh != nil && sh.Body != nil {
		for _, st := range sh.Body.List {
			if loop == nil {
				pre = append(pre, st)
				if fs, ok := st.(*ast.ForStmt); ok && fs.Cond == nil && fs.Init == nil && fs.Post == nil {
					loop = fs
				}
			} else {
				post = append(post, st)
			}
		}
	}
	if loop == nil {
		e.boolean("cookieLoopShape", false)
		e.missing = append(e.missing, e.key("cookieLoopShape"))
		return
	}
	// shape: params := clientHello.marshalForCookie(); secret := c.effectiveCookieSecret();
	//        if <hvr condition> { ...; continue }; break
	shape := false
	hvrCond, issue := "", ""
	lb := loop.Body.List
	if len(lb) == 4 && p.src(lb[0]) == "params := clientHello.marshalForCookie()" && p.src(lb[1]) == "secret := c.effectiveCookieSecret()" {
		if is, ok := lb[2].(*ast.IfStmt); ok && is.Init == nil && is.Else == nil && len(is.Body.List) > 0 {
			_, endsContinue := is.Body.List[len(is.Body.List)-1].(*ast.BranchStmt)
			if br, ok := is.Body.List[len(is.Body.List)-1].(*ast.BranchStmt); ok {
				endsContinue = br.Tok == token.CONTINUE && br.Label == nil
			}
			if br, ok := lb[3].(*ast.BranchStmt); ok && br.Tok == token.BREAK && br.Label == nil && endsContinue {
				// no other break/return-nil/goto inside the if body
				clean := true
				ast.Inspect(is.Body, func(n ast.Node) bool {
					switch x := n.(type) {
					case *ast.BranchStmt:
						if x.Tok != token.CONTINUE {
							clean = false
						}
					case *ast.ReturnStmt:
						if len(x.Results) != 1 || p.src(x.Results[0]) != "err" {
							clean = false
						}
					case *ast.FuncLit:
						return false
					}
					return true
				})
				shape = clean
				hvrCond = p.src(is.Cond)
				ast.Inspect(is.Body, func(n ast.Node) bool {
					if c, ok := n.(*ast.CallExpr); ok && p.src(c.Fun) == "generateCookie" {
						issue = p.src(c)
					}
					return true
				})
			}
		}
	}
	e.boolean("cookieLoopShape", shape)
	// after the HelloVerifyRequest is flushed and before the next hello is read: is the rest of
	// the datagram discarded (`c.handBuf.Reset()` and `c.rawInputBuf = nil`)?  (F32 repair)
	drops := false
	if len(lb) == 4 {
		if is, ok := lb[2].(*ast.IfStmt); ok {
			stage, reset, rawNil := 0, false, false // 0 before flush, 1 after flush, 2 after readNextClientHello
			for _, st := range is.Body.List {
				src := p.src(st)
				switch {
				case strings.Contains(src, "c.flush()"):
					stage = 1
				case strings.Contains(src, "c.readNextClientHello("):
					stage = 2
				case stage == 1 && src == "c.handBuf.Reset()":
					reset = true
				case stage == 1 && src == "c.rawInputBuf = nil":
					rawNil = true
				}
			}
			drops = reset && rawNil
		}
	}
	e.boolean("cookieLoopDropsLeftover", drops)
	// readNextClientHello: calls made on the read-timeout branch (`if netErr, ok := err.(net.Error);
	// ok && netErr.Timeout() { … continue }`). Nothing may be written there: a silent (spoofed)
	// peer must not receive further HelloVerifyRequests.
	var toCalls []string
	toFound := false
	if fd := p.funcs["Conn.readNextClientHello"]; fd != nil && fd.Body != nil {
		ast.Inspect(fd.Body, func(n ast.Node) bool {
			if is, ok := n.(*ast.IfStmt); ok && strings.Contains(p.src(is.Cond), ".Timeout()") {
				toFound = true
				toCalls = append(toCalls, callsIn(p, is.Body)...)
				return false
			}
			return true
		})
	}
	if toFound {
		e.strList("cookieWaitTimeoutCalls", toCalls)
	} else {
		e.strList("cookieWaitTimeoutCalls", []string{"other:no-timeout-branch"})
		e.missing = append(e.missing, e.key("cookieWaitTimeoutCalls"))
	}
	// readHandshake, fragment branch: once a message has been rebuilt (`if !fb.complete() { continue }`
	// passed) its reassembly buffer is removed from c.pendingFragments before the message is
	// delivered, so a later fragment with that message_seq starts an empty buffer and cannot make
	// the same ClientHello arrive a second time (message_seq is not checked on receipt).
	rxDropped := false
	if fd := p.funcs["Conn.readHandshake"]; fd != nil && fd.Body != nil {
		ast.Inspect(fd.Body, func(n ast.Node) bool {
			is, ok := n.(*ast.IfStmt)
			if !ok || !strings.Contains(p.src(is.Cond), "fragLen < bodyLen") {
				return true
			}
			key, afterComplete := "", false
			for _, st := range is.Body.List {
				switch x := st.(type) {
				case *ast.AssignStmt:
					if len(x.Rhs) == 1 {
						if ix, ok := x.Rhs[0].(*ast.IndexExpr); ok && p.src(ix.X) == "c.pendingFragments" {
							key = p.src(ix.Index)
						}
					}
				case *ast.IfStmt:
					if p.src(x.Cond) == "!fb.complete()" {
						afterComplete = true
					}
				case *ast.ExprStmt:
					if afterComplete && key != "" && p.src(x.X) == "delete(c.pendingFragments, "+key+")" {
						rxDropped = true
					}
				}
			}
			return false
		})
	}
	e.boolean("cookieRxDeliveredBufferDropped", rxDropped)
	// the HelloVerifyRequest that is sent: its composite literal (the cookie field must be the
	// freshly generated cookie and nothing else)
	hvrLit := ""
	if len(lb) == 4 {
		ast.Inspect(lb[2], func(n ast.Node) bool {
			if cl, ok := n.(*ast.CompositeLit); ok && p.src(cl.Type) == "helloVerifyRequestMsg" {
				hvrLit = p.src(cl)
			}
			return true
		})
	}
	e.str("cookieLoopHvrLiteral", hvrLit)
	e.str("cookieLoopHvrCond", hvrCond)
	e.str("cookieLoopIssue", issue)
	// direct calls up to and including the loop, in source order
	direct := callsIn(p, pre...)
	e.strList("cookieLoopDirectCalls", direct)
	// everything reachable before the loop can exit / after it
	preNames, preFns := reachable(p, direct)
	postDirect := callsIn(p, post...)
	postNames, _ := reachable(p, postDirect)
	e.strList("cookiePreReachable", sortedKeys(preNames))
	e.strList("cookiePostDirectCalls", postDirect)
	var onlyPost []string
	for _, n := range sortedKeys(postNames) {
		if !preNames[n] {
			onlyPost = append(onlyPost, n)
		}
	}
	e.strList("cookiePostOnlyReachable", onlyPost)
	// handshake messages handed to writeHandshakeRecord before the exit (serverHandshake itself
	// and every function reachable before the exit)
	var wr []string
	scan := func(fd *ast.FuncDecl, nodes []ast.Node) {
		for _, n := range nodes {
			ast.Inspect(n, func(x ast.Node) bool {
				if c, ok := x.(*ast.CallExpr); ok {
					if nm, ok := calleeName(p, c); ok && nm == "writeHandshakeRecord" && len(c.Args) >= 1 {
						t := "?" + p.src(c.Args[0])
						if id, ok := c.Args[0].(*ast.Ident); ok {
							if mt := msgTypeOf(p, fd, id.Name); mt != "" {
								t = mt
							}
						}
						wr = append(wr, t)
					}
				}
				return true
			})
		}
	}
	scan(sh, pre)
	for _, k := range sortedKeys(preFns) {
		if k == "Conn.serverHandshake" {
			continue
		}
		if fd := p.funcs[k]; fd != nil && fd.Body != nil {
			scan(fd, []ast.Node{fd.Body})
		}
	}
	sort.Strings(wr)
	e.strList("cookiePreHandshakeWrites", wr)
	// record types handed to writeRecordLocked before the exit
	var rts []string
	seen := map[string]bool{}
	for _, k := range sortedKeys(preFns) {
		if fd := p.funcs[k]; fd != nil && fd.Body != nil {
			ast.Inspect(fd.Body, func(x ast.Node) bool {
				if c, ok := x.(*ast.CallExpr); ok {
					if nm, ok := calleeName(p, c); ok && nm == "writeRecordLocked" && len(c.Args) >= 1 {
						s := p.src(c.Args[0])
						if !seen[s] {
							seen[s] = true
							rts = append(rts, s)
						}
					}
				}
				return true
			})
		}
	}
	sort.Strings(rts)
	e.strList("cookiePreRecordTypes", rts)
	// the HelloVerifyRequest body: version(2) + cookie_len(1) + cookie
	hvrBody := ""
	if fd := p.funcs["helloVerifyRequestMsg.marshal"]; fd != nil && fd.Body != nil {
		ast.Inspect(fd.Body, func(n ast.Node) bool {
			if as, ok := n.(*ast.AssignStmt); ok && len(as.Lhs) == 1 && len(as.Rhs) == 1 && p.src(as.Lhs[0]) == "bodyLen" {
				hvrBody = p.src(as.Rhs[0])
			}
			return true
		})
	}
	e.str("hvrBodyLenExpr", hvrBody)
}

func itoa(n int) string {
	if n == 0 {
		return "0"
	}
	s := ""
	neg := n < 0
	if neg {
		n = -n
	}
	for n > 0 {
		s = string(rune('0'+n%10)) + s
		n /= 10
	}
	if neg {
		s = "-" + s
	}
	return s
}

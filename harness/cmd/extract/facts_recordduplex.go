package main

// Facts of the TLCP record layer used by C06 for (a) the way the end of the transport's byte stream
// reaches the record layer and (b) the independence of the two directions of a connection:
//
//   - rxAtLeastShortOnlyWhenShort: atLeastReader.Read turns the transport's io.EOF into
//     io.ErrUnexpectedEOF only when bytes are still missing (`r.N > 0 && err == io.EOF`). A transport
//     may hand over its last bytes TOGETHER with io.EOF (io.Reader allows n > 0 with err == EOF); the
//     bytes count, and when they complete the request the end of the stream is not an error. The model
//     (`Model.RecordRx.atLeast`) takes this guard as a parameter.
//   - rxAtLeastStmts: the statements of atLeastReader.Read after `r.N -= int64(n)` are the expected two
//     `if`s and the final `return n, err`.
//   - rxDeadlineCalls: every call of a method named SetDeadline / SetReadDeadline / SetWriteDeadline in
//     the package (non-test, non-hook files) as "function:setter". The expected list says that the
//     library moves a transport deadline on its own in exactly one place, closeNotify, and only the
//     WRITE deadline: the read direction of a connection whose write side was shut down (CloseWrite)
//     stays usable (`Model.RecordDuplex.closeWrite`).

import (
	"go/ast"
	"sort"
	"strings"
)

func init() {
	extraFactFns = append(extraFactFns, emitRecordDuplex)
	// atLeastReader.Read is hashed by facts_recordtx.go, Conn.CloseWrite / Conn.closeNotify by facts_connapi.go
	extraHashed["tlcp"] = append(extraHashed["tlcp"], "Conn.closeNotify", "Conn.CloseWrite")
}

func emitRecordDuplex(e *emitter, p *pkg) {
	if p.name != "tlcp" {
		return
	}
	e.comment("conn.go: atLeastReader.Read (end of the transport stream), deadline setters called by the library (C06)")
	// atLeastReader.Read: top-level statements
	var top []string
	if fd := p.funcs["atLeastReader.Read"]; fd != nil && fd.Body != nil {
		for _, s := range fd.Body.List {
			top = append(top, strings.Join(strings.Fields(p.src(s)), " "))
		}
	}
	guard := false
	shorts := 0
	if fd := p.funcs["atLeastReader.Read"]; fd != nil && fd.Body != nil {
		// every place that returns io.ErrUnexpectedEOF, and the condition it stands under
		ast.Inspect(fd.Body, func(n ast.Node) bool {
			switch s := n.(type) {
			case *ast.IfStmt:
				if rdxReturnsShort(p, s.Body.List) {
					shorts++
					c := strings.Join(strings.Fields(p.src(s.Cond)), " ")
					guard = c == "r.N > 0 && err == io.EOF" || c == "err == io.EOF && r.N > 0"
				}
			case *ast.CaseClause:
				if rdxReturnsShort(p, s.Body) {
					shorts++
					guard = false
					if len(s.List) == 1 {
						c := strings.Join(strings.Fields(p.src(s.List[0])), " ")
						guard = c == "r.N > 0 && err == io.EOF" || c == "err == io.EOF && r.N > 0"
					}
				}
			}
			return true
		})
	}
	e.boolean("rxAtLeastShortOnlyWhenShort", shorts == 1 && guard)
	e.boolean("rxAtLeastStmts", len(top) == 6 &&
		top[0] == "if r.N <= 0 { return 0, io.EOF }" &&
		top[1] == "n, err := r.R.Read(p)" &&
		strings.HasPrefix(top[2], "r.N -= int64(n)") &&
		top[3] == "if r.N > 0 && err == io.EOF { return n, io.ErrUnexpectedEOF }" &&
		top[4] == "if r.N <= 0 && err == nil { return n, io.EOF }" &&
		top[5] == "return n, err")

	var calls []string
	for key, fd := range p.funcs {
		if fd.Body == nil {
			continue
		}
		ast.Inspect(fd.Body, func(n ast.Node) bool {
			if ce, ok := n.(*ast.CallExpr); ok {
				if se, ok := ce.Fun.(*ast.SelectorExpr); ok {
					switch se.Sel.Name {
					case "SetDeadline", "SetReadDeadline", "SetWriteDeadline":
						calls = append(calls, key+":"+se.Sel.Name)
					}
				}
			}
			return true
		})
	}
	sort.Strings(calls)
	e.strList("rxDeadlineCalls", calls)
}

func rdxReturnsShort(p *pkg, body []ast.Stmt) bool {
	for _, s := range body {
		if rs, ok := s.(*ast.ReturnStmt); ok {
			for _, r := range rs.Results {
				if p.src(r) == "io.ErrUnexpectedEOF" {
					return true
				}
			}
		}
	}
	return false
}

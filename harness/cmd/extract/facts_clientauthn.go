package main

// Facts for C02 (a verifying client completes only with an authenticated server): the shape
// of the client's authentication logic as it stands in the source — is ServerKeyExchange
// asserted mandatorily (F1), which certificates are chain-verified with which VerifyOptions
// and under which guard, does resumption re-verify the recorded certificates (F13), how the
// Finished value is compared, which steps the two branches of clientHandshakeState.handshake
// run before the one place where completion is recorded.
//
// All names carry the prefix `ca` (client authentication) inside Gotlcp.Facts.{tlcp,dtlcp}.

import (
	"go/ast"
	"go/token"
	"strconv"
	"strings"
)

func init() {
	extraFactFns = append(extraFactFns, emitClientAuthn)
	for _, st := range []string{"tlcp", "dtlcp"} {
		extraHashed[st] = append(extraHashed[st],
			"clientHandshakeState.doFullHandshake", "clientHandshakeState.handshake",
			"clientHandshakeState.processServerHello", "clientHandshakeState.readFinished",
			"Conn.verifyServerCertificate", "Conn.loadSession",
			"eccKeyAgreement.processServerKeyExchange", "sm2ECDHEKeyAgreement.processServerKeyExchange",
			"eccKeyAgreement.generateClientKeyExchange", "sm2ECDHEKeyAgreement.generateClientKeyExchange",
			"lruSessionCache.Put", "SessionState.clone")
	}
}

// caEvictionShape inspects the eviction path of lruSessionCache.Put — the statements between
// `elem := c.q.Back()` and the reuse of the entry (`entry.state = cs`) — for what it does to
// the master secret of the evicted SessionState (reached as `entry.state` or through a local
// alias `x := entry.state`): wiped with setZero? dropped (`… = nil`) afterwards?
func caEvictionShape(p *pkg) (found, wipes, drops bool) {
	stmts := body(p, "lruSessionCache.Put")
	start := -1
	for i, st := range stmts {
		if as, ok := st.(*ast.AssignStmt); ok && len(as.Rhs) == 1 && p.src(as.Rhs[0]) == "c.q.Back()" {
			start = i
		}
	}
	if start < 0 {
		return
	}
	names := map[string]bool{"entry.state": true}
	done := false
	for _, st := range stmts[start+1:] {
		if done {
			break
		}
		ast.Inspect(st, func(n ast.Node) bool {
			if done {
				return false
			}
			switch t := n.(type) {
			case *ast.AssignStmt:
				if len(t.Lhs) != 1 || len(t.Rhs) != 1 {
					return true
				}
				lhs, rhs := p.src(t.Lhs[0]), p.src(t.Rhs[0])
				if lhs == "entry.state" {
					// the entry is reused for the new session: the evicted one is out of reach
					found, done = true, true
					return false
				}
				if id, ok := t.Lhs[0].(*ast.Ident); ok && names[rhs] {
					names[id.Name] = true
				}
				if rhs == "nil" && strings.HasSuffix(lhs, ".masterSecret") && names[strings.TrimSuffix(lhs, ".masterSecret")] {
					drops = true
				}
			case *ast.ExprStmt:
				if call, ok := t.X.(*ast.CallExpr); ok && p.src(call.Fun) == "setZero" && len(call.Args) == 1 {
					a := p.src(call.Args[0])
					// wiping after the slice was dropped wipes nothing
					if strings.HasSuffix(a, ".masterSecret") && names[strings.TrimSuffix(a, ".masterSecret")] && !drops {
						wipes = true
					}
				}
			}
			return true
		})
	}
	return
}

// caCompletionStores: the two spellings of "record that the handshake completed".
var caCompletionStores = []string{
	"atomic.StoreUint32(&c.handshakeStatus, 1)",
	"c.hsState.Store(int32(stateFinished))",
}

func caIsCompletionStore(p *pkg, st ast.Stmt) bool {
	es, ok := st.(*ast.ExprStmt)
	if !ok {
		return false
	}
	s := p.src(es.X)
	for _, c := range caCompletionStores {
		if s == c {
			return true
		}
	}
	return false
}

// caCountStores counts completion stores anywhere below n.
func caCountStores(p *pkg, n ast.Node) int {
	cnt := 0
	ast.Inspect(n, func(x ast.Node) bool {
		if st, ok := x.(ast.Stmt); ok && caIsCompletionStore(p, st) {
			cnt++
		}
		return true
	})
	return cnt
}

// caErrStep: `if [_,] err (=|:=) recv.X(...); err != nil { ...; return err }` → X
func caErrStep(p *pkg, st ast.Stmt) (string, bool) {
	is, ok := st.(*ast.IfStmt)
	if !ok || is.Init == nil || is.Else != nil {
		return "", false
	}
	as, ok := is.Init.(*ast.AssignStmt)
	if !ok || len(as.Rhs) != 1 {
		return "", false
	}
	call, ok := as.Rhs[0].(*ast.CallExpr)
	if !ok {
		return "", false
	}
	sel, ok := call.Fun.(*ast.SelectorExpr)
	if !ok {
		return "", false
	}
	if p.src(is.Cond) != "err != nil" || len(is.Body.List) == 0 {
		return "", false
	}
	rs, ok := is.Body.List[len(is.Body.List)-1].(*ast.ReturnStmt)
	if !ok || len(rs.Results) != 1 || p.src(rs.Results[0]) != "err" {
		return "", false
	}
	return sel.Sel.Name, true
}

// caCallbackNames: the optional user callbacks of Config the client consults about its peer.
var caCallbackNames = []string{"VerifyPeerCertificate", "VerifyConnection"}

func caIsCallbackName(n string) bool {
	for _, c := range caCallbackNames {
		if c == n {
			return true
		}
	}
	return false
}

// caCallbackRefusal recognises the one shape in which a callback can only ADD a refusal:
//
//	if c.config.N != nil { if err (:=|=) c.config.N(...); err != nil { …; return err } }
//
// (nothing else inside the nil test, no else branches) and returns N.
func caCallbackRefusal(p *pkg, st ast.Stmt) (string, bool) {
	is, ok := st.(*ast.IfStmt)
	if !ok || is.Init != nil || is.Else != nil || len(is.Body.List) != 1 {
		return "", false
	}
	be, ok := is.Cond.(*ast.BinaryExpr)
	if !ok || be.Op != token.NEQ || p.src(be.Y) != "nil" {
		return "", false
	}
	sel, ok := be.X.(*ast.SelectorExpr)
	if !ok || p.src(sel.X) != "c.config" || !caIsCallbackName(sel.Sel.Name) {
		return "", false
	}
	in, ok := is.Body.List[0].(*ast.IfStmt)
	if !ok || in.Init == nil || in.Else != nil || p.src(in.Cond) != "err != nil" || len(in.Body.List) == 0 {
		return "", false
	}
	as, ok := in.Init.(*ast.AssignStmt)
	if !ok || len(as.Lhs) != 1 || len(as.Rhs) != 1 || p.src(as.Lhs[0]) != "err" {
		return "", false
	}
	call, ok := as.Rhs[0].(*ast.CallExpr)
	if !ok || p.src(call.Fun) != "c.config."+sel.Sel.Name {
		return "", false
	}
	// the arguments do not consult a callback either
	for _, a := range call.Args {
		if caCountCallbackRefs(a) != 0 {
			return "", false
		}
	}
	for _, b := range in.Body.List[:len(in.Body.List)-1] {
		if caCountCallbackRefs(b) != 0 {
			return "", false
		}
	}
	rs, ok := in.Body.List[len(in.Body.List)-1].(*ast.ReturnStmt)
	if !ok || len(rs.Results) != 1 || p.src(rs.Results[0]) != "err" {
		return "", false
	}
	return sel.Sel.Name, true
}

// caCountCallbackRefs counts the mentions of a callback field (`….VerifyPeerCertificate`,
// `….VerifyConnection`) below n.
func caCountCallbackRefs(n ast.Node) int {
	cnt := 0
	ast.Inspect(n, func(x ast.Node) bool {
		if sel, ok := x.(*ast.SelectorExpr); ok && caIsCallbackName(sel.Sel.Name) {
			cnt++
		}
		return true
	})
	return cnt
}

// caIsClientAuthFunc: the functions on the client's path from ClientHello to completion.
func caIsClientAuthFunc(key string) bool {
	return strings.HasPrefix(key, "clientHandshakeState.") || key == "Conn.clientHandshake" ||
		key == "Conn.verifyServerCertificate" || key == "Conn.loadSession" || key == "Conn.verifySessionCertificates" ||
		strings.HasSuffix(key, "KeyAgreement.processServerKeyExchange") ||
		strings.HasSuffix(key, "KeyAgreement.generateClientKeyExchange")
}

// caStep: an error-checked call of handshake() or a callback refusal block
func caStep(p *pkg, st ast.Stmt) (string, bool) {
	if nm, ok := caErrStep(p, st); ok {
		return nm, true
	}
	return caCallbackRefusal(p, st)
}

// caVerifyShape inspects a function body for the chain-verification block:
// `if <guard> { opts := x509.VerifyOptions{...}; ...; certs[i].Verify(opts) ... }`.
func caVerifyShape(p *pkg, fd *ast.FuncDecl) (guard string, opts []string, idx []int64, minCerts int64, okMin bool) {
	if fd == nil || fd.Body == nil {
		return
	}
	for _, st := range fd.Body.List {
		is, ok := st.(*ast.IfStmt)
		if !ok {
			continue
		}
		// `if len(certs) < N { ... return }`
		if be, ok := is.Cond.(*ast.BinaryExpr); ok && be.Op == token.LSS && p.src(be.X) == "len(certs)" {
			if v, ok := p.evalInt(be.Y, 0, 0); ok && len(is.Body.List) > 0 {
				if _, isRet := is.Body.List[len(is.Body.List)-1].(*ast.ReturnStmt); isRet {
					minCerts, okMin = v, true
				}
			}
		}
		hasVerify := false
		ast.Inspect(is.Body, func(n ast.Node) bool {
			if call, ok := n.(*ast.CallExpr); ok {
				if sel, ok := call.Fun.(*ast.SelectorExpr); ok && sel.Sel.Name == "Verify" {
					hasVerify = true
				}
			}
			return true
		})
		if !hasVerify {
			continue
		}
		guard = p.src(is.Cond)
		// walk the block in order: every `… = certs[i].Verify(opts)` must be followed by
		// `if err != nil { …; return … }` to count as enforced
		for i, bs := range is.Body.List {
			switch t := bs.(type) {
			case *ast.AssignStmt:
				if len(t.Rhs) == 1 {
					if cl, ok := t.Rhs[0].(*ast.CompositeLit); ok && strings.HasSuffix(p.src(cl.Type), "VerifyOptions") {
						for _, el := range cl.Elts {
							if kvp, ok := el.(*ast.KeyValueExpr); ok {
								opts = append(opts, p.src(kvp.Key)+"="+p.src(kvp.Value))
							}
						}
					}
					if call, ok := t.Rhs[0].(*ast.CallExpr); ok {
						if sel, ok := call.Fun.(*ast.SelectorExpr); ok && sel.Sel.Name == "Verify" &&
							len(call.Args) == 1 && p.src(call.Args[0]) == "opts" {
							if ix, ok := sel.X.(*ast.IndexExpr); ok && p.src(ix.X) == "certs" {
								if v, ok := p.evalInt(ix.Index, 0, 0); ok && i+1 < len(is.Body.List) {
									if chk, ok := is.Body.List[i+1].(*ast.IfStmt); ok && p.src(chk.Cond) == "err != nil" && len(chk.Body.List) > 0 {
										if _, isRet := chk.Body.List[len(chk.Body.List)-1].(*ast.ReturnStmt); isRet {
											idx = append(idx, v)
										}
									}
								}
							}
						}
					}
				}
			}
		}
	}
	return
}

// caVerifyShapeNested is caVerifyShape for helpers whose `len(certs) < N` test sits inside the
// guard block.
func caVerifyShapeNested(p *pkg, fd *ast.FuncDecl) (guard string, opts []string, idx []int64, minCerts int64, okMin bool) {
	guard, opts, idx, minCerts, okMin = caVerifyShape(p, fd)
	if fd == nil || fd.Body == nil || okMin {
		return
	}
	for _, st := range fd.Body.List {
		is, ok := st.(*ast.IfStmt)
		if !ok || p.src(is.Cond) != guard {
			continue
		}
		for _, bs := range is.Body.List {
			in, ok := bs.(*ast.IfStmt)
			if !ok {
				continue
			}
			if be, ok := in.Cond.(*ast.BinaryExpr); ok && be.Op == token.LSS && p.src(be.X) == "len(certs)" && len(in.Body.List) > 0 {
				if _, isRet := in.Body.List[len(in.Body.List)-1].(*ast.ReturnStmt); isRet {
					if v, ok := p.evalInt(be.Y, 0, 0); ok {
						minCerts, okMin = v, true
					}
				}
			}
		}
	}
	return
}

func emitClientAuthn(e *emitter, p *pkg) {
	if p.name != "tlcp" && p.name != "dtlcp" {
		return
	}
	e.comment("handshake_client.go: server authentication by the client (C02)")

	// --- F1: is the ServerKeyExchange assertion mandatory?
	found, mandatory := false, false
	stmts := body(p, "clientHandshakeState.doFullHandshake")
	for i, st := range stmts {
		as, ok := st.(*ast.AssignStmt)
		if !ok || len(as.Rhs) != 1 {
			continue
		}
		ta, ok := as.Rhs[0].(*ast.TypeAssertExpr)
		if !ok || p.src(ta.Type) != "*serverKeyExchangeMsg" || i+1 >= len(stmts) {
			continue
		}
		is, ok := stmts[i+1].(*ast.IfStmt)
		if !ok {
			continue
		}
		switch p.src(is.Cond) {
		case "ok":
			found, mandatory = true, false
			// `if ok {…} else { alert; return }` is mandatory too
			if blk, ok := is.Else.(*ast.BlockStmt); ok && len(blk.List) > 0 {
				if _, isRet := blk.List[len(blk.List)-1].(*ast.ReturnStmt); isRet {
					mandatory = true
				}
			}
		case "!ok":
			if len(is.Body.List) > 0 {
				if _, isRet := is.Body.List[len(is.Body.List)-1].(*ast.ReturnStmt); isRet {
					found, mandatory = true, true
				}
			}
		}
	}
	if !found {
		e.nat("caSkxAssertionFound", 0, false)
	} else {
		e.nat("caSkxAssertionFound", 1, true)
	}
	e.boolean("caSkxMandatory", found && mandatory)

	// --- verifyServerCertificate
	guard, opts, idx, minCerts, okMin := caVerifyShape(p, p.funcs["Conn.verifyServerCertificate"])
	e.nat("caMinCerts", minCerts, okMin)
	e.str("caVerifyGuard", guard)
	e.strList("caVerifyOpts", opts)
	e.natList("caVerifiedIdx", idx, guard != "")
	// key type switch on certs[0]: the accepted dynamic types
	var kinds []string
	if fd := p.funcs["Conn.verifyServerCertificate"]; fd != nil {
		for _, st := range fd.Body.List {
			ts, ok := st.(*ast.TypeSwitchStmt)
			if !ok || !strings.HasPrefix(p.src(ts.Assign), "certs[0].PublicKey.(type)") {
				continue
			}
			for _, cc := range ts.Body.List {
				cl := cc.(*ast.CaseClause)
				if cl.List == nil {
					continue
				}
				returns := false
				for _, b := range cl.Body {
					if _, ok := b.(*ast.ReturnStmt); ok {
						returns = true
					}
				}
				if !returns {
					for _, t := range cl.List {
						kinds = append(kinds, p.src(t))
					}
				}
			}
		}
	}
	e.strList("caSigKeyTypesAccepted", kinds)

	// --- the user callbacks: which ones verifyServerCertificate consults, in the refusal-only
	// shape, at its top level, and whether all of them come after the built-in checks (the
	// chain-verification block and the key-type switch); every other mention of a callback on
	// the client's path (a test that makes a built-in check conditional, a call whose result is
	// used differently) is counted
	var cbs []string
	cbAfter := true
	refusalRefs := 0
	if fd := p.funcs["Conn.verifyServerCertificate"]; fd != nil && fd.Body != nil {
		lastBuiltin := -1
		for i, st := range fd.Body.List {
			switch t := st.(type) {
			case *ast.TypeSwitchStmt:
				lastBuiltin = i
			case *ast.IfStmt:
				if p.src(t.Cond) == guard && guard != "" {
					lastBuiltin = i
				}
			}
		}
		for i, st := range fd.Body.List {
			if nm, ok := caCallbackRefusal(p, st); ok {
				cbs = append(cbs, nm)
				refusalRefs += 2
				if i < lastBuiltin {
					cbAfter = false
				}
			}
		}
	}
	for _, st := range body(p, "clientHandshakeState.handshake") {
		is, ok := st.(*ast.IfStmt)
		if !ok || p.src(is.Cond) != "isResume" {
			continue
		}
		for _, s := range is.Body.List {
			if _, ok := caCallbackRefusal(p, s); ok {
				refusalRefs += 2
			}
		}
		if els, ok := is.Else.(*ast.BlockStmt); ok {
			for _, s := range els.List {
				if _, ok := caCallbackRefusal(p, s); ok {
					refusalRefs += 2
				}
			}
		}
	}
	totalRefs := 0
	for key, fd := range p.funcs {
		if fd.Body != nil && caIsClientAuthFunc(key) {
			totalRefs += caCountCallbackRefs(fd.Body)
		}
	}
	e.strList("caFullCallbacks", cbs)
	e.boolean("caCallbacksAfterBuiltin", cbAfter)
	e.raw("caCallbackRefsOutsideRefusal", "Nat", strconv.Itoa(totalRefs-refusalRefs), totalRefs-refusalRefs)

	// --- F13: are the certificates recorded in a session re-verified under the current
	// configuration before the session is used? Two accepted places: loadSession (before the
	// session id is offered: `if err := c.X(session.peerCertificates); err != nil { return …, nil }`)
	// or processServerHello (before the certificates are adopted).
	reverifies := false
	var rIdx []int64
	var rOpts []string
	rGuard := ""
	var rMin int64
	adopt := false
	scan := func(fn, arg, stopLhs, stopRhs string) (reached bool) {
		for _, st := range body(p, fn) {
			if as, ok := st.(*ast.AssignStmt); ok && len(as.Lhs) == 1 && len(as.Rhs) == 1 &&
				p.src(as.Lhs[0]) == stopLhs && p.src(as.Rhs[0]) == stopRhs {
				return true
			}
			is, ok := st.(*ast.IfStmt)
			if !ok || is.Init == nil {
				continue
			}
			as, ok := is.Init.(*ast.AssignStmt)
			if !ok || len(as.Rhs) != 1 {
				continue
			}
			call, ok := as.Rhs[0].(*ast.CallExpr)
			if !ok || len(call.Args) != 1 || p.src(call.Args[0]) != arg {
				continue
			}
			sel, ok := call.Fun.(*ast.SelectorExpr)
			if !ok || p.src(is.Cond) != "err != nil" || len(is.Body.List) == 0 {
				continue
			}
			if _, isRet := is.Body.List[len(is.Body.List)-1].(*ast.ReturnStmt); !isRet {
				continue
			}
			g, o, ix, mn, okm := caVerifyShapeNested(p, p.funcs["Conn."+sel.Sel.Name])
			if g != "" {
				reverifies = true
				rGuard, rOpts, rIdx = g, o, ix
				if okm {
					rMin = mn
				}
			}
		}
		return false
	}
	offered := scan("Conn.loadSession", "session.peerCertificates", "hello.sessionId", "session.sessionId")
	viaLoad := reverifies && offered
	reverifies = false
	adopt = scan("clientHandshakeState.processServerHello", "hs.session.peerCertificates", "c.peerCertificates", "hs.session.peerCertificates")
	viaHello := reverifies && adopt
	e.boolean("caResumeAdoptsRecordedCerts", adopt)
	e.boolean("caResumeReverifies", viaLoad || viaHello)
	e.boolean("caResumeReverifyBeforeOffer", viaLoad)
	e.str("caResumeVerifyGuard", rGuard)
	e.strList("caResumeVerifyOpts", rOpts)
	e.natList("caResumeVerifiedIdx", rIdx, true)
	e.raw("caResumeMinCerts", "Nat", strconv.FormatInt(rMin, 10), rMin)

	// --- the master secret of a cached session: what an eviction leaves behind in the
	// SessionState (a concurrent loadSession may still hold the pointer SessionCache.Get
	// returned), does loadSession go on with a private deep copy, and does processServerHello
	// refuse a session without a secret
	evFound, evWipes, evDrops := caEvictionShape(p)
	if !evFound {
		e.nat("caEvictionPathFound", 0, false)
	} else {
		e.nat("caEvictionPathFound", 1, true)
	}
	e.boolean("caEvictWipesSecret", evFound && evWipes)
	e.boolean("caEvictDropsSecret", evFound && evDrops)
	clones := false
	for _, st := range body(p, "Conn.loadSession") {
		as, ok := st.(*ast.AssignStmt)
		if !ok || len(as.Lhs) != 1 || len(as.Rhs) != 1 {
			continue
		}
		if p.src(as.Lhs[0]) == "hello.sessionId" {
			break // offered: a copy taken later is too late
		}
		if p.src(as.Lhs[0]) == "session" && p.src(as.Rhs[0]) == "session.clone()" {
			clones = true
		}
	}
	deep := false
	if fd := p.funcs["SessionState.clone"]; fd != nil && fd.Body != nil {
		ast.Inspect(fd.Body, func(n ast.Node) bool {
			if call, ok := n.(*ast.CallExpr); ok && p.src(call) == "copy(cp.masterSecret, s.masterSecret)" {
				deep = true
			}
			return true
		})
	}
	e.boolean("caLoadSessionClones", clones && deep)
	secretGuard := false
	for _, st := range body(p, "clientHandshakeState.processServerHello") {
		if as, ok := st.(*ast.AssignStmt); ok && len(as.Lhs) == 1 && p.src(as.Lhs[0]) == "c.peerCertificates" {
			break // the session is adopted: a test after this point guards nothing
		}
		is, ok := st.(*ast.IfStmt)
		if !ok {
			continue
		}
		endsInReturn := func(b *ast.BlockStmt) bool {
			if b == nil || len(b.List) == 0 {
				return false
			}
			rs, ok := b.List[len(b.List)-1].(*ast.ReturnStmt)
			return ok && len(rs.Results) == 2 && p.src(rs.Results[1]) != "nil"
		}
		switch p.src(is.Cond) {
		case "len(hs.session.masterSecret) > 0", "len(hs.session.masterSecret) != 0":
			if blk, ok := is.Else.(*ast.BlockStmt); ok && endsInReturn(blk) {
				secretGuard = true
			}
		case "len(hs.session.masterSecret) == 0", "len(hs.session.masterSecret) < 1":
			if endsInReturn(is.Body) {
				secretGuard = true
			}
		}
	}
	e.boolean("caResumeSecretGuard", secretGuard)

	// --- readFinished: how the verify data are compared
	cmp := ""
	if fd := p.funcs["clientHandshakeState.readFinished"]; fd != nil {
		ast.Inspect(fd.Body, func(n ast.Node) bool {
			if is, ok := n.(*ast.IfStmt); ok && strings.Contains(p.src(is.Cond), "serverFinished.verifyData") {
				if len(is.Body.List) > 0 {
					if _, isRet := is.Body.List[len(is.Body.List)-1].(*ast.ReturnStmt); isRet {
						cmp = p.src(is.Cond)
					}
				}
			}
			return true
		})
	}
	e.str("caFinishedCompare", cmp)
	if cmp == "" {
		e.missing = append(e.missing, e.key("caFinishedCompare"))
	}

	// --- handshake(): steps of the two branches, position of the completion store
	var full, resume []string
	storeLast := false
	returnsNil := 0
	hb := body(p, "clientHandshakeState.handshake")
	for i, st := range hb {
		is, ok := st.(*ast.IfStmt)
		if !ok || p.src(is.Cond) != "isResume" {
			continue
		}
		els, ok := is.Else.(*ast.BlockStmt)
		if !ok {
			continue
		}
		for _, s := range is.Body.List {
			if nm, ok := caStep(p, s); ok {
				resume = append(resume, nm)
			}
		}
		for _, s := range els.List {
			if nm, ok := caStep(p, s); ok {
				full = append(full, nm)
			}
		}
		// no completion store before or inside the branches; exactly one after them
		before := 0
		for _, s := range hb[:i+1] {
			before += caCountStores(p, s)
		}
		after := 0
		for _, s := range hb[i+1:] {
			if caIsCompletionStore(p, s) {
				after++
			}
		}
		storeLast = before == 0 && after == 1
	}
	if fd := p.funcs["clientHandshakeState.handshake"]; fd != nil {
		ast.Inspect(fd.Body, func(n ast.Node) bool {
			if rs, ok := n.(*ast.ReturnStmt); ok && len(rs.Results) == 1 && p.src(rs.Results[0]) == "nil" {
				returnsNil++
			}
			return true
		})
		// the only `return nil` must be the last statement
		if n := len(hb); n == 0 {
			storeLast = false
		} else if rs, ok := hb[n-1].(*ast.ReturnStmt); !ok || len(rs.Results) != 1 || p.src(rs.Results[0]) != "nil" {
			storeLast = false
		}
	}
	e.strList("caFullSteps", full)
	e.strList("caResumeSteps", resume)
	e.boolean("caStatusStoreLast", storeLast && returnsNil == 1)
	// completion stores in client-side functions other than handshake()
	elsewhere := 0
	for key, fd := range p.funcs {
		if fd.Body == nil || key == "clientHandshakeState.handshake" {
			continue
		}
		if strings.HasPrefix(key, "clientHandshakeState.") || key == "Conn.clientHandshake" ||
			key == "Conn.verifyServerCertificate" || key == "Conn.loadSession" ||
			strings.HasSuffix(key, "KeyAgreement.processServerKeyExchange") ||
			strings.HasSuffix(key, "KeyAgreement.generateClientKeyExchange") {
			elsewhere += caCountStores(p, fd.Body)
		}
	}
	e.raw("caStatusStoresElsewhere", "Nat", strconv.Itoa(elsewhere), elsewhere)
	caPremaster(e, p)
}

// caPremaster: how eccKeyAgreement.generateClientKeyExchange fills the pre-master secret — the
// buffer `X := make([]byte, N)`, every call that is handed a tail `X[k:]` of it (the random part),
// and whether X itself is what is encrypted to the server's key and returned.  io.Reader.Read may
// deliver fewer bytes than asked for: only io.ReadFull draws all N-k bytes from Config.Rand.
func caPremaster(e *emitter, p *pkg) {
	fd := p.funcs["eccKeyAgreement.generateClientKeyExchange"]
	var buf string
	var size, from int64 = 0, 0
	okSize, okFrom := false, false
	fills := []string{}
	encrypted, returned := false, false
	if fd != nil && fd.Body != nil {
		ast.Inspect(fd.Body, func(n ast.Node) bool {
			switch t := n.(type) {
			case *ast.AssignStmt:
				if buf == "" && len(t.Lhs) == 1 && len(t.Rhs) == 1 {
					if call, ok := t.Rhs[0].(*ast.CallExpr); ok && p.src(call.Fun) == "make" && len(call.Args) == 2 && p.src(call.Args[0]) == "[]byte" {
						if id, ok := t.Lhs[0].(*ast.Ident); ok {
							if v, err := strconv.ParseInt(p.src(call.Args[1]), 0, 64); err == nil {
								buf, size, okSize = id.Name, v, true
							}
						}
					}
				}
			case *ast.CallExpr:
				if buf == "" {
					return true
				}
				for _, a := range t.Args {
					if sl, ok := a.(*ast.SliceExpr); ok && p.src(sl.X) == buf && sl.Low != nil && sl.High == nil {
						kind := "other:" + p.src(t.Fun)
						if p.src(t.Fun) == "io.ReadFull" && len(t.Args) == 2 && p.src(t.Args[0]) == "config.rand()" {
							kind = "readfull"
						} else if sel, ok := t.Fun.(*ast.SelectorExpr); ok && sel.Sel.Name == "Read" && len(t.Args) == 1 {
							kind = "read"
						}
						fills = append(fills, kind)
						if v, err := strconv.ParseInt(p.src(sl.Low), 0, 64); err == nil && !okFrom {
							from, okFrom = v, true
						}
					}
				}
				if p.src(t.Fun) == "sm2.Encrypt" && len(t.Args) >= 3 && p.src(t.Args[2]) == buf {
					encrypted = true
				}
			case *ast.ReturnStmt:
				if buf != "" && len(t.Results) == 3 && p.src(t.Results[0]) == buf {
					returned = true
				}
			}
			return true
		})
	}
	e.nat("caPremasterLen", size, okSize)
	e.nat("caPremasterRandFrom", from, okFrom)
	e.strList("caPremasterFills", fills)
	e.boolean("caPremasterReadFull", len(fills) == 1 && fills[0] == "readfull")
	e.boolean("caPremasterEncryptedAndReturned", encrypted && returned)
}

package main

// Facts for C09 (robustness), certificate lists: the INDEX STRUCTURE of the functions that take
// the certificate list of the peer's Certificate message apart by hand —
// Conn.processCertsFromClient, Conn.verifyServerCertificate, Conn.verifySessionCertificates of
// both stacks.  Each function is transliterated, statement by statement, into a small program
// over one tracked slice (`certs`): which constant / variable indices and slice bounds are read,
// under which conditions on `len(certs)`, on boolean locals assigned once (`isECDHE`) and on
// conditions the model does not interpret, with the early returns.  The program is a prefix
// encoding as a list of (op, a, b) triples; `Gotlcp.Model.CertIdx` parses it back and decides,
// for EVERY length of the list, whether some path indexes out of range.
//
//	hsCertIdxServer / hsCertIdxClient / hsCertIdxSession   List (Nat × Nat × Nat)
//	hsCertIdxNames                                          the flag and variable names, for the reader
//
// statements:  (0) end of block   (1) return   (2,k) certs[k]   (3,v) certs[<var v>]
//	(4,k) certs[k:]   (5,v) certs[<var v>:]   (6,v,k) <var v> = k   (8) if <cond> <block> <block>
//	(9) loop <block>   (10) certs[i] with i the key of a `range` over the slice whose length certs
//	was made with   (11) something the extractor cannot interpret (re-slicing, append, an index
//	that is not a literal or a tracked variable, goto): the model takes it as a possible panic
//	(12) break   (13) continue   (14) breakable scope (switch) <block>
//
// conditions:  (20,k) len(certs) < k   (21,i) boolean local i   (22) not interpreted
//
//	(23) not <c>   (24) and <c> <c>   (25) or <c> <c>

import (
	"fmt"
	"go/ast"
	"go/token"
	"strconv"
	"strings"
)

func init() {
	extraFactFns = append(extraFactFns, emitCertIdx)
	fns := []string{"Conn.processCertsFromClient", "Conn.verifyServerCertificate", "Conn.verifySessionCertificates"}
	extraHashed["tlcp"] = append(extraHashed["tlcp"], fns...)
	extraHashed["dtlcp"] = append(extraHashed["dtlcp"], fns...)
}

type ciTok [3]int64

type ciWalker struct {
	p       *pkg
	slice   string           // the tracked slice variable
	madeOf  string           // certs := make(T, len(<madeOf>))
	flags   map[string]int64 // boolean locals assigned exactly once from an expression without the slice
	ivars   map[string]int64 // int locals only ever assigned integer literals
	names   []string
	toks    []ciTok
	rangeKs []string // keys of enclosing `range madeOf` / `range certs` loops
}

func (w *ciWalker) emit(op, a, b int64) { w.toks = append(w.toks, ciTok{op, a, b}) }

func ciMentions(p *pkg, n ast.Node, name string) bool {
	found := false
	ast.Inspect(n, func(x ast.Node) bool {
		if id, ok := x.(*ast.Ident); ok && id.Name == name {
			found = true
		}
		return !found
	})
	return found
}

func ciIntLit(e ast.Expr) (int64, bool) {
	if bl, ok := e.(*ast.BasicLit); ok && bl.Kind == token.INT {
		v, err := strconv.ParseInt(bl.Value, 0, 64)
		return v, err == nil && v >= 0
	}
	return 0, false
}

// prescan classifies the locals of the function.
func (w *ciWalker) prescan(fd *ast.FuncDecl) {
	assigns := map[string][]ast.Expr{}
	bad := map[string]bool{}
	ast.Inspect(fd.Body, func(n ast.Node) bool {
		switch s := n.(type) {
		case *ast.AssignStmt:
			for i, l := range s.Lhs {
				id, ok := l.(*ast.Ident)
				if !ok {
					continue
				}
				if len(s.Lhs) == len(s.Rhs) && s.Tok != token.ADD_ASSIGN && (s.Tok == token.ASSIGN || s.Tok == token.DEFINE) {
					assigns[id.Name] = append(assigns[id.Name], s.Rhs[i])
				} else {
					bad[id.Name] = true
				}
			}
		case *ast.IncDecStmt:
			if id, ok := s.X.(*ast.Ident); ok {
				bad[id.Name] = true
			}
		case *ast.RangeStmt:
			for _, e := range []ast.Expr{s.Key, s.Value} {
				if id, ok := e.(*ast.Ident); ok {
					bad[id.Name] = true
				}
			}
		case *ast.UnaryExpr:
			if s.Op == token.AND {
				if id, ok := s.X.(*ast.Ident); ok {
					bad[id.Name] = true // address taken
				}
			}
		}
		return true
	})
	var order []string
	ast.Inspect(fd.Body, func(n ast.Node) bool {
		if s, ok := n.(*ast.AssignStmt); ok {
			for _, l := range s.Lhs {
				if id, ok := l.(*ast.Ident); ok {
					order = append(order, id.Name)
				}
			}
		}
		return true
	})
	seen := map[string]bool{}
	for _, name := range order {
		if seen[name] || bad[name] || name == w.slice || name == "_" {
			continue
		}
		seen[name] = true
		rhs := assigns[name]
		allInt := len(rhs) > 0
		for _, r := range rhs {
			if _, ok := ciIntLit(r); !ok {
				allInt = false
			}
		}
		if allInt {
			w.ivars[name] = int64(len(w.ivars))
			continue
		}
		if len(rhs) == 1 && !ciMentions(w.p, rhs[0], w.slice) && ciBoolish(rhs[0]) {
			w.flags[name] = int64(len(w.flags))
		}
	}
}

// ciBoolish: the expression is syntactically boolean (comparison, logical operator, parenthesised)
func ciBoolish(e ast.Expr) bool {
	switch x := e.(type) {
	case *ast.ParenExpr:
		return ciBoolish(x.X)
	case *ast.BinaryExpr:
		switch x.Op {
		case token.LAND, token.LOR, token.EQL, token.NEQ, token.LSS, token.LEQ, token.GTR, token.GEQ:
			return true
		}
	case *ast.UnaryExpr:
		return x.Op == token.NOT
	}
	return false
}

// uses emits the index / slice expressions of the tracked slice inside n, in source order
// (function literals included: their body is taken as executed where it is written).
func (w *ciWalker) uses(n ast.Node) {
	if n == nil {
		return
	}
	ast.Inspect(n, func(x ast.Node) bool {
		switch e := x.(type) {
		case *ast.IndexExpr:
			if id, ok := e.X.(*ast.Ident); ok && id.Name == w.slice {
				w.useIndex(e.Index)
				w.uses(e.Index)
				return false
			}
		case *ast.SliceExpr:
			if id, ok := e.X.(*ast.Ident); ok && id.Name == w.slice {
				if e.High != nil || e.Max != nil || e.Low == nil {
					if e.Low == nil && e.High == nil { // certs[:] is harmless
						return false
					}
					w.emit(11, 0, 0)
					return false
				}
				if k, ok := ciIntLit(e.Low); ok {
					w.emit(4, k, 0)
				} else if id, ok := e.Low.(*ast.Ident); ok {
					if v, ok := w.ivars[id.Name]; ok {
						w.emit(5, v, 0)
					} else {
						w.emit(11, 0, 0)
					}
				} else {
					w.emit(11, 0, 0)
				}
				return false
			}
		}
		return true
	})
}

func (w *ciWalker) useIndex(ix ast.Expr) {
	if k, ok := ciIntLit(ix); ok {
		w.emit(2, k, 0)
		return
	}
	if id, ok := ix.(*ast.Ident); ok {
		if v, ok := w.ivars[id.Name]; ok {
			w.emit(3, v, 0)
			return
		}
		for _, k := range w.rangeKs {
			if k == id.Name {
				w.emit(10, 0, 0)
				return
			}
		}
	}
	w.emit(11, 0, 0)
}

// lenCmp recognises `len(certs) <op> K`.
func (w *ciWalker) lenCmp(e *ast.BinaryExpr) (op token.Token, k int64, ok bool) {
	isLen := func(x ast.Expr) bool {
		c, ok := x.(*ast.CallExpr)
		if !ok || len(c.Args) != 1 {
			return false
		}
		f, ok1 := c.Fun.(*ast.Ident)
		a, ok2 := c.Args[0].(*ast.Ident)
		return ok1 && ok2 && f.Name == "len" && a.Name == w.slice
	}
	if isLen(e.X) {
		if k, ok := ciIntLit(e.Y); ok {
			return e.Op, k, true
		}
	}
	if isLen(e.Y) { // K <op> len(certs): mirror
		if k, ok := ciIntLit(e.X); ok {
			m := map[token.Token]token.Token{token.LSS: token.GTR, token.GTR: token.LSS, token.LEQ: token.GEQ, token.GEQ: token.LEQ,
				token.EQL: token.EQL, token.NEQ: token.NEQ}
			if o, ok := m[e.Op]; ok {
				return o, k, true
			}
		}
	}
	return 0, 0, false
}

func (w *ciWalker) cond(e ast.Expr) {
	switch x := e.(type) {
	case *ast.ParenExpr:
		w.cond(x.X)
		return
	case *ast.UnaryExpr:
		if x.Op == token.NOT {
			w.emit(23, 0, 0)
			w.cond(x.X)
			return
		}
	case *ast.Ident:
		if i, ok := w.flags[x.Name]; ok {
			w.emit(21, i, 0)
			return
		}
	case *ast.BinaryExpr:
		switch x.Op {
		case token.LAND:
			w.emit(24, 0, 0)
			w.cond(x.X)
			w.cond(x.Y)
			return
		case token.LOR:
			w.emit(25, 0, 0)
			w.cond(x.X)
			w.cond(x.Y)
			return
		}
		if op, k, ok := w.lenCmp(x); ok {
			switch op {
			case token.LSS:
				w.emit(20, k, 0)
			case token.LEQ:
				w.emit(20, k+1, 0)
			case token.GEQ:
				w.emit(23, 0, 0)
				w.emit(20, k, 0)
			case token.GTR:
				w.emit(23, 0, 0)
				w.emit(20, k+1, 0)
			case token.EQL: // k <= len < k+1
				w.emit(24, 0, 0)
				w.emit(23, 0, 0)
				w.emit(20, k, 0)
				w.emit(20, k+1, 0)
			case token.NEQ:
				w.emit(25, 0, 0)
				w.emit(20, k, 0)
				w.emit(23, 0, 0)
				w.emit(20, k+1, 0)
			default:
				w.emit(22, 0, 0)
			}
			return
		}
	}
	w.emit(22, 0, 0)
}

func (w *ciWalker) block(list []ast.Stmt) {
	for _, s := range list {
		w.stmt(s)
	}
	w.emit(0, 0, 0)
}

func (w *ciWalker) stmt(s ast.Stmt) {
	switch t := s.(type) {
	case nil:
	case *ast.BlockStmt:
		for _, x := range t.List {
			w.stmt(x)
		}
	case *ast.ReturnStmt:
		w.uses(t)
		w.emit(1, 0, 0)
	case *ast.BranchStmt:
		switch {
		case t.Label != nil || t.Tok == token.GOTO || t.Tok == token.FALLTHROUGH:
			w.emit(11, 0, 0)
		case t.Tok == token.BREAK:
			w.emit(12, 0, 0)
		case t.Tok == token.CONTINUE:
			w.emit(13, 0, 0)
		}
	case *ast.IfStmt:
		w.stmt(t.Init)
		w.uses(t.Cond) // an index inside the condition is read before the branch is taken
		w.emit(8, 0, 0)
		w.cond(t.Cond)
		w.block(t.Body.List)
		if t.Else == nil {
			w.emit(0, 0, 0)
		} else {
			w.block([]ast.Stmt{t.Else})
		}
	case *ast.ForStmt:
		w.stmt(t.Init)
		w.uses(t.Cond)
		w.emit(9, 0, 0)
		body := append([]ast.Stmt{}, t.Body.List...)
		if t.Post != nil {
			body = append(body, t.Post)
		}
		w.block(body)
		w.emitCondUses(t.Cond)
	case *ast.RangeStmt:
		w.uses(t.X)
		pushed := false
		if x, ok := t.X.(*ast.Ident); ok && (x.Name == w.madeOf || x.Name == w.slice) && t.Tok == token.DEFINE {
			if k, ok := t.Key.(*ast.Ident); ok && k.Name != "_" {
				w.rangeKs = append(w.rangeKs, k.Name)
				pushed = true
			}
		}
		w.emit(9, 0, 0)
		w.block(t.Body.List)
		if pushed {
			w.rangeKs = w.rangeKs[:len(w.rangeKs)-1]
		}
	case *ast.SwitchStmt:
		w.stmt(t.Init)
		w.uses(t.Tag)
		w.cases(t.Body.List)
	case *ast.TypeSwitchStmt:
		w.stmt(t.Init)
		w.uses(t.Assign)
		w.cases(t.Body.List)
	case *ast.SelectStmt, *ast.LabeledStmt:
		w.emit(11, 0, 0)
	case *ast.AssignStmt:
		for i, l := range t.Lhs {
			id, ok := l.(*ast.Ident)
			if !ok {
				continue
			}
			if id.Name == w.slice {
				if !(t.Tok == token.DEFINE && w.madeOf != "" && w.isMake(t.Rhs)) {
					w.emit(11, 0, 0) // the slice itself is re-assigned: its length is no longer tracked
				}
			}
			if v, ok := w.ivars[id.Name]; ok && i < len(t.Rhs) {
				if k, ok := ciIntLit(t.Rhs[i]); ok {
					w.uses(t)
					w.emit(6, v, k)
					return
				}
			}
		}
		w.uses(t)
	default:
		w.uses(s)
	}
}

// emitCondUses: the condition of a `for` is evaluated again after every iteration
func (w *ciWalker) emitCondUses(c ast.Expr) { w.uses(c) }

func (w *ciWalker) isMake(rhs []ast.Expr) bool {
	if len(rhs) != 1 {
		return false
	}
	c, ok := rhs[0].(*ast.CallExpr)
	if !ok || len(c.Args) != 2 {
		return false
	}
	f, ok := c.Fun.(*ast.Ident)
	return ok && f.Name == "make" && w.p.src(c.Args[1]) == "len("+w.madeOf+")"
}

// cases: a switch is a breakable scope holding a chain of uninterpreted two-way choices
func (w *ciWalker) cases(list []ast.Stmt) {
	w.emit(14, 0, 0)
	depth := 0
	var deflt []ast.Stmt
	for _, c := range list {
		cc, ok := c.(*ast.CaseClause)
		if !ok {
			continue
		}
		if cc.List == nil {
			deflt = cc.Body
			continue
		}
		for _, e := range cc.List {
			w.uses(e)
		}
		w.emit(8, 0, 0)
		w.emit(22, 0, 0)
		w.block(cc.Body)
		depth++
	}
	// innermost else-block (empty when there is no default); without any case it is the scope's own block
	w.block(deflt)
	// the else-block of every choice but the innermost one ends after the choice it holds, then the
	// scope's block ends: `depth` ends in all
	for i := 0; i < depth; i++ {
		w.emit(0, 0, 0)
	}
}

func ciProgram(p *pkg, key, slice string) ([]ciTok, []string, bool) {
	fd := p.funcs[key]
	if fd == nil || fd.Body == nil {
		return nil, nil, false
	}
	w := &ciWalker{p: p, slice: slice, flags: map[string]int64{}, ivars: map[string]int64{}}
	// certs := make([]T, len(X))
	ast.Inspect(fd.Body, func(n ast.Node) bool {
		as, ok := n.(*ast.AssignStmt)
		if !ok || len(as.Lhs) != 1 || len(as.Rhs) != 1 || as.Tok != token.DEFINE {
			return true
		}
		if id, ok := as.Lhs[0].(*ast.Ident); !ok || id.Name != slice {
			return true
		}
		if c, ok := as.Rhs[0].(*ast.CallExpr); ok && len(c.Args) == 2 {
			if f, ok := c.Fun.(*ast.Ident); ok && f.Name == "make" {
				if l, ok := c.Args[1].(*ast.CallExpr); ok && len(l.Args) == 1 {
					if lf, ok := l.Fun.(*ast.Ident); ok && lf.Name == "len" {
						if a, ok := l.Args[0].(*ast.Ident); ok {
							w.madeOf = a.Name
						}
					}
				}
			}
		}
		return true
	})
	w.prescan(fd)
	w.block(fd.Body.List)
	names := make([]string, 0)
	for n, i := range w.flags {
		names = append(names, fmt.Sprintf("flag %d = %s", i, n))
	}
	for n, i := range w.ivars {
		names = append(names, fmt.Sprintf("var %d = %s", i, n))
	}
	ciSortStrings(names)
	mentioned := ciMentions(p, fd.Body, slice)
	return w.toks, names, mentioned
}

func ciSortStrings(a []string) {
	for i := 1; i < len(a); i++ {
		for j := i; j > 0 && a[j] < a[j-1]; j-- {
			a[j], a[j-1] = a[j-1], a[j]
		}
	}
}

func emitCertIdx(e *emitter, p *pkg) {
	if p.name != "tlcp" && p.name != "dtlcp" {
		return
	}
	e.comment("handshake_server.go / handshake_client.go: index structure of the functions that take the peer's certificate list apart (C09)")
	var allNames []string
	for _, f := range [][2]string{{"hsCertIdxServer", "Conn.processCertsFromClient"}, {"hsCertIdxClient", "Conn.verifyServerCertificate"},
		{"hsCertIdxSession", "Conn.verifySessionCertificates"}} {
		toks, names, ok := ciProgram(p, f[1], "certs")
		parts := make([]string, len(toks))
		js := make([][3]int64, len(toks))
		for i, t := range toks {
			parts[i] = fmt.Sprintf("(%d, %d, %d)", t[0], t[1], t[2])
			js[i] = t
		}
		e.raw(f[0], "List (Nat × Nat × Nat)", "["+strings.Join(parts, ", ")+"]", js)
		if !ok {
			e.missing = append(e.missing, e.key(f[0]))
		}
		for _, n := range names {
			allNames = append(allNames, strings.TrimPrefix(f[0], "hsCertIdx")+": "+n)
		}
	}
	e.strList("hsCertIdxNames", allNames)
}

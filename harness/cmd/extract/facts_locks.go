package main

// Lock-protocol facts used by C13 (concurrent use of one connection).
//
// For every API method of tlcp.Conn / dtlcp.Conn (and of pa.ProtocolSwitchServerConn) a small
// static walk linearises the method and everything it can reach inside the package into a
// sequence of events
//
//	(0,l) acquire mutex l      X.Lock() / X.RLock()
//	(1,l) release mutex l      X.Unlock() / X.RUnlock(), or a `defer X.Unlock()` at function exit
//	(2,0) transport write      c.conn.Write / c.pconn.WriteTo (a record leaves the connection)
//	(3,0) activeCall enter     CompareAndSwapInt32(&c.activeCall, x, x+2)
//	(4,0) activeCall leave     defer atomic.AddInt32(&c.activeCall, -2)
//	(5,0) activeCall close     CompareAndSwapInt32(&c.activeCall, x, x|1)
//	(6,0) handshakeFn runs     c.handshakeFn(ctx)
//	(7,0) input consumed       c.input.Read / copy(b, c.readBuf) / copy(p, plaintext) (tlcp/dtlcp)
//	(8,0) transport close      c.conn.Close() / c.pconn.Close()
//	(9,0) transport read       c.rawInput.ReadFrom(…) in readFromUntil / c.pconn.ReadFrom (may park the
//	                           goroutine until the peer sends or the transport is closed)
//	(10,0) loop begin / (11,0) loop end   only in lockWriteSections (see below): a `for` / `range`
//	                           statement whose header or body contains an event
//
// lockWriteSections repeats the walk of the Write-like API methods (Write, WriteTo), from the statement
// after their handshake call on, with the loop markers switched on: "all records of one Write leave under ONE acquisition of `out`" is a
// statement about what is inside and what is outside the record loop, which the plain programs
// (loop bodies once) cannot express — a Write that takes and releases `out` once per slice of the
// caller's buffer has the same plain program as one that holds it across the whole buffer.
//
// The walk is flow-insensitive: statements in source order, both arms of every conditional,
// loop bodies once, callees inline (receiver types are resolved syntactically: receiver
// identifier, struct fields of package types, locals initialised with &T{..}/T{..}/new(T),
// parameters; the function value c.handshakeFn is resolved to every method assigned to it;
// calls through interfaces and other function values are not followed). `go` statements start
// with an empty held set and are skipped. While walking, every acquisition is recorded with
// the set of mutexes held at that site: lockPairs = all (held, acquired).
//
// Mutex names are `Type.field` (or `Type` for an embedded mutex); the first three indices are
// fixed: 0 = Conn.handshakeMutex, 1 = Conn.in, 2 = Conn.out; anything else follows in order of
// discovery (today: 3 = Conn.workKeyMu, the leaf mutex of the work key) (so an unexpected mutex moves lockNames and the pinned fact breaks).

import (
	"fmt"
	"go/ast"
	"go/token"
	"sort"
	"strconv"
	"strings"
)

func init() {
	extraFactFns = append(extraFactFns, emitLocks)
	for _, pk := range []string{"tlcp", "dtlcp"} {
		extraHashed[pk] = append(extraHashed[pk], "Conn.Write", "Conn.Read", "Conn.Close", "Conn.CloseWrite", "Conn.closeNotify",
			"Conn.handshakeContext", "Conn.ConnectionState", "Conn.sendAlert", "Conn.writeRecordLocked", "Conn.writeHandshakeRecord",
			"Conn.writeChangeCipherRecord", "Conn.write", "Conn.flush")
	}
	extraHashed["dtlcp"] = append(extraHashed["dtlcp"], "Conn.ReadFrom", "Conn.WriteTo")
	extraHashed["pa"] = append(extraHashed["pa"], "ProtocolSwitchServerConn.ProtectedConn")
}

var lockAPI = map[string][]string{
	"tlcp": {"Conn.Read", "Conn.Write", "Conn.Close", "Conn.CloseWrite", "Conn.Handshake", "Conn.HandshakeContext",
		"Conn.ConnectionState", "Conn.VerifyHostname", "Conn.SetDeadline", "Conn.SetReadDeadline", "Conn.SetWriteDeadline",
		"Conn.closeNotify", "Conn.sendAlert", "Conn.writeHandshakeRecord", "Conn.writeChangeCipherRecord"},
	"dtlcp": {"Conn.Read", "Conn.Write", "Conn.ReadFrom", "Conn.WriteTo", "Conn.Close", "Conn.CloseWrite", "Conn.Handshake",
		"Conn.HandshakeContext", "Conn.ConnectionState", "Conn.VerifyHostname", "Conn.SetDeadline", "Conn.SetReadDeadline",
		"Conn.SetWriteDeadline", "Conn.closeNotify", "Conn.sendAlert", "Conn.writeHandshakeRecord", "Conn.writeChangeCipherRecord"},
	"pa": {"ProtocolSwitchServerConn.Read", "ProtocolSwitchServerConn.Write", "ProtocolSwitchServerConn.ProtectedConn",
		"ProtocolSwitchServerConn.detect"},
}

type lockEv struct{ kind, lock int }

type lockWalker struct {
	p       *pkg
	fields  map[string]map[string]string // struct type -> field -> named package type ("" if other)
	names   []string                     // mutex names by index
	idx     map[string]int
	pairs   map[[2]int]bool
	touches map[string]bool // function keys whose closure contains an event
	fnVals  map[string][]string
	// markLoops: bracket every for/range statement that produces events with (10,0) … (11,0)
	markLoops bool
}

func baseTypeName(e ast.Expr) string {
	switch t := e.(type) {
	case *ast.StarExpr:
		return baseTypeName(t.X)
	case *ast.Ident:
		return t.Name
	case *ast.ParenExpr:
		return baseTypeName(t.X)
	}
	return ""
}

func newLockWalker(p *pkg) *lockWalker {
	w := &lockWalker{p: p, fields: map[string]map[string]string{}, idx: map[string]int{}, pairs: map[[2]int]bool{},
		touches: map[string]bool{}, fnVals: map[string][]string{}}
	for name, ts := range p.types {
		st, ok := ts.Type.(*ast.StructType)
		if !ok {
			continue
		}
		m := map[string]string{}
		for _, f := range st.Fields.List {
			tn := baseTypeName(f.Type)
			if _, isPkg := p.types[tn]; !isPkg {
				if se, ok := f.Type.(*ast.SelectorExpr); ok { // sync.Mutex, sync.RWMutex
					tn = p.src(se)
				} else if se, ok := f.Type.(*ast.StarExpr); ok {
					if s2, ok := se.X.(*ast.SelectorExpr); ok {
						tn = p.src(s2)
					} else {
						tn = ""
					}
				} else {
					tn = ""
				}
			}
			if len(f.Names) == 0 { // embedded
				b := baseTypeName(f.Type)
				if se, ok := f.Type.(*ast.SelectorExpr); ok {
					b = se.Sel.Name
				}
				m[b] = tn
			}
			for _, nm := range f.Names {
				m[nm.Name] = tn
			}
		}
		w.fields[name] = m
	}
	if p.name != "pa" {
		for _, n := range []string{"Conn.handshakeMutex", "Conn.in", "Conn.out"} {
			w.lockIndex(n)
		}
	} else {
		w.lockIndex("ProtocolSwitchServerConn.lock")
	}
	// function-valued fields: X.f = Y.method
	for _, fd := range p.funcs {
		if fd.Body == nil {
			continue
		}
		env := w.envOf(fd)
		ast.Inspect(fd.Body, func(n ast.Node) bool {
			as, ok := n.(*ast.AssignStmt)
			if !ok || len(as.Lhs) != len(as.Rhs) {
				return true
			}
			for i := range as.Lhs {
				l, ok1 := as.Lhs[i].(*ast.SelectorExpr)
				r, ok2 := as.Rhs[i].(*ast.SelectorExpr)
				if !ok1 || !ok2 {
					continue
				}
				lt, rt := w.typeOf(l.X, env), w.typeOf(r.X, env)
				if lt == "" || rt == "" {
					continue
				}
				if _, isM := p.funcs[rt+"."+r.Sel.Name]; isM {
					k := lt + "." + l.Sel.Name
					w.fnVals[k] = append(w.fnVals[k], rt+"."+r.Sel.Name)
				}
			}
			return true
		})
	}
	for k := range w.fnVals {
		sort.Strings(w.fnVals[k])
	}
	return w
}

func (w *lockWalker) lockIndex(name string) int {
	if i, ok := w.idx[name]; ok {
		return i
	}
	w.idx[name] = len(w.names)
	w.names = append(w.names, name)
	return len(w.names) - 1
}

// envOf: identifier -> package type, for receiver, parameters and simple locals.
func (w *lockWalker) envOf(fd *ast.FuncDecl) map[string]string {
	env := map[string]string{}
	addFields := func(fl *ast.FieldList) {
		if fl == nil {
			return
		}
		for _, f := range fl.List {
			tn := baseTypeName(f.Type)
			if _, ok := w.p.types[tn]; !ok {
				continue
			}
			for _, nm := range f.Names {
				env[nm.Name] = tn
			}
		}
	}
	addFields(fd.Recv)
	addFields(fd.Type.Params)
	if fd.Body != nil {
		ast.Inspect(fd.Body, func(n ast.Node) bool {
			switch s := n.(type) {
			case *ast.AssignStmt:
				if s.Tok == token.DEFINE && len(s.Lhs) == len(s.Rhs) {
					for i := range s.Lhs {
						if id, ok := s.Lhs[i].(*ast.Ident); ok {
							if t := w.typeOf(s.Rhs[i], env); t != "" {
								env[id.Name] = t
							}
						}
					}
				}
			case *ast.ValueSpec:
				tn := baseTypeName(s.Type)
				if _, ok := w.p.types[tn]; ok {
					for _, nm := range s.Names {
						env[nm.Name] = tn
					}
				}
			}
			return true
		})
	}
	return env
}

func (w *lockWalker) typeOf(e ast.Expr, env map[string]string) string {
	switch t := e.(type) {
	case *ast.Ident:
		return env[t.Name]
	case *ast.ParenExpr:
		return w.typeOf(t.X, env)
	case *ast.StarExpr:
		return w.typeOf(t.X, env)
	case *ast.UnaryExpr:
		if t.Op == token.AND {
			return w.typeOf(t.X, env)
		}
	case *ast.CompositeLit:
		tn := baseTypeName(t.Type)
		if _, ok := w.p.types[tn]; ok {
			return tn
		}
	case *ast.CallExpr:
		if id, ok := t.Fun.(*ast.Ident); ok && id.Name == "new" && len(t.Args) == 1 {
			tn := baseTypeName(t.Args[0])
			if _, ok := w.p.types[tn]; ok {
				return tn
			}
		}
	case *ast.SelectorExpr:
		if xt := w.typeOf(t.X, env); xt != "" {
			if ft, ok := w.fields[xt][t.Sel.Name]; ok {
				return ft
			}
		}
	}
	return ""
}

// mutexName of the receiver expression X in X.Lock().
func (w *lockWalker) mutexName(x ast.Expr, env map[string]string) string {
	if se, ok := x.(*ast.SelectorExpr); ok {
		if ot := w.typeOf(se.X, env); ot != "" {
			return ot + "." + se.Sel.Name
		}
	}
	if t := w.typeOf(x, env); t != "" {
		return t // embedded mutex
	}
	return "?" + w.p.src(x)
}

type frame struct {
	events *[]lockEv
	held   *[]int
}

func (w *lockWalker) acquire(fr frame, l int) {
	for _, h := range *fr.held {
		w.pairs[[2]int{h, l}] = true
	}
	*fr.held = append(*fr.held, l)
	*fr.events = append(*fr.events, lockEv{0, l})
}

func (w *lockWalker) release(fr frame, l int) {
	h := *fr.held
	for i := len(h) - 1; i >= 0; i-- {
		if h[i] == l {
			*fr.held = append(append([]int{}, h[:i]...), h[i+1:]...)
			break
		}
	}
	*fr.events = append(*fr.events, lockEv{1, l})
}

func isActiveCall(p *pkg, e ast.Expr) bool {
	return strings.HasSuffix(p.src(e), ".activeCall")
}

// classify a call that is an event by itself; returns (event, true) or (_, false)
func (w *lockWalker) callEvent(ce *ast.CallExpr, env map[string]string) (lockEv, bool) {
	p := w.p
	fun := p.src(ce.Fun)
	switch fun {
	case "atomic.CompareAndSwapInt32":
		if len(ce.Args) == 3 && isActiveCall(p, ce.Args[0]) {
			old, nw := p.src(ce.Args[1]), p.src(ce.Args[2])
			switch nw {
			case old + "+2", old + " + 2":
				return lockEv{3, 0}, true
			case old + "|1", old + " | 1":
				return lockEv{5, 0}, true
			}
		}
	case "atomic.AddInt32":
		if len(ce.Args) == 2 && isActiveCall(p, ce.Args[0]) && p.src(ce.Args[1]) == "-2" {
			return lockEv{4, 0}, true
		}
	case "copy":
		if len(ce.Args) == 2 {
			src := p.src(ce.Args[1])
			if strings.HasSuffix(src, ".readBuf") || src == "plaintext" {
				return lockEv{7, 0}, true
			}
		}
	}
	if se, ok := ce.Fun.(*ast.SelectorExpr); ok {
		x := p.src(se.X)
		if (strings.HasSuffix(x, ".conn") && se.Sel.Name == "Write") || (strings.HasSuffix(x, ".pconn") && se.Sel.Name == "WriteTo") {
			if _, isPkg := p.types[w.typeOf(se.X, env)]; !isPkg { // the transport, not a package type
				return lockEv{2, 0}, true
			}
		}
		if strings.HasSuffix(x, ".input") && se.Sel.Name == "Read" {
			return lockEv{7, 0}, true
		}
		if (strings.HasSuffix(x, ".conn") || strings.HasSuffix(x, ".pconn")) && se.Sel.Name == "Close" && len(ce.Args) == 0 {
			if _, isPkg := p.types[w.typeOf(se.X, env)]; !isPkg {
				return lockEv{8, 0}, true
			}
		}
		if (strings.HasSuffix(x, ".rawInput") && se.Sel.Name == "ReadFrom") || (strings.HasSuffix(x, ".pconn") && se.Sel.Name == "ReadFrom") {
			if _, isPkg := p.types[w.typeOf(se.X, env)]; !isPkg {
				return lockEv{9, 0}, true
			}
		}
	}
	return lockEv{}, false
}

// callees of a call expression inside the package
func (w *lockWalker) callees(ce *ast.CallExpr, env map[string]string) []string {
	switch f := ce.Fun.(type) {
	case *ast.Ident:
		if _, ok := w.p.funcs[f.Name]; ok {
			return []string{f.Name}
		}
	case *ast.SelectorExpr:
		if t := w.typeOf(f.X, env); t != "" {
			if _, ok := w.p.funcs[t+"."+f.Sel.Name]; ok {
				return []string{t + "." + f.Sel.Name}
			}
			if fv, ok := w.fnVals[t+"."+f.Sel.Name]; ok {
				return fv
			}
			// promoted method of an embedded package type
			for fld, ft := range w.fields[t] {
				if fld == ft {
					if _, ok := w.p.funcs[ft+"."+f.Sel.Name]; ok {
						return []string{ft + "." + f.Sel.Name}
					}
				}
			}
		}
	}
	return nil
}

func isLockOp(name string) (acq bool, ok bool) {
	switch name {
	case "Lock", "RLock":
		return true, true
	case "Unlock", "RUnlock":
		return false, true
	}
	return false, false
}

// computeTouches: which functions contain (transitively) an event. Fixpoint over the
// syntactic call graph.
func (w *lockWalker) computeTouches() {
	direct := map[string]bool{}
	calls := map[string][]string{}
	for key, fd := range w.p.funcs {
		if fd.Body == nil {
			continue
		}
		env := w.envOf(fd)
		ast.Inspect(fd.Body, func(n ast.Node) bool {
			ce, ok := n.(*ast.CallExpr)
			if !ok {
				return true
			}
			if se, ok := ce.Fun.(*ast.SelectorExpr); ok {
				if _, isL := isLockOp(se.Sel.Name); isL && len(ce.Args) == 0 {
					direct[key] = true
				}
				if w.typeOf(se.X, env) != "" && se.Sel.Name == "handshakeFn" {
					direct[key] = true
				}
			}
			if _, isEv := w.callEvent(ce, env); isEv {
				direct[key] = true
			}
			calls[key] = append(calls[key], w.callees(ce, env)...)
			return true
		})
	}
	for k := range direct {
		w.touches[k] = true
	}
	for changed := true; changed; {
		changed = false
		for k, cs := range calls {
			if w.touches[k] {
				continue
			}
			for _, c := range cs {
				if w.touches[c] {
					w.touches[k] = true
					changed = true
					break
				}
			}
		}
	}
}

func (w *lockWalker) walkFunc(key string, fr frame, stack []string) {
	fd := w.p.funcs[key]
	if fd == nil || fd.Body == nil || !w.touches[key] || len(stack) > 14 {
		return
	}
	for _, s := range stack {
		if s == key {
			return
		}
	}
	stack = append(stack, key)
	env := w.envOf(fd)
	w.walkBody(fd.Body, env, fr, stack)
}

// walkBody walks a function (or function literal) body: its deferred events run at its end.
func (w *lockWalker) walkBody(body *ast.BlockStmt, env map[string]string, fr frame, stack []string) {
	var deferred []func()
	var visit func(n ast.Node) bool
	var inLoop func(parts ...ast.Node)
	handleCall := func(ce *ast.CallExpr, isDefer bool) {
		// arguments first (evaluated before the call, also for defer)
		for _, a := range ce.Args {
			ast.Inspect(a, visit)
		}
		run := func(f func()) {
			if isDefer {
				deferred = append(deferred, f)
			} else {
				f()
			}
		}
		if fl, ok := ce.Fun.(*ast.FuncLit); ok {
			run(func() { w.walkBody(fl.Body, env, fr, stack) })
			return
		}
		if se, ok := ce.Fun.(*ast.SelectorExpr); ok {
			ast.Inspect(se.X, visit)
			if acq, isL := isLockOp(se.Sel.Name); isL && len(ce.Args) == 0 {
				l := w.lockIndex(w.mutexName(se.X, env))
				if acq {
					run(func() { w.acquire(fr, l) })
				} else {
					run(func() { w.release(fr, l) })
				}
				return
			}
		}
		if ev, ok := w.callEvent(ce, env); ok {
			run(func() { *fr.events = append(*fr.events, ev) })
			return
		}
		cs := w.callees(ce, env)
		if se, ok := ce.Fun.(*ast.SelectorExpr); ok && se.Sel.Name == "handshakeFn" && len(cs) > 0 {
			run(func() { *fr.events = append(*fr.events, lockEv{6, 0}) })
		}
		for _, c := range cs {
			c := c
			run(func() { w.walkFunc(c, fr, stack) })
		}
	}
	visit = func(n ast.Node) bool {
		switch s := n.(type) {
		case *ast.GoStmt:
			return false
		case *ast.FuncLit:
			return false // a callback stored or passed: not run here
		case *ast.DeferStmt:
			handleCall(s.Call, true)
			return false
		case *ast.CallExpr:
			handleCall(s, false)
			return false
		case *ast.ForStmt:
			if !w.markLoops {
				return true
			}
			inLoop(s.Init, s.Cond, s.Post, s.Body)
			return false
		case *ast.RangeStmt:
			if !w.markLoops {
				return true
			}
			inLoop(s.X, s.Body)
			return false
		}
		return true
	}
	inLoop = func(parts ...ast.Node) {
		start := len(*fr.events)
		*fr.events = append(*fr.events, lockEv{10, 0})
		for _, n := range parts {
			// a nil *ast.BlockStmt / ast.Expr / ast.Stmt stored in the interface is not == nil
			if n == nil || isNilNode(n) {
				continue
			}
			ast.Inspect(n, visit)
		}
		if len(*fr.events) == start+1 {
			*fr.events = (*fr.events)[:start] // nothing happens in this loop
			return
		}
		*fr.events = append(*fr.events, lockEv{11, 0})
	}
	ast.Inspect(body, visit)
	for i := len(deferred) - 1; i >= 0; i-- {
		deferred[i]()
	}
}

func isNilNode(n ast.Node) bool {
	switch v := n.(type) {
	case *ast.BlockStmt:
		return v == nil
	case ast.Expr:
		return v == nil
	case ast.Stmt:
		return v == nil
	}
	return false
}

// collapseRepeats removes immediate repetitions of a block of events (x x -> x) until none is
// left: the walk is flow-insensitive (a loop body counts once), so `sendAlert; sendAlert` says
// no more than `sendAlert`.
func collapseRepeats(evs []lockEv) []lockEv {
	for changed := true; changed; {
		changed = false
		for k := 1; k <= len(evs)/2 && !changed; k++ {
			for i := 0; i+2*k <= len(evs); i++ {
				same := true
				for j := 0; j < k; j++ {
					if evs[i+j] != evs[i+k+j] {
						same = false
						break
					}
				}
				if same {
					evs = append(append([]lockEv{}, evs[:i+k]...), evs[i+2*k:]...)
					changed = true
					break
				}
			}
		}
	}
	return evs
}

func leanPairs(ps [][2]int) string {
	ss := make([]string, len(ps))
	for i, p := range ps {
		ss[i] = fmt.Sprintf("(%d, %d)", p[0], p[1])
	}
	return "[" + strings.Join(ss, ", ") + "]"
}

// stmtIndex returns the index of the first top-level statement of body whose source satisfies f, or -1.
func stmtIndex(p *pkg, body []ast.Stmt, f func(src string, st ast.Stmt) bool) int {
	for i, st := range body {
		if f(p.src(st), st) {
			return i
		}
	}
	return -1
}

func emitLocks(e *emitter, p *pkg) {
	w := newLockWalker(p)
	w.computeTouches()
	e.comment("lock protocol (facts_locks.go): events (kind, mutex) kind 0 acquire 1 release 2 transport-write 3 activeCall+2 4 activeCall-2 5 activeCall|1 6 handshakeFn 7 input-consumed 8 transport-close 9 transport-read")
	var api []string
	type prog struct {
		Name   string
		Events [][2]int
	}
	var progs []prog
	var leanProgs []string
	for _, key := range lockAPI[p.name] {
		if _, ok := p.funcs[key]; !ok {
			continue
		}
		name := key[strings.Index(key, ".")+1:]
		api = append(api, name)
		var evs []lockEv
		var held []int
		w.walkFunc(key, frame{&evs, &held}, nil)
		evs = collapseRepeats(evs)
		pr := prog{Name: name}
		for _, ev := range evs {
			pr.Events = append(pr.Events, [2]int{ev.kind, ev.lock})
		}
		progs = append(progs, pr)
		leanProgs = append(leanProgs, fmt.Sprintf("(%s, %s)", strconv.Quote(name), leanPairs(pr.Events)))
	}
	e.strList("lockNames", w.names)
	e.strList("lockApi", api)
	var pairs [][2]int
	for k := range w.pairs {
		pairs = append(pairs, k)
	}
	sort.Slice(pairs, func(i, j int) bool {
		if pairs[i][0] != pairs[j][0] {
			return pairs[i][0] < pairs[j][0]
		}
		return pairs[i][1] < pairs[j][1]
	})
	e.comment("(held, acquired) over all API methods and everything they reach")
	e.raw("lockPairs", "List (Nat × Nat)", leanPairs(pairs), pairs)
	e.raw("lockProgs", "List (String × List (Nat × Nat))", "[\n  "+strings.Join(leanProgs, ",\n  ")+"]", progs)
	if p.name != "pa" {
		// the Write-like methods once more, with loop markers, for the part of the method body
		// that follows its handshake call: the top-level statements after the last one that
		// (transitively) takes handshakeMutex. (Walking the handshake with markers as well gives
		// programs of several hundred events; the model abstracts the handshake anyway, and the
		// Lean side checks that the section without its markers IS the tail of the plain program,
		// so this cut is not trusted.)
		w2 := newLockWalker(p)
		w2.computeTouches()
		for _, n := range w.names { // same mutex indices as above
			w2.lockIndex(n)
		}
		var secs []prog
		var leanSecs []string
		for _, key := range lockAPI[p.name] {
			name := key[strings.Index(key, ".")+1:]
			fd, ok := p.funcs[key]
			if !ok || fd.Body == nil || (name != "Write" && name != "WriteTo") {
				continue
			}
			env := w2.envOf(fd)
			last := -1
			w2.markLoops = false
			for i, st := range fd.Body.List {
				var evs []lockEv
				var held []int
				w2.walkBody(&ast.BlockStmt{List: []ast.Stmt{st}}, env, frame{&evs, &held}, []string{key})
				for _, ev := range evs {
					if ev.kind <= 1 && ev.lock == 0 {
						last = i
					}
				}
			}
			var evs []lockEv
			var held []int
			w2.markLoops = true
			w2.walkBody(&ast.BlockStmt{List: fd.Body.List[last+1:]}, env, frame{&evs, &held}, []string{key})
			evs = collapseRepeats(evs)
			pr := prog{Name: name}
			for _, ev := range evs {
				pr.Events = append(pr.Events, [2]int{ev.kind, ev.lock})
			}
			secs = append(secs, pr)
			leanSecs = append(leanSecs, fmt.Sprintf("(%s, %s)", strconv.Quote(name), leanPairs(pr.Events)))
		}
		e.comment("Write-like methods after their handshake call, with loop markers: 10 loop-begin 11 loop-end")
		e.raw("lockWriteSections", "List (String × List (Nat × Nat))", "[\n  "+strings.Join(leanSecs, ",\n  ")+"]", secs)
	}

	if p.name == "pa" {
		// methods that read c.wrapped while not holding c.lock (syntactically: the method
		// (any method of the type) mentions c.wrapped and does not start with lock.Lock(); defer lock.Unlock())
		var unlocked []string
		var keys []string
		for key := range p.funcs {
			if strings.HasPrefix(key, "ProtocolSwitchServerConn.") {
				keys = append(keys, key)
			}
		}
		sort.Strings(keys)
		for _, key := range keys {
			fd := p.funcs[key]
			if fd == nil || fd.Body == nil {
				continue
			}
			mentions := false
			ast.Inspect(fd.Body, func(n ast.Node) bool {
				if se, ok := n.(*ast.SelectorExpr); ok && p.src(se) == "c.wrapped" {
					mentions = true
				}
				return true
			})
			_, locked := lockedFirst(p, key)
			if mentions && !locked {
				unlocked = append(unlocked, key[strings.Index(key, ".")+1:])
			}
		}
		e.strList("wrappedAccessUnlocked", unlocked)
		// detect(): `c.lock.Lock(); defer c.lock.Unlock(); if c.wrapped != nil { return nil }` before anything else
		// (second half of the double-checked first use: callers test wrapped, RELEASE the lock, then call detect)
		db := body(p, "ProtocolSwitchServerConn.detect")
		recheck := false
		if _, locked := lockedFirst(p, "ProtocolSwitchServerConn.detect"); locked && len(db) >= 3 {
			if is, ok := db[2].(*ast.IfStmt); ok && is.Init == nil && is.Else == nil && p.src(is.Cond) == "c.wrapped != nil" &&
				len(is.Body.List) == 1 && p.src(is.Body.List[0]) == "return nil" {
				recheck = true
			}
		}
		e.boolean("detectRechecksUnderLock", recheck)
		// who assigns c.wrapped
		var writers []string
		for _, key := range keys {
			fd := p.funcs[key]
			if fd == nil || fd.Body == nil {
				continue
			}
			found := false
			ast.Inspect(fd.Body, func(n ast.Node) bool {
				if as, ok := n.(*ast.AssignStmt); ok {
					for _, l := range as.Lhs {
						if p.src(l) == "c.wrapped" {
							found = true
						}
					}
				}
				return true
			})
			if found {
				writers = append(writers, key[strings.Index(key, ".")+1:])
			}
		}
		e.strList("wrappedWriters", writers)
		return
	}

	// activeCall
	var acMethods []string
	for key, fd := range p.funcs {
		if fd.Body == nil {
			continue
		}
		found := false
		ast.Inspect(fd.Body, func(n ast.Node) bool {
			if se, ok := n.(*ast.SelectorExpr); ok && se.Sel.Name == "activeCall" {
				found = true
			}
			return true
		})
		if found {
			acMethods = append(acMethods, key)
		}
	}
	sort.Strings(acMethods)
	e.strList("activeCallMethods", acMethods)
	// the enter pattern: `for { x := load; if x&1 != 0 { return … } ; if CAS(x, x+2) { break } }` then
	// `defer AddInt32(-2)`, as the first two statements
	enterPattern := func(key string) bool {
		b := body(p, key)
		if len(b) < 2 {
			return false
		}
		fs, ok := b[0].(*ast.ForStmt)
		if !ok || fs.Cond != nil || fs.Init != nil || len(fs.Body.List) != 3 {
			return false
		}
		s0 := p.src(fs.Body.List[0])
		if s0 != "x := atomic.LoadInt32(&c.activeCall)" {
			return false
		}
		i1, ok := fs.Body.List[1].(*ast.IfStmt)
		if !ok || p.src(i1.Cond) != "x&1 != 0" || len(i1.Body.List) != 1 {
			return false
		}
		if _, ok := i1.Body.List[0].(*ast.ReturnStmt); !ok {
			return false
		}
		i2, ok := fs.Body.List[2].(*ast.IfStmt)
		if !ok || p.src(i2.Cond) != "atomic.CompareAndSwapInt32(&c.activeCall, x, x+2)" || len(i2.Body.List) != 1 {
			return false
		}
		if _, ok := i2.Body.List[0].(*ast.BranchStmt); !ok {
			return false
		}
		return p.src(b[1]) == "defer atomic.AddInt32(&c.activeCall, -2)"
	}
	var enter []string
	for _, key := range lockAPI[p.name] {
		if enterPattern(key) {
			enter = append(enter, key[strings.Index(key, ".")+1:])
		}
	}
	e.strList("activeCallEnter", enter)
	// Close: first statement(s) contain `for { x = load; if x&1 != 0 { return net.ErrClosed }; if CAS(x, x|1) { break } }`
	closeOK := false
	for _, st := range body(p, "Conn.Close") {
		fs, ok := st.(*ast.ForStmt)
		if !ok || fs.Cond != nil || len(fs.Body.List) != 3 {
			continue
		}
		s0 := p.src(fs.Body.List[0])
		i1, ok1 := fs.Body.List[1].(*ast.IfStmt)
		i2, ok2 := fs.Body.List[2].(*ast.IfStmt)
		if !ok1 || !ok2 {
			continue
		}
		if (s0 == "x = atomic.LoadInt32(&c.activeCall)" || s0 == "x := atomic.LoadInt32(&c.activeCall)") &&
			p.src(i1.Cond) == "x&1 != 0" && len(i1.Body.List) == 1 && p.src(i1.Body.List[0]) == "return net.ErrClosed" &&
			p.src(i2.Cond) == "atomic.CompareAndSwapInt32(&c.activeCall, x, x|1)" && len(i2.Body.List) == 1 {
			if _, ok := i2.Body.List[0].(*ast.BranchStmt); ok {
				closeOK = true
			}
		}
		break
	}
	e.boolean("activeCallCloseSetsBitOnce", closeOK)
	// tlcp: `if x != 0 { … return c.conn.Close() }` right after the loop: with a Write-like call in flight
	// (which may hold `out` while parked in a transport write) Close goes straight to the transport
	skip := false
	for _, st := range body(p, "Conn.Close") {
		if is, ok := st.(*ast.IfStmt); ok && is.Init == nil && p.src(is.Cond) == "x != 0" && len(is.Body.List) >= 1 {
			if p.src(is.Body.List[len(is.Body.List)-1]) == "return c.conn.Close()" {
				skip = true
			}
		}
	}
	e.boolean("closeSkipsNotifyWhenCallInFlight", skip)

	// Close wipes c.workKey only between c.workKeyMu.Lock() and c.workKeyMu.Unlock(), and every
	// establishKeys (which stores the key block and copies the keys out of it) holds workKeyMu
	// for its whole body: `c := hs.c; c.workKeyMu.Lock(); defer c.workKeyMu.Unlock(); …` (F46)
	cb := body(p, "Conn.Close")
	iWipe := stmtIndex(p, cb, func(s string, _ ast.Stmt) bool { return s == "setZero(c.workKey)" })
	iNil := stmtIndex(p, cb, func(s string, _ ast.Stmt) bool { return s == "c.workKey = nil" })
	iL, iU := -1, -1
	for i, st := range cb {
		switch p.src(st) {
		case "c.workKeyMu.Lock()":
			if i < iWipe || iWipe < 0 {
				iL = i
			}
		case "c.workKeyMu.Unlock()":
			if i > iNil && iU < 0 {
				iU = i
			}
		}
	}
	e.boolean("closeWipesKeyUnderWorkKeyMu", iWipe >= 0 && iNil > iWipe && iL >= 0 && iL < iWipe && iU > iNil)
	var ekLocked []string
	for _, key := range []string{"clientHandshakeState.establishKeys", "serverHandshakeState.establishKeys"} {
		eb := body(p, key)
		if len(eb) < 4 || p.src(eb[0]) != "c := hs.c" || p.src(eb[1]) != "c.workKeyMu.Lock()" || p.src(eb[2]) != "defer c.workKeyMu.Unlock()" {
			continue
		}
		ekLocked = append(ekLocked, key)
	}
	e.strList("establishKeysHoldWorkKeyMu", ekLocked)
	// every function that mentions c.workKey at all
	var wkUsers []string
	for key, fd := range p.funcs {
		if fd.Body == nil {
			continue
		}
		found := false
		ast.Inspect(fd.Body, func(n ast.Node) bool {
			if se, ok := n.(*ast.SelectorExpr); ok && se.Sel.Name == "workKey" {
				found = true
			}
			return true
		})
		if found {
			wkUsers = append(wkUsers, key)
		}
	}
	sort.Strings(wkUsers)
	e.strList("workKeyUsers", wkUsers)

	// handshakeContext: after handshakeMutex.Lock()/defer Unlock(): `if err := c.handshakeErr; err != nil { return err }`
	// and `if c.handshakeComplete() { return nil }` both before c.in.Lock() and the single handshakeFn call.
	hb := body(p, "Conn.handshakeContext")
	iLock := stmtIndex(p, hb, func(s string, _ ast.Stmt) bool { return s == "c.handshakeMutex.Lock()" })
	iDefer := stmtIndex(p, hb, func(s string, _ ast.Stmt) bool { return s == "defer c.handshakeMutex.Unlock()" })
	iErr := stmtIndex(p, hb, func(s string, st ast.Stmt) bool {
		is, ok := st.(*ast.IfStmt)
		return ok && is.Init != nil && p.src(is.Init) == "err := c.handshakeErr" && p.src(is.Cond) == "err != nil" &&
			len(is.Body.List) == 1 && p.src(is.Body.List[0]) == "return err"
	})
	iDone := -1
	for i, st := range hb {
		if is, ok := st.(*ast.IfStmt); ok && i > iLock && is.Init == nil && p.src(is.Cond) == "c.handshakeComplete()" &&
			len(is.Body.List) == 1 && p.src(is.Body.List[0]) == "return nil" {
			iDone = i
			break
		}
	}
	iIn := stmtIndex(p, hb, func(s string, _ ast.Stmt) bool { return s == "c.in.Lock()" })
	iFn := stmtIndex(p, hb, func(s string, _ ast.Stmt) bool { return strings.HasPrefix(s, "c.handshakeErr = c.handshakeFn(") })
	recheck := iLock >= 0 && iDefer == iLock+1 && iErr > iDefer && iDone > iDefer && iErr < iIn && iDone < iIn && iIn < iFn
	e.boolean("hsRecheckUnderMutex", recheck)
	// the fast path `if c.handshakeComplete() { return nil }` before the mutex
	fast := false
	for i, st := range hb {
		if is, ok := st.(*ast.IfStmt); ok && (iLock < 0 || i < iLock) && is.Init == nil && p.src(is.Cond) == "c.handshakeComplete()" &&
			len(is.Body.List) == 1 && p.src(is.Body.List[0]) == "return nil" {
			fast = true
		}
	}
	e.boolean("hsFastPathOnStatus", fast)
	// who calls handshakeFn / assigns handshakeErr
	var fnCallers, errWriters []string
	for key, fd := range p.funcs {
		if fd.Body == nil {
			continue
		}
		calls, writes := 0, 0
		ast.Inspect(fd.Body, func(n ast.Node) bool {
			switch s := n.(type) {
			case *ast.CallExpr:
				if se, ok := s.Fun.(*ast.SelectorExpr); ok && se.Sel.Name == "handshakeFn" {
					calls++
				}
			case *ast.AssignStmt:
				for _, l := range s.Lhs {
					if se, ok := l.(*ast.SelectorExpr); ok && se.Sel.Name == "handshakeErr" {
						writes++
					}
				}
			}
			return true
		})
		for i := 0; i < calls; i++ {
			fnCallers = append(fnCallers, key)
		}
		if writes > 0 {
			errWriters = append(errWriters, key)
		}
	}
	sort.Strings(fnCallers)
	sort.Strings(errWriters)
	e.strList("handshakeFnCallSites", fnCallers)
	e.strList("handshakeErrWriters", errWriters)

	// Read-like methods: `c.in.Lock(); defer c.in.Unlock()` at top level before the first statement that
	// touches the plaintext buffers.
	readLocked := func(key string, bufs []string) bool {
		b := body(p, key)
		iL := stmtIndex(p, b, func(s string, _ ast.Stmt) bool { return s == "c.in.Lock()" })
		if iL < 0 || iL+1 >= len(b) || p.src(b[iL+1]) != "defer c.in.Unlock()" {
			return false
		}
		first := stmtIndex(p, b, func(s string, _ ast.Stmt) bool {
			for _, bf := range bufs {
				if strings.Contains(s, bf) {
					return true
				}
			}
			return false
		})
		return first > iL
	}
	bufs := []string{"c.input", "c.rawInput", "c.readBuf", "c.rawInputBuf", "c.readRecord", "c.readDatagram", "c.hand"}
	var rl []string
	for _, m := range []string{"Conn.Read", "Conn.ReadFrom"} {
		if _, ok := p.funcs[m]; ok && readLocked(m, bufs) {
			rl = append(rl, m[5:])
		}
	}
	e.strList("readersHoldIn", rl)
}

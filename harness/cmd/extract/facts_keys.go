package main

// Facts for C04 (prf.go, cipher_suites.go, conn.go, handshake_{client,server}.go of both
// stacks).  Emitted inside `Gotlcp.Facts.tlcp` / `Gotlcp.Facts.dtlcp`:
//
//	masterSecretLabel, keyExpansionLabel, clientFinishedLabel, serverFinishedLabel
//	                      the byte values of `var xLabel = []byte("...")`
//	masterSeedOrder       order of the `seed = append(seed, X...)` statements in
//	                      masterFromPreMasterSecret, e.g. ["clientRandom","serverRandom"]
//	masterPrfArgs         arguments of the prf call there: [result, secret, label, seed]
//	masterOutLen          the length expression of the result buffer ("masterSecretLength")
//	keySeedOrder, keyPrfArgs, keyBlockLenExpr
//	                      the same for keysFromMasterSecret ("2*macLen + 2*keyLen + 2*ivLen")
//	sliceOrder            [(slice, length name)] in the order keysFromMasterSecret cuts them:
//	                      every `X = keyMaterial[:L]` must be followed by
//	                      `keyMaterial = keyMaterial[L:]` (except after the last one)
//	keysResultNames       named results of keysFromMasterSecret
//	clientSumArgs / serverSumArgs
//	                      [out length, secret, label, seed] of finishedHash.clientSum/serverSum
//	finishedUse           [client sends, client checks, server sends, server checks] — which of
//	                      clientSum/serverSum sendFinished / readFinished of each side call
//	establish{Client,Server}KsArgs     arguments of the keysFromMasterSecret call in establishKeys
//	establish{Client,Server}KsResults  its left-hand side
//	establish{Client,Server}{In,Out}CBC   [key, iv, mac key, isRead] feeding c.in / c.out
//	establish{Client,Server}{In,Out}AEAD  [key, iv]
//	seqWriters            functions that assign to a halfConn `.seq[...]` element
//	writeSeqWriters       (dtlcp) functions that assign to c.writeSeq / c.writeEpoch
//	ccsZeroesSeq          changeCipherSpec contains `for i := range hc.seq { hc.seq[i] = 0 }`
//	ccsInstallsNext       … and `hc.cipher = hc.nextCipher`, `hc.mac = hc.nextMac`
//	incSeqPanicsOnWrap    (tlcp) halfConn.incSeq ends in panic(...)
//	writeRecordCCS        statements of the `if typ == recordTypeChangeCipherSpec` block of
//	                      writeRecordLocked that touch the cipher/sequence state
//	writeRecordPerRecord  sequence statements inside the per-record loop of writeRecordLocked, in
//	                      order, with "encrypt" and "write" (the `if _, err := c.write(...)`
//	                      hand-over to the transport) as markers; statements nested in the write's
//	                      error branch appear as "write-err:<stmt>", other nested ones as "if:<stmt>"
//	encryptADParts / decryptADParts   the values appended to additionalData, in order
//	encryptMACArgs / decryptMACArgs   arguments of the tls10MAC call of the CBC branch
//	macHeaderEnc / macHeaderDec       (dtlcp) elements of the macHeader literal
//	tls10MACWrites        order of h.Write(...) before h.Sum in tls10MAC
//	encryptCopies         arguments of every copy(...) in encrypt (first: explicit nonce := hc.seq)
//	prefixNonceSealCopy   the copy statement of prefixNonceAEAD.Seal
//	setWriteSeqSrc        (dtlcp) right-hand sides of c.out.seq[0..7] in setWriteSeq
//	rxContentSources      for every non-hook function that calls `c.in.decrypt(`: every statement that
//	                      gives a value to the variable holding decrypt's first result (the content that
//	                      goes on to the record-type switch / the caller), as
//	                      "<function>|<enclosing if/else/switch/select chain, `-` = none>|<statement>";
//	                      the receive paths take a record's content from `decrypt` ONLY and UNCONDITIONALLY

import (
	"go/ast"
	"go/token"
	"sort"
	"strconv"
	"strings"
)

func init() {
	extraFactFns = append(extraFactFns, emitKeys)
	common := []string{"pHash", "prf12", "masterFromPreMasterSecret", "keysFromMasterSecret",
		"finishedHash.clientSum", "finishedHash.serverSum", "finishedHash.Sum", "halfConn.encrypt", "halfConn.decrypt",
		"halfConn.changeCipherSpec", "halfConn.explicitNonceLen", "tls10MAC", "prefixNonceAEAD.Seal", "prefixNonceAEAD.Open",
		"aeadSM4GCM", "cipherSM4", "macSM3", "extractPadding",
		"clientHandshakeState.establishKeys", "serverHandshakeState.establishKeys", "Conn.writeRecordLocked"}
	extraHashed["tlcp"] = append(extraHashed["tlcp"], append([]string{"halfConn.incSeq"}, common...)...)
	extraHashed["dtlcp"] = append(extraHashed["dtlcp"], append([]string{"Conn.setWriteSeq"}, common...)...)
}

func (e *emitter) pairList(name string, vs [][2]string, ok bool) {
	if !ok {
		e.raw(name, "List (String × String)", "[]", nil)
		e.missing = append(e.missing, e.key(name))
		return
	}
	var ss []string
	for _, v := range vs {
		ss = append(ss, "("+strconv.Quote(v[0])+", "+strconv.Quote(v[1])+")")
	}
	e.raw(name, "List (String × String)", "["+strings.Join(ss, ", ")+"]", vs)
}

func (e *emitter) strListOk(name string, vs []string, ok bool) {
	if !ok {
		e.strList(name, nil)
		e.missing = append(e.missing, e.key(name))
		return
	}
	e.strList(name, vs)
}

func srcList(p *pkg, es []ast.Expr) []string {
	var out []string
	for _, x := range es {
		out = append(out, p.src(x))
	}
	return out
}

// labelBytes finds `var name = []byte("...")`.
func labelBytes(p *pkg, name string) ([]int64, bool) {
	ce, ok := p.vars[name].(*ast.CallExpr)
	if !ok || len(ce.Args) != 1 || p.src(ce.Fun) != "[]byte" {
		return nil, false
	}
	bl, ok := ce.Args[0].(*ast.BasicLit)
	if !ok || bl.Kind != token.STRING {
		return nil, false
	}
	s, err := strconv.Unquote(bl.Value)
	if err != nil {
		return nil, false
	}
	var out []int64
	for _, b := range []byte(s) {
		out = append(out, int64(b))
	}
	return out, true
}

// seedAppends returns X for every top-level `seed = append(seed, X...)`.
func seedAppends(p *pkg, stmts []ast.Stmt) []string {
	var out []string
	for _, st := range stmts {
		as, ok := st.(*ast.AssignStmt)
		if !ok || len(as.Lhs) != 1 || len(as.Rhs) != 1 || p.src(as.Lhs[0]) != "seed" {
			continue
		}
		ce, ok := as.Rhs[0].(*ast.CallExpr)
		if !ok || p.src(ce.Fun) != "append" || len(ce.Args) != 2 || p.src(ce.Args[0]) != "seed" || !ce.Ellipsis.IsValid() {
			continue
		}
		out = append(out, p.src(ce.Args[1]))
	}
	return out
}

// prfCallArgs finds the top-level statement `prfForVersion(version, suite)(a, b, c, d)` or `h.prf(a,b,c,d)`.
func prfCallArgs(p *pkg, stmts []ast.Stmt) ([]string, bool) {
	for _, st := range stmts {
		es, ok := st.(*ast.ExprStmt)
		if !ok {
			continue
		}
		ce, ok := es.X.(*ast.CallExpr)
		if !ok || len(ce.Args) != 4 {
			continue
		}
		f := p.src(ce.Fun)
		if f == "prfForVersion(version, suite)" || f == "h.prf" {
			return srcList(p, ce.Args), true
		}
	}
	return nil, false
}

// makeLen finds `name := make([]byte, L)` or `name = make([]byte, L)` and returns the source of L.
func makeLen(p *pkg, stmts []ast.Stmt, name string) (string, bool) {
	for _, st := range stmts {
		as, ok := st.(*ast.AssignStmt)
		if !ok || len(as.Lhs) != 1 || len(as.Rhs) != 1 || p.src(as.Lhs[0]) != name {
			continue
		}
		ce, ok := as.Rhs[0].(*ast.CallExpr)
		if ok && p.src(ce.Fun) == "make" && len(ce.Args) == 2 && p.src(ce.Args[0]) == "[]byte" {
			return p.src(ce.Args[1]), true
		}
	}
	return "", false
}

func assignSrc(p *pkg, stmts []ast.Stmt, name string) (string, bool) {
	for _, st := range stmts {
		as, ok := st.(*ast.AssignStmt)
		if ok && len(as.Lhs) == 1 && len(as.Rhs) == 1 && p.src(as.Lhs[0]) == name {
			return p.src(as.Rhs[0]), true
		}
	}
	return "", false
}

// sliceOrder parses the cutting statements of keysFromMasterSecret.
func sliceOrder(p *pkg, stmts []ast.Stmt) ([][2]string, bool) {
	var out [][2]string
	pendingAdvance := ""
	for _, st := range stmts {
		as, ok := st.(*ast.AssignStmt)
		if !ok || len(as.Lhs) != 1 || len(as.Rhs) != 1 {
			continue
		}
		se, ok := as.Rhs[0].(*ast.SliceExpr)
		if !ok || p.src(se.X) != "keyMaterial" || se.Slice3 {
			continue
		}
		lhs := p.src(as.Lhs[0])
		switch {
		case lhs == "keyMaterial" && se.Low != nil && se.High == nil:
			if pendingAdvance == "" || p.src(se.Low) != pendingAdvance {
				return nil, false
			}
			pendingAdvance = ""
		case lhs != "keyMaterial" && se.Low == nil && se.High != nil:
			if pendingAdvance != "" {
				return nil, false // a slice taken without advancing past the previous one
			}
			out = append(out, [2]string{lhs, p.src(se.High)})
			pendingAdvance = p.src(se.High)
		default:
			return nil, false
		}
	}
	return out, len(out) > 0
}

func resultNames(fd *ast.FuncDecl) []string {
	var out []string
	if fd == nil || fd.Type.Results == nil {
		return nil
	}
	for _, f := range fd.Type.Results.List {
		for _, n := range f.Names {
			out = append(out, n.Name)
		}
	}
	return out
}

// which of clientSum/serverSum a function calls (in source order)
func sumCalls(p *pkg, key string) []string {
	var out []string
	fd := p.funcs[key]
	if fd == nil || fd.Body == nil {
		return nil
	}
	ast.Inspect(fd.Body, func(n ast.Node) bool {
		if ce, ok := n.(*ast.CallExpr); ok {
			if se, ok := ce.Fun.(*ast.SelectorExpr); ok && (se.Sel.Name == "clientSum" || se.Sel.Name == "serverSum") {
				out = append(out, se.Sel.Name)
			}
		}
		return true
	})
	return out
}

type ctorCall struct {
	kind string // "cipher" | "mac" | "aead"
	args []string
}

func emitEstablish(e *emitter, p *pkg, role string) {
	key := strings.ToLower(role) + "HandshakeState.establishKeys"
	fd := p.funcs[key]
	pre := "establish" + role
	names := []string{"KsArgs", "KsResults", "InCBC", "OutCBC", "InAEAD", "OutAEAD"}
	if fd == nil || fd.Body == nil {
		for _, n := range names {
			e.strListOk(pre+n, nil, false)
		}
		return
	}
	var ksArgs, ksRes []string
	cbc := map[string]ctorCall{}
	aeadM := map[string]ctorCall{}
	var inArgs, outArgs []string
	ast.Inspect(fd.Body, func(n ast.Node) bool {
		switch t := n.(type) {
		case *ast.AssignStmt:
			if len(t.Rhs) == 1 {
				if ce, ok := t.Rhs[0].(*ast.CallExpr); ok {
					f := p.src(ce.Fun)
					if f == "keysFromMasterSecret" {
						ksArgs = srcList(p, ce.Args)
						ksRes = srcList(p, t.Lhs)
					}
					if len(t.Lhs) == 1 && strings.HasPrefix(f, "hs.suite.") {
						k := strings.TrimPrefix(f, "hs.suite.")
						c := ctorCall{k, srcList(p, ce.Args)}
						if k == "aead" {
							aeadM[p.src(t.Lhs[0])] = c
						} else {
							cbc[p.src(t.Lhs[0])] = c
						}
					}
				}
			}
		case *ast.CallExpr:
			switch p.src(t.Fun) {
			case "c.in.prepareCipherSpec":
				inArgs = srcList(p, t.Args)
			case "c.out.prepareCipherSpec":
				outArgs = srcList(p, t.Args)
			}
		}
		return true
	})
	e.strListOk(pre+"KsArgs", ksArgs, len(ksArgs) > 0)
	e.strListOk(pre+"KsResults", ksRes, len(ksRes) > 0)
	resolve := func(args []string) (cb []string, ae []string, ok bool) {
		if len(args) != 3 {
			return nil, nil, false
		}
		ci, ok1 := cbc[args[1]]
		mi, ok2 := cbc[args[2]]
		ai, ok3 := aeadM[args[1]]
		if !ok1 || !ok2 || !ok3 || ci.kind != "cipher" || mi.kind != "mac" || len(ci.args) != 3 || len(mi.args) != 1 || len(ai.args) != 2 {
			return nil, nil, false
		}
		return []string{ci.args[0], ci.args[1], mi.args[0], ci.args[2]}, []string{ai.args[0], ai.args[1]}, true
	}
	ic, ia, ok := resolve(inArgs)
	e.strListOk(pre+"InCBC", ic, ok)
	e.strListOk(pre+"InAEAD", ia, ok)
	oc, oa, ok := resolve(outArgs)
	e.strListOk(pre+"OutCBC", oc, ok)
	e.strListOk(pre+"OutAEAD", oa, ok)
}

// functions containing an assignment / inc-dec whose target matches pred
func writersOf(p *pkg, pred func(lhs string) bool) []string {
	set := map[string]bool{}
	for k, fd := range p.funcs {
		if fd.Body == nil {
			continue
		}
		ast.Inspect(fd.Body, func(n ast.Node) bool {
			switch t := n.(type) {
			case *ast.AssignStmt:
				for _, l := range t.Lhs {
					if pred(p.src(l)) {
						set[k] = true
					}
				}
			case *ast.IncDecStmt:
				if pred(p.src(t.X)) {
					set[k] = true
				}
			case *ast.CallExpr: // copy(x.seq[...], ...)
				if p.src(t.Fun) == "copy" && len(t.Args) == 2 && pred(p.src(t.Args[0])) {
					set[k] = true
				}
			}
			return true
		})
	}
	var out []string
	for k := range set {
		out = append(out, k)
	}
	sort.Strings(out)
	return out
}

// appendsTo lists, in source order, the appended values of every `name := append(..)` /
// `name = append(name, ..)` inside the given function (first argument excluded unless it is
// not `name` itself, as in `append(hc.scratchBuf[:0], hc.seq[:]...)`).
func appendsTo(p *pkg, fd *ast.FuncDecl, name string) []string {
	var out []string
	if fd == nil || fd.Body == nil {
		return nil
	}
	ast.Inspect(fd.Body, func(n ast.Node) bool {
		as, ok := n.(*ast.AssignStmt)
		if !ok || len(as.Lhs) != 1 || len(as.Rhs) != 1 || p.src(as.Lhs[0]) != name {
			return true
		}
		ce, ok := as.Rhs[0].(*ast.CallExpr)
		if !ok || p.src(ce.Fun) != "append" {
			return true
		}
		if p.src(ce.Args[0]) != name {
			out = append(out, "|") // a fresh additionalData starts here
		}
		var vals []string
		for _, a := range ce.Args[1:] {
			vals = append(vals, p.src(a))
		}
		s := strings.Join(vals, ", ")
		if ce.Ellipsis.IsValid() {
			s += "..."
		}
		out = append(out, s)
		return true
	})
	return out
}

func callArgsIn(p *pkg, fd *ast.FuncDecl, fun string) [][]string {
	var out [][]string
	if fd == nil || fd.Body == nil {
		return nil
	}
	ast.Inspect(fd.Body, func(n ast.Node) bool {
		if ce, ok := n.(*ast.CallExpr); ok && p.src(ce.Fun) == fun {
			out = append(out, srcList(p, ce.Args))
		}
		return true
	})
	return out
}

func compositeElts(p *pkg, fd *ast.FuncDecl, name string) [][]string {
	var out [][]string
	if fd == nil || fd.Body == nil {
		return nil
	}
	ast.Inspect(fd.Body, func(n ast.Node) bool {
		as, ok := n.(*ast.AssignStmt)
		if !ok || len(as.Lhs) != 1 || len(as.Rhs) != 1 || p.src(as.Lhs[0]) != name {
			return true
		}
		if cl, ok := as.Rhs[0].(*ast.CompositeLit); ok {
			out = append(out, srcList(p, cl.Elts))
		}
		return true
	})
	return out
}

func emitKeys(e *emitter, p *pkg) {
	if p.name != "tlcp" && p.name != "dtlcp" {
		return
	}
	e.comment("prf.go / conn.go / handshake_*.go: key schedule and record protection (C04)")
	for _, l := range []string{"masterSecretLabel", "keyExpansionLabel", "clientFinishedLabel", "serverFinishedLabel"} {
		v, ok := labelBytes(p, l)
		e.natList(l, v, ok)
	}
	// masterFromPreMasterSecret
	mb := body(p, "masterFromPreMasterSecret")
	ms := seedAppends(p, mb)
	e.strListOk("masterSeedOrder", ms, len(ms) > 0)
	ma, ok := prfCallArgs(p, mb)
	e.strListOk("masterPrfArgs", ma, ok)
	ml, ok := makeLen(p, mb, "masterSecret")
	e.strListOk("masterOutLen", []string{ml}, ok)
	// keysFromMasterSecret
	kb := body(p, "keysFromMasterSecret")
	ks := seedAppends(p, kb)
	e.strListOk("keySeedOrder", ks, len(ks) > 0)
	ka, ok := prfCallArgs(p, kb)
	e.strListOk("keyPrfArgs", ka, ok)
	kl, ok1 := makeLen(p, kb, "keyMaterial")
	kn, ok2 := assignSrc(p, kb, "n")
	e.strListOk("keyBlockLenExpr", []string{kl, strings.ReplaceAll(kn, " ", "")}, ok1 && ok2)
	so, ok := sliceOrder(p, kb)
	e.pairList("sliceOrder", so, ok)
	rn := resultNames(p.funcs["keysFromMasterSecret"])
	e.strListOk("keysResultNames", rn, len(rn) > 0)
	// finished
	for _, side := range []string{"client", "server"} {
		b := body(p, "finishedHash."+side+"Sum")
		a, ok := prfCallArgs(p, b)
		ol, ok2 := makeLen(p, b, "out")
		if ok && ok2 {
			a = append([]string{ol}, a[1:]...)
		}
		e.strListOk(side+"SumArgs", a, ok && ok2)
	}
	var fu []string
	for _, k := range []string{"clientHandshakeState.sendFinished", "clientHandshakeState.readFinished",
		"serverHandshakeState.sendFinished", "serverHandshakeState.readFinished"} {
		fu = append(fu, strings.Join(sumCalls(p, k), "+"))
	}
	e.strList("finishedUse", fu)
	emitEstablish(e, p, "Client")
	emitEstablish(e, p, "Server")
	// sequence-number state
	e.strList("seqWriters", writersOf(p, func(l string) bool { return strings.Contains(l, ".seq[") }))
	if p.name == "dtlcp" {
		e.strList("writeSeqWriters", writersOf(p, func(l string) bool { return l == "c.writeSeq" || l == "c.writeEpoch" }))
	}
	zero, install := false, 0
	for _, st := range body(p, "halfConn.changeCipherSpec") {
		switch t := st.(type) {
		case *ast.RangeStmt:
			if p.src(t.X) == "hc.seq" && len(t.Body.List) == 1 && p.src(t.Body.List[0]) == "hc.seq[i] = 0" {
				zero = true
			}
		case *ast.AssignStmt:
			s := p.src(t)
			if s == "hc.cipher = hc.nextCipher" || s == "hc.mac = hc.nextMac" {
				install++
			}
		}
	}
	e.boolean("ccsZeroesSeq", zero)
	e.boolean("ccsInstallsNext", install == 2)
	if p.name == "tlcp" {
		b := body(p, "halfConn.incSeq")
		panics := false
		if len(b) > 0 {
			if es, ok := b[len(b)-1].(*ast.ExprStmt); ok {
				if ce, ok := es.X.(*ast.CallExpr); ok && p.src(ce.Fun) == "panic" {
					panics = true
				}
			}
		}
		e.boolean("incSeqPanicsOnWrap", panics)
		e.strList("incSeqCallers", callersOf(p, "hc.incSeq"))
	}
	// writeRecordLocked: the CCS block and (dtlcp) the per-record sequence statements
	var ccs, per []string
	interesting := func(s string) bool {
		return strings.Contains(s, "changeCipherSpec()") || strings.Contains(s, "writeSeq") || strings.Contains(s, "writeEpoch") || strings.Contains(s, ".seq")
	}
	if fd := p.funcs["Conn.writeRecordLocked"]; fd != nil && fd.Body != nil {
		for _, st := range fd.Body.List {
			switch t := st.(type) {
			case *ast.IfStmt:
				if p.src(t.Cond) == "typ == recordTypeChangeCipherSpec" {
					ast.Inspect(t.Body, func(n ast.Node) bool {
						switch u := n.(type) {
						case *ast.AssignStmt, *ast.IncDecStmt:
							if s := p.src(u); interesting(s) {
								ccs = append(ccs, s)
							}
						}
						return true
					})
				}
			case *ast.ForStmt:
				// every statement nested below a top-level statement of the loop body that
				// touches the sequence state (e.g. inside the error branch of the transport write)
				lhsTouches := func(a *ast.AssignStmt) bool { // assigns TO the sequence state
					for _, l := range a.Lhs {
						if interesting(p.src(l)) {
							return true
						}
					}
					return false
				}
				nested := func(tag string, n ast.Node) {
					ast.Inspect(n, func(x ast.Node) bool {
						switch v := x.(type) {
						case *ast.AssignStmt:
							if lhsTouches(v) {
								per = append(per, tag+":"+p.src(v))
							}
						case *ast.IncDecStmt:
							if s := p.src(v); interesting(s) {
								per = append(per, tag+":"+s)
							}
						}
						return true
					})
				}
				for _, bs := range t.Body.List {
					switch u := bs.(type) {
					case *ast.IncDecStmt:
						if s := p.src(u); interesting(s) {
							per = append(per, s)
						}
					case *ast.ExprStmt:
						if s := p.src(u.X); s == "c.setWriteSeq()" {
							per = append(per, s)
						}
					case *ast.AssignStmt:
						if s := p.src(u); strings.Contains(s, "c.out.encrypt(") {
							per = append(per, "encrypt")
						} else if lhsTouches(u) {
							per = append(per, s)
						}
					case *ast.IfStmt:
						// `if _, err := c.write(outBuf); err != nil { return n, err }`: the hand-over
						// to the transport; its position relative to the sequence statements and
						// whatever its error branch does to the sequence state
						if u.Init != nil && strings.Contains(p.src(u.Init), "c.write(") {
							per = append(per, "write")
							nested("write-err", u.Body)
						} else {
							nested("if", u)
						}
					default:
						nested("nested", bs)
					}
				}
			}
		}
	}
	e.strList("writeRecordCCS", ccs)
	e.strList("writeRecordPerRecord", per)
	e.strList("rxContentSources", rxContentSources(p))
	// AD / MAC input construction
	enc, dec := p.funcs["halfConn.encrypt"], p.funcs["halfConn.decrypt"]
	e.strList("encryptADParts", appendsTo(p, enc, "additionalData"))
	e.strList("decryptADParts", appendsTo(p, dec, "additionalData"))
	flat := func(xs [][]string) []string {
		var out []string
		for i, x := range xs {
			if i > 0 {
				out = append(out, "|")
			}
			out = append(out, x...)
		}
		return out
	}
	e.strList("encryptMACArgs", flat(callArgsIn(p, enc, "tls10MAC")))
	e.strList("decryptMACArgs", flat(callArgsIn(p, dec, "tls10MAC")))
	if p.name == "dtlcp" {
		e.strList("macHeaderEnc", flat(compositeElts(p, enc, "macHeader")))
		e.strList("macHeaderDec", flat(compositeElts(p, dec, "macHeader")))
		var rhs []string
		for _, st := range body(p, "Conn.setWriteSeq") {
			if as, ok := st.(*ast.AssignStmt); ok && len(as.Lhs) == 1 && len(as.Rhs) == 1 {
				rhs = append(rhs, p.src(as.Lhs[0])+"="+p.src(as.Rhs[0]))
			}
		}
		e.strList("setWriteSeqSrc", rhs)
	}
	var writes []string
	for _, st := range body(p, "tls10MAC") {
		if es, ok := st.(*ast.ExprStmt); ok {
			if ce, ok := es.X.(*ast.CallExpr); ok && p.src(ce.Fun) == "h.Write" && len(ce.Args) == 1 {
				writes = append(writes, p.src(ce.Args[0]))
			}
		}
		if as, ok := st.(*ast.AssignStmt); ok && strings.Contains(p.src(as), "h.Sum(") {
			writes = append(writes, "Sum")
		}
	}
	e.strList("tls10MACWrites", writes)
	e.strList("encryptCopies", flat(callArgsIn(p, enc, "copy")))
	e.strList("prefixNonceSealCopy", flat(callArgsIn(p, p.funcs["prefixNonceAEAD.Seal"], "copy")))
	e.strList("prefixNonceOpenCopy", flat(callArgsIn(p, p.funcs["prefixNonceAEAD.Open"], "copy")))
}

// rxContentSources: see the header comment. Loops are not part of the chain (every receive path
// loops over records); conditions are (an `if` / `else` / `case` decides WHETHER a statement runs).
func rxContentSources(p *pkg) []string {
	var keys []string
	for k := range p.funcs {
		keys = append(keys, k)
	}
	sort.Strings(keys)
	var out []string
	for _, k := range keys {
		fd := p.funcs[k]
		if fd == nil || fd.Body == nil || strings.Contains(k, "Verif") || strings.Contains(k, "verif") {
			continue
		}
		if f := p.fset.File(fd.Pos()); f != nil && strings.Contains(f.Name(), "verif_") {
			continue
		}
		// the variable that receives decrypt's first result
		name := ""
		ast.Inspect(fd.Body, func(n ast.Node) bool {
			if as, ok := n.(*ast.AssignStmt); ok && len(as.Rhs) == 1 && len(as.Lhs) >= 1 {
				if ce, ok := as.Rhs[0].(*ast.CallExpr); ok && p.src(ce.Fun) == "c.in.decrypt" {
					name = p.src(as.Lhs[0])
				}
			}
			return true
		})
		if name == "" {
			continue
		}
		var walk func(n ast.Node, chain string)
		add := func(chain string, n ast.Node) {
			if chain == "" {
				chain = "-"
			}
			out = append(out, k+"|"+chain+"|"+strings.Join(strings.Fields(p.src(n)), " "))
		}
		join := func(chain, tag string) string {
			if chain == "" {
				return tag
			}
			return chain + ">" + tag
		}
		walk = func(n ast.Node, chain string) {
			switch t := n.(type) {
			case nil:
				return
			case *ast.BlockStmt:
				for _, st := range t.List {
					walk(st, chain)
				}
			case *ast.AssignStmt:
				for _, l := range t.Lhs {
					if p.src(l) == name {
						add(chain, t)
						break
					}
				}
			case *ast.DeclStmt:
				if gd, ok := t.Decl.(*ast.GenDecl); ok {
					for _, sp := range gd.Specs {
						if vs, ok := sp.(*ast.ValueSpec); ok {
							for _, id := range vs.Names {
								if id.Name == name {
									add(chain, t)
								}
							}
						}
					}
				}
			case *ast.IfStmt:
				if t.Init != nil {
					walk(t.Init, chain)
				}
				walk(t.Body, join(chain, "if"))
				if t.Else != nil {
					if eb, ok := t.Else.(*ast.BlockStmt); ok {
						walk(eb, join(chain, "else"))
					} else {
						walk(t.Else, join(chain, "else"))
					}
				}
			case *ast.ForStmt:
				walk(t.Body, chain)
			case *ast.RangeStmt:
				walk(t.Body, chain)
			case *ast.SwitchStmt:
				walk(t.Body, join(chain, "switch"))
			case *ast.TypeSwitchStmt:
				walk(t.Body, join(chain, "switch"))
			case *ast.SelectStmt:
				walk(t.Body, join(chain, "select"))
			case *ast.CaseClause:
				for _, st := range t.Body {
					walk(st, chain)
				}
			case *ast.CommClause:
				for _, st := range t.Body {
					walk(st, chain)
				}
			case *ast.LabeledStmt:
				walk(t.Stmt, chain)
			}
		}
		walk(fd.Body, "")
	}
	return out
}

// callersOf lists the functions whose body calls `fun()` (source text of the callee).
func callersOf(p *pkg, fun string) []string {
	var out []string
	for k, fd := range p.funcs {
		if len(callArgsIn(p, fd, fun)) > 0 {
			out = append(out, k)
		}
	}
	sort.Strings(out)
	return out
}

package main

// Facts for C16 (dtlcp/replay.go and the places of dtlcp/conn.go, dtlcp/dtlcp.go that
// build or consult the replay window).  Emitted inside `Gotlcp.Facts.dtlcp`:
//
//	replayFloor            K of `if size < K { size = K }` in newReplayWindow
//	replayNewCeil          some K of `if size > K { size = K }` in newReplayWindow, else none
//	replaySpanCeil         none when check compares `diff >= uint48(w.size)`; some K when it
//	                       compares `diff >= w.span()` and span is
//	                       `if w.size > K { return K }; return uint48(w.size)`
//	replayBitmapBits       width of the integer type of replayWindow.bitmap
//	replayNewSites         number of calls of newReplayWindow in the package
//	replayNewSitesUniform  every call is `newReplayWindow(windowSize)` right after
//	                       `windowSize := defaultReplayWindowSize` and
//	                       `if cfg != nil && cfg.ReplayWindow > 0 { windowSize = cfg.ReplayWindow }`
//	replayRxReadFromOrder / replayRxRecordOrder
//	                       order of the first occurrences of "decrypt", "epoch<", "epoch>",
//	                       "check" in Conn.ReadFrom / Conn.readRecordOrCCS (decrypt call, the
//	                       comparisons `epoch < c.readEpoch` (old epoch: drop) and
//	                       `epoch > c.readEpoch` (new epoch: new window), replayWindow.check call)
//	replayRxReadFromDecryptFail / replayRxRecordDecryptFail
//	                       "discard" when the `if err != nil` after the decrypt call only
//	                       `continue`s, "fatal" when it returns through setErrorLocked,
//	                       "discard-after-handshake" when it is
//	                       `if handshakeComplete { <skip the record>; continue }` then the
//	                       fatal return
//	replayRxRecordMalformedDrops number of header checks of readRecordOrCCS (too short, version,
//	                       oversize, beyond the datagram) whose body starts with
//	                       `if handshakeComplete { c.rawInputBuf = nil; continue }`
//	replayRxRecordHeaderChecks number of those header checks found (4)
//	replayRxSeqArgFull     in Conn.ReadFrom and Conn.readRecordOrCCS the only argument of the only
//	                       c.replayWindow.check call is the variable seqNum, assigned exactly once,
//	                       by `seqNum := uint48(hdr[5])<<40 | … | uint48(hdr[10])` with
//	                       `hdr := c.rawInputBuf[:recordHeaderLen]`: all 48 bits of the header field

import (
	"go/ast"
	"go/token"
	"regexp"
	"sort"
	"strconv"
	"strings"
)

func init() {
	extraFactFns = append(extraFactFns, emitReplay)
	extraHashed["dtlcp"] = append(extraHashed["dtlcp"], "replayWindow.span", "Conn.ReadFrom", "Conn.readRecordOrCCS", "Conn.Read", "Server", "Client")
}

func optNat(e *emitter, name string, v int64, some bool) {
	if some {
		e.raw(name, "Option Nat", "some "+strconv.FormatInt(v, 10), v)
	} else {
		e.raw(name, "Option Nat", "none", "none")
	}
}

// clampLiteral finds `if <id> <op> K { <id> = K }` among stmts and returns K.
func clampLiteral(p *pkg, stmts []ast.Stmt, id string, op token.Token) (int64, bool) {
	for _, st := range stmts {
		is, ok := st.(*ast.IfStmt)
		if !ok || is.Init != nil || is.Else != nil || len(is.Body.List) != 1 {
			continue
		}
		be, ok := is.Cond.(*ast.BinaryExpr)
		if !ok || be.Op != op || p.src(be.X) != id {
			continue
		}
		as, ok := is.Body.List[0].(*ast.AssignStmt)
		if !ok || as.Tok != token.ASSIGN || len(as.Lhs) != 1 || len(as.Rhs) != 1 || p.src(as.Lhs[0]) != id {
			continue
		}
		k1, ok1 := p.evalInt(be.Y, 0, 0)
		k2, ok2 := p.evalInt(as.Rhs[0], 0, 0)
		if ok1 && ok2 && k1 == k2 {
			return k1, true
		}
	}
	return 0, false
}

var cfgSiteRe = regexp.MustCompile(`^if (\S+) != nil && (\S+)\.ReplayWindow > 0 { windowSize = (\S+)\.ReplayWindow }$`)

func emitReplay(e *emitter, p *pkg) {
	if p.name != "dtlcp" {
		return
	}
	e.comment("replay.go: replayWindow; conn.go / dtlcp.go: construction sites and receive paths")

	// --- newReplayWindow
	nb := body(p, "newReplayWindow")
	fl, okf := clampLiteral(p, nb, "size", token.LSS)
	e.nat("replayFloor", fl, true) // informational since the translation tie (Tie/Replay.lean); never "missing"
	ce, okc := clampLiteral(p, nb, "size", token.GTR)
	optNat(e, "replayNewCeil", ce, okc)
	// anything else in newReplayWindow than the (at most two) clamps and the return of
	// &replayWindow{size: size} is not understood by the model
	shapeOK := len(nb) > 0
	for i, st := range nb {
		switch s := st.(type) {
		case *ast.IfStmt:
			_ = s
		case *ast.ReturnStmt:
			if i != len(nb)-1 || len(s.Results) != 1 || p.src(s.Results[0]) != "&replayWindow{size: size}" {
				shapeOK = false
			}
		default:
			shapeOK = false
		}
	}
	nIf := 0
	for _, st := range nb {
		if _, ok := st.(*ast.IfStmt); ok {
			nIf++
		}
	}
	want := 0
	if okf {
		want++
	}
	if okc {
		want++
	}
	if nIf != want {
		shapeOK = false
	}
	e.boolean("replayNewShapeKnown", shapeOK)

	// --- check: what distances are compared with
	var bounds []string
	if fd := p.funcs["replayWindow.check"]; fd != nil && fd.Body != nil {
		ast.Inspect(fd.Body, func(n ast.Node) bool {
			if be, ok := n.(*ast.BinaryExpr); ok && be.Op == token.GEQ && p.src(be.X) == "diff" {
				bounds = append(bounds, p.src(be.Y))
			}
			return true
		})
	}
	spanKnown := false
	var spanCeil int64
	spanSome := false
	if len(bounds) == 2 && bounds[0] == bounds[1] {
		switch bounds[0] {
		case "uint48(w.size)":
			spanKnown = true
		case "w.span()":
			sb := body(p, "replayWindow.span")
			if len(sb) == 2 {
				is, ok1 := sb[0].(*ast.IfStmt)
				rs, ok2 := sb[1].(*ast.ReturnStmt)
				if ok1 && ok2 && is.Init == nil && is.Else == nil && len(is.Body.List) == 1 &&
					len(rs.Results) == 1 && p.src(rs.Results[0]) == "uint48(w.size)" {
					be, okb := is.Cond.(*ast.BinaryExpr)
					r1, okr := is.Body.List[0].(*ast.ReturnStmt)
					if okb && okr && be.Op == token.GTR && p.src(be.X) == "w.size" && len(r1.Results) == 1 {
						k1, o1 := p.evalInt(be.Y, 0, 0)
						k2, o2 := p.evalInt(r1.Results[0], 0, 0)
						if o1 && o2 && k1 == k2 {
							spanKnown, spanSome, spanCeil = true, true, k1
						}
					}
				}
			}
		}
	}
	optNat(e, "replaySpanCeil", spanCeil, spanSome)
	// informational since the translation tie (Tie/Replay.lean proves the translated check/span equal
	// to the model): an unrecognised shape is no longer reported as a missing fact
	_ = spanKnown

	// --- bitmap width
	var bits int64
	okb := false
	if ts := p.types["replayWindow"]; ts != nil {
		if st, ok := ts.Type.(*ast.StructType); ok {
			for _, f := range st.Fields.List {
				for _, nm := range f.Names {
					if nm.Name == "bitmap" {
						switch p.src(f.Type) {
						case "uint64":
							bits, okb = 64, true
						case "uint32":
							bits, okb = 32, true
						case "uint16":
							bits, okb = 16, true
						case "uint8":
							bits, okb = 8, true
						}
					}
				}
			}
		}
	}
	e.nat("replayBitmapBits", bits, okb)

	// --- construction sites
	total, matched := 0, 0
	var keys []string
	for k := range p.funcs {
		keys = append(keys, k)
	}
	sort.Strings(keys)
	for _, k := range keys {
		fd := p.funcs[k]
		if fd.Body == nil {
			continue
		}
		ast.Inspect(fd.Body, func(n ast.Node) bool {
			if ce, ok := n.(*ast.CallExpr); ok && p.src(ce.Fun) == "newReplayWindow" {
				total++
			}
			var list []ast.Stmt
			switch b := n.(type) {
			case *ast.BlockStmt:
				list = b.List
			case *ast.CaseClause:
				list = b.Body
			case *ast.CommClause:
				list = b.Body
			default:
				return true
			}
			for j, st := range list {
				if !strings.HasSuffix(p.src(st), "= newReplayWindow(windowSize)") || j < 2 {
					continue
				}
				if p.src(list[j-2]) != "windowSize := defaultReplayWindowSize" {
					continue
				}
				m := cfgSiteRe.FindStringSubmatch(p.src(list[j-1]))
				if m != nil && m[1] == m[2] && m[2] == m[3] {
					matched++
				}
			}
			return true
		})
	}
	e.nat("replayNewSites", int64(total), total > 0)
	e.boolean("replayNewSitesUniform", total > 0 && total == matched)

	// --- receive paths: order decrypt / epoch test / window check, and what a decrypt failure does
	for _, fn := range []struct{ key, name string }{{"Conn.ReadFrom", "replayRxReadFrom"}, {"Conn.readRecordOrCCS", "replayRxRecord"}} {
		fd := p.funcs[fn.key]
		type ev struct {
			pos  token.Pos
			what string
		}
		var evs []ev
		fail := "unknown"
		if fd != nil && fd.Body != nil {
			ast.Inspect(fd.Body, func(n ast.Node) bool {
				switch t := n.(type) {
				case *ast.CallExpr:
					switch p.src(t.Fun) {
					case "c.in.decrypt":
						evs = append(evs, ev{t.Pos(), "decrypt"})
					case "c.replayWindow.check":
						evs = append(evs, ev{t.Pos(), "check"})
					}
				case *ast.BinaryExpr:
					if (t.Op == token.LSS || t.Op == token.GTR) && p.src(t.X) == "epoch" && p.src(t.Y) == "c.readEpoch" {
						evs = append(evs, ev{t.Pos(), "epoch" + t.Op.String()})
					}
				case *ast.BlockStmt:
					// `x, y, err := c.in.decrypt(record)` followed by `if err != nil { ... }`
					for j, st := range t.List {
						as, ok := st.(*ast.AssignStmt)
						if !ok || len(as.Rhs) != 1 || !strings.HasPrefix(p.src(as.Rhs[0]), "c.in.decrypt(") || j+1 >= len(t.List) {
							continue
						}
						is, ok := t.List[j+1].(*ast.IfStmt)
						if !ok || p.src(is.Cond) != "err != nil" {
							continue
						}
						if len(is.Body.List) == 2 {
							rs, ok := is.Body.List[1].(*ast.ReturnStmt)
							if p.src(is.Body.List[0]) == "if handshakeComplete { c.rawInputBuf = c.rawInputBuf[recordHeaderLen+n:] continue }" &&
								ok && len(rs.Results) == 1 && strings.HasPrefix(p.src(rs.Results[0]), "c.in.setErrorLocked(") {
								fail = "discard-after-handshake"
							}
							continue
						}
						if len(is.Body.List) != 1 {
							continue
						}
						switch b := is.Body.List[0].(type) {
						case *ast.BranchStmt:
							if b.Tok == token.CONTINUE {
								fail = "discard"
							}
						case *ast.ReturnStmt:
							if len(b.Results) == 1 && strings.HasPrefix(p.src(b.Results[0]), "c.in.setErrorLocked(") {
								fail = "fatal"
							}
						}
					}
				}
				return true
			})
		}
		sort.Slice(evs, func(i, j int) bool { return evs[i].pos < evs[j].pos })
		var order []string
		seen := map[string]bool{}
		for _, x := range evs {
			if !seen[x.what] {
				seen[x.what] = true
				order = append(order, x.what)
			}
		}
		// a second decrypt or check call would not be modelled
		cnt := map[string]int{}
		for _, x := range evs {
			cnt[x.what]++
		}
		if cnt["decrypt"] != 1 || cnt["check"] != 1 {
			order = append(order, "multiple")
		}
		e.strList(fn.name+"Order", order)
		e.str(fn.name+"DecryptFail", fail)
	}

	// header checks of readRecordOrCCS that precede decrypt
	conds := map[string]bool{
		"len(c.rawInputBuf) < recordHeaderLen":   true, // the second one (after readDatagram) is the fatal one
		"c.haveVers && vers != c.vers":           true,
		"n > maxCiphertext":                      true,
		"recordHeaderLen+n > len(c.rawInputBuf)": true,
	}
	checks, drops := 0, 0
	if fd := p.funcs["Conn.readRecordOrCCS"]; fd != nil && fd.Body != nil {
		ast.Inspect(fd.Body, func(n ast.Node) bool {
			is, ok := n.(*ast.IfStmt)
			if !ok || !conds[p.src(is.Cond)] || len(is.Body.List) == 0 {
				return true
			}
			// only the checks that end in a permanent error
			last, ok := is.Body.List[len(is.Body.List)-1].(*ast.ReturnStmt)
			if !ok || len(last.Results) != 1 || !strings.HasPrefix(p.src(last.Results[0]), "c.in.setErrorLocked(") {
				return true
			}
			checks++
			if p.src(is.Body.List[0]) == "if handshakeComplete { c.rawInputBuf = nil continue }" {
				drops++
			}
			return true
		})
	}
	// epoch and sequence number of the header are what decrypt authenticates: both paths copy
	// hdr[3..10] into c.in.seq before calling decrypt, and decrypt feeds hc.seq into the
	// additional data (AEAD) and into the MAC (CBC)
	bound := true
	for _, key := range []string{"Conn.ReadFrom", "Conn.readRecordOrCCS"} {
		fd := p.funcs[key]
		if fd == nil || fd.Body == nil {
			bound = false
			continue
		}
		got := map[string]bool{}
		var decPos token.Pos
		ast.Inspect(fd.Body, func(n ast.Node) bool {
			switch t := n.(type) {
			case *ast.AssignStmt:
				if len(t.Lhs) == 1 && len(t.Rhs) == 1 && decPos == 0 {
					got[p.src(t.Lhs[0])+"="+p.src(t.Rhs[0])] = true
				}
			case *ast.CallExpr:
				if p.src(t.Fun) == "c.in.decrypt" && decPos == 0 {
					decPos = t.Pos()
				}
			}
			return true
		})
		for i := 0; i < 8; i++ {
			if !got["c.in.seq["+strconv.Itoa(i)+"]=hdr["+strconv.Itoa(i+3)+"]"] {
				bound = false
			}
		}
	}
	if fd := p.funcs["halfConn.decrypt"]; fd != nil && fd.Body != nil {
		src := p.src(fd.Body)
		if !strings.Contains(src, "additionalData := append(hc.scratchBuf[:0], hc.seq[:]...)") ||
			!strings.Contains(src, "tls10MAC(hc.mac, hc.scratchBuf[:0], hc.seq[:], macHeader,") {
			bound = false
		}
	} else {
		bound = false
	}
	e.boolean("replayRxSeqBound", bound)

	// the number handed to the window is the complete 48-bit sequence number of the header
	const seqExpr = "uint48(hdr[5])<<40 | uint48(hdr[6])<<32 | uint48(hdr[7])<<24 | uint48(hdr[8])<<16 | uint48(hdr[9])<<8 | uint48(hdr[10])"
	full := true
	for _, key := range []string{"Conn.ReadFrom", "Conn.readRecordOrCCS"} {
		fd := p.funcs[key]
		if fd == nil || fd.Body == nil {
			full = false
			continue
		}
		seqDefs, seqOK, hdrDefs, hdrOK, checks, checkOK := 0, false, 0, false, 0, false
		ast.Inspect(fd.Body, func(n ast.Node) bool {
			switch t := n.(type) {
			case *ast.AssignStmt:
				for i, l := range t.Lhs {
					switch p.src(l) {
					case "seqNum":
						seqDefs++
						seqOK = t.Tok == token.DEFINE && len(t.Lhs) == 1 && len(t.Rhs) == 1 && i == 0 &&
							strings.Join(strings.Fields(p.src(t.Rhs[0])), "") == strings.Join(strings.Fields(seqExpr), "")
					case "hdr":
						hdrDefs++
						hdrOK = t.Tok == token.DEFINE && len(t.Lhs) == 1 && len(t.Rhs) == 1 &&
							p.src(t.Rhs[0]) == "c.rawInputBuf[:recordHeaderLen]"
					}
				}
			case *ast.IncDecStmt:
				if p.src(t.X) == "seqNum" {
					seqDefs++
				}
			case *ast.UnaryExpr:
				if t.Op == token.AND && (p.src(t.X) == "seqNum" || p.src(t.X) == "hdr") {
					seqDefs++
				}
			case *ast.CallExpr:
				if p.src(t.Fun) == "c.replayWindow.check" {
					checks++
					checkOK = len(t.Args) == 1 && p.src(t.Args[0]) == "seqNum"
				}
			}
			return true
		})
		if seqDefs != 1 || !seqOK || hdrDefs != 1 || !hdrOK || checks != 1 || !checkOK {
			full = false
		}
	}
	e.boolean("replayRxSeqArgFull", full)
	e.nat("replayRxRecordHeaderChecks", int64(checks), checks > 0)
	e.nat("replayRxRecordMalformedDrops", int64(drops), true)
}

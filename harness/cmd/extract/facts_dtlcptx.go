package main

// Facts for C15 (DTLCP transmit sizes): the arithmetic of maxPayloadSizeForWrite, the
// length arithmetic of encrypt, the splitting loop of writeRecordLocked, write / flush and
// the two application entry points, as normalised source text.

import (
	"go/ast"
	"strings"
)

func init() {
	extraFactFns = append(extraFactFns, emitDtlcpTx)
	extraHashed["dtlcp"] = append(extraHashed["dtlcp"],
		"Conn.maxPayloadSizeForWrite", "halfConn.encrypt", "halfConn.explicitNonceLen", "Conn.writeRecordLocked",
		"Conn.write", "Conn.flush", "Conn.Write", "Conn.WriteTo", "Conn.readDatagram")
}

// typeSwitchClauses returns, for the first type switch in fn, case type -> printed statements
func typeSwitchClauses(p *pkg, fn string) map[string][]string {
	fd := p.funcs[fn]
	out := map[string][]string{}
	if fd == nil || fd.Body == nil {
		return out
	}
	done := false
	ast.Inspect(fd.Body, func(n ast.Node) bool {
		ts, ok := n.(*ast.TypeSwitchStmt)
		if !ok || done {
			return !done
		}
		done = true
		for _, cl := range ts.Body.List {
			cc := cl.(*ast.CaseClause)
			key := "default"
			if len(cc.List) > 0 {
				var ks []string
				for _, e := range cc.List {
					ks = append(ks, p.src(e))
				}
				key = strings.Join(ks, ",")
			}
			sts := []string{}
			for _, st := range cc.Body {
				sts = append(sts, p.src(st))
			}
			out[key] = sts
		}
		return false
	})
	return out
}

func emitDtlcpTx(e *emitter, p *pkg) {
	if p.name != "dtlcp" {
		return
	}
	e.comment("conn.go: transmit sizes (C15)")
	strFact := func(name, v string, ok bool) {
		if !ok {
			e.str(name, "")
			e.missing = append(e.missing, e.key(name))
			return
		}
		e.str(name, v)
	}
	listFact := func(name string, v []string, ok bool) {
		if !ok {
			e.strList(name, nil)
			e.missing = append(e.missing, e.key(name))
			return
		}
		e.strList(name, v)
	}
	// Facts about the text of Conn.maxPayloadSizeForWrite and halfConn.explicitNonceLen are
	// INFORMATIONAL since the translation tie: both functions are translated to Lean on every run
	// (harness/cmd/go2lean) and lean/Gotlcp/Tie/RecordSize.lean proves the translated text equal to
	// the model for all inputs. They stay in Facts.lean for the reader, but no theorem pins them, the
	// model is not instantiated from them, and an unrecognised shape (a renamed local, an equivalent
	// re-arrangement) is no longer reported as a missing fact.
	infoStr := func(name, v string, ok bool) {
		if !ok {
			v = ""
		}
		e.str(name, v)
	}
	infoList := func(name string, v []string, ok bool) {
		if !ok {
			v = nil
		}
		e.strList(name, v)
	}
	fn := "Conn.maxPayloadSizeForWrite"
	// default PMTU
	var def int64
	okDef := false
	if is := findIf(p, fn, "pmtu <= 0"); is != nil && len(is.Body.List) == 1 {
		if as, ok := is.Body.List[0].(*ast.AssignStmt); ok && len(as.Lhs) == 1 && p.src(as.Lhs[0]) == "pmtu" {
			def, okDef = p.evalInt(as.Rhs[0], 0, 0)
		}
	}
	_ = okDef
	e.nat("txDefaultPmtu", def, true) // informational (0 when the shape is not recognised); never "missing"
	src, ok := assignRHS(p, fn, "pmtu")
	infoStr("txPmtuSource", src, ok)
	base, ok := assignRHS(p, fn, "maxPayload")
	infoStr("txBase", base, ok)
	cl := typeSwitchClauses(p, fn)
	aead, okA := cl["aead"]
	cbc, okC := cl["cbcMode"]
	infoList("txAeadBudget", aead, okA)
	infoList("txCbcBudget", cbc, okC)
	// the repair of F9: round down to the block size, one padding byte, then the MAC
	budgets := okC && len(cbc) == 3 && cbc[0] == "blockSize := ciph.BlockSize()" &&
		cbc[1] == "maxPayload = (maxPayload & ^(blockSize - 1)) - 1" && cbc[2] == "maxPayload -= c.out.mac.Size()"
	e.boolean("txCbcBudgetsPadding", budgets)
	up := findIf(p, fn, "maxPayload > maxPlaintext")
	lo := findIf(p, fn, "maxPayload < 1")
	e.boolean("txClampUpper", up != nil && len(up.Body.List) == 1 && p.src(up.Body.List[0]) == "maxPayload = maxPlaintext")
	e.boolean("txClampLower", lo != nil && len(lo.Body.List) == 1 && p.src(lo.Body.List[0]) == "maxPayload = 1")
	e.boolean("txClampOrder", up != nil && lo != nil && up.Pos() < lo.Pos())

	// explicitNonceLen
	en := typeSwitchClauses(p, "halfConn.explicitNonceLen")
	a1, ok1 := en["aead"]
	c1, ok2 := en["cbcMode"]
	infoList("txNonceAead", a1, ok1)
	infoList("txNonceCbc", c1, ok2)
	nonceFn := ""
	if b := body(p, "prefixNonceAEAD.explicitNonceLen"); len(b) == 1 {
		nonceFn = p.src(b[0])
	}
	strFact("txAeadExplicitNonce", nonceFn, nonceFn != "")
	ns := ""
	if b := body(p, "prefixNonceAEAD.NonceSize"); len(b) == 1 {
		ns = p.src(b[0])
	}
	strFact("txAeadNonceSize", ns, ns != "")

	// encrypt lengths
	nilIf := findIf(p, "halfConn.encrypt", "hc.cipher == nil")
	e.boolean("txEncryptNilAppends", nilIf != nil && len(nilIf.Body.List) == 1 && p.src(nilIf.Body.List[0]) == "return append(record, payload...), nil")
	encCl := typeSwitchClauses(p, "halfConn.encrypt")
	seal := false
	for _, s := range encCl["aead"] {
		if s == "record = c.Seal(record, nonce, payload, additionalData)" {
			seal = true
		}
	}
	e.boolean("txEncryptAeadSeals", seal)
	var pl, pad, grow string
	for _, s := range encCl["cbcMode"] {
		switch {
		case strings.HasPrefix(s, "plaintextLen := "):
			pl = strings.TrimPrefix(s, "plaintextLen := ")
		case strings.HasPrefix(s, "paddingLen := "):
			pad = strings.TrimPrefix(s, "paddingLen := ")
		case strings.HasPrefix(s, "record, dst = sliceForAppend("):
			grow = s
		}
	}
	strFact("txCbcPlaintextLen", pl, pl != "")
	strFact("txCbcPaddingLen", pad, pad != "")
	strFact("txCbcGrow", grow, grow != "")
	nonceGrow := ""
	if fd := p.funcs["halfConn.encrypt"]; fd != nil {
		ast.Inspect(fd.Body, func(n ast.Node) bool {
			if as, ok := n.(*ast.AssignStmt); ok && nonceGrow == "" && strings.HasPrefix(p.src(as), "record, explicitNonce = ") {
				nonceGrow = p.src(as)
			}
			return true
		})
	}
	strFact("txNonceGrow", nonceGrow, nonceGrow != "")

	// writeRecordLocked: loop shape
	loopCond, take, adv := "", "", ""
	writes := 0
	if fd := p.funcs["Conn.writeRecordLocked"]; fd != nil {
		ast.Inspect(fd.Body, func(n ast.Node) bool {
			fs, ok := n.(*ast.ForStmt)
			if !ok || loopCond != "" {
				return true
			}
			loopCond = p.src(fs.Cond)
			ast.Inspect(fs.Body, func(m ast.Node) bool {
				switch s := m.(type) {
				case *ast.IfStmt:
					if s.Init != nil && strings.HasPrefix(p.src(s.Init), "maxPayload := ") {
						take = p.src(s.Init) + "; " + p.src(s.Cond) + " { " + p.src(s.Body.List[0]) + " }"
					}
				case *ast.AssignStmt:
					if p.src(s) == "data = data[m:]" {
						adv = p.src(s)
					}
				case *ast.CallExpr:
					if p.src(s.Fun) == "c.write" {
						writes++
					}
				}
				return true
			})
			return false
		})
	}
	strFact("txSplitLoopCond", loopCond, loopCond != "")
	strFact("txSplitTake", take, take != "")
	strFact("txSplitAdvance", adv, adv != "")
	e.nat("txSplitWritesPerRecord", int64(writes), true)

	// write / flush
	var wr []string
	for _, st := range body(p, "Conn.write") {
		wr = append(wr, p.src(st))
	}
	listFact("txWrite", wr, len(wr) > 0)
	var fl []string
	for _, st := range body(p, "Conn.flush") {
		fl = append(fl, p.src(st))
	}
	listFact("txFlush", fl, len(fl) > 0)

	// entry points: last statement
	last := func(fn string) (string, bool) {
		b := body(p, fn)
		if len(b) == 0 {
			return "", false
		}
		return p.src(b[len(b)-1]), true
	}
	w, okw := last("Conn.WriteTo")
	strFact("txWriteToTail", w, okw)
	wcall := ""
	if fd := p.funcs["Conn.Write"]; fd != nil {
		ast.Inspect(fd.Body, func(n ast.Node) bool {
			if c, ok := n.(*ast.CallExpr); ok && p.src(c.Fun) == "c.writeRecordLocked" {
				wcall = p.src(c)
			}
			return true
		})
	}
	strFact("txWriteCall", wcall, wcall != "")

	// receive side: the datagram buffer of readDatagram. Its size must be a package constant
	// (not a function of the local, send-side PMTU) that holds the largest record a peer may send.
	bufExpr, bufSize, okBuf := "", int64(0), false
	if fd := p.funcs["Conn.readDatagram"]; fd != nil {
		ast.Inspect(fd.Body, func(n ast.Node) bool {
			as, ok := n.(*ast.AssignStmt)
			if !ok || len(as.Lhs) != 1 || len(as.Rhs) != 1 || p.src(as.Lhs[0]) != "buf" || bufExpr != "" {
				return true
			}
			if call, ok := as.Rhs[0].(*ast.CallExpr); ok && p.src(call.Fun) == "make" && len(call.Args) == 2 {
				bufExpr = p.src(call.Args[1])
				bufSize, okBuf = p.evalInt(call.Args[1], 0, 0)
			}
			return true
		})
	}
	strFact("rxDatagramBuf", bufExpr, bufExpr != "")
	e.nat("rxDatagramBufSize", bufSize, okBuf)
	readInto := false
	if fd := p.funcs["Conn.readDatagram"]; fd != nil {
		ast.Inspect(fd.Body, func(n ast.Node) bool {
			if c, ok := n.(*ast.CallExpr); ok && p.src(c) == "c.pconn.ReadFrom(buf)" {
				readInto = true
			}
			return true
		})
	}
	e.boolean("rxDatagramReadsIntoBuf", readInto)

	// ReadFrom: the tests around decrypt and what is handed to the caller
	isContinue := func(is *ast.IfStmt) bool {
		if is == nil || len(is.Body.List) == 0 {
			return false
		}
		bs, ok := is.Body.List[len(is.Body.List)-1].(*ast.BranchStmt)
		return ok && bs.Tok.String() == "continue"
	}
	e.boolean("rxfShortDropped", isContinue(findIf(p, "Conn.ReadFrom", "len(c.rawInputBuf) < recordHeaderLen")))
	e.boolean("rxfTruncatedDropped", isContinue(findIf(p, "Conn.ReadFrom", "recordHeaderLen+recLen > len(c.rawInputBuf)")))
	rl, okrl := assignRHS(p, "Conn.ReadFrom", "recLen")
	strFact("rxfRecLen", rl, okrl)
	ep, okep := assignRHS(p, "Conn.ReadFrom", "epoch")
	strFact("rxfEpoch", ep, okep)
	rec, okrec := assignRHS(p, "Conn.ReadFrom", "record")
	strFact("rxfRecord", rec, okrec)
	nn, oknn := assignRHS(p, "Conn.ReadFrom", "n")
	strFact("rxfHandsOver", nn, oknn)
	e.boolean("rxfNonAppDataNotReturned", isContinue(findIf(p, "Conn.ReadFrom", "actualTyp != recordTypeApplicationData")))
	// Read path: an empty application record is skipped
	e.boolean("rxReadSkipsEmptyAppData", isContinue(findIf(p, "Conn.readRecordOrCCS", "len(data) == 0")))

	emitDtlcpTxConfig(e, p, listFact)
}

// emitDtlcpTxConfig: which *Config `c.config.PMTU` is read from — every way a configuration
// reaches (or is replaced on) a connection, and every place the PMTU field is written.
//   txCfgCtor      the value stored under `config:` by the Conn literal of Client and of Server
//   txCfgAssigns   every assignment to a `.config` selector in the package, "<func>: <stmt>"
//   txCfgForClient the statement shape of selectConfigForClient around GetConfigForClient:
//                  guard, call, and what the non-nil result is assigned to
//   txPmtuWrites   every assignment / inc-dec whose target is a `.PMTU` selector, "<func>: <stmt>"
//   txPmtuLits     every `PMTU: <expr>` key of a composite literal, "<func>: <expr>"
//   clonePmtu      the value Config.Clone stores under PMTU ("" when the key is absent)
func emitDtlcpTxConfig(e *emitter, p *pkg, listFact func(string, []string, bool)) {
	e.comment("dtlcp.go / handshake_*.go / common.go: the configuration whose PMTU the write path reads (C15)")
	var ctor []string
	okCtor := true
	for _, fn := range []string{"Client", "Server"} {
		v := ""
		if fd := p.funcs[fn]; fd != nil && fd.Body != nil {
			ast.Inspect(fd.Body, func(n ast.Node) bool {
				cl, ok := n.(*ast.CompositeLit)
				if !ok || p.src(cl.Type) != "Conn" {
					return true
				}
				for _, el := range cl.Elts {
					if kv, ok := el.(*ast.KeyValueExpr); ok && p.src(kv.Key) == "config" {
						v = p.src(kv.Value)
					}
				}
				return true
			})
		}
		if v == "" {
			okCtor = false
		}
		ctor = append(ctor, fn+": "+v)
	}
	listFact("txCfgCtor", ctor, okCtor)

	var cfgAssigns, pmtuWrites, pmtuLits []string
	keys := make([]string, 0, len(p.funcs))
	for k := range p.funcs {
		keys = append(keys, k)
	}
	sortStrings(keys)
	for _, k := range keys {
		fd := p.funcs[k]
		if fd.Body == nil {
			continue
		}
		ast.Inspect(fd.Body, func(n ast.Node) bool {
			switch s := n.(type) {
			case *ast.AssignStmt:
				for _, l := range s.Lhs {
					if se, ok := l.(*ast.SelectorExpr); ok {
						switch se.Sel.Name {
						case "config":
							cfgAssigns = append(cfgAssigns, k+": "+p.src(s))
						case "PMTU":
							pmtuWrites = append(pmtuWrites, k+": "+p.src(s))
						}
					}
				}
			case *ast.IncDecStmt:
				if se, ok := s.X.(*ast.SelectorExpr); ok && se.Sel.Name == "PMTU" {
					pmtuWrites = append(pmtuWrites, k+": "+p.src(s))
				}
			case *ast.UnaryExpr:
				// &x.PMTU / &c.config: an alias through which the field could be written
				if s.Op.String() == "&" {
					if se, ok := s.X.(*ast.SelectorExpr); ok && se.Sel.Name == "PMTU" {
						pmtuWrites = append(pmtuWrites, k+": "+p.src(s))
					}
				}
			case *ast.KeyValueExpr:
				if id, ok := s.Key.(*ast.Ident); ok && id.Name == "PMTU" {
					pmtuLits = append(pmtuLits, k+": "+p.src(s.Value))
				}
			}
			return true
		})
	}
	e.strList("txCfgAssigns", cfgAssigns)
	e.strList("txPmtuWrites", pmtuWrites)
	e.strList("txPmtuLits", pmtuLits)

	// selectConfigForClient
	var fc []string
	fn := "Conn.selectConfigForClient"
	if is := findIf(p, fn, "c.config.GetConfigForClient != nil"); is != nil {
		fc = append(fc, "if "+p.src(is.Cond))
		ast.Inspect(is.Body, func(n ast.Node) bool {
			switch s := n.(type) {
			case *ast.AssignStmt:
				if len(s.Rhs) == 1 {
					if call, ok := s.Rhs[0].(*ast.CallExpr); ok && p.src(call.Fun) == "c.config.GetConfigForClient" {
						fc = append(fc, p.src(s))
					}
				}
			case *ast.IfStmt:
				if len(s.Body.List) == 1 {
					if as, ok := s.Body.List[0].(*ast.AssignStmt); ok && len(as.Lhs) == 1 && p.src(as.Lhs[0]) == "c.config" {
						fc = append(fc, "if "+p.src(s.Cond)+" { "+p.src(as)+" }")
					}
				}
			}
			return true
		})
	}
	listFact("txCfgForClient", fc, len(fc) > 0)
	// the call site: serverHandshake-side functions that call selectConfigForClient
	var callers []string
	for _, k := range keys {
		fd := p.funcs[k]
		if fd.Body == nil {
			continue
		}
		hit := false
		ast.Inspect(fd.Body, func(n ast.Node) bool {
			if c, ok := n.(*ast.CallExpr); ok && p.src(c.Fun) == "c.selectConfigForClient" {
				hit = true
			}
			return true
		})
		if hit {
			callers = append(callers, k)
		}
	}
	listFact("txCfgForClientCallers", callers, len(callers) > 0)

	// Config.Clone: the PMTU key of the returned literal
	clonePmtu, okClone := "", false
	if fd := p.funcs["Config.Clone"]; fd != nil && fd.Body != nil {
		ast.Inspect(fd.Body, func(n ast.Node) bool {
			if cl, ok := n.(*ast.CompositeLit); ok && p.src(cl.Type) == "Config" {
				okClone = true
				for _, el := range cl.Elts {
					if kv, ok := el.(*ast.KeyValueExpr); ok && p.src(kv.Key) == "PMTU" {
						clonePmtu = p.src(kv.Value)
					}
				}
			}
			return true
		})
	}
	// an absent key is a fact (the clone gets the zero value), not a missing extraction
	e.str("clonePmtu", clonePmtu)
	if !okClone {
		e.missing = append(e.missing, e.key("clonePmtu"))
	}
	// the receiver name Clone copies from, so that "c.PMTU" can be read as "the receiver's PMTU"
	recv := ""
	if fd := p.funcs["Config.Clone"]; fd != nil && fd.Recv != nil && len(fd.Recv.List) == 1 && len(fd.Recv.List[0].Names) == 1 {
		recv = fd.Recv.List[0].Names[0].Name
	}
	e.str("cloneRecv", recv)
}

func sortStrings(a []string) {
	for i := 1; i < len(a); i++ {
		for j := i; j > 0 && a[j] < a[j-1]; j-- {
			a[j], a[j-1] = a[j-1], a[j]
		}
	}
}

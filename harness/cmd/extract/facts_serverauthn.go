package main

// Facts for C07 (a server completes only when its client-authentication policy is satisfied):
// the policy tables and the shape of the server's client-authentication logic as it stands in
// the source. Names carry the prefix `sa` inside Gotlcp.Facts.{tlcp,dtlcp}.
//
//	saPolicyOrder            ClientAuthType constants in iota order
//	saRequires               requiresClientCert as a truth table over those constants
//	saPromote*               the ECDHE promotion of the local policy in doFullHandshake
//	saCertReq*, saCertMsg*   the comparisons guarding "send CertificateRequest" and "a client
//	                         Certificate message is mandatory"
//	saCv*                    when CertificateVerify is demanded, with which key and over what
//	saPc*                    processCertsFromClient: steps in order, guards, key usages
//	saResume*                does checkForResumption consult the policy / do the recorded
//	                         certificates get re-verified (finding F6)
//	saPcVerifyInspected      every `x.Verify(opts)` of processCertsFromClient: is its error inspected
//	                         (`if err != nil { … return }`) before anything else happens to it
//	saCvErrReturns           doFullHandshake returns an error when verifyHandshakeSignature does
//	saSigTypeSm2Suites       the suites typeAndHashFrom maps to the SM2-with-SM3 signature type
//	saVhs*                   verifyHandshakeSignature, case ECC_SM3: asserted key type, does a failed
//	                         type assertion return an error, the verification and its failure branch

import (
	"go/ast"
	"go/token"
	"sort"
	"strconv"
	"strings"
)

func init() {
	extraFactFns = append(extraFactFns, emitServerAuthn)
	for _, st := range []string{"tlcp", "dtlcp"} {
		extraHashed[st] = append(extraHashed[st],
			"serverHandshakeState.doFullHandshake", "serverHandshakeState.checkForResumption",
			"serverHandshakeState.doResumeHandshake", "serverHandshakeState.createSessionState",
			"Conn.processCertsFromClient", "requiresClientCert", "verifyHandshakeSignature", "typeAndHashFrom")
	}
}

func saContainsCall(p *pkg, n ast.Node, name string) bool {
	found := false
	ast.Inspect(n, func(x ast.Node) bool {
		if call, ok := x.(*ast.CallExpr); ok {
			switch f := call.Fun.(type) {
			case *ast.SelectorExpr:
				if f.Sel.Name == name {
					found = true
				}
			case *ast.Ident:
				if f.Name == name {
					found = true
				}
			}
		}
		return !found
	})
	return found
}

// saCmp splits `X op Y` into its parts.
func saCmp(p *pkg, e ast.Expr) (x, op, y string, ok bool) {
	for {
		pe, isP := e.(*ast.ParenExpr)
		if !isP {
			break
		}
		e = pe.X
	}
	be, isB := e.(*ast.BinaryExpr)
	if !isB {
		return
	}
	switch be.Op {
	case token.GEQ, token.GTR, token.EQL, token.NEQ, token.LSS, token.LEQ:
		return p.src(be.X), be.Op.String(), p.src(be.Y), true
	}
	return
}

// saConj flattens a && b && c.
func saConj(e ast.Expr) []ast.Expr {
	if pe, ok := e.(*ast.ParenExpr); ok {
		return saConj(pe.X)
	}
	if be, ok := e.(*ast.BinaryExpr); ok && be.Op == token.LAND {
		return append(saConj(be.X), saConj(be.Y)...)
	}
	return []ast.Expr{e}
}

func saDisj(e ast.Expr) []ast.Expr {
	if pe, ok := e.(*ast.ParenExpr); ok {
		return saDisj(pe.X)
	}
	if be, ok := e.(*ast.BinaryExpr); ok && be.Op == token.LOR {
		return append(saDisj(be.X), saDisj(be.Y)...)
	}
	return []ast.Expr{e}
}

func saEndsInReturn(b *ast.BlockStmt) bool {
	if b == nil || len(b.List) == 0 {
		return false
	}
	_, ok := b.List[len(b.List)-1].(*ast.ReturnStmt)
	return ok
}

// saReturnsError: the block ends in a `return` whose last result is not the literal nil.
func saReturnsError(p *pkg, b *ast.BlockStmt) bool {
	if b == nil || len(b.List) == 0 {
		return false
	}
	rs, ok := b.List[len(b.List)-1].(*ast.ReturnStmt)
	if !ok || len(rs.Results) == 0 {
		return false
	}
	return p.src(rs.Results[len(rs.Results)-1]) != "nil"
}

// saVerifyInspected lists, for every statement `… err :=|= X.Verify(…)` found in the block (and in
// the bodies of plain `if` statements nested in it), "X:checked" when the NEXT statement of the
// same block is `if err != nil { … return <error> }`, else "X:unchecked".
func saVerifyInspected(p *pkg, b *ast.BlockStmt, out *[]string) {
	if b == nil {
		return
	}
	for i, st := range b.List {
		switch t := st.(type) {
		case *ast.AssignStmt:
			for _, r := range t.Rhs {
				call, ok := r.(*ast.CallExpr)
				if !ok {
					continue
				}
				sel, ok := call.Fun.(*ast.SelectorExpr)
				if !ok || sel.Sel.Name != "Verify" {
					continue
				}
				errVar := p.src(t.Lhs[len(t.Lhs)-1])
				verdict := "unchecked"
				if i+1 < len(b.List) {
					if is, ok := b.List[i+1].(*ast.IfStmt); ok && is.Init == nil && p.src(is.Cond) == errVar+" != nil" && saReturnsError(p, is.Body) {
						verdict = "checked"
					}
				}
				*out = append(*out, p.src(sel.X)+":"+verdict)
			}
		case *ast.IfStmt:
			if p.src(t.Cond) != "err != nil" {
				saVerifyInspected(p, t.Body, out)
				if eb, ok := t.Else.(*ast.BlockStmt); ok {
					saVerifyInspected(p, eb, out)
				}
			}
		case *ast.BlockStmt:
			saVerifyInspected(p, t, out)
		}
	}
}

func emitServerAuthn(e *emitter, p *pkg) {
	if p.name != "tlcp" && p.name != "dtlcp" {
		return
	}
	e.comment("common.go / handshake_server.go: client authentication by the server (C07)")
	missingStr := func(name string) { e.nat(name+"Found", 0, false); e.str(name, "") }

	// ---- ClientAuthType constants in iota order
	type pc struct {
		name string
		v    int64
	}
	var pcs []pc
	for name, typ := range p.ctypes {
		if typ == "ClientAuthType" {
			if v, ok := p.constInt(name); ok {
				pcs = append(pcs, pc{name, v})
			}
		}
	}
	sort.Slice(pcs, func(i, j int) bool {
		if pcs[i].v != pcs[j].v {
			return pcs[i].v < pcs[j].v
		}
		return pcs[i].name < pcs[j].name
	})
	var order []string
	var vals []int64
	for _, c := range pcs {
		order = append(order, c.name)
		vals = append(vals, c.v)
	}
	e.strList("saPolicyOrder", order)
	e.natList("saPolicyValues", vals, len(vals) > 0)

	// ---- requiresClientCert as a truth table
	{
		var rows []string
		var jrows [][]any
		ok := false
		if fd := p.funcs["requiresClientCert"]; fd != nil && fd.Body != nil && len(fd.Type.Params.List) == 1 {
			for _, st := range fd.Body.List {
				sw, isSw := st.(*ast.SwitchStmt)
				if !isSw || sw.Tag == nil {
					continue
				}
				ret := func(body []ast.Stmt) (bool, bool) {
					for _, b := range body {
						if rs, isR := b.(*ast.ReturnStmt); isR && len(rs.Results) == 1 {
							switch p.src(rs.Results[0]) {
							case "true":
								return true, true
							case "false":
								return false, true
							}
						}
					}
					return false, false
				}
				def, haveDef := false, false
				cases := map[string]bool{}
				good := true
				for _, cc := range sw.Body.List {
					cl := cc.(*ast.CaseClause)
					v, okv := ret(cl.Body)
					if !okv {
						good = false
					}
					if cl.List == nil {
						def, haveDef = v, true
						continue
					}
					for _, x := range cl.List {
						cases[p.src(x)] = v
					}
				}
				if !haveDef {
					// value returned after the switch
					for _, b := range fd.Body.List {
						if rs, isR := b.(*ast.ReturnStmt); isR && len(rs.Results) == 1 {
							def, haveDef = p.src(rs.Results[0]) == "true", true
						}
					}
				}
				if good && haveDef {
					ok = true
					for _, name := range order {
						v, in := cases[name]
						if !in {
							v = def
						}
						rows = append(rows, "("+strconv.Quote(name)+", "+strconv.FormatBool(v)+")")
						jrows = append(jrows, []any{name, v})
					}
				}
			}
		}
		if !ok {
			e.nat("saRequiresFound", 0, false)
		} else {
			e.nat("saRequiresFound", 1, true)
		}
		e.raw("saRequires", "List (String × Bool)", "["+strings.Join(rows, ", ")+"]", jrows)
	}

	// ---- doFullHandshake
	full := p.funcs["serverHandshakeState.doFullHandshake"]
	var promoteSuites []string
	promoteVar, promoteOp, promoteExcept, promoteTo := "", "", "", ""
	policyInit := ""
	certReqX, certReqOp, certReqRhs := "", "", ""
	certMsgX, certMsgOp, certMsgRhs := "", "", ""
	cvX, cvOp := "", ""
	var cvRhs int64
	cvFound := false
	cvSigned, cvPubArg, cvPubDef, cvPubGuard, cvRead := "", "", "", "", ""
	cvHashedAfter, cvMandatory := false, false
	cvErrReturns := false
	cvSigTypeFrom := ""
	if full != nil && full.Body != nil {
		for _, st := range full.Body.List {
			// authPolice := c.config.ClientAuth
			if as, ok := st.(*ast.AssignStmt); ok && as.Tok == token.DEFINE && len(as.Lhs) == 1 && len(as.Rhs) == 1 {
				if strings.HasSuffix(p.src(as.Rhs[0]), ".ClientAuth") {
					promoteVar = p.src(as.Lhs[0])
					policyInit = p.src(as.Rhs[0])
				}
			}
			is, ok := st.(*ast.IfStmt)
			if !ok {
				continue
			}
			// ECDHE promotion: if suite == A || suite == B { if pol != X { pol = Y } }
			if promoteVar != "" && len(is.Body.List) == 1 && promoteTo == "" {
				if inner, ok := is.Body.List[0].(*ast.IfStmt); ok && len(inner.Body.List) == 1 {
					x, op, y, okc := saCmp(p, inner.Cond)
					as, isAs := inner.Body.List[0].(*ast.AssignStmt)
					if okc && x == promoteVar && isAs && len(as.Lhs) == 1 && p.src(as.Lhs[0]) == promoteVar && inner.Else == nil && is.Else == nil {
						promoteOp, promoteExcept, promoteTo = op, y, p.src(as.Rhs[0])
						for _, d := range saDisj(is.Cond) {
							if _, op2, y2, ok2 := saCmp(p, d); ok2 && op2 == "==" {
								promoteSuites = append(promoteSuites, y2)
							} else {
								promoteSuites = append(promoteSuites, "?"+p.src(d))
							}
						}
					}
				}
			}
			// comparisons on the (promoted) policy
			if x, op, y, okc := saCmp(p, is.Cond); okc && promoteVar != "" && x == promoteVar {
				switch {
				case saContainsCall(p, is.Body, "processCertsFromClient"):
					certMsgX, certMsgOp, certMsgRhs = x, op, y
				case strings.Contains(p.src(is.Body), "certificateRequestMsg"):
					certReqX, certReqOp, certReqRhs = x, op, y
				}
			}
			// CertificateVerify block
			if saContainsCall(p, is.Body, "verifyHandshakeSignature") {
				if x, op, y, okc := saCmp(p, is.Cond); okc {
					if v, err := strconv.ParseInt(y, 0, 64); err == nil {
						cvX, cvOp, cvRhs, cvFound = x, op, v, true
					}
				}
				verifyAt, hashAt := -1, -1
				for i, b := range is.Body.List {
					s := p.src(b)
					if as, ok := b.(*ast.AssignStmt); ok && len(as.Lhs) == 1 && p.src(as.Lhs[0]) == "signed" {
						cvSigned = p.src(as.Rhs[0])
					}
					if as, ok := b.(*ast.AssignStmt); ok && len(as.Rhs) == 1 && len(as.Lhs) > 0 && p.src(as.Lhs[0]) == "sigType" {
						cvSigTypeFrom = p.src(as.Rhs[0])
					}
					if as, ok := b.(*ast.AssignStmt); ok && len(as.Rhs) == 1 && cvRead == "" {
						if call, ok := as.Rhs[0].(*ast.CallExpr); ok {
							if sel, ok := call.Fun.(*ast.SelectorExpr); ok && (sel.Sel.Name == "readHandshake" || sel.Sel.Name == "readNextFlightMsg") {
								cvRead = p.src(call)
							}
						}
					}
					if inner, ok := b.(*ast.IfStmt); ok {
						if strings.Contains(s, "verifyHandshakeSignature(") && verifyAt < 0 {
							verifyAt = i
							// `if err := verifyHandshakeSignature(…); err != nil { …; return <error> }`
							if inner.Init != nil && strings.Contains(p.src(inner.Init), "verifyHandshakeSignature(") &&
								p.src(inner.Cond) == "err != nil" && saReturnsError(p, inner.Body) && inner.Else == nil {
								cvErrReturns = true
							}
							ast.Inspect(inner, func(n ast.Node) bool {
								if call, ok := n.(*ast.CallExpr); ok {
									if id, ok := call.Fun.(*ast.Ident); ok && id.Name == "verifyHandshakeSignature" && len(call.Args) == 5 {
										cvPubArg = p.src(call.Args[1])
										if p.src(call.Args[3]) != "signed" {
											cvSigned = "?" + p.src(call.Args[3])
										}
									}
								}
								return true
							})
						}
						if strings.Contains(s, "transcriptMsg(certVerify") && hashAt < 0 {
							hashAt = i
						}
						if p.src(inner.Cond) == "!ok" && saEndsInReturn(inner.Body) {
							cvMandatory = true
						}
					}
				}
				cvHashedAfter = verifyAt >= 0 && hashAt > verifyAt
			}
		}
		// where `pub` comes from
		ast.Inspect(full.Body, func(n ast.Node) bool {
			is, ok := n.(*ast.IfStmt)
			if !ok {
				return true
			}
			for _, b := range is.Body.List {
				if as, ok := b.(*ast.AssignStmt); ok && as.Tok == token.ASSIGN && len(as.Lhs) == 1 && cvPubArg != "" && p.src(as.Lhs[0]) == cvPubArg {
					cvPubDef = p.src(as.Rhs[0])
					cvPubGuard = p.src(is.Cond)
				}
			}
			return true
		})
	}
	if promoteTo == "" {
		e.nat("saPromoteFound", 0, false)
	} else {
		e.nat("saPromoteFound", 1, true)
	}
	e.str("saPolicyInit", policyInit)
	e.strList("saPromoteSuites", promoteSuites)
	e.str("saPromoteOp", promoteOp)
	e.str("saPromoteExcept", promoteExcept)
	e.str("saPromoteTo", promoteTo)
	if certReqOp == "" {
		missingStr("saCertReqOp")
	} else {
		e.nat("saCertReqOpFound", 1, true)
		e.str("saCertReqOp", certReqOp)
	}
	e.str("saCertReqSubject", certReqX)
	e.str("saCertReqRhs", certReqRhs)
	if certMsgOp == "" {
		missingStr("saCertMsgOp")
	} else {
		e.nat("saCertMsgOpFound", 1, true)
		e.str("saCertMsgOp", certMsgOp)
	}
	e.str("saCertMsgSubject", certMsgX)
	e.str("saCertMsgRhs", certMsgRhs)
	e.comment("CertificateVerify is demanded iff <saCvSubject> <saCvOp> <saCvRhs>; verified with key <saCvPub> over <saCvSigned>")
	e.nat("saCvFound", map[bool]int64{true: 1, false: 0}[cvFound], cvFound)
	e.str("saCvSubject", cvX)
	e.str("saCvOp", cvOp)
	e.nat("saCvRhs", cvRhs, cvFound)
	e.boolean("saCvMandatory", cvMandatory)
	e.str("saCvSigned", cvSigned)
	e.str("saCvPub", cvPubDef)
	e.str("saCvPubGuard", cvPubGuard)
	e.str("saCvRead", cvRead)
	e.boolean("saCvHashedAfterVerify", cvHashedAfter)
	e.boolean("saCvErrReturns", cvErrReturns)
	e.str("saCvSigTypeFrom", cvSigTypeFrom)

	// ---- typeAndHashFrom: the suites whose handshake signature is SM2 with SM3
	{
		var sm2Suites []string
		sigName := ""
		if fd := p.funcs["typeAndHashFrom"]; fd != nil && fd.Body != nil {
			ast.Inspect(fd.Body, func(n ast.Node) bool {
				cl, ok := n.(*ast.CaseClause)
				if !ok || cl.List == nil || len(cl.Body) != 1 {
					return true
				}
				rs, ok := cl.Body[0].(*ast.ReturnStmt)
				if !ok || len(rs.Results) != 3 || p.src(rs.Results[2]) != "nil" {
					return true
				}
				if p.src(rs.Results[1]) == "sm3.New" && strings.HasPrefix(p.src(rs.Results[0]), "ECC_") {
					sigName = p.src(rs.Results[0])
					for _, x := range cl.List {
						sm2Suites = append(sm2Suites, p.src(x))
					}
				}
				return true
			})
		}
		e.str("saSigTypeSm2", sigName)
		e.strList("saSigTypeSm2Suites", sm2Suites)
	}

	// ---- verifyHandshakeSignature, the case of that signature type
	{
		found := false
		keyType, verifyCond, finalRet := "", "", ""
		assertReturns, failReturns := false, false
		var shape []string
		if fd := p.funcs["verifyHandshakeSignature"]; fd != nil && fd.Body != nil && fd.Type.Params != nil {
			// the parameter holding the public key (second parameter)
			var params []string
			for _, f := range fd.Type.Params.List {
				for _, n := range f.Names {
					params = append(params, n.Name)
				}
			}
			pubParam := ""
			if len(params) >= 2 {
				pubParam = params[1]
			}
			for _, st := range fd.Body.List {
				if rs, ok := st.(*ast.ReturnStmt); ok && len(rs.Results) == 1 {
					finalRet = p.src(rs.Results[0])
				}
				sw, ok := st.(*ast.SwitchStmt)
				if !ok || sw.Tag == nil || len(params) == 0 || p.src(sw.Tag) != params[0] {
					continue
				}
				for _, cc := range sw.Body.List {
					cl := cc.(*ast.CaseClause)
					if len(cl.List) != 1 || p.src(cl.List[0]) != "ECC_SM3" {
						continue
					}
					found = true
					okVar := ""
					for i, b := range cl.Body {
						switch t := b.(type) {
						case *ast.AssignStmt:
							if len(t.Rhs) == 1 && len(t.Lhs) == 2 {
								if ta, ok := t.Rhs[0].(*ast.TypeAssertExpr); ok && ta.Type != nil && p.src(ta.X) == pubParam {
									keyType = p.src(ta.Type)
									okVar = p.src(t.Lhs[1])
									shape = append(shape, "assert")
									// the very next statement must be `if !ok { return <error> }`
									if i+1 < len(cl.Body) {
										if is, ok := cl.Body[i+1].(*ast.IfStmt); ok && is.Init == nil && is.Else == nil &&
											p.src(is.Cond) == "!"+okVar && saReturnsError(p, is.Body) {
											assertReturns = true
										}
									}
									continue
								}
							}
							shape = append(shape, "assign")
						case *ast.IfStmt:
							c := p.src(t.Cond)
							switch {
							case okVar != "" && c == "!"+okVar && t.Init == nil:
								shape = append(shape, "assert-failed")
							case strings.Contains(c, "Verify") && t.Init == nil && t.Else == nil:
								shape = append(shape, "verify")
								verifyCond = c
								failReturns = saReturnsError(p, t.Body)
							default:
								shape = append(shape, "if:"+c)
							}
						case *ast.ReturnStmt:
							shape = append(shape, "return")
						default:
							shape = append(shape, "other")
						}
					}
				}
			}
		}
		if !found {
			e.nat("saVhsFound", 0, false)
		} else {
			e.nat("saVhsFound", 1, true)
		}
		e.comment("verifyHandshakeSignature, case ECC_SM3: `k, ok := pubkey.(<saVhsKeyType>)`; `if !ok { return error }` iff saVhsAssertReturns; `if <saVhsVerifyCond> { return error }`")
		e.str("saVhsKeyType", keyType)
		e.boolean("saVhsAssertReturns", assertReturns)
		e.str("saVhsVerifyCond", verifyCond)
		e.boolean("saVhsVerifyFailReturns", failReturns)
		e.strList("saVhsShape", shape)
		e.str("saVhsFinalReturn", finalRet)
	}

	// ---- processCertsFromClient
	pcf := p.funcs["Conn.processCertsFromClient"]
	var steps []string
	requireCond := ""
	var ecdheMin int64
	ecdheMinOK := false
	verifyPolicyExpr, verifyOp, verifyRhs, verifyLenCond := "", "", "", ""
	anyKU, anyKUOp := "", ""
	var usages, usagesAny, verified, inspected []string
	setsChains := false
	var keyKinds []string
	if pcf != nil && pcf.Body != nil {
		for _, st := range pcf.Body.List {
			switch s := st.(type) {
			case *ast.RangeStmt:
				if saContainsCall(p, s, "ParseCertificate") {
					steps = append(steps, "parse")
				}
			case *ast.AssignStmt:
				if len(s.Lhs) == 1 && p.src(s.Lhs[0]) == "c.peerCertificates" {
					steps = append(steps, "setPeer:"+p.src(s.Rhs[0]))
				}
			case *ast.IfStmt:
				cond := p.src(s.Cond)
				switch {
				case strings.Contains(cond, "requiresClientCert(") && saEndsInReturn(s.Body):
					steps = append(steps, "require")
					requireCond = cond
				case strings.Contains(cond, "isECDHE") && strings.Contains(cond, "len(certs)") && saEndsInReturn(s.Body) && !saContainsCall(p, s.Body, "Verify"):
					steps = append(steps, "ecdheMin")
					for _, c := range saConj(s.Cond) {
						if x, op, y, ok := saCmp(p, c); ok && x == "len(certs)" && op == "<" {
							if v, err := strconv.ParseInt(y, 0, 64); err == nil {
								ecdheMin, ecdheMinOK = v, true
							}
						}
					}
				case saContainsCall(p, s.Body, "Verify"):
					steps = append(steps, "verify")
					for _, c := range saConj(s.Cond) {
						x, op, y, ok := saCmp(p, c)
						if !ok {
							verifyLenCond += "?" + p.src(c)
							continue
						}
						if strings.HasSuffix(x, "ClientAuth") {
							verifyPolicyExpr, verifyOp, verifyRhs = x, op, y
						} else {
							verifyLenCond += x + " " + op + " " + y
						}
					}
					for _, b := range s.Body.List {
						if as, ok := b.(*ast.AssignStmt); ok && len(as.Lhs) == 1 && p.src(as.Lhs[0]) == "keyUsages" {
							if cl, ok := as.Rhs[0].(*ast.CompositeLit); ok {
								for _, el := range cl.Elts {
									usages = append(usages, strings.TrimPrefix(p.src(el), "x509."))
								}
							}
						}
						if inner, ok := b.(*ast.IfStmt); ok {
							if x, op, y, okc := saCmp(p, inner.Cond); okc && strings.HasSuffix(x, "ClientAuth") && strings.Contains(p.src(inner.Body), "keyUsages") {
								anyKU, anyKUOp = y, op
								ast.Inspect(inner.Body, func(n ast.Node) bool {
									if cl, ok := n.(*ast.CompositeLit); ok {
										for _, el := range cl.Elts {
											usagesAny = append(usagesAny, strings.TrimPrefix(p.src(el), "x509."))
										}
										return false
									}
									return true
								})
							}
						}
						if as, ok := b.(*ast.AssignStmt); ok && len(as.Lhs) == 1 && p.src(as.Lhs[0]) == "c.verifiedChains" {
							setsChains = true
						}
					}
					// which certificates are verified, with their guards
					var walk func(n ast.Node, guard string)
					walk = func(n ast.Node, guard string) {
						switch t := n.(type) {
						case *ast.BlockStmt:
							for _, b := range t.List {
								walk(b, guard)
							}
						case *ast.IfStmt:
							if t.Init != nil {
								walk(t.Init, guard)
							}
							g := p.src(t.Cond)
							if g == "err != nil" {
								return
							}
							if guard != "" {
								g = guard + " && " + g
							}
							walk(t.Body, g)
						case *ast.AssignStmt:
							for _, r := range t.Rhs {
								if call, ok := r.(*ast.CallExpr); ok {
									if sel, ok := call.Fun.(*ast.SelectorExpr); ok && sel.Sel.Name == "Verify" {
										v := p.src(sel.X)
										if guard != "" {
											v += " if " + guard
										}
										verified = append(verified, v)
									}
								}
							}
						}
					}
					walk(s.Body, "")
					saVerifyInspected(p, s.Body, &inspected)
				case strings.Contains(cond, "len(certs) > 0") || strings.Contains(cond, "len(certs) != 0"):
					hasTS := false
					ast.Inspect(s.Body, func(n ast.Node) bool {
						if ts, ok := n.(*ast.TypeSwitchStmt); ok {
							hasTS = true
							if strings.HasPrefix(p.src(ts.Assign), "certs[0].PublicKey") {
								for _, cc := range ts.Body.List {
									cl := cc.(*ast.CaseClause)
									if cl.List != nil {
										for _, t := range cl.List {
											keyKinds = append(keyKinds, p.src(t))
										}
									}
								}
							}
						}
						return true
					})
					if hasTS {
						steps = append(steps, "keyType")
					}
				case strings.Contains(cond, "VerifyPeerCertificate"):
					steps = append(steps, "callback")
				}
			}
		}
	}
	e.strList("saPcSteps", steps)
	e.str("saPcRequireCond", requireCond)
	e.nat("saPcEcdheMin", ecdheMin, ecdheMinOK)
	if verifyOp == "" {
		missingStr("saPcVerifyOp")
	} else {
		e.nat("saPcVerifyOpFound", 1, true)
		e.str("saPcVerifyOp", verifyOp)
	}
	e.str("saPcVerifyPolicyExpr", verifyPolicyExpr)
	e.str("saPcVerifyRhs", verifyRhs)
	e.str("saPcVerifyLenCond", verifyLenCond)
	e.strList("saPcKeyUsages", usages)
	e.str("saPcAnyUsagePolicy", anyKU)
	e.str("saPcAnyUsageOp", anyKUOp)
	e.strList("saPcKeyUsagesAny", usagesAny)
	e.strList("saPcVerified", verified)
	e.strList("saPcVerifyInspected", inspected)
	e.boolean("saPcSetsVerifiedChains", setsChains)
	e.strList("saPcKeyKinds", keyKinds)

	// ---- resumption (F6)
	cfr := p.funcs["serverHandshakeState.checkForResumption"]
	needGuard, noPolicyGuard := false, false
	mentions := false
	if cfr != nil && cfr.Body != nil {
		src := p.src(cfr.Body)
		mentions = strings.Contains(src, "ClientAuth") || strings.Contains(src, "peerCertificates")
		// local definitions x := expr are inlined into the guards
		defs := map[string]string{}
		for _, st := range cfr.Body.List {
			if as, ok := st.(*ast.AssignStmt); ok && as.Tok == token.DEFINE && len(as.Lhs) == 1 && len(as.Rhs) == 1 {
				if id, ok := as.Lhs[0].(*ast.Ident); ok {
					defs[id.Name] = p.src(as.Rhs[0])
				}
			}
		}
		inline := func(ex ast.Expr) string {
			var parts []string
			ast.Inspect(ex, func(n ast.Node) bool {
				if id, ok := n.(*ast.Ident); ok {
					if d, ok := defs[id.Name]; ok {
						parts = append(parts, d)
					}
				}
				return true
			})
			return p.src(ex) + " {" + strings.Join(parts, "; ") + "}"
		}
		for _, st := range cfr.Body.List {
			is, ok := st.(*ast.IfStmt)
			if !ok || len(is.Body.List) != 1 {
				continue
			}
			rs, ok := is.Body.List[0].(*ast.ReturnStmt)
			if !ok || len(rs.Results) != 1 || p.src(rs.Results[0]) != "false" {
				continue
			}
			g := inline(is.Cond)
			if strings.Contains(g, "requiresClientCert(") && strings.Contains(g, "ClientAuth") && strings.Contains(g, "peerCertificates") {
				needGuard = true
			}
			if strings.Contains(g, "ClientAuth == NoClientCert") && strings.Contains(g, "peerCertificates") {
				noPolicyGuard = true
			}
		}
	}
	reverify := false
	reverifyArg := ""
	if drh := p.funcs["serverHandshakeState.doResumeHandshake"]; drh != nil && drh.Body != nil {
		for _, st := range drh.Body.List {
			is, ok := st.(*ast.IfStmt)
			if !ok || is.Init == nil || !saEndsInReturn(is.Body) || p.src(is.Cond) != "err != nil" {
				continue
			}
			if saContainsCall(p, is.Init, "processCertsFromClient") {
				reverify = true
				reverifyArg = p.src(is.Init)
			}
		}
	}
	if cfr == nil {
		e.nat("saResumeFound", 0, false)
	} else {
		e.nat("saResumeFound", 1, true)
	}
	e.boolean("saResumeMentionsPolicy", mentions)
	e.boolean("saResumeNeedCertGuard", needGuard)
	e.boolean("saResumeNoPolicyGuard", noPolicyGuard)
	e.boolean("saResumeReverifies", reverify)
	e.str("saResumeReverifyCall", reverifyArg)
	// what the session records as the client's certificates
	rec := ""
	if css := p.funcs["serverHandshakeState.createSessionState"]; css != nil && css.Body != nil {
		ast.Inspect(css.Body, func(n ast.Node) bool {
			if kv, ok := n.(*ast.KeyValueExpr); ok && p.src(kv.Key) == "peerCertificates" {
				rec = p.src(kv.Value)
			}
			return true
		})
	}
	e.str("saSessionRecords", rec)

	// ---- WHEN the server stores a session, relative to the checks of the full handshake
	emitStorePoint(e, p)
}

// saCountCalls counts the calls of a function / method named name below n.
func saCountCalls(n ast.Node, name string) int {
	cnt := 0
	ast.Inspect(n, func(x ast.Node) bool {
		if call, ok := x.(*ast.CallExpr); ok {
			switch f := call.Fun.(type) {
			case *ast.SelectorExpr:
				if f.Sel.Name == name {
					cnt++
				}
			case *ast.Ident:
				if f.Name == name {
					cnt++
				}
			}
		}
		return true
	})
	return cnt
}

// saHsCalls lists the `hs.X(…)` method calls below n in source order.
func saHsCalls(n ast.Node) []string {
	var out []string
	ast.Inspect(n, func(x ast.Node) bool {
		if ce, ok := x.(*ast.CallExpr); ok {
			if se, ok := ce.Fun.(*ast.SelectorExpr); ok {
				if id, ok := se.X.(*ast.Ident); ok && id.Name == "hs" {
					out = append(out, se.Sel.Name)
				}
			}
		}
		return true
	})
	return out
}

// saIsPlainCall: the statement is exactly `hs.<name>()`.
func saIsPlainCall(p *pkg, st ast.Stmt, name string) bool {
	es, ok := st.(*ast.ExprStmt)
	return ok && p.src(es.X) == "hs."+name+"()"
}

// saGuardsBefore describes the statements in front of index idx of a statement list: every
// `if err = hs.X(…); err != nil { …; return <error> }` (or `err :=`) gives "X:checked", any other
// statement that calls a method of hs gives "X:unchecked" per call.
func saGuardsBefore(p *pkg, stmts []ast.Stmt, idx int) []string {
	var out []string
	for _, st := range stmts[:idx] {
		if is, ok := st.(*ast.IfStmt); ok && is.Init != nil && is.Else == nil && p.src(is.Cond) == "err != nil" && saReturnsError(p, is.Body) {
			if as, ok := is.Init.(*ast.AssignStmt); ok && len(as.Rhs) == 1 && len(as.Lhs) >= 1 && p.src(as.Lhs[len(as.Lhs)-1]) == "err" {
				if cs := saHsCalls(as.Rhs[0]); len(cs) == 1 && len(saHsCalls(is.Body)) == 0 {
					out = append(out, cs[0]+":checked")
					continue
				}
			}
		}
		for _, c := range saHsCalls(st) {
			out = append(out, c+":unchecked")
		}
	}
	return out
}

// emitStorePoint: the server's session cache is written by createSessionState only; where is it
// called, and which steps of the full handshake have succeeded by then?
//
//	saStoreSites      the functions that call createSessionState (one entry per call)
//	saStoreAt         "afterFinished":   an unconditional statement of the full-handshake branch of
//	                                     handshake(), after `readFinished` returned nil
//	                  "afterCertVerify": … after `doFullHandshake` returned nil (before readFinished), or
//	                                     in doFullHandshake after the CertificateVerify block
//	                  "afterKx":         in doFullHandshake, after hs.masterSecret is assigned and
//	                                     before the CertificateVerify block
//	                  "?":               anything else
//	saStoreGuards     the hs.* calls in front of it in that statement list, ":checked" when an error
//	                  of the call returns from the function before anything else happens
//	saServerPutSites  the functions outside the client's handshake that write a SessionCache
//	saServerPutNil    how many of those writes store a nil (= remove an entry)
func emitStorePoint(e *emitter, p *pkg) {
	var names []string
	for name := range p.funcs {
		names = append(names, name)
	}
	sort.Strings(names)
	var sites, putSites []string
	putNil := int64(0)
	for _, name := range names {
		fd := p.funcs[name]
		if fd.Body == nil {
			continue
		}
		if name != "serverHandshakeState.createSessionState" {
			for i := 0; i < saCountCalls(fd.Body, "createSessionState"); i++ {
				sites = append(sites, name)
			}
		}
		if !strings.Contains(strings.ToLower(name), "client") {
			_, vals := putCalls(p, fd.Body)
			for _, v := range vals {
				putSites = append(putSites, name)
				if v == "nil" {
					putNil++
				}
			}
		}
	}
	storeAt := "?"
	var guards []string
	if len(sites) == 1 {
		switch sites[0] {
		case "serverHandshakeState.handshake":
			for _, st := range body(p, "serverHandshakeState.handshake") {
				is, ok := st.(*ast.IfStmt)
				if !ok || p.src(is.Cond) != "hs.checkForResumption()" {
					continue
				}
				eb, ok := is.Else.(*ast.BlockStmt)
				if !ok || saCountCalls(is.Body, "createSessionState") != 0 {
					continue
				}
				for i, b := range eb.List {
					if !saIsPlainCall(p, b, "createSessionState") {
						continue
					}
					guards = saGuardsBefore(p, eb.List, i)
					has := func(g string) bool {
						for _, x := range guards {
							if x == g {
								return true
							}
						}
						return false
					}
					switch {
					case has("doFullHandshake:checked") && has("readFinished:checked"):
						storeAt = "afterFinished"
					case has("doFullHandshake:checked") && !has("readFinished:unchecked"):
						storeAt = "afterCertVerify"
					}
				}
			}
		case "serverHandshakeState.doFullHandshake":
			stmts := body(p, "serverHandshakeState.doFullHandshake")
			at, master, cv := -1, -1, -1
			for i, b := range stmts {
				if saIsPlainCall(p, b, "createSessionState") {
					at = i
				}
				if as, ok := b.(*ast.AssignStmt); ok && len(as.Lhs) == 1 && p.src(as.Lhs[0]) == "hs.masterSecret" {
					master = i
				}
				if is, ok := b.(*ast.IfStmt); ok && saContainsCall(p, is.Body, "verifyHandshakeSignature") {
					cv = i
				}
			}
			if at >= 0 {
				guards = saGuardsBefore(p, stmts, at)
			}
			switch {
			case at >= 0 && master >= 0 && cv >= 0 && at > master && at < cv:
				storeAt = "afterKx"
			case at >= 0 && cv >= 0 && at > cv:
				storeAt = "afterCertVerify"
			}
		}
	}
	e.comment("createSessionState is called from <saStoreSites>, at <saStoreAt>, after <saStoreGuards>; server-side SessionCache writers <saServerPutSites>")
	e.strList("saStoreSites", sites)
	e.str("saStoreAt", storeAt)
	e.strList("saStoreGuards", guards)
	e.strList("saServerPutSites", putSites)
	e.nat("saServerPutNil", putNil, true)
	emitAuthStateWriters(e, p, names)
}

// emitAuthStateWriters: WHO writes the authentication state a connection reports.
//
//	saAuthStateWriters  every "<function>:<field>" such that the function assigns c.peerCertificates or
//	                    c.verifiedChains (any assignment statement with that selector on its left side)
//	saPcCallers         the functions that call processCertsFromClient
//
// On the server side these fields must be written by processCertsFromClient only, which must be
// called only on the client's Certificate message (doFullHandshake) and, once checkForResumption
// has returned true, on the session's certificates (doResumeHandshake): checkForResumption and
// whatever it calls only read.
func emitAuthStateWriters(e *emitter, p *pkg, names []string) {
	var writers, callers []string
	for _, name := range names {
		fd := p.funcs[name]
		if fd.Body == nil {
			continue
		}
		seen := map[string]bool{}
		ast.Inspect(fd.Body, func(x ast.Node) bool {
			as, ok := x.(*ast.AssignStmt)
			if !ok {
				return true
			}
			for _, l := range as.Lhs {
				sel, ok := l.(*ast.SelectorExpr)
				if !ok || (sel.Sel.Name != "peerCertificates" && sel.Sel.Name != "verifiedChains") {
					continue
				}
				if id, ok := sel.X.(*ast.Ident); !ok || id.Name != "c" {
					continue
				}
				if k := name + ":" + sel.Sel.Name; !seen[k] {
					seen[k] = true
					writers = append(writers, k)
				}
			}
			return true
		})
		if name != "Conn.processCertsFromClient" && saCountCalls(fd.Body, "processCertsFromClient") > 0 {
			callers = append(callers, name)
		}
	}
	sort.Strings(writers)
	e.comment("c.peerCertificates / c.verifiedChains are assigned in <saAuthStateWriters>; processCertsFromClient is called from <saPcCallers>")
	e.strList("saAuthStateWriters", writers)
	e.strList("saPcCallers", callers)
}

// Command extract is the "translator" half of the tie between the Lean model and the
// Go source: on every run it parses /repo's working tree with go/ast and rewrites
// lean/Gotlcp/Generated/Facts.lean (constants, tables, control skeletons, lock sites)
// plus a JSON copy. The Lean property theorems are stated over these facts, so a change
// of the source that moves a fact makes the kernel re-check (and possibly reject) them.
//
// It deliberately uses only the standard library (go/parser, go/ast, go/printer).
package main

import (
	"bytes"
	"crypto/sha256"
	"encoding/hex"
	"encoding/json"
	"flag"
	"fmt"
	"go/ast"
	"go/parser"
	"go/printer"
	"go/token"
	"os"
	"path/filepath"
	"sort"
	"strconv"
	"strings"
)

// ---------------------------------------------------------------------------
// package loading

type pkg struct {
	name   string
	fset   *token.FileSet
	files  map[string]*ast.File
	consts map[string]ast.Expr // const name -> value expr (iota resolved separately)
	iotas  map[string]int
	ctypes map[string]string // const name -> declared type ident ("" if none)
	vars   map[string]ast.Expr
	funcs  map[string]*ast.FuncDecl // "recv.name" or "name"
	types  map[string]*ast.TypeSpec
}

func load(dir, name string) (*pkg, error) {
	p := &pkg{name: name, fset: token.NewFileSet(), files: map[string]*ast.File{},
		consts: map[string]ast.Expr{}, iotas: map[string]int{}, ctypes: map[string]string{},
		vars: map[string]ast.Expr{}, funcs: map[string]*ast.FuncDecl{}, types: map[string]*ast.TypeSpec{}}
	ents, err := os.ReadDir(dir)
	if err != nil {
		return nil, err
	}
	for _, e := range ents {
		n := e.Name()
		if !strings.HasSuffix(n, ".go") || strings.HasSuffix(n, "_test.go") || strings.HasPrefix(n, "verif_") {
			continue
		}
		f, err := parser.ParseFile(p.fset, filepath.Join(dir, n), nil, parser.SkipObjectResolution)
		if err != nil {
			return nil, err
		}
		p.files[n] = f
		for _, d := range f.Decls {
			switch d := d.(type) {
			case *ast.GenDecl:
				switch d.Tok {
				case token.CONST:
					var lastExprs []ast.Expr
					var lastType string
					for i, s := range d.Specs {
						vs := s.(*ast.ValueSpec)
						exprs := vs.Values
						typ := ""
						if id, ok := vs.Type.(*ast.Ident); ok {
							typ = id.Name
						}
						if len(exprs) == 0 {
							exprs = lastExprs
							typ = lastType
						} else {
							lastExprs = exprs
							lastType = typ
						}
						for j, nm := range vs.Names {
							if j < len(exprs) {
								p.consts[nm.Name] = exprs[j]
								p.iotas[nm.Name] = i
								p.ctypes[nm.Name] = typ
							}
						}
					}
				case token.VAR:
					for _, s := range d.Specs {
						vs := s.(*ast.ValueSpec)
						for j, nm := range vs.Names {
							if j < len(vs.Values) {
								p.vars[nm.Name] = vs.Values[j]
							}
						}
					}
				case token.TYPE:
					for _, s := range d.Specs {
						ts := s.(*ast.TypeSpec)
						p.types[ts.Name.Name] = ts
					}
				}
			case *ast.FuncDecl:
				key := d.Name.Name
				if d.Recv != nil && len(d.Recv.List) == 1 {
					key = recvName(d.Recv.List[0].Type) + "." + key
				}
				p.funcs[key] = d
			}
		}
	}
	return p, nil
}

func recvName(e ast.Expr) string {
	switch t := e.(type) {
	case *ast.StarExpr:
		return recvName(t.X)
	case *ast.Ident:
		return t.Name
	case *ast.IndexExpr:
		return recvName(t.X)
	}
	return "?"
}

// evalInt evaluates a constant integer expression (literals, + - * / << >> | & ^ &^,
// parentheses, conversions T(x), references to other constants, iota).
func (p *pkg) evalInt(e ast.Expr, iota int, depth int) (int64, bool) {
	if depth > 50 {
		return 0, false
	}
	switch t := e.(type) {
	case *ast.BasicLit:
		switch t.Kind {
		case token.INT:
			v, err := strconv.ParseInt(t.Value, 0, 64)
			if err != nil {
				u, err2 := strconv.ParseUint(t.Value, 0, 64)
				if err2 != nil {
					return 0, false
				}
				return int64(u), true
			}
			return v, true
		case token.CHAR:
			s, err := strconv.Unquote(t.Value)
			if err != nil || len(s) == 0 {
				return 0, false
			}
			return int64([]rune(s)[0]), true
		}
		return 0, false
	case *ast.Ident:
		if t.Name == "iota" {
			return int64(iota), true
		}
		if ce, ok := p.consts[t.Name]; ok {
			return p.evalInt(ce, p.iotas[t.Name], depth+1)
		}
		return 0, false
	case *ast.ParenExpr:
		return p.evalInt(t.X, iota, depth+1)
	case *ast.CallExpr: // conversion T(x)
		if len(t.Args) == 1 {
			return p.evalInt(t.Args[0], iota, depth+1)
		}
		return 0, false
	case *ast.UnaryExpr:
		v, ok := p.evalInt(t.X, iota, depth+1)
		if !ok {
			return 0, false
		}
		switch t.Op {
		case token.SUB:
			return -v, true
		case token.ADD:
			return v, true
		case token.XOR:
			return ^v, true
		}
		return 0, false
	case *ast.BinaryExpr:
		a, ok1 := p.evalInt(t.X, iota, depth+1)
		b, ok2 := p.evalInt(t.Y, iota, depth+1)
		if !ok1 || !ok2 {
			return 0, false
		}
		switch t.Op {
		case token.ADD:
			return a + b, true
		case token.SUB:
			return a - b, true
		case token.MUL:
			return a * b, true
		case token.QUO:
			if b == 0 {
				return 0, false
			}
			return a / b, true
		case token.REM:
			if b == 0 {
				return 0, false
			}
			return a % b, true
		case token.SHL:
			return a << uint(b), true
		case token.SHR:
			return a >> uint(b), true
		case token.OR:
			return a | b, true
		case token.AND:
			return a & b, true
		case token.XOR:
			return a ^ b, true
		case token.AND_NOT:
			return a &^ b, true
		}
	case *ast.SelectorExpr:
		// time.Second etc.
		if x, ok := t.X.(*ast.Ident); ok && x.Name == "time" {
			switch t.Sel.Name {
			case "Nanosecond":
				return 1, true
			case "Microsecond":
				return 1e3, true
			case "Millisecond":
				return 1e6, true
			case "Second":
				return 1e9, true
			case "Minute":
				return 60e9, true
			}
		}
	}
	return 0, false
}

func (p *pkg) constInt(name string) (int64, bool) {
	e, ok := p.consts[name]
	if !ok {
		return 0, false
	}
	return p.evalInt(e, p.iotas[name], 0)
}

// src prints a node without comments, normalised.
func (p *pkg) src(n ast.Node) string {
	var b bytes.Buffer
	cfg := printer.Config{Mode: printer.RawFormat, Tabwidth: 1}
	_ = cfg.Fprint(&b, p.fset, n)
	return strings.Join(strings.Fields(b.String()), " ")
}

func (p *pkg) funcHash(key string) string {
	fd, ok := p.funcs[key]
	if !ok || fd.Body == nil {
		return "absent"
	}
	// comments are not attached to Body when printing the node alone
	h := sha256.Sum256([]byte(p.src(fd.Type) + p.src(fd.Body)))
	return hex.EncodeToString(h[:8])
}

// ---------------------------------------------------------------------------
// Lean emission

type emitter struct {
	lean    strings.Builder
	js      map[string]any
	ns      []string
	missing []string // facts the extractor could not find (emitted as 0 / [] and listed)
}

func (e *emitter) open(ns string) {
	e.ns = append(e.ns, ns)
	fmt.Fprintf(&e.lean, "\nnamespace %s\n", ns)
}
func (e *emitter) close() {
	ns := e.ns[len(e.ns)-1]
	e.ns = e.ns[:len(e.ns)-1]
	fmt.Fprintf(&e.lean, "end %s\n", ns)
}
func (e *emitter) key(name string) string { return strings.Join(append(append([]string{}, e.ns...), name), ".") }

func (e *emitter) nat(name string, v int64, ok bool) {
	if !ok {
		fmt.Fprintf(&e.lean, "def %s : Nat := 0 -- MISSING: not found in the source\n", name)
		e.js[e.key(name)] = nil
		e.missing = append(e.missing, e.key(name))
		return
	}
	fmt.Fprintf(&e.lean, "def %s : Nat := %d\n", name, v)
	e.js[e.key(name)] = v
}
func (e *emitter) boolean(name string, v bool) {
	fmt.Fprintf(&e.lean, "def %s : Bool := %v\n", name, v)
	e.js[e.key(name)] = v
}
func (e *emitter) natList(name string, vs []int64, ok bool) {
	if !ok {
		fmt.Fprintf(&e.lean, "def %s : List Nat := [] -- MISSING: not found in the source\n", name)
		e.js[e.key(name)] = nil
		e.missing = append(e.missing, e.key(name))
		return
	}
	ss := make([]string, len(vs))
	for i, v := range vs {
		ss[i] = strconv.FormatInt(v, 10)
	}
	fmt.Fprintf(&e.lean, "def %s : List Nat := [%s]\n", name, strings.Join(ss, ", "))
	e.js[e.key(name)] = vs
}
func (e *emitter) strList(name string, vs []string) {
	qs := make([]string, len(vs))
	for i, v := range vs {
		qs[i] = strconv.Quote(v)
	}
	fmt.Fprintf(&e.lean, "def %s : List String := [%s]\n", name, strings.Join(qs, ", "))
	e.js[e.key(name)] = vs
}
func (e *emitter) str(name, v string) {
	fmt.Fprintf(&e.lean, "def %s : String := %s\n", name, strconv.Quote(v))
	e.js[e.key(name)] = v
}
func (e *emitter) raw(name, typ, val string, j any) {
	fmt.Fprintf(&e.lean, "def %s : %s := %s\n", name, typ, val)
	e.js[e.key(name)] = j
}
func (e *emitter) comment(s string) { fmt.Fprintf(&e.lean, "-- %s\n", s) }

// ---------------------------------------------------------------------------

var intConsts = map[string][]string{
	"tlcp": {"VersionTLCP", "maxPlaintext", "maxCiphertext", "recordHeaderLen", "maxHandshake", "maxUselessRecords",
		"tcpMSSEstimate", "recordSizeBoostThreshold", "masterSecretLength", "finishedVerifyLength",
		"aeadNonceLength", "noncePrefixLength",
		"recordTypeChangeCipherSpec", "recordTypeAlert", "recordTypeHandshake", "recordTypeApplicationData",
		"typeClientHello", "typeServerHello", "typeCertificate", "typeServerKeyExchange", "typeCertificateRequest",
		"typeServerHelloDone", "typeCertificateVerify", "typeClientKeyExchange", "typeFinished",
		"alertLevelWarning", "alertLevelError", "alertCloseNotify", "alertUnexpectedMessage", "alertBadRecordMAC",
		"alertRecordOverflow", "alertDecodeError", "alertNoRenegotiation", "alertProtocolVersion", "alertInternalError",
		"suiteECDHE", "suiteECSign",
		"ECC_SM4_GCM_SM3", "ECC_SM4_CBC_SM3", "ECDHE_SM4_GCM_SM3", "ECDHE_SM4_CBC_SM3",
	},
	"dtlcp": {"VersionTLCP", "maxPlaintext", "maxCiphertext", "recordHeaderLen", "maxHandshake", "maxUselessRecords",
		"maxHandshakeFragments", "defaultReplayWindowSize", "dtlcpHeaderLen", "dwellPeriod",
		"masterSecretLength", "finishedVerifyLength", "aeadNonceLength", "noncePrefixLength",
		"recordTypeChangeCipherSpec", "recordTypeAlert", "recordTypeHandshake", "recordTypeApplicationData",
		"typeClientHello", "typeServerHello", "typeHelloVerifyRequest", "typeCertificate", "typeServerKeyExchange", "typeCertificateRequest",
		"typeServerHelloDone", "typeCertificateVerify", "typeClientKeyExchange", "typeFinished",
		"alertLevelWarning", "alertLevelError", "alertCloseNotify", "alertUnexpectedMessage", "alertBadRecordMAC",
		"alertRecordOverflow", "alertDecodeError", "alertNoRenegotiation", "alertProtocolVersion", "alertInternalError",
		"suiteECDHE", "suiteECSign",
		"ECC_SM4_GCM_SM3", "ECC_SM4_CBC_SM3", "ECDHE_SM4_GCM_SM3", "ECDHE_SM4_CBC_SM3",
	},
}

func identList(p *pkg, e ast.Expr) ([]int64, bool) {
	cl, ok := e.(*ast.CompositeLit)
	if !ok {
		return nil, false
	}
	var out []int64
	for _, el := range cl.Elts {
		v, ok := p.evalInt(el, 0, 0)
		if !ok {
			return nil, false
		}
		out = append(out, v)
	}
	return out, true
}

// stmts of a function body, or nil
func body(p *pkg, key string) []ast.Stmt {
	fd, ok := p.funcs[key]
	if !ok || fd.Body == nil {
		return nil
	}
	return fd.Body.List
}

// lockedFirst reports whether the body starts with `recv.X.Lock()` ; `defer recv.X.Unlock()`
// (X may be empty for an embedded mutex) and returns X.
func lockedFirst(p *pkg, key string) (string, bool) {
	b := body(p, key)
	if len(b) < 2 {
		return "", false
	}
	es, ok := b[0].(*ast.ExprStmt)
	if !ok {
		return "", false
	}
	s0 := p.src(es.X)
	ds, ok := b[1].(*ast.DeferStmt)
	if !ok {
		return "", false
	}
	s1 := p.src(ds.Call)
	if !strings.HasSuffix(s0, ".Lock()") || !strings.HasSuffix(s1, ".Unlock()") {
		return "", false
	}
	a := strings.TrimSuffix(s0, ".Lock()")
	bb := strings.TrimSuffix(s1, ".Unlock()")
	if a != bb {
		return "", false
	}
	return a, true
}

func emitLRU(e *emitter, p *pkg) {
	e.comment("session.go: lruSessionCache")
	// default capacity
	var defCap int64
	okCap := false
	if fd := p.funcs["NewLRUSessionCache"]; fd != nil {
		ast.Inspect(fd.Body, func(n ast.Node) bool {
			if gd, ok := n.(*ast.GenDecl); ok && gd.Tok == token.CONST {
				for _, s := range gd.Specs {
					vs := s.(*ast.ValueSpec)
					for i, nm := range vs.Names {
						if nm.Name == "defaultSessionCacheCapacity" && i < len(vs.Values) {
							defCap, okCap = p.evalInt(vs.Values[i], 0, 0)
						}
					}
				}
			}
			return true
		})
	}
	e.nat("lruDefaultCap", defCap, okCap)
	// guard `capacity < 1`
	guard := false
	if fd := p.funcs["NewLRUSessionCache"]; fd != nil {
		for _, st := range fd.Body.List {
			if is, ok := st.(*ast.IfStmt); ok && p.src(is.Cond) == "capacity < 1" {
				guard = true
			}
		}
	}
	e.boolean("lruCapFloorIsOne", guard)
	_, l1 := lockedFirst(p, "lruSessionCache.Put")
	_, l2 := lockedFirst(p, "lruSessionCache.Get")
	e.boolean("lruPutLocked", l1)
	e.boolean("lruGetLocked", l2)
	// strict delete: a top-level `if cs == nil { return }` after the hit branch and before insertion
	strict := false
	for _, st := range body(p, "lruSessionCache.Put") {
		if is, ok := st.(*ast.IfStmt); ok && is.Init == nil && p.src(is.Cond) == "cs == nil" && is.Else == nil && len(is.Body.List) == 1 {
			if rs, ok := is.Body.List[0].(*ast.ReturnStmt); ok && len(rs.Results) == 0 {
				strict = true
			}
		}
	}
	e.boolean("lruPutNilAbsentReturns", strict)
}

func emitClone(e *emitter, p *pkg) {
	// fields of Config (exported or not, except the mutex) minus keys of the composite literal in Clone
	var fields []string
	if ts := p.types["Config"]; ts != nil {
		if st, ok := ts.Type.(*ast.StructType); ok {
			for _, f := range st.Fields.List {
				for _, nm := range f.Names {
					if nm.Name == "mutex" {
						continue
					}
					fields = append(fields, nm.Name)
				}
			}
		}
	}
	copied := map[string]string{}
	if fd := p.funcs["Config.Clone"]; fd != nil {
		ast.Inspect(fd.Body, func(n ast.Node) bool {
			if cl, ok := n.(*ast.CompositeLit); ok {
				if id, ok := cl.Type.(*ast.Ident); ok && id.Name == "Config" {
					for _, el := range cl.Elts {
						if kvp, ok := el.(*ast.KeyValueExpr); ok {
							copied[p.src(kvp.Key)] = p.src(kvp.Value)
						}
					}
				}
			}
			return true
		})
	}
	var missing, wrong []string
	for _, f := range fields {
		v, ok := copied[f]
		if !ok {
			missing = append(missing, f)
		} else if v != "c."+f {
			wrong = append(wrong, f)
		}
	}
	sort.Strings(missing)
	sort.Strings(wrong)
	e.raw("configFieldCount", "Nat", strconv.Itoa(len(fields)), len(fields))
	e.strList("cloneMissing", missing)
	e.strList("cloneNotVerbatim", wrong)
}

func emitSuites(e *emitter, p *pkg) {
	vs, ok := identList(p, p.vars["cipherSuitesPreferenceOrder"])
	e.natList("preferenceOrder", vs, ok)
	ds, ok2 := identList(p, p.vars["disabledCipherSuites"])
	e.natList("disabledSuites", ds, ok2)
	// cipherSuites map: id -> (keyLen, macLen, ivLen, flags, isAEAD)
	type row struct {
		ID, KeyLen, MacLen, IvLen, Flags int64
		AEAD                             bool
		KA                               string
	}
	var rows []row
	good := false
	if cl, ok := p.vars["cipherSuites"].(*ast.CompositeLit); ok {
		good = true
		for _, el := range cl.Elts {
			kvp, ok := el.(*ast.KeyValueExpr)
			if !ok {
				good = false
				break
			}
			v, ok := kvp.Value.(*ast.CompositeLit)
			if !ok || len(v.Elts) != 9 {
				good = false
				break
			}
			var r row
			var oks [5]bool
			r.ID, oks[0] = p.evalInt(v.Elts[0], 0, 0)
			r.KeyLen, oks[1] = p.evalInt(v.Elts[1], 0, 0)
			r.MacLen, oks[2] = p.evalInt(v.Elts[2], 0, 0)
			r.IvLen, oks[3] = p.evalInt(v.Elts[3], 0, 0)
			r.KA = p.src(v.Elts[4])
			r.Flags, oks[4] = p.evalInt(v.Elts[5], 0, 0)
			r.AEAD = p.src(v.Elts[8]) != "nil"
			kid, okk := p.evalInt(kvp.Key, 0, 0)
			for _, o := range oks {
				good = good && o
			}
			good = good && okk && kid == r.ID
			rows = append(rows, r)
		}
	}
	sort.Slice(rows, func(i, j int) bool { return rows[i].ID < rows[j].ID })
	if !good {
		e.raw("suiteTable", "List (Nat × Nat × Nat × Nat × Nat × Bool × String)", "[]", nil)
		e.missing = append(e.missing, e.key("suiteTable"))
		return
	}
	var ss []string
	for _, r := range rows {
		ss = append(ss, fmt.Sprintf("(%d, %d, %d, %d, %d, %v, %s)", r.ID, r.KeyLen, r.MacLen, r.IvLen, r.Flags, r.AEAD, strconv.Quote(r.KA)))
	}
	e.comment("(id, keyLen, macLen, ivLen, flags, isAEAD, keyAgreement)")
	e.raw("suiteTable", "List (Nat × Nat × Nat × Nat × Nat × Bool × String)", "["+strings.Join(ss, ", ")+"]", rows)
}

// modelled functions whose AST hash is recorded (a changed hash is not a violation; it
// raises the correspondence budget of the properties that model the function).
var hashed = map[string][]string{
	"tlcp": {"lruSessionCache.Put", "lruSessionCache.Get", "NewLRUSessionCache"},
	"dtlcp": {"lruSessionCache.Put", "lruSessionCache.Get", "NewLRUSessionCache",
		"replayWindow.check", "newReplayWindow", "fragmentBuffer.addFragment", "fragmentBuffer.complete", "newFragmentBuffer",
		"generateCookie", "verifyCookie"},
	"pa": {"ProtocolDetectConn.ReadFirstHeader", "ProtocolDetectConn.Read", "ProtocolSwitchServerConn.detect",
		"ProtocolSwitchServerConn.Read", "ProtocolSwitchServerConn.Write"},
}

func main() {
	repo := flag.String("repo", "/repo", "repository root")
	outLean := flag.String("lean", "", "path of Facts.lean to (re)write")
	outJSON := flag.String("json", "", "path of facts.json to (re)write")
	flag.Parse()

	e := &emitter{js: map[string]any{}}
	e.lean.WriteString("/-\nGENERATED by harness/cmd/extract from the Go sources of /repo — do not edit.\nRewritten on every check run; the property theorems are stated over these definitions.\n-/\n")
	e.open("Gotlcp.Facts")
	pkgs := map[string]*pkg{}
	for _, name := range []string{"tlcp", "dtlcp", "pa"} {
		p, err := load(filepath.Join(*repo, name), name)
		if err != nil {
			fmt.Fprintln(os.Stderr, "extract:", err)
			os.Exit(2)
		}
		pkgs[name] = p
	}
	for _, name := range []string{"tlcp", "dtlcp"} {
		p := pkgs[name]
		e.open(name)
		for _, c := range intConsts[name] {
			v, ok := p.constInt(c)
			e.nat(c, v, ok)
		}
		emitSuites(e, p)
		emitClone(e, p)
		emitLRU(e, p)
		extraFacts(e, p)
		e.close()
	}
	e.open("pa")
	extraFacts(e, pkgs["pa"])
	e.close()
	// hashes
	hashes := map[string]string{}
	for name, keys := range hashed {
		for _, k := range keys {
			hashes[name+"."+k] = pkgs[name].funcHash(k)
		}
	}
	for name, keys := range extraHashed {
		for _, k := range keys {
			hashes[name+"."+k] = pkgs[name].funcHash(k)
		}
	}
	e.js["hashes"] = hashes
	e.comment("facts the extractor looked for and did not find (every property requires this to be empty)")
	e.strList("missing", e.missing)
	e.close()

	write := func(path string, data []byte) {
		if path == "" {
			return
		}
		old, err := os.ReadFile(path)
		if err == nil && bytes.Equal(old, data) {
			return // keep mtime: lake's cache stays warm
		}
		if err := os.WriteFile(path, data, 0o644); err != nil {
			fmt.Fprintln(os.Stderr, "extract:", err)
			os.Exit(2)
		}
	}
	write(*outLean, []byte(e.lean.String()))
	js, _ := json.MarshalIndent(e.js, "", " ")
	write(*outJSON, append(js, '\n'))
	if *outLean == "" && *outJSON == "" {
		os.Stdout.WriteString(e.lean.String())
	}
}

package main

// Facts for C19 (dtlcp retransmission / flights). Emitted inside `Gotlcp.Facts.dtlcp`:
//
//	flBackoffMul               K of `t.current *= K` in RetransmitTimer.backoff
//	flBackoffCapsAtMax         backoff contains `if t.current > t.max { t.current = t.max }`
//	flBackoffRestarts          backoff ends by calling t.start()
//	flResetToInitial           reset is `t.current = t.initial; t.start()`
//	flStartUsesCurrent         start is `t.handle = t.newTimer(t.current)`
//	flHelloWaitMul / flHelloWaitCapsAtMax
//	                           the same two statements on the local `timeout` of readNextClientHello
//	flHelloWaitResendsHVR      readNextClientHello writes something on a timeout (it does not today)
//	flCookieBreakLeavesLoop    in clientHandshake, the `break` that ends the branch storing the
//	                           HelloVerifyRequest cookie carries the label of the read loop (K2)
//	flDupHvrBreakLeavesLoop    the same for the `if len(hello.cookie) > 0 { … break }` branch
//	flHelloNewSeqPerSend       `hello.setMessageSeq(c.messageSeq); c.messageSeq++` sits inside the outer
//	                           send loop, i.e. every retransmitted ClientHello gets a new message_seq (F11)
//	flClientFlight5Flushes     number of c.flush() calls between doFullHandshake and the statement
//	                           `hs.flightData = append(…, c.sendBuf...)` in clientHandshakeState.handshake
//	                           (1 = flight 5 leaves as two datagrams and only the second is kept, K1/F12)
//	flClientDoneAfterReadFinished / flServerDoneAfterReadFinished
//	                           `c.hsState.Store(int32(stateFinished))` in handshake() comes after an
//	                           if/else both of whose branches call hs.readFinished
//	flHandshakeCompleteIsStateFinished
//	                           handshakeComplete() is `return c.hsState.Load() == int32(stateFinished)`
//	flStateFinishedStores      number of `hsState.Store(int32(stateFinished))` statements in the package
//	flAppDataNeedsComplete     `case recordTypeApplicationData:` of readRecordOrCCS starts with
//	                           `if !handshakeComplete || expectChangeCipherSpec { return … }`
//	flAppDataNeedsCipher       readRecordOrCCS has `if c.in.cipher == nil && typ == recordTypeApplicationData { return … }`
//	flReadBufOnlyInAppCase     the only assignment `c.readBuf = data` of readRecordOrCCS is in that case
//	flDecryptBeforeEpochCheck  in readRecordOrCCS the decrypt call precedes the comparison with c.readEpoch
//	flDecryptFailDropsAfterHandshake
//	                           the `if err != nil` after decrypt starts with `if handshakeComplete { …; continue }` (F14)
//	flFirstRecordCheckNeedsEmptyHand
//	                           the record-type clause of the first-record heuristic is guarded by
//	                           `c.handBuf.Len() == 0` (F37)
//	flCCSDeferredWhenHandPending
//	                           `if !expectChangeCipherSpec && c.handBuf.Len() > 0 { c.in.deferredCCS = true; return nil }`
//	flServerResumeArmsTimer    the resumption branch of serverHandshakeState.handshake calls retransmitTimer.reset()

import (
	"go/ast"
	"go/token"
	"regexp"
	"strconv"
	"strings"
)

func init() {
	extraFactFns = append(extraFactFns, emitFlights)
	extraHashed["dtlcp"] = append(extraHashed["dtlcp"],
		"RetransmitTimer.backoff", "RetransmitTimer.reset", "RetransmitTimer.start", "RetransmitTimer.stop", "RetransmitTimer.fired",
		"Conn.clientHandshake", "clientHandshakeState.handshake", "clientHandshakeState.readFinished",
		"Conn.serverHandshake", "Conn.readNextClientHello", "Conn.readNextFlightMsg", "serverHandshakeState.handshake",
		"serverHandshakeState.readFinished", "serverHandshakeState.doFullHandshake", "Conn.readChangeCipherSpec",
		"Conn.flush", "Conn.write", "Conn.readHandshake", "Conn.handshakeComplete")
}

func flEndsInReturn(b *ast.BlockStmt) bool {
	if b == nil || len(b.List) == 0 {
		return false
	}
	_, ok := b.List[len(b.List)-1].(*ast.ReturnStmt)
	return ok
}

func flEndsInContinue(b *ast.BlockStmt) bool {
	if b == nil || len(b.List) == 0 {
		return false
	}
	br, ok := b.List[len(b.List)-1].(*ast.BranchStmt)
	return ok && br.Tok == token.CONTINUE
}

func flSqueeze(s string) string { return strings.Join(strings.Fields(s), " ") }

// flMulAssign finds `<lhs> *= K` among stmts.
func flMulAssign(p *pkg, stmts []ast.Stmt, lhs string) (int64, bool) {
	for _, st := range stmts {
		as, ok := st.(*ast.AssignStmt)
		if !ok || as.Tok != token.MUL_ASSIGN || len(as.Lhs) != 1 || len(as.Rhs) != 1 {
			continue
		}
		if flSqueeze(p.src(as.Lhs[0])) != lhs {
			continue
		}
		if v, ok := p.evalInt(as.Rhs[0], 0, 0); ok {
			return v, true
		}
	}
	return 0, false
}

// flCapStmt finds `if <x> > <m> { <x> = <m> }` among stmts.
func flCapStmt(p *pkg, stmts []ast.Stmt, x, m string) bool {
	for _, st := range stmts {
		is, ok := st.(*ast.IfStmt)
		if !ok || is.Init != nil || is.Else != nil || len(is.Body.List) != 1 {
			continue
		}
		if flSqueeze(p.src(is.Cond)) == x+" > "+m && flSqueeze(p.src(is.Body.List[0])) == x+" = "+m {
			return true
		}
	}
	return false
}

func flAllStmts(n ast.Node) []ast.Stmt {
	var out []ast.Stmt
	ast.Inspect(n, func(x ast.Node) bool {
		if s, ok := x.(ast.Stmt); ok {
			out = append(out, s)
		}
		return true
	})
	return out
}

func emitFlights(e *emitter, p *pkg) {
	if p.name != "dtlcp" {
		return
	}
	e.comment("C19: retransmission timer, cookie loop, flights (harness/cmd/extract/facts_flights.go)")

	// ---- RetransmitTimer
	bo := body(p, "RetransmitTimer.backoff")
	mul, ok := flMulAssign(p, bo, "t.current")
	e.nat("flBackoffMul", mul, ok)
	e.boolean("flBackoffCapsAtMax", flCapStmt(p, bo, "t.current", "t.max"))
	e.boolean("flBackoffRestarts", len(bo) > 0 && flSqueeze(p.src(bo[len(bo)-1])) == "t.start()")
	rs := body(p, "RetransmitTimer.reset")
	e.boolean("flResetToInitial", len(rs) == 2 && flSqueeze(p.src(rs[0])) == "t.current = t.initial" && flSqueeze(p.src(rs[1])) == "t.start()")
	stt := body(p, "RetransmitTimer.start")
	e.boolean("flStartUsesCurrent", len(stt) == 1 && flSqueeze(p.src(stt[0])) == "t.handle = t.newTimer(t.current)")

	// ---- readNextClientHello
	var helloStmts []ast.Stmt
	if fd := p.funcs["Conn.readNextClientHello"]; fd != nil {
		helloStmts = flAllStmts(fd.Body)
	}
	hm, hok := flMulAssign(p, helloStmts, "timeout")
	e.nat("flHelloWaitMul", hm, hok)
	e.boolean("flHelloWaitCapsAtMax", flCapStmt(p, helloStmts, "timeout", "maxTO"))
	resend := false
	if fd := p.funcs["Conn.readNextClientHello"]; fd != nil {
		src := p.src(fd.Body)
		resend = strings.Contains(src, "WriteTo(") || strings.Contains(src, "writeHandshakeRecord(") || strings.Contains(src, "flush(")
	}
	e.boolean("flHelloWaitResendsHVR", resend)

	// ---- client cookie loop
	cookieBreak, dupBreak, newSeq := false, false, false
	if fd := p.funcs["Conn.clientHandshake"]; fd != nil {
		// the outer send loop: the first top-level `for { … }` without condition
		var outer *ast.ForStmt
		for _, st := range fd.Body.List {
			if f, ok := st.(*ast.ForStmt); ok && f.Cond == nil {
				outer = f
				break
			}
		}
		if outer != nil {
			for i, st := range outer.Body.List {
				if flSqueeze(p.src(st)) == "hello.setMessageSeq(c.messageSeq)" && i+1 < len(outer.Body.List) &&
					flSqueeze(p.src(outer.Body.List[i+1])) == "c.messageSeq++" {
					newSeq = true
				}
			}
			// the read loop: a (possibly labelled) `for` directly inside the outer loop
			var inner *ast.ForStmt
			label := ""
			for _, st := range outer.Body.List {
				if ls, ok := st.(*ast.LabeledStmt); ok {
					if f, ok := ls.Stmt.(*ast.ForStmt); ok {
						inner, label = f, ls.Label.Name
					}
				} else if f, ok := st.(*ast.ForStmt); ok {
					inner = f
				}
			}
			if inner != nil {
				ast.Inspect(inner, func(n ast.Node) bool {
					cc, ok := n.(*ast.CaseClause)
					if !ok || len(cc.List) != 1 || flSqueeze(p.src(cc.List[0])) != "*helloVerifyRequestMsg" {
						return true
					}
					leaves := func(st ast.Stmt) bool {
						b, ok := st.(*ast.BranchStmt)
						return ok && b.Tok == token.BREAK && b.Label != nil && label != "" && b.Label.Name == label
					}
					for _, st := range cc.Body {
						if is, ok := st.(*ast.IfStmt); ok && flSqueeze(p.src(is.Cond)) == "len(hello.cookie) > 0" && len(is.Body.List) > 0 {
							dupBreak = leaves(is.Body.List[len(is.Body.List)-1])
						}
					}
					if len(cc.Body) > 0 {
						cookieBreak = leaves(cc.Body[len(cc.Body)-1])
					}
					return false
				})
			}
		}
	}
	e.boolean("flCookieBreakLeavesLoop", cookieBreak)
	e.boolean("flDupHvrBreakLeavesLoop", dupBreak)
	e.boolean("flHelloNewSeqPerSend", newSeq)

	// ---- flight 5 of the client
	flushes, found := int64(0), false
	if fd := p.funcs["clientHandshakeState.handshake"]; fd != nil {
		ast.Inspect(fd.Body, func(n ast.Node) bool {
			blk, ok := n.(*ast.BlockStmt)
			if !ok || found {
				return !found
			}
			start := -1
			for i, st := range blk.List {
				s := flSqueeze(p.src(st))
				if strings.Contains(s, "hs.doFullHandshake()") {
					start = i
				}
				if start >= 0 && i > start && strings.Contains(s, "c.flush()") && !strings.HasPrefix(s, "hs.flightData") {
					flushes++
				}
				if start >= 0 && strings.HasPrefix(s, "hs.flightData = append(") && strings.Contains(s, "c.sendBuf") {
					found = true
					return false
				}
			}
			if !found {
				flushes = 0
			}
			return true
		})
	}
	e.nat("flClientFlight5Flushes", flushes, found)

	// ---- completion marker
	doneAfter := func(key string) bool {
		fd := p.funcs[key]
		if fd == nil {
			return false
		}
		seenBoth := false
		for _, st := range fd.Body.List {
			if is, ok := st.(*ast.IfStmt); ok && is.Else != nil {
				if strings.Contains(p.src(is.Body), "hs.readFinished(") && strings.Contains(p.src(is.Else), "hs.readFinished(") {
					seenBoth = true
				}
			}
			if flSqueeze(p.src(st)) == "c.hsState.Store(int32(stateFinished))" {
				return seenBoth
			}
		}
		return false
	}
	e.boolean("flClientDoneAfterReadFinished", doneAfter("clientHandshakeState.handshake"))
	e.boolean("flServerDoneAfterReadFinished", doneAfter("serverHandshakeState.handshake"))
	hc := body(p, "Conn.handshakeComplete")
	e.boolean("flHandshakeCompleteIsStateFinished", len(hc) == 1 && flSqueeze(p.src(hc[0])) == "return c.hsState.Load() == int32(stateFinished)")
	stores := int64(0)
	for _, fd := range p.funcs {
		if fd.Body == nil {
			continue
		}
		stores += int64(strings.Count(flSqueeze(p.src(fd.Body)), "hsState.Store(int32(stateFinished))"))
	}
	e.nat("flStateFinishedStores", stores, true)

	// ---- readRecordOrCCS
	appComplete, appCipher, readBufOnly, decFirst, decDrop, firstRec, deferred := false, false, false, false, false, false, false
	if fd := p.funcs["Conn.readRecordOrCCS"]; fd != nil {
		src := p.src(fd.Body)
		di := strings.Index(src, "c.in.decrypt(")
		ei := regexp.MustCompile(`epoch\s*<\s*c\.readEpoch`).FindStringIndex(src)
		decFirst = di >= 0 && ei != nil && di < ei[0]
		assignsOutside, assignsInside := 0, 0
		ast.Inspect(fd.Body, func(n ast.Node) bool {
			switch x := n.(type) {
			case *ast.CaseClause:
				if len(x.List) == 1 && flSqueeze(p.src(x.List[0])) == "recordTypeApplicationData" {
					if len(x.Body) > 0 {
						if is, ok := x.Body[0].(*ast.IfStmt); ok {
							c := flSqueeze(p.src(is.Cond))
							appComplete = c == "!handshakeComplete || expectChangeCipherSpec" && flEndsInReturn(is.Body)
						}
					}
					for _, st := range flAllStmts(&ast.BlockStmt{List: x.Body}) {
						if flSqueeze(p.src(st)) == "c.readBuf = data" {
							assignsInside++
						}
					}
				}
			case *ast.IfStmt:
				c := flSqueeze(p.src(x.Cond))
				if c == "c.in.cipher == nil && typ == recordTypeApplicationData" && flEndsInReturn(x.Body) {
					appCipher = true
				}
				if c == "!expectChangeCipherSpec && c.handBuf.Len() > 0" && len(x.Body.List) == 2 &&
					flSqueeze(p.src(x.Body.List[0])) == "c.in.deferredCCS = true" && flSqueeze(p.src(x.Body.List[1])) == "return nil" {
					deferred = true
				}
				if c == "err != nil" && len(x.Body.List) > 0 && strings.Contains(p.src(x.Body), "sendAlert(err.(alert))") {
					if is, ok := x.Body.List[0].(*ast.IfStmt); ok && flSqueeze(p.src(is.Cond)) == "handshakeComplete" && flEndsInContinue(is.Body) {
						decDrop = true
					}
				}
			case *ast.AssignStmt:
				if flSqueeze(p.src(x)) == "c.readBuf = data" {
					assignsOutside++
				}
			}
			return true
		})
		readBufOnly = assignsInside == 1 && assignsOutside == 1 // the walk sees the same statement once in each pass
		s := flSqueeze(src)
		firstRec = strings.Contains(s, "firstRecord := c.handBuf.Len() == 0") &&
			strings.Contains(s, "(firstRecord && typ != recordTypeAlert && typ != recordTypeHandshake)")
	}
	e.boolean("flAppDataNeedsComplete", appComplete)
	e.boolean("flAppDataNeedsCipher", appCipher)
	e.boolean("flReadBufOnlyInAppCase", readBufOnly)
	e.boolean("flDecryptBeforeEpochCheck", decFirst)
	e.boolean("flDecryptFailDropsAfterHandshake", decDrop)
	e.boolean("flFirstRecordCheckNeedsEmptyHand", firstRec)
	e.boolean("flCCSDeferredWhenHandPending", deferred)

	// ---- server resumption branch
	arms := false
	if fd := p.funcs["serverHandshakeState.handshake"]; fd != nil {
		for _, st := range fd.Body.List {
			if is, ok := st.(*ast.IfStmt); ok && strings.Contains(p.src(is.Cond), "checkForResumption") {
				arms = strings.Contains(p.src(is.Body), "retransmitTimer.reset()")
			}
		}
	}
	e.boolean("flServerResumeArmsTimer", arms)
	_ = strconv.Itoa
}

package main

// Control skeletons of the handshake functions (C08; reused by C02, C03, C07).
//
// Starting from Conn.clientHandshake and Conn.serverHandshake the extractor follows every call
// to a function that (transitively) reads from the record layer and emits, per function, the
// ordered list of *flow ops* `(guard, op, arg, extra)`:
//
//	read    ""|transcript     msg, err := c.readHandshake(T)
//	readvia f                 msg, err := c.f(..)            (f is itself a reader with a skeleton)
//	must    T  extra          x, ok := msg.(*T); if !ok [|| extra] { alert; return }
//	                          if _, ok := msg.(*T); !ok { alert; return }
//	opt     T                 x, ok := msg.(*T); if ok { … ; msg, err = c.readHandshake() }
//	                          (the body's ops follow with guard "opt:T"; its last op must be a read)
//	skip    T                 if _, ok := msg.(*T); ok { …; continue }        (DTLCP)
//	switch/case/default       switch m := msg.(type) { case *T: … }           (DTLCP cookie loop)
//	ccs                       c.readChangeCipherSpec()
//	call    recv.f  [key]     any other call on hs / c / keyAgreement (establishKeys, sendFinished, …);
//	                          extra = the callee's key in this table when the callee reads messages
//	write   x / transcript x  c.writeHandshakeRecord(x, …) / transcriptMsg(x, …)
//	complete what             atomic.StoreUint32(&c.handshakeStatus, 1) / c.hsState.Store(int32(stateFinished))
//	loop begin|end, break L, continue L, return ok|err
//
// `guard` is the conjunction (" && ") of the enclosing if-conditions ("!(c)" for else
// branches), "opt:T" inside an optional block and "case:T" inside a type-switch clause.
// Any statement that touches the message variable or the record layer in a shape not listed
// above makes the whole function's skeleton EMPTY and puts its name into Facts.missing —
// nothing is guessed.
//
// Also emitted: the decision table of readRecordOrCCS (`switch typ`), as rows
// (record type, condition, action) in source order, the retry-counter conditions, and whether
// the SM2-ECDHE client key exchange refuses to run without a ServerKeyExchange.

import (
	"go/ast"
	"go/token"
	"sort"
	"strconv"
	"strings"
)

func init() {
	extraFactFns = append(extraFactFns, emitFlow)
	for _, st := range []string{"tlcp", "dtlcp"} {
		extraHashed[st] = append(extraHashed[st],
			"Conn.clientHandshake", "clientHandshakeState.handshake", "clientHandshakeState.doFullHandshake",
			"clientHandshakeState.readFinished", "clientHandshakeState.processServerHello",
			"Conn.serverHandshake", "Conn.readClientHello", "serverHandshakeState.handshake",
			"serverHandshakeState.doFullHandshake", "serverHandshakeState.doResumeHandshake",
			"serverHandshakeState.readFinished", "Conn.readRecordOrCCS", "Conn.retryReadRecord", "Conn.readHandshake")
	}
	extraHashed["dtlcp"] = append(extraHashed["dtlcp"], "Conn.readNextClientHello", "Conn.readNextFlightMsg", "Conn.readChangeCipherSpec")
}

type flowOp struct{ guard, op, arg, extra string }

const flowMsgVar = "msg"

var flowRecordPrims = map[string]bool{"readHandshake": true, "readRecord": true, "readRecordOrCCS": true,
	"readChangeCipherSpec": true, "readDatagram": true, "retryReadRecord": true}

// readers: functions (keys of p.funcs) that read from the record layer, transitively.
func flowReaders(p *pkg) map[string]bool {
	direct := map[string]bool{}
	calls := map[string][]string{} // func key -> called method names
	for key, fd := range p.funcs {
		if fd.Body == nil {
			continue
		}
		ast.Inspect(fd.Body, func(n ast.Node) bool {
			if ce, ok := n.(*ast.CallExpr); ok {
				if se, ok := ce.Fun.(*ast.SelectorExpr); ok {
					if flowRecordPrims[se.Sel.Name] {
						direct[key] = true
					}
					calls[key] = append(calls[key], se.Sel.Name)
				}
			}
			return true
		})
	}
	byName := map[string][]string{}
	for key := range p.funcs {
		n := key
		if i := strings.LastIndex(key, "."); i >= 0 {
			n = key[i+1:]
		}
		byName[n] = append(byName[n], key)
	}
	readers := map[string]bool{}
	for k := range direct {
		readers[k] = true
	}
	for changed := true; changed; {
		changed = false
		for key := range p.funcs {
			if readers[key] {
				continue
			}
			for _, m := range calls[key] {
				for _, callee := range byName[m] {
					if readers[callee] {
						readers[key] = true
						changed = true
					}
				}
			}
		}
	}
	return readers
}

type flowWalker struct {
	p   *pkg
	ops []flowOp
	bad string
}

func (w *flowWalker) fail(why string) {
	if w.bad == "" {
		w.bad = why
	}
}
func (w *flowWalker) emit(g, op, arg, extra string) { w.ops = append(w.ops, flowOp{g, op, arg, extra}) }

// guards are kept as a string of atoms `kind\x01text` separated by \x00 and split on emission
func flowAnd(g, kind, text string) string {
	a := kind + "\x01" + text
	if g == "" {
		return a
	}
	return g + "\x00" + a
}

func flowGuardAtoms(g string) [][2]string {
	var out [][2]string
	if g == "" {
		return out
	}
	for _, a := range strings.Split(g, "\x00") {
		kv := strings.SplitN(a, "\x01", 2)
		out = append(out, [2]string{kv[0], kv[1]})
	}
	return out
}

func flowMentionsMsg(n ast.Node) bool {
	found := false
	ast.Inspect(n, func(x ast.Node) bool {
		if id, ok := x.(*ast.Ident); ok && id.Name == flowMsgVar {
			found = true
		}
		return !found
	})
	return found
}

// flowTouchesRL: a call to a record-layer primitive anywhere inside n
func flowTouchesRL(n ast.Node) bool {
	found := false
	ast.Inspect(n, func(x ast.Node) bool {
		if ce, ok := x.(*ast.CallExpr); ok {
			if se, ok := ce.Fun.(*ast.SelectorExpr); ok && flowRecordPrims[se.Sel.Name] {
				found = true
			}
		}
		return !found
	})
	return found
}

// flowTypeAssert matches `msg.(*T)` and returns T
func flowTypeAssert(e ast.Expr) (string, bool) {
	ta, ok := e.(*ast.TypeAssertExpr)
	if !ok || ta.Type == nil {
		return "", false
	}
	if id, ok := ta.X.(*ast.Ident); !ok || id.Name != flowMsgVar {
		return "", false
	}
	st, ok := ta.Type.(*ast.StarExpr)
	if !ok {
		return "", false
	}
	id, ok := st.X.(*ast.Ident)
	if !ok {
		return "", false
	}
	return id.Name, true
}

func flowEndsInReturn(b *ast.BlockStmt) bool {
	if b == nil || len(b.List) == 0 {
		return false
	}
	_, ok := b.List[len(b.List)-1].(*ast.ReturnStmt)
	return ok
}

func flowEndsInContinue(b *ast.BlockStmt) bool {
	if b == nil || len(b.List) == 0 {
		return false
	}
	bs, ok := b.List[len(b.List)-1].(*ast.BranchStmt)
	return ok && bs.Tok == token.CONTINUE
}

var flowReceivers = map[string]bool{"hs": true, "c": true, "keyAgreement": true}
var flowDenied = map[string]bool{"sendAlert": true, "sendAlertLocked": true, "Lock": true, "Unlock": true}

// callsIn emits the ops of the interesting calls inside the expression/simple statement n, in
// source order (function literals are not entered).
func (w *flowWalker) callsIn(n ast.Node, g string) {
	if n == nil {
		return
	}
	ast.Inspect(n, func(x ast.Node) bool {
		switch t := x.(type) {
		case *ast.FuncLit:
			return false
		case *ast.BlockStmt:
			return false
		case *ast.CallExpr:
			// arguments first (source order of evaluation), then the call itself
			for _, a := range t.Args {
				w.callsIn(a, g)
			}
			src := w.p.src(t.Fun)
			switch fn := t.Fun.(type) {
			case *ast.SelectorExpr:
				if x, ok := fn.X.(*ast.Ident); ok && flowReceivers[x.Name] && !flowDenied[fn.Sel.Name] {
					switch fn.Sel.Name {
					case "readHandshake":
						w.fail("readHandshake outside the `msg, err := c.readHandshake(..)` shape")
					case "readChangeCipherSpec":
						w.emit(g, "ccs", "", "")
					case "readRecord", "readRecordOrCCS", "readDatagram", "retryReadRecord":
						w.fail("direct record-layer call " + fn.Sel.Name)
					case "writeHandshakeRecord":
						arg := ""
						if len(t.Args) > 0 {
							arg = w.p.src(t.Args[0])
						}
						w.emit(g, "write", arg, "")
					default:
						w.emit(g, "call", src, "")
					}
				} else if src == "atomic.StoreUint32" && len(t.Args) == 2 && w.p.src(t.Args[0]) == "&c.handshakeStatus" {
					w.emit(g, "complete", "handshakeStatus="+w.p.src(t.Args[1]), "")
				} else if src == "c.hsState.Store" && len(t.Args) == 1 && w.p.src(t.Args[0]) == "int32(stateFinished)" {
					w.emit(g, "complete", "stateFinished", "")
				}
			case *ast.Ident:
				if fn.Name == "transcriptMsg" && len(t.Args) > 0 {
					w.emit(g, "transcript", w.p.src(t.Args[0]), "")
				}
			}
			return false
		}
		return true
	})
}

func flowIsErrCond(s string) bool {
	return s == "err != nil" || s == "readErr != nil" || s == "writeErr != nil"
}

func (w *flowWalker) stmts(list []ast.Stmt, g string) {
	for i := 0; i < len(list) && w.bad == ""; i++ {
		st := list[i]
		label := ""
		if ls, ok := st.(*ast.LabeledStmt); ok {
			label = ls.Label.Name
			st = ls.Stmt
		}
		switch s := st.(type) {
		case *ast.AssignStmt:
			if len(s.Rhs) == 1 {
				// msg, err := c.readHandshake(T) / c.<reader>(..)
				if ce, ok := s.Rhs[0].(*ast.CallExpr); ok {
					if se, ok := ce.Fun.(*ast.SelectorExpr); ok {
						if x, ok := se.X.(*ast.Ident); ok && x.Name == "c" && len(s.Lhs) == 2 {
							if lhs, ok := s.Lhs[0].(*ast.Ident); ok && lhs.Name == flowMsgVar {
								if se.Sel.Name == "readHandshake" {
									arg := ""
									if len(ce.Args) == 1 && w.p.src(ce.Args[0]) != "nil" {
										arg = w.p.src(ce.Args[0])
									}
									w.emit(g, "read", arg, "")
								} else {
									w.emit(g, "readvia", se.Sel.Name, "")
								}
								continue
							}
						}
					}
				}
				// x, ok := msg.(*T) followed by the mandatory / optional if
				if T, ok := flowTypeAssert(s.Rhs[0]); ok {
					if len(s.Lhs) != 2 || w.p.src(s.Lhs[1]) != "ok" || i+1 >= len(list) {
						w.fail("type assertion on msg without the ok-if that follows")
						return
					}
					is, isIf := list[i+1].(*ast.IfStmt)
					if !isIf || is.Init != nil || is.Else != nil {
						w.fail("type assertion on msg not followed by a plain if")
						return
					}
					cond := w.p.src(is.Cond)
					switch {
					case cond == "ok":
						w.emit(g, "opt", T, "")
						n0 := len(w.ops)
						w.stmts(is.Body.List, flowAnd(g, "opt", T))
						if len(w.ops) == n0 || w.ops[len(w.ops)-1].op != "read" || w.ops[len(w.ops)-1].guard != flowAnd(g, "opt", T) {
							w.fail("optional block of " + T + " does not end by reading the next message")
						}
					case cond == "!ok" && flowEndsInReturn(is.Body):
						w.emit(g, "must", T, "")
					case strings.HasPrefix(cond, "!ok || ") && flowEndsInReturn(is.Body):
						w.emit(g, "must", T, strings.TrimPrefix(cond, "!ok || "))
					default:
						w.fail("unknown assertion shape `" + cond + "` for " + T)
					}
					i++
					continue
				}
			}
			if flowMentionsMsg(s) {
				// e.g. `return msg.(*T)`-style uses are handled at ReturnStmt; plain copies are unknown
				for _, r := range s.Rhs {
					if flowMentionsMsg(r) {
						w.fail("message variable used in an unknown assignment: " + w.p.src(s))
						return
					}
				}
			}
			for _, r := range s.Rhs {
				w.callsIn(r, g)
			}
			if s.Tok == token.ASSIGN && len(s.Lhs) == 1 {
				if l := w.p.src(s.Lhs[0]); l == "serverHello" || l == "hello.cookie" {
					w.emit(g, "set", l, "")
				}
			}
		case *ast.IfStmt:
			w.ifStmt(s, g)
		case *ast.ExprStmt:
			w.callsIn(s.X, g)
		case *ast.ReturnStmt:
			for _, r := range s.Results {
				w.callsIn(r, g)
			}
			kind := "ok"
			if n := len(s.Results); n > 0 {
				last := w.p.src(s.Results[n-1])
				if last != "nil" && !strings.HasPrefix(last, "hs.") && !strings.HasPrefix(last, "c.") {
					kind = "err"
				}
				if strings.HasPrefix(last, "hs.") || strings.HasPrefix(last, "c.") {
					kind = "tail"
				}
			}
			w.emit(g, "return", kind, "")
		case *ast.ForStmt:
			if s.Init != nil || s.Post != nil {
				if flowTouchesRL(s) || flowMentionsMsg(s) {
					w.fail("counted loop around message reads")
				}
				continue
			}
			c := ""
			if s.Cond != nil {
				c = w.p.src(s.Cond)
			}
			n0 := len(w.ops)
			w.emit(g, "loop", "begin", label)
			w.stmts(s.Body.List, flowAnd(g, "loop", c))
			if len(w.ops) == n0+1 {
				w.ops = w.ops[:n0] // nothing of interest inside
			} else {
				w.emit(g, "loop", "end", label)
			}
		case *ast.RangeStmt:
			if flowTouchesRL(s) || flowMentionsMsg(s) {
				w.fail("range loop around message reads")
			}
		case *ast.BranchStmt:
			l := ""
			if s.Label != nil {
				l = s.Label.Name
			}
			switch s.Tok {
			case token.BREAK:
				w.emit(g, "break", l, "")
			case token.CONTINUE:
				w.emit(g, "continue", l, "")
			default:
				w.fail("goto/fallthrough")
			}
		case *ast.TypeSwitchStmt:
			as, ok := s.Assign.(*ast.AssignStmt)
			var x ast.Expr
			if ok && len(as.Rhs) == 1 {
				x = as.Rhs[0]
			} else if es, ok2 := s.Assign.(*ast.ExprStmt); ok2 {
				x = es.X
			}
			ta, ok := x.(*ast.TypeAssertExpr)
			if !ok || ta.Type != nil || w.p.src(ta.X) != flowMsgVar {
				if flowMentionsMsg(s) || flowTouchesRL(s) {
					w.fail("type switch of unknown shape")
				}
				continue
			}
			w.emit(g, "switch", "begin", "")
			for _, cl := range s.Body.List {
				cc := cl.(*ast.CaseClause)
				if cc.List == nil {
					w.emit(g, "default", "", "")
					w.stmts(cc.Body, flowAnd(g, "case", "default"))
					continue
				}
				var names []string
				for _, t := range cc.List {
					names = append(names, strings.TrimPrefix(w.p.src(t), "*"))
				}
				T := strings.Join(names, "|")
				w.emit(g, "case", T, "")
				w.stmts(cc.Body, flowAnd(g, "case", T))
			}
			w.emit(g, "switch", "end", "")
		case *ast.SwitchStmt:
			if !flowMentionsMsg(s) && !flowTouchesRL(s) {
				// still walk for calls (none of the handshake functions has one today)
				for _, cl := range s.Body.List {
					cc := cl.(*ast.CaseClause)
					c := "default"
					if cc.List != nil {
						c = w.p.src(cc.List[0])
					}
					tag := ""
					if s.Tag != nil {
						tag = w.p.src(s.Tag)
					}
					w.stmts(cc.Body, flowAnd(g, "switch", tag+"="+c))
				}
				continue
			}
			w.fail("value switch around message reads")
		case *ast.SelectStmt:
			for _, cl := range s.Body.List {
				cc := cl.(*ast.CommClause)
				c := "default"
				if cc.Comm != nil {
					c = w.p.src(cc.Comm)
				}
				w.stmts(cc.Body, flowAnd(g, "select", c))
			}
		case *ast.BlockStmt:
			w.stmts(s.List, g)
		case *ast.DeferStmt, *ast.GoStmt:
			if flowTouchesRL(s) {
				w.fail("record layer used in defer/go")
			}
		case *ast.DeclStmt, *ast.IncDecStmt, *ast.EmptyStmt:
		default:
			if flowMentionsMsg(st) || flowTouchesRL(st) {
				w.fail("unknown statement kind around message reads")
			}
		}
	}
}

func (w *flowWalker) ifStmt(s *ast.IfStmt, g string) {
	cond := w.p.src(s.Cond)
	// if _, ok := msg.(*T); !ok { alert; return }   /   ; ok { …; continue }
	if as, ok := s.Init.(*ast.AssignStmt); ok && len(as.Rhs) == 1 {
		if T, ok := flowTypeAssert(as.Rhs[0]); ok {
			switch {
			case cond == "!ok" && flowEndsInReturn(s.Body) && s.Else == nil:
				w.emit(g, "must", T, "")
			case cond == "ok" && flowEndsInContinue(s.Body) && s.Else == nil:
				w.emit(g, "skip", T, "")
				w.stmts(s.Body.List, flowAnd(g, "skip", T))
			default:
				w.fail("unknown inline assertion shape for " + T)
			}
			return
		}
	}
	if s.Init != nil {
		if flowMentionsMsg(s.Init) {
			w.fail("message variable used in an if-initialiser")
			return
		}
		w.callsIn(s.Init, g)
	}
	if flowIsErrCond(cond) {
		// error plumbing: may retransmit / return, must not consume messages
		if flowTouchesRL(s.Body) || flowMentionsMsg(s.Body) {
			w.fail("message handling inside an error branch")
		}
		if s.Else != nil {
			w.elseBranch(s.Else, flowAnd(g, "else", cond))
		}
		return
	}
	if flowMentionsMsg(s.Cond) {
		w.fail("condition on the message variable: " + cond)
		return
	}
	w.callsIn(s.Cond, g)
	w.stmts(s.Body.List, flowAnd(g, "if", cond))
	if s.Else != nil {
		w.elseBranch(s.Else, flowAnd(g, "else", cond))
	}
}

func (w *flowWalker) elseBranch(e ast.Stmt, g string) {
	switch t := e.(type) {
	case *ast.BlockStmt:
		w.stmts(t.List, g)
	case *ast.IfStmt:
		w.ifStmt(t, g)
	}
}

// prune drops ops that carry no control information for the flow (calls that are not
// readers / markers keep their place: they are cheap and other properties use them).
func flowQ(s string) string { return strconv.Quote(s) }

func fopsLean(ops []flowOp) string {
	var ss []string
	for _, o := range ops {
		var gs []string
		for _, a := range flowGuardAtoms(o.guard) {
			gs = append(gs, "("+flowQ(a[0])+", "+flowQ(a[1])+")")
		}
		ss = append(ss, "(["+strings.Join(gs, ", ")+"], "+flowQ(o.op)+", "+flowQ(o.arg)+", "+flowQ(o.extra)+")")
	}
	return "[" + strings.Join(ss, ",\n      ") + "]"
}

func fopsJSON(ops []flowOp) [][]string {
	out := [][]string{}
	for _, o := range ops {
		gs := []string{}
		for _, a := range flowGuardAtoms(o.guard) {
			gs = append(gs, a[0]+":"+a[1])
		}
		out = append(out, []string{strings.Join(gs, " && "), o.op, o.arg, o.extra})
	}
	return out
}

// resolve maps a call `recv.name` inside a function of the given side to a key of p.funcs
func resolveFlowCall(p *pkg, side, call string) (string, bool) {
	i := strings.Index(call, ".")
	if i < 0 {
		return "", false
	}
	recv, name := call[:i], call[i+1:]
	var key string
	switch recv {
	case "c":
		key = "Conn." + name
	case "hs":
		key = side + "HandshakeState." + name
	default:
		return "", false
	}
	_, ok := p.funcs[key]
	return key, ok
}

func emitFlow(e *emitter, p *pkg) {
	if p.name != "tlcp" && p.name != "dtlcp" {
		return
	}
	e.comment("control skeletons of the handshake functions (harness/cmd/extract/facts_flow.go)")
	readers := flowReaders(p)
	type entry struct {
		name string
		ops  []flowOp
	}
	var table []entry
	js := map[string]any{}
	for _, side := range []string{"client", "server"} {
		root := "Conn." + side + "Handshake"
		seen := map[string]bool{}
		queue := []string{root}
		for len(queue) > 0 {
			key := queue[0]
			queue = queue[1:]
			if seen[key] {
				continue
			}
			seen[key] = true
			name := side + ":" + key
			fd := p.funcs[key]
			if fd == nil || fd.Body == nil {
				table = append(table, entry{name, nil})
				e.missing = append(e.missing, e.key("flow:"+name))
				continue
			}
			w := &flowWalker{p: p}
			w.stmts(fd.Body.List, "")
			if w.bad != "" {
				e.comment("flow " + name + " does not match the known shapes: " + w.bad)
				table = append(table, entry{name, nil})
				e.missing = append(e.missing, e.key("flow:"+name))
				continue
			}
			for i, o := range w.ops {
				var callee string
				switch o.op {
				case "call":
					callee = o.arg
				case "readvia":
					callee = "c." + o.arg
				default:
					continue
				}
				if k, ok := resolveFlowCall(p, side, callee); ok && readers[k] && !flowRecordPrims[k[strings.LastIndex(k, ".")+1:]] {
					queue = append(queue, k)
					w.ops[i].extra = side + ":" + k // the callee has a skeleton of its own
				}
			}
			table = append(table, entry{name, w.ops})
		}
	}
	var rows []string
	for _, t := range table {
		rows = append(rows, "("+flowQ(t.name)+",\n     "+fopsLean(t.ops)+")")
		js[t.name] = fopsJSON(t.ops)
	}
	e.raw("flows", "List (String × List (List (String × String) × String × String × String))", "[\n    "+strings.Join(rows, ",\n    ")+"]", js)

	emitFlowRecordTable(e, p)

	// SM2-ECDHE client: generateClientKeyExchange starts with `if ka.peerTmpKey == nil { return …, errServerKeyExchange }`
	needs := false
	if b := body(p, "sm2ECDHEKeyAgreement.generateClientKeyExchange"); len(b) > 0 {
		if is, ok := b[0].(*ast.IfStmt); ok && is.Init == nil && p.src(is.Cond) == "ka.peerTmpKey == nil" && flowEndsInReturn(is.Body) {
			needs = true
		}
	}
	e.boolean("ecdheClientCkxNeedsSkx", needs)
	// the client resumes only when the server echoes the offered session id
	echo := false
	if b := body(p, "clientHandshakeState.serverResumedSession"); len(b) == 1 {
		if rs, ok := b[0].(*ast.ReturnStmt); ok && len(rs.Results) == 1 {
			src := p.src(rs.Results[0])
			echo = strings.Contains(src, "hs.session != nil") && strings.Contains(src, "bytes.Equal(hs.serverHello.sessionId, hs.hello.sessionId)") &&
				!strings.Contains(src, "||")
		}
	}
	guarded := false
	for _, st := range body(p, "clientHandshakeState.processServerHello") {
		if is, ok := st.(*ast.IfStmt); ok && p.src(is.Cond) == "!hs.serverResumedSession()" && flowEndsInReturn(is.Body) {
			if rs := is.Body.List[len(is.Body.List)-1].(*ast.ReturnStmt); len(rs.Results) == 2 && p.src(rs.Results[0]) == "false" {
				guarded = true
			}
		}
	}
	e.boolean("clientResumesOnlyOnEcho", echo && guarded)
}

// ---------------------------------------------------------------------------- readRecordOrCCS

func flowClassifyAction(p *pkg, stmts []ast.Stmt) string {
	var b strings.Builder
	for _, s := range stmts {
		b.WriteString(p.src(s))
		b.WriteString(" ; ")
	}
	src := b.String()
	switch {
	case strings.Contains(src, "c.retryReadRecord("):
		return "retry"
	case strings.Contains(src, "setErrorLocked(io.EOF)"):
		return "eof"
	case strings.Contains(src, "c.in.deferredCCS = true"):
		return "defer"
	case strings.Contains(src, "c.sendAlert("):
		i := strings.Index(src, "c.sendAlert(")
		rest := src[i+len("c.sendAlert("):]
		if j := strings.IndexAny(rest, ")"); j >= 0 {
			return "fail:" + rest[:j]
		}
		return "fail"
	case strings.Contains(src, "setErrorLocked(&net.OpError"):
		return "remote"
	case strings.Contains(src, "c.pconn.WriteTo(c.flightRetransmit"):
		return "retransmit"
	case strings.HasSuffix(strings.TrimSpace(src), "continue ;"):
		return "continue"
	}
	return "other"
}

func emitFlowRecordTable(e *emitter, p *pkg) {
	type row struct{ typ, cond, action string }
	var rows []row
	ok := false
	var sw *ast.SwitchStmt
	if fd := p.funcs["Conn.readRecordOrCCS"]; fd != nil && fd.Body != nil {
		ast.Inspect(fd.Body, func(n ast.Node) bool {
			if s, is := n.(*ast.SwitchStmt); is && s.Tag != nil && p.src(s.Tag) == "typ" && sw == nil {
				sw = s
			}
			return true
		})
	}
	if sw != nil {
		ok = true
		for _, cl := range sw.Body.List {
			cc := cl.(*ast.CaseClause)
			typ := "default"
			if cc.List != nil {
				typ = p.src(cc.List[0])
			}
			for _, st := range cc.Body {
				switch s := st.(type) {
				case *ast.IfStmt:
					cond := p.src(s.Cond)
					if s.Init != nil {
						init := p.src(s.Init)
						if strings.Contains(init, "c.in.changeCipherSpec()") {
							rows = append(rows, row{typ, "", "change"})
							continue
						}
						cond = init + "; " + cond
					}
					rows = append(rows, row{typ, cond, flowClassifyAction(p, s.Body.List)})
					if s.Else != nil {
						ok = false
					}
				case *ast.SwitchStmt:
					tag := ""
					if s.Tag != nil {
						tag = p.src(s.Tag)
					}
					for _, icl := range s.Body.List {
						icc := icl.(*ast.CaseClause)
						c := tag + " default"
						if icc.List != nil {
							c = tag + " == " + p.src(icc.List[0])
						}
						rows = append(rows, row{typ, c, flowClassifyAction(p, icc.Body)})
					}
				case *ast.ReturnStmt:
					a := flowClassifyAction(p, []ast.Stmt{s})
					if a == "other" && len(s.Results) == 1 && p.src(s.Results[0]) == "nil" {
						a = "return"
					}
					rows = append(rows, row{typ, "", a})
				case *ast.ExprStmt:
					src := p.src(s.X)
					switch {
					case src == "c.hand.Write(data)" || src == "c.handBuf.Write(data)":
						rows = append(rows, row{typ, "", "hand"})
					case src == "c.input.Reset(data)":
						rows = append(rows, row{typ, "", "input"})
					}
				case *ast.AssignStmt:
					src := p.src(s)
					switch {
					case src == "c.readBuf = data":
						rows = append(rows, row{typ, "", "input"})
					case src == "expectChangeCipherSpec = false":
						rows = append(rows, row{typ, "", "expect=false"})
					}
				}
			}
		}
	}
	if !ok {
		e.raw("recordTable", "List (String × String × String × String)", "[]", nil)
		e.missing = append(e.missing, e.key("recordTable"))
	} else {
		var ss []string
		var js [][]string
		for _, r := range rows {
			act, detail := r.action, ""
			if i := strings.Index(act, ":"); i >= 0 {
				act, detail = act[:i], act[i+1:]
			}
			ss = append(ss, "("+flowQ(r.typ)+", "+flowQ(r.cond)+", "+flowQ(act)+", "+flowQ(detail)+")")
			js = append(js, []string{r.typ, r.cond, act, detail})
		}
		e.comment("readRecordOrCCS, `switch typ`: (record type, condition, action, alert sent) in source order")
		e.raw("recordTable", "List (String × String × String × String)", "[\n    "+strings.Join(ss, ",\n    ")+"]", js)
	}
	// conditions checked before the switch, in source order, as (condition, action)
	var pre []string
	var preJS [][]string
	if fd := p.funcs["Conn.readRecordOrCCS"]; fd != nil && fd.Body != nil {
		ast.Inspect(fd.Body, func(n ast.Node) bool {
			if n == ast.Node(sw) && sw != nil {
				return false
			}
			if is, isIf := n.(*ast.IfStmt); isIf && is.Init == nil {
				c := p.src(is.Cond)
				if strings.Contains(c, "recordTypeApplicationData") || strings.Contains(c, "typ != recordTypeAlert") {
					a := flowClassifyAction(p, is.Body.List)
					if a == "other" && strings.Contains(p.src(is.Body), "c.retryCount = 0") {
						a = "resetRetry"
					}
					if i := strings.Index(a, ":"); i >= 0 {
						a = a[:i]
					}
					pre = append(pre, "("+flowQ(c)+", "+flowQ(a)+")")
					preJS = append(preJS, []string{c, a})
				}
			}
			return true
		})
	}
	sort.SliceStable(pre, func(i, j int) bool { return false })
	e.raw("recordPre", "List (String × String)", "["+strings.Join(pre, ", ")+"]", preJS)
	// retryReadRecord: `c.retryCount++` then `if c.retryCount > maxUselessRecords { … }`
	inc, lim := false, ""
	for i, st := range body(p, "Conn.retryReadRecord") {
		if ids, okk := st.(*ast.IncDecStmt); okk && i == 0 && ids.Tok == token.INC && p.src(ids.X) == "c.retryCount" {
			inc = true
		}
		if is, okk := st.(*ast.IfStmt); okk && i == 1 && flowEndsInReturn(is.Body) {
			lim = p.src(is.Cond)
		}
	}
	e.boolean("retryIncrementsFirst", inc)
	e.str("retryLimitCond", lim)
}

package main

// Facts for C05's tie by translation of halfConn.decrypt (lean/Gotlcp/Tie/RecordRxSrc.lean), both stacks.
// The translated `decrypt` models the Go function only in states where an AEAD cipher comes WITHOUT a MAC
// (hypothesis `WellFormed`; see the reviewed alias note above halfConn.decrypt in Generated/Src.lean).
// These facts pin why every state the handshake installs is of that kind:
//
//	rxSuiteShapes                  one row per entry of `cipherSuites`, sorted by id:
//	                               (id, cipher != nil, mac != nil, aead != nil)
//	rxEstablishKeysBranches        per establishKeys (client, server): (role, condition of the if, constructor
//	                               assignments of the block-cipher branch, of the AEAD branch, how the hash
//	                               variables handed to prepareCipherSpec are declared) — INFORMATIONAL
//	rxEstablishKeysMacNilWithAead  computed from the same statements, for both roles: establishKeys has exactly
//	                               one `if` on `hs.suite.cipher != nil` / `hs.suite.aead == nil` (or the
//	                               negations, branches swapped); the hash variables passed as third argument
//	                               of c.in/c.out.prepareCipherSpec are declared `var … hash.Hash` without a
//	                               value (nil) and are assigned ONLY in the block-cipher branch, from
//	                               `hs.suite.mac(…)`; the cipher variables (second argument) are assigned from
//	                               `hs.suite.cipher(…)` there and from `hs.suite.aead(…)` in the other branch
//	rxHalfConnCipherMacWriters     functions that assign a `.cipher`, `.mac`, `.nextCipher` or `.nextMac` field
//	rxPrepareCipherSpecStmts       statements of halfConn.prepareCipherSpec
//	rxChangeCipherSpecStmts        statements of halfConn.changeCipherSpec (cipher and mac are switched together)

import (
	"fmt"
	"go/ast"
	"go/token"
	"sort"
	"strconv"
	"strings"
)

func init() {
	extraFactFns = append(extraFactFns, emitRxWellFormed)
}

func emitRxWellFormed(e *emitter, p *pkg) {
	if p.name != "tlcp" && p.name != "dtlcp" {
		return
	}
	e.comment("cipher_suites.go, handshake_*.go, conn.go: an AEAD cipher is installed without a MAC (hypothesis WellFormed of Tie/RecordRxSrc.lean)")

	// --- the cipherSuites table
	type shape struct {
		ID                int64
		Cipher, Mac, Aead bool
	}
	var shapes []shape
	good := false
	if cl, ok := p.vars["cipherSuites"].(*ast.CompositeLit); ok {
		good = true
		for _, el := range cl.Elts {
			kvp, ok := el.(*ast.KeyValueExpr)
			if !ok {
				good = false
				break
			}
			v, ok := kvp.Value.(*ast.CompositeLit)
			if !ok || len(v.Elts) != 9 {
				good = false
				break
			}
			id, okID := p.evalInt(v.Elts[0], 0, 0)
			kid, okKey := p.evalInt(kvp.Key, 0, 0)
			good = good && okID && okKey && id == kid
			shapes = append(shapes, shape{id, p.src(v.Elts[6]) != "nil", p.src(v.Elts[7]) != "nil", p.src(v.Elts[8]) != "nil"})
		}
	}
	// the positions 6, 7, 8 must be the fields cipher, mac, aead of `type cipherSuite struct`
	if ts := p.types["cipherSuite"]; ts != nil {
		if st, ok := ts.Type.(*ast.StructType); ok {
			var names []string
			for _, f := range st.Fields.List {
				for _, n := range f.Names {
					names = append(names, n.Name)
				}
			}
			good = good && len(names) == 9 && names[6] == "cipher" && names[7] == "mac" && names[8] == "aead"
		} else {
			good = false
		}
	} else {
		good = false
	}
	sort.Slice(shapes, func(i, j int) bool { return shapes[i].ID < shapes[j].ID })
	if !good {
		shapes = nil
	}
	var ss []string
	for _, s := range shapes {
		ss = append(ss, fmt.Sprintf("(%d, %v, %v, %v)", s.ID, s.Cipher, s.Mac, s.Aead))
	}
	e.comment("(id, cipher != nil, mac != nil, aead != nil)")
	e.raw("rxSuiteShapes", "List (Nat × Bool × Bool × Bool)", "["+strings.Join(ss, ", ")+"]", shapes)

	// --- establishKeys, client and server
	allOK := true
	var rows []string
	var rowsJS [][]any
	for _, role := range []string{"client", "server"} {
		cond, cbc, aead, decl, ok := establishBranches(p, role+"HandshakeState.establishKeys")
		allOK = allOK && ok
		rows = append(rows, fmt.Sprintf("(%s, %s, %s, %s, %s)", strconv.Quote(role), strconv.Quote(cond), leanStrList(cbc), leanStrList(aead), leanStrList(decl)))
		rowsJS = append(rowsJS, []any{role, cond, cbc, aead, decl})
	}
	e.raw("rxEstablishKeysBranches", "List (String × String × List String × List String × List String)", "["+strings.Join(rows, ", ")+"]", rowsJS)
	e.boolean("rxEstablishKeysMacNilWithAead", allOK)

	// --- who writes the cipher / mac fields of a halfConn
	fields := map[string]bool{"cipher": true, "mac": true, "nextCipher": true, "nextMac": true}
	set := map[string]bool{}
	for k, fd := range p.funcs {
		if fd.Body == nil {
			continue
		}
		ast.Inspect(fd.Body, func(n ast.Node) bool {
			as, ok := n.(*ast.AssignStmt)
			if !ok {
				return true
			}
			for _, l := range as.Lhs {
				if se, ok := l.(*ast.SelectorExpr); ok && fields[se.Sel.Name] {
					set[k] = true
				}
			}
			return true
		})
	}
	var writers []string
	for k := range set {
		writers = append(writers, k)
	}
	sort.Strings(writers)
	e.strList("rxHalfConnCipherMacWriters", writers)
	stmts := func(fn string) []string {
		var out []string
		for _, st := range body(p, fn) {
			out = append(out, p.src(st))
		}
		return out
	}
	e.strList("rxPrepareCipherSpecStmts", stmts("halfConn.prepareCipherSpec"))
	e.strList("rxChangeCipherSpecStmts", stmts("halfConn.changeCipherSpec"))
}

func leanStrList(vs []string) string {
	qs := make([]string, len(vs))
	for i, v := range vs {
		qs[i] = strconv.Quote(v)
	}
	return "[" + strings.Join(qs, ", ") + "]"
}

// establishBranches analyses one establishKeys function; see the header comment for `ok`.
func establishBranches(p *pkg, key string) (cond string, cbc, aead, decl []string, ok bool) {
	fd := p.funcs[key]
	if fd == nil || fd.Body == nil {
		return "", nil, nil, nil, false
	}
	// arguments of c.in.prepareCipherSpec / c.out.prepareCipherSpec
	var cipherVars, hashVars []string
	calls := 0
	ast.Inspect(fd.Body, func(n ast.Node) bool {
		ce, isCall := n.(*ast.CallExpr)
		if !isCall {
			return true
		}
		f := p.src(ce.Fun)
		if (f == "c.in.prepareCipherSpec" || f == "c.out.prepareCipherSpec") && len(ce.Args) == 3 {
			calls++
			cipherVars = append(cipherVars, p.src(ce.Args[1]))
			hashVars = append(hashVars, p.src(ce.Args[2]))
		}
		return true
	})
	isHash := map[string]bool{}
	isCipher := map[string]bool{}
	for _, v := range hashVars {
		isHash[v] = true
	}
	for _, v := range cipherVars {
		isCipher[v] = true
	}
	ok = calls == 2 && len(isHash) == 2 && len(isCipher) == 2

	// declarations of the hash variables: `var a, b hash.Hash` without values
	declared := map[string]bool{}
	for _, st := range fd.Body.List {
		ds, isDecl := st.(*ast.DeclStmt)
		if !isDecl {
			continue
		}
		gd, isGen := ds.Decl.(*ast.GenDecl)
		if !isGen || gd.Tok != token.VAR {
			continue
		}
		for _, sp := range gd.Specs {
			vs := sp.(*ast.ValueSpec)
			mentions := false
			for _, n := range vs.Names {
				if isHash[n.Name] {
					mentions = true
				}
			}
			if !mentions {
				continue
			}
			decl = append(decl, p.src(ds))
			if len(vs.Values) == 0 && vs.Type != nil && p.src(vs.Type) == "hash.Hash" {
				for _, n := range vs.Names {
					declared[n.Name] = true
				}
			}
		}
	}
	for v := range isHash {
		ok = ok && declared[v]
	}

	// the one `if` on the suite's kind, at the top level of the body
	var theIf *ast.IfStmt
	nIf := 0
	for _, st := range fd.Body.List {
		is, isIf := st.(*ast.IfStmt)
		if !isIf {
			continue
		}
		c := p.src(is.Cond)
		if strings.HasPrefix(c, "hs.suite.cipher ") || strings.HasPrefix(c, "hs.suite.aead ") {
			theIf = is
			nIf++
		}
	}
	if theIf == nil || nIf != 1 || theIf.Init != nil {
		return "", nil, nil, decl, false
	}
	cond = p.src(theIf.Cond)
	elseBlock, hasElse := theIf.Else.(*ast.BlockStmt)
	if !hasElse {
		return cond, nil, nil, decl, false
	}
	var cbcBlock, aeadBlock *ast.BlockStmt
	switch cond {
	case "hs.suite.cipher != nil", "hs.suite.aead == nil":
		cbcBlock, aeadBlock = theIf.Body, elseBlock
	case "hs.suite.cipher == nil", "hs.suite.aead != nil":
		cbcBlock, aeadBlock = elseBlock, theIf.Body
	default:
		return cond, nil, nil, decl, false
	}
	// assignments `v = hs.suite.K(...)` of a block; anything else in the block makes it unrecognised
	assigns := func(b *ast.BlockStmt) (out []string, plain bool) {
		plain = true
		for _, st := range b.List {
			as, isAs := st.(*ast.AssignStmt)
			if !isAs || as.Tok != token.ASSIGN || len(as.Lhs) != 1 || len(as.Rhs) != 1 {
				plain = false
				continue
			}
			ce, isCall := as.Rhs[0].(*ast.CallExpr)
			if !isCall || !strings.HasPrefix(p.src(ce.Fun), "hs.suite.") {
				plain = false
				continue
			}
			out = append(out, p.src(as.Lhs[0])+"="+strings.TrimPrefix(p.src(ce.Fun), "hs.suite."))
		}
		return out, plain
	}
	var p1, p2 bool
	cbc, p1 = assigns(cbcBlock)
	aead, p2 = assigns(aeadBlock)
	ok = ok && p1 && p2
	// block-cipher branch: every cipher variable from `cipher`, every hash variable from `mac`
	wantCBC := map[string]string{}
	for v := range isCipher {
		wantCBC[v] = "cipher"
	}
	for v := range isHash {
		wantCBC[v] = "mac"
	}
	ok = ok && len(cbc) == len(wantCBC)
	for _, a := range cbc {
		kv := strings.SplitN(a, "=", 2)
		ok = ok && wantCBC[kv[0]] == kv[1]
	}
	// AEAD branch: the cipher variables from `aead`, no hash variable at all
	ok = ok && len(aead) == len(isCipher)
	for _, a := range aead {
		kv := strings.SplitN(a, "=", 2)
		ok = ok && isCipher[kv[0]] && kv[1] == "aead"
	}
	// no assignment to a hash variable anywhere outside the block-cipher branch
	ast.Inspect(fd.Body, func(n ast.Node) bool {
		if n == ast.Node(cbcBlock) {
			return false
		}
		if as, isAs := n.(*ast.AssignStmt); isAs {
			for _, l := range as.Lhs {
				if isHash[p.src(l)] {
					ok = false
				}
			}
		}
		if ue, isU := n.(*ast.UnaryExpr); isU && ue.Op == token.AND && isHash[p.src(ue.X)] {
			ok = false // &clientHash escapes
		}
		return true
	})
	return cond, cbc, aead, decl, ok
}

package main

// Facts of the ClientHello emission path used by C14 (both stacks), the text the Lean model
// Gotlcp.Model.Make transcribes:
//   - emitSNIStmts: the top-level statements of hostnameInSNI (bracket / zone stripping, the
//     net.ParseIP test, the trailing-dot loop, the return), normalised source text;
//   - emitALPNGuard: the statements of the `if len(config.NextProtos) > 0 { … }` block of
//     makeClientHello (the validation added by F29 and the assignment);
//   - emitSNIAssign: the expression makeClientHello stores into hello.serverName;
//   - emitTAHashLenChecked: N when the `if len(config.TrustedCAIndications) > 0 { … }` block refuses
//     (returns an error for) a key/cert SM3-hash entry whose Identifier length is not N before
//     copying the list (repair F60); 0 when there is no such check.
// The property theorem C14_make_facts pins them; when the source moves the theorem breaks and the
// driver's `emit` phase (configuration-level cases) shows whether the behaviour moved too.

import (
	"go/ast"
)

func init() {
	extraFactFns = append(extraFactFns, emitCodecEmit)
	for _, pk := range []string{"tlcp", "dtlcp"} {
		extraHashed[pk] = append(extraHashed[pk], "hostnameInSNI")
	}
}

func emitCodecEmit(e *emitter, p *pkg) {
	if p.name != "tlcp" && p.name != "dtlcp" {
		return
	}
	e.comment("handshake_client.go: ClientHello emission path (C14 Model.Make)")
	var sni []string
	for _, s := range body(p, "hostnameInSNI") {
		sni = append(sni, p.src(s))
	}
	if len(sni) == 0 {
		e.missing = append(e.missing, e.key("emitSNIStmts"))
	}
	e.strList("emitSNIStmts", sni)

	var guard []string
	assign := ""
	if fd := p.funcs["Conn.makeClientHello"]; fd != nil && fd.Body != nil {
		ast.Inspect(fd.Body, func(n ast.Node) bool {
			switch x := n.(type) {
			case *ast.IfStmt:
				if p.src(x.Cond) == "len(config.NextProtos) > 0" && x.Init == nil && guard == nil {
					for _, s := range x.Body.List {
						guard = append(guard, p.src(s))
					}
				}
			case *ast.KeyValueExpr:
				if id, ok := x.Key.(*ast.Ident); ok && id.Name == "serverName" && assign == "" {
					assign = p.src(x.Value)
				}
			case *ast.AssignStmt:
				if len(x.Lhs) == 1 && len(x.Rhs) == 1 && p.src(x.Lhs[0]) == "hello.serverName" {
					assign = p.src(x.Rhs[0])
				}
			}
			return true
		})
	}
	if len(guard) == 0 {
		e.missing = append(e.missing, e.key("emitALPNGuard"))
	}
	e.strList("emitALPNGuard", guard)
	if assign == "" {
		e.missing = append(e.missing, e.key("emitSNIAssign"))
	}
	e.str("emitSNIAssign", assign)
	e.nat("emitTAHashLenChecked", taHashLenChecked(p), true)
}

// taHashLenChecked recognises, inside `if len(config.TrustedCAIndications) > 0 { … }` of
// makeClientHello, `for _, ta := range config.TrustedCAIndications { if (ta.IdentifierType ==
// IdentifierTypeKeySM3Hash || ta.IdentifierType == IdentifierTypeCertSM3Hash) && len(ta.Identifier)
// != N { return nil, <error> } }` placed before the assignment, and returns N (0 = absent).
func taHashLenChecked(p *pkg) int64 {
	fd := p.funcs["Conn.makeClientHello"]
	if fd == nil || fd.Body == nil {
		return 0
	}
	var n int64
	ast.Inspect(fd.Body, func(x ast.Node) bool {
		is, ok := x.(*ast.IfStmt)
		if !ok || is.Init != nil || p.src(is.Cond) != "len(config.TrustedCAIndications) > 0" {
			return true
		}
		for _, st := range is.Body.List {
			if as, ok := st.(*ast.AssignStmt); ok && len(as.Lhs) == 1 && p.src(as.Lhs[0]) == "hello.trustedAuthorities" {
				break // a check after the copy does not count
			}
			rs, ok := st.(*ast.RangeStmt)
			if !ok || p.src(rs.X) != "config.TrustedCAIndications" || rs.Value == nil || p.src(rs.Value) != "ta" || len(rs.Body.List) != 1 {
				continue
			}
			chk, ok := rs.Body.List[0].(*ast.IfStmt)
			if !ok || chk.Init != nil || chk.Else != nil || len(chk.Body.List) != 1 {
				continue
			}
			and, ok := chk.Cond.(*ast.BinaryExpr)
			if !ok || and.Op.String() != "&&" {
				continue
			}
			types := p.src(and.X)
			if types != "(ta.IdentifierType == IdentifierTypeKeySM3Hash || ta.IdentifierType == IdentifierTypeCertSM3Hash)" &&
				types != "(ta.IdentifierType == IdentifierTypeCertSM3Hash || ta.IdentifierType == IdentifierTypeKeySM3Hash)" {
				continue
			}
			ne, ok := and.Y.(*ast.BinaryExpr)
			if !ok || ne.Op.String() != "!=" || p.src(ne.X) != "len(ta.Identifier)" {
				continue
			}
			v, ok := p.evalInt(ne.Y, 0, 0)
			ret, isRet := chk.Body.List[0].(*ast.ReturnStmt)
			if !ok || !isRet || len(ret.Results) != 2 || p.src(ret.Results[0]) != "nil" || p.src(ret.Results[1]) == "nil" {
				continue
			}
			n = v
		}
		return false
	})
	return n
}

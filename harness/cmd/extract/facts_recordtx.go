package main

// Facts of the TLCP record layer's stream side used by C06 (tlcp/conn.go):
//   - maxPayloadSizeForWrite: the early-return conditions, the base expression, what each
//     cipher case subtracts, the `pkt > N` guard, the product and the cap;
//   - writeRecordLocked: the shape of the split loop;
//   - encrypt: the CBC padding arithmetic and which cases prepend an explicit nonce;
//   - readRecordOrCCS: the two size checks; readFromUntil / atLeastReader by AST hash only;
//   - rxRawInputUsers: every function of the package that mentions the field `rawInput` (the
//     frame condition behind the handshake/application boundary: what readFromUntil buffered
//     ahead belongs to the record layer alone; no handshake step may touch it).
// Every shape fact is a Bool "the statement is literally the expected one"; the Lean model
// is a transcription of that expected statement, so a changed statement breaks `C06_facts`.
// EXCEPT the mps* facts (maxPayloadSizeForWrite): that function and halfConn.explicitNonceLen are
// translated to Lean on every run (harness/cmd/go2lean) and tied to the model for all inputs by
// lean/Gotlcp/Tie/RecordSize.lean, which is robust to renamings and equivalent re-arrangements;
// the mps* text facts are still emitted as information but no theorem pins them and none of them
// is ever reported as missing.

import (
	"go/ast"
	"sort"
	"strings"
)

func init() {
	extraFactFns = append(extraFactFns, emitRecordTx)
	extraHashed["tlcp"] = append(extraHashed["tlcp"], "Conn.maxPayloadSizeForWrite", "Conn.writeRecordLocked",
		"halfConn.encrypt", "halfConn.explicitNonceLen", "Conn.readRecordOrCCS", "Conn.readFromUntil",
		"atLeastReader.Read", "Conn.Read", "Conn.Write", "Conn.write", "Conn.retryReadRecord", "prefixNonceAEAD.explicitNonceLen")
}

// rtxStmts returns the source text of every statement (recursively) of a function body
func rtxStmts(p *pkg, key string) []string {
	fd := p.funcs[key]
	if fd == nil || fd.Body == nil {
		return nil
	}
	var out []string
	ast.Inspect(fd.Body, func(n ast.Node) bool {
		if s, ok := n.(ast.Stmt); ok {
			if _, isBlock := s.(*ast.BlockStmt); !isBlock {
				out = append(out, p.src(s))
			}
		}
		return true
	})
	return out
}

func rtxHas(stmts []string, want string) bool {
	for _, s := range stmts {
		if s == want {
			return true
		}
	}
	return false
}

func rtxHasPrefix(stmts []string, want string) bool {
	for _, s := range stmts {
		if strings.HasPrefix(s, want) {
			return true
		}
	}
	return false
}

func emitRecordTx(e *emitter, p *pkg) {
	if p.name != "tlcp" {
		return
	}
	e.comment("conn.go: maxPayloadSizeForWrite / writeRecordLocked / encrypt / readRecordOrCCS (stream side, C06)")
	mps := rtxStmts(p, "Conn.maxPayloadSizeForWrite")
	e.boolean("mpsStaticWhenDisabledOrNotAppData", rtxHasPrefix(mps, "if c.config.DynamicRecordSizingDisabled || typ != recordTypeApplicationData { return maxPlaintext }"))
	e.boolean("mpsBoost", rtxHasPrefix(mps, "if c.bytesSent >= recordSizeBoostThreshold { return maxPlaintext }"))
	e.boolean("mpsBase", rtxHas(mps, "payloadBytes := tcpMSSEstimate - recordHeaderLen - c.out.explicitNonceLen()"))
	// cipher switch: per case, the list of statements
	var aeadCase, cbcCase, streamCase []string
	if fd := p.funcs["Conn.maxPayloadSizeForWrite"]; fd != nil {
		ast.Inspect(fd.Body, func(n ast.Node) bool {
			ts, ok := n.(*ast.TypeSwitchStmt)
			if !ok {
				return true
			}
			for _, cc := range ts.Body.List {
				cl := cc.(*ast.CaseClause)
				if len(cl.List) != 1 {
					continue
				}
				var body []string
				for _, s := range cl.Body {
					body = append(body, p.src(s))
				}
				switch p.src(cl.List[0]) {
				case "cipher.AEAD":
					aeadCase = body
				case "cbcMode":
					cbcCase = body
				case "cipher.Stream":
					streamCase = body
				}
			}
			return false
		})
	}
	_ = streamCase
	e.boolean("mpsAeadSubtractsOverhead", len(aeadCase) == 1 && aeadCase[0] == "payloadBytes -= ciph.Overhead()")
	e.boolean("mpsCbcRoundsThenMac", len(cbcCase) == 3 && cbcCase[0] == "blockSize := ciph.BlockSize()" &&
		cbcCase[1] == "payloadBytes = (payloadBytes & ^(blockSize - 1)) - 1" && cbcCase[2] == "payloadBytes -= c.out.mac.Size()")
	// pkt guard literal
	var guard int64
	okGuard := false
	if fd := p.funcs["Conn.maxPayloadSizeForWrite"]; fd != nil {
		ast.Inspect(fd.Body, func(n ast.Node) bool {
			if is, ok := n.(*ast.IfStmt); ok {
				if be, ok := is.Cond.(*ast.BinaryExpr); ok && p.src(be.X) == "pkt" && be.Op.String() == ">" {
					guard, okGuard = p.evalInt(be.Y, 0, 0)
				}
			}
			return true
		})
	}
	// informational since the translation tie (lean/Gotlcp/Tie/RecordSize.lean proves the translated
	// maxPayloadSizeForWrite equal to the model with the literal Model.RecordTx.treePktGuard): the
	// search is by the spelling of a local variable (`pkt > N`), so a renamed local is no longer
	// reported as a missing fact (0 = not recognised)
	_ = okGuard
	e.nat("mpsPktGuard", guard, true)
	e.boolean("mpsRamp", rtxHas(mps, "pkt := c.packetsSent") && rtxHas(mps, "c.packetsSent++") &&
		rtxHas(mps, "n := payloadBytes * int(pkt+1)") && rtxHasPrefix(mps, "if n > maxPlaintext { n = maxPlaintext }") && rtxHas(mps, "return n"))

	wr := rtxStmts(p, "Conn.writeRecordLocked")
	e.boolean("wrSplitLoop", rtxHasPrefix(wr, "for len(data) > 0 {") && rtxHas(wr, "m := len(data)") &&
		rtxHasPrefix(wr, "if maxPayload := c.maxPayloadSizeForWrite(typ); m > maxPayload { m = maxPayload }") &&
		rtxHas(wr, "outBuf, err = c.out.encrypt(outBuf, data[:m], c.config.rand())") &&
		rtxHas(wr, "n += m") && rtxHas(wr, "data = data[m:]") && rtxHas(wr, "return n, nil"))
	e.boolean("wrCountsBytesSent", rtxHas(rtxStmts(p, "Conn.write"), "c.bytesSent += int64(n)"))

	en := rtxStmts(p, "halfConn.encrypt")
	e.boolean("encCbcPadding", rtxHas(en, "plaintextLen := len(payload) + len(mac)") &&
		rtxHas(en, "paddingLen := blockSize - plaintextLen%blockSize") &&
		rtxHas(en, "record, dst = sliceForAppend(record, plaintextLen+paddingLen)"))
	e.boolean("encExplicitNonce", rtxHas(en, "record, explicitNonce = sliceForAppend(record, explicitNonceLen)") &&
		rtxHas(en, "record = c.Seal(record, nonce, payload, additionalData)"))
	e.boolean("aeadExplicitIsNonceMinusPrefix", p.funcs["prefixNonceAEAD.NonceSize"] != nil &&
		rtxHas(rtxStmts(p, "prefixNonceAEAD.NonceSize"), "return aeadNonceLength - noncePrefixLength") &&
		rtxHas(rtxStmts(p, "prefixNonceAEAD.explicitNonceLen"), "return f.NonceSize()"))

	rr := rtxStmts(p, "Conn.readRecordOrCCS")
	e.boolean("rxRefusesOverMaxCiphertext", rtxHasPrefix(rr, "if n > maxCiphertext {"))
	e.boolean("rxRefusesOverMaxPlaintext", rtxHasPrefix(rr, "if len(data) > maxPlaintext {"))
	e.boolean("rxReadsHeaderThenBody", rtxHasPrefix(rr, "if err := c.readFromUntil(c.conn, recordHeaderLen); err != nil {") &&
		rtxHasPrefix(rr, "if err := c.readFromUntil(c.conn, recordHeaderLen+n); err != nil {") &&
		rtxHas(rr, "record := c.rawInput.Next(recordHeaderLen + n)") && rtxHas(rr, "n := int(hdr[3])<<8 | int(hdr[4])"))
	var users []string
	for key, fd := range p.funcs {
		if fd.Body == nil {
			continue
		}
		found := false
		ast.Inspect(fd.Body, func(n ast.Node) bool {
			if se, ok := n.(*ast.SelectorExpr); ok && se.Sel.Name == "rawInput" {
				found = true
			}
			return !found
		})
		if found {
			users = append(users, key)
		}
	}
	sort.Strings(users)
	e.strList("rxRawInputUsers", users)
	rd := rtxStmts(p, "Conn.Read")
	e.boolean("readDrainsInput", rtxHasPrefix(rd, "for c.input.Len() == 0 {") && rtxHas(rd, "n, _ := c.input.Read(b)") &&
		rtxHasPrefix(rd, "if n != 0 && c.input.Len() == 0 && c.rawInput.Len() > 0 && recordType(c.rawInput.Bytes()[0]) == recordTypeAlert {"))
}

package main

// Facts of the protocol adapter (package pa) used by C20:
//   - the header length in `c.recordHeader = make([]byte, N)` and the indices in
//     `c.major, c.minor = c.recordHeader[i], c.recordHeader[j]` (ReadFirstHeader);
//   - whether ReadFirstHeader keeps a partially read header across calls (shape of the F21
//     repair) or allocates a fresh buffer on every call;
//   - the dispatch table of `switch c.p.major` in detect: per case value, which configuration
//     is nil-checked (with an error return), which constructor is called with which
//     configuration and on which connection; what the default clause does;
//   - how the PUBLIC object (ProtocolSwitchServerConn) keeps the outcome of a detection: the
//     shape of conn() (detect runs on every call made while no stack is installed), the fields
//     of the object that the Read/Write path writes besides `wrapped` (a cached error, a
//     sync.Once, ...), and that `wrapped` is only ever assigned by the dispatch rows;
//   - the lock programs of every declared method of ProtocolSwitchServerConn WITH the transport
//     reads of the header peek (facts_locks.go, C13, does not see `io.ReadFull(c.Conn, ..)`),
//     and the programs of the calls that get a parked goroutine back: Close and the deadline
//     setters, declared or promoted from the embedded raw connection;
//   - the program of listener.Accept in the same event alphabet (plus 20 = the inner listener's Accept): whether
//     Accept itself touches the accepted connection (a transport read there parks the ONE accept loop of the
//     server on that peer, in front of every other peer in the accept queue);
//   - the shape of ProtocolDetectConn.Read is *not* abstracted into facts (the model is a
//     transcription, tied by correspondence); only its AST hash is recorded.

import (
	"fmt"
	"go/ast"
	"go/token"
	"sort"
	"strconv"
	"strings"
)

func init() {
	extraFactFns = append(extraFactFns, emitPA)
	extraHashed["pa"] = append(extraHashed["pa"], "listener.Accept", "NewProtocolSwitchServerConn", "NewListener",
		"ProtocolSwitchServerConn.conn", "ProtocolSwitchServerConn.protected")
}

func cfgCode(s string) int64 {
	switch s {
	case "c.ln.tlcpCfg":
		return 1
	case "c.ln.tlsCfg":
		return 2
	}
	return 0
}

func emitPA(e *emitter, p *pkg) {
	if p.name != "pa" {
		return
	}
	e.comment("pa/conn.go: ProtocolDetectConn.ReadFirstHeader")
	var hdrLen, mi, ni int64
	okLen, okIdx := false, false
	readFull := false     // io.ReadFull(c.Conn, c.recordHeader[...])
	resumable := false    // buffer allocated only when nil, read continues at the fill mark
	returnsErr := false   // `return err` of the ReadFull error
	allocGuarded := false // make(...) sits inside `if c.recordHeader == nil || c.<fill> > len(c.recordHeader)`
	fillField := ""
	if fd := p.funcs["ProtocolDetectConn.ReadFirstHeader"]; fd != nil && fd.Body != nil {
		var visit func(stmts []ast.Stmt, guarded bool)
		visit = func(stmts []ast.Stmt, guarded bool) {
			for _, st := range stmts {
				switch s := st.(type) {
				case *ast.IfStmt:
					g := s.Init == nil && s.Else == nil && strings.HasPrefix(p.src(s.Cond), "c.recordHeader == nil || c.") && strings.HasSuffix(p.src(s.Cond), " > len(c.recordHeader)")
					visit(s.Body.List, g)
				case *ast.AssignStmt:
					lhs := make([]string, len(s.Lhs))
					for i, l := range s.Lhs {
						lhs[i] = p.src(l)
					}
					if len(lhs) == 1 && lhs[0] == "c.recordHeader" && len(s.Rhs) == 1 {
						if ce, ok := s.Rhs[0].(*ast.CallExpr); ok && p.src(ce.Fun) == "make" && len(ce.Args) == 2 && p.src(ce.Args[0]) == "[]byte" {
							hdrLen, okLen = p.evalInt(ce.Args[1], 0, 0)
							allocGuarded = guarded
						}
					}
					if len(lhs) == 2 && lhs[0] == "c.major" && lhs[1] == "c.minor" && len(s.Rhs) == 2 {
						a, ok1 := s.Rhs[0].(*ast.IndexExpr)
						b, ok2 := s.Rhs[1].(*ast.IndexExpr)
						if ok1 && ok2 && p.src(a.X) == "c.recordHeader" && p.src(b.X) == "c.recordHeader" {
							var o1, o2 bool
							mi, o1 = p.evalInt(a.Index, 0, 0)
							ni, o2 = p.evalInt(b.Index, 0, 0)
							okIdx = o1 && o2
						}
					}
					if len(s.Rhs) == 1 {
						if ce, ok := s.Rhs[0].(*ast.CallExpr); ok && p.src(ce.Fun) == "io.ReadFull" && len(ce.Args) == 2 && p.src(ce.Args[0]) == "c.Conn" {
							arg := p.src(ce.Args[1])
							if arg == "c.recordHeader" {
								readFull = true
							} else if strings.HasPrefix(arg, "c.recordHeader[c.") && strings.HasSuffix(arg, ":]") {
								readFull = true
								fillField = strings.TrimSuffix(strings.TrimPrefix(arg, "c.recordHeader["), ":]")
							}
						}
					}
					if s.Tok == token.ADD_ASSIGN && fillField != "" && len(lhs) == 1 && lhs[0] == fillField && p.src(s.Rhs[0]) == "n" {
						resumable = true
					}
				case *ast.ReturnStmt:
					if len(s.Results) == 1 && p.src(s.Results[0]) == "err" {
						returnsErr = true
					}
				}
			}
		}
		visit(fd.Body.List, false)
	}
	// informational since the translation tie (lean/Gotlcp/Tie/PA.lean proves the translated ReadFirstHeader equal
	// to the model with the literals of Model/PAFacts.lean; C20_src_refines_model): a renamed local or a
	// reordered statement no longer matches the text patterns above and must not fail the check; never "missing"
	_, _ = okLen, okIdx
	e.nat("headerLen", hdrLen, true)
	e.nat("majorIndex", mi, true)
	e.nat("minorIndex", ni, true)
	e.boolean("headerViaReadFull", readFull && returnsErr)
	e.boolean("headerResumable", resumable && allocGuarded)

	e.comment("pa/switch_server_conn.go: detect — rows (case value, nil-checked cfg, constructor, cfg passed, conn passed is c.p); 1 = tlcp, 2 = tls, 0 = none/other")
	type row struct{ V, Guard, Ctor, CtorCfg, ConnP int64 }
	var rows []row
	tagOK, defUnsupported, hdrErrReturned, found := false, false, false, false
	if fd := p.funcs["ProtocolSwitchServerConn.detect"]; fd != nil && fd.Body != nil {
		stmts := fd.Body.List
		for i, st := range stmts {
			// err := c.p.ReadFirstHeader() ; if err != nil { return err }
			if as, ok := st.(*ast.AssignStmt); ok && len(as.Rhs) == 1 && p.src(as.Rhs[0]) == "c.p.ReadFirstHeader()" && i+1 < len(stmts) {
				if is, ok := stmts[i+1].(*ast.IfStmt); ok && p.src(is.Cond) == "err != nil" && len(is.Body.List) == 1 && p.src(is.Body.List[0]) == "return err" {
					hdrErrReturned = true
				}
			}
			sw, ok := st.(*ast.SwitchStmt)
			if !ok {
				continue
			}
			found = true
			tagOK = sw.Init == nil && sw.Tag != nil && p.src(sw.Tag) == "c.p.major"
			for _, cc := range sw.Body.List {
				cl := cc.(*ast.CaseClause)
				if cl.List == nil { // default
					defUnsupported = len(cl.Body) == 1 && p.src(cl.Body[0]) == "return notSupportError"
					continue
				}
				var r row
				for _, b := range cl.Body {
					switch s := b.(type) {
					case *ast.IfStmt:
						c := p.src(s.Cond)
						if strings.HasSuffix(c, " == nil") && s.Init == nil && s.Else == nil && len(s.Body.List) == 1 {
							if rs, ok := s.Body.List[0].(*ast.ReturnStmt); ok && len(rs.Results) == 1 && strings.HasPrefix(p.src(rs.Results[0]), "fmt.Errorf(") && r.Ctor == 0 {
								r.Guard = cfgCode(strings.TrimSuffix(c, " == nil"))
							}
						}
					case *ast.AssignStmt:
						if len(s.Lhs) == 1 && p.src(s.Lhs[0]) == "c.wrapped" && len(s.Rhs) == 1 {
							if ce, ok := s.Rhs[0].(*ast.CallExpr); ok && len(ce.Args) == 2 {
								switch p.src(ce.Fun) {
								case "tlcp.Server":
									r.Ctor = 1
								case "tls.Server":
									r.Ctor = 2
								}
								if p.src(ce.Args[0]) == "c.p" {
									r.ConnP = 1
								}
								r.CtorCfg = cfgCode(p.src(ce.Args[1]))
							}
						}
					}
				}
				for _, ve := range cl.List {
					v, ok := p.evalInt(ve, 0, 0)
					if !ok {
						tagOK = false
					}
					r.V = v
					rows = append(rows, r)
				}
			}
		}
	}
	if !found {
		e.missing = append(e.missing, e.key("dispatch"))
	}
	var ss []string
	for _, r := range rows {
		ss = append(ss, fmt.Sprintf("(%d, %d, %d, %d, %d)", r.V, r.Guard, r.Ctor, r.CtorCfg, r.ConnP))
	}
	e.raw("dispatch", "List (Nat × Nat × Nat × Nat × Nat)", "["+strings.Join(ss, ", ")+"]", rows)
	e.boolean("dispatchOnMajor", tagOK)
	e.boolean("dispatchDefaultUnsupported", defUnsupported)
	e.boolean("detectReturnsHeaderErr", hdrErrReturned)
	// the sentinel is a *ProtocolNotSupportError
	sent := false
	if v, ok := p.vars["notSupportError"]; ok {
		sent = p.src(v) == "&ProtocolNotSupportError{}"
	}
	e.boolean("unsupportedSentinelTyped", sent)
	_ = strconv.Itoa
	emitPASwitchState(e, p)
	emitPASwitchLocks(e, p)
	emitPAListener(e, p)
}

// ---------------------------------------------------------------------------
// the public object: what conn()/detect() keep of a detection

const paSwitch = "ProtocolSwitchServerConn"

// paSwitchMethods: declared methods of ProtocolSwitchServerConn, sorted by name.
func paSwitchMethods(p *pkg) []string {
	var keys []string
	for key, fd := range p.funcs {
		if strings.HasPrefix(key, paSwitch+".") && fd.Body != nil {
			keys = append(keys, key)
		}
	}
	sort.Strings(keys)
	return keys
}

// paStructFields: field name -> source text of its type (embedded fields under their type's last name)
func paStructFields(p *pkg, typ string) (names []string, types map[string]string) {
	types = map[string]string{}
	ts := p.types[typ]
	if ts == nil {
		return
	}
	st, ok := ts.Type.(*ast.StructType)
	if !ok {
		return
	}
	for _, f := range st.Fields.List {
		t := p.src(f.Type)
		if len(f.Names) == 0 {
			n := t
			if i := strings.LastIndex(n, "."); i >= 0 {
				n = n[i+1:]
			}
			n = strings.TrimPrefix(n, "*")
			names = append(names, n)
			types[n] = t
		}
		for _, nm := range f.Names {
			names = append(names, nm.Name)
			types[nm.Name] = t
		}
	}
	return
}

// paWrappedTest: `X != nil` where X is c.wrapped or a local bound (in init) to c.wrapped / c.protected()
func paWrappedLocal(p *pkg, init ast.Stmt) string {
	as, ok := init.(*ast.AssignStmt)
	if !ok || as.Tok != token.DEFINE || len(as.Lhs) != 1 || len(as.Rhs) != 1 {
		return ""
	}
	r := p.src(as.Rhs[0])
	if r == "c.wrapped" || r == "c.protected()" || r == "c.ProtectedConn()" {
		return p.src(as.Lhs[0])
	}
	return ""
}

func emitPASwitchState(e *emitter, p *pkg) {
	e.comment("pa/switch_server_conn.go: what the public object keeps of a detection (conn, detect)")
	// 1. conn(): [optional early return of the installed stack] ; detect() with its error returned ; return the stack.
	//    Nothing else: in particular no test of any other state in front of the detect call.
	shape := false
	if fd := p.funcs[paSwitch+".conn"]; fd != nil && fd.Body != nil {
		st := fd.Body.List
		i := 0
		isWrappedRet := func(s ast.Stmt) bool {
			is, ok := s.(*ast.IfStmt)
			if !ok || is.Else != nil || len(is.Body.List) != 1 {
				return false
			}
			x := "c.wrapped"
			if is.Init != nil {
				if x = paWrappedLocal(p, is.Init); x == "" {
					return false
				}
			}
			if p.src(is.Cond) != x+" != nil" {
				return false
			}
			rs, ok := is.Body.List[0].(*ast.ReturnStmt)
			return ok && len(rs.Results) == 2 && p.src(rs.Results[0]) == x && p.src(rs.Results[1]) == "nil"
		}
		isErrRet := func(s ast.Stmt) bool {
			is, ok := s.(*ast.IfStmt)
			if !ok || is.Else != nil || len(is.Body.List) != 1 || p.src(is.Cond) != "err != nil" {
				return false
			}
			rs, ok := is.Body.List[0].(*ast.ReturnStmt)
			return ok && len(rs.Results) == 2 && p.src(rs.Results[0]) == "nil" && p.src(rs.Results[1]) == "err"
		}
		isDetectInit := func(s ast.Stmt) bool {
			as, ok := s.(*ast.AssignStmt)
			return ok && len(as.Lhs) == 1 && len(as.Rhs) == 1 && p.src(as.Lhs[0]) == "err" && p.src(as.Rhs[0]) == "c.detect()"
		}
		if i < len(st) && isWrappedRet(st[i]) {
			i++
		} else if i+1 < len(st) {
			// the same with the lookup as a statement of its own: `w := c.protected(); if w != nil { return w, nil }`
			if x := paWrappedLocal(p, st[i]); x != "" {
				if is, ok := st[i+1].(*ast.IfStmt); ok && is.Init == nil && is.Else == nil && len(is.Body.List) == 1 && p.src(is.Cond) == x+" != nil" {
					if rs, ok := is.Body.List[0].(*ast.ReturnStmt); ok && len(rs.Results) == 2 && p.src(rs.Results[0]) == x && p.src(rs.Results[1]) == "nil" {
						i += 2
					}
				}
			}
		}
		detectOK := false
		if i < len(st) {
			if is, ok := st[i].(*ast.IfStmt); ok && is.Init != nil && isDetectInit(is.Init) && isErrRet(&ast.IfStmt{Cond: is.Cond, Body: is.Body}) {
				detectOK = true
				i++
			} else if i+1 < len(st) && isDetectInit(st[i]) && isErrRet(st[i+1]) {
				detectOK = true
				i += 2
			}
		}
		if detectOK && i == len(st)-1 {
			if rs, ok := st[i].(*ast.ReturnStmt); ok && len(rs.Results) == 2 && p.src(rs.Results[1]) == "nil" {
				r := p.src(rs.Results[0])
				shape = r == "c.protected()" || r == "c.wrapped" || r == "c.ProtectedConn()"
			}
		}
	}
	e.boolean("connDetectsWheneverUnwrapped", shape)
	// Read / Write: `wrapped, err := c.conn(); if err != nil { return 0, err }; return wrapped.<same>(b)`
	var viaConn []string
	for _, m := range []string{"Read", "Write"} {
		fd := p.funcs[paSwitch+"."+m]
		if fd == nil || fd.Body == nil || len(fd.Body.List) != 3 {
			continue
		}
		as, ok1 := fd.Body.List[0].(*ast.AssignStmt)
		is, ok2 := fd.Body.List[1].(*ast.IfStmt)
		rs, ok3 := fd.Body.List[2].(*ast.ReturnStmt)
		if !ok1 || !ok2 || !ok3 || len(as.Lhs) != 2 || len(as.Rhs) != 1 || p.src(as.Rhs[0]) != "c.conn()" || p.src(as.Lhs[1]) != "err" {
			continue
		}
		w := p.src(as.Lhs[0])
		if p.src(is.Cond) != "err != nil" || is.Else != nil || len(is.Body.List) != 1 || p.src(is.Body.List[0]) != "return 0, err" {
			continue
		}
		if len(rs.Results) == 1 && p.src(rs.Results[0]) == w+"."+m+"(b)" {
			viaConn = append(viaConn, m)
		}
	}
	e.strList("callsViaConn", viaConn)
	// 2. fields of the object written on the way (any declared method, closures included) besides `wrapped`:
	//    assignments, ++/--, address taken, or a method call on a field held BY VALUE (sync.Once.Do, atomic.X.Store)
	//    other than the mutex operations.
	names, ftypes := paStructFields(p, paSwitch)
	isField := map[string]bool{}
	for _, n := range names {
		isField[n] = true
	}
	kept := map[string]bool{}
	fieldOf := func(x ast.Expr) string {
		se, ok := x.(*ast.SelectorExpr)
		if !ok {
			return ""
		}
		if id, ok := se.X.(*ast.Ident); ok && id.Name == "c" && isField[se.Sel.Name] {
			return se.Sel.Name
		}
		return ""
	}
	assignsWrapped, assignsFromDispatch := 0, 0
	for _, key := range paSwitchMethods(p) {
		fd := p.funcs[key]
		ast.Inspect(fd.Body, func(n ast.Node) bool {
			switch s := n.(type) {
			case *ast.AssignStmt:
				for _, l := range s.Lhs {
					if f := fieldOf(l); f != "" {
						if f == "wrapped" {
							assignsWrapped++
						} else {
							kept[f] = true
						}
					}
				}
			case *ast.IncDecStmt:
				if f := fieldOf(s.X); f != "" {
					kept[f] = true
				}
			case *ast.UnaryExpr:
				if s.Op == token.AND {
					if f := fieldOf(s.X); f != "" {
						kept[f] = true
					}
				}
			case *ast.CallExpr:
				if se, ok := s.Fun.(*ast.SelectorExpr); ok {
					if f := fieldOf(se.X); f != "" {
						t := ftypes[f]
						byValue := !strings.HasPrefix(t, "*") && t != "net.Conn" && (strings.HasPrefix(t, "sync.") || strings.HasPrefix(t, "atomic."))
						switch se.Sel.Name {
						case "Lock", "Unlock", "RLock", "RUnlock", "TryLock":
						default:
							if byValue {
								kept[f] = true
							}
						}
					}
				}
			}
			return true
		})
	}
	var keptL []string
	for _, n := range names {
		if kept[n] {
			keptL = append(keptL, n)
		}
	}
	e.strList("failureKeptFields", keptL)
	// 3. `wrapped` is assigned by the constructor rows of detect's switch and nowhere else
	if fd := p.funcs[paSwitch+".detect"]; fd != nil && fd.Body != nil {
		for _, st := range fd.Body.List {
			sw, ok := st.(*ast.SwitchStmt)
			if !ok {
				continue
			}
			for _, cc := range sw.Body.List {
				cl := cc.(*ast.CaseClause)
				if cl.List == nil {
					continue
				}
				for _, b := range cl.Body {
					if as, ok := b.(*ast.AssignStmt); ok && len(as.Lhs) == 1 && p.src(as.Lhs[0]) == "c.wrapped" && len(as.Rhs) == 1 {
						if ce, ok := as.Rhs[0].(*ast.CallExpr); ok {
							if f := p.src(ce.Fun); f == "tlcp.Server" || f == "tls.Server" {
								assignsFromDispatch++
							}
						}
					}
				}
			}
		}
	}
	e.boolean("wrappedOnlyFromDispatch", assignsWrapped > 0 && assignsWrapped == assignsFromDispatch)
}

// ---------------------------------------------------------------------------
// lock programs of the public object, with the transport events of the header peek
//
// events (kind, mutex): 0 acquire, 1 release (a deferred release at function exit), 2 transport write,
// 8 transport close, 9 transport read (may park the goroutine), 12 call into the selected stack
// (wrapped.Read / Write / Close / ...), 13 transport deadline.  Same numbering as facts_locks.go.
// Flow-insensitive: statements in source order, both arms of every conditional, loop bodies once,
// callees of the package inline (receiver `c`, field `c.p`), closures at the place they are passed.

type paWalker struct {
	p      *pkg
	locks  []string
	lockIx map[string]int
	ftypes map[string]map[string]string // struct -> field -> type text
	// env: names bound in the function being walked (receiver, parameters, locals assigned from a constructor of
	// the package or from the inner listener's Accept) -> a struct of the package, "net.Conn" (the raw transport)
	// or "net.Listener" (the inner listener).  One map per function on the walk stack.
	env []map[string]string
}

func (w *paWalker) varType(name string) string {
	if n := len(w.env); n > 0 {
		return w.env[n-1][name]
	}
	return ""
}

// declType: what a declared type text binds a name to
func (w *paWalker) declType(t string) string {
	switch t {
	case "net.Conn", "net.Listener":
		return t
	}
	t = strings.TrimPrefix(t, "*")
	if _, ok := w.p.types[t]; ok {
		return t
	}
	return ""
}

// structType: declType restricted to structs of the package (a net.Conn RESULT of a call is not known to be the raw
// transport: conn() returns the selected stack)
func (w *paWalker) structType(t string) string {
	if t = w.declType(t); t == "net.Conn" || t == "net.Listener" {
		return ""
	}
	return t
}

// exprType: the binding an expression gives to the local it is assigned to
func (w *paWalker) exprType(x ast.Expr, self string) string {
	switch t := x.(type) {
	case *ast.ParenExpr:
		return w.exprType(t.X, self)
	case *ast.UnaryExpr:
		if t.Op == token.AND {
			if cl, ok := t.X.(*ast.CompositeLit); ok {
				return w.declType(w.p.src(cl.Type))
			}
		}
	case *ast.CompositeLit:
		return w.declType(w.p.src(t.Type))
	case *ast.CallExpr:
		if id, ok := t.Fun.(*ast.Ident); ok {
			if fd := w.p.funcs[id.Name]; fd != nil && fd.Type.Results != nil && len(fd.Type.Results.List) >= 1 {
				return w.structType(w.p.src(fd.Type.Results.List[0].Type))
			}
			if id.Name == "new" && len(t.Args) == 1 {
				return w.declType(w.p.src(t.Args[0]))
			}
		}
		if se, ok := t.Fun.(*ast.SelectorExpr); ok {
			if se.Sel.Name == "Accept" && w.isListener(se.X, self) {
				return "net.Conn"
			}
			if o := w.recvType(se.X, self); o != "" {
				if fd := w.p.funcs[o+"."+se.Sel.Name]; fd != nil && fd.Type.Results != nil && len(fd.Type.Results.List) >= 1 {
					return w.structType(w.p.src(fd.Type.Results.List[0].Type))
				}
			}
		}
	case *ast.Ident, *ast.SelectorExpr:
		if w.isRaw(x, self) {
			return "net.Conn"
		}
		if w.isListener(x, self) {
			return "net.Listener"
		}
		return w.recvType(x, self)
	}
	return ""
}

// isListener: the expression is the inner listener (`l.Listener`, a name bound to it)
func (w *paWalker) isListener(x ast.Expr, self string) bool {
	switch t := x.(type) {
	case *ast.Ident:
		return w.varType(t.Name) == "net.Listener"
	case *ast.SelectorExpr:
		if o := w.recvType(t.X, self); o != "" && w.ftypes[o][t.Sel.Name] == "net.Listener" {
			return true
		}
	case *ast.ParenExpr:
		return w.isListener(t.X, self)
	}
	return false
}

func (w *paWalker) lockOf(name string) int {
	if i, ok := w.lockIx[name]; ok {
		return i
	}
	w.lockIx[name] = len(w.locks)
	w.locks = append(w.locks, name)
	return len(w.locks) - 1
}

// recvType: the package struct an expression denotes (`c` = the method's receiver type, `c.f` by field type)
func (w *paWalker) recvType(x ast.Expr, self string) string {
	switch t := x.(type) {
	case *ast.Ident:
		if v := w.varType(t.Name); v != "" {
			if _, ok := w.p.types[v]; ok {
				return v
			}
			return ""
		}
		if t.Name == "c" {
			return self
		}
	case *ast.SelectorExpr:
		if o := w.recvType(t.X, self); o != "" {
			ft := strings.TrimPrefix(w.ftypes[o][t.Sel.Name], "*")
			if _, ok := w.p.types[ft]; ok {
				return ft
			}
		}
	case *ast.ParenExpr:
		return w.recvType(t.X, self)
	}
	return ""
}

// isRaw: the expression is the raw transport (`c.Conn` of either struct, `c.p.Conn`, `c.Raw()`)
func (w *paWalker) isRaw(x ast.Expr, self string) bool {
	if id, ok := x.(*ast.Ident); ok && w.varType(id.Name) == "net.Conn" {
		return true
	}
	if se, ok := x.(*ast.SelectorExpr); ok && se.Sel.Name == "Conn" {
		if o := w.recvType(se.X, self); o != "" && w.ftypes[o]["Conn"] == "net.Conn" {
			return true
		}
	}
	if ce, ok := x.(*ast.CallExpr); ok {
		if se, ok := ce.Fun.(*ast.SelectorExpr); ok && se.Sel.Name == "Raw" && w.recvType(se.X, self) != "" {
			return true
		}
	}
	return false
}

const paEvInnerAccept = 20 // the inner listener's Accept (parks until a peer connects)

var paConnMethod = map[string]int{"Read": 9, "Write": 2, "Close": 8, "SetDeadline": 13, "SetReadDeadline": 13, "SetWriteDeadline": 13}

func (w *paWalker) walkFunc(key string, stack []string, out *[][2]int) {
	fd := w.p.funcs[key]
	if fd == nil || fd.Body == nil {
		return
	}
	for _, s := range stack {
		if s == key {
			return
		}
	}
	self := ""
	if i := strings.Index(key, "."); i >= 0 {
		self = key[:i]
	}
	env := map[string]string{}
	if fd.Recv != nil && len(fd.Recv.List) == 1 && len(fd.Recv.List[0].Names) == 1 && self != "" {
		env[fd.Recv.List[0].Names[0].Name] = self
	}
	if fd.Type.Params != nil {
		for _, f := range fd.Type.Params.List {
			t := w.declType(w.p.src(f.Type))
			if self != "" {
				// a net.Conn handed to a METHOD may be the selected stack; only constructors receive the raw transport
				t = w.structType(w.p.src(f.Type))
			}
			if t != "" {
				for _, nm := range f.Names {
					env[nm.Name] = t
				}
			}
		}
	}
	w.env = append(w.env, env)
	defer func() { w.env = w.env[:len(w.env)-1] }()
	var deferred [][][2]int
	w.walkNode(fd.Body, self, append(stack, key), out, &deferred)
	for i := len(deferred) - 1; i >= 0; i-- {
		*out = append(*out, deferred[i]...)
	}
}

func (w *paWalker) walkNode(n ast.Node, self string, stack []string, out *[][2]int, deferred *[][][2]int) {
	if n == nil {
		return
	}
	switch s := n.(type) {
	case *ast.GoStmt:
		return
	case *ast.DeferStmt:
		var evs [][2]int
		w.walkCall(s.Call, self, stack, &evs, deferred)
		*deferred = append(*deferred, evs)
		return
	case *ast.FuncLit:
		// a closure runs where it is passed (sync.Once.Do, a helper taking a callback)
		var inner [][][2]int
		w.walkNode(s.Body, self, stack, out, &inner)
		for i := len(inner) - 1; i >= 0; i-- {
			*out = append(*out, inner[i]...)
		}
		return
	case *ast.CallExpr:
		w.walkCall(s, self, stack, out, deferred)
		return
	case *ast.AssignStmt:
		for _, r := range s.Rhs {
			w.walkNode(r, self, stack, out, deferred)
		}
		for _, l := range s.Lhs {
			if _, isId := l.(*ast.Ident); !isId {
				w.walkNode(l, self, stack, out, deferred)
			}
		}
		if n := len(w.env); n > 0 && len(s.Rhs) >= 1 {
			// `x := f(..)`, `x, err := f(..)`, `x, y = a, b`
			for i, l := range s.Lhs {
				id, ok := l.(*ast.Ident)
				if !ok || id.Name == "_" {
					continue
				}
				var t string
				if len(s.Rhs) == len(s.Lhs) {
					t = w.exprType(s.Rhs[i], self)
				} else if i == 0 {
					t = w.exprType(s.Rhs[0], self)
				}
				if t != "" {
					w.env[n-1][id.Name] = t
				} else if s.Tok == token.DEFINE {
					delete(w.env[n-1], id.Name)
				}
			}
		}
		return
	}
	// generic: children in source order
	ast.Inspect(n, func(c ast.Node) bool {
		if c == nil || c == n {
			return true
		}
		w.walkNode(c, self, stack, out, deferred)
		return false
	})
}

func (w *paWalker) walkCall(ce *ast.CallExpr, self string, stack []string, out *[][2]int, deferred *[][][2]int) {
	// arguments (and the receiver expression) first
	if se, ok := ce.Fun.(*ast.SelectorExpr); ok {
		w.walkNode(se.X, self, stack, out, deferred)
	} else if fl, ok := ce.Fun.(*ast.FuncLit); ok {
		w.walkNode(fl, self, stack, out, deferred)
	}
	for _, a := range ce.Args {
		w.walkNode(a, self, stack, out, deferred)
	}
	fun := w.p.src(ce.Fun)
	if (fun == "io.ReadFull" || fun == "io.ReadAtLeast" || fun == "io.Copy" || fun == "io.ReadAll") && len(ce.Args) >= 1 {
		for _, a := range ce.Args {
			if w.isRaw(a, self) {
				*out = append(*out, [2]int{9, 0})
				return
			}
		}
		return
	}
	se, ok := ce.Fun.(*ast.SelectorExpr)
	if !ok {
		if id, ok := ce.Fun.(*ast.Ident); ok {
			if _, isFn := w.p.funcs[id.Name]; isFn {
				w.walkFunc(id.Name, stack, out)
			}
		}
		return
	}
	m := se.Sel.Name
	switch m {
	case "Lock", "RLock", "Unlock", "RUnlock":
		if o := w.recvType(selX(se.X), self); o != "" {
			if fse, ok := se.X.(*ast.SelectorExpr); ok {
				t := w.ftypes[o][fse.Sel.Name]
				if strings.HasSuffix(t, "sync.Mutex") || strings.HasSuffix(t, "sync.RWMutex") {
					l := w.lockOf(o + "." + fse.Sel.Name)
					if m == "Lock" || m == "RLock" {
						*out = append(*out, [2]int{0, l})
					} else {
						*out = append(*out, [2]int{1, l})
					}
					return
				}
			}
		}
	}
	if m == "Accept" && w.isListener(se.X, self) {
		*out = append(*out, [2]int{paEvInnerAccept, 0})
		return
	}
	if w.isRaw(se.X, self) {
		if k, ok := paConnMethod[m]; ok {
			*out = append(*out, [2]int{k, 0})
		}
		return
	}
	if o := w.recvType(se.X, self); o != "" {
		if _, isM := w.p.funcs[o+"."+m]; isM {
			w.walkFunc(o+"."+m, stack, out)
			return
		}
		// promoted from the embedded raw connection
		if w.ftypes[o]["Conn"] == "net.Conn" {
			if k, ok := paConnMethod[m]; ok {
				*out = append(*out, [2]int{k, 0})
			}
		}
		return
	}
	// anything else with the name of a net.Conn method: the selected stack (c.wrapped, a local holding it)
	if _, ok := paConnMethod[m]; ok || m == "Handshake" || m == "HandshakeContext" || m == "CloseWrite" {
		*out = append(*out, [2]int{12, 0})
	}
}

// selX: the object of `obj.field` in `obj.field.Lock()`
func selX(x ast.Expr) ast.Expr {
	if se, ok := x.(*ast.SelectorExpr); ok {
		return se.X
	}
	return x
}

func paLeanProg(evs [][2]int) string {
	ss := make([]string, len(evs))
	for i, ev := range evs {
		ss[i] = fmt.Sprintf("(%d, %d)", ev[0], ev[1])
	}
	return "[" + strings.Join(ss, ", ") + "]"
}

func emitPASwitchLocks(e *emitter, p *pkg) {
	e.comment("pa: lock programs of the public object with transport events: 0 acquire 1 release 2 transport-write 8 transport-close 9 transport-read 12 call-into-selected-stack 13 transport-deadline")
	w := &paWalker{p: p, lockIx: map[string]int{}, ftypes: map[string]map[string]string{}}
	for name := range p.types {
		_, ft := paStructFields(p, name)
		w.ftypes[name] = ft
	}
	w.lockOf(paSwitch + ".lock")
	type prog struct {
		Name   string
		Events [][2]int
	}
	var progs []prog
	var lean []string
	declared := map[string]bool{}
	for _, key := range paSwitchMethods(p) {
		var evs [][2]int
		w.walkFunc(key, nil, &evs)
		name := key[len(paSwitch)+1:]
		declared[name] = true
		progs = append(progs, prog{name, evs})
		lean = append(lean, fmt.Sprintf("(%s, %s)", strconv.Quote(name), paLeanProg(evs)))
	}
	// the object embeds the raw connection it was built on: undeclared net.Conn methods go straight to the transport
	embeds := false
	if w.ftypes[paSwitch]["Conn"] == "net.Conn" {
		if fd := p.funcs["New"+paSwitch]; fd != nil && fd.Body != nil && fd.Type.Params != nil && len(fd.Type.Params.List) == 2 &&
			len(fd.Type.Params.List[1].Names) == 1 {
			raw := fd.Type.Params.List[1].Names[0].Name
			okSw, okPd := false, false
			ast.Inspect(fd.Body, func(n ast.Node) bool {
				cl, ok := n.(*ast.CompositeLit)
				if !ok {
					return true
				}
				for _, el := range cl.Elts {
					if kv, ok := el.(*ast.KeyValueExpr); ok && p.src(kv.Key) == "Conn" && p.src(kv.Value) == raw {
						switch p.src(cl.Type) {
						case paSwitch:
							okSw = true
						case "ProtocolDetectConn":
							okPd = true
						}
					}
				}
				return true
			})
			embeds = okSw && okPd
		}
	}
	e.boolean("swEmbedsRawConn", embeds)
	e.strList("swLockNames", w.locks)
	e.raw("swProgs", "List (String × List (Nat × Nat))", "[\n  "+strings.Join(lean, ",\n  ")+"]", progs)
	var ub []prog
	var ubLean []string
	for _, name := range []string{"Close", "SetDeadline", "SetReadDeadline", "SetWriteDeadline"} {
		var evs [][2]int
		if declared[name] {
			w.walkFunc(paSwitch+"."+name, nil, &evs)
		} else if embeds {
			evs = [][2]int{{paConnMethod[name], 0}}
		} else {
			e.missing = append(e.missing, e.key("swUnblockers."+name))
		}
		ub = append(ub, prog{name, evs})
		ubLean = append(ubLean, fmt.Sprintf("(%s, %s)", strconv.Quote(name), paLeanProg(evs)))
	}
	e.comment("the calls that get a parked goroutine back (declared, or promoted from the embedded raw connection)")
	e.raw("swUnblockers", "List (String × List (Nat × Nat))", "[\n  "+strings.Join(ubLean, ",\n  ")+"]", ub)
}

// ---------------------------------------------------------------------------
// the listener: what Accept does with the connection before the application gets it

func emitPAListener(e *emitter, p *pkg) {
	e.comment("pa/pa.go: program of listener.Accept — 20 inner-listener Accept, then the events (same alphabet as swProgs) it performs on the accepted connection before returning it; calls into the package are inlined (constructor, methods of the new object), `go` statements are not part of it")
	w := &paWalker{p: p, lockIx: map[string]int{}, ftypes: map[string]map[string]string{}}
	for name := range p.types {
		_, ft := paStructFields(p, name)
		w.ftypes[name] = ft
	}
	w.lockOf(paSwitch + ".lock")
	var evs [][2]int
	if fd := p.funcs["listener.Accept"]; fd != nil && fd.Body != nil {
		w.walkFunc("listener.Accept", nil, &evs)
	} else {
		e.missing = append(e.missing, e.key("acceptProg"))
	}
	e.raw("acceptProg", "List (Nat × Nat)", paLeanProg(evs), evs)
	// the listener embeds the inner listener and Accept hands out the object built by the constructor on the raw connection
	wraps := false
	if fd := p.funcs["listener.Accept"]; fd != nil && fd.Body != nil {
		ast.Inspect(fd.Body, func(n ast.Node) bool {
			if ce, ok := n.(*ast.CallExpr); ok && p.src(ce.Fun) == "New"+paSwitch && len(ce.Args) == 2 {
				wraps = true
			}
			return true
		})
	}
	e.boolean("acceptWrapsRaw", wraps && w.ftypes["listener"]["Listener"] == "net.Listener")
}

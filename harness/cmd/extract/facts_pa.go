package main

// Facts of the protocol adapter (package pa) used by C20:
//   - the header length in `c.recordHeader = make([]byte, N)` and the indices in
//     `c.major, c.minor = c.recordHeader[i], c.recordHeader[j]` (ReadFirstHeader);
//   - whether ReadFirstHeader keeps a partially read header across calls (shape of the F21
//     repair) or allocates a fresh buffer on every call;
//   - the dispatch table of `switch c.p.major` in detect: per case value, which configuration
//     is nil-checked (with an error return), which constructor is called with which
//     configuration and on which connection; what the default clause does;
//   - the shape of ProtocolDetectConn.Read is *not* abstracted into facts (the model is a
//     transcription, tied by correspondence); only its AST hash is recorded.

import (
	"fmt"
	"go/ast"
	"go/token"
	"strconv"
	"strings"
)

func init() {
	extraFactFns = append(extraFactFns, emitPA)
	extraHashed["pa"] = append(extraHashed["pa"], "listener.Accept", "NewProtocolSwitchServerConn", "NewListener")
}

func cfgCode(s string) int64 {
	switch s {
	case "c.ln.tlcpCfg":
		return 1
	case "c.ln.tlsCfg":
		return 2
	}
	return 0
}

func emitPA(e *emitter, p *pkg) {
	if p.name != "pa" {
		return
	}
	e.comment("pa/conn.go: ProtocolDetectConn.ReadFirstHeader")
	var hdrLen, mi, ni int64
	okLen, okIdx := false, false
	readFull := false     // io.ReadFull(c.Conn, c.recordHeader[...])
	resumable := false    // buffer allocated only when nil, read continues at the fill mark
	returnsErr := false   // `return err` of the ReadFull error
	allocGuarded := false // make(...) sits inside `if c.recordHeader == nil || c.<fill> > len(c.recordHeader)`
	fillField := ""
	if fd := p.funcs["ProtocolDetectConn.ReadFirstHeader"]; fd != nil && fd.Body != nil {
		var visit func(stmts []ast.Stmt, guarded bool)
		visit = func(stmts []ast.Stmt, guarded bool) {
			for _, st := range stmts {
				switch s := st.(type) {
				case *ast.IfStmt:
					g := s.Init == nil && s.Else == nil && strings.HasPrefix(p.src(s.Cond), "c.recordHeader == nil || c.") && strings.HasSuffix(p.src(s.Cond), " > len(c.recordHeader)")
					visit(s.Body.List, g)
				case *ast.AssignStmt:
					lhs := make([]string, len(s.Lhs))
					for i, l := range s.Lhs {
						lhs[i] = p.src(l)
					}
					if len(lhs) == 1 && lhs[0] == "c.recordHeader" && len(s.Rhs) == 1 {
						if ce, ok := s.Rhs[0].(*ast.CallExpr); ok && p.src(ce.Fun) == "make" && len(ce.Args) == 2 && p.src(ce.Args[0]) == "[]byte" {
							hdrLen, okLen = p.evalInt(ce.Args[1], 0, 0)
							allocGuarded = guarded
						}
					}
					if len(lhs) == 2 && lhs[0] == "c.major" && lhs[1] == "c.minor" && len(s.Rhs) == 2 {
						a, ok1 := s.Rhs[0].(*ast.IndexExpr)
						b, ok2 := s.Rhs[1].(*ast.IndexExpr)
						if ok1 && ok2 && p.src(a.X) == "c.recordHeader" && p.src(b.X) == "c.recordHeader" {
							var o1, o2 bool
							mi, o1 = p.evalInt(a.Index, 0, 0)
							ni, o2 = p.evalInt(b.Index, 0, 0)
							okIdx = o1 && o2
						}
					}
					if len(s.Rhs) == 1 {
						if ce, ok := s.Rhs[0].(*ast.CallExpr); ok && p.src(ce.Fun) == "io.ReadFull" && len(ce.Args) == 2 && p.src(ce.Args[0]) == "c.Conn" {
							arg := p.src(ce.Args[1])
							if arg == "c.recordHeader" {
								readFull = true
							} else if strings.HasPrefix(arg, "c.recordHeader[c.") && strings.HasSuffix(arg, ":]") {
								readFull = true
								fillField = strings.TrimSuffix(strings.TrimPrefix(arg, "c.recordHeader["), ":]")
							}
						}
					}
					if s.Tok == token.ADD_ASSIGN && fillField != "" && len(lhs) == 1 && lhs[0] == fillField && p.src(s.Rhs[0]) == "n" {
						resumable = true
					}
				case *ast.ReturnStmt:
					if len(s.Results) == 1 && p.src(s.Results[0]) == "err" {
						returnsErr = true
					}
				}
			}
		}
		visit(fd.Body.List, false)
	}
	e.nat("headerLen", hdrLen, okLen)
	e.nat("majorIndex", mi, okIdx)
	e.nat("minorIndex", ni, okIdx)
	e.boolean("headerViaReadFull", readFull && returnsErr)
	e.boolean("headerResumable", resumable && allocGuarded)

	e.comment("pa/switch_server_conn.go: detect — rows (case value, nil-checked cfg, constructor, cfg passed, conn passed is c.p); 1 = tlcp, 2 = tls, 0 = none/other")
	type row struct{ V, Guard, Ctor, CtorCfg, ConnP int64 }
	var rows []row
	tagOK, defUnsupported, hdrErrReturned, found := false, false, false, false
	if fd := p.funcs["ProtocolSwitchServerConn.detect"]; fd != nil && fd.Body != nil {
		stmts := fd.Body.List
		for i, st := range stmts {
			// err := c.p.ReadFirstHeader() ; if err != nil { return err }
			if as, ok := st.(*ast.AssignStmt); ok && len(as.Rhs) == 1 && p.src(as.Rhs[0]) == "c.p.ReadFirstHeader()" && i+1 < len(stmts) {
				if is, ok := stmts[i+1].(*ast.IfStmt); ok && p.src(is.Cond) == "err != nil" && len(is.Body.List) == 1 && p.src(is.Body.List[0]) == "return err" {
					hdrErrReturned = true
				}
			}
			sw, ok := st.(*ast.SwitchStmt)
			if !ok {
				continue
			}
			found = true
			tagOK = sw.Init == nil && sw.Tag != nil && p.src(sw.Tag) == "c.p.major"
			for _, cc := range sw.Body.List {
				cl := cc.(*ast.CaseClause)
				if cl.List == nil { // default
					defUnsupported = len(cl.Body) == 1 && p.src(cl.Body[0]) == "return notSupportError"
					continue
				}
				var r row
				for _, b := range cl.Body {
					switch s := b.(type) {
					case *ast.IfStmt:
						c := p.src(s.Cond)
						if strings.HasSuffix(c, " == nil") && s.Init == nil && s.Else == nil && len(s.Body.List) == 1 {
							if rs, ok := s.Body.List[0].(*ast.ReturnStmt); ok && len(rs.Results) == 1 && strings.HasPrefix(p.src(rs.Results[0]), "fmt.Errorf(") && r.Ctor == 0 {
								r.Guard = cfgCode(strings.TrimSuffix(c, " == nil"))
							}
						}
					case *ast.AssignStmt:
						if len(s.Lhs) == 1 && p.src(s.Lhs[0]) == "c.wrapped" && len(s.Rhs) == 1 {
							if ce, ok := s.Rhs[0].(*ast.CallExpr); ok && len(ce.Args) == 2 {
								switch p.src(ce.Fun) {
								case "tlcp.Server":
									r.Ctor = 1
								case "tls.Server":
									r.Ctor = 2
								}
								if p.src(ce.Args[0]) == "c.p" {
									r.ConnP = 1
								}
								r.CtorCfg = cfgCode(p.src(ce.Args[1]))
							}
						}
					}
				}
				for _, ve := range cl.List {
					v, ok := p.evalInt(ve, 0, 0)
					if !ok {
						tagOK = false
					}
					r.V = v
					rows = append(rows, r)
				}
			}
		}
	}
	if !found {
		e.missing = append(e.missing, e.key("dispatch"))
	}
	var ss []string
	for _, r := range rows {
		ss = append(ss, fmt.Sprintf("(%d, %d, %d, %d, %d)", r.V, r.Guard, r.Ctor, r.CtorCfg, r.ConnP))
	}
	e.raw("dispatch", "List (Nat × Nat × Nat × Nat × Nat)", "["+strings.Join(ss, ", ")+"]", rows)
	e.boolean("dispatchOnMajor", tagOK)
	e.boolean("dispatchDefaultUnsupported", defUnsupported)
	e.boolean("detectReturnsHeaderErr", hdrErrReturned)
	// the sentinel is a *ProtocolNotSupportError
	sent := false
	if v, ok := p.vars["notSupportError"]; ok {
		sent = p.src(v) == "&ProtocolNotSupportError{}"
	}
	e.boolean("unsupportedSentinelTyped", sent)
	_ = strconv.Itoa
}

package main

// Facts for C12 (tlcp/conn.go: Read, Write, Close, closeNotify, handshakeContext, the EOF rule).
// Emitted inside `Gotlcp.Facts.tlcp`:
//
//	apiReadChecksClosed     Conn.Read starts with `if atomic.LoadInt32(&c.activeCall)&1 != 0 { return 0, net.ErrClosed }`
//	                        (the repair of F38; Write has the interlock from the start)
//	apiWriteChecksClosed    Conn.Write's interlock loop contains `if x&1 != 0 { return 0, net.ErrClosed }`
//	apiCloseChecksClosed    Conn.Close's interlock loop contains `if x&1 != 0 { return net.ErrClosed }`
//	apiWriteChecksShutdown  Conn.Write contains `if c.closeNotifySent { return 0, errShutdown }`
//	apiWriteChecksOutErr    Conn.Write contains `if err := c.out.err; err != nil { return 0, err }`
//	apiWriteLatchesErr      Conn.Write ends with `return n, c.out.setErrorLocked(err)`
//	apiCloseNotifyOnce      closeNotify sends inside `if !c.closeNotifySent { … c.closeNotifySent = true … }`
//	apiEOFRule              readRecordOrCCS contains `if err == io.ErrUnexpectedEOF && c.rawInput.Len() == 0 { err = io.EOF }`
//	apiTempNotLatched       number of `if e, ok := err.(net.Error); !ok || !e.Temporary() { c.in.setErrorLocked(err) }`
//	                        in readRecordOrCCS (one per readFromUntil)
//	apiHandshakeErrLatched  handshakeContext contains `if err := c.handshakeErr; err != nil { return err }`
//	apiCtxErrReturned       handshakeContext assigns `ret = ctxErr`
//	apiInterrupterCloses    the interrupter goroutine calls `c.conn.Close()` on `<-handshakeCtx.Done()`
//	apiCloseWriteNeedsHandshake CloseWrite starts with `if !c.handshakeComplete() { return errEarlyCloseWrite }`
//	apiCloseNotifyStmts     the statements of Conn.closeNotify, in order (normalised source): the model's
//	                        `closeNotify` = "once: send, record the result, mark the write side shut down
//	                        WHATEVER the result; afterwards: return the recorded result" transcribes
//	                        exactly these; an early return before `c.closeNotifySent = true`, a reset of
//	                        the flag, … moves the fact
//	apiCloseWriteStmts      the statements of Conn.CloseWrite
//	apiLookAheadCond        condition of the last `if` of Conn.Read (the close-notify look-ahead), whose
//	apiLookAheadBody        body is one more `c.readRecord()` returning `n, err`: the model's `lookAhead`
//	                        runs only with c.input drained AND an alert record buffered in c.rawInput
//	apiReadLoopCond         condition of the `for` of Conn.Read that fills c.input
//	apiInterrupterCond      condition under which handshakeContext starts the interrupter goroutine
//	                        (`ctx.Done() != nil`: every context that can be cancelled is watched)
//	apiCloseInterlockStmts  the statements of Conn.Close up to and including `if x != 0 { … }` (normalised
//	                        source): the compare-and-swap loop that sets the close bit WHATEVER the number of
//	                        Writes in flight (`x|1`), and the early exit that only closes the transport when a
//	                        Write is in flight — the model's `close` (branch `c.inflight.isSome`) transcribes
//	                        exactly these
//	apiWriteInterlockStmts  the statements of Conn.Write in front of `c.Handshake()`: the loop that refuses
//	                        a closed connection and counts the call in (`x+2`), and the deferred `-2`

import (
	"go/ast"
	"strings"
)

func init() {
	extraFactFns = append(extraFactFns, emitConnAPI)
	extraHashed["tlcp"] = append(extraHashed["tlcp"], "Conn.Write", "Conn.Close", "Conn.CloseWrite", "Conn.closeNotify",
		"Conn.handshakeContext", "Conn.HandshakeContext", "Conn.Handshake", "permanentError.Temporary")
}

// hasStmt reports how often a statement with exactly this (normalised) source occurs anywhere in fn.
func countStmt(p *pkg, fn, src string) int {
	fd := p.funcs[fn]
	if fd == nil || fd.Body == nil {
		return 0
	}
	n := 0
	ast.Inspect(fd.Body, func(x ast.Node) bool {
		if st, ok := x.(ast.Stmt); ok {
			if _, isBlock := st.(*ast.BlockStmt); !isBlock && p.src(st) == src {
				n++
			}
		}
		return true
	})
	return n
}

func emitConnAPI(e *emitter, p *pkg) {
	if p.name != "tlcp" {
		return
	}
	e.comment("conn.go: call-level behaviour (Read, Write, Close, CloseWrite, closeNotify, handshakeContext)")
	rb := body(p, "Conn.Read")
	e.boolean("apiReadChecksClosed", len(rb) > 0 && p.src(rb[0]) == "if atomic.LoadInt32(&c.activeCall)&1 != 0 { return 0, net.ErrClosed }")
	e.boolean("apiWriteChecksClosed", countStmt(p, "Conn.Write", "if x&1 != 0 { return 0, net.ErrClosed }") == 1)
	e.boolean("apiCloseChecksClosed", countStmt(p, "Conn.Close", "if x&1 != 0 { return net.ErrClosed }") == 1)
	e.boolean("apiWriteChecksShutdown", countStmt(p, "Conn.Write", "if c.closeNotifySent { return 0, errShutdown }") == 1)
	e.boolean("apiWriteChecksOutErr", countStmt(p, "Conn.Write", "if err := c.out.err; err != nil { return 0, err }") == 1)
	wb := body(p, "Conn.Write")
	e.boolean("apiWriteLatchesErr", len(wb) > 0 && p.src(wb[len(wb)-1]) == "return n, c.out.setErrorLocked(err)")
	once := false
	for _, st := range body(p, "Conn.closeNotify") {
		if is, ok := st.(*ast.IfStmt); ok && p.src(is.Cond) == "!c.closeNotifySent" {
			s := p.src(is.Body)
			once = strings.Contains(s, "c.closeNotifyErr = c.sendAlertLocked(alertCloseNotify)") && strings.Contains(s, "c.closeNotifySent = true")
		}
	}
	e.boolean("apiCloseNotifyOnce", once)
	e.boolean("apiEOFRule", countStmt(p, "Conn.readRecordOrCCS", "if err == io.ErrUnexpectedEOF && c.rawInput.Len() == 0 { err = io.EOF }") == 1)
	e.nat("apiTempNotLatched", int64(countStmt(p, "Conn.readRecordOrCCS", "if e, ok := err.(net.Error); !ok || !e.Temporary() { c.in.setErrorLocked(err) }")), true)
	e.boolean("apiHandshakeErrLatched", countStmt(p, "Conn.handshakeContext", "if err := c.handshakeErr; err != nil { return err }") == 1)
	e.boolean("apiCtxErrReturned", countStmt(p, "Conn.handshakeContext", "ret = ctxErr") == 1)
	e.boolean("apiInterrupterCloses", countStmt(p, "Conn.handshakeContext", "_ = c.conn.Close()") == 1)
	cw := body(p, "Conn.CloseWrite")
	e.boolean("apiCloseWriteNeedsHandshake", len(cw) > 0 && p.src(cw[0]) == "if !c.handshakeComplete() { return errEarlyCloseWrite }")
	stmts := func(fn string) []string {
		var out []string
		for _, st := range body(p, fn) {
			out = append(out, p.src(st))
		}
		return out
	}
	e.strList("apiCloseNotifyStmts", stmts("Conn.closeNotify"))
	e.strList("apiCloseWriteStmts", stmts("Conn.CloseWrite"))
	laCond, laBody, loopCond := "", "", ""
	for _, st := range rb {
		switch x := st.(type) {
		case *ast.IfStmt:
			laCond, laBody = p.src(x.Cond), p.src(x.Body)
		case *ast.ForStmt:
			if x.Cond != nil {
				loopCond = p.src(x.Cond)
			}
		}
	}
	e.str("apiLookAheadCond", laCond)
	e.str("apiLookAheadBody", laBody)
	e.str("apiReadLoopCond", loopCond)
	intCond := ""
	for _, st := range body(p, "Conn.handshakeContext") {
		if is, ok := st.(*ast.IfStmt); ok && strings.Contains(p.src(is.Body), "interruptRes := make(chan error, 1)") {
			intCond = p.src(is.Cond)
		}
	}
	e.str("apiInterrupterCond", intCond)
	// the Write / Close interlock on c.activeCall
	var closeLock []string
	for _, st := range body(p, "Conn.Close") {
		closeLock = append(closeLock, p.src(st))
		if is, ok := st.(*ast.IfStmt); ok && p.src(is.Cond) == "x != 0" {
			break
		}
		if len(closeLock) >= 4 {
			break
		}
	}
	e.strList("apiCloseInterlockStmts", closeLock)
	var writeLock []string
	for _, st := range body(p, "Conn.Write") {
		if strings.Contains(p.src(st), "c.Handshake()") || len(writeLock) >= 4 {
			break
		}
		writeLock = append(writeLock, p.src(st))
	}
	e.strList("apiWriteInterlockStmts", writeLock)
}

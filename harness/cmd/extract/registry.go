package main

// Per-topic fact extractors live in their own files (facts_*.go) and register here from
// init(); each is called once per package (p.name is "tlcp", "dtlcp" or "pa") inside that
// package's Lean namespace.
var extraFactFns []func(e *emitter, p *pkg)

// extraHashed: additional modelled functions whose AST hash is recorded, per package.
var extraHashed = map[string][]string{}

func extraFacts(e *emitter, p *pkg) {
	for _, f := range extraFactFns {
		f(e, p)
	}
}

package main

// Facts for C09 (robustness): presence, constant and position of the guards that protect
// the hand-written index / slice / dereference / type-assertion sites of key_agreement.go and
// conn.go.  Emitted inside `Gotlcp.Facts.tlcp` and `Gotlcp.Facts.dtlcp`:
//
//	kxEccCkxMinLen        K of `if len(ckx.ciphertext) < K {return}` (`== 0` counts as K = 1) placed
//	                      before the first `ckx.ciphertext[i]` in ECC processClientKeyExchange
//	kxEccCkxCipherMin     K of `len(cipher) < K ||` in front of `cipher[0] != 0x30` (0 = absent)
//	kxEccSkxMaxShort      K of `if len(skx.key) <= K {return}` before `skx.key[0]` in ECC processServerKeyExchange
//	kxDheSkxMinLen        K of `if len(skx.key) < K {return}` before `skx.key[3]` in ECDHE processServerKeyExchange
//	kxDheSkxSigHdrMin     K of `if len(signedParams) < K {return}` before `signedParams[0]` (0 = absent)
//	kxEccGckxChecked      ECC generateClientKeyExchange asserts `….(*ecdsa.PublicKey)` in the two-value form
//	                      followed by `if !ok {return}`
//	kxDheGckxNilCheck     ECDHE generateClientKeyExchange has `if hs.encCert == nil {return}` before `hs.encCert.PrivateKey`
//	kxDheGckxPeerMin      K of `if len(hs.peerCertificates) < K {return}` before `hs.peerCertificates[1]` (0 = absent)
//	kxDhePubShapes        getECDHEPublicKey: for each `case L:` of `switch len(ciphertext)` the triple
//	                      (L, pubLenStart, whether the 2-byte length prefix is checked)
//	hsPostHandshakeRefused  readRecordOrCCS, `case recordTypeHandshake:` returns when `handshakeComplete`
//	                      before writing the handshake buffer, without reading on (tlcp: F8; a block
//	                      that ends in `return c.retryReadRecord(…)` ignores the record instead)
//	hsFrameGuards         readHandshake: the ordered texts of the loop / if conditions in front of
//	                      `c.hand.Next` / `c.handBuf.Next`
//	recRetryGuard         retryReadRecord: `c.retryCount++` then `if c.retryCount > maxUselessRecords {…return}`
//	recResetCond          readRecordOrCCS: the conjuncts of the condition of `if … { c.retryCount = 0 }`
//	recLenGuard           readRecordOrCCS: `if n > maxCiphertext {…return}` before the record is taken
//	fragReadsGuard        dtlcp readHandshake: `fragmentReads++` then `if fragmentReads > maxHandshakeFragments {…return}`
//	                      as the first statements of the loop body

import (
	"go/ast"
	"go/token"
	"regexp"
	"strconv"
	"strings"
)

func init() {
	extraFactFns = append(extraFactFns, emitParsers)
	fns := []string{"eccKeyAgreement.processClientKeyExchange", "eccKeyAgreement.processServerKeyExchange",
		"eccKeyAgreement.generateClientKeyExchange", "getECDHEPublicKey",
		"sm2ECDHEKeyAgreement.processClientKeyExchange", "sm2ECDHEKeyAgreement.processServerKeyExchange",
		"sm2ECDHEKeyAgreement.generateClientKeyExchange", "halfConn.decrypt", "extractPadding",
		"Conn.readHandshake", "Conn.readRecordOrCCS", "Conn.retryReadRecord", "Conn.readFromUntil", "Conn.Read"}
	extraHashed["tlcp"] = append(extraHashed["tlcp"], fns...)
	extraHashed["dtlcp"] = append(extraHashed["dtlcp"], append(fns, "Conn.readDatagram", "Conn.cleanupStaleFragments", "Conn.ReadFrom")...)
}

// parEndsInReturn: the block's last statement is a return
func parEndsInReturn(b *ast.BlockStmt) bool {
	if b == nil || len(b.List) == 0 {
		return false
	}
	_, ok := b.List[len(b.List)-1].(*ast.ReturnStmt)
	return ok
}

// parFirstUse returns the position of the first expression node in fd whose source matches re.
func parFirstUse(p *pkg, fd *ast.FuncDecl, re *regexp.Regexp) token.Pos {
	var pos token.Pos
	ast.Inspect(fd.Body, func(n ast.Node) bool {
		switch n.(type) {
		case *ast.IndexExpr, *ast.SliceExpr, *ast.SelectorExpr, *ast.TypeAssertExpr:
			if re.MatchString(p.src(n)) && (pos == 0 || n.Pos() < pos) {
				pos = n.Pos()
			}
		}
		return true
	})
	return pos
}

// parGuardK finds a top-level-or-nested `if <cond> { … return }` of fd whose condition matches
// condRe (one capture group = K, or none = K 1), lying before the first use matching useRe.
func parGuardK(p *pkg, key string, condRe, useRe *regexp.Regexp) (int64, bool) {
	fd := p.funcs[key]
	if fd == nil || fd.Body == nil {
		return 0, false
	}
	use := parFirstUse(p, fd, useRe)
	var k int64
	found := false
	ast.Inspect(fd.Body, func(n ast.Node) bool {
		is, ok := n.(*ast.IfStmt)
		if !ok || found || is.Init != nil || !parEndsInReturn(is.Body) {
			return true
		}
		m := condRe.FindStringSubmatch(p.src(is.Cond))
		if m == nil || (use != 0 && is.Pos() > use) {
			return true
		}
		found = true
		k = 1
		if len(m) > 1 {
			if v, err := strconv.ParseInt(m[1], 0, 64); err == nil {
				k = v
			}
		}
		return true
	})
	return k, found
}

func emitParsers(e *emitter, p *pkg) {
	if p.name != "tlcp" && p.name != "dtlcp" {
		return
	}
	e.comment("key_agreement.go / conn.go: guards in front of hand-written index, slice, dereference and assertion sites (C09)")
	re := regexp.MustCompile

	// --- ECC processClientKeyExchange
	fn := "eccKeyAgreement.processClientKeyExchange"
	useCt := re(`^ckx\.ciphertext\[`)
	k, ok := parGuardK(p, fn, re(`^len\(ckx\.ciphertext\) < (\d+)$`), useCt)
	if !ok {
		k, ok = parGuardK(p, fn, re(`^len\(ckx\.ciphertext\) == 0$`), useCt)
	}
	e.nat("kxEccCkxMinLen", k, ok)
	// the 0x30 test must exist (it is the statement the optional length guard is attached to)
	_, has30 := parGuardK(p, fn, re(`cipher\[0\] != 0x30$`), re(`^cipher\[2\]$`))
	k, ok = parGuardK(p, fn, re(`^len\(cipher\) < (\d+) \|\| cipher\[0\] != 0x30$`), re(`^cipher\[2\]$`))
	if !ok {
		k = 0
	}
	e.nat("kxEccCkxCipherMin", k, has30)

	// --- ECC processServerKeyExchange
	k, ok = parGuardK(p, "eccKeyAgreement.processServerKeyExchange", re(`^len\(skx\.key\) <= (\d+)$`), re(`^skx\.key\[`))
	e.nat("kxEccSkxMaxShort", k, ok)

	// --- ECDHE processServerKeyExchange
	fn = "sm2ECDHEKeyAgreement.processServerKeyExchange"
	k, ok = parGuardK(p, fn, re(`^len\(skx\.key\) < (\d+)$`), re(`^skx\.key\[`))
	e.nat("kxDheSkxMinLen", k, ok)
	k, ok = parGuardK(p, fn, re(`^len\(signedParams\) < (\d+)$`), re(`^signedParams\[`))
	if !ok {
		k = 0
	}
	_, hasSP := parGuardK(p, fn, re(`^sigLen\+2 > len\(signedParams\)$`), re(`^$`))
	e.nat("kxDheSkxSigHdrMin", k, hasSP)

	// --- ECC generateClientKeyExchange: checked assertion
	checked, seen := false, false
	if fd := p.funcs["eccKeyAgreement.generateClientKeyExchange"]; fd != nil && fd.Body != nil {
		for i, st := range fd.Body.List {
			as, ok := st.(*ast.AssignStmt)
			if !ok || len(as.Rhs) != 1 {
				continue
			}
			if _, ok := as.Rhs[0].(*ast.TypeAssertExpr); !ok || !strings.HasSuffix(p.src(as.Rhs[0]), "PublicKey.(*ecdsa.PublicKey)") {
				continue
			}
			seen = true
			if len(as.Lhs) == 2 && i+1 < len(fd.Body.List) {
				if is, ok := fd.Body.List[i+1].(*ast.IfStmt); ok && is.Init == nil && p.src(is.Cond) == "!"+p.src(as.Lhs[1]) && parEndsInReturn(is.Body) {
					checked = true
				}
			}
		}
	}
	e.boolean("kxEccGckxChecked", checked)
	if !seen {
		e.missing = append(e.missing, e.key("kxEccGckxChecked"))
	}

	// --- ECDHE generateClientKeyExchange
	fn = "sm2ECDHEKeyAgreement.generateClientKeyExchange"
	_, nilChk := parGuardK(p, fn, re(`^hs\.encCert == nil$`), re(`^hs\.encCert\.PrivateKey$`))
	e.boolean("kxDheGckxNilCheck", nilChk)
	if fd := p.funcs[fn]; fd == nil || parFirstUse(p, fd, re(`^hs\.encCert\.PrivateKey$`)) == 0 {
		e.missing = append(e.missing, e.key("kxDheGckxNilCheck"))
	}
	k, ok = parGuardK(p, fn, re(`^len\(hs\.peerCertificates\) < (\d+)$`), re(`^hs\.peerCertificates\[`))
	if !ok {
		k = 0
	}
	e.nat("kxDheGckxPeerMin", k, p.funcs[fn] != nil)

	// --- getECDHEPublicKey: switch len(ciphertext) { case L: pubLenStart = S; [size check] }
	var shapes []string
	var shapesJS [][3]int64
	shapesOK := false
	if fd := p.funcs["getECDHEPublicKey"]; fd != nil && fd.Body != nil {
		for _, st := range fd.Body.List {
			sw, ok := st.(*ast.SwitchStmt)
			if !ok || sw.Tag == nil || p.src(sw.Tag) != "len(ciphertext)" {
				continue
			}
			shapesOK = true
			for _, c := range sw.Body.List {
				cc := c.(*ast.CaseClause)
				if cc.List == nil { // default: must return
					if len(cc.Body) == 0 {
						shapesOK = false
					} else if _, ok := cc.Body[len(cc.Body)-1].(*ast.ReturnStmt); !ok {
						shapesOK = false
					}
					continue
				}
				if len(cc.List) != 1 {
					shapesOK = false
					continue
				}
				l, ok1 := p.evalInt(cc.List[0], 0, 0)
				var start int64 = -1
				prefix := false
				for _, b := range cc.Body {
					if as, ok := b.(*ast.AssignStmt); ok && len(as.Lhs) == 1 && p.src(as.Lhs[0]) == "pubLenStart" {
						start, _ = p.evalInt(as.Rhs[0], 0, 0)
					}
					if is, ok := b.(*ast.IfStmt); ok && p.src(is.Cond) == "2+size != len(ciphertext)" && parEndsInReturn(is.Body) {
						prefix = true
					}
				}
				if !ok1 || start < 0 {
					shapesOK = false
					continue
				}
				shapes = append(shapes, "("+strconv.FormatInt(l, 10)+", "+strconv.FormatInt(start, 10)+", "+strconv.FormatBool(prefix)+")")
				pf := int64(0)
				if prefix {
					pf = 1
				}
				shapesJS = append(shapesJS, [3]int64{l, start, pf})
			}
		}
	}
	e.raw("kxDhePubShapes", "List (Nat × Nat × Bool)", "["+strings.Join(shapes, ", ")+"]", shapesJS)
	if !shapesOK {
		e.missing = append(e.missing, e.key("kxDhePubShapes"))
	}

	// --- readRecordOrCCS: post-handshake handshake records
	refused := false
	hand := "c.hand.Write(data)"
	if p.name == "dtlcp" {
		hand = "c.handBuf.Write(data)"
	}
	sawCase := false
	if fd := p.funcs["Conn.readRecordOrCCS"]; fd != nil && fd.Body != nil {
		ast.Inspect(fd.Body, func(n ast.Node) bool {
			cc, ok := n.(*ast.CaseClause)
			if !ok || len(cc.List) != 1 || p.src(cc.List[0]) != "recordTypeHandshake" {
				return true
			}
			sawCase = true
			for _, st := range cc.Body {
				if es, ok := st.(*ast.ExprStmt); ok && p.src(es.X) == hand {
					break
				}
				if is, ok := st.(*ast.IfStmt); ok && is.Init == nil && p.src(is.Cond) == "handshakeComplete" {
					// the block leaves the case without writing: return, or continue (datagrams)
					if len(is.Body.List) > 0 {
						switch l := is.Body.List[len(is.Body.List)-1].(type) {
						case *ast.ReturnStmt:
							// the connection is refused: the block does not go on reading
							// (a `return c.retryReadRecord(…)` ignores the record instead)
							refused = !strings.Contains(p.src(is.Body), "retryReadRecord") && !strings.Contains(p.src(is.Body), "readRecord")
						case *ast.BranchStmt:
							refused = l.Tok == token.CONTINUE
						}
					}
				}
			}
			return true
		})
	}
	e.boolean("hsPostHandshakeRefused", refused)
	if !sawCase {
		e.missing = append(e.missing, e.key("hsPostHandshakeRefused"))
	}

	// --- readHandshake: conditions in front of Next
	var conds []string
	if fd := p.funcs["Conn.readHandshake"]; fd != nil && fd.Body != nil {
		done := false
		var walk func(list []ast.Stmt)
		walk = func(list []ast.Stmt) {
			for _, st := range list {
				if done {
					return
				}
				switch s := st.(type) {
				case *ast.ForStmt:
					if s.Cond != nil {
						conds = append(conds, "for "+p.src(s.Cond))
					} else {
						walk(s.Body.List)
					}
				case *ast.IfStmt:
					if parEndsInReturn(s.Body) {
						conds = append(conds, "if "+p.src(s.Cond))
					}
				case *ast.AssignStmt:
					if len(s.Rhs) == 1 && strings.Contains(p.src(s.Rhs[0]), ".Next(") {
						conds = append(conds, "next "+p.src(s.Rhs[0]))
						done = true
					}
				}
			}
		}
		walk(fd.Body.List)
	}
	e.strList("hsFrameGuards", conds)

	// --- retryReadRecord
	retry := false
	if b := body(p, "Conn.retryReadRecord"); len(b) >= 2 {
		if inc, ok := b[0].(*ast.IncDecStmt); ok && inc.Tok == token.INC && p.src(inc.X) == "c.retryCount" {
			if is, ok := b[1].(*ast.IfStmt); ok && p.src(is.Cond) == "c.retryCount > maxUselessRecords" && parEndsInReturn(is.Body) {
				retry = true
			}
		}
	}
	e.boolean("recRetryGuard", retry)
	// the condition under which readRecordOrCCS resets c.retryCount: its conjuncts, in order
	var reset []string
	if fd := p.funcs["Conn.readRecordOrCCS"]; fd != nil && fd.Body != nil {
		ast.Inspect(fd.Body, func(n ast.Node) bool {
			is, ok := n.(*ast.IfStmt)
			if !ok || len(is.Body.List) != 1 || p.src(is.Body.List[0]) != "c.retryCount = 0" {
				return true
			}
			var flat func(x ast.Expr)
			flat = func(x ast.Expr) {
				if be, ok := x.(*ast.BinaryExpr); ok && be.Op == token.LAND {
					flat(be.X)
					flat(be.Y)
					return
				}
				reset = append(reset, p.src(x))
			}
			flat(is.Cond)
			return true
		})
	}
	e.strList("recResetCond", reset)
	// --- record length guard
	_, lenGuard := parGuardK(p, "Conn.readRecordOrCCS", re(`^n > maxCiphertext$`), re(`^c\.rawInputBuf\[:recordHeaderLen\+n\]$`))
	e.boolean("recLenGuard", lenGuard)

	if p.name == "dtlcp" {
		frag := false
		if fd := p.funcs["Conn.readHandshake"]; fd != nil && fd.Body != nil {
			for _, st := range fd.Body.List {
				fs, ok := st.(*ast.ForStmt)
				if !ok || fs.Cond != nil || len(fs.Body.List) < 2 {
					continue
				}
				if inc, ok := fs.Body.List[0].(*ast.IncDecStmt); ok && inc.Tok == token.INC && p.src(inc.X) == "fragmentReads" {
					if is, ok := fs.Body.List[1].(*ast.IfStmt); ok && p.src(is.Cond) == "fragmentReads > maxHandshakeFragments" && parEndsInReturn(is.Body) {
						frag = true
					}
				}
			}
		}
		e.boolean("fragReadsGuard", frag)

		// readRecordOrCCS: once the call has delivered handshake data it returns instead of
		// reading another datagram: `if len(c.rawInputBuf) < recordHeaderLen { if delivered {…return nil} …readDatagram`
		// and `delivered = true` directly after `c.handBuf.Write(data)`, and the warning-alert case
		// returns instead of retrying when delivered
		top, set, alert := false, false, false
		if fd := p.funcs["Conn.readRecordOrCCS"]; fd != nil && fd.Body != nil {
			ast.Inspect(fd.Body, func(n ast.Node) bool {
				switch t := n.(type) {
				case *ast.IfStmt:
					if p.src(t.Cond) == "len(c.rawInputBuf) < recordHeaderLen" && len(t.Body.List) >= 2 {
						if is, ok := t.Body.List[0].(*ast.IfStmt); ok && p.src(is.Cond) == "delivered" && parEndsInReturn(is.Body) &&
							strings.Contains(p.src(t.Body.List[1]), "c.readDatagram()") {
							top = true
						}
					}
				case *ast.CaseClause:
					for i, st := range t.Body {
						if es, ok := st.(*ast.ExprStmt); ok && p.src(es.X) == "c.handBuf.Write(data)" && i+1 < len(t.Body) {
							if p.src(t.Body[i+1]) == "delivered = true" {
								set = true
							}
						}
						// case alertLevelWarning: … `if delivered { return nil }` before the retry
						if len(t.List) == 1 && p.src(t.List[0]) == "alertLevelWarning" {
							if is, ok := st.(*ast.IfStmt); ok && p.src(is.Cond) == "delivered" && parEndsInReturn(is.Body) && i+1 < len(t.Body) &&
								strings.Contains(p.src(t.Body[i+1]), "c.retryReadRecord(") {
								alert = true
							}
						}
					}
				}
				return true
			})
		}
		e.boolean("recDeliveredGuard", top && set && alert)
	}
}

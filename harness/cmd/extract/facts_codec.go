package main

// Facts of handshake_messages.go used by C14 (both stacks):
//   - extension type codes and trusted-authority identifier types;
//   - the length literals the codecs use: the header skip of the cryptobyte based unmarshals
//     (`s.Skip(N)`), the first `len(data) <op> N` comparison of every hand-indexed unmarshal, the
//     random length of the hellos (marshal: addBytesWithLength, unmarshal: ReadBytes), the
//     SM3-hash identifier length;
//   - where clientHelloMsg.unmarshal (re)makes supportedCurves / supportedSignatureAlgorithms
//     (inside the item loop = F28: only the last item survives);
//   - which unmarshals start with `if !<pkg>IsCompleteMessage(data, typeX) { return false }`
//     (repairs F18a dtlcp / F18b tlcp).
// The marshal / unmarshal bodies themselves are transcribed by hand into Gotlcp.Model.Codec*
// and tied by correspondence; their AST hashes are recorded.

import (
	"go/ast"
	"go/token"
	"strings"
)

var codecMsgTypes = []string{"clientHelloMsg", "serverHelloMsg", "certificateMsg", "serverKeyExchangeMsg",
	"certificateRequestMsg", "serverHelloDoneMsg", "clientKeyExchangeMsg", "certificateVerifyMsg", "finishedMsg"}

func init() {
	extraFactFns = append(extraFactFns, emitCodec)
	for _, pk := range []string{"tlcp", "dtlcp"} {
		for _, t := range codecMsgTypes {
			extraHashed[pk] = append(extraHashed[pk], t+".marshal", t+".unmarshal")
		}
	}
	extraHashed["dtlcp"] = append(extraHashed["dtlcp"], "helloVerifyRequestMsg.marshal", "helloVerifyRequestMsg.unmarshal",
		"dtlcpUnmarshalHeader", "dtlcpMarshalHeader", "dtlcpWriteHeader", "dtlcpIsCompleteMessage")
	extraHashed["tlcp"] = append(extraHashed["tlcp"], "tlcpIsCompleteMessage")
}

// firstLenCompare finds the first `len(data) <op> X` in the function and evaluates X.
func firstLenCompare(p *pkg, key string) (op string, v int64, ok bool) {
	fd := p.funcs[key]
	if fd == nil || fd.Body == nil {
		return "", 0, false
	}
	found := false
	ast.Inspect(fd.Body, func(n ast.Node) bool {
		if found {
			return false
		}
		be, isB := n.(*ast.BinaryExpr)
		if !isB {
			return true
		}
		if p.src(be.X) == "len(data)" {
			if x, o := p.evalInt(be.Y, 0, 0); o {
				op, v, ok, found = be.Op.String(), x, true, true
				return false
			}
		}
		return true
	})
	return
}

// callArg finds the first call whose function source ends with `fn` and whose argument
// `match` (index mi) has the given source, and evaluates argument ai.
func callArg(p *pkg, key, fn string, mi int, match string, ai int) (int64, bool) {
	fd := p.funcs[key]
	if fd == nil || fd.Body == nil {
		return 0, false
	}
	var out int64
	found := false
	ast.Inspect(fd.Body, func(n ast.Node) bool {
		if found {
			return false
		}
		ce, isC := n.(*ast.CallExpr)
		if !isC {
			return true
		}
		f := p.src(ce.Fun)
		if (f == fn || strings.HasSuffix(f, "."+fn)) && len(ce.Args) > ai && len(ce.Args) > mi {
			if mi < 0 || p.src(ce.Args[mi]) == match {
				if x, o := p.evalInt(ce.Args[ai], 0, 0); o {
					out, found = x, true
					return false
				}
			}
		}
		return true
	})
	return out, found
}

// makeLoopDepth: the for-nesting depth at which `m.<field> = make(...)` is found in the function
// (-1 when absent).  In clientHelloMsg.unmarshal depth 1 is the extension loop (before the item
// loop), depth 2 the item loop.
func makeLoopDepth(p *pkg, key, field string) int {
	fd := p.funcs[key]
	if fd == nil || fd.Body == nil {
		return -1
	}
	best := -1
	var visit func(n ast.Node, depth int)
	visit = func(n ast.Node, depth int) {
		ast.Inspect(n, func(x ast.Node) bool {
			switch s := x.(type) {
			case *ast.ForStmt:
				if x != n {
					visit(s.Body, depth+1)
					return false
				}
			case *ast.AssignStmt:
				if len(s.Lhs) == 1 && p.src(s.Lhs[0]) == "m."+field && len(s.Rhs) == 1 && s.Tok == token.ASSIGN {
					if ce, ok := s.Rhs[0].(*ast.CallExpr); ok && p.src(ce.Fun) == "make" && depth > best {
						best = depth
					}
				}
			}
			return true
		})
	}
	visit(fd.Body, 0)
	return best
}

// makeLenAssigned: N of the first `<lhs> := make([]byte, N)` / `<lhs> = make([]byte, N)` in the function
func makeLenAssigned(p *pkg, key, lhs string) (int64, bool) {
	fd := p.funcs[key]
	if fd == nil || fd.Body == nil {
		return 0, false
	}
	var out int64
	found := false
	ast.Inspect(fd.Body, func(n ast.Node) bool {
		if found {
			return false
		}
		as, ok := n.(*ast.AssignStmt)
		if !ok || len(as.Lhs) != 1 || len(as.Rhs) != 1 || p.src(as.Lhs[0]) != lhs {
			return true
		}
		if ce, ok := as.Rhs[0].(*ast.CallExpr); ok && p.src(ce.Fun) == "make" && len(ce.Args) == 2 && p.src(ce.Args[0]) == "[]byte" {
			if v, ok := p.evalInt(ce.Args[1], 0, 0); ok {
				out, found = v, true
			}
		}
		return true
	})
	return out, found
}

// startsWithCompleteCheck: the first statement that is not an assignment to m/raw is
// `if !<pkg>IsCompleteMessage(data, typeX) { return false }`; returns the value of typeX.
func startsWithCompleteCheck(p *pkg, key string) (int64, bool) {
	pre := "!" + p.name + "IsCompleteMessage(data, "
	for _, st := range body(p, key) {
		if is, ok := st.(*ast.IfStmt); ok {
			cond := p.src(is.Cond)
			if strings.HasPrefix(cond, pre) && is.Init == nil && is.Else == nil &&
				len(is.Body.List) == 1 && p.src(is.Body.List[0]) == "return false" {
				arg := strings.TrimSuffix(strings.TrimPrefix(cond, pre), ")")
				return p.constInt(arg)
			}
			return 0, false
		}
		if _, ok := st.(*ast.AssignStmt); ok {
			continue
		}
		return 0, false
	}
	return 0, false
}

func emitCodec(e *emitter, p *pkg) {
	if p.name != "tlcp" && p.name != "dtlcp" {
		return
	}
	e.comment("handshake_messages.go: codec constants (C14)")
	for _, c := range []string{"extensionServerName", "extensionTrustedCAKeys", "extensionStatusRequest", "extensionSupportedGroups",
		"extensionSupportedCurves", "extensionSignatureAlgorithm", "extensionSignatureAlgorithms", "extensionALPN", "extensionClientID",
		"IdentifierTypePreAgreed", "IdentifierTypeX509Name", "IdentifierTypeKeySM3Hash", "IdentifierTypeCertSM3Hash"} {
		v, ok := p.constInt(c)
		e.nat(c, v, ok)
	}
	// random / hash lengths: [clientHello marshal, clientHello unmarshal, serverHello marshal, serverHello unmarshal]
	var rl []int64
	okAll := true
	for _, t := range []string{"clientHelloMsg", "serverHelloMsg"} {
		a, ok1 := callArg(p, t+".marshal", "addBytesWithLength", 1, "m.random", 2)
		b, ok2 := callArg(p, t+".unmarshal", "ReadBytes", 0, "&m.random", 1)
		rl = append(rl, a, b)
		okAll = okAll && ok1 && ok2
	}
	e.natList("codecRandomLens", rl, okAll)
	h, ok := callArg(p, "clientHelloMsg.unmarshal", "ReadBytes", 0, "&ta.Identifier", 1)
	e.nat("codecHashLen", h, ok)
	// first len(data) comparison of the hand-indexed unmarshals
	for _, t := range []string{"certificateMsg", "serverKeyExchangeMsg", "certificateRequestMsg", "serverHelloDoneMsg", "clientKeyExchangeMsg"} {
		op, v, ok := firstLenCompare(p, t+".unmarshal")
		name := "codecMinLen_" + strings.TrimSuffix(t, "Msg")
		e.nat(name, v, ok)
		e.str(name+"_op", op)
	}
	if p.name == "tlcp" {
		// header skips of the cryptobyte based unmarshals: [clientHello, serverHello, certificateVerify, finished]
		var sk []int64
		okS := true
		for _, t := range []string{"clientHelloMsg", "serverHelloMsg", "certificateVerifyMsg", "finishedMsg"} {
			v, ok := callArg(p, t+".unmarshal", "Skip", -1, "", 0)
			sk = append(sk, v)
			okS = okS && ok
		}
		e.natList("codecSkips", sk, okS)
	}
	// where the curve / signature-algorithm lists are (re)made in clientHelloMsg.unmarshal:
	// 0 = nowhere (append), 1 = before the item loop, 2 = inside the item loop
	mode := func(field string) int64 {
		switch d := makeLoopDepth(p, "clientHelloMsg.unmarshal", field); {
		case d >= 2:
			return 2
		case d == 1:
			return 1
		}
		return 0
	}
	_, hasCH := p.funcs["clientHelloMsg.unmarshal"]
	e.nat("codecCurvesMakeMode", mode("supportedCurves"), hasCH)
	e.nat("codecSigAlgsMakeMode", mode("supportedSignatureAlgorithms"), hasCH)
	if p.name == "dtlcp" {
	}
	// what the message constructors emit (C14 Emitted predicates): the constants they use, the
	// length of a fresh random (tlcpRand) and of a fresh session id (doFullHandshake), the
	// certificate types of a CertificateRequest
	for _, c := range []string{"compressionNone", "SM2WithSM3", "CurveSM2", "certTypeRSASign", "certTypeECDSASign"} {
		v, ok := p.constInt(c)
		e.nat("emit_"+c, v, ok)
	}
	erl, okr := makeLenAssigned(p, "Conn.tlcpRand", "rd")
	e.nat("emitRandLen", erl, okr)
	sl, oks := makeLenAssigned(p, "serverHandshakeState.doFullHandshake", "hs.hello.sessionId")
	e.nat("emitSessionIdLen", sl, oks)
	var ct []int64
	okc := false
	if fd := p.funcs["serverHandshakeState.doFullHandshake"]; fd != nil && fd.Body != nil {
		ast.Inspect(fd.Body, func(n ast.Node) bool {
			as, ok := n.(*ast.AssignStmt)
			if !ok || len(as.Lhs) != 1 || len(as.Rhs) != 1 || p.src(as.Lhs[0]) != "certReq.certificateTypes" {
				return true
			}
			if vs, ok := identList(p, as.Rhs[0]); ok {
				ct, okc = vs, true
			}
			return true
		})
	}
	e.natList("emitCertTypes", ct, okc)
	// unmarshals that start with the complete-message guard (repairs F18a / F18b)
	types := append([]string{}, codecMsgTypes...)
	if p.name == "dtlcp" {
		types = append(types, "helloVerifyRequestMsg")
	}
	checked := []int64{}
	for _, t := range types {
		if v, ok := startsWithCompleteCheck(p, t+".unmarshal"); ok {
			checked = append(checked, v)
		}
	}
	e.natList("codecCompleteChecked", checked, true)
	_, has := p.funcs[p.name+"IsCompleteMessage"]
	e.boolean("codecHasCompleteHelper", has)
}

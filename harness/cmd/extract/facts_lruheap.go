package main

// Facts for C11 (the session cache never harms a live session), the *heap* half: what an
// eviction writes through the pointer of the evicted SessionState, and which fields
// SessionState.clone() gives storage of their own.
//
//	lruSessionRefFields   fields of SessionState of slice / pointer / map type, in declaration
//	                      order (a plain struct copy shares their storage)
//	lruCloneShallowFirst  clone() is `cp := *s; …; return &cp`
//	lruCloneDeep          fields clone() re-allocates (`cp.F = make(..)` / append / Clone)
//	lruEvictInPlace       fields whose storage the eviction path of Put overwrites in place
//	                      (setZero(x.F), clear(x.F), x.F[i] = .., range x.F) before dropping them
//	lruEvictDropped       fields the eviction path sets to nil on the evicted object
//	lruEvictOpaque        the eviction path does something else with the evicted session
//	                      (passes it, or a field of it, to another call; assigns a non-nil value)
//	lruTouchesElsewhere   Put/Get mention a SessionState field, or hand a session to a call,
//	                      outside the eviction path
//
// Names carry the prefix `lru` inside Gotlcp.Facts.{tlcp,dtlcp}.

import (
	"go/ast"
	"go/token"
)

func init() {
	extraFactFns = append(extraFactFns, emitLRUHeap)
	for _, st := range []string{"tlcp", "dtlcp"} {
		extraHashed[st] = append(extraHashed[st], "SessionState.clone", "setZero")
	}
}

func lhSessionFields(p *pkg) (all, refs []string, ok bool) {
	ts := p.types["SessionState"]
	if ts == nil {
		return
	}
	st, isStruct := ts.Type.(*ast.StructType)
	if !isStruct {
		return
	}
	for _, f := range st.Fields.List {
		isRef := false
		switch t := f.Type.(type) {
		case *ast.ArrayType:
			isRef = t.Len == nil
		case *ast.StarExpr, *ast.MapType, *ast.ChanType, *ast.FuncType, *ast.InterfaceType:
			isRef = true
		}
		for _, nm := range f.Names {
			all = append(all, nm.Name)
			if isRef {
				refs = append(refs, nm.Name)
			}
		}
	}
	return all, refs, len(all) > 0
}

func lhAdd(xs []string, x string) []string {
	for _, y := range xs {
		if y == x {
			return xs
		}
	}
	return append(xs, x)
}

func lhHas(xs []string, x string) bool {
	for _, y := range xs {
		if y == x {
			return true
		}
	}
	return false
}

// lhClone inspects SessionState.clone().
func lhClone(p *pkg) (shallowFirst bool, deep []string, ok bool) {
	fd := p.funcs["SessionState.clone"]
	if fd == nil || fd.Body == nil || fd.Recv == nil || len(fd.Recv.List) != 1 || len(fd.Recv.List[0].Names) != 1 {
		return
	}
	recv := fd.Recv.List[0].Names[0].Name
	stmts := fd.Body.List
	if len(stmts) < 2 {
		return
	}
	cp := ""
	if as, isAs := stmts[0].(*ast.AssignStmt); isAs && as.Tok == token.DEFINE && len(as.Lhs) == 1 && len(as.Rhs) == 1 && p.src(as.Rhs[0]) == "*"+recv {
		if id, isID := as.Lhs[0].(*ast.Ident); isID {
			cp = id.Name
		}
	}
	if cp == "" {
		return false, nil, true
	}
	if rs, isRet := stmts[len(stmts)-1].(*ast.ReturnStmt); isRet && len(rs.Results) == 1 && p.src(rs.Results[0]) == "&"+cp {
		shallowFirst = true
	}
	fresh := func(e ast.Expr) bool {
		call, isCall := e.(*ast.CallExpr)
		if !isCall {
			return false
		}
		switch p.src(call.Fun) {
		case "make", "bytes.Clone", "slices.Clone":
			return true
		case "append":
			// append([]T(nil), …) / append([]T{}, …): a fresh backing array
			if len(call.Args) > 0 {
				switch a := call.Args[0].(type) {
				case *ast.CompositeLit:
					return len(a.Elts) == 0
				case *ast.CallExpr:
					return len(a.Args) == 1 && p.src(a.Args[0]) == "nil"
				}
			}
		}
		return false
	}
	for _, st := range stmts[1 : len(stmts)-1] {
		ast.Inspect(st, func(n ast.Node) bool {
			as, isAs := n.(*ast.AssignStmt)
			if !isAs || len(as.Lhs) != 1 || len(as.Rhs) != 1 {
				return true
			}
			sel, isSel := as.Lhs[0].(*ast.SelectorExpr)
			if isSel && p.src(sel.X) == cp && fresh(as.Rhs[0]) {
				deep = lhAdd(deep, sel.Sel.Name)
			}
			return true
		})
	}
	return shallowFirst, deep, true
}

// lhEviction walks Put and Get. The eviction path of Put is what follows `… := c.q.Back()`
// up to the reuse of the entry (`entry.state = cs`).
func lhEviction(p *pkg, fields []string) (inPlace, dropped []string, opaque, elsewhere, found bool) {
	isField := func(name string) bool { return lhHas(fields, name) }
	for _, fn := range []string{"lruSessionCache.Put", "lruSessionCache.Get"} {
		stmts := body(p, fn)
		// names of session-valued expressions
		sess := map[string]bool{"cs": true, "entry.state": true, "elem.Value.(*lruSessionCacheEntry).state": true}
		start, end := -1, -1
		if fn == "lruSessionCache.Put" {
			for i, st := range stmts {
				as, isAs := st.(*ast.AssignStmt)
				if !isAs {
					continue
				}
				if len(as.Rhs) == 1 && p.src(as.Rhs[0]) == "c.q.Back()" {
					start = i
				}
				reuse := false
				for _, l := range as.Lhs {
					reuse = reuse || p.src(l) == "entry.state"
				}
				if start >= 0 && i > start && reuse {
					end = i
					found = true
					break
				}
			}
		}
		droppedHere := map[string]bool{}
		for i, st := range stmts {
			inEvict := start >= 0 && i > start && i < end
			var visit func(n ast.Node) bool
			visit = func(n ast.Node) bool {
				switch t := n.(type) {
				case *ast.AssignStmt:
					// aliases: x := <session expr>
					if len(t.Lhs) == 1 && len(t.Rhs) == 1 {
						if id, isID := t.Lhs[0].(*ast.Ident); isID && sess[p.src(t.Rhs[0])] {
							sess[id.Name] = true
							return false
						}
					}
					for k, l := range t.Lhs {
						base := l
						indexed := false
						if ix, isIx := base.(*ast.IndexExpr); isIx {
							base, indexed = ix.X, true
						}
						sel, isSel := base.(*ast.SelectorExpr)
						if !isSel || !isField(sel.Sel.Name) || !sess[p.src(sel.X)] {
							continue
						}
						if !inEvict {
							elsewhere = true
							continue
						}
						switch {
						case indexed:
							if !droppedHere[sel.Sel.Name] {
								inPlace = lhAdd(inPlace, sel.Sel.Name)
							}
						case k < len(t.Rhs) && len(t.Lhs) == len(t.Rhs) && p.src(t.Rhs[k]) == "nil":
							dropped = lhAdd(dropped, sel.Sel.Name)
							droppedHere[sel.Sel.Name] = true
						default:
							opaque = true
						}
					}
					for _, r := range t.Rhs {
						ast.Inspect(r, visit)
					}
					return false
				case *ast.RangeStmt:
					// `for i := range x.F { x.F[i] = … }` is seen through the index assignment;
					// `for _, c := range x.F { … c … }` reaches the elements: opaque
					if sel, isSel := t.X.(*ast.SelectorExpr); isSel && isField(sel.Sel.Name) && sess[p.src(sel.X)] {
						if !inEvict {
							elsewhere = true
						} else if t.Value != nil && p.src(t.Value) != "_" {
							opaque = true
						}
						ast.Inspect(t.Body, visit)
						return false
					}
				case *ast.CallExpr:
					fun := p.src(t.Fun)
					// a method called on a session
					if sel, isSel := t.Fun.(*ast.SelectorExpr); isSel && sess[p.src(sel.X)] {
						if inEvict {
							opaque = true
						} else {
							elsewhere = true
						}
					}
					for _, a := range t.Args {
						as := p.src(a)
						if sess[as] {
							// the session itself handed to a call
							if inEvict {
								opaque = true
							} else {
								elsewhere = true
							}
							continue
						}
						sel, isSel := a.(*ast.SelectorExpr)
						if !isSel || !isField(sel.Sel.Name) || !sess[p.src(sel.X)] {
							ast.Inspect(a, visit)
							continue
						}
						if !inEvict {
							elsewhere = true
							continue
						}
						switch fun {
						case "setZero", "clear":
							if !droppedHere[sel.Sel.Name] {
								inPlace = lhAdd(inPlace, sel.Sel.Name)
							}
						case "len", "cap":
						default:
							opaque = true
						}
					}
					return false
				case *ast.CompositeLit:
					// &lruSessionCacheEntry{sessionKey, cs}: storing the pointer is the cache's job
					return false
				case *ast.SelectorExpr:
					// any other mention of a field of a session (a read): harmless in the eviction
					// path (`if oldCs.masterSecret != nil`), noted elsewhere
					if isField(t.Sel.Name) && sess[p.src(t.X)] && !inEvict {
						elsewhere = true
					}
					return false
				}
				return true
			}
			ast.Inspect(st, visit)
		}
	}
	return
}

func emitLRUHeap(e *emitter, p *pkg) {
	if p.name != "tlcp" && p.name != "dtlcp" {
		return
	}
	e.comment("session.go: what an eviction writes through the evicted SessionState; what clone() copies")
	all, refs, ok := lhSessionFields(p)
	e.strListOk("lruSessionRefFields", refs, ok)
	shallow, deep, okc := lhClone(p)
	e.boolean("lruCloneShallowFirst", shallow)
	e.strListOk("lruCloneDeep", deep, okc)
	inPlace, dropped, opaque, elsewhere, found := lhEviction(p, all)
	e.strListOk("lruEvictInPlace", inPlace, found)
	e.strListOk("lruEvictDropped", dropped, found)
	e.boolean("lruEvictOpaque", opaque)
	e.boolean("lruTouchesElsewhere", elsewhere)
}

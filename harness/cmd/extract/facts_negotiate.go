package main

// Facts of parameter negotiation used by C01 (both stacks), beyond preferenceOrder,
// suiteTable and the Clone field sets that main.go already emits:
//
//   negVersions              the `supportedVersions` table — INFORMATIONAL since the translation tie:
//                            Config.supportedVersions, Config.mutualVersion, supportedVersionsFromMax,
//                            negotiateALPN and checkALPN are translated to Lean on every run and
//                            lean/Gotlcp/Tie/Negotiate.lean proves the translated text equal to the model
//                            with the literals Model.Negotiate.treeVersions / treeAlpnOuterIsFirstArg.
//                            negVersions, negAlpnServerFirst and negAlpnFallback are kept as information:
//                            not used by the model, not pinned by C01_facts, never reported "missing"
//                            (a renamed local or a re-arranged loop must not fail every property's check)
//   negAuthIota              numeric values of the six ClientAuthType constants, by name
//   negRequiresClientCert    the values for which requiresClientCert answers true
//   negSelectServerFirst     selectCipherSuite walks its first list in the outer loop, looks
//                            each entry up in the second, and the server's pickCipherSuite
//                            passes (preferenceList, clientHello.cipherSuites) in this order
//   negPrefListFromOrder     pickCipherSuite builds preferenceList by walking
//                            cipherSuitesPreferenceOrder and keeping configured ids
//                            — negSelectServerFirst, negPrefListFromOrder, negResumePolicyGuards and
//                            negResumeSuiteGuards are INFORMATIONAL since the translation tie of the `sel`
//                            group: selectCipherSuite, mutualCipherSuite, Config.cipherSuites,
//                            serverHandshakeState.cipherSuiteOk / pickCipherSuite / checkForResumption are
//                            translated to Lean on every run and lean/Gotlcp/Tie/Select.lean,
//                            Tie/ResumeDecision.lean prove the translated text equal to the model with the
//                            literals Model.Negotiate.treePref / treeDisabled / treeServerPrefFirst /
//                            treeResumePolicyGuards / treeResumeSuiteGuards: not used by the model, not
//                            pinned by C01_facts (booleans: never "missing")
//   negHelloFromOrder        makeClientHello walks cipherSuitesPreferenceOrder and keeps
//                            configured ids (mutualCipherSuite(configCipherSuites, suiteId))
//   negHelloEcdheGuard       … and skips the ids of negEcdheIds unless hasAuthKeyPair && hasEncKeyPair
//   negEcdheIds              the ids compared in that guard
//   negAlpnServerFirst       negotiateALPN's outer loop is over its first parameter and the
//                            call site passes (config.NextProtos, clientHello.alpnProtocols)
//   negAlpnFallback          the (server, client) pair of the fallback rule
//   negAlpnCallServerFirst   the only caller of negotiateALPN (processClientHello, untranslated) passes
//                            (c.config.NextProtos, hs.clientHello.alpnProtocols): the server's list first
//   negEcdheAuthOverride     doFullHandshake (server): under ECDHE every policy but
//                            RequestClientCert becomes RequireAndVerifyClientCert
//   negCertReqFromRequest    CertificateRequest is sent iff authPolice >= RequestClientCert
//   negVerifyFromIfGiven     processCertsFromClient verifies iff ClientAuth >= VerifyClientCertIfGiven && len(certs) > 0
//   negResumePolicyGuards    checkForResumption refuses to resume when the policy requires a client
//                            certificate and the session records none, or the session records some
//                            and the policy is NoClientCert (F6)
//   negResumeReprocessesCerts doResumeHandshake re-runs processCertsFromClient on the recorded certificates
//   negResumeSuiteGuards     checkForResumption refuses to resume unless the negotiated version is the
//                            session's, the ClientHello still offers the session's suite, and
//                            selectCipherSuite finds that suite among c.config.cipherSuites() (the
//                            configuration in use) with a key type that cipherSuiteOk admits
//   negEncCertNeedsSigCert   the client appends its encryption certificate only when the
//                            certificate list already holds the signing certificate (F36)

import (
	"go/ast"
	"strings"
)

func init() {
	extraFactFns = append(extraFactFns, emitNegotiate)
	for _, st := range []string{"tlcp", "dtlcp"} {
		extraHashed[st] = append(extraHashed[st],
			"Conn.makeClientHello", "clientHandshakeState.pickCipherSuite", "clientHandshakeState.processServerHello",
			"checkALPN", "negotiateALPN", "selectCipherSuite", "mutualCipherSuite",
			"serverHandshakeState.pickCipherSuite", "serverHandshakeState.cipherSuiteOk",
			"serverHandshakeState.processClientHello", "Conn.readClientHello", "Conn.processCertsFromClient",
			"Conn.getClientCertificate", "Conn.getClientKECertificate", "Config.getCertificate", "Config.getEKCertificate",
			"Config.supportedVersions", "Config.mutualVersion", "supportedVersionsFromMax", "Config.cipherSuites",
			"requiresClientCert", "Config.Clone", "CertificateRequestInfo.SupportsCertificate",
			"serverHandshakeState.checkForResumption", "serverHandshakeState.doResumeHandshake")
	}
}

// all statements of a function body, flattened (pre-order)
func allStmts(fd *ast.FuncDecl) []ast.Stmt {
	var out []ast.Stmt
	if fd == nil || fd.Body == nil {
		return nil
	}
	ast.Inspect(fd.Body, func(n ast.Node) bool {
		if s, ok := n.(ast.Stmt); ok {
			out = append(out, s)
		}
		return true
	})
	return out
}

func paramNames(fd *ast.FuncDecl) []string {
	var out []string
	if fd == nil {
		return nil
	}
	for _, f := range fd.Type.Params.List {
		for _, n := range f.Names {
			out = append(out, n.Name)
		}
	}
	return out
}

// the first call of fn inside fd, as argument source texts
func callArgs(p *pkg, fd *ast.FuncDecl, fn string) []string {
	var out []string
	if fd == nil || fd.Body == nil {
		return nil
	}
	ast.Inspect(fd.Body, func(n ast.Node) bool {
		if out != nil {
			return false
		}
		if ce, ok := n.(*ast.CallExpr); ok && p.src(ce.Fun) == fn {
			for _, a := range ce.Args {
				out = append(out, p.src(a))
			}
			if out == nil {
				out = []string{}
			}
			return false
		}
		return true
	})
	return out
}

func emitNegotiate(e *emitter, p *pkg) {
	if p.name != "tlcp" && p.name != "dtlcp" {
		return
	}
	e.comment("negotiation (C01): handshake_client.go, handshake_server.go, cipher_suites.go, common.go")
	// informational since the translation tie (Tie/Negotiate.lean: tie_versions_table_*): [] when the
	// shape is not recognised, never "missing"
	vs, _ := identList(p, p.vars["supportedVersions"])
	e.natList("negVersions", vs, true)

	names := []string{"NoClientCert", "RequestClientCert", "RequireAnyClientCert", "VerifyClientCertIfGiven",
		"RequireAndVerifyClientCert", "RequireAndVerifyAnyKeyUsageClientCert"}
	var iotas []int64
	okAll := true
	for _, n := range names {
		v, ok := p.constInt(n)
		okAll = okAll && ok
		iotas = append(iotas, v)
	}
	e.natList("negAuthIota", iotas, okAll)

	// requiresClientCert: switch c { case A, B, C: return true; default: return false }
	var req []int64
	reqOK := false
	if fd := p.funcs["requiresClientCert"]; fd != nil && fd.Body != nil && len(fd.Body.List) == 1 {
		if sw, ok := fd.Body.List[0].(*ast.SwitchStmt); ok && len(paramNames(fd)) == 1 && p.src(sw.Tag) == paramNames(fd)[0] {
			reqOK = true
			sawDefaultFalse := false
			for _, cs := range sw.Body.List {
				cc := cs.(*ast.CaseClause)
				ret := ""
				if len(cc.Body) == 1 {
					ret = p.src(cc.Body[0])
				}
				if cc.List == nil {
					sawDefaultFalse = ret == "return false"
					continue
				}
				if ret != "return true" {
					reqOK = false
				}
				for _, x := range cc.List {
					v, ok := p.evalInt(x, 0, 0)
					reqOK = reqOK && ok
					req = append(req, v)
				}
			}
			reqOK = reqOK && sawDefaultFalse
		}
	}
	e.natList("negRequiresClientCert", req, reqOK)

	// selectCipherSuite
	selFirst := false
	if fd := p.funcs["selectCipherSuite"]; fd != nil && fd.Body != nil {
		pn := paramNames(fd)
		if len(pn) == 3 && len(fd.Body.List) == 2 {
			if outer, ok := fd.Body.List[0].(*ast.RangeStmt); ok && p.src(outer.X) == pn[0] && p.src(outer.Value) == "id" {
				// candidate := cipherSuites[id]; if candidate == nil || !ok(candidate) { continue }; for _, suppID := range supportedIDs { if id == suppID { return candidate } }
				b := outer.Body.List
				if len(b) == 3 && p.src(b[0]) == "candidate := cipherSuites[id]" {
					is, ok1 := b[1].(*ast.IfStmt)
					in, ok2 := b[2].(*ast.RangeStmt)
					if ok1 && ok2 && p.src(is.Cond) == "candidate == nil || !"+pn[2]+"(candidate)" && p.src(is.Body) == "{ continue }" &&
						p.src(in.X) == pn[1] && len(in.Body.List) == 1 {
						if ii, ok := in.Body.List[0].(*ast.IfStmt); ok && p.src(ii.Cond) == "id == "+p.src(in.Value) && p.src(ii.Body) == "{ return candidate }" {
							selFirst = p.src(fd.Body.List[1]) == "return nil"
						}
					}
				}
			}
		}
	}
	pick := p.funcs["serverHandshakeState.pickCipherSuite"]
	args := callArgs(p, pick, "selectCipherSuite")
	callOK := len(args) == 3 && args[0] == "preferenceList" && args[1] == "hs.clientHello.cipherSuites" && args[2] == "hs.cipherSuiteOk"
	e.boolean("negSelectServerFirst", selFirst && callOK)

	// preferenceList construction
	prefList := false
	for _, st := range allStmts(pick) {
		if rs, ok := st.(*ast.RangeStmt); ok && p.src(rs.X) == "preferenceOrder" && len(rs.Body.List) == 1 {
			if in, ok := rs.Body.List[0].(*ast.RangeStmt); ok && p.src(in.X) == "configCipherSuites" && len(in.Body.List) == 1 {
				if ii, ok := in.Body.List[0].(*ast.IfStmt); ok && p.src(ii.Cond) == "id == "+p.src(rs.Value) &&
					p.src(ii.Body) == "{ preferenceList = append(preferenceList, id) break }" {
					prefList = true
				}
			}
		}
	}
	srcHas := func(fd *ast.FuncDecl, want string) bool {
		for _, st := range allStmts(fd) {
			if p.src(st) == want {
				return true
			}
		}
		return false
	}
	prefList = prefList && srcHas(pick, "preferenceOrder := cipherSuitesPreferenceOrder") && srcHas(pick, "configCipherSuites := c.config.cipherSuites()")
	e.boolean("negPrefListFromOrder", prefList)

	// makeClientHello
	mk := p.funcs["Conn.makeClientHello"]
	helloOrder, guard := false, false
	var ecdheIds []int64
	for _, st := range allStmts(mk) {
		rs, ok := st.(*ast.RangeStmt)
		if !ok || p.src(rs.X) != "preferenceOrder" {
			continue
		}
		v := p.src(rs.Value)
		b := rs.Body.List
		if len(b) == 4 && p.src(b[0]) == "suite := mutualCipherSuite(configCipherSuites, "+v+")" &&
			p.src(b[1]) == "if suite == nil { continue }" &&
			p.src(b[3]) == "hello.cipherSuites = append(hello.cipherSuites, "+v+")" {
			helloOrder = true
			if is, ok := b[2].(*ast.IfStmt); ok && p.src(is.Body) == "{ continue }" {
				cond := p.src(is.Cond)
				const tail = " && !(hasAuthKeyPair && hasEncKeyPair)"
				if strings.HasSuffix(cond, tail) {
					head := strings.TrimSuffix(cond, tail)
					head = strings.TrimSuffix(strings.TrimPrefix(head, "("), ")")
					good := true
					for _, alt := range strings.Split(head, " || ") {
						if !strings.HasPrefix(alt, v+" == ") {
							good = false
							break
						}
						id, ok := p.constInt(strings.TrimPrefix(alt, v+" == "))
						good = good && ok
						ecdheIds = append(ecdheIds, id)
					}
					guard = good
				}
			}
		} else if len(b) == 3 && p.src(b[0]) == "suite := mutualCipherSuite(configCipherSuites, "+v+")" {
			helloOrder = true // the guard is gone
		}
	}
	helloOrder = helloOrder && srcHas(mk, "preferenceOrder := cipherSuitesPreferenceOrder") && srcHas(mk, "configCipherSuites := config.cipherSuites()") &&
		srcHas(mk, "if len(config.Certificates) > 0 || config.GetClientCertificate != nil { hasAuthKeyPair = true }") &&
		srcHas(mk, "if len(config.Certificates) > 1 || config.GetClientKECertificate != nil { hasEncKeyPair = true }")
	e.boolean("negHelloFromOrder", helloOrder)
	e.boolean("negHelloEcdheGuard", guard)
	e.natList("negEcdheIds", ecdheIds, true)

	// negotiateALPN
	alpnFirst := false
	var fallback []string
	if fd := p.funcs["negotiateALPN"]; fd != nil && fd.Body != nil {
		pn := paramNames(fd)
		for _, st := range fd.Body.List {
			outer, ok := st.(*ast.RangeStmt)
			if !ok || len(pn) != 2 || p.src(outer.X) != pn[0] || len(outer.Body.List) != 1 {
				continue
			}
			in, ok := outer.Body.List[0].(*ast.RangeStmt)
			if !ok || p.src(in.X) != pn[1] || len(in.Body.List) != 2 {
				continue
			}
			sv, cv := p.src(outer.Value), p.src(in.Value)
			if p.src(in.Body.List[0]) == "if "+sv+" == "+cv+" { return "+sv+", nil }" {
				alpnFirst = true
			}
			if is, ok := in.Body.List[1].(*ast.IfStmt); ok && p.src(is.Body) == "{ http11fallback = true }" {
				if be, ok := is.Cond.(*ast.BinaryExpr); ok {
					l, r := p.src(be.X), p.src(be.Y)
					if strings.HasPrefix(l, sv+" == \"") && strings.HasPrefix(r, cv+" == \"") {
						fallback = []string{strings.Trim(strings.TrimPrefix(l, sv+" == "), "\""), strings.Trim(strings.TrimPrefix(r, cv+" == "), "\"")}
					}
				}
			}
		}
	}
	aargs := callArgs(p, p.funcs["serverHandshakeState.processClientHello"], "negotiateALPN")
	alpnCall := len(aargs) == 2 && aargs[0] == "c.config.NextProtos" && aargs[1] == "hs.clientHello.alpnProtocols"
	// the shape of negotiateALPN itself (loop nesting, the fallback literals) is informational since the
	// translation tie (Tie/Negotiate.lean: tie_negotiateALPN_*); the call site stays a fact
	e.boolean("negAlpnServerFirst", alpnFirst && alpnCall)
	e.strList("negAlpnFallback", fallback)
	e.boolean("negAlpnCallServerFirst", alpnCall)

	// server doFullHandshake: ECDHE override and the request threshold
	sfh := p.funcs["serverHandshakeState.doFullHandshake"]
	override := false
	for _, st := range allStmts(sfh) {
		if is, ok := st.(*ast.IfStmt); ok && len(is.Body.List) == 1 && strings.Contains(p.src(is.Cond), "hs.suite.id == ECDHE_SM4_") {
			if p.src(is.Body.List[0]) == "if authPolice != RequestClientCert { authPolice = RequireAndVerifyClientCert }" {
				override = true
			}
		}
	}
	override = override && srcHas(sfh, "authPolice := c.config.ClientAuth")
	e.boolean("negEcdheAuthOverride", override)
	nReq := 0
	for _, st := range allStmts(sfh) {
		if is, ok := st.(*ast.IfStmt); ok && p.src(is.Cond) == "authPolice >= RequestClientCert" {
			nReq++
		}
	}
	e.boolean("negCertReqFromRequest", nReq == 2)

	// processCertsFromClient
	pcc := p.funcs["Conn.processCertsFromClient"]
	verifyFrom, reqCheck, ecdheTwo := false, false, false
	for _, st := range allStmts(pcc) {
		if is, ok := st.(*ast.IfStmt); ok {
			switch p.src(is.Cond) {
			case "c.config.ClientAuth >= VerifyClientCertIfGiven && len(certs) > 0":
				verifyFrom = true
			case "len(certs) == 0 && requiresClientCert(c.config.ClientAuth)":
				reqCheck = true
			case "len(certs) < 2 && isECDHE":
				ecdheTwo = true
			}
		}
	}
	e.boolean("negVerifyFromIfGiven", verifyFrom && reqCheck && ecdheTwo)

	// resumption: the policy guards of checkForResumption (F6) and the re-check of the recorded certificates
	cfr := p.funcs["serverHandshakeState.checkForResumption"]
	g1, g2 := false, false
	for _, st := range allStmts(cfr) {
		if is, ok := st.(*ast.IfStmt); ok && p.src(is.Body) == "{ return false }" {
			switch p.src(is.Cond) {
			case "needClientCerts && !sessionHasClientCerts":
				g1 = true
			case "sessionHasClientCerts && c.config.ClientAuth == NoClientCert":
				g2 = true
			}
		}
	}
	g1 = g1 && srcHas(cfr, "needClientCerts := requiresClientCert(c.config.ClientAuth)") &&
		srcHas(cfr, "sessionHasClientCerts := len(hs.sessionState.peerCertificates) != 0")
	e.boolean("negResumePolicyGuards", g1 && g2)
	// … and its version / suite guards
	gv, gOffer, gLoop, gNil := false, false, false, false
	for _, st := range allStmts(cfr) {
		switch s := st.(type) {
		case *ast.IfStmt:
			if p.src(s.Body) != "{ return false }" {
				continue
			}
			switch p.src(s.Cond) {
			case "c.vers != hs.sessionState.vers":
				gv = true
			case "!cipherSuiteOk":
				gOffer = true
			case "hs.suite == nil":
				gNil = true
			}
		case *ast.RangeStmt:
			if p.src(s.X) == "hs.clientHello.cipherSuites" && len(s.Body.List) == 1 &&
				p.src(s.Body.List[0]) == "if "+p.src(s.Value)+" == hs.sessionState.cipherSuite { cipherSuiteOk = true break }" {
				gLoop = true
			}
		}
	}
	sargs := callArgs(p, cfr, "selectCipherSuite")
	gSel := len(sargs) == 3 && sargs[0] == "[]uint16{hs.sessionState.cipherSuite}" && sargs[1] == "c.config.cipherSuites()" && sargs[2] == "hs.cipherSuiteOk"
	e.boolean("negResumeSuiteGuards", gv && gOffer && gLoop && gNil && gSel && srcHas(cfr, "cipherSuiteOk := false"))
	reproc := false
	for _, st := range allStmts(p.funcs["serverHandshakeState.doResumeHandshake"]) {
		if is, ok := st.(*ast.IfStmt); ok && is.Init != nil && strings.HasPrefix(p.src(is.Init), "err := c.processCertsFromClient(") {
			reproc = true
		}
	}
	e.boolean("negResumeReprocessesCerts", reproc)

	// client doFullHandshake: the certificate list
	cfh := p.funcs["clientHandshakeState.doFullHandshake"]
	encNeedsSig, encFound := false, false
	for _, st := range allStmts(cfh) {
		if is, ok := st.(*ast.IfStmt); ok && p.src(is.Body) == "{ certMsg.certificates = append(certMsg.certificates, clientEncCert.Certificate[0]) }" {
			encFound = true
			switch p.src(is.Cond) {
			case "len(certMsg.certificates) > 0 && clientEncCert != nil && len(clientEncCert.Certificate) > 0":
				encNeedsSig = true
			case "clientEncCert != nil && len(clientEncCert.Certificate) > 0":
			default:
				encFound = false
			}
		}
	}
	if !encFound {
		e.missing = append(e.missing, e.key("negEncCertNeedsSigCert"))
	}
	e.boolean("negEncCertNeedsSigCert", encNeedsSig)
}

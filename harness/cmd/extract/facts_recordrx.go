package main

// Facts for C05 (tlcp/conn.go: the receiving record layer).  Emitted inside `Gotlcp.Facts.tlcp`:
//
//	rxLatchCheckedFirst            readRecordOrCCS starts with `if c.in.err != nil { return c.in.err }`
//	rxDecryptFailLatchesSentAlert  the statement after `data, typ, err := c.in.decrypt(record)` is
//	                               `if err != nil { return c.in.setErrorLocked(c.sendAlert(err.(alert))) }`
//	rxDecryptFailAlerts            the distinct alerts of the `return nil, 0, <alert>` statements of
//	                               halfConn.decrypt (values, sorted)
//	rxIncSeqAfterChecks            halfConn.decrypt calls hc.incSeq() exactly once, as the statement
//	                               right before its final return
//	rxWarningLevelAlerts           the alerts sendAlertLocked sends at warning level (first case
//	                               list of its switch, whose body sets alertLevelWarning)
//	rxAppDataNeedsCipher           readRecordOrCCS has `if c.in.cipher == nil && typ ==
//	                               recordTypeApplicationData { return …alertUnexpectedMessage }`
//	rxPaddingWindow                the literal of `toCheck := K` in extractPadding (INFORMATIONAL: extractPadding
//	                               is translated on every run and Tie/Padding.lean proves the translated text equal
//	                               to the model with its 256-byte window for every payload, so this text match is
//	                               neither pinned by C05_facts nor ever reported as a missing fact; 0 = the
//	                               statement was not found under that name)
//	rxPostHandshakeRefused         `case recordTypeHandshake:` contains `if handshakeComplete {
//	                               return c.in.setErrorLocked(c.sendAlert(alertNoRenegotiation)) }`
//	                               (the repair of F8)
//	rxSwitchDefaultRefuses         the `default:` of the record-type switch returns
//	                               setErrorLocked(sendAlert(alertUnexpectedMessage))
//	rxAppDataGuard                 source text of the condition of the first `if` in
//	                               `case recordTypeApplicationData:` (refused with unexpected_message)
//	rxSwitchCases                  the record types the switch names, in order
//	rxSendAlertStmts               the statements of Conn.sendAlert, in order (normalised source): the
//	rxSendAlertLockedStmts         model's `failAlert` = "send, then latch the local error" is a
//	                               transcription of exactly these; any other statement (an early
//	                               return, a condition on closeNotifySent, …) moves the fact

import (
	"go/ast"
	"go/token"
	"sort"
	"strings"
)

func init() {
	extraFactFns = append(extraFactFns, emitRecordRx)
	extraHashed["tlcp"] = append(extraHashed["tlcp"], "extractPadding", "halfConn.decrypt", "halfConn.incSeq",
		"halfConn.setErrorLocked", "Conn.readRecordOrCCS", "Conn.retryReadRecord", "Conn.readFromUntil",
		"atLeastReader.Read", "Conn.sendAlertLocked", "Conn.sendAlert", "Conn.Read")
}

const refuseUnexpected = "return c.in.setErrorLocked(c.sendAlert(alertUnexpectedMessage))"

func emitRecordRx(e *emitter, p *pkg) {
	if p.name != "tlcp" {
		return
	}
	e.comment("conn.go: receiving record layer (readRecordOrCCS, halfConn.decrypt, extractPadding, sendAlertLocked)")
	rb := body(p, "Conn.readRecordOrCCS")

	e.boolean("rxLatchCheckedFirst", len(rb) > 0 && p.src(rb[0]) == "if c.in.err != nil { return c.in.err }")

	latch := false
	needsCipher := false
	var sw *ast.SwitchStmt
	for i, st := range rb {
		if p.src(st) == "data, typ, err := c.in.decrypt(record)" && i+1 < len(rb) {
			latch = p.src(rb[i+1]) == "if err != nil { return c.in.setErrorLocked(c.sendAlert(err.(alert))) }"
		}
		if p.src(st) == "if c.in.cipher == nil && typ == recordTypeApplicationData { "+refuseUnexpected+" }" {
			needsCipher = true
		}
		if s, ok := st.(*ast.SwitchStmt); ok && p.src(s.Tag) == "typ" {
			sw = s
		}
	}
	e.boolean("rxDecryptFailLatchesSentAlert", latch)
	e.boolean("rxAppDataNeedsCipher", needsCipher)

	// halfConn.decrypt
	db := body(p, "halfConn.decrypt")
	alerts := map[int64]bool{}
	okAlerts := len(db) > 0
	incCalls := 0
	if fd := p.funcs["halfConn.decrypt"]; fd != nil && fd.Body != nil {
		ast.Inspect(fd.Body, func(n ast.Node) bool {
			switch x := n.(type) {
			case *ast.ReturnStmt:
				if len(x.Results) == 3 && p.src(x.Results[0]) == "nil" {
					if id, ok := x.Results[2].(*ast.Ident); ok {
						if v, ok := p.constInt(id.Name); ok {
							alerts[v] = true
						} else {
							okAlerts = false
						}
					} else {
						okAlerts = false
					}
				}
			case *ast.CallExpr:
				if p.src(x) == "hc.incSeq()" {
					incCalls++
				}
			}
			return true
		})
	}
	var al []int64
	for v := range alerts {
		al = append(al, v)
	}
	sort.Slice(al, func(i, j int) bool { return al[i] < al[j] })
	e.natList("rxDecryptFailAlerts", al, okAlerts)
	incLast := false
	if n := len(db); n >= 2 {
		_, isRet := db[n-1].(*ast.ReturnStmt)
		incLast = isRet && p.src(db[n-2]) == "hc.incSeq()"
	}
	e.boolean("rxIncSeqAfterChecks", incLast && incCalls == 1)

	// sendAlertLocked: warning-level alerts
	var warn []int64
	okWarn := false
	for _, st := range body(p, "Conn.sendAlertLocked") {
		s, ok := st.(*ast.SwitchStmt)
		if !ok || p.src(s.Tag) != "err" {
			continue
		}
		for _, c := range s.Body.List {
			cc := c.(*ast.CaseClause)
			if len(cc.List) == 0 || len(cc.Body) != 1 || p.src(cc.Body[0]) != "c.tmp[0] = alertLevelWarning" {
				continue
			}
			okWarn = true
			for _, x := range cc.List {
				id, ok := x.(*ast.Ident)
				if !ok {
					okWarn = false
					continue
				}
				v, ok := p.constInt(id.Name)
				if !ok {
					okWarn = false
				}
				warn = append(warn, v)
			}
		}
	}
	e.natList("rxWarningLevelAlerts", warn, okWarn)

	// extractPadding: toCheck := K
	var win int64
	okWin := false
	for _, st := range body(p, "extractPadding") {
		as, ok := st.(*ast.AssignStmt)
		if ok && as.Tok == token.DEFINE && len(as.Lhs) == 1 && p.src(as.Lhs[0]) == "toCheck" {
			win, okWin = p.evalInt(as.Rhs[0], 0, 0)
		}
	}
	// informational since the translation tie (Tie/Padding.lean: tie_extractPadding): a renamed local
	// or a re-arranged clamp must not make a fact "missing" (that would fail every property's check)
	if !okWin || win < 0 {
		win = 0
	}
	e.nat("rxPaddingWindow", win, true)

	// the record-type switch
	postHs, defRefuses := false, false
	guard := ""
	var cases []string
	if sw != nil {
		for _, c := range sw.Body.List {
			cc := c.(*ast.CaseClause)
			if len(cc.List) == 0 {
				defRefuses = len(cc.Body) == 1 && p.src(cc.Body[0]) == refuseUnexpected
				continue
			}
			name := p.src(cc.List[0])
			cases = append(cases, name)
			switch name {
			case "recordTypeHandshake":
				for _, st := range cc.Body {
					if p.src(st) == "if handshakeComplete { return c.in.setErrorLocked(c.sendAlert(alertNoRenegotiation)) }" {
						postHs = true
					}
				}
			case "recordTypeApplicationData":
				if len(cc.Body) > 0 {
					if is, ok := cc.Body[0].(*ast.IfStmt); ok && strings.Contains(p.src(is.Body), refuseUnexpected) {
						guard = p.src(is.Cond)
					}
				}
			}
		}
	}
	stmts := func(fn string) []string {
		var out []string
		for _, st := range body(p, fn) {
			out = append(out, p.src(st))
		}
		return out
	}
	e.strList("rxSendAlertStmts", stmts("Conn.sendAlert"))
	e.strList("rxSendAlertLockedStmts", stmts("Conn.sendAlertLocked"))
	e.boolean("rxPostHandshakeRefused", postHs)
	e.boolean("rxSwitchDefaultRefuses", defRefuses)
	e.str("rxAppDataGuard", guard)
	e.strList("rxSwitchCases", cases)
}

package main

// Facts for C17 (handshake fragmentation / reassembly): the guards, bitmap expressions and
// header rewrite of dtlcp/fragment.go and of the fragment branches of dtlcp/conn.go, as
// normalised source text, plus Booleans for "this guard ends in a return".

import (
	"go/ast"
	"go/token"
	"strings"
)

func init() {
	extraFactFns = append(extraFactFns, emitFragment)
	extraHashed["dtlcp"] = append(extraHashed["dtlcp"],
		"fragmentBuffer.assembled", "Conn.readHandshake", "Conn.writeHandshakeRecord",
		"Conn.cleanupStaleFragments", "Conn.clearPendingFragments")
}

// endsInReturn: the block's last statement is a return
func endsInReturn(b *ast.BlockStmt) bool {
	if b == nil || len(b.List) == 0 {
		return false
	}
	_, ok := b.List[len(b.List)-1].(*ast.ReturnStmt)
	return ok
}

// findIf returns the first if statement (anywhere in fn) whose condition prints as cond
func findIf(p *pkg, fn string, cond string) *ast.IfStmt {
	fd := p.funcs[fn]
	if fd == nil || fd.Body == nil {
		return nil
	}
	var res *ast.IfStmt
	ast.Inspect(fd.Body, func(n ast.Node) bool {
		if is, ok := n.(*ast.IfStmt); ok && res == nil && p.src(is.Cond) == cond {
			res = is
		}
		return res == nil
	})
	return res
}

// assignRHS returns the printed right-hand side of the first `lhs := rhs` / `lhs = rhs` in fn
func assignRHS(p *pkg, fn, lhs string) (string, bool) {
	fd := p.funcs[fn]
	if fd == nil || fd.Body == nil {
		return "", false
	}
	res, ok := "", false
	ast.Inspect(fd.Body, func(n ast.Node) bool {
		if as, is := n.(*ast.AssignStmt); is && !ok && len(as.Lhs) == 1 && len(as.Rhs) == 1 && p.src(as.Lhs[0]) == lhs {
			res, ok = p.src(as.Rhs[0]), true
		}
		return !ok
	})
	return res, ok
}

func emitFragment(e *emitter, p *pkg) {
	if p.name != "dtlcp" {
		return
	}
	e.comment("fragment.go / conn.go: handshake fragmentation and reassembly (C17)")
	strFact := func(name, v string, ok bool) {
		if !ok {
			e.str(name, "")
			e.missing = append(e.missing, e.key(name))
			return
		}
		e.str(name, v)
	}

	// --- newFragmentBuffer: floor `if n < 1 { n = 1 }`, sizes of data / received
	floorOK := false
	if is := findIf(p, "newFragmentBuffer", "n < 1"); is != nil && len(is.Body.List) == 1 && p.src(is.Body.List[0]) == "n = 1" {
		floorOK = true
	}
	e.boolean("fragNewFloorsAtOne", floorOK)
	var dataSz, recvSz string
	okSz := false
	if fd := p.funcs["newFragmentBuffer"]; fd != nil {
		ast.Inspect(fd.Body, func(n ast.Node) bool {
			if kv, ok := n.(*ast.KeyValueExpr); ok {
				switch p.src(kv.Key) {
				case "data":
					dataSz = p.src(kv.Value)
				case "received":
					recvSz = p.src(kv.Value)
				case "numBytes":
					okSz = p.src(kv.Value) == "n"
				}
			}
			return true
		})
	}
	strFact("fragNewData", dataSz, dataSz != "")
	strFact("fragNewReceived", recvSz, recvSz != "")
	e.boolean("fragNewNumBytesIsN", okSz)

	// --- addFragment: guard, copy, bit loop
	guard, guardRejects := "", false
	var copyStmt, loopStmt string
	if b := body(p, "fragmentBuffer.addFragment"); len(b) > 0 {
		if is, ok := b[0].(*ast.IfStmt); ok {
			guard = p.src(is.Cond)
			if len(is.Body.List) == 1 {
				guardRejects = p.src(is.Body.List[0]) == "return false"
			}
		}
		for _, st := range b {
			switch s := st.(type) {
			case *ast.ExprStmt:
				if strings.HasPrefix(p.src(s), "copy(") {
					copyStmt = p.src(s)
				}
			case *ast.ForStmt:
				loopStmt = p.src(s)
			}
		}
	}
	strFact("fragAddGuard", guard, guard != "")
	e.boolean("fragAddGuardRejects", guardRejects)
	strFact("fragAddCopy", copyStmt, copyStmt != "")
	endRHS, okEnd := assignRHS(p, "fragmentBuffer.addFragment", "end")
	strFact("fragAddEnd", endRHS, okEnd)
	strFact("fragAddBitLoop", loopStmt, loopStmt != "")

	// --- complete: full / rem / mask expressions and the two tests
	full, ok1 := assignRHS(p, "fragmentBuffer.complete", "full")
	rem, ok2 := assignRHS(p, "fragmentBuffer.complete", "rem")
	mask, ok3 := assignRHS(p, "fragmentBuffer.complete", "mask")
	strFact("fragCompleteFull", full, ok1)
	strFact("fragCompleteRem", rem, ok2)
	strFact("fragCompleteMask", mask, ok3)
	t1 := findIf(p, "fragmentBuffer.complete", "fb.received[i] != 0xFF")
	t2 := findIf(p, "fragmentBuffer.complete", "fb.received[full]&mask != mask")
	t3 := findIf(p, "fragmentBuffer.complete", "rem > 0")
	e.boolean("fragCompleteTests", t1 != nil && endsInReturn(t1.Body) && t2 != nil && endsInReturn(t2.Body) && t3 != nil)
	loopHdr := ""
	if fd := p.funcs["fragmentBuffer.complete"]; fd != nil {
		for _, st := range fd.Body.List {
			if fs, ok := st.(*ast.ForStmt); ok {
				loopHdr = p.src(fs.Init) + "; " + p.src(fs.Cond) + "; " + p.src(fs.Post)
			}
		}
	}
	strFact("fragCompleteLoop", loopHdr, loopHdr != "")
	asm := ""
	if b := body(p, "fragmentBuffer.assembled"); len(b) == 1 {
		asm = p.src(b[0])
	}
	strFact("fragAssembled", asm, asm != "")

	// --- readHandshake: guards of the fragment branch
	capIf := findIf(p, "Conn.readHandshake", "fragmentReads > maxHandshakeFragments")
	e.boolean("rxFragmentCapFatal", capIf != nil && endsInReturn(capIf.Body))
	lenIf := findIf(p, "Conn.readHandshake", "bodyLen > maxHandshake")
	e.boolean("rxTooLongFatal", lenIf != nil && endsInReturn(lenIf.Body))
	oobIf := findIf(p, "Conn.readHandshake", "fragOff+fragLen > bodyLen")
	e.boolean("rxOobFatal", oobIf != nil && endsInReturn(oobIf.Body))
	// order of the two tests and position before the payload wait
	order := false
	if lenIf != nil && oobIf != nil {
		order = lenIf.Pos() < oobIf.Pos()
	}
	e.boolean("rxTooLongBeforeOob", order)
	brIf := findIf(p, "Conn.readHandshake", "fragLen < bodyLen || fragOff > 0")
	e.boolean("rxFragmentBranch", brIf != nil)
	// the repair of F19: a fragment whose announced length differs from the pending buffer is fatal
	mismatch := false
	var addCall, newCall string
	var hdrVals []string
	hdrOK := true
	if brIf != nil {
		ast.Inspect(brIf.Body, func(n ast.Node) bool {
			switch s := n.(type) {
			case *ast.IfStmt:
				c := p.src(s.Cond)
				if strings.Contains(c, "exists") && strings.Contains(c, "!=") && strings.Contains(c, "bodyLen") &&
					(strings.Contains(c, "fb.totalLen") || strings.Contains(c, "fb.numBytes")) && endsInReturn(s.Body) {
					mismatch = true
				}
			case *ast.CallExpr:
				c := p.src(s)
				if strings.HasPrefix(c, "fb.addFragment(") {
					addCall = c
				}
				if strings.HasPrefix(c, "newFragmentBuffer(") {
					newCall = c
				}
			}
			return true
		})
		vals := map[string]string{}
		for _, st := range brIf.Body.List {
			if as, ok := st.(*ast.AssignStmt); ok && as.Tok == token.ASSIGN && len(as.Lhs) == 1 && len(as.Rhs) == 1 {
				l := p.src(as.Lhs[0])
				if strings.HasPrefix(l, "fullHeader[") {
					vals[l] = p.src(as.Rhs[0])
				}
			}
		}
		for i := 0; i < 12; i++ {
			v, ok := vals["fullHeader["+fragItoa(i)+"]"]
			if !ok {
				hdrOK = false
			}
			hdrVals = append(hdrVals, v)
		}
	} else {
		hdrOK = false
	}
	e.boolean("rxTotalMismatchFatal", mismatch)
	strFact("rxAddCall", addCall, addCall != "")
	strFact("rxNewCall", newCall, newCall != "")
	if hdrOK {
		e.strList("rxRebuiltHeader", hdrVals)
	} else {
		e.strList("rxRebuiltHeader", nil)
		e.missing = append(e.missing, e.key("rxRebuiltHeader"))
	}
	rebuilt, okR := assignRHS(p, "Conn.readHandshake", "data")
	_ = rebuilt
	_ = okR
	// which fields feed the three lengths
	bl, okb := assignRHS(p, "Conn.readHandshake", "bodyLen")
	fo, oko := assignRHS(p, "Conn.readHandshake", "fragOff")
	fl, okl := assignRHS(p, "Conn.readHandshake", "fragLen")
	strFact("rxBodyLen", bl, okb)
	strFact("rxFragOff", fo, oko)
	strFact("rxFragLen", fl, okl)

	// --- writeHandshakeRecord: single-record test, fragment body size, loop.
	// INFORMATIONAL since the translation tie: the function is translated to Lean on every run
	// (go2lean, namespace Src.dtlcp.tx) and lean/Gotlcp/Tie/TxFragment*.lean prove the translated text equal
	// to the model for all inputs (C17_src_tx_is_model), so no theorem pins these text facts and a renamed
	// local must not break a check: they are never "missing".
	infoFact := func(name, v string, ok bool) {
		if !ok {
			v = ""
		}
		e.str(name, v)
	}
	single := findIf(p, "Conn.writeHandshakeRecord", "len(data) <= maxPayload")
	e.boolean("txSingleWhenFits", single != nil && endsInReturn(single.Body))
	mfb, okm := assignRHS(p, "Conn.writeHandshakeRecord", "maxFragBody")
	infoFact("txMaxFragBody", mfb, okm)
	small := findIf(p, "Conn.writeHandshakeRecord", "maxFragBody <= 0")
	e.boolean("txZeroFragBodyIsError", small != nil && endsInReturn(small.Body))
	fe, okf := assignRHS(p, "Conn.writeHandshakeRecord", "fragEnd")
	infoFact("txFragEnd", fe, okf)
	clamp := findIf(p, "Conn.writeHandshakeRecord", "fragEnd > bodyLen")
	e.boolean("txFragEndClamped", clamp != nil && len(clamp.Body.List) == 1 && p.src(clamp.Body.List[0]) == "fragEnd = bodyLen")
	loop := ""
	if fd := p.funcs["Conn.writeHandshakeRecord"]; fd != nil {
		ast.Inspect(fd.Body, func(n ast.Node) bool {
			if fs, ok := n.(*ast.ForStmt); ok && loop == "" {
				loop = p.src(fs.Init) + "; " + p.src(fs.Cond) + "; "
				if fs.Post != nil {
					loop += p.src(fs.Post)
				}
				if len(fs.Body.List) > 0 {
					loop += " … " + p.src(fs.Body.List[len(fs.Body.List)-1])
				}
			}
			return true
		})
	}
	infoFact("txLoop", loop, loop != "")

	// --- transcripts: the sender hashes the marshalled, unfragmented `data` before it splits;
	// the receiver hashes the delivered (rebuilt) message once.  The three sender facts (txTranscriptWrites,
	// txTranscriptBeforeSplit, txDataIsMarshal) are INFORMATIONAL since the translation tie (proved of the
	// translated writeHandshakeRecord: C17_src_tx_is_model / C17_src_tx_fragments); no theorem pins them.
	calls := func(fn, prefix string) (out []string, pos []token.Pos) {
		fd := p.funcs[fn]
		if fd == nil || fd.Body == nil {
			return
		}
		ast.Inspect(fd.Body, func(n ast.Node) bool {
			if c, ok := n.(*ast.CallExpr); ok && strings.HasPrefix(p.src(c), prefix) {
				out = append(out, p.src(c))
				pos = append(pos, c.Pos())
			}
			return true
		})
		return
	}
	tw, twPos := calls("Conn.writeHandshakeRecord", "transcript.Write(")
	if tw == nil {
		tw = []string{}
	}
	e.strList("txTranscriptWrites", tw)
	before, marshalOK, dataAssigns := false, false, 0
	if fd := p.funcs["Conn.writeHandshakeRecord"]; fd != nil {
		var mpPos token.Pos
		ast.Inspect(fd.Body, func(n ast.Node) bool {
			if as, ok := n.(*ast.AssignStmt); ok {
				l := ""
				for i, x := range as.Lhs {
					if i > 0 {
						l += ", "
					}
					l += p.src(x)
				}
				if l == "maxPayload" && mpPos == 0 {
					mpPos = as.Pos()
				}
				for _, x := range as.Lhs {
					if p.src(x) == "data" {
						dataAssigns++
						if l == "data, err" && len(as.Rhs) == 1 && p.src(as.Rhs[0]) == "msg.marshal()" {
							marshalOK = true
						}
					}
				}
			}
			return true
		})
		before = len(twPos) == 1 && mpPos != 0 && twPos[0] < mpPos
	}
	e.boolean("txTranscriptBeforeSplit", before)
	e.boolean("txDataIsMarshal", marshalOK && dataAssigns == 1)
	// the fragment loop builds every header in an array declared INSIDE the loop and never writes into the
	// marshalled encoding (the slice `marshal()` returned and every slice cut from it alias the message's
	// cached raw bytes) nor hands it to a call that could (anything but `len`, or `append` with the alias as a
	// SOURCE).  Extracted without reference to the names of the locals: `aliases` = the first result of the
	// `….marshal()` assignment, closed under `x := a[lo:hi]` / `x := a`; `local` = arrays declared by a
	// `var x [N]byte` statement in the loop body.
	fresh := false
	if fd := p.funcs["Conn.writeHandshakeRecord"]; fd != nil {
		aliases := map[string]bool{}
		baseIdent := func(x ast.Expr) string {
			for {
				switch y := x.(type) {
				case *ast.SliceExpr:
					x = y.X
					continue
				case *ast.IndexExpr:
					x = y.X
					continue
				case *ast.ParenExpr:
					x = y.X
					continue
				case *ast.Ident:
					return y.Name
				}
				return ""
			}
		}
		ast.Inspect(fd.Body, func(n ast.Node) bool {
			as, ok := n.(*ast.AssignStmt)
			if !ok || len(as.Rhs) != 1 || len(as.Lhs) == 0 {
				return true
			}
			l0, ok := as.Lhs[0].(*ast.Ident)
			if !ok {
				return true
			}
			if c, ok := as.Rhs[0].(*ast.CallExpr); ok {
				if se, ok := c.Fun.(*ast.SelectorExpr); ok && se.Sel.Name == "marshal" {
					aliases[l0.Name] = true
				}
				return true
			}
			if len(as.Lhs) == 1 {
				switch as.Rhs[0].(type) {
				case *ast.SliceExpr, *ast.Ident:
					if b := baseIdent(as.Rhs[0]); b != "" && aliases[b] {
						aliases[l0.Name] = true
					}
				}
			}
			return true
		})
		ast.Inspect(fd.Body, func(n ast.Node) bool {
			fs, ok := n.(*ast.ForStmt)
			if !ok {
				return true
			}
			local := map[string]bool{}
			ast.Inspect(fs.Body, func(m ast.Node) bool {
				if ds, ok := m.(*ast.DeclStmt); ok {
					if gd, ok := ds.Decl.(*ast.GenDecl); ok && gd.Tok == token.VAR {
						for _, sp := range gd.Specs {
							if vs, ok := sp.(*ast.ValueSpec); ok {
								if _, isArr := vs.Type.(*ast.ArrayType); isArr {
									for _, nm := range vs.Names {
										local[nm.Name] = true
									}
								}
							}
						}
					}
				}
				return true
			})
			clean := true
			ast.Inspect(fs.Body, func(m ast.Node) bool {
				switch x := m.(type) {
				case *ast.AssignStmt:
					for _, l := range x.Lhs {
						switch l.(type) {
						case *ast.IndexExpr, *ast.SliceExpr:
							if !local[baseIdent(l)] {
								clean = false
							}
						}
					}
				case *ast.CallExpr:
					f := p.src(x.Fun)
					if f == "len" {
						return true
					}
					for i, a := range x.Args {
						if b := baseIdent(a); b != "" && aliases[b] {
							if f == "append" && i > 0 {
								continue // a source of append is only read
							}
							clean = false
						}
					}
				}
				return true
			})
			fresh = len(local) > 0 && clean && len(aliases) > 0
			return false
		})
	}
	e.boolean("txLoopBuildsFreshHeader", fresh)
	rw, rwPos := calls("Conn.readHandshake", "transcript.Write(")
	if rw == nil {
		rw = []string{}
	}
	e.strList("rxTranscriptWrites", rw)
	after := false
	if fd := p.funcs["Conn.readHandshake"]; fd != nil && len(rwPos) == 1 {
		var rebuilt, unm token.Pos
		ast.Inspect(fd.Body, func(n ast.Node) bool {
			switch x := n.(type) {
			case *ast.AssignStmt:
				if p.src(x) == "data = append(fullHeader, fragmentData...)" {
					rebuilt = x.Pos()
				}
			case *ast.CallExpr:
				if p.src(x) == "m.unmarshal(data)" {
					unm = x.Pos()
				}
			}
			return true
		})
		after = rebuilt != 0 && unm != 0 && rebuilt < rwPos[0] && unm < rwPos[0]
	}
	e.boolean("rxTranscriptAfterRebuild", after)

	// --- stale-buffer cleanup: which clock stamps a buffer, which clock the cleanup reads
	// fragStampClock: the right-hand side of the assignments to `<x>.receivedAt` in fragment.go / conn.go
	// (one expression expected; several different ones are joined by " | ");
	// fragCleanupClocks: every expression the `now` of cleanupStaleFragments is assigned from, in order;
	// fragCleanupCond: the staleness test; fragCleanupTimeoutSeconds: the timeout readHandshake passes
	var stamps []string
	for _, fd := range p.funcs {
		if fd.Body == nil {
			continue
		}
		ast.Inspect(fd.Body, func(n ast.Node) bool {
			if as, ok := n.(*ast.AssignStmt); ok && len(as.Lhs) == len(as.Rhs) {
				for i, l := range as.Lhs {
					if se, ok := l.(*ast.SelectorExpr); ok && se.Sel.Name == "receivedAt" {
						r := p.src(as.Rhs[i])
						dup := false
						for _, x := range stamps {
							dup = dup || x == r
						}
						if !dup {
							stamps = append(stamps, r)
						}
					}
				}
			}
			return true
		})
	}
	sortStrings(stamps)
	strFact("fragStampClock", strings.Join(stamps, " | "), len(stamps) > 0)
	var nows []string
	cond := ""
	if fd := p.funcs["Conn.cleanupStaleFragments"]; fd != nil && fd.Body != nil {
		ast.Inspect(fd.Body, func(n ast.Node) bool {
			switch x := n.(type) {
			case *ast.AssignStmt:
				if len(x.Lhs) == len(x.Rhs) {
					for i, l := range x.Lhs {
						if p.src(l) == "now" {
							nows = append(nows, p.src(x.Rhs[i]))
						}
					}
				}
			case *ast.IfStmt:
				if strings.Contains(p.src(x.Cond), "receivedAt") && cond == "" {
					cond = p.src(x.Cond)
				}
			}
			return true
		})
	}
	e.strList("fragCleanupClocks", nows)
	strFact("fragCleanupCond", cond, cond != "")
	// the timeout at the call site, in seconds (N * time.Second / time.Minute, through package constants)
	var dur func(x ast.Expr, depth int) (int64, bool) // nanoseconds
	dur = func(x ast.Expr, depth int) (int64, bool) {
		if depth > 20 {
			return 0, false
		}
		switch t := x.(type) {
		case *ast.SelectorExpr:
			if p.src(t.X) == "time" {
				switch t.Sel.Name {
				case "Nanosecond":
					return 1, true
				case "Microsecond":
					return 1e3, true
				case "Millisecond":
					return 1e6, true
				case "Second":
					return 1e9, true
				case "Minute":
					return 60e9, true
				case "Hour":
					return 3600e9, true
				}
			}
		case *ast.Ident:
			if ce, ok := p.consts[t.Name]; ok {
				return dur(ce, depth+1)
			}
		case *ast.ParenExpr:
			return dur(t.X, depth+1)
		case *ast.BasicLit:
			return p.evalInt(t, 0, 0)
		case *ast.BinaryExpr:
			a, ok1 := dur(t.X, depth+1)
			b, ok2 := dur(t.Y, depth+1)
			if ok1 && ok2 {
				switch t.Op {
				case token.MUL:
					return a * b, true
				case token.ADD:
					return a + b, true
				}
			}
		}
		return 0, false
	}
	var secs int64
	okSecs := false
	if fd := p.funcs["Conn.readHandshake"]; fd != nil && fd.Body != nil {
		ast.Inspect(fd.Body, func(n ast.Node) bool {
			if ce, ok := n.(*ast.CallExpr); ok && strings.HasSuffix(p.src(ce.Fun), ".cleanupStaleFragments") && len(ce.Args) == 1 {
				if ns, ok := dur(ce.Args[0], 0); ok && ns%1e9 == 0 {
					secs, okSecs = ns/1e9, true
				}
			}
			return true
		})
	}
	e.nat("fragCleanupTimeoutSeconds", secs, okSecs)
}

func fragItoa(i int) string {
	if i < 10 {
		return string(rune('0' + i))
	}
	return string(rune('0'+i/10)) + string(rune('0'+i%10))
}

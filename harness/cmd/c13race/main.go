// Command c13race is the observation run of property C13. It is built by cmd/c13 with
// `go build -race -tags verif` and executes the scenarios of internal/c13run against the real
// tlcp / dtlcp / pa code under the race detector.
package main

import (
	"verifharness/internal/c13run"
	"verifharness/internal/hx"
)

func main() { c13run.Main(hx.ParseOpts()) }

// Command c13 is the driver of property C13 (concurrent use of one connection).
//
// bin/check builds it with plain `go build -tags verif`; the scenarios need the race detector,
// so this program builds a SECOND binary, cmd/c13race, with `go build -race -tags verif` (into
// /verif/.build) and runs it with the same flags; that binary writes the trace. The race
// detector's reports go to <trace dir>/race.<pid> (GORACE=log_path) and are counted per case by
// the child. When a -race build is impossible (no cgo toolchain), the scenarios run in-process
// and every case carries `races=na`, which the oracle reports as a note, never as success of
// the race clause.
package main

import (
	"fmt"
	"os"
	"os/exec"
	"path/filepath"

	"verifharness/internal/c13run"
	"verifharness/internal/hx"
)

func main() {
	o := hx.ParseOpts()
	if os.Getenv("C13_NORACE") == "" {
		if exe, err := buildRace(); err == nil {
			dir := "."
			if o.Out != "" {
				dir = filepath.Dir(o.Out)
			}
			cmd := exec.Command(exe, os.Args[1:]...)
			cmd.Stdout, cmd.Stderr = os.Stdout, os.Stderr
			cmd.Env = append(os.Environ(), "GORACE=log_path="+filepath.Join(dir, "race")+" halt_on_error=0 exitcode=0")
			if err := cmd.Run(); err != nil {
				fmt.Fprintln(os.Stderr, "c13: race run failed:", err)
				os.Exit(1)
			}
			return
		} else {
			fmt.Fprintln(os.Stderr, "c13: no -race build possible here, running without the race detector:", err)
		}
	}
	c13run.Main(o)
}

func buildRace() (string, error) {
	wd, err := os.Getwd()
	if err != nil {
		return "", err
	}
	if _, err := os.Stat(filepath.Join(wd, "cmd", "c13race")); err != nil {
		return "", fmt.Errorf("not started in the harness directory: %v", err)
	}
	exe := filepath.Join(wd, "..", ".build", "c13race")
	cmd := exec.Command("go", "build", "-race", "-tags", "verif", "-o", exe, "./cmd/c13race")
	cmd.Dir = wd
	if out, err := cmd.CombinedOutput(); err != nil {
		return "", fmt.Errorf("%v: %s", err, out)
	}
	return exe, nil
}

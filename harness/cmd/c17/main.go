// Driver for C17: runs the REAL dtlcp fragmentBuffer, the real receive path readHandshake
// (raw records fed into a Conn in its pre-handshake state) and the real sender
// writeHandshakeRecord, and writes `case => observed` lines for the Lean oracle.
//
// Phases (-phase): fb (reassembly buffer through hooks), rx (readHandshake), tx (sender, and
// sender -> receiver round trip for a PMTU sweep), e2e (real handshakes over PMTU pairs). Without
// -phase all run.
//
// Injected clocks (rx: clk=<clock>; e2e: cclk=<clock> sclk=<clock>, absent = the harness default:
// rx the wall clock, e2e the pinned pki.Now). Config.Time is the documented hook for an external time
// source; reassembly must not depend on it at all (a pending buffer may only be dropped when REAL time
// >= the stale timeout, 30 s, passes between two fragments — never inside a case):
//
//	w        the wall clock (time.Now), given explicitly
//	w+N w-N  the wall clock shifted by N seconds (a device whose RTC is wrong and that feeds GPS / NTP
//	         time into Config.Time, or the other way round), running
//	p        pinned: always pki.Now (a reproducible "now" for certificate validation; years away from
//	         the wall clock)
//	r        running from another epoch: pki.Now + the wall time elapsed since the clock was made
//	j / jp   a clock that JUMPS: alternately the wall clock / pki.Now and the same + 1 h, call by call
//
// In e2e a clock based on the wall clock (w…, j) cannot validate the catalogue's certificates (issued
// around pki.Now): the client then runs with InsecureSkipVerify and only the ECC suites are used
// (certificate validation is not C17's subject); p, r, jp keep full validation.
package main

import (
	"bufio"
	"fmt"
	"net"
	"os"
	"strconv"
	"strings"
	"sync/atomic"
	"time"

	"gitee.com/Trisia/gotlcp/dtlcp"
	"verifharness/internal/hx"
	"verifharness/internal/pair"
	"verifharness/internal/pki"
)

// ---------------------------------------------------------------- shared encodings

// message spec: "-" | hex | "@<len>.<seed>" (pattern m[i] = byte(i*(2*seed+1) + i/256 + seed))
func parseMsg(s string) []byte {
	if strings.HasPrefix(s, "@") {
		p := strings.SplitN(s[1:], ".", 2)
		n, _ := strconv.Atoi(p[0])
		seed, _ := strconv.Atoi(p[1])
		m := make([]byte, n)
		for i := range m {
			m[i] = byte(i*(2*seed+1) + i/256 + seed)
		}
		return m
	}
	return hx.UnHex(s)
}

// body spec: "g" genuine slice m[off:off+len] (clipped) | "z<k>" k bytes 0x5a | hex | "-"
func parseBody(s string, m []byte, off, length int) []byte {
	switch {
	case s == "g":
		if off >= len(m) {
			return nil
		}
		end := off + length
		if end > len(m) {
			end = len(m)
		}
		return m[off:end]
	case strings.HasPrefix(s, "z"):
		k, _ := strconv.Atoi(s[1:])
		b := make([]byte, k)
		for i := range b {
			b[i] = 0x5a
		}
		return b
	}
	return hx.UnHex(s)
}

func fnv64(b []byte) uint64 {
	h := uint64(14695981039346656037)
	for _, x := range b {
		h ^= uint64(x)
		h *= 1099511628211
	}
	return h
}

// enc: hex when short, otherwise length and FNV-1a hash
func enc(b []byte) string {
	if len(b) <= 48 {
		return hx.Hex(b)
	}
	return fmt.Sprintf("h%d.%016x", len(b), fnv64(b))
}

func b01(b bool) string {
	if b {
		return "1"
	}
	return "0"
}

// clockOf builds the Config.Time of a clock specification ("" = nil: not configured).
func clockOf(spec string) func() time.Time {
	switch {
	case spec == "":
		return nil
	case spec == "w":
		return time.Now
	case spec == "p":
		return pki.NowFn
	case spec == "r":
		start := time.Now()
		return func() time.Time { return pki.Now.Add(time.Since(start)) }
	case spec == "j" || spec == "jp":
		var n atomic.Int64
		return func() time.Time {
			base := time.Now()
			if spec == "jp" {
				base = pki.Now
			}
			if n.Add(1)%2 == 1 {
				return base.Add(time.Hour)
			}
			return base
		}
	case strings.HasPrefix(spec, "w+") || strings.HasPrefix(spec, "w-"):
		secs, err := strconv.Atoi(spec[1:])
		if err != nil {
			panic("bad clock " + spec)
		}
		d := time.Duration(secs) * time.Second
		return func() time.Time { return time.Now().Add(d) }
	}
	panic("bad clock " + spec)
}

// wallBased: the clock cannot validate the catalogue's certificates
func wallBased(spec string) bool { return strings.HasPrefix(spec, "w") || spec == "j" }

func errKind(err error) string {
	if err == nil {
		return "nil"
	}
	if ne, ok := err.(net.Error); ok && ne.Timeout() {
		return "needmore"
	}
	s := err.Error()
	switch {
	case strings.Contains(s, "exceeds maximum"):
		return "toolong"
	case strings.Contains(s, "fragment out of bounds"):
		return "oob"
	case strings.Contains(s, "too many fragment reads"):
		return "toomany"
	case strings.Contains(s, "fragment length mismatch"):
		return "mismatch"
	case strings.Contains(s, "too short for fragmentation"):
		return "short"
	case strings.Contains(s, "PMTU too small"):
		return "pmtu"
	}
	return "other"
}

// lineTrace writes the `case => observed` lines of hx.Trace, but hands every line to the reader at once.
// A handshake whose fragmented messages never reassemble hangs until the 30 s watchdog; when many do,
// the phase timeout kills the driver — with a block-buffered trace the lines already produced (the
// failing ones) were lost and the check could only say "no failing input found".
type lineTrace struct {
	w    *bufio.Writer
	f    *os.File
	n    int
	last time.Time
}

func newLineTrace(path string) *lineTrace {
	if path == "" {
		return &lineTrace{w: bufio.NewWriterSize(os.Stdout, 1<<16)}
	}
	f, err := os.Create(path)
	if err != nil {
		fmt.Fprintln(os.Stderr, err)
		os.Exit(2)
	}
	return &lineTrace{w: bufio.NewWriterSize(f, 1<<16), f: f}
}

// Line flushes when the case was slow (>= 100 ms: a handshake, a long message) and every 64 lines.
func (t *lineTrace) Line(desc, observed string) {
	t.w.WriteString(desc)
	t.w.WriteString(" => ")
	t.w.WriteString(observed)
	t.w.WriteByte('\n')
	t.n++
	if now := time.Now(); now.Sub(t.last) >= 100*time.Millisecond || t.n%64 == 0 {
		t.w.Flush()
		t.last = now
	}
}

func (t *lineTrace) Close() {
	t.w.Flush()
	if t.f != nil {
		t.f.Close()
	}
}

// ---------------------------------------------------------------- in-memory PacketConn

type timeoutErr struct{}

func (timeoutErr) Error() string   { return "qconn: no datagram queued" }
func (timeoutErr) Timeout() bool   { return true }
func (timeoutErr) Temporary() bool { return true }

type qconn struct {
	in     [][]byte
	out    [][]byte
	local  net.Addr
	remote net.Addr
}

func newQconn() *qconn {
	return &qconn{local: &net.UDPAddr{IP: net.IPv4(127, 0, 0, 1), Port: 10000},
		remote: &net.UDPAddr{IP: net.IPv4(127, 0, 0, 1), Port: 20000}}
}
func (q *qconn) ReadFrom(p []byte) (int, net.Addr, error) {
	if len(q.in) == 0 {
		return 0, nil, timeoutErr{}
	}
	d := q.in[0]
	q.in = q.in[1:]
	return copy(p, d), q.remote, nil
}
func (q *qconn) WriteTo(p []byte, _ net.Addr) (int, error) {
	q.out = append(q.out, append([]byte(nil), p...))
	return len(p), nil
}
func (q *qconn) Close() error                     { return nil }
func (q *qconn) LocalAddr() net.Addr              { return q.local }
func (q *qconn) SetDeadline(time.Time) error      { return nil }
func (q *qconn) SetReadDeadline(time.Time) error  { return nil }
func (q *qconn) SetWriteDeadline(time.Time) error { return nil }

// record wraps a handshake payload into an epoch-0 DTLCP record with record sequence seq
func record(seq int, payload []byte) []byte {
	r := make([]byte, 13+len(payload))
	r[0] = 22
	r[1], r[2] = 0x01, 0x01
	r[5], r[6], r[7], r[8], r[9], r[10] = byte(seq>>40), byte(seq>>32), byte(seq>>24), byte(seq>>16), byte(seq>>8), byte(seq)
	r[11], r[12] = byte(len(payload)>>8), byte(len(payload))
	copy(r[13:], payload)
	return r
}

func hsHeader(typ, total, seq, off, length int) []byte {
	return []byte{byte(typ), byte(total >> 16), byte(total >> 8), byte(total), byte(seq >> 8), byte(seq),
		byte(off >> 16), byte(off >> 8), byte(off), byte(length >> 16), byte(length >> 8), byte(length)}
}

// ---------------------------------------------------------------- execution

func atoi(s string) int { v, _ := strconv.Atoi(s); return v }

func execFB(desc string) string {
	n := hx.KVInt(desc, "n")
	ms, _ := hx.KV(desc, "msg")
	m := parseMsg(ms)
	fs, _ := hx.KV(desc, "frags")
	var out string
	p := hx.Guard(func() {
		fb := dtlcp.VerifNewFragmentBuffer(uint32(n))
		c0 := fb.Complete()
		var acc, comp strings.Builder
		if fs != "-" && fs != "" {
			for _, f := range strings.Split(fs, ",") {
				q := strings.SplitN(f, ".", 3)
				off, length := atoi(q[0]), atoi(q[1])
				ok := fb.Add(uint32(off), uint32(length), parseBody(q[2], m, off, length))
				acc.WriteString(b01(ok))
				comp.WriteString(b01(fb.Complete()))
			}
		}
		a, c := acc.String(), comp.String()
		if a == "" {
			a, c = "-", "-"
		}
		out = fmt.Sprintf("c0=%s acc=%s comp=%s asm=%s", b01(c0), a, c, enc(fb.Assembled()))
	})
	if p != "" {
		return "panic=" + p
	}
	return out
}

// itemBytes turns one rx item into the handshake-layer bytes it puts on the wire
func itemBytes(item string, m []byte) []byte {
	q := strings.Split(item, ".")
	switch q[0] {
	case "F":
		typ, total, seq, off, length := atoi(q[1]), atoi(q[2]), atoi(q[3]), atoi(q[4]), atoi(q[5])
		return append(hsHeader(typ, total, seq, off, length), parseBody(q[6], m, off, length)...)
	case "R":
		return hx.UnHex(q[1])
	}
	return nil
}

func pendStr(c *dtlcp.Conn) string {
	ps := dtlcp.VerifPendingFragments(c)
	if len(ps) == 0 {
		return "-"
	}
	ss := make([]string, len(ps))
	for i, p := range ps {
		ss[i] = fmt.Sprintf("%d:%d:%d:%d", p.Seq, p.Total, p.DataLen, p.MaskLen)
	}
	return strings.Join(ss, ",")
}

func execRX(desc string) string {
	ms, _ := hx.KV(desc, "msg")
	m := parseMsg(ms)
	calls, _ := hx.KV(desc, "calls")
	var out string
	p := hx.Guard(func() {
		q := newQconn()
		clk, _ := hx.KV(desc, "clk")
		c := dtlcp.VerifNewHandshakeReader(q, q.remote, &dtlcp.Config{Time: clockOf(clk)})
		rseq := 0
		var res []string
		for _, call := range strings.Split(calls, "/") {
			if call != "-" && call != "" {
				for _, item := range strings.Split(call, "+") {
					b := itemBytes(item, m)
					for len(b) > 0 { // one record per item; very large items span several records
						k := len(b)
						if k > 16000 {
							k = 16000
						}
						q.in = append(q.in, record(rseq, b[:k]))
						rseq++
						b = b[k:]
					}
				}
			}
			raw, err := dtlcp.VerifReadHandshake(c)
			np := len(dtlcp.VerifPendingFragments(c))
			if err != nil {
				res = append(res, fmt.Sprintf("e:%s@%d", errKind(err), np))
			} else {
				res = append(res, fmt.Sprintf("m:%s@%d", enc(raw), np))
			}
		}
		out = fmt.Sprintf("res=%s pend=%s hand=%d", strings.Join(res, "/"), pendStr(c), dtlcp.VerifHandBufLen(c))
	})
	if p != "" {
		return "panic=" + p
	}
	return out
}

func execTX(desc string) string {
	pmtu := hx.KVInt(desc, "pmtu")
	seq := hx.KVInt(desc, "seq")
	ms, _ := hx.KV(desc, "msg")
	m := parseMsg(ms)
	var out string
	p := hx.Guard(func() {
		q := newQconn()
		c := dtlcp.Client(q, q.remote, &dtlcp.Config{PMTU: pmtu})
		maxp := dtlcp.VerifMaxPayloadSizeForWrite(c)
		full, after, _, err := dtlcp.VerifWriteHandshakeFinished(c, uint16(seq), m)
		// marshal() of the message object after the write must still be the unfragmented encoding
		keep := b01(string(full) == string(after) && string(full) == string(append(hsHeader(20, len(m), seq, 0, len(m)), m...)))
		if err != nil {
			out = fmt.Sprintf("max=%d err=%s sent=%d", maxp, errKind(err), len(q.out))
			return
		}
		var recs []string
		bad := false
		for _, d := range q.out {
			if len(d) < 13+12 || d[0] != 22 || int(d[11])<<8|int(d[12]) != len(d)-13 {
				bad = true
				continue
			}
			pl := d[13:]
			recs = append(recs, hx.Hex(pl[:12])+":"+enc(pl[12:]))
		}
		// round trip: the real receiver reads what the real sender produced
		q2 := newQconn()
		rc := dtlcp.VerifNewHandshakeReader(q2, q2.remote, &dtlcp.Config{})
		q2.in = q.out
		raw, rerr := dtlcp.VerifReadHandshake(rc)
		rt := ""
		if rerr != nil {
			rt = "e:" + errKind(rerr)
		} else {
			rt = "m:" + enc(raw)
		}
		rs := "-"
		if len(recs) > 0 {
			rs = strings.Join(recs, ",")
		}
		out = fmt.Sprintf("max=%d recs=%s rt=%s keep=%s", maxp, rs, rt, keep)
		if bad {
			out += " badrec=1"
		}
	})
	if p != "" {
		return "panic=" + p
	}
	return out
}

// e2eHangs counts the handshakes that ended in the 30 s watchdog of the pair runner
var e2eHangs int

var e2eSuite = map[string]uint16{"ecc-gcm": dtlcp.ECC_SM4_GCM_SM3, "ecc-cbc": dtlcp.ECC_SM4_CBC_SM3,
	"ecdhe-gcm": dtlcp.ECDHE_SM4_GCM_SM3, "ecdhe-cbc": dtlcp.ECDHE_SM4_CBC_SM3}

// largest handshake message length announced in the epoch-0 handshake records of a side
func biggest(dgs [][]byte) int {
	big := 0
	for _, d := range dgs {
		for len(d) >= 13 {
			n := int(d[11])<<8 | int(d[12])
			if 13+n > len(d) {
				break
			}
			if d[0] == 22 && d[3] == 0 && d[4] == 0 && n >= 12 {
				if t := int(d[14])<<16 | int(d[15])<<8 | int(d[16]); t > big {
					big = t
				}
			}
			d = d[13+n:]
		}
	}
	return big
}

// execE2E: one real handshake, client PMTU cp, server PMTU sp; randomness-independent outcome
func execE2E(desc string) string {
	su, _ := hx.KV(desc, "suite")
	cp, sp := hx.KVInt(desc, "cp"), hx.KVInt(desc, "sp")
	var out string
	p := hx.Guard(func() {
		std := pki.Std()
		ccfg, scfg := pair.DClient(), pair.DServer()
		id := e2eSuite[su]
		ccfg.CipherSuites, scfg.CipherSuites = []uint16{id}, []uint16{id}
		ccfg.PMTU, scfg.PMTU = cp, sp
		if k, ok := hx.KV(desc, "cclk"); ok {
			ccfg.Time = clockOf(k)
			ccfg.InsecureSkipVerify = wallBased(k)
		}
		if k, ok := hx.KV(desc, "sclk"); ok {
			scfg.Time = clockOf(k)
			if wallBased(k) && strings.HasPrefix(su, "ecdhe") {
				panic("a wall-based server clock cannot validate the client certificate of an ECDHE suite")
			}
		}
		if strings.HasPrefix(su, "ecdhe") {
			ccfg.Certificates = []dtlcp.Certificate{pair.DCert(std.CliSig), pair.DCert(std.CliEnc)}
			scfg.ClientAuth = dtlcp.RequireAndVerifyClientCert
			scfg.ClientCAs = std.Root.Pool
		}
		c, s, ce, se, r := pair.DTLCP(ccfg, scfg, nil)
		defer ce.Close()
		defer se.Close()
		bc, bs := biggest(ce.SentCopy()), biggest(se.SentCopy())
		if r.TimedOut {
			e2eHangs++
		}
		if !r.OK() {
			out = fmt.Sprintf("hs=fail bigC=%d bigS=%d", bc, bs)
			return
		}
		ccf, csf, cv, csu, cr, cn := dtlcp.VerifHandshakeOutcome(c)
		scf, ssf, sv, ssu, sr, sn := dtlcp.VerifHandshakeOutcome(s)
		same := cv == sv && csu == ssu && cr == sr
		// a value an end did not store (the second Finished on the server side) is all zero:
		// compare what both ends recorded; at least one value must be comparable
		isZero := func(b []byte) bool {
			for _, x := range b {
				if x != 0 {
					return false
				}
			}
			return true
		}
		compared, equal := 0, true
		for _, pr := range [][2][]byte{{ccf, scf}, {csf, ssf}} {
			if !isZero(pr[0]) && !isZero(pr[1]) {
				compared++
				equal = equal && string(pr[0]) == string(pr[1])
			}
		}
		fin := compared > 0 && equal && !isZero(ccf) && !isZero(csf)
		out = fmt.Sprintf("hs=ok cs=%d.%d.%s.%d.%d same=%s fin=%s bigC=%d bigS=%d", cv, csu, b01(cr), cn, sn, b01(same), b01(fin), bc, bs)
	})
	if p != "" {
		return "panic=" + p
	}
	return out
}

func genE2E(o hx.Opts, emit func(string)) {
	thorough := o.Tier == "thorough"
	small := map[string]int{"ecc-gcm": 50, "ecdhe-gcm": 50, "ecc-cbc": 77, "ecdhe-cbc": 77} // smallest workable, see the oracle
	for _, su := range []string{"ecc-gcm", "ecc-cbc", "ecdhe-gcm", "ecdhe-cbc"} {
		emit(fmt.Sprintf("kind=e2e suite=%s cp=1400 sp=1400", su)) // baseline
		emit(fmt.Sprintf("kind=e2e suite=%s cp=0 sp=0", su))
		m := small[su]
		vals := []int{m, m + 1, 64, 100, 118, 119, 200, 600, 1400}
		if su[len(su)-3:] == "cbc" {
			vals = []int{m, m + 1, 90, 100, 118, 119, 135, 200, 600, 1400}
		}
		ecdhe := strings.HasPrefix(su, "ecdhe")
		for _, a := range vals {
			for _, b := range vals {
				if ecdhe && !thorough && a != b && a > m+1 && b > m+1 {
					continue // ECDHE in the quick tier: the diagonal and every pair with one side tiny
				}
				emit(fmt.Sprintf("kind=e2e suite=%s cp=%d sp=%d", su, a, b))
			}
		}
		if thorough {
			// one step below the smallest workable value (fails after the 30 s watchdog: thorough only)
			emit(fmt.Sprintf("kind=e2e suite=%s cp=%d sp=1400", su, m-1))
		}
		// every PMTU value of a range on one side, a sample on the other
		top, others := 300, []int{1400}
		if thorough {
			top, others = 1500, []int{m, 119, 1400}
		}
		if ecdhe && !thorough {
			top = m + 80
		}
		for p := m; p <= top; p++ {
			for _, q := range others {
				emit(fmt.Sprintf("kind=e2e suite=%s cp=%d sp=%d", su, p, q))
				emit(fmt.Sprintf("kind=e2e suite=%s cp=%d sp=%d", su, q, p))
			}
		}
	}
	// injected clocks (Config.Time) skewed against the wall clock, combined with fragmented handshakes:
	// the same clock configuration at PMTU 1400 (nothing fragmented: the reference) and at small PMTUs
	// on one or both sides. Every clock on both sides, and each skewed / jumping clock on one side
	// against the pinned default on the other. Wall-based clocks: ECC suites only (see the header).
	for _, su := range []string{"ecc-gcm", "ecc-cbc", "ecdhe-gcm", "ecdhe-cbc"} {
		m := small[su]
		pm := [][2]int{{1400, 1400}, {200, 200}, {m, m}, {100, 1400}, {1400, 100}}
		var cl [][2]string
		if strings.HasPrefix(su, "ecdhe") {
			pm = pm[:2]
			cl = [][2]string{{"r", "r"}, {"jp", "jp"}, {"jp", "p"}, {"p", "r"}}
		} else {
			for _, k := range e2eClocks {
				cl = append(cl, [2]string{k, k})
			}
			for _, k := range []string{"w+3600", "w-3600", "j", "r"} {
				cl = append(cl, [2]string{k, "p"}, [2]string{"p", k})
			}
		}
		for _, c := range cl {
			for _, q := range pm {
				emit(fmt.Sprintf("kind=e2e suite=%s cp=%d sp=%d cclk=%s sclk=%s", su, q[0], q[1], c[0], c[1]))
			}
		}
	}
}

// the clocks of the e2e catalogue (both sides the same), and of the unit-level rx catalogue
var (
	e2eClocks = []string{"w", "w+3600", "w-3600", "p", "r", "j", "jp"}
	rxClocks  = []string{"w+3600", "w-3600", "w+31", "w+29", "w-31", "w+86400", "p", "r", "j", "jp"}
)

func execute(desc string) string {
	k, _ := hx.KV(desc, "kind")
	switch k {
	case "fb":
		return execFB(desc)
	case "rx":
		return execRX(desc)
	case "tx":
		return execTX(desc)
	case "e2e":
		return execE2E(desc)
	}
	return "badcase=1"
}

// ---------------------------------------------------------------- generators

type olPair struct{ off, length int }

// every (off,len) with off+len <= n+1: all in-range fragments (incl. zero-length) and the
// ones that exceed the announced length by one
func pairs(n int) []olPair {
	var ps []olPair
	for off := 0; off <= n+1; off++ {
		for l := 0; off+l <= n+1; l++ {
			ps = append(ps, olPair{off, l})
		}
	}
	return ps
}

func fbCase(n int, seed int, fr []string) string {
	ms := "-"
	if n > 0 {
		ms = fmt.Sprintf("@%d.%d", n, seed)
	}
	fs := "-"
	if len(fr) > 0 {
		fs = strings.Join(fr, ",")
	}
	return fmt.Sprintf("kind=fb n=%d msg=%s frags=%s", n, ms, fs)
}

func genFB(o hx.Opts, emit func(string)) {
	thorough := o.Tier == "thorough"
	// witnesses / corner cases first
	emit("kind=fb n=0 msg=- frags=-")
	emit("kind=fb n=0 msg=- frags=0.0.-,0.1.z1,1.0.-,0.2.z2")
	emit("kind=fb n=11 msg=@11.3 frags=8.3.g,9.3.z3,3.6.g,8.3.g,0.4.g")
	emit("kind=fb n=11 msg=@11.3 frags=0.10.g")
	emit("kind=fb n=8 msg=@8.1 frags=0.7.g,7.1.g")
	emit("kind=fb n=16 msg=@16.1 frags=8.8.g,0.7.g,7.1.g")
	emit("kind=fb n=5 msg=@5.1 frags=0.5.z3,0.5.z9,2.2.z0") // body shorter / longer than the length
	// exhaustive: every ordered tuple (so every set, every order, duplicates) of fragments
	depthFor := func(n int) int {
		if thorough {
			switch {
			case n <= 2:
				return 5
			case n <= 4:
				return 4
			case n <= 8:
				return 3
			}
			return 2
		}
		switch {
		case n <= 2:
			return 4
		case n <= 4:
			return 3
		}
		return 2
	}
	for n := 0; n <= 10; n++ {
		ps := pairs(n)
		depth := depthFor(n)
		var rec func(cur []string)
		rec = func(cur []string) {
			if len(cur) > 0 {
				emit(fbCase(n, n, cur))
			}
			if len(cur) == depth {
				return
			}
			for _, p := range ps {
				rec(append(cur, fmt.Sprintf("%d.%d.g", p.off, p.length)))
			}
		}
		rec(nil)
	}
	// byte-boundary lengths: every composition into <= 3 (4) parts, every order, and with one part missing
	perms := func(xs []string, f func([]string)) {
		var rec func(k int)
		rec = func(k int) {
			if k == len(xs) {
				f(xs)
				return
			}
			for i := k; i < len(xs); i++ {
				xs[k], xs[i] = xs[i], xs[k]
				rec(k + 1)
				xs[k], xs[i] = xs[i], xs[k]
			}
		}
		rec(0)
	}
	lens := []int{7, 8, 9, 15, 16, 17, 24}
	if thorough {
		lens = append(lens, 23, 25, 31, 32, 33)
	}
	for _, n := range lens {
		for a := 1; a < n; a++ {
			for b := a; b <= n; b++ { // parts [0,a) [a,b) [b,n)
				var parts []string
				parts = append(parts, fmt.Sprintf("0.%d.g", a))
				if b > a {
					parts = append(parts, fmt.Sprintf("%d.%d.g", a, b-a))
				}
				if n > b {
					parts = append(parts, fmt.Sprintf("%d.%d.g", b, n-b))
				}
				perms(parts, func(p []string) { emit(fbCase(n, 1, p)) })
				for drop := range parts { // a gap: never complete
					var q []string
					q = append(q, parts[:drop]...)
					q = append(q, parts[drop+1:]...)
					emit(fbCase(n, 1, q))
				}
			}
		}
	}
	// random: long messages (up to 70000 > maxHandshake), partitions, overlap, duplicates, hostile pieces
	r := hx.NewRand(o.Seed)
	cnt := 100 * o.Scale
	if thorough {
		cnt = 3000 * o.Scale
	}
	for i := 0; i < cnt; i++ {
		var n int
		x := i % 50
		if i >= 100 && !thorough && (x == 11 || x == 23 || x == 37) {
			x = 1 // the number of very long cases does not grow with -scale in the quick tier
		}
		switch {
		case x == 11:
			n = 60000 + r.Intn(10001) // beyond maxHandshake too; few, the model's list bitmap is slow here
		case x == 23 || x == 37:
			n = 3000 + r.Intn(30000)
		case x%3 == 0:
			n = 300 + r.Intn(3000)
		default:
			n = 1 + r.Intn(300)
		}
		seed := r.Intn(100)
		// a partition of [0,n)
		var fr []string
		k := 1 + r.Intn(12)
		cuts := []int{0, n}
		for j := 0; j < k; j++ {
			cuts = append(cuts, r.Intn(n+1))
		}
		sortInts(cuts)
		for j := 0; j+1 < len(cuts); j++ {
			if cuts[j+1] > cuts[j] || r.Chance(20) {
				fr = append(fr, fmt.Sprintf("%d.%d.g", cuts[j], cuts[j+1]-cuts[j]))
			}
		}
		// overlap / duplicates / hostile
		for j := r.Intn(4); j > 0; j-- {
			off := r.Intn(n)
			l := r.Intn(n - off + 1)
			fr = append(fr, fmt.Sprintf("%d.%d.g", off, l))
		}
		if r.Chance(30) {
			off := r.Intn(n + 1)
			fr = append(fr, fmt.Sprintf("%d.%d.g", off, n-off+1+r.Intn(3))) // exceeds the announced length
		}
		if r.Chance(15) && n < 400 {
			off := r.Intn(n)
			l := 1 + r.Intn(n-off)
			fr = append(fr, fmt.Sprintf("%d.%d.z%d", off, l, l)) // same range, different bytes
		}
		if r.Chance(25) && len(fr) > 1 { // drop one: usually leaves a gap
			d := r.Intn(len(fr))
			fr = append(fr[:d], fr[d+1:]...)
		}
		// shuffle
		for j := len(fr) - 1; j > 0; j-- {
			x := r.Intn(j + 1)
			fr[j], fr[x] = fr[x], fr[j]
		}
		emit(fbCase(n, seed, fr))
	}
}

func sortInts(a []int) {
	for i := 1; i < len(a); i++ {
		for j := i; j > 0 && a[j] < a[j-1]; j-- {
			a[j], a[j-1] = a[j-1], a[j]
		}
	}
}

func fitem(typ, total, seq, off, length int, body string) string {
	return fmt.Sprintf("F.%d.%d.%d.%d.%d.%s", typ, total, seq, off, length, body)
}

func genRX(o hx.Opts, emit func(string)) {
	thorough := o.Tier == "thorough"
	// --- witnesses first: F19 (fragments of one message_seq announcing different totals)
	emit("kind=rx msg=0102030405 calls=F.20.5.0.0.3.g+F.20.3.0.1.2.aabb+F.20.4.0.3.1.g+F.20.5.0.4.1.g")
	emit("kind=rx msg=0102030405 calls=F.20.5.0.0.3.g+F.20.5.0.4.1.g+F.20.4.0.3.1.g")
	emit("kind=rx msg=@20.1 calls=F.20.20.0.0.15.g+F.20.17.0.15.2.g+F.20.18.0.17.0.-+F.20.20.0.17.3.g")
	// the package's own scenarios
	emit("kind=rx msg=@500.1 calls=F.20.500.0.0.200.g+F.20.500.0.200.200.g+F.20.500.0.400.100.g")
	emit("kind=rx msg=@500.1 calls=F.20.500.0.400.100.g/F.20.500.0.200.200.g/F.20.500.0.0.200.g")
	emit("kind=rx msg=@12.1 calls=F.20.12.7.0.12.g")
	emit("kind=rx msg=- calls=F.14.0.3.0.0.-")
	emit("kind=rx msg=- calls=-")
	// bounds
	emit("kind=rx msg=@10.1 calls=F.20.10.0.5.6.g")
	emit("kind=rx msg=@10.1 calls=F.20.10.0.0.5.g+F.20.10.0.11.0.-")
	emit("kind=rx msg=@10.1 calls=F.20.65537.0.0.5.g")
	emit("kind=rx msg=@10.1 calls=F.20.65536.0.0.5.g+F.20.65536.0.65530.6.z6")
	emit("kind=rx msg=@10.1 calls=F.20.0.0.1.0.-")
	// stream framing: a header split over two records, a body arriving later
	emit("kind=rx msg=@10.1 calls=R.140000" + "0a0000000000/R.00000a0102/R.030405060708090a")
	// tiny fragment flood on one message: the 257th iteration fails
	{
		var it []string
		for i := 0; i < 300; i++ {
			it = append(it, fitem(20, 300, 0, i, 1, "g"))
		}
		emit("kind=rx msg=@300.2 calls=" + strings.Join(it, "+") + "/-/-")
		emit("kind=rx msg=@300.2 calls=" + strings.Join(it[:256], "+") + "/" + strings.Join(it[256:], "+"))
		emit("kind=rx msg=@256.2 calls=" + strings.Join(fl(256, 256), "+"))
		emit("kind=rx msg=@257.2 calls=" + strings.Join(fl(257, 257), "+"))
	}
	// pending-state flood: 255 zero-length fragments with distinct message_seq and the largest
	// total, then a complete message; repeated over three calls
	{
		mk := func(base, total int) string {
			var it []string
			for i := 0; i < 255; i++ {
				it = append(it, fitem(20, total, base+i, 0, 0, "-"))
			}
			it = append(it, fitem(20, 3, 60000, 0, 3, "g"))
			return strings.Join(it, "+")
		}
		emit("kind=rx msg=@3.1 calls=" + mk(0, 65536))
		tot := 2048
		if thorough {
			tot = 65536
		}
		emit("kind=rx msg=@3.1 calls=" + mk(0, tot) + "/" + mk(255, tot) + "/" + mk(510, tot))
	}
	// fresh-message_seq flood inside ONE call: every fragment opens a new reassembly buffer and none
	// completes; the iteration cap counts reads of the call, whatever message_seq they carry, so the
	// 257th read fails and at most 256 buffers are pending
	for _, k := range []int{256, 257, 300, 400} {
		var it []string
		for i := 0; i < k; i++ {
			it = append(it, fitem(20, 8, i, i%8, 1, "g"))
		}
		emit("kind=rx msg=@8.1 calls=" + strings.Join(it, "+") + "/-")
	}
	// … and mixed: runs of fragments of one message_seq separated by fragments of fresh ones
	{
		var it []string
		for i := 0; i < 300; i++ {
			seq := 0
			if i%3 == 2 {
				seq = 1000 + i
			}
			it = append(it, fitem(20, 300, seq, i, 1, "g"))
		}
		emit("kind=rx msg=@300.2 calls=" + strings.Join(it, "+") + "/-")
	}
	// injected clocks (Config.Time skewed against the wall clock, pinned, running from another epoch,
	// jumping) x the unit-level reassembly cases: reassembly must not depend on the configured clock —
	// the package's scenarios in one call and spread over calls, the F19 witnesses, two interleaved
	// message_seqs, a split header, 256 one-byte fragments, a 255-buffer flood followed by a complete message
	{
		unit := []string{
			"msg=@500.1 calls=F.20.500.0.0.200.g+F.20.500.0.200.200.g+F.20.500.0.400.100.g",
			"msg=@500.1 calls=F.20.500.0.400.100.g/F.20.500.0.200.200.g/F.20.500.0.0.200.g",
			"msg=@500.1 calls=F.20.500.7.0.200.g+F.20.500.7.200.200.g/-/F.20.500.7.400.100.g/-",
			"msg=0102030405 calls=F.20.5.0.0.3.g+F.20.3.0.1.2.aabb+F.20.4.0.3.1.g+F.20.5.0.4.1.g",
			"msg=@20.1 calls=F.20.20.0.0.15.g+F.20.17.0.15.2.g+F.20.18.0.17.0.-+F.20.20.0.17.3.g",
			"msg=@40.3 calls=F.20.40.0.0.10.g+F.20.40.1.30.10.g+F.20.40.0.10.30.g/F.20.40.1.0.30.g/-",
			"msg=@40.3 calls=F.20.40.1.20.20.g+F.20.40.0.0.39.g/F.20.40.1.0.20.g+F.20.40.0.39.1.g/-/-",
			"msg=@10.1 calls=R.140000" + "0a0000000000/R.00000a0102/R.030405060708090a",
			"msg=@10.1 calls=F.20.10.0.0.5.g+F.20.10.0.11.0.-",
			"msg=@12.1 calls=F.20.12.7.0.12.g",
		}
		for _, k := range rxClocks {
			for _, u := range unit {
				emit("kind=rx clk=" + k + " " + u)
			}
		}
		var flood []string
		for i := 0; i < 255; i++ {
			flood = append(flood, fitem(20, 2048, i, 0, 0, "-"))
		}
		flood = append(flood, fitem(20, 3, 60000, 0, 2, "g"), fitem(20, 3, 60000, 2, 1, "g"))
		for _, k := range []string{"w+3600", "w-3600", "jp"} {
			emit("kind=rx clk=" + k + " msg=@256.2 calls=" + strings.Join(fl(256, 256), "+"))
			emit("kind=rx clk=" + k + " msg=@3.1 calls=" + strings.Join(flood, "+") + "/-")
		}
		// every ordered pair of fragments of messages of 1..3 bytes, under a clock ahead and a jumping one
		for _, k := range []string{"w+3600", "jp"} {
			for n := 1; n <= 3; n++ {
				ps := pairs(n)
				for _, a := range ps {
					emit(fmt.Sprintf("kind=rx clk=%s msg=@%d.%d calls=%s/-", k, n, n, fitem(20, n, 1, a.off, a.length, "g")))
					for _, b := range ps {
						emit(fmt.Sprintf("kind=rx clk=%s msg=@%d.%d calls=%s+%s/-", k, n, n, fitem(20, n, 1, a.off, a.length, "g"), fitem(20, n, 1, b.off, b.length, "g")))
						emit(fmt.Sprintf("kind=rx clk=%s msg=@%d.%d calls=%s/%s", k, n, n, fitem(20, n, 1, a.off, a.length, "g"), fitem(20, n, 1, b.off, b.length, "g")))
					}
				}
			}
		}
	}
	// exhaustive small: message of length n, every ordered tuple of fragments (depth d)
	maxN, depth := 4, 3
	if thorough {
		maxN, depth = 6, 3
	}
	for n := 1; n <= maxN; n++ {
		ps := pairs(n)
		var rec func(cur []string)
		rec = func(cur []string) {
			if len(cur) > 0 {
				emit(fmt.Sprintf("kind=rx msg=@%d.%d calls=%s/-", n, n, strings.Join(cur, "+")))
			}
			if len(cur) == depth {
				return
			}
			for _, p := range ps {
				rec(append(cur, fitem(20, n, 1, p.off, p.length, "g")))
			}
		}
		rec(nil)
	}
	// random streams
	r := hx.NewRand(o.Seed + 7)
	cnt := 300 * o.Scale
	if thorough {
		cnt = 10000 * o.Scale
	}
	for i := 0; i < cnt; i++ {
		n := 1 + r.Intn(60)
		if r.Chance(30) {
			n = 60 + r.Intn(3000)
		}
		long := i%150 == 7 && (thorough || i < 300) // a few very long messages (the model's list-based bitmap is slow on them)
		if long {
			n = 60000 + r.Intn(5537)
		}
		seed := r.Intn(50)
		nseq := 1 + r.Intn(3)
		if long {
			nseq = 1
		}
		var items []string
		for s := 0; s < nseq; s++ {
			mfb := 1 + r.Intn(n)
			if n > 300 && mfb < n/200 {
				mfb = n/200 + 1
			}
			if long && mfb < n/8 {
				mfb = n/8 + r.Intn(n/8)
			}
			var fr []string
			for off := 0; off < n; off += mfb {
				l := mfb
				if off+l > n {
					l = n - off
				}
				fr = append(fr, fitem(20, n, s, off, l, "g"))
			}
			if r.Chance(50) {
				for j := len(fr) - 1; j > 0; j-- {
					x := r.Intn(j + 1)
					fr[j], fr[x] = fr[x], fr[j]
				}
			}
			if r.Chance(30) && len(fr) > 0 {
				fr = append(fr, fr[r.Intn(len(fr))]) // duplicate
			}
			if r.Chance(15) && len(fr) > 1 {
				d := r.Intn(len(fr))
				fr = append(fr[:d], fr[d+1:]...) // loss
			}
			items = append(items, fr...)
		}
		if nseq > 1 && r.Chance(60) { // interleave the message_seqs
			for j := len(items) - 1; j > 0; j-- {
				x := r.Intn(j + 1)
				items[j], items[x] = items[x], items[j]
			}
		}
		// hostile pieces
		ins := func(it string) {
			p := r.Intn(len(items) + 1)
			items = append(items[:p], append([]string{it}, items[p:]...)...)
		}
		if r.Chance(20) {
			ins(fitem(20, n, r.Intn(nseq), r.Intn(n+1), 0, "-")) // zero-length fragment
		}
		if r.Chance(12) {
			t := 1 + r.Intn(n+5)
			off := r.Intn(t)
			ins(fitem(20, t, r.Intn(nseq), off, r.Intn(t-off+1), "g")) // other announced total
		}
		if r.Chance(8) {
			off := r.Intn(n + 1)
			ins(fitem(20, n, r.Intn(nseq), off, n-off+1, "g")) // exceeds the announced length
		}
		if r.Chance(5) {
			ins(fitem(20, n, 9, 0, n, "g")) // unfragmented copy under another seq
		}
		if len(items) == 0 {
			continue
		}
		// distribute over calls
		var calls []string
		for len(items) > 0 {
			k := 1 + r.Intn(len(items))
			if r.Chance(50) {
				k = len(items)
			}
			calls = append(calls, strings.Join(items[:k], "+"))
			items = items[k:]
		}
		for j := 1 + r.Intn(3); j > 0; j-- {
			calls = append(calls, "-")
		}
		clk := ""
		if r.Chance(33) { // a third of the random streams run under an injected clock
			clk = "clk=" + hx.Pick(r, rxClocks) + " "
		}
		emit(fmt.Sprintf("kind=rx %smsg=@%d.%d calls=%s", clk, n, seed, strings.Join(calls, "/")))
	}
}

// fl: the message of length n as k... one-byte fragments (n of them)
func fl(n, k int) []string {
	var it []string
	for i := 0; i < k; i++ {
		it = append(it, fitem(20, n, 0, i, 1, "g"))
	}
	return it
}

func genTX(o hx.Opts, emit func(string)) {
	thorough := o.Tier == "thorough"
	lens := []int{0, 1, 5, 13, 100, 255, 256, 257, 1374, 1375, 1376, 3000}
	pmtus := []int{0, -5, 1, 13, 14, 25, 26, 27, 28, 30, 38, 40, 64, 100, 576, 1399, 1400, 1401, 1500, 9000, 16397, 16398, 17000}
	if thorough {
		for p := 20; p < 140; p++ {
			pmtus = append(pmtus, p)
		}
		lens = append(lens, 2, 12, 64, 511, 512, 513, 6000, 16371, 16372, 16373, 20000, 65536)
	}
	for _, n := range lens {
		for _, p := range pmtus {
			ms := "-"
			if n > 0 {
				ms = fmt.Sprintf("@%d.4", n)
			}
			eff := p
			if eff <= 0 {
				eff = 1400
			}
			if n > 3000 && n/maxInt(eff-25, 1) > 300 {
				continue // thousands of fragments of a very long message: the list-based model is too slow
			}
			emit(fmt.Sprintf("kind=tx pmtu=%d seq=%d msg=%s", p, n%7, ms))
		}
	}
	r := hx.NewRand(o.Seed + 13)
	cnt := 100 * o.Scale
	if thorough {
		cnt = 3000 * o.Scale
	}
	for i := 0; i < cnt; i++ {
		n := 1 + r.Intn(4000)
		if i%50 == 7 && (thorough || i < 100) { // few: the model's list-based bitmap is slow on very long messages
			n = 4000 + r.Intn(62000)
		}
		p := 26 + r.Intn(1600)
		if r.Chance(30) {
			p = 26 + r.Intn(60)
		}
		if n > 3000 && n/(maxInt(p-25, 1)) > 300 {
			p += 1000
		}
		emit(fmt.Sprintf("kind=tx pmtu=%d seq=%d msg=@%d.%d", p, r.Intn(65536), n, r.Intn(40)))
	}
}

func maxInt(a, b int) int {
	if a > b {
		return a
	}
	return b
}

func main() {
	o := hx.ParseOpts()
	tr := newLineTrace(o.Out)
	defer tr.Close()
	// after maxHangs handshakes that ended in the 30 s watchdog the generator stops: each of them is in the
	// trace already (in the quick tier none is expected; the thorough tier runs one unworkable PMTU per suite)
	maxHangs := 3
	if o.Tier == "thorough" {
		maxHangs = 8
	}
	emit := func(desc string) {
		if e2eHangs >= maxHangs && o.Replay == "" {
			return
		}
		tr.Line(desc, execute(desc))
		if e2eHangs == maxHangs && o.Replay == "" {
			fmt.Fprintf(os.Stderr, "c17: %d handshakes hung until the watchdog; the generator stops here (they are in the trace)\n", e2eHangs)
		}
	}
	if o.Replay != "" {
		for _, c := range hx.ReplayCases(o.Replay) {
			emit(c)
		}
		return
	}
	if o.Phase == "" || o.Phase == "rx" {
		genRX(o, emit) // carries the finding witnesses: first
	}
	if o.Phase == "" || o.Phase == "fb" {
		genFB(o, emit)
	}
	if o.Phase == "" || o.Phase == "tx" {
		genTX(o, emit)
	}
	if o.Phase == "" || o.Phase == "e2e" {
		genE2E(o, emit)
	}
}

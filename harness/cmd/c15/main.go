// Driver for C15: measures what the REAL dtlcp transmit path hands to the network.
//
// Phases (-phase): wr (maxPayloadSizeForWrite / encrypt / writeRecordLocked / write through a
// hook connection carrying the real cipher of a suite, sizes of the datagrams per write),
// fl (buffered flight + flush), e2e (real handshakes over an in-memory recording PacketConn
// for the four suites and several PMTUs, then WriteTo / ReadFrom). Without -phase all run.
//
// The *Config that carries the configured PMTU reaches the connection in every way the API
// offers (token cfg= / ccfg= / scfg=, absent = c0):
//
//	c<k>        handed to Client / Server after k Config.Clone() calls
//	g<k>l<lp>   returned, after k Clone() calls, by GetConfigForClient of a listener Config
//	            whose own PMTU is lp (server side only)
package main

import (
	"bytes"
	"fmt"
	"net"
	"strconv"
	"strings"
	"time"

	"gitee.com/Trisia/gotlcp/dtlcp"
	"verifharness/internal/hx"
	"verifharness/internal/pair"
	"verifharness/internal/pki"
)

type sink struct {
	out    [][]byte
	local  net.Addr
	remote net.Addr
}

type timeoutErr struct{}

func (timeoutErr) Error() string   { return "sink: nothing to read" }
func (timeoutErr) Timeout() bool   { return true }
func (timeoutErr) Temporary() bool { return true }

func newSink() *sink {
	return &sink{local: &net.UDPAddr{IP: net.IPv4(127, 0, 0, 1), Port: 10000},
		remote: &net.UDPAddr{IP: net.IPv4(127, 0, 0, 1), Port: 20000}}
}
func (s *sink) ReadFrom(p []byte) (int, net.Addr, error) { return 0, nil, timeoutErr{} }
func (s *sink) WriteTo(p []byte, _ net.Addr) (int, error) {
	s.out = append(s.out, append([]byte(nil), p...))
	return len(p), nil
}
func (s *sink) Close() error                     { return nil }
func (s *sink) LocalAddr() net.Addr              { return s.local }
func (s *sink) SetDeadline(time.Time) error      { return nil }
func (s *sink) SetReadDeadline(time.Time) error  { return nil }
func (s *sink) SetWriteDeadline(time.Time) error { return nil }

var hookSuite = map[string]uint16{"none": 0, "gcm": dtlcp.ECC_SM4_GCM_SM3, "cbc": dtlcp.ECC_SM4_CBC_SM3}
var e2eSuite = map[string]uint16{"ecc-gcm": dtlcp.ECC_SM4_GCM_SM3, "ecc-cbc": dtlcp.ECC_SM4_CBC_SM3,
	"ecdhe-gcm": dtlcp.ECDHE_SM4_GCM_SM3, "ecdhe-cbc": dtlcp.ECDHE_SM4_CBC_SM3}

func sizes(ds [][]byte) string {
	if len(ds) == 0 {
		return "-"
	}
	ss := make([]string, len(ds))
	for i, d := range ds {
		ss[i] = strconv.Itoa(len(d))
	}
	return strings.Join(ss, ".")
}

func payload(n int) []byte {
	b := make([]byte, n)
	for i := range b {
		b[i] = byte(i*7 + n)
	}
	return b
}

// reach builds the configuration(s) for a reach token from the configured `base`:
// the *Config to hand to Client/Server and whether it is a listener configuration whose
// GetConfigForClient returns the derived one. `listener` makes a fresh listener configuration.
func reach(tok string, base *dtlcp.Config, listener func() *dtlcp.Config) (*dtlcp.Config, bool, bool) {
	if tok == "" {
		return base, false, true
	}
	clones := func(k int) *dtlcp.Config {
		c := base
		for i := 0; i < k; i++ {
			c = c.Clone()
		}
		return c
	}
	switch tok[0] {
	case 'c':
		k, err := strconv.Atoi(tok[1:])
		if err != nil || k < 0 || k > 64 {
			return nil, false, false
		}
		return clones(k), false, true
	case 'g':
		parts := strings.SplitN(tok[1:], "l", 2)
		if len(parts) != 2 {
			return nil, false, false
		}
		k, err1 := strconv.Atoi(parts[0])
		lp, err2 := strconv.Atoi(parts[1])
		if err1 != nil || err2 != nil || k < 0 || k > 64 {
			return nil, false, false
		}
		l := listener()
		l.PMTU = lp
		// the application derives the per-client configuration inside the callback, as the
		// documentation of GetConfigForClient suggests
		l.GetConfigForClient = func(*dtlcp.ClientHelloInfo) (*dtlcp.Config, error) { return clones(k), nil }
		return l, true, true
	}
	return nil, false, false
}

func execWR(desc string) string {
	su, _ := hx.KV(desc, "suite")
	pmtu := hx.KVInt(desc, "pmtu")
	n := hx.KVInt(desc, "n")
	var out string
	p := hx.Guard(func() {
		s := newSink()
		rt, _ := hx.KV(desc, "cfg")
		cfg, forClient, ok := reach(rt, &dtlcp.Config{PMTU: pmtu}, func() *dtlcp.Config { return &dtlcp.Config{} })
		if !ok {
			out = "badcase=1"
			return
		}
		tx, err := dtlcp.VerifNewTxCfg(s, s.remote, hookSuite[su], cfg, forClient)
		if err != nil {
			out = "err=setup"
			return
		}
		m := tx.MaxPayload(23)
		wn, err := tx.WriteRecord(23, payload(n))
		if err != nil || wn != n {
			out = fmt.Sprintf("max=%d en=%d err=write", m, tx.ExplicitNonceLen())
			return
		}
		// every datagram must be exactly one record whose length field matches
		for _, d := range s.out {
			if len(d) < 13 || int(d[11])<<8|int(d[12]) != len(d)-13 || d[0] != 23 {
				out = "err=badrecord"
				return
			}
		}
		out = fmt.Sprintf("max=%d en=%d dg=%s", m, tx.ExplicitNonceLen(), sizes(s.out))
	})
	if p != "" {
		return "panic=" + p
	}
	return out
}

func execFL(desc string) string {
	su, _ := hx.KV(desc, "suite")
	pmtu := hx.KVInt(desc, "pmtu")
	rs, _ := hx.KV(desc, "recs")
	var out string
	p := hx.Guard(func() {
		s := newSink()
		tx, err := dtlcp.VerifNewTx(s, s.remote, hookSuite[su], pmtu)
		if err != nil {
			out = "err=setup"
			return
		}
		tx.SetBuffering(true)
		if rs != "-" {
			for _, r := range strings.Split(rs, ".") {
				k, _ := strconv.Atoi(r)
				if _, err := tx.WriteRecord(22, payload(k)); err != nil {
					out = "err=write"
					return
				}
			}
		}
		before := len(s.out)
		if _, err := tx.Flush(); err != nil {
			out = "err=flush"
			return
		}
		out = fmt.Sprintf("early=%d dg=%s", before, sizes(s.out))
	})
	if p != "" {
		return "panic=" + p
	}
	return out
}

// oneWay sends each size with WriteTo from `from` and reads at `to` as many messages as
// datagrams left; entry = n:<datagram sizes>:<ReadFrom lengths, "!" when the bytes differ>
func oneWay(from, to *dtlcp.Conn, fromEnd, toEnd *pair.PacketEnd, szs string) string {
	if szs == "" || szs == "-" {
		return "-"
	}
	var ws []string
	buf := make([]byte, 40000)
	for _, z := range strings.Split(szs, ".") {
		n, _ := strconv.Atoi(z)
		before := len(fromEnd.SentCopy())
		pl := payload(n)
		wn, err := from.WriteTo(pl, toEnd.LocalAddr())
		if err != nil || wn != n {
			ws = append(ws, fmt.Sprintf("%d:err:-", n))
			continue
		}
		sent := fromEnd.SentCopy()[before:]
		var got []byte
		var lens []string
		for range sent {
			to.SetReadDeadline(time.Now().Add(150 * time.Millisecond))
			k, _, err := to.ReadFrom(buf)
			if err != nil {
				lens = append(lens, "err")
				break
			}
			lens = append(lens, strconv.Itoa(k))
			got = append(got, buf[:k]...)
		}
		rd := "-"
		if len(lens) > 0 {
			rd = strings.Join(lens, ".")
		}
		if len(sent) > 0 && !bytes.Equal(got, pl) {
			rd += "!"
		}
		ws = append(ws, fmt.Sprintf("%d:%s:%s", n, sizes(sent), rd))
	}
	return strings.Join(ws, ",")
}

// stream: one Write of n bytes at `from`, Read at `to` until n bytes arrived (or an error)
func stream(from, to *dtlcp.Conn, fromEnd *pair.PacketEnd, n int) string {
	if n <= 0 {
		return "-"
	}
	before := len(fromEnd.SentCopy())
	pl := payload(n)
	wn, err := from.Write(pl)
	if err != nil || wn != n {
		return fmt.Sprintf("%d:err:-", n)
	}
	sent := fromEnd.SentCopy()[before:]
	var got []byte
	var lens []string
	buf := make([]byte, 40000)
	for len(got) < n {
		to.SetReadDeadline(time.Now().Add(150 * time.Millisecond))
		k, err := to.Read(buf)
		if err != nil {
			lens = append(lens, "err")
			break
		}
		lens = append(lens, strconv.Itoa(k))
		got = append(got, buf[:k]...)
	}
	rd := strings.Join(lens, ".")
	if !bytes.Equal(got, pl) {
		rd += "!"
	}
	return fmt.Sprintf("%d:%s:%s", n, sizes(sent), rd)
}

func execE2E(desc string) string {
	su, _ := hx.KV(desc, "suite")
	cp, sp := hx.KVInt(desc, "cp"), hx.KVInt(desc, "sp")
	szs, _ := hx.KV(desc, "sizes")
	rszs, _ := hx.KV(desc, "rsizes")
	st := hx.KVInt(desc, "stream")
	var out string
	p := hx.Guard(func() {
		std := pki.Std()
		ccfg, scfg := pair.DClient(), pair.DServer()
		id := e2eSuite[su]
		ccfg.CipherSuites = []uint16{id}
		scfg.CipherSuites = []uint16{id}
		ccfg.PMTU, scfg.PMTU = cp, sp
		serverAuth := func(cf *dtlcp.Config) {
			if strings.HasPrefix(su, "ecdhe") {
				cf.ClientAuth = dtlcp.RequireAndVerifyClientCert
				cf.ClientCAs = std.Root.Pool
			}
		}
		if strings.HasPrefix(su, "ecdhe") {
			ccfg.Certificates = []dtlcp.Certificate{pair.DCert(std.CliSig), pair.DCert(std.CliEnc)}
		}
		serverAuth(scfg)
		// how the configured objects reach the two connections
		crt, _ := hx.KV(desc, "ccfg")
		srt, _ := hx.KV(desc, "scfg")
		ccfg, cfc, okc := reach(crt, ccfg, func() *dtlcp.Config { return pair.DClient() })
		scfg, _, oks := reach(srt, scfg, func() *dtlcp.Config {
			l := pair.DServer()
			l.CipherSuites = []uint16{id}
			serverAuth(l)
			return l
		})
		if !okc || !oks || cfc {
			out = "badcase=1"
			return
		}
		c, s, ce, se, r := pair.DTLCP(ccfg, scfg, nil)
		defer ce.Close()
		defer se.Close()
		hsC, hsS := ce.SentCopy(), se.SentCopy()
		if !r.OK() {
			out = fmt.Sprintf("hs=fail hsC=%s hsS=%s", sizes(hsC), sizes(hsS))
			return
		}
		// the maximum payload each connection itself reports (the spec's bound: "the connection's
		// maximum payload"), read before any application write
		mc, ms := dtlcp.VerifMaxPayloadSizeForWrite(c), dtlcp.VerifMaxPayloadSizeForWrite(s)
		w := oneWay(c, s, ce, se, szs)  // client -> server, bounded by the CLIENT's PMTU
		v := oneWay(s, c, se, ce, rszs) // server -> client, bounded by the SERVER's PMTU
		W := stream(c, s, ce, st)       // Write / Read
		V := stream(s, c, se, st)
		out = fmt.Sprintf("hs=ok hsC=%s hsS=%s mc=%d ms=%d w=%s v=%s W=%s V=%s", sizes(hsC), sizes(hsS), mc, ms, w, v, W, V)
	})
	if p != "" {
		return "panic=" + p
	}
	return out
}

func execute(desc string) string {
	k, _ := hx.KV(desc, "kind")
	switch k {
	case "wr":
		return execWR(desc)
	case "fl":
		return execFL(desc)
	case "e2e":
		return execE2E(desc)
	}
	return "badcase=1"
}

// documented overheads, only to aim the generator at the boundaries (the verdicts are the oracle's)
func overhead(su string) int {
	switch su {
	case "gcm":
		return 13 + 8 + 16
	case "cbc":
		return 13 + 16 + 32 + 16
	}
	return 13
}

func genWR(o hx.Opts, emit func(string)) {
	thorough := o.Tier == "thorough"
	// witnesses first: F9 (CBC padding), F24 (empty payload)
	emit("kind=wr suite=cbc pmtu=1400 n=1339")
	emit("kind=wr suite=cbc pmtu=1400 n=1327")
	emit("kind=wr suite=gcm pmtu=1400 n=0")
	pmtus := []int{0, -1, 1, 13, 14, 30, 37, 38, 39, 60, 76, 77, 78, 93, 94, 100, 128, 512, 576, 1399, 1400, 1401, 1500, 9000, 16384, 16397, 16398, 16421, 16422, 16460, 16461, 16462, 17000}
	if thorough {
		for p := 2; p < 300; p++ {
			pmtus = append(pmtus, p)
		}
		for p := 16380; p < 16480; p++ {
			pmtus = append(pmtus, p)
		}
	}
	for _, su := range []string{"none", "gcm", "cbc"} {
		for _, p := range pmtus {
			eff := p
			if eff <= 0 {
				eff = 1400
			}
			m := eff - overhead(su) // about the maximum payload
			if m < 1 {
				m = 1
			}
			if m > 16384 {
				m = 16384
			}
			ns := map[int]bool{0: true, 1: true, 2: true}
			for d := -34; d <= 34; d++ {
				if thorough || d >= -18 && d <= 18 {
					if m+d >= 0 {
						ns[m+d] = true
					}
				}
			}
			ns[2*m] = true
			ns[2*m+1] = true
			if m < 3000 {
				ns[3*m+5] = true
			}
			keys := make([]int, 0, len(ns))
			for k := range ns {
				keys = append(keys, k)
			}
			sortInts(keys)
			for _, n := range keys {
				if n > 40000 {
					continue
				}
				emit(fmt.Sprintf("kind=wr suite=%s pmtu=%d n=%d", su, p, n))
			}
		}
	}
	// payload sizes 0..maxPayload+2 exhaustively for a few PMTUs
	full := []int{60, 100, 130}
	if thorough {
		full = append(full, 200, 576, 1400)
	}
	for _, su := range []string{"none", "gcm", "cbc"} {
		for _, p := range full {
			for n := 0; n <= p-overhead(su)+20 && n <= p+2; n++ {
				if n >= 0 {
					emit(fmt.Sprintf("kind=wr suite=%s pmtu=%d n=%d", su, p, n))
				}
			}
		}
	}
	// the same write path when the configured *Config reached the connection through
	// Clone() and / or GetConfigForClient (listener PMTU below, equal to, above the configured one)
	reaches := []string{"c1", "c2", "g0l0", "g1l0", "g1l9000", "g2l300"}
	rpm := []int{0, -1, 60, 100, 576, 1200, 1399, 1400, 1401, 1500, 9000, 17000}
	if thorough {
		reaches = append(reaches, "c3", "c7", "g0l1400", "g0l576", "g3l0", "g1l20000", "g1l1")
		rpm = pmtus
	}
	for _, su := range []string{"none", "gcm", "cbc"} {
		for _, rt := range reaches {
			for _, p := range rpm {
				eff := p
				if eff <= 0 {
					eff = 1400
				}
				m := eff - overhead(su)
				if m < 1 {
					m = 1
				}
				if m > 16384 {
					m = 16384
				}
				// around the configured maximum AND around the default's maximum (what a
				// connection that lost the configured value would use)
				d := 1400 - overhead(su)
				for _, n := range []int{1, m - 16, m - 1, m, m + 1, m + 17, 2*m + 1, d, d + 1} {
					if n > 0 && n <= 40000 {
						emit(fmt.Sprintf("kind=wr suite=%s cfg=%s pmtu=%d n=%d", su, rt, p, n))
					}
				}
			}
		}
	}
	r := hx.NewRand(o.Seed)
	cnt := 600 * o.Scale
	if thorough {
		cnt = 40000 * o.Scale
	}
	for i := 0; i < cnt; i++ {
		su := hx.Pick(r, []string{"none", "gcm", "cbc", "cbc"})
		p := 1 + r.Intn(2000)
		if r.Chance(10) {
			p = 16300 + r.Intn(800)
		}
		n := r.Intn(2*p + 3)
		if n > 35000 {
			n = 35000
		}
		emit(fmt.Sprintf("kind=wr suite=%s pmtu=%d n=%d", su, p, n))
	}
	// seeded random derivations: k clones, optionally behind a listener with a random PMTU
	r2 := hx.NewRand(o.Seed + 7)
	for i := 0; i < cnt/2; i++ {
		su := hx.Pick(r2, []string{"none", "gcm", "cbc"})
		p := 1 + r2.Intn(2000)
		if r2.Chance(15) {
			p = r2.Intn(3) - 1
		}
		rt := fmt.Sprintf("c%d", 1+r2.Intn(4))
		if r2.Chance(50) {
			rt = fmt.Sprintf("g%dl%d", r2.Intn(4), r2.Intn(3000))
		}
		n := 1 + r2.Intn(2*p+1500)
		emit(fmt.Sprintf("kind=wr suite=%s cfg=%s pmtu=%d n=%d", su, rt, p, n))
	}
}

func sortInts(a []int) {
	for i := 1; i < len(a); i++ {
		for j := i; j > 0 && a[j] < a[j-1]; j-- {
			a[j], a[j-1] = a[j-1], a[j]
		}
	}
}

func genFL(o hx.Opts, emit func(string)) {
	// witness K3 first
	emit("kind=fl suite=none pmtu=1400 recs=1000.1000")
	emit("kind=fl suite=none pmtu=1400 recs=100.200")
	emit("kind=fl suite=none pmtu=1400 recs=-")
	emit("kind=fl suite=gcm pmtu=1400 recs=1.16")
	emit("kind=fl suite=cbc pmtu=576 recs=1.16.3000")
	r := hx.NewRand(o.Seed + 3)
	cnt := 200 * o.Scale
	if o.Tier == "thorough" {
		cnt = 5000 * o.Scale
	}
	for i := 0; i < cnt; i++ {
		su := hx.Pick(r, []string{"none", "none", "gcm", "cbc"})
		p := 100 + r.Intn(1500)
		k := 1 + r.Intn(5)
		rs := make([]string, k)
		for j := range rs {
			rs[j] = strconv.Itoa(1 + r.Intn(p))
		}
		emit(fmt.Sprintf("kind=fl suite=%s pmtu=%d recs=%s", su, p, strings.Join(rs, ".")))
	}
}

func boundary(su string, pmtu int) (string, int) {
	eff := pmtu
	if eff <= 0 {
		eff = 1400
	}
	ov := 13 + 8 + 16
	if strings.HasSuffix(su, "cbc") {
		ov = 13 + 16 + 32 + 16
	}
	m := eff - ov
	if m > 16384 {
		m = 16384
	}
	var zs []string
	for _, n := range []int{1, 2, m - 17, m - 16, m - 15, m - 1, m, m + 1, m + 2, m + 14, m + 15, m + 16, m + 17, 2*m + 3} {
		if n > 0 && n < 36000 {
			zs = append(zs, strconv.Itoa(n))
		}
	}
	return strings.Join(zs, "."), 3*m + 7
}

func genE2E(o hx.Opts, emit func(string)) {
	thorough := o.Tier == "thorough"
	// PMTU is a per-endpoint SEND-side setting: symmetric and asymmetric pairs, both directions
	pm := [][2]int{{0, 0}, {1400, 600}, {576, 1400}, {400, 400},
		{9000, 0}, {9000, 1400}, {20000, 576}, {0, 9000}, {1400, 20000}, {576, 9000}}
	if thorough {
		pm = append(pm, [2]int{300, 2000}, [2]int{2000, 300}, [2]int{1500, 1500}, [2]int{9000, 9000}, [2]int{17000, 17000}, [2]int{250, 250},
			[2]int{20000, 0}, [2]int{20000, 1400}, [2]int{9000, 576}, [2]int{0, 20000}, [2]int{576, 20000}, [2]int{1501, 1500}, [2]int{1500, 1501},
			[2]int{3000, 1400}, [2]int{1400, 3000}, [2]int{16500, 100}, [2]int{100, 16500})
	}
	suites := []string{"ecc-gcm", "ecc-cbc", "ecdhe-gcm", "ecdhe-cbc"}
	for _, su := range suites {
		for _, p := range pm {
			zs, st := boundary(su, p[0])
			rzs, _ := boundary(su, p[1])
			if st > 36000 {
				st = 36000
			}
			emit(fmt.Sprintf("kind=e2e suite=%s cp=%d sp=%d sizes=%s rsizes=%s stream=%d", su, p[0], p[1], zs, rzs, st))
		}
	}
	// configurations derived by Clone() and / or selected by GetConfigForClient: the configured
	// PMTU (cp / sp) must be the one in force whatever the listener's own PMTU is
	type via struct {
		cc, sc string
		cp, sp int
	}
	vs := []via{{"c1", "c1", 1200, 1200}, {"c2", "c1", 576, 1400}, {"c0", "g0l0", 1400, 600}, {"c1", "g1l0", 600, 1200},
		{"c0", "g1l9000", 0, 576}, {"c1", "g2l300", 9000, 1200}, {"c1", "g1l1200", 400, 1200}}
	if thorough {
		vs = append(vs, via{"c3", "c5", 300, 2000}, via{"c1", "g0l576", 20000, 9000}, via{"c0", "g3l0", 1400, 250},
			via{"c2", "g1l20000", 1500, 1501}, via{"c1", "c1", 0, 0}, via{"c1", "g1l0", 17000, 17000}, via{"c4", "g4l1400", 250, 400})
	}
	for _, su := range suites {
		for _, v := range vs {
			zs, st := boundary(su, v.cp)
			rzs, _ := boundary(su, v.sp)
			if st > 36000 {
				st = 36000
			}
			emit(fmt.Sprintf("kind=e2e suite=%s ccfg=%s scfg=%s cp=%d sp=%d sizes=%s rsizes=%s stream=%d", su, v.cc, v.sc, v.cp, v.sp, zs, rzs, st))
		}
	}
}

func main() {
	o := hx.ParseOpts()
	tr := hx.NewTrace(o.Out)
	defer tr.Close()
	emit := func(desc string) { tr.Line(desc, execute(desc)) }
	if o.Replay != "" {
		for _, c := range hx.ReplayCases(o.Replay) {
			emit(c)
		}
		return
	}
	if o.Phase == "" || o.Phase == "wr" {
		genWR(o, emit)
	}
	if o.Phase == "" || o.Phase == "fl" {
		genFL(o, emit)
	}
	if o.Phase == "" || o.Phase == "e2e" {
		genE2E(o, emit)
	}
}

// Alias hazards.
//
// The translation gives slices VALUE semantics (a Go slice becomes a Lean List).  That is faithful
// unless two live slices share storage and one of them is written while the other is still read:
// `p := r[5:]; p[0] = 1; use(r)`.  This file finds every place where that could happen, so that the
// translator can refuse the function (or, for the functions listed in aliasReviewed, print the
// reviewed justification into the generated file).
//
// Events, collected per function in source order with their branch context:
//
//	alias a~b   `a := b[lo:hi]`, `a = b`, `a := append(b[..], …)`, `a := f(…, b[..], …)` when f's result
//	            may share storage with that parameter, `a := h.Sum(b)`
//	write p     `p[i] = v`, `copy(p[..], …)`, `append(p…, …)` (spare capacity), a callee that writes or
//	            appends through that argument, a receiver-assigning method called on p
//	read  p     any other occurrence of p in an expression (not `len(p)`, not `p[:0]`)
//
// Hazard: an alias a~b (closed under transitivity), a write through one side and, on a control path
// that can follow it, a read through the other side — unless both touch constant regions that
// cannot overlap (`p := r[5:]` against `r[3]`, `r[:5]`).  Events in different arms of the same
// if/switch never follow one another; events in the same loop follow one another in both orders.
package main

import (
	"fmt"
	"go/ast"
	"go/constant"
	"go/token"
	"go/types"
	"sort"
	"strings"
)

// aliasReviewed: functions whose hazards were reviewed by hand (Go name -> why value semantics is still right)
var aliasReviewed = map[string]string{
	"halfConn.decrypt": "AEAD.Open decrypts in place (dst = payload[:0]); the MAC section, which reads payload again, then sees plaintext in Go and ciphertext in the translation. " +
		"The two agree whenever an AEAD cipher comes without a MAC (hc.mac == nil), which is how every suite of the table is installed " +
		"(cipherSuites: aead != nil exactly when mac == nil; establishKeys passes a nil hash with an AEAD). " +
		"The theorems about this definition state that hypothesis (Tie.RecordRxSrc.WellFormed); outside it the definition is NOT a model of the Go function.",
}

type armRef struct {
	node ast.Node
	arm  int
}

type aliasEv struct {
	kind  byte // 'a' alias, 'w' write (the translation re-binds the written variable), 'W' write into spare capacity (append, Sum: invisible to the translation), 'r' read
	a, b  string
	lo    int // alias: constant low bound of a inside b (-1 unknown); read/write: constant low bound of the region touched
	hi    int // read/write: constant exclusive upper bound (-1 unbounded)
	pos   token.Pos
	arms  []armRef
	loops []ast.Node
	what  string
}

type aliasSummary struct {
	writes      map[int]bool // parameter positions (receiver excluded) the function may write or append through
	modelled    map[int]bool // … and the translation returns the written value (mutParam): a write the model sees
	stores      map[int]bool // parameter positions whose storage the receiver may still reference after the call
	recvAppends bool         // appends to slices reachable from its receiver (spare capacity: not an element write)
	recvWrites  bool         // writes ELEMENTS reachable from its receiver (re-binding the receiver, `*s = (*s)[n:]`, is not a write)
	returns     map[int]bool // parameter positions its slice results may share storage with
}

type aliasAn struct {
	t       *tr
	m       *fnMeta
	sums    map[*fnMeta]*aliasSummary
	evs     []aliasEv
	arms    []armRef
	loops   []ast.Node
	params  map[string]int
	ptrCopy map[string]string // local struct pointer -> the path it was copied from (`c := hs.c`): the translation copies the struct
	ptrHaz  []string
	fresh   map[string][]ast.Node // local variable -> the loops around its declaration (a new variable in every iteration of those)
}

func constInt(info *types.Info, e ast.Expr) (int, bool) {
	if e == nil {
		return 0, false
	}
	if tv, ok := info.Types[e]; ok && tv.Value != nil && tv.Value.Kind() == constant.Int {
		if v, ok := constant.Int64Val(tv.Value); ok {
			return int(v), true
		}
	}
	return 0, false
}

// pathOf: "x" / "x.f.g" when e is a variable or a field path of one (through parentheses and *)
func pathOf(e ast.Expr) (string, bool) {
	switch x := e.(type) {
	case *ast.ParenExpr:
		return pathOf(x.X)
	case *ast.StarExpr:
		return pathOf(x.X)
	case *ast.Ident:
		if x.Name == "nil" || x.Name == "_" {
			return "", false
		}
		return x.Name, true
	case *ast.SelectorExpr:
		if p, ok := pathOf(x.X); ok {
			return p + "." + x.Sel.Name, true
		}
	}
	return "", false
}

func isSliceish(ty types.Type) bool {
	if ty == nil {
		return false
	}
	switch ty.Underlying().(type) {
	case *types.Slice, *types.Array:
		return true
	}
	return false
}

// window: e as a window into a path: (path, constant low or -1, constant high or -1)
func (an *aliasAn) window(e ast.Expr) (string, int, int, bool) {
	switch x := e.(type) {
	case *ast.ParenExpr:
		return an.window(x.X)
	case *ast.UnaryExpr:
		if x.Op == token.AND { // &x passed as an out-parameter
			return an.window(x.X)
		}
	case *ast.CallExpr:
		if tv, ok := an.t.info.Types[x.Fun]; ok && tv.IsType() && len(x.Args) == 1 {
			return an.window(x.Args[0])
		}
	case *ast.SliceExpr:
		p, lo0, _, ok := an.window(x.X)
		if !ok {
			return "", 0, 0, false
		}
		lo, hi := 0, -1
		if x.Low != nil {
			if v, ok := constInt(an.t.info, x.Low); ok {
				lo = v
			} else {
				lo = -1
			}
		}
		if x.High != nil {
			if v, ok := constInt(an.t.info, x.High); ok {
				hi = v
			}
		}
		if lo0 > 0 && lo >= 0 {
			lo += lo0
			if hi >= 0 {
				hi += lo0
			}
		} else if lo0 != 0 {
			lo, hi = -1, -1
		}
		return p, lo, hi, true
	default:
		if p, ok := pathOf(e); ok && isSliceish(an.t.typeOf(e)) {
			return p, 0, -1, true
		}
	}
	return "", 0, 0, false
}

// declare: a local variable is declared here
func (an *aliasAn) declare(name string) {
	if an.fresh == nil {
		an.fresh = map[string][]ast.Node{}
	}
	cur := append([]ast.Node{}, an.loops...)
	if old, ok := an.fresh[name]; ok { // declared twice: only the loops around both declarations count
		var both []ast.Node
		for _, a := range old {
			for _, b := range cur {
				if a == b {
					both = append(both, a)
				}
			}
		}
		cur = both
	}
	an.fresh[name] = cur
}

func rootOf(path string) string {
	if i := strings.Index(path, "."); i >= 0 {
		return path[:i]
	}
	return path
}

// excluded: the loops in which BOTH variables are new in every iteration (no storage of one iteration is
// reachable through them in another)
func (an *aliasAn) excluded(p, q string) map[ast.Node]bool {
	x := map[ast.Node]bool{}
	fp, okp := an.fresh[rootOf(p)]
	fq, okq := an.fresh[rootOf(q)]
	if !okp || !okq {
		return x
	}
	for _, a := range fp {
		for _, b := range fq {
			if a == b {
				x[a] = true
			}
		}
	}
	return x
}

func (an *aliasAn) add(kind byte, a, b string, lo, hi int, pos token.Pos, what string) {
	an.evs = append(an.evs, aliasEv{kind: kind, a: a, b: b, lo: lo, hi: hi, pos: pos,
		arms: append([]armRef{}, an.arms...), loops: append([]ast.Node{}, an.loops...), what: what})
}

// calleeOf: the translated function or method a call invokes, and its argument list (uncurried)
func (an *aliasAn) calleeOf(c *ast.CallExpr) (*fnMeta, []ast.Expr, ast.Expr) {
	t := an.t
	switch f := c.Fun.(type) {
	case *ast.Ident:
		if m := t.byObj[t.info.Uses[f]]; m != nil {
			return m, c.Args, nil
		}
	case *ast.SelectorExpr:
		if sel := t.info.Selections[f]; sel != nil && sel.Kind() == types.MethodVal {
			if m := t.byObj[sel.Obj()]; m != nil {
				return m, c.Args, f.X
			}
		}
	case *ast.CallExpr:
		if id, ok := f.Fun.(*ast.Ident); ok {
			if m := t.byObj[t.info.Uses[id]]; m != nil && m.inner != nil {
				return m, append(append([]ast.Expr{}, f.Args...), c.Args...), nil
			}
		}
	}
	return nil, nil, nil
}

// reads: every content read in expression e
func (an *aliasAn) reads(e ast.Expr) {
	if e == nil {
		return
	}
	t := an.t
	switch x := e.(type) {
	case *ast.ParenExpr:
		an.reads(x.X)
	case *ast.Ident, *ast.SelectorExpr:
		if p, ok := pathOf(e); ok {
			if isSliceish(t.typeOf(e)) {
				an.add('r', p, "", 0, -1, e.Pos(), t.src(e))
			}
			return
		}
		if s, ok := e.(*ast.SelectorExpr); ok {
			an.reads(s.X)
		}
	case *ast.IndexExpr:
		an.reads(x.Index)
		if p, lo, _, ok := an.window(x.X); ok {
			if i, okc := constInt(t.info, x.Index); okc && lo >= 0 {
				an.add('r', p, "", lo+i, lo+i+1, e.Pos(), t.src(e))
			} else {
				an.add('r', p, "", -1, -1, e.Pos(), t.src(e))
			}
			return
		}
		an.reads(x.X)
	case *ast.SliceExpr:
		an.reads(x.Low)
		an.reads(x.High)
		if p, lo, hi, ok := an.window(e); ok {
			if hi >= 0 && hi <= lo && lo >= 0 {
				return // an empty window reads nothing
			}
			if h, okc := constInt(t.info, x.High); okc && h == 0 {
				return
			}
			an.add('r', p, "", lo, hi, e.Pos(), t.src(e))
			return
		}
		an.reads(x.X)
	case *ast.UnaryExpr:
		an.reads(x.X)
	case *ast.BinaryExpr:
		an.reads(x.X)
		an.reads(x.Y)
	case *ast.CompositeLit:
		for _, el := range x.Elts {
			if kv, ok := el.(*ast.KeyValueExpr); ok {
				an.reads(kv.Value)
			} else {
				an.reads(el)
			}
		}
	case *ast.KeyValueExpr:
		an.reads(x.Value)
	case *ast.TypeAssertExpr:
		an.reads(x.X)
	case *ast.CallExpr:
		an.call(x, "")
	}
}

// call: the events of a call; dst is the path the (slice) result is bound to, "" when none
func (an *aliasAn) call(c *ast.CallExpr, dst string) {
	t := an.t
	if tv, ok := t.info.Types[c.Fun]; ok && tv.IsType() { // conversion
		for _, a := range c.Args {
			an.reads(a)
		}
		if dst != "" && len(c.Args) == 1 {
			if p, lo, _, ok := an.window(c.Args[0]); ok {
				an.add('a', dst, p, lo, -1, c.Pos(), t.src(c))
			}
		}
		return
	}
	if id, ok := c.Fun.(*ast.Ident); ok {
		if _, isB := t.info.Uses[id].(*types.Builtin); isB {
			switch id.Name {
			case "len", "cap":
				return
			case "append":
				for _, a := range c.Args[1:] {
					an.reads(a)
				}
				if !c.Ellipsis.IsValid() {
					// append(xs, e) with e a slice: xs (and what it is bound to) holds a reference to e's storage
					for _, a := range c.Args[1:] {
						if q, _, _, okq := an.window(a); okq {
							if p, _, _, okp := an.window(c.Args[0]); okp && p != q {
								an.add('c', p, q, -1, -1, c.End(), t.src(c))
							}
							if dst != "" && dst != q {
								an.add('c', dst, q, -1, -1, c.End(), t.src(c))
							}
						}
					}
				}
				if p, lo, _, ok := an.window(c.Args[0]); ok {
					// the elements already there are read, the spare capacity behind them is written
					an.add('r', p, "", lo, -1, c.Args[0].Pos(), t.src(c.Args[0]))
					an.add('W', p, subOf(c.Args[0]), -1, -1, c.End(), t.src(c))
					if dst != "" && dst != p {
						an.add('a', dst, p, lo, -1, c.End(), t.src(c))
					}
				} else {
					an.reads(c.Args[0])
				}
				return
			case "copy":
				an.reads(c.Args[1])
				if p, lo, hi, ok := an.window(c.Args[0]); ok {
					an.add('w', p, "", lo, hi, c.End(), t.src(c))
				}
				return
			case "make", "panic", "new":
				for _, a := range c.Args {
					if _, isT := t.info.Types[a]; isT && !t.info.Types[a].IsType() {
						an.reads(a)
					}
				}
				return
			}
		}
	}
	// h.Sum(prefix) on a modelled hash: appends to the prefix
	if f, ok := c.Fun.(*ast.SelectorExpr); ok {
		if s := t.info.Selections[f]; s != nil && s.Kind() == types.MethodVal && isHashIface(s.Recv()) {
			for _, a := range c.Args {
				an.reads(a)
			}
			if f.Sel.Name == "Sum" && len(c.Args) == 1 {
				if p, lo, _, ok := an.window(c.Args[0]); ok {
					an.add('W', p, subOf(c.Args[0]), -1, -1, c.End(), t.src(c))
					if dst != "" {
						an.add('a', dst, p, lo, -1, c.End(), t.src(c))
					}
				}
			}
			return
		}
		// extern parameter functions (rxExtern.f, hmac.New, subtle.…): read their arguments, return fresh values
		if id, ok := f.X.(*ast.Ident); ok {
			if v, isVar := t.info.Uses[id].(*types.Var); isVar && v.Parent() == t.pkg.Scope() {
				for _, a := range c.Args {
					an.reads(a)
				}
				return
			}
		}
	}
	callee, args, recv := an.calleeOf(c)
	for _, a := range args {
		an.reads(a)
	}
	if recv != nil {
		if callee != nil && callee.mutRecv {
			if r := rootIdent(recv); r != "" {
				an.ptrWrite(r, t.src(c))
			}
		}
		if p, ok := pathOf(recv); ok && callee != nil && callee.mutRecv {
			if sm := an.sums[callee]; sm == nil || sm.recvWrites {
				an.add('w', p, "", -1, -1, c.End(), t.src(c))
			} else if sm.recvAppends {
				an.add('W', p, "", -1, -1, c.End(), t.src(c))
				an.reads(recv)
			} else {
				an.reads(recv) // the callee only re-binds its receiver (a slice header, a field)
			}
		} else {
			an.reads(recv)
		}
	}
	if callee == nil {
		return
	}
	sum := an.sums[callee]
	if sum == nil {
		return
	}
	// an out-parameter of slice type may share storage, after the call, with any other slice argument or the receiver
	if sig, ok := callee.obj.Type().(*types.Signature); ok {
		for i, a := range args {
			if i >= sig.Params().Len() {
				break
			}
			pt, isPtr := sig.Params().At(i).Type().Underlying().(*types.Pointer)
			if !isPtr || !isSliceish(pt.Elem()) {
				continue
			}
			p, _, _, ok := an.window(a)
			if !ok {
				continue
			}
			for j, b := range args {
				if q, _, _, ok2 := an.window(b); ok2 && j != i && q != p {
					an.add('a', p, q, -1, -1, c.End(), t.src(c))
				}
			}
			if recv != nil {
				if q, _, _, ok2 := an.window(recv); ok2 && q != p {
					an.add('a', p, q, -1, -1, c.End(), t.src(c))
				}
			}
		}
	}
	for i, a := range args {
		p, lo, hi, ok := an.window(a)
		if !ok {
			continue
		}
		if sum.writes[i] {
			k := byte('w')
			if !sum.modelled[i] {
				k = 'W'
			}
			sub := ""
			if k == 'W' {
				sub = subOf(a)
			}
			an.add(k, p, sub, lo, hi, c.End(), t.src(c))
			// a callee that writes one argument while another argument shares its storage: the library's
			// ciphers allow exact overlap (their stubs read the source before writing); anything else is refused
			for j, b := range args {
				if q, _, _, ok2 := an.window(b); ok2 && j != i && touches(p, q) && !isStubMethod(callee) {
					an.add('a', "arg#"+fmt.Sprint(i)+" of "+callee.goName, q, -1, -1, c.Pos(), t.src(c))
					an.add('r', "arg#"+fmt.Sprint(i)+" of "+callee.goName, "", -1, -1, c.End()+1, t.src(c))
				}
			}
		}
		if sum.stores[i] && recv != nil {
			if q, ok := pathOf(recv); ok {
				an.add('c', q, p, -1, -1, c.End(), t.src(c))
			}
		}
		if sum.returns[i] && dst != "" {
			an.add('a', dst, p, lo, -1, c.End(), t.src(c))
		}
	}
}

// subOf: "sub" when e is a proper window (a slice expression) of its path: an append through it can
// overwrite elements the path itself still shows
func subOf(e ast.Expr) string {
	for {
		if p, ok := e.(*ast.ParenExpr); ok {
			e = p.X
			continue
		}
		break
	}
	// x[lo:] ends where x ends: an append through it writes only beyond what x shows
	if se, ok := e.(*ast.SliceExpr); ok && se.High != nil {
		return "sub"
	}
	return ""
}

func isStubMethod(m *fnMeta) bool {
	for _, d := range dynTypes {
		if strings.HasPrefix(m.goName, d+".") {
			return true
		}
	}
	return false
}

func touches(p, q string) bool {
	return p == q || strings.HasPrefix(p, q+".") || strings.HasPrefix(q, p+".")
}

// bind: `lhs = rhs` / `lhs := rhs`
// substituted: the translator reads and writes the copied path itself instead of this variable (findPtrSubst)
func (an *aliasAn) substituted(id *ast.Ident) bool {
	obj := an.t.info.Defs[id]
	if obj == nil {
		obj = an.t.info.Uses[id]
	}
	_, ok := an.t.ptrSubst[obj]
	return ok
}

func (an *aliasAn) isStructPtrIdent(id *ast.Ident) bool {
	obj := an.t.info.Defs[id]
	if obj == nil {
		obj = an.t.info.Uses[id]
	}
	return obj != nil && obj.Type() != nil && isStructPtr(obj.Type())
}

// rootIdent: the variable an lvalue path starts at
func rootIdent(e ast.Expr) string {
	for {
		switch x := e.(type) {
		case *ast.SelectorExpr:
			e = x.X
		case *ast.IndexExpr:
			e = x.X
		case *ast.SliceExpr:
			e = x.X
		case *ast.StarExpr:
			e = x.X
		case *ast.ParenExpr:
			e = x.X
		case *ast.Ident:
			return x.Name
		default:
			return ""
		}
	}
}

// ptrWrite: the struct that local pointer `root` points to is written; if `root` is a copy of another path
// (c := hs.c) the translation has copied the struct and the write would be lost
func (an *aliasAn) ptrWrite(root string, what string) {
	if from, ok := an.ptrCopy[root]; ok {
		an.ptrHaz = append(an.ptrHaz, fmt.Sprintf("%s is a copy of the pointer %s (a struct value in the translation); `%s` writes through it", root, from, what))
	}
}

func (an *aliasAn) bind(lhs, rhs ast.Expr) {
	t := an.t
	if id, ok := lhs.(*ast.Ident); ok && id.Name != "_" && rhs != nil && an.isStructPtrIdent(id) && !an.substituted(id) {
		if p, ok := pathOf(rhs); ok {
			if an.ptrCopy == nil {
				an.ptrCopy = map[string]string{}
			}
			an.ptrCopy[id.Name] = p
		}
	}
	if _, isId := lhs.(*ast.Ident); !isId {
		if r := rootIdent(lhs); r != "" {
			an.ptrWrite(r, t.src(lhs))
		}
	}
	dst := ""
	if p, ok := pathOf(lhs); ok && isSliceish(t.typeOf(lhs)) {
		dst = p
	}
	switch l := lhs.(type) {
	case *ast.IndexExpr:
		an.reads(l.Index)
		if p, lo, _, ok := an.window(l.X); ok {
			if i, okc := constInt(t.info, l.Index); okc && lo >= 0 {
				an.add('w', p, "", lo+i, lo+i+1, lhs.Pos(), t.src(lhs))
			} else {
				an.add('w', p, "", -1, -1, lhs.Pos(), t.src(lhs))
			}
		}
	}
	if rhs == nil {
		return
	}
	if dst != "" {
		if c, ok := rhs.(*ast.CallExpr); ok {
			an.call(c, dst)
			return
		}
		if _, isArr := t.typeOf(lhs).Underlying().(*types.Array); !isArr { // array assignment copies
			if p, lo, hi, ok := an.window(rhs); ok {
				if s, isS := rhs.(*ast.SliceExpr); isS {
					an.reads(s.Low)
					an.reads(s.High)
				}
				if p != dst && !(hi >= 0 && lo >= 0 && hi <= lo) {
					// under value semantics `dst = p[..]` COPIES what p shows now: a read of p (writes made
					// earlier through another window of p's storage would be missing from the copy)
					an.add('r', p, "", lo, hi, rhs.Pos(), t.src(rhs))
					an.add('a', dst, p, lo, -1, rhs.Pos(), t.src(lhs)+" = "+t.src(rhs))
				}
				return
			}
		}
	}
	an.reads(rhs)
}

func (an *aliasAn) stmts(list []ast.Stmt) {
	for _, s := range list {
		an.stmt(s)
	}
}

func (an *aliasAn) inArm(node ast.Node, arm int, f func()) {
	an.arms = append(an.arms, armRef{node, arm})
	f()
	an.arms = an.arms[:len(an.arms)-1]
}

func (an *aliasAn) stmt(s ast.Stmt) {
	t := an.t
	switch x := s.(type) {
	case nil:
	case *ast.BlockStmt:
		an.stmts(x.List)
	case *ast.ExprStmt:
		an.reads(x.X)
	case *ast.IncDecStmt:
		an.bind(x.X, nil)
		an.reads(x.X)
	case *ast.DeclStmt:
		if gd, ok := x.Decl.(*ast.GenDecl); ok {
			for _, sp := range gd.Specs {
				if vs, ok := sp.(*ast.ValueSpec); ok {
					for i, nm := range vs.Names {
						an.declare(nm.Name)
						if i < len(vs.Values) {
							an.bind(nm, vs.Values[i])
						}
					}
				}
			}
		}
	case *ast.AssignStmt:
		if x.Tok == token.DEFINE {
			for _, l := range x.Lhs {
				if id, ok := l.(*ast.Ident); ok && t.info.Defs[id] != nil {
					an.declare(id.Name)
				}
			}
		}
		if len(x.Rhs) == 1 && len(x.Lhs) > 1 {
			// a, b = f(...): every slice result may alias what the call's result aliases
			bound := false
			for _, l := range x.Lhs {
				if p, ok := pathOf(l); ok && isSliceish(t.typeOf(l)) {
					if c, ok := x.Rhs[0].(*ast.CallExpr); ok && !bound {
						an.call(c, p)
						bound = true
					}
				}
			}
			if !bound {
				an.reads(x.Rhs[0])
			}
			return
		}
		for i, l := range x.Lhs {
			if i < len(x.Rhs) {
				if x.Tok != token.DEFINE && x.Tok != token.ASSIGN {
					an.reads(l)
				}
				an.bind(l, x.Rhs[i])
			}
		}
	case *ast.ReturnStmt:
		for _, r := range x.Results {
			an.reads(r)
		}
		if len(x.Results) == 0 {
			for _, r := range t.results {
				if isSliceish(r.Type()) {
					an.add('r', r.Name(), "", 0, -1, x.Pos(), "return "+r.Name())
				}
			}
		}
	case *ast.IfStmt:
		an.stmt(x.Init)
		an.reads(x.Cond)
		an.inArm(x, 0, func() { an.stmt(x.Body) })
		if x.Else != nil {
			an.inArm(x, 1, func() { an.stmt(x.Else) })
		}
	case *ast.ForStmt:
		an.stmt(x.Init)
		an.loops = append(an.loops, x)
		an.reads(x.Cond)
		an.stmt(x.Body)
		an.stmt(x.Post)
		an.loops = an.loops[:len(an.loops)-1]
	case *ast.RangeStmt:
		an.reads(x.X)
		an.loops = append(an.loops, x)
		an.stmt(x.Body)
		an.loops = an.loops[:len(an.loops)-1]
	case *ast.SwitchStmt:
		an.stmt(x.Init)
		an.reads(x.Tag)
		for i, c := range x.Body.List {
			cc := c.(*ast.CaseClause)
			for _, e := range cc.List {
				an.reads(e)
			}
			an.inArm(x, i, func() { an.stmts(cc.Body) })
		}
	case *ast.TypeSwitchStmt:
		for i, c := range x.Body.List {
			cc := c.(*ast.CaseClause)
			an.inArm(x, i, func() { an.stmts(cc.Body) })
		}
	case *ast.BranchStmt, *ast.EmptyStmt:
	default:
		// anything else is refused by the translator itself
	}
}

func compatible(x, y *aliasEv) bool {
	for _, a := range x.arms {
		for _, b := range y.arms {
			if a.node == b.node && a.arm != b.arm {
				return false
			}
		}
	}
	return true
}

// follows: y can execute after x
func follows(x, y *aliasEv) bool { return followsX(x, y, nil) }

// followsX: … not counting a new iteration of the loops in ex
func followsX(x, y *aliasEv, ex map[ast.Node]bool) bool {
	if !compatible(x, y) {
		return false
	}
	if y.pos > x.pos {
		return true
	}
	for _, a := range x.loops {
		for _, b := range y.loops {
			if a == b && !ex[a] {
				return true
			}
		}
	}
	return false
}

type aliasEdge struct {
	a, b string // a is a window of b starting at lo (when known)
	lo   int
	ev   *aliasEv
}

// hazards of one function
func (an *aliasAn) hazards() []string {
	var edges []aliasEdge
	for i := range an.evs {
		if e := &an.evs[i]; e.kind == 'a' {
			edges = append(edges, aliasEdge{e.a, e.b, e.lo, e})
		}
	}
	// transitive closure: a ⊂ b ⊂ c gives a ⊂ c from c's bound; siblings (a ⊂ c, b ⊂ c) may overlap too
	for round := 0; round < 4; round++ {
		n := len(edges)
		for i := 0; i < n; i++ {
			for j := 0; j < n; j++ {
				if i == j {
					continue
				}
				var ne *aliasEdge
				switch {
				case edges[i].b == edges[j].a && edges[i].a != edges[j].b:
					ev := edges[i].ev
					if edges[j].ev.pos > ev.pos {
						ev = edges[j].ev
					}
					ne = &aliasEdge{edges[i].a, edges[j].b, edges[j].lo, ev}
				case edges[i].b == edges[j].b && edges[i].a != edges[j].a && i < j:
					ev := edges[i].ev
					if edges[j].ev.pos > ev.pos {
						ev = edges[j].ev
					}
					ne = &aliasEdge{edges[i].a, edges[j].a, -1, ev}
				}
				if ne == nil {
					continue
				}
				dup := false
				for _, e := range edges {
					if (e.a == ne.a && e.b == ne.b) || (e.a == ne.b && e.b == ne.a && ne.lo < 0) {
						dup = true
					}
				}
				if !dup {
					edges = append(edges, *ne)
				}
			}
		}
		if len(edges) == n {
			break
		}
	}
	seen := map[string]bool{}
	var out []string
	for _, ed := range edges {
		ex := an.excluded(ed.a, ed.b)
		for wi := range an.evs {
			w := &an.evs[wi]
			if (w.kind != 'w' && w.kind != 'W') || !(followsX(ed.ev, w, ex) || (w.pos == ed.ev.pos && compatible(ed.ev, w))) {
				continue
			}
			if !compatible(ed.ev, w) {
				continue
			}
			for _, side := range [][2]string{{ed.a, ed.b}, {ed.b, ed.a}} {
				if !touches(w.a, side[0]) {
					continue
				}
				for ri := range an.evs {
					r := &an.evs[ri]
					if r.kind != 'r' || !touches(r.a, side[1]) || !followsX(w, r, ex) || !compatible(ed.ev, r) {
						continue
					}
					// the operation that writes also creates the alias (a := append(b[:0], …), a := h.Sum(b)):
					// a holds exactly what was written
					if w.pos == ed.ev.pos && side[1] == ed.a && side[0] == ed.b {
						continue
					}
					// constant regions that cannot overlap: the window starts at ed.lo inside ed.b
					if ed.lo > 0 {
						if side[0] == ed.b && w.a == ed.b && w.hi >= 0 && w.hi <= ed.lo {
							continue // a write below the window
						}
						if side[1] == ed.b && r.a == ed.b && r.hi >= 0 && r.hi <= ed.lo {
							continue // a read below the window
						}
					}
					msg := fmt.Sprintf("%s shares storage with %s (%s); `%s` writes through %s and `%s` then reads %s",
						ed.a, ed.b, ed.ev.what, w.what, w.a, r.what, r.a)
					if !seen[msg] {
						seen[msg] = true
						out = append(out, msg)
					}
				}
			}
		}
	}
	// containers: `xs = append(xs, e)` / a receiver that keeps a parameter: xs holds a REFERENCE to e's storage.
	// A later write into that storage (through e or anything sharing it) shows through xs in Go, not in the
	// translation; an element write through xs (`xs[i][j] = v`, seen here as a write to xs) shows through e.
	for ci := range an.evs {
		ce := &an.evs[ci]
		if ce.kind != 'c' {
			continue
		}
		inner := map[string]bool{ce.b: true}
		for changed := true; changed; {
			changed = false
			for _, e := range an.evs {
				if e.kind != 'a' {
					continue
				}
				for q := range inner {
					if touches(q, e.a) && !inner[e.b] {
						inner[e.b] = true
						changed = true
					}
					if touches(q, e.b) && !inner[e.a] {
						inner[e.a] = true
						changed = true
					}
				}
			}
		}
		touchesInner := func(p string) bool {
			for q := range inner {
				if touches(p, q) {
					return true
				}
			}
			return false
		}
		for wi := range an.evs {
			w := &an.evs[wi]
			if (w.kind != 'w' && w.kind != 'W') || !(follows(ce, w) || (w.pos == ce.pos && compatible(ce, w) && wi > ci)) {
				continue
			}
			for ri := range an.evs {
				r := &an.evs[ri]
				if r.kind != 'r' || !followsX(w, r, an.excluded(w.a, r.a)) || !compatible(ce, r) {
					continue
				}
				var msg string
				if touchesInner(w.a) && !touches(w.a, ce.a) && touches(r.a, ce.a) {
					msg = fmt.Sprintf("%s holds a reference to the storage of %s (%s); `%s` writes it through %s and `%s` then reads %s", ce.a, ce.b, ce.what, w.what, w.a, r.what, r.a)
				} else if w.kind == 'w' && touches(w.a, ce.a) && touchesInner(r.a) && !touches(r.a, ce.a) {
					msg = fmt.Sprintf("%s holds a reference to the storage of %s (%s); `%s` writes through %s and `%s` then reads %s", ce.a, ce.b, ce.what, w.what, w.a, r.what, r.a)
				}
				if msg != "" && !seen[msg] {
					seen[msg] = true
					out = append(out, msg)
				}
			}
		}
	}
	// writes the translation does not see at all (append / Sum into spare capacity), then a read of the same storage
	for wi := range an.evs {
		w := &an.evs[wi]
		if w.kind != 'W' || w.b != "sub" {
			continue
		}
		for ri := range an.evs {
			r := &an.evs[ri]
			if r.kind == 'r' && touches(r.a, w.a) && followsX(w, r, an.excluded(w.a, r.a)) {
				msg := fmt.Sprintf("`%s` may overwrite elements of %s and `%s` then reads %s", w.what, w.a, r.what, r.a)
				if !seen[msg] {
					seen[msg] = true
					out = append(out, msg)
				}
			}
		}
	}
	for _, h := range an.ptrHaz {
		if !seen[h] {
			seen[h] = true
			out = append(out, h)
		}
	}
	sort.Strings(out)
	return out
}

// analyse one function: events, summary (for its callers) and hazards
func aliasAnalyse(t *tr, m *fnMeta, sums map[*fnMeta]*aliasSummary) []string {
	t.ptrSubst = map[types.Object]ast.Expr{}
	t.findPtrSubst(m)
	an := &aliasAn{t: t, m: m, sums: sums, params: map[string]int{}}
	saveRes, saveMeta := t.results, t.meta
	t.results = nil
	t.meta = m
	defer func() { t.results, t.meta = saveRes, saveMeta }()
	if fr := m.resultsOf(); fr != nil {
		for _, f := range fr.List {
			for _, nm := range f.Names {
				t.results = append(t.results, t.info.Defs[nm])
			}
		}
	}
	for i, nm := range m.paramNames() {
		an.params[nm] = i
	}
	body := m.bodyOf()
	if body == nil {
		sums[m] = &aliasSummary{writes: map[int]bool{}, modelled: map[int]bool{}, returns: map[int]bool{}, stores: map[int]bool{}}
		return nil
	}
	an.stmts(body.List)
	// summary
	sum := &aliasSummary{writes: map[int]bool{}, modelled: map[int]bool{}, returns: map[int]bool{}, stores: map[int]bool{}}
	for i, nm := range m.paramNames() {
		for _, mp := range m.mutParam {
			if mp == mangle(nm) {
				sum.modelled[i] = true
			}
		}
	}
	// alias classes (ignoring time) to see which parameters a written / returned path may share storage with
	related := func(p string) map[string]bool {
		set := map[string]bool{p: true}
		for changed := true; changed; {
			changed = false
			for _, e := range an.evs {
				if e.kind != 'a' {
					continue
				}
				for q := range set {
					if touches(q, e.a) && !set[e.b] {
						set[e.b] = true
						changed = true
					}
					if touches(q, e.b) && !set[e.a] {
						set[e.a] = true
						changed = true
					}
				}
			}
		}
		return set
	}
	recvName := ""
	if m.decl.Recv != nil && len(m.decl.Recv.List) == 1 && len(m.decl.Recv.List[0].Names) == 1 {
		recvName = m.decl.Recv.List[0].Names[0].Name
	}
	if recvName != "" {
		for nm, i := range an.params {
			rel := related(nm)
			for q := range rel {
				if q != nm && touches(q, recvName) {
					sum.stores[i] = true
				}
			}
			for _, e := range an.evs {
				if e.kind == 'c' && touches(e.a, recvName) {
					for q := range rel {
						if touches(q, e.b) {
							sum.stores[i] = true
						}
					}
				}
			}
		}
	}
	for _, e := range an.evs {
		if e.kind == 'w' || e.kind == 'W' {
			for q := range related(e.a) {
				if recvName != "" && touches(q, recvName) {
					if e.kind == 'w' {
						sum.recvWrites = true
					} else {
						sum.recvAppends = true
					}
				}
				if i, ok := an.params[q]; ok {
					sum.writes[i] = true
				}
			}
		}
	}
	ast.Inspect(body, func(n ast.Node) bool {
		if _, isLit := n.(*ast.FuncLit); isLit {
			return false
		}
		rs, ok := n.(*ast.ReturnStmt)
		if !ok {
			return true
		}
		var res []string
		for _, r := range rs.Results {
			if p, _, _, ok := an.window(r); ok {
				res = append(res, p)
			} else if c, ok := r.(*ast.CallExpr); ok {
				// return append(dst, …) / return f(x[..])
				tmp := &aliasAn{t: t, m: m, sums: sums, params: an.params}
				tmp.call(c, "\x00result")
				for _, e := range tmp.evs {
					if e.kind == 'a' && e.a == "\x00result" {
						res = append(res, e.b)
					}
				}
			}
		}
		if len(rs.Results) == 0 {
			for _, r := range t.results {
				if isSliceish(r.Type()) {
					res = append(res, r.Name())
				}
			}
		}
		for _, p := range res {
			for q := range related(p) {
				if i, ok := an.params[q]; ok {
					sum.returns[i] = true
				}
			}
		}
		return true
	})
	sums[m] = sum
	return an.hazards()
}

// Command go2lean is the *translator* tie between the Lean development and the Go source:
// on every check run it re-reads selected pure functions of /repo's working tree and rewrites
// lean/Gotlcp/Generated/Src.lean with a shallow embedding of their bodies in Lean 4
// (do-notation over `Id` or, when the body can panic, over `Except String`).  The theorems
// in lean/Gotlcp/Lemmas/Tie*.lean prove, for all inputs, that each generated definition
// computes what the hand-written model computes, so the property theorems speak about the
// function text that is in the tree *now*.
//
// How it works: the declarations a function needs (types, constants, callees) are collected
// from the package's files by name, printed into one synthetic file and type-checked with
// go/types (standard library only; `time` is the only import the subset may mention).  The
// checker's type and constant information then drives a syntax-directed translation:
//
//	int            -> Int   (mathematical integers: int64 overflow is NOT modelled; see DESIGN 12)
//	uintN, byte    -> BitVec N with unsigned comparisons / logical shifts (wrap-around as in Go)
//	intN           -> BitVec N with signed comparisons / arithmetic shifts
//	bool           -> Bool,  []T -> List T',  struct -> structure (fields of foreign types dropped)
//	*T receiver    -> value in, updated value out (first component of the result)
//	x << n         -> x <<< n.toNat (0 once n >= width, as in Go)
//	a[i], a[i:j], copy, make, /, %  -> checked helpers of Gotlcp.Base.GoSem (panic = Except.error)
//	for i := a; i < b; i++ { .. }   -> for k in List.range (b-a).toNat do let i := a + k; ..
//	early return, named results, op-assignment, if/else, switch on values -> do-notation
//
// Anything outside the subset makes the function "untranslatable": no definition is emitted,
// its name is listed in `Src.untranslated`, and every theorem about it stops compiling (which
// the check reports, as the brief requires for a broken proof obligation).
package main

import (
	"bytes"
	"flag"
	"fmt"
	"go/ast"
	"go/constant"
	"go/importer"
	"go/parser"
	"go/printer"
	"go/token"
	"go/types"
	"os"
	"path/filepath"
	"sort"
	"strings"
)

// what to translate: package -> functions ("Recv.name" or "name"), in dependency order
var wanted = map[string][]string{
	"dtlcp": {
		"newReplayWindow", "replayWindow.span", "replayWindow.check",
		"newFragmentBuffer", "fragmentBuffer.addFragment", "fragmentBuffer.complete", "fragmentBuffer.assembled",
		"extractPadding", "roundUp", "requiresClientCert", "supportedVersionsFromMax",
		"dtlcpWriteHeader", "dtlcpIsCompleteMessage",
		"certificateMsg.unmarshal", "certificateRequestMsg.unmarshal", "serverKeyExchangeMsg.unmarshal",
		"clientKeyExchangeMsg.unmarshal", "serverHelloDoneMsg.unmarshal",
		"clientHelloMsg.marshalForCookie", "generateCookie", "verifyCookie",
		"halfConn.explicitNonceLen", "Conn.maxPayloadSizeForWrite", "Conn.setWriteSeq",
		"RetransmitTimer.backoff", "RetransmitTimer.reset",
		"pHash", "prf12", "masterFromPreMasterSecret", "keysFromMasterSecret",
	},
	"tlcp": {
		"extractPadding", "roundUp", "requiresClientCert", "supportedVersionsFromMax",
		"tlcpIsCompleteMessage",
		"certificateMsg.unmarshal", "certificateRequestMsg.unmarshal", "serverKeyExchangeMsg.unmarshal",
		"clientKeyExchangeMsg.unmarshal", "serverHelloDoneMsg.unmarshal",
		"halfConn.explicitNonceLen", "Conn.maxPayloadSizeForWrite", "halfConn.incSeq",
		"pHash", "prf12", "masterFromPreMasterSecret", "keysFromMasterSecret",
	},
}

var pkgOrder = []string{"tlcp", "dtlcp"}

// externStubs: declarations that stand for the few library calls the subset knows how to model
// (keyed HMAC as "key + accumulated input", constant-time comparison as equality).  They make the
// synthetic file type-check without importing crypto packages; the translator recognises the calls
// by name and gives them their meaning (see `externCall`).
const externStubs = `
var hmac = struct{ New func(h func() hash.Hash, key []byte) hash.Hash }{}
var sm3 = struct{ New func() hash.Hash }{}
var sha256 = struct{ New func() hash.Hash }{}
var subtle = struct {
	ConstantTimeCompare func(x, y []byte) int
	ConstantTimeSelect  func(v, x, y int) int
}{}

// the record ciphers of the receive path (Go.RxExtern); errOpaque: an error that is not an alert
var rxExtern struct {
	xorKeyStream func(src []byte) []byte
	aeadOk       func(nonce, ciphertext, additionalData []byte) bool
	aeadPlain    func(nonce, ciphertext, additionalData []byte) []byte
	cbcDecrypt   func(iv, src []byte) []byte
}
var errOpaque error

// error constructors: the value is an error that is not an alert (the text is not modelled)
var fmt = struct{ Errorf func(format string, a ...any) error }{}
var errors = struct{ New func(text string) error }{}
var io = struct{ EOF, ErrUnexpectedEOF error }{}
var strings = struct{ HasSuffix func(s, suffix string) bool }{}
var hex = struct{ EncodeToString func(src []byte) string }{}
var bytes = struct{ Equal func(a, b []byte) bool }{}

`

// curStubs: the view stubs of the group being translated
var curStubs string
var curNilIsEmpty bool
var curOptPtr bool

// paStubs / paWanted: the protocol adapter's detecting connection (C20) over a SCRIPTED transport.
// goTransport stands for the embedded net.Conn: the peer is a list of steps, each the most one Read can
// return (a smaller buffer takes a prefix and leaves the rest readable) together with the error that Read
// reports once the step is used up (nil, a timeout, …); the end of the script is end of stream (io.EOF).
// Every segmentation of a byte stream, with errors anywhere, is some script.  readFull is io.ReadFull
// (= io.ReadAtLeast(r, buf, len(buf))), statement by statement from the library.
// nil-is-empty: recordHeader is nil, make([]byte, 5) or a non-empty suffix of it (Read sets it to nil when
// the suffix becomes empty), so "== nil" and "is empty" coincide on it.
var paWanted = []string{"ProtocolDetectConn.protocolVersion", "ProtocolDetectConn.ReadFirstHeader", "ProtocolDetectConn.Read"}

const paStubs = `
type ProtocolDetectConn struct {
	Conn         *goTransport
	major, minor uint8
	recordHeader []byte
	headerRead   int
}
type readStep struct {
	data []byte
	err  error
}
type goTransport struct{ script []readStep }

func (t *goTransport) Read(b []byte) (int, error) {
	if len(b) == 0 {
		return 0, nil
	}
	if len(t.script) == 0 {
		return 0, io.EOF
	}
	st := t.script[0]
	n := copy(b, st.data)
	if n < len(st.data) {
		t.script[0].data = st.data[n:]
		return n, nil
	}
	t.script = t.script[1:]
	return n, st.err
}

func (r *goTransport) readFull(buf []byte) (n int, err error) {
	for n < len(buf) && err == nil {
		var nn int
		nn, err = r.Read(buf[n:])
		n += nn
	}
	if n >= len(buf) {
		err = nil
	} else if n > 0 && err == io.EOF {
		err = io.ErrUnexpectedEOF
	}
	return
}
`

// rxStubs / rxWanted: the receive side of the record layer (halfConn.decrypt and what it calls) is translated
// over its own views: here halfConn.mac keeps its real type hash.Hash (the keyed-hash model), the ciphers
// are values whose Open / CryptBlocks / XORKeyStream are parameters of the generated definitions (Go.RxExtern)
var rxWanted = map[string][]string{
	"tlcp":  {"extractPadding", "roundUp", "tls10MAC", "halfConn.incSeq", "halfConn.explicitNonceLen", "halfConn.decrypt"},
	"dtlcp": {"extractPadding", "roundUp", "tls10MAC", "halfConn.explicitNonceLen", "halfConn.decrypt"}, // the DTLCP sequence number is explicit
}

const rxStubs = `
type halfConn struct {
	cipher     interface{} // nil, goStream, goAEAD or goCBC
	mac        hash.Hash
	seq        [8]byte
	scratchBuf [13]byte
}
type goStream struct{}
// cipher.Stream.XORKeyStream: panics when dst is shorter than src, else writes len(src) bytes
func (s goStream) XORKeyStream(dst, src []byte) {
	if len(dst) < len(src) {
		panic("crypto/cipher: output smaller than input")
	}
	copy(dst, rxExtern.xorKeyStream(src))
}
type goAEAD struct{ overhead, nonce int }
func (a goAEAD) Overhead() int         { return a.overhead }
func (a goAEAD) explicitNonceLen() int { return a.nonce }
// cipher.AEAD.Open: an error, or dst with the plaintext appended
func (a goAEAD) Open(dst, nonce, ciphertext, additionalData []byte) ([]byte, error) {
	if !rxExtern.aeadOk(nonce, ciphertext, additionalData) {
		return nil, errOpaque
	}
	return append(dst, rxExtern.aeadPlain(nonce, ciphertext, additionalData)...), nil
}
type goCBC struct {
	blockSize int
	iv        []byte
}
func (b goCBC) BlockSize() int    { return b.blockSize }
func (b *goCBC) SetIV(iv []byte)  { b.iv = iv }
// cipher.BlockMode.CryptBlocks of a CBC decrypter: panics on partial blocks or a short dst
func (b goCBC) CryptBlocks(dst, src []byte) {
	if len(src)%b.blockSize != 0 {
		panic("crypto/cipher: input not full blocks")
	}
	if len(dst) < len(src) {
		panic("crypto/cipher: output smaller than input")
	}
	copy(dst, rxExtern.cbcDecrypt(b.iv, src))
}
func (e alert) Error() string { return "" }
`

// cbStubs / codecWanted: the cryptobyte-based decoders.  `cryptobyte.String` is rewritten to the stub type
// cbString, whose methods are written here statement by statement after x/crypto/cryptobyte/string.go —
// with ONE deliberate difference: the library's `read` returns nil for failure and tests `v == nil`, which
// also makes a zero-length read on a NIL String fail ((*s)[:0] of a nil slice is nil); the stub returns an
// explicit flag, so a zero-length read always succeeds.  A String obtained from a successful read or from
// non-nil data is never nil, so the difference can only show on `cryptobyte.String(nil)` / a zero String.
var codecWanted = map[string][]string{
	"tlcp": {"readUint8LengthPrefixed", "readUint16LengthPrefixed", "readUint24LengthPrefixed", "readUint64", "tlcpIsCompleteMessage",
		"clientHelloMsg.unmarshal", "serverHelloMsg.unmarshal", "finishedMsg.unmarshal", "certificateVerifyMsg.unmarshal",
		"clientHelloMsg.marshal", "serverHelloMsg.marshal", "finishedMsg.marshal", "certificateVerifyMsg.marshal",
		"serverKeyExchangeMsg.marshal", "clientKeyExchangeMsg.marshal", "serverHelloDoneMsg.marshal"},
	// (certificateMsg.marshal and certificateRequestMsg.marshal write the message through a moving window `y := x[k:]`
	// of the result: value semantics cannot express that and the alias analysis refuses them; they stay with
	// model + correspondence)
	"dtlcp": {"readUint8LengthPrefixed", "readUint16LengthPrefixed", "readUint24LengthPrefixed", "readUint64", "dtlcpIsCompleteMessage",
		"dtlcpUnmarshalHeader", "clientHelloMsg.unmarshal", "serverHelloMsg.unmarshal", "helloVerifyRequestMsg.unmarshal",
		"finishedMsg.unmarshal", "certificateVerifyMsg.unmarshal",
		"dtlcpWriteHeader", "dtlcpMarshalHeader",
		"clientHelloMsg.messageType", "serverHelloMsg.messageType", "helloVerifyRequestMsg.messageType", "finishedMsg.messageType",
		"certificateVerifyMsg.messageType", "certificateMsg.messageType", "serverKeyExchangeMsg.messageType",
		"clientKeyExchangeMsg.messageType", "serverHelloDoneMsg.messageType",
		"clientHelloMsg.marshal", "serverHelloMsg.marshal", "helloVerifyRequestMsg.marshal", "finishedMsg.marshal", "certificateVerifyMsg.marshal",
		"serverKeyExchangeMsg.marshal", "clientKeyExchangeMsg.marshal", "serverHelloDoneMsg.marshal"},
}

const cbStubs = `
type cbString []byte

func (s *cbString) read(n int) ([]byte, bool) {
	if len(*s) < n || n < 0 {
		return nil, false
	}
	v := (*s)[:n]
	*s = (*s)[n:]
	return v, true
}
func (s *cbString) Skip(n int) bool {
	_, ok := s.read(n)
	return ok
}
func (s *cbString) ReadUint8(out *uint8) bool {
	v, ok := s.read(1)
	if !ok {
		return false
	}
	*out = uint8(v[0])
	return true
}
func (s *cbString) ReadUint16(out *uint16) bool {
	v, ok := s.read(2)
	if !ok {
		return false
	}
	*out = uint16(v[0])<<8 | uint16(v[1])
	return true
}
func (s *cbString) ReadUint24(out *uint32) bool {
	v, ok := s.read(3)
	if !ok {
		return false
	}
	*out = uint32(v[0])<<16 | uint32(v[1])<<8 | uint32(v[2])
	return true
}
func (s *cbString) ReadUint32(out *uint32) bool {
	v, ok := s.read(4)
	if !ok {
		return false
	}
	*out = uint32(v[0])<<24 | uint32(v[1])<<16 | uint32(v[2])<<8 | uint32(v[3])
	return true
}
func (s *cbString) readLengthPrefixed(lenLen int, outChild *cbString) bool {
	lenBytes, ok := s.read(lenLen)
	if !ok {
		return false
	}
	var length uint32
	for _, b := range lenBytes {
		length = length << 8
		length = length | uint32(b)
	}
	v, ok2 := s.read(int(length))
	if !ok2 {
		return false
	}
	*outChild = v
	return true
}
func (s *cbString) ReadUint8LengthPrefixed(out *cbString) bool  { return s.readLengthPrefixed(1, out) }
func (s *cbString) ReadUint16LengthPrefixed(out *cbString) bool { return s.readLengthPrefixed(2, out) }
func (s *cbString) ReadUint24LengthPrefixed(out *cbString) bool { return s.readLengthPrefixed(3, out) }
func (s *cbString) ReadBytes(out *[]byte, n int) bool {
	v, ok := s.read(n)
	if !ok {
		return false
	}
	*out = v
	return true
}
func (s cbString) Empty() bool { return len(s) == 0 }

// cryptobyte.Builder: the bytes so far and "an error was recorded" (after which additions are ignored and
// Bytes() fails).  X.AddUintNLengthPrefixed(func(b){…}) is rewritten (see rewriteDynCases) to: build the
// continuation's bytes in a child, then X.addLengthPrefixed(N/8, child).
type cbBuilder struct {
	err    bool
	result []byte
}

func (b *cbBuilder) add(bytes []byte) {
	if b.err {
		return
	}
	b.result = append(b.result, bytes...)
}
func (b *cbBuilder) AddUint8(v uint8)   { b.add([]byte{v}) }
func (b *cbBuilder) AddUint16(v uint16) { b.add([]byte{byte(v >> 8), byte(v)}) }
func (b *cbBuilder) AddUint24(v uint32) { b.add([]byte{byte(v >> 16), byte(v >> 8), byte(v)}) }
func (b *cbBuilder) AddUint32(v uint32) { b.add([]byte{byte(v >> 24), byte(v >> 16), byte(v >> 8), byte(v)}) }
func (b *cbBuilder) AddBytes(v []byte)  { b.add(v) }
func (b *cbBuilder) setErr()            { b.err = true }
func (b *cbBuilder) addLengthPrefixed(lenLen int, child cbBuilder) {
	if b.err {
		return
	}
	if child.err {
		b.err = true
		return
	}
	n := len(child.result)
	if (lenLen == 1 && n > 0xff) || (lenLen == 2 && n > 0xffff) || (lenLen == 3 && n > 0xffffff) {
		b.err = true // cryptobyte: pending child length exceeds the length prefix
		return
	}
	if lenLen >= 3 {
		b.result = append(b.result, byte(n>>16))
	}
	if lenLen >= 2 {
		b.result = append(b.result, byte(n>>8))
	}
	b.result = append(b.result, byte(n))
	b.result = append(b.result, child.result...)
}
func (b *cbBuilder) Bytes() ([]byte, error) {
	if b.err {
		return nil, errOpaque
	}
	return b.result, nil
}

// addBytesWithLength: b.AddValue(marshalingFunction(func(b) error { if len(v) != n { return err }; b.AddBytes(v); return nil }))
// — AddValue records the error the function returns (checked against the real text by checkViews)
func addBytesWithLength(b *cbBuilder, v []byte, n int) {
	if len(v) != n {
		b.setErr()
		return
	}
	b.AddBytes(v)
}
`

// txStubs / txWanted: the sender's handshake fragmentation (dtlcp Conn.writeHandshakeRecord) over a view in which
// the record layer below is a list: writeRecordLocked appends the payload it is given to c.sent (or fails at the
// writeErrAt-th call), the message is a value that marshals to given bytes, the transcript collects what is written.
// Locks are empty stub methods (the function runs under c.out's mutex: concurrency is C13's subject), the
// `if c.config.EnableDebug { … }` printing blocks are removed (rewriteDynCases).
var txWanted = []string{"halfConn.explicitNonceLen", "Conn.maxPayloadSizeForWrite", "Conn.writeHandshakeRecord"}

const txStubs = `
type Conn struct {
	config     *Config
	out        halfConn
	sent       [][]byte // stands for the network below writeRecordLocked
	writeErrAt int      // the call of writeRecordLocked that fails (counting from 0; negative: none)
}
type Config struct {
	PMTU        int
	EnableDebug bool
}
type goMsg struct {
	data  []byte
	fails bool
}
type handshakeMessage = *goMsg

func (m *goMsg) marshal() ([]byte, error) {
	if m.fails {
		return nil, errOpaque
	}
	return m.data, nil
}

type goTranscript struct{ written []byte }
type transcriptHash = *goTranscript

func (t *goTranscript) Write(p []byte) (int, error) {
	t.written = append(t.written, p...)
	return len(p), nil
}
func (c *Conn) writeRecordLocked(typ recordType, data []byte) (int, error) {
	if c.writeErrAt == len(c.sent) {
		return 0, errOpaque
	}
	c.sent = append(c.sent, data)
	return len(data), nil
}
func (hc *halfConn) Lock()   {}
func (hc *halfConn) Unlock() {}
` + viewCiphers

// finStubs / finWanted: the Finished verify_data (C04).  finishedHash is viewed without its `prf` field: the call
// h.prf(…) is rewritten to prfForVersion(h.version, &cipherSuite{})(…), the view stub that checkViews verifies
// against every return of the real prfAndHashForVersion; that newFinishedHash stores exactly that function is
// checked against its text (checkedFuncs).  msgHash is the transcript hash: Sum(nil) is the digest function of
// (algorithm, key = none, input) — the same parameter `ext.hmac` the keyed hashes use, at the empty key.
var finWanted = []string{"pHash", "prf12", "finishedHash.Write", "finishedHash.Sum", "finishedHash.clientSum", "finishedHash.serverSum"}

const finStubs = `
type finishedHash struct {
	msgHash hash.Hash
	version uint16
}
` + viewPrf

// selStubs / selWanted: the server's cipher-suite selection and the resumption decision (C01, C10) over views of
// the handshake state.  In this group struct pointers held in fields, locals and results are `Option T`
// (nil = none, a nil dereference = Except.error; receivers and parameters stay plain), the suite table
// `cipherSuites` (a package-level map) is a PARAMETER `cipherSuites : BitVec 16 → Option cipherSuite` of every
// definition that indexes it, function values are Lean functions (`hs.cipherSuiteOk` is a closure over hs),
// `c := hs.c` (never reassigned) stands for hs.c itself, `s != nil` on a []uint16 is the parameter nonNilU16.
// The session cache is a stub: an association list with a pure Get (the real LRU also moves the entry to the
// front: C11's subject); sendAlert records the alert and returns it as the error.
var selWanted = []string{"requiresClientCert", "Config.cipherSuites", "mutualCipherSuite", "selectCipherSuite",
	"serverHandshakeState.cipherSuiteOk", "serverHandshakeState.pickCipherSuite", "serverHandshakeState.checkForResumption",
	"checkALPN", "clientHandshakeState.pickCipherSuite", "clientHandshakeState.serverResumedSession", "clientHandshakeState.processServerHello"}

const selStubs = `
type cipherSuite struct {
	id    uint16
	flags int
}
var cipherSuites map[uint16]*cipherSuite

type Config struct {
	CipherSuites []uint16
	ClientAuth   ClientAuthType
	SessionCache *goCache
}
type goCert struct{}
type SessionState struct {
	vers             uint16
	cipherSuite      uint16
	masterSecret     []byte
	peerCertificates []goCert
}
type goCacheEntry struct {
	key   string
	state *SessionState
}
type goCache struct{ entries []goCacheEntry }

func (c *goCache) Get(sessionKey string) (*SessionState, bool) {
	for _, e := range c.entries {
		if e.key == sessionKey {
			return e.state, true
		}
	}
	return nil, false
}

type Conn struct {
	config           *Config
	vers             uint16
	cipherSuite      uint16
	clientProtocol   string
	peerCertificates []goCert
	alerts           []alert
}

func (c *Conn) sendAlert(a alert) error {
	c.alerts = append(c.alerts, a)
	return a
}
func (e alert) Error() string { return "" }

type clientHelloMsg struct {
	sessionId     []byte
	cipherSuites  []uint16
	alpnProtocols []string
}
type serverHelloMsg struct {
	sessionId         []byte
	cipherSuite       uint16
	compressionMethod uint8
	alpnProtocol      string
}
type clientHandshakeState struct {
	c            *Conn
	serverHello  *serverHelloMsg
	hello        *clientHelloMsg
	suite        *cipherSuite
	masterSecret []byte
	session      *SessionState
}
type serverHandshakeState struct {
	c            *Conn
	clientHello  *clientHelloMsg
	suite        *cipherSuite
	sessionState *SessionState
	ecdheOk      bool
	ecSignOk     bool
	ecDecryptOk  bool
	rsaDecryptOk bool
	rsaSignOk    bool
}
`

// negStubs / negWanted: parameter negotiation (C01): version and ALPN selection over a view of Config
var negWanted = []string{"Config.supportedVersions", "Config.mutualVersion", "negotiateALPN", "checkALPN"}

const negStubs = `
type Config struct {
	MinVersion uint16
	MaxVersion uint16
}
`

// viewStubs: per package, the part of the connection state the translated methods read.  The
// field lists are checked against the real struct declarations (checkViews); fields whose real
// type is a library interface are replaced by a value that carries only what is asked of it.
var viewStubs = map[string]string{
	"tlcp": `
type Conn struct {
	config      *Config
	bytesSent   int64
	packetsSent int64
	out         halfConn
}
type Config struct {
	DynamicRecordSizingDisabled bool
}
` + viewCommon,
	"dtlcp": `
type Conn struct {
	config     *Config
	out        halfConn
	writeEpoch uint16
	writeSeq   uint48
}
type Config struct {
	PMTU int
}
type RetransmitTimer struct {
	initial time.Duration
	current time.Duration
	max     time.Duration
	starts  int // stands for newTimer / handle: counts calls of start()
}
func (t *RetransmitTimer) start() { t.starts++ }
` + viewCommon,
}

const viewCommon = viewPrf + viewCiphers

const viewPrf = `
type cipherSuite struct{ id uint16 }

// every suite the stack negotiates derives keys with the TLS 1.2 PRF over HMAC-SM3; checkViews verifies
// that each return of the real prfAndHashForVersion has prf12(sm3.New) as its first value
func prfForVersion(version uint16, suite *cipherSuite) func(result, secret, label, seed []byte) {
	return func(result, secret, label, seed []byte) { prf12(sm3.New)(result, secret, label, seed) }
}

`

const viewCiphers = `
type halfConn struct {
	cipher interface{} // nil, goStream, goAEAD or goCBC (the real dynamic types are library ciphers)
	mac    goSized     // real type hash.Hash: only Size() is used
	seq    [8]byte
}
type goSized struct{ size int }
func (m goSized) Size() int { return m.size }
type goStream struct{}
type goAEAD struct{ overhead, nonce int }
func (a goAEAD) Overhead() int         { return a.overhead }
func (a goAEAD) explicitNonceLen() int { return a.nonce }
type goCBC struct{ blockSize int }
func (b goCBC) BlockSize() int { return b.blockSize }
`

// viewStructs: stub structs standing for real ones, with the fields whose type is abstracted
var viewStructs = map[string]map[string]bool{
	"serverHandshakeState": {},
	"clientHandshakeState": {},
	"serverHelloMsg":       {},
	"SessionState":         {"peerCertificates": true},
	"clientHelloMsg":       {},
	"finishedHash":         {},
	"ProtocolDetectConn":   {"Conn": true},
	"Conn":                 {"peerCertificates": true},
	"Config":               {"SessionCache": true},
	"halfConn":             {"mac": true},
	"RetransmitTimer":      {"starts": true},
	"cipherSuite":          {},
}

// replacedFuncs: real functions a stub stands for, with the source text (whitespace-normalised) the stub models
// checkedFuncs: real functions the views rely on without translating them, with the text they must have
var checkedFuncs = map[string]string{
	"newFinishedHash": `func newFinishedHash(version uint16, cipherSuite *cipherSuite) finishedHash { prf, newH := prfAndHashForVersion(version, cipherSuite) if newH != nil { return finishedHash{newH(), version, prf} } return finishedHash{sm3.New(), version, prf} }`,
}

var replacedFuncs = map[string]string{
	"addBytesWithLength":         `func addBytesWithLength(b *cryptobyte.Builder, v []byte, n int) { b.AddValue(marshalingFunction(func(b *cryptobyte.Builder) error { if len(v) != n { return fmt.Errorf("invalid value length: expected %d, got %d", n, len(v)) } b.AddBytes(v) return nil })) }`,
	"marshalingFunction.Marshal": `func (f marshalingFunction) Marshal(b *cryptobyte.Builder) error { return f(b) }`,
}

// viewOptional: stub fields that exist in only one of the packages
var viewOptional = map[string]bool{"RetransmitTimer.starts": true, "Conn.sent": true, "Conn.writeErrAt": true, "Conn.alerts": true}

// dynCases: type-switch case types (source text) -> the stub type that stands for them
var dynCases = map[string]string{"cipher.Stream": "goStream", "cipher.AEAD": "goAEAD", "aead": "goAEAD", "cbcMode": "goCBC"}

// stubFuncs: methods declared in the stubs (translated before everything else)
var stubFuncs = []string{"goSized.Size", "goAEAD.Overhead", "goAEAD.explicitNonceLen", "goCBC.BlockSize"}
var dynTypes = []string{"goStream", "goAEAD", "goCBC"}

// loopFuel: bounds (Go expressions over the function's parameters) for loops that are not
// counting loops, in source order, keyed by "pkg.func".  A bound that is too small makes the
// translated function fail with "loop fuel exhausted"; the tie theorems show it never does.
var loopFuel = map[string][]string{
	// every iteration uses up a step of the script or fills the buffer
	"pa.goTransport.readFull": {"len(r.script) + 2"},
	// every iteration moves offset forward by at least one byte of the body
	"dtlcp.Conn.writeHandshakeRecord": {"len(data) + 1"},
}

type decls struct {
	fset  *token.FileSet
	funcs map[string]*ast.FuncDecl
	gens  map[string]*ast.GenDecl // name -> enclosing GenDecl (type/const/var)
}

func loadDecls(dir string) (*decls, error) {
	d := &decls{fset: token.NewFileSet(), funcs: map[string]*ast.FuncDecl{}, gens: map[string]*ast.GenDecl{}}
	ents, err := os.ReadDir(dir)
	if err != nil {
		return nil, err
	}
	for _, e := range ents {
		n := e.Name()
		if !strings.HasSuffix(n, ".go") || strings.HasSuffix(n, "_test.go") || strings.HasPrefix(n, "verif_") {
			continue
		}
		f, err := parser.ParseFile(d.fset, filepath.Join(dir, n), nil, parser.SkipObjectResolution)
		if err != nil {
			return nil, err
		}
		for _, dc := range f.Decls {
			switch dc := dc.(type) {
			case *ast.FuncDecl:
				key := dc.Name.Name
				if dc.Recv != nil && len(dc.Recv.List) == 1 {
					key = recvName(dc.Recv.List[0].Type) + "." + key
				}
				d.funcs[key] = dc
			case *ast.GenDecl:
				for _, s := range dc.Specs {
					switch s := s.(type) {
					case *ast.TypeSpec:
						// one TypeSpec per synthetic decl: a grouped `type ( ... )` would drag in foreign types
						d.gens[s.Name.Name] = &ast.GenDecl{Tok: token.TYPE, Specs: []ast.Spec{s}}
					case *ast.ValueSpec:
						for _, nm := range s.Names {
							d.gens[nm.Name] = dc // whole block: iota must keep its position
						}
					}
				}
			}
		}
	}
	return d, nil
}

func recvName(e ast.Expr) string {
	switch t := e.(type) {
	case *ast.StarExpr:
		return recvName(t.X)
	case *ast.Ident:
		return t.Name
	}
	return "?"
}

// synth prints the chosen declarations into one file and type-checks it, pulling in
// further package-level declarations for every "undefined: X" the checker reports.  A function
// that needs something outside the subset (another package, an untranslated callee) is dropped
// and reported in `dropped` with the reason; the others are still translated.
func synth(d *decls, pkgName string, fns []string) (*token.FileSet, *ast.File, *types.Info, *types.Package, map[string]string, error) {
	chosenGen := map[*ast.GenDecl]bool{}
	var genOrder []*ast.GenDecl
	dropped := map[string]string{}
	for round := 0; round < 200; round++ {
		var buf bytes.Buffer
		fmt.Fprintf(&buf, "package %s\n\nimport \"time\"\nimport \"hash\"\n\nvar _ = time.Now\nvar _ hash.Hash\n\n%s\n", pkgName, externStubs+curStubs)
		_ = 0
		for _, g := range genOrder {
			printer.Fprint(&buf, d.fset, g)
			buf.WriteString("\n\n")
		}
		for _, fn := range fns {
			fd := d.funcs[fn]
			if fd == nil || dropped[fn] != "" {
				continue
			}
			var fb bytes.Buffer
			printer.Fprint(&fb, d.fset, fd)
			buf.WriteString(rewriteDynCases(fb.String()))
			buf.WriteString("\n\n")
		}
		fset := token.NewFileSet()
		f, err := parser.ParseFile(fset, pkgName+"_synth.go", buf.Bytes(), 0)
		if err != nil {
			return nil, nil, nil, nil, dropped, fmt.Errorf("synthetic file does not parse: %v", err)
		}
		type terr struct {
			pos token.Pos
			msg string
		}
		var undefined, other []terr
		conf := types.Config{
			Importer: importer.ForCompiler(fset, "source", nil),
			Error: func(err error) {
				te := err.(types.Error)
				if strings.HasPrefix(te.Msg, "undefined: ") {
					undefined = append(undefined, terr{te.Pos, strings.TrimPrefix(te.Msg, "undefined: ")})
				} else if !strings.Contains(te.Msg, "declared and not used") {
					other = append(other, terr{te.Pos, te.Msg})
				}
			},
		}
		info := &types.Info{Types: map[ast.Expr]types.TypeAndValue{}, Defs: map[*ast.Ident]types.Object{},
			Uses: map[*ast.Ident]types.Object{}, Selections: map[*ast.SelectorExpr]*types.Selection{},
			Implicits: map[ast.Node]types.Object{}}
		tp, _ := conf.Check(pkgName, fset, []*ast.File{f}, info)
		if len(undefined) == 0 && len(other) == 0 {
			return fset, f, info, tp, dropped, nil
		}
		// which function (if any) does a position belong to?
		owner := func(pos token.Pos) string {
			for _, dc := range f.Decls {
				if fd, ok := dc.(*ast.FuncDecl); ok && fd.Pos() <= pos && pos <= fd.End() {
					key := fd.Name.Name
					if fd.Recv != nil && len(fd.Recv.List) == 1 {
						key = recvName(fd.Recv.List[0].Type) + "." + key
					}
					return key
				}
			}
			return ""
		}
		progress := false
		for _, u := range undefined {
			if g := d.gens[u.msg]; g != nil {
				if !chosenGen[g] {
					chosenGen[g] = true
					genOrder = append(genOrder, g)
					progress = true
				}
				continue
			}
			if fn := owner(u.pos); fn != "" && dropped[fn] == "" {
				dropped[fn] = "needs " + u.msg + ", which is outside the subset"
				progress = true
			}
		}
		if len(undefined) == 0 {
			for _, e := range other {
				if fn := owner(e.pos); fn != "" && dropped[fn] == "" {
					dropped[fn] = "type error: " + e.msg
					progress = true
				}
			}
		}
		if !progress {
			var msgs []string
			for _, u := range undefined {
				msgs = append(msgs, "undefined: "+u.msg)
			}
			for _, e := range other {
				msgs = append(msgs, e.msg)
			}
			return nil, nil, nil, nil, dropped, fmt.Errorf("cannot type-check the selected declarations: %s", strings.Join(msgs, "; "))
		}
	}
	return nil, nil, nil, nil, dropped, fmt.Errorf("declaration closure did not converge")
}

// rewriteDynCases re-parses one function and replaces the case types of its type switches by
// the stub types that stand for them (dynCases)
func rewriteDynCases(src string) string {
	if !strings.Contains(src, ".(type)") && !strings.Contains(src, "io.ReadFull(") && !strings.Contains(src, "cryptobyte.") && !strings.Contains(src, ".EnableDebug") && !strings.Contains(src, ".prf(") {
		return src
	}
	fset := token.NewFileSet()
	f, err := parser.ParseFile(fset, "f.go", "package p\n"+src, 0)
	if err != nil {
		return src
	}
	// `if X.config.EnableDebug { … }` (debug printing, no else) is removed
	var dropDebug func(list []ast.Stmt) []ast.Stmt
	dropDebug = func(list []ast.Stmt) []ast.Stmt {
		var outl []ast.Stmt
		for _, st := range list {
			if is, ok := st.(*ast.IfStmt); ok && is.Else == nil && is.Init == nil {
				var cb bytes.Buffer
				printer.Fprint(&cb, fset, is.Cond)
				if strings.HasSuffix(cb.String(), ".config.EnableDebug") {
					continue
				}
			}
			outl = append(outl, st)
		}
		return outl
	}
	ast.Inspect(f, func(n ast.Node) bool {
		switch x := n.(type) {
		case *ast.BlockStmt:
			x.List = dropDebug(x.List)
		case *ast.CaseClause:
			x.Body = dropDebug(x.Body)
		}
		return true
	})
	// cryptobyte.String  ==>  cbString (the stub type of cbStubs)
	var fix func(e *ast.Expr)
	fix = func(e *ast.Expr) {
		if se, ok := (*e).(*ast.SelectorExpr); ok {
			if id, ok := se.X.(*ast.Ident); ok && id.Name == "cryptobyte" && se.Sel.Name == "String" {
				*e = &ast.Ident{Name: "cbString", NamePos: se.Pos()}
			}
			if id, ok := se.X.(*ast.Ident); ok && id.Name == "cryptobyte" && se.Sel.Name == "Builder" {
				*e = &ast.Ident{Name: "cbBuilder", NamePos: se.Pos()}
			}
		}
	}
	ast.Inspect(f, func(n ast.Node) bool {
		switch x := n.(type) {
		case *ast.Field:
			fix(&x.Type)
		case *ast.StarExpr:
			fix(&x.X)
		case *ast.ValueSpec:
			fix(&x.Type)
		case *ast.CallExpr:
			fix(&x.Fun)
			for i := range x.Args {
				fix(&x.Args[i])
			}
		case *ast.ParenExpr:
			fix(&x.X)
		case *ast.CompositeLit:
			fix(&x.Type)
		case *ast.ArrayType:
			fix(&x.Elt)
		}
		return true
	})
	// X.AddUintNLengthPrefixed(func(P *cbBuilder) { BODY })  ==>
	//     { var cbChildK cbBuilder; BODY[P := (&cbChildK)]; X.addLengthPrefixed(N/8, cbChildK) }
	// (innermost first; the library runs the continuation on a child that writes behind a length prefix
	// which is filled in afterwards: building the child first and prefixing it is the same bytes)
	childN := 0
	var rewriteList func(list []ast.Stmt)
	var rewriteStmt func(st ast.Stmt) ast.Stmt
	renameIdent := func(body *ast.BlockStmt, from string, to func() ast.Expr) {
		var walk func(n ast.Node) bool
		walk = func(n ast.Node) bool {
			switch x := n.(type) {
			case *ast.SelectorExpr:
				if id, ok := x.X.(*ast.Ident); ok && id.Name == from {
					x.X = to()
					return false
				}
				ast.Inspect(x.X, walk)
				return false
			case *ast.CallExpr:
				for i, a := range x.Args {
					if id, ok := a.(*ast.Ident); ok && id.Name == from {
						x.Args[i] = to()
					}
				}
			}
			return true
		}
		ast.Inspect(body, walk)
	}
	rewriteStmt = func(st ast.Stmt) ast.Stmt {
		es, ok := st.(*ast.ExprStmt)
		if !ok {
			return st
		}
		c, ok := es.X.(*ast.CallExpr)
		if !ok || len(c.Args) != 1 {
			return st
		}
		se, ok := c.Fun.(*ast.SelectorExpr)
		if !ok {
			return st
		}
		width := map[string]string{"AddUint8LengthPrefixed": "1", "AddUint16LengthPrefixed": "2", "AddUint24LengthPrefixed": "3"}[se.Sel.Name]
		fl, isLit := c.Args[0].(*ast.FuncLit)
		if width == "" || !isLit || len(fl.Type.Params.List) != 1 || len(fl.Type.Params.List[0].Names) != 1 {
			return st
		}
		rewriteList(fl.Body.List) // innermost first
		childN++
		child := fmt.Sprintf("cbChild%d", childN)
		pname := fl.Type.Params.List[0].Names[0].Name
		renameIdent(fl.Body, pname, func() ast.Expr {
			return &ast.ParenExpr{X: &ast.UnaryExpr{Op: token.AND, X: &ast.Ident{Name: child}}}
		})
		decl := &ast.DeclStmt{Decl: &ast.GenDecl{Tok: token.VAR, Specs: []ast.Spec{&ast.ValueSpec{
			Names: []*ast.Ident{{Name: child}}, Type: &ast.Ident{Name: "cbBuilder"}}}}}
		flush := &ast.ExprStmt{X: &ast.CallExpr{
			Fun:  &ast.SelectorExpr{X: se.X, Sel: &ast.Ident{Name: "addLengthPrefixed"}},
			Args: []ast.Expr{&ast.BasicLit{Kind: token.INT, Value: width}, &ast.Ident{Name: child}}}}
		blk := &ast.BlockStmt{List: append(append([]ast.Stmt{decl}, fl.Body.List...), flush)}
		return blk
	}
	rewriteList = func(list []ast.Stmt) {
		for i, st := range list {
			// descend into compound statements first
			ast.Inspect(st, func(n ast.Node) bool {
				switch x := n.(type) {
				case *ast.FuncLit:
					return false // handled when its call is rewritten
				case *ast.BlockStmt:
					if n != st {
						rewriteList(x.List)
						return false
					}
				case *ast.CaseClause:
					rewriteList(x.Body)
					return false
				}
				return true
			})
			if b, ok := st.(*ast.BlockStmt); ok {
				rewriteList(b.List)
			}
			list[i] = rewriteStmt(st)
		}
	}
	for _, dc := range f.Decls {
		if fd, ok := dc.(*ast.FuncDecl); ok && fd.Body != nil && strings.Contains(src, "LengthPrefixed(func(") {
			rewriteList(fd.Body.List)
		}
	}
	// X.prf(args)  ==>  prfForVersion(X.version, &cipherSuite{})(args)   (finishedHash: see finStubs)
	ast.Inspect(f, func(n ast.Node) bool {
		if c, ok := n.(*ast.CallExpr); ok {
			if se, ok := c.Fun.(*ast.SelectorExpr); ok && se.Sel.Name == "prf" {
				c.Fun = &ast.CallExpr{Fun: &ast.Ident{Name: "prfForVersion"}, Args: []ast.Expr{
					&ast.SelectorExpr{X: se.X, Sel: &ast.Ident{Name: "version"}},
					&ast.UnaryExpr{Op: token.AND, X: &ast.CompositeLit{Type: &ast.Ident{Name: "cipherSuite"}}}}}
			}
		}
		return true
	})
	ast.Inspect(f, func(n ast.Node) bool {
		// io.ReadFull(r, buf)  ==>  r.readFull(buf)   (the stub method that spells the library loop out)
		if c, ok := n.(*ast.CallExpr); ok && len(c.Args) == 2 {
			if se, ok := c.Fun.(*ast.SelectorExpr); ok && se.Sel.Name == "ReadFull" {
				if id, ok := se.X.(*ast.Ident); ok && id.Name == "io" {
					c.Fun = &ast.SelectorExpr{X: c.Args[0], Sel: &ast.Ident{Name: "readFull"}}
					c.Args = c.Args[1:]
				}
			}
			return true
		}
		ts, ok := n.(*ast.TypeSwitchStmt)
		if !ok {
			return true
		}
		for _, c := range ts.Body.List {
			cc := c.(*ast.CaseClause)
			for i, e := range cc.List {
				var b bytes.Buffer
				printer.Fprint(&b, fset, e)
				if to, ok := dynCases[b.String()]; ok {
					cc.List[i] = &ast.Ident{Name: to}
				}
			}
		}
		return true
	})
	var out bytes.Buffer
	for _, dc := range f.Decls {
		printer.Fprint(&out, fset, dc)
		out.WriteString("\n")
	}
	return out.String()
}

// checkViews compares the stub structs with the real declarations: every stub field must exist in
// the real struct with the same type text unless it is listed as abstracted
func checkViews(d *decls, pkgName string) error {
	fsetS := token.NewFileSet()
	fS, err := parser.ParseFile(fsetS, "stubs.go", "package p\n"+curStubs, 0)
	if err != nil {
		return err
	}
	// the stub of prfForVersion: every return of the real prfAndHashForVersion yields prf12(sm3.New), and
	// prfForVersion returns that first value
	if fd := d.funcs["prfAndHashForVersion"]; fd != nil {
		okAll, n := true, 0
		ast.Inspect(fd.Body, func(nd ast.Node) bool {
			if rs, ok := nd.(*ast.ReturnStmt); ok {
				n++
				var b bytes.Buffer
				if len(rs.Results) > 0 {
					printer.Fprint(&b, d.fset, rs.Results[0])
				}
				if b.String() != "prf12(sm3.New)" {
					okAll = false
				}
			}
			return true
		})
		var pb bytes.Buffer
		if pf := d.funcs["prfForVersion"]; pf != nil {
			printer.Fprint(&pb, d.fset, pf.Body)
		}
		flat := strings.Join(strings.Fields(pb.String()), " ")
		if !okAll || n == 0 || flat != "{ prf, _ := prfAndHashForVersion(version, suite) return prf }" {
			return fmt.Errorf("view prfForVersion: the real function does not always return prf12(sm3.New) (%q)", flat)
		}
	}
	// functions the stubs REPLACE (a model, not a translation): the real text must be the one the stub was written for
	for name, want := range replacedFuncs {
		if !strings.Contains(curStubs, "func addBytesWithLength(") {
			continue
		}
		fd := d.funcs[name]
		if fd == nil {
			return fmt.Errorf("stub %s: no such function in the tree", name)
		}
		var b bytes.Buffer
		printer.Fprint(&b, d.fset, fd)
		if got := strings.Join(strings.Fields(b.String()), " "); got != want {
			return fmt.Errorf("stub %s: the real function changed (%q)", name, got)
		}
	}
	if strings.Contains(curStubs, "type finishedHash struct") {
		for name, want := range checkedFuncs {
			fd := d.funcs[name]
			if fd == nil {
				return fmt.Errorf("view finishedHash: no function %s in the tree", name)
			}
			var b bytes.Buffer
			printer.Fprint(&b, d.fset, fd)
			if got := strings.Join(strings.Fields(b.String()), " "); got != want {
				return fmt.Errorf("view finishedHash: %s changed (%q)", name, got)
			}
		}
	}
	for _, dc := range fS.Decls {
		gd, ok := dc.(*ast.GenDecl)
		if !ok || gd.Tok != token.TYPE {
			continue
		}
		for _, sp := range gd.Specs {
			ts := sp.(*ast.TypeSpec)
			abstracted, isView := viewStructs[ts.Name.Name]
			if !isView {
				continue
			}
			real := d.gens[ts.Name.Name]
			if real == nil {
				return fmt.Errorf("view %s: no such type in the tree", ts.Name.Name)
			}
			rst, ok := real.Specs[0].(*ast.TypeSpec).Type.(*ast.StructType)
			if !ok {
				return fmt.Errorf("view %s: not a struct in the tree", ts.Name.Name)
			}
			realFields := map[string]string{}
			for _, f := range rst.Fields.List {
				var b bytes.Buffer
				printer.Fprint(&b, d.fset, f.Type)
				for _, nm := range f.Names {
					realFields[nm.Name] = b.String()
				}
				if len(f.Names) == 0 { // embedded: named after its type
					nm := b.String()
					if i := strings.LastIndex(nm, "."); i >= 0 {
						nm = nm[i+1:]
					}
					realFields[strings.TrimPrefix(nm, "*")] = b.String()
				}
			}
			for _, f := range ts.Type.(*ast.StructType).Fields.List {
				var b bytes.Buffer
				printer.Fprint(&b, fsetS, f.Type)
				for _, nm := range f.Names {
					rt, ok := realFields[nm.Name]
					if !ok {
						if viewOptional[ts.Name.Name+"."+nm.Name] {
							continue
						}
						return fmt.Errorf("view %s: field %s does not exist in the tree", ts.Name.Name, nm.Name)
					}
					if !abstracted[nm.Name] && rt != b.String() {
						return fmt.Errorf("view %s: field %s has type %s in the tree, %s in the view", ts.Name.Name, nm.Name, rt, b.String())
					}
				}
			}
		}
	}
	return nil
}

// ---------------------------------------------------------------------------
// translation

type unsupported struct{ msg string }

func bad(format string, a ...any) { panic(unsupported{fmt.Sprintf(format, a...)}) }

type tr struct {
	fset    *token.FileSet
	info    *types.Info
	pkg     *types.Package
	fnInfo  map[string]*fnMeta // by Lean name
	byObj   map[types.Object]*fnMeta
	structs map[string][]field // Lean structure name -> kept fields
	// per function
	names    map[types.Object]string
	used     map[string]int
	monadic  bool // current function is in Except
	recv     types.Object
	results  []types.Object // named results
	meta     *fnMeta
	pre      []string                // statements to emit before the one being translated
	pkgVars  map[types.Object]string // package-level variables emitted as Lean constants
	tmpN     int
	loopN    int
	actN     int // number of checked-helper calls emitted so far (to detect effects in a sub-expression)
	pkgName  string
	plainPtr map[types.Object]bool     // receiver / parameters of struct pointer type (plain values)
	ptrSubst map[types.Object]ast.Expr // local `c := hs.c` (never reassigned): c IS hs.c in the translation
	tabTypes map[string]string
	tabVars  map[types.Object]string // package-level map variables: parameters of the functions that index them
}

type field struct {
	name string
	typ  types.Type
}

type fnMeta struct {
	goName     string
	leanName   string
	decl       *ast.FuncDecl
	obj        types.Object
	panics     bool // uses a checked helper (directly or through a callee)
	mutRecv    bool // assigns through its pointer receiver
	hasRecv    bool
	ptrRecv    bool
	mutParam   []string     // names of slice parameters written through (returned after the receiver)
	usesExt    bool         // calls a modelled library function: takes `(ext : Go.Extern)` first
	usesRx     bool         // calls a modelled record cipher: takes `(rx : Go.RxExtern)` (after ext)
	usesTabs   []string     // package-level lookup tables (maps) it indexes: leading parameters after ext / rx
	nonNilPtr  bool         // compares a struct pointer with nil (translated as "not nil")
	nilIsEmpty bool         // compares a slice with nil (translated as "is empty": see the group)
	inner      *ast.FuncLit // body is `return func(params) {…}`: translated uncurried (outer ++ inner parameters)
}

// body / params of the function as translated (the closure's, for closure-returning functions)
func (m *fnMeta) bodyOf() *ast.BlockStmt {
	if m.inner != nil {
		return m.inner.Body
	}
	return m.decl.Body
}
func (m *fnMeta) paramLists() []*ast.FieldList {
	if m.inner != nil {
		return []*ast.FieldList{m.decl.Type.Params, m.inner.Type.Params}
	}
	return []*ast.FieldList{m.decl.Type.Params}
}
func (m *fnMeta) resultsOf() *ast.FieldList {
	if m.inner != nil {
		return m.inner.Type.Results
	}
	return m.decl.Type.Results
}
func (m *fnMeta) paramNames() []string {
	var out []string
	for _, fl := range m.paramLists() {
		for _, p := range fl.List {
			for _, nm := range p.Names {
				out = append(out, nm.Name)
			}
		}
	}
	return out
}

// closureOf: the FuncLit of a body that is exactly `return func(...) {...}`
func closureOf(fd *ast.FuncDecl) *ast.FuncLit {
	if fd.Body == nil || len(fd.Body.List) != 1 {
		return nil
	}
	rs, ok := fd.Body.List[0].(*ast.ReturnStmt)
	if !ok || len(rs.Results) != 1 {
		return nil
	}
	fl, _ := rs.Results[0].(*ast.FuncLit)
	return fl
}

var leanKeywords = func() map[string]bool {
	m := map[string]bool{}
	// Lean 4 keywords / command and term tokens that look like identifiers, plus the names the
	// generated text itself uses (a Go local of that name would capture them)
	for _, w := range strings.Fields(`
		abbrev at attribute axiom break by calc catch class continue declare_syntax_cat def deriving do
		elab else end example export extends finally for from fun have if import in inductive infix infixl
		infixr initialize instance let local macro macro_rules match mut mutual namespace nofun nomatch
		noncomputable notation omit opaque open partial postfix prefix private protected public register_simp_attr
		return scoped section set_option show structure suffices syntax termination_by decreasing_by then theorem
		throw try universe unless unsafe using variable where with forall exists Type Prop Sort
		true false some none default pure bind min max decide ext id not and or
		List Int Nat BitVec Bool Go Id Except Dyn Option String Unit ok error
	`) {
		m[w] = true
	}
	return m
}()

// isHashIface: the standard library's hash.Hash (modelled as a keyed-hash object, see externStubs)
func isHashIface(ty types.Type) bool {
	n, ok := ty.(*types.Named)
	return ok && n.Obj().Pkg() != nil && n.Obj().Pkg().Path() == "hash" && n.Obj().Name() == "Hash"
}

// isHashCtor: func() hash.Hash — a hash algorithm
func isHashCtor(ty types.Type) bool {
	sg, ok := ty.Underlying().(*types.Signature)
	return ok && sg.Params().Len() == 0 && sg.Results().Len() == 1 && isHashIface(sg.Results().At(0).Type())
}

func isErrorType(ty types.Type) bool {
	return ty != nil && types.Identical(ty, types.Universe.Lookup("error").Type())
}

// exprAs: e where a value of type `to` is expected (the implicit conversions to `error`)
func (t *tr) exprAs(e ast.Expr, to types.Type) string {
	if curOptPtr && to != nil && isStructPtr(to) {
		if id, ok := e.(*ast.Ident); ok && id.Name == "nil" {
			if _, isNil := t.info.Uses[id].(*types.Nil); isNil {
				return "none"
			}
		}
		if t.isOpt(e) {
			return t.expr(e)
		}
		if u, ok := e.(*ast.UnaryExpr); ok && u.Op == token.AND {
			return t.expr(e) // already `some`
		}
		return "(some " + t.expr(e) + ")"
	}
	if id, ok := e.(*ast.Ident); ok && id.Name == "nil" && !isErrorType(to) {
		if _, isNil := t.info.Uses[id].(*types.Nil); isNil {
			return t.zero(to)
		}
	}
	if !isErrorType(to) {
		return t.expr(e)
	}
	if id, ok := e.(*ast.Ident); ok {
		switch id.Name {
		case "nil":
			return "none"
		case "errOpaque":
			return "(some Go.Error.other)"
		}
	}
	et := t.typeOf(e)
	if isErrorType(et) {
		return t.expr(e)
	}
	if n, ok := et.(*types.Named); ok && n.Obj().Name() == "alert" {
		if w, signed, _ := intKind(et); w == 8 && !signed {
			return "(some (Go.Error.alert " + t.atom(e) + "))"
		}
	}
	bad("conversion of %s to error", et)
	return ""
}

// leanTypePlain: the type of a receiver or parameter: a struct pointer is the struct itself (non-nil)
func (t *tr) leanTypePlain(ty types.Type) string {
	s := t.leanType(ty)
	if curOptPtr && isStructPtr(ty) {
		return strings.TrimPrefix(s, "Option ")
	}
	return s
}

// isOpt: e is translated to an `Option T` (a struct pointer that is not a receiver / parameter variable)
func (t *tr) isOpt(e ast.Expr) bool {
	if !curOptPtr {
		return false
	}
	for {
		if p, ok := e.(*ast.ParenExpr); ok {
			e = p.X
			continue
		}
		break
	}
	tv, ok := t.info.Types[e]
	var ty types.Type
	if ok {
		ty = tv.Type
	}
	if id, isId := e.(*ast.Ident); isId {
		obj := t.info.Uses[id]
		if obj == nil {
			obj = t.info.Defs[id]
		}
		if obj == nil {
			return false
		}
		if sub, ok := t.ptrSubst[obj]; ok {
			return t.isOpt(sub)
		}
		ty = obj.Type()
		if t.plainPtr[obj] {
			return false
		}
	}
	return ty != nil && isStructPtr(ty)
}

// plainArg: e where a callee expects a plain value: an Option struct pointer is dereferenced (nil: Except.error),
// a function value becomes a Lean function
func (t *tr) plainArg(e ast.Expr) string {
	if t.isOpt(e) {
		return t.act("Go.deref " + t.atom(e))
	}
	if curOptPtr {
		if _, isSig := t.typeOfSafe(e).(*types.Signature); isSig {
			return t.funcValue(e)
		}
	}
	return t.atom(e)
}

func (t *tr) typeOfSafe(e ast.Expr) types.Type {
	if tv, ok := t.info.Types[e]; ok && tv.Type != nil {
		return tv.Type.Underlying()
	}
	return nil
}

// funcValue: a function-typed argument: a translated function, or a method value x.m (a closure over x)
func (t *tr) funcValue(e ast.Expr) string {
	switch f := e.(type) {
	case *ast.Ident:
		if m := t.byObj[t.info.Uses[f]]; m != nil && !m.panics && !m.mutRecv && len(m.mutParam) == 0 && !m.usesExt && !m.usesRx {
			return m.leanName
		}
		if _, isVar := t.info.Uses[f].(*types.Var); isVar {
			return t.expr(f)
		}
	case *ast.SelectorExpr:
		if sel := t.info.Selections[f]; sel != nil && sel.Kind() == types.MethodVal {
			if m := t.byObj[sel.Obj()]; m != nil && !m.panics && !m.mutRecv && len(m.mutParam) == 0 && !m.usesExt && !m.usesRx {
				s := "(" + m.leanName
				for _, tb := range m.usesTabs {
					s += " " + tb
					t.useTab(tb)
				}
				return s + " " + t.plainArg(f.X) + ")"
			}
		}
	}
	bad("function value %s", t.src(e))
	return ""
}

func (t *tr) useTab(name string) {
	for _, x := range t.meta.usesTabs {
		if x == name {
			return
		}
	}
	t.meta.usesTabs = append(t.meta.usesTabs, name)
	sort.Strings(t.meta.usesTabs)
}

func (t *tr) leanType(ty types.Type) string {
	if isErrorType(ty) {
		return "Option Go.Error"
	}
	if isHashIface(ty) {
		return "Go.Hmac"
	}
	if isHashCtor(ty) {
		return "Go.HashAlg"
	}
	switch u := ty.(type) {
	case *types.Named:
		if _, ok := u.Underlying().(*types.Struct); ok {
			if u.Obj().Pkg() != t.pkg {
				bad("type %s belongs to another package", ty)
			}
			return u.Obj().Name()
		}
		return t.leanType(u.Underlying())
	case *types.Alias:
		return t.leanType(types.Unalias(u))
	case *types.Basic:
		switch u.Kind() {
		case types.Int, types.UntypedInt:
			return "Int"
		case types.Bool, types.UntypedBool:
			return "Bool"
		case types.Uint, types.Uint64, types.Int64, types.Uintptr:
			return "BitVec 64"
		case types.Uint32, types.Int32:
			return "BitVec 32"
		case types.Uint16, types.Int16:
			return "BitVec 16"
		case types.Uint8, types.Int8:
			return "BitVec 8"
		case types.String, types.UntypedString:
			return "List (BitVec 8)" // a Go string is its bytes
		}
	case *types.Interface:
		if u.NumMethods() == 0 {
			return "Dyn"
		}
	case *types.Signature:
		if curOptPtr && u.Results().Len() == 1 && u.Params().Len() >= 1 {
			s := ""
			for i := 0; i < u.Params().Len(); i++ {
				s += t.atomS(t.leanTypePlain(u.Params().At(i).Type())) + " → "
			}
			return "(" + s + t.leanType(u.Results().At(0).Type()) + ")"
		}
	case *types.Map:
		if curOptPtr {
			return "(" + t.atomS(t.leanType(u.Key())) + " → " + t.atomS(t.leanType(u.Elem())) + ")"
		}
	case *types.Slice:
		return "List (" + t.leanType(u.Elem()) + ")"
	case *types.Array:
		return "List (" + t.leanType(u.Elem()) + ")" // fixed length: see zero()
	case *types.Pointer:
		if n, ok := u.Elem().(*types.Named); ok {
			if _, ok := n.Underlying().(*types.Struct); ok && n.Obj().Pkg() == t.pkg {
				if curOptPtr {
					return "Option " + n.Obj().Name()
				}
				return n.Obj().Name()
			}
		}
		// an out-parameter `*T` (T a scalar or a slice): value in, value out
		if _, isStruct := u.Elem().Underlying().(*types.Struct); !isStruct {
			if _, isPtr := u.Elem().Underlying().(*types.Pointer); !isPtr {
				return t.leanType(u.Elem())
			}
		}
	}
	bad("type %s is outside the subset", ty)
	return ""
}

func supportedType(t *tr, ty types.Type) (ok bool) {
	defer func() {
		if r := recover(); r != nil {
			if _, is := r.(unsupported); is {
				ok = false
				return
			}
			panic(r)
		}
	}()
	t.leanType(ty)
	return true
}

// kind of an integer type: width (0 = mathematical int), signed
func intKind(ty types.Type) (width int, signed bool, isInt bool) {
	b, ok := ty.Underlying().(*types.Basic)
	if !ok {
		return 0, false, false
	}
	switch b.Kind() {
	case types.Int, types.UntypedInt:
		return 0, true, true
	case types.Int8:
		return 8, true, true
	case types.Int16:
		return 16, true, true
	case types.Int32:
		return 32, true, true
	case types.Int64:
		return 64, true, true
	case types.Uint8:
		return 8, false, true
	case types.Uint16:
		return 16, false, true
	case types.Uint32:
		return 32, false, true
	case types.Uint, types.Uint64, types.Uintptr:
		return 64, false, true
	}
	return 0, false, false
}

func (t *tr) zero(ty types.Type) string {
	if isErrorType(ty) {
		return "none"
	}
	if isHashIface(ty) {
		return "{ alg := Go.HashAlg.none }"
	}
	if isHashCtor(ty) {
		return "Go.HashAlg.sm3"
	}
	if w, _, ok := intKind(ty); ok {
		if w == 0 {
			return "(0 : Int)"
		}
		return fmt.Sprintf("0#%d", w)
	}
	switch u := ty.Underlying().(type) {
	case *types.Basic:
		if u.Kind() == types.Bool {
			return "false"
		}
		if u.Kind() == types.String {
			return "[]"
		}
	case *types.Slice:
		return "[]"
	case *types.Array:
		return fmt.Sprintf("(List.replicate %d %s)", u.Len(), t.atomS(t.zero(u.Elem())))
	case *types.Struct:
		return "{}"
	case *types.Pointer:
		if curOptPtr && isStructPtr(ty) {
			return "none"
		}
		return "{}"
	case *types.Interface:
		if u.NumMethods() == 0 {
			return "Dyn.nil"
		}
	}
	bad("no zero value for %s", ty)
	return ""
}

func (t *tr) constLit(v constant.Value, ty types.Type) string {
	if b, ok := ty.Underlying().(*types.Basic); ok && (b.Kind() == types.Bool || b.Kind() == types.UntypedBool) {
		if constant.BoolVal(v) {
			return "true"
		}
		return "false"
	}
	if b, ok := ty.Underlying().(*types.Basic); ok && b.Info()&types.IsString != 0 {
		var parts []string
		for _, c := range []byte(constant.StringVal(v)) {
			parts = append(parts, fmt.Sprintf("%d#8", c))
		}
		return "([" + strings.Join(parts, ", ") + "] : List (BitVec 8))"
	}
	w, _, ok := intKind(ty)
	if !ok {
		bad("constant of type %s", ty)
	}
	s := v.ExactString()
	if w == 0 {
		if strings.HasPrefix(s, "-") {
			return "(" + s + " : Int)"
		}
		return "(" + s + " : Int)"
	}
	if strings.HasPrefix(s, "-") {
		return fmt.Sprintf("(BitVec.ofInt %d (%s))", w, s)
	}
	return fmt.Sprintf("%s#%d", s, w)
}

func mangle(n string) string {
	if leanKeywords[n] {
		return n + "'"
	}
	return n
}

func (t *tr) name(obj types.Object) string {
	if n, ok := t.names[obj]; ok {
		return n
	}
	base := mangle(obj.Name())
	n := base
	if c := t.used[base]; c > 0 {
		n = fmt.Sprintf("%s_%d", base, c)
	}
	t.used[base]++
	t.names[obj] = n
	return n
}

func (t *tr) typeOf(e ast.Expr) types.Type {
	tv, ok := t.info.Types[e]
	if !ok {
		if id, ok := e.(*ast.Ident); ok {
			if o := t.info.Uses[id]; o != nil {
				return o.Type()
			}
			if o := t.info.Defs[id]; o != nil {
				return o.Type()
			}
		}
		bad("no type for %s", t.src(e))
	}
	return tv.Type
}

func (t *tr) src(n ast.Node) string {
	var b bytes.Buffer
	printer.Fprint(&b, t.fset, n)
	return b.String()
}

// natOf renders an integer-typed expression as a Lean Nat (shift counts, indices)
func (t *tr) natOf(e ast.Expr) string {
	if tv, ok := t.info.Types[e]; ok && tv.Value != nil {
		if v, exact := constant.Int64Val(tv.Value); exact && v >= 0 {
			return fmt.Sprintf("%d", v)
		}
	}
	s := t.expr(e)
	w, signed, ok := intKind(t.typeOf(e))
	if !ok {
		bad("shift count / index %s is not an integer", t.src(e))
	}
	if w == 0 {
		return "(" + s + ").toNat"
	}
	if signed {
		return "(" + s + ").toInt.toNat"
	}
	return "(" + s + ").toNat"
}

// intOf renders an integer-typed expression as a Lean Int (for the checked helpers)
func (t *tr) intOf(e ast.Expr) string {
	s := t.expr(e)
	w, signed, ok := intKind(t.typeOf(e))
	if !ok {
		bad("%s is not an integer", t.src(e))
	}
	if w == 0 {
		return s
	}
	if signed {
		return "(" + s + ").toInt"
	}
	return "((" + s + ").toNat : Int)"
}

func (t *tr) act(s string) string {
	// a call of a checked helper: only legal in a monadic function
	t.meta.panics = true
	t.actN++
	return "(← " + s + ")"
}

func (t *tr) expr(e ast.Expr) string {
	if tv, ok := t.info.Types[e]; ok && tv.Value != nil {
		return t.constLit(tv.Value, tv.Type)
	}
	switch x := e.(type) {
	case *ast.ParenExpr:
		return "(" + t.expr(x.X) + ")"
	case *ast.Ident:
		switch x.Name {
		case "true", "false":
			return x.Name
		}
		obj := t.info.Uses[x]
		if obj == nil {
			bad("unresolved identifier %s", x.Name)
		}
		if _, isNil := obj.(*types.Nil); isNil {
			if _, ok := t.typeOf(e).Underlying().(*types.Slice); ok {
				return "[]"
			}
			bad("nil of type %s", t.typeOf(e))
		}
		if _, ok := obj.(*types.Var); !ok {
			bad("identifier %s is not a variable", x.Name)
		}
		if sub, ok := t.ptrSubst[obj]; ok {
			return t.expr(sub)
		}
		if n, ok := t.tabVars[obj]; ok {
			t.useTab(n)
			return n
		}
		if n, ok := t.pkgVars[obj]; ok {
			return n
		}
		if obj.Parent() == t.pkg.Scope() {
			bad("package-level variable %s is not translated", x.Name)
		}
		return t.name(obj)
	case *ast.SelectorExpr:
		if src := t.src(x); src == "sm3.New" || src == "sha256.New" {
			if id, ok := x.X.(*ast.Ident); ok {
				if v, isVar := t.info.Uses[id].(*types.Var); isVar && v.Parent() == t.pkg.Scope() {
					return "Go.HashAlg." + id.Name
				}
			}
		}
		if src := t.src(x); src == "io.EOF" || src == "io.ErrUnexpectedEOF" {
			if id, ok := x.X.(*ast.Ident); ok {
				if v, isVar := t.info.Uses[id].(*types.Var); isVar && v.Parent() == t.pkg.Scope() {
					if src == "io.EOF" {
						return "(some Go.Error.eof)"
					}
					return "(some Go.Error.unexpectedEOF)"
				}
			}
		}
		sel := t.info.Selections[x]
		if sel == nil || sel.Kind() != types.FieldVal {
			bad("selector %s", t.src(x))
		}
		if !supportedType(t, sel.Obj().Type()) {
			bad("field %s has a type outside the subset", t.src(x))
		}
		if t.isOpt(x.X) {
			return t.act("Go.deref "+t.atom(x.X)) + "." + sel.Obj().Name()
		}
		return t.expr(x.X) + "." + sel.Obj().Name()
	case *ast.StarExpr:
		return t.expr(x.X)
	case *ast.UnaryExpr:
		ty := t.typeOf(e)
		switch x.Op {
		case token.NOT:
			return "(!" + t.expr(x.X) + ")"
		case token.SUB:
			if w, _, _ := intKind(ty); w == 0 {
				return "(-" + t.expr(x.X) + ")"
			}
			return "(-" + t.expr(x.X) + ")"
		case token.XOR:
			if w, _, _ := intKind(ty); w == 0 {
				return "(Int.not " + t.expr(x.X) + ")"
			}
			return "(~~~" + t.expr(x.X) + ")"
		case token.ADD:
			return t.expr(x.X)
		case token.AND:
			if curOptPtr && isStructPtr(ty) {
				return "(some " + t.expr(x.X) + ")"
			}
			return t.expr(x.X) // &T{...}
		}
		bad("unary %s", x.Op)
	case *ast.BinaryExpr:
		return t.binary(x.Op, x.X, x.Y, t.typeOf(e))
	case *ast.CallExpr:
		return t.call(x)
	case *ast.IndexExpr:
		if _, isMap := t.typeOfSafe(x.X).(*types.Map); isMap && curOptPtr {
			return "(" + t.atom(x.X) + " " + t.atom(x.Index) + ")"
		}
		return t.act("Go.idx " + t.atom(x.X) + " " + t.atomS(t.intOf(x.Index)))
	case *ast.SliceExpr:
		if x.Slice3 {
			bad("3-index slice")
		}
		lo, hi := "(0 : Int)", "(("+t.expr(x.X)+").length : Int)"
		if x.Low != nil {
			lo = t.intOf(x.Low)
		}
		if x.High != nil {
			hi = t.intOf(x.High)
		}
		return t.act("Go.slice " + t.atom(x.X) + " " + t.atomS(lo) + " " + t.atomS(hi))
	case *ast.CompositeLit:
		return t.composite(x)
	}
	bad("expression %s", t.src(e))
	return ""
}

func (t *tr) atom(e ast.Expr) string { return t.atomS(t.expr(e)) }
func (t *tr) atomS(s string) string {
	if strings.ContainsAny(s, " ") && !(strings.HasPrefix(s, "(") && strings.HasSuffix(s, ")") && balanced(s)) {
		return "(" + s + ")"
	}
	return s
}

// balanced: the outermost parentheses of s match each other
func balanced(s string) bool {
	depth := 0
	for i, c := range s {
		switch c {
		case '(':
			depth++
		case ')':
			depth--
			if depth == 0 && i != len(s)-1 {
				return false
			}
		}
	}
	return depth == 0
}

func (t *tr) binary(op token.Token, X, Y ast.Expr, resTy types.Type) string {
	if op == token.LAND || op == token.LOR {
		x := t.expr(X)
		saved, before := t.pre, t.actN
		t.pre = nil
		y := t.expr(Y)
		yPre := t.pre
		t.pre = saved
		sym := " && "
		if op == token.LOR {
			sym = " || "
		}
		if t.actN == before && len(yPre) == 0 {
			return "(" + x + sym + y + ")"
		}
		// the right operand can panic: Go evaluates it only when the left one does not decide
		v := fmt.Sprintf("sc%d'", t.tmpN)
		t.tmpN++
		t.pre = append(t.pre, fmt.Sprintf("let mut %s : Bool := %s", v, x))
		if op == token.LAND {
			t.pre = append(t.pre, fmt.Sprintf("if %s then", v))
		} else {
			t.pre = append(t.pre, fmt.Sprintf("if !%s then", v))
		}
		for _, l := range yPre {
			t.pre = append(t.pre, "  "+l)
		}
		t.pre = append(t.pre, fmt.Sprintf("  %s := %s", v, y))
		return v
	}
	xt := t.typeOf(X)
	switch op {
	case token.SHL, token.SHR:
		w, signed, ok := intKind(resTy)
		if !ok {
			bad("shift of %s", resTy)
		}
		n := t.natOf(Y)
		x := t.expr(X)
		if w == 0 {
			if op == token.SHL {
				return "(" + x + " * 2 ^ " + n + ")"
			}
			return "(" + x + " >>> " + n + ")"
		}
		if op == token.SHL {
			return "(" + x + " <<< " + n + ")"
		}
		if signed {
			return "(BitVec.sshiftRight " + t.atomS(x) + " " + t.atomS(n) + ")"
		}
		return "(" + x + " >>> " + n + ")"
	case token.EQL, token.NEQ, token.LSS, token.LEQ, token.GTR, token.GEQ:
		for i, side := range []ast.Expr{X, Y} {
			if id, ok := side.(*ast.Ident); ok && id.Name == "nil" {
				other := []ast.Expr{Y, X}[i]
				if it, ok := t.typeOf(other).Underlying().(*types.Interface); ok && it.NumMethods() == 0 && (op == token.EQL || op == token.NEQ) {
					if op == token.EQL {
						return "(" + t.expr(other) + " == Dyn.nil)"
					}
					return "(" + t.expr(other) + " != Dyn.nil)"
				}
				if op == token.EQL || op == token.NEQ {
					neg := ""
					if op == token.EQL {
						neg = "!"
					}
					ot := t.typeOf(other)
					if isHashIface(ot) {
						return "(" + neg + "Go.Hmac.present " + t.atom(other) + ")"
					}
					if isStructPtr(ot) && t.isOpt(other) {
						if op == token.EQL {
							return "(" + t.atom(other) + ").isNone"
						}
						return "(" + t.atom(other) + ").isSome"
					}
					if isStructPtr(ot) {
						// a structure value stands for a NON-NIL pointer: nil pointers are outside the model
						t.meta.nonNilPtr = true
						if op == token.EQL {
							return "false"
						}
						return "true"
					}
					if isErrorType(ot) {
						return "(" + neg + "(" + t.expr(other) + ").isSome)"
					}
					if _, ok := ot.Underlying().(*types.Slice); ok && curNilIsEmpty {
						t.meta.nilIsEmpty = true
						if op == token.EQL {
							return "(" + t.atom(other) + ").isEmpty"
						}
						return "(!(" + t.atom(other) + ").isEmpty)"
					}
					if sl, ok := ot.Underlying().(*types.Slice); ok && curOptPtr {
						if w, _, _ := intKind(sl.Elem()); w == 8 {
							t.tabTypes["nonNilBytes"] = "(List (BitVec 8) → Bool)"
							t.useTab("nonNilBytes")
							return "(" + neg + "nonNilBytes " + t.atom(other) + ")"
						}
						if w, _, _ := intKind(sl.Elem()); w == 16 {
							// nil and empty slices are the same List: the outcome is a parameter of the definition
							t.tabTypes["nonNilU16"] = "(List (BitVec 16) → Bool)"
							t.useTab("nonNilU16")
							return "(" + neg + "nonNilU16 " + t.atom(other) + ")"
						}
					}
					if sl, ok := ot.Underlying().(*types.Slice); ok {
						if w, _, _ := intKind(sl.Elem()); w == 8 {
							// nil and empty slices are the same List: the outcome is a parameter
							t.meta.usesRx = true
							return "(" + neg + "rx.nonNil " + t.atom(other) + ")"
						}
					}
				}
				bad("comparison with nil (nil and empty slices are not distinguished)")
			}
		}
		// operand type: the typed one (an untyped constant adopts it; go/types records that)
		x, y := t.expr(X), t.expr(Y)
		w, signed, isInt := intKind(xt)
		if b, ok := xt.Underlying().(*types.Basic); ok && b.Info()&types.IsUntyped != 0 {
			w, signed, isInt = intKind(t.typeOf(Y))
		}
		if !isInt {
			if bt, ok := xt.Underlying().(*types.Basic); ok && bt.Info()&types.IsBoolean != 0 && (op == token.EQL || op == token.NEQ) {
				if op == token.EQL {
					return "(" + x + " == " + y + ")"
				}
				return "(" + x + " != " + y + ")"
			}
			// strings are their bytes: equality only (ordering is not translated)
			yt := t.typeOf(Y)
			isStr := func(ty types.Type) bool {
				b, ok := ty.Underlying().(*types.Basic)
				return ok && b.Info()&types.IsString != 0
			}
			if isErrorType(xt) && isErrorType(yt) && (op == token.EQL || op == token.NEQ) {
				if op == token.EQL {
					return "(" + x + " == " + y + ")"
				}
				return "(" + x + " != " + y + ")"
			}
			if isStr(xt) && isStr(yt) && (op == token.EQL || op == token.NEQ) {
				if op == token.EQL {
					return "(" + x + " == " + y + ")"
				}
				return "(" + x + " != " + y + ")"
			}
			bad("comparison of %s", xt)
		}
		if w != 0 && signed && op != token.EQL && op != token.NEQ {
			switch op {
			case token.LSS:
				return "(BitVec.slt " + t.atomS(x) + " " + t.atomS(y) + ")"
			case token.LEQ:
				return "(BitVec.sle " + t.atomS(x) + " " + t.atomS(y) + ")"
			case token.GTR:
				return "(BitVec.slt " + t.atomS(y) + " " + t.atomS(x) + ")"
			case token.GEQ:
				return "(BitVec.sle " + t.atomS(y) + " " + t.atomS(x) + ")"
			}
		}
		ops := map[token.Token]string{token.EQL: "==", token.NEQ: "!=", token.LSS: "<", token.LEQ: "≤", token.GTR: ">", token.GEQ: "≥"}
		if op == token.EQL || op == token.NEQ {
			return "(" + x + " " + ops[op] + " " + y + ")"
		}
		return "(decide (" + x + " " + ops[op] + " " + y + "))"
	}
	w, signed, ok := intKind(resTy)
	if !ok {
		bad("operator %s on %s", op, resTy)
	}
	x, y := t.expr(X), t.expr(Y)
	if w == 0 {
		switch op {
		case token.ADD:
			return "(" + x + " + " + y + ")"
		case token.SUB:
			return "(" + x + " - " + y + ")"
		case token.MUL:
			return "(" + x + " * " + y + ")"
		case token.QUO:
			return t.act("Go.divInt " + t.atomS(x) + " " + t.atomS(y))
		case token.REM:
			return t.act("Go.modInt " + t.atomS(x) + " " + t.atomS(y))
		case token.AND:
			return "(Go.andInt " + t.atomS(x) + " " + t.atomS(y) + ")"
		case token.OR:
			return "(Go.orInt " + t.atomS(x) + " " + t.atomS(y) + ")"
		case token.XOR:
			return "(Go.xorInt " + t.atomS(x) + " " + t.atomS(y) + ")"
		case token.AND_NOT:
			return "(Go.andInt " + t.atomS(x) + " (Int.not " + t.atomS(y) + "))"
		}
		bad("int operator %s", op)
	}
	switch op {
	case token.ADD:
		return "(" + x + " + " + y + ")"
	case token.SUB:
		return "(" + x + " - " + y + ")"
	case token.MUL:
		return "(" + x + " * " + y + ")"
	case token.AND:
		return "(" + x + " &&& " + y + ")"
	case token.OR:
		return "(" + x + " ||| " + y + ")"
	case token.XOR:
		return "(" + x + " ^^^ " + y + ")"
	case token.AND_NOT:
		return "(" + x + " &&& ~~~" + t.atomS(y) + ")"
	case token.QUO:
		if signed {
			return t.act("Go.sdiv " + t.atomS(x) + " " + t.atomS(y))
		}
		return t.act("Go.udiv " + t.atomS(x) + " " + t.atomS(y))
	case token.REM:
		if signed {
			return t.act("Go.srem " + t.atomS(x) + " " + t.atomS(y))
		}
		return t.act("Go.urem " + t.atomS(x) + " " + t.atomS(y))
	}
	bad("operator %s", op)
	return ""
}

func (t *tr) convert(to types.Type, arg ast.Expr) string {
	from := t.typeOf(arg)
	tw, _, tok := intKind(to)
	fw, fsigned, fok := intKind(from)
	if !tok || !fok {
		if types.Identical(to.Underlying(), from.Underlying()) {
			return t.expr(arg)
		}
		if tp, ok := to.Underlying().(*types.Pointer); ok {
			if fp, ok := from.Underlying().(*types.Pointer); ok && types.Identical(tp.Elem().Underlying(), fp.Elem().Underlying()) {
				return t.expr(arg)
			}
		}
		isStr := func(x types.Type) bool {
			b, ok := x.Underlying().(*types.Basic)
			return ok && b.Info()&types.IsString != 0
		}
		isBytes := func(x types.Type) bool {
			sl, ok := x.Underlying().(*types.Slice)
			if !ok {
				return false
			}
			w, sg, ok := intKind(sl.Elem())
			return ok && w == 8 && !sg
		}
		if (isStr(to) && isBytes(from)) || (isBytes(to) && isStr(from)) {
			return t.expr(arg)
		}
		bad("conversion %s -> %s", from, to)
	}
	x := t.expr(arg)
	switch {
	case tw == 0 && fw == 0:
		return x
	case tw == 0 && fsigned:
		return "(" + x + ").toInt"
	case tw == 0:
		return "((" + x + ").toNat : Int)"
	case fw == 0:
		return fmt.Sprintf("(BitVec.ofInt %d %s)", tw, t.atomS(x))
	case fw == tw:
		return x
	case fsigned:
		return fmt.Sprintf("(BitVec.signExtend %d %s)", tw, t.atomS(x))
	default:
		return fmt.Sprintf("(BitVec.setWidth %d %s)", tw, t.atomS(x))
	}
}

func (t *tr) call(c *ast.CallExpr) string {
	// conversion?
	if tv, ok := t.info.Types[c.Fun]; ok && tv.IsType() {
		if len(c.Args) != 1 {
			bad("conversion arity")
		}
		return t.convert(tv.Type, c.Args[0])
	}
	if id, ok := c.Fun.(*ast.Ident); ok {
		if _, isB := t.info.Uses[id].(*types.Builtin); isB {
			switch id.Name {
			case "len":
				return "((" + t.expr(c.Args[0]) + ").length : Int)"
			case "append":
				st, ok := t.typeOf(c.Args[0]).Underlying().(*types.Slice)
				if !ok {
					bad("append to a non-slice")
				}
				_ = st
				base := t.expr(c.Args[0])
				if c.Ellipsis.IsValid() {
					if len(c.Args) != 2 {
						bad("append with spread and several arguments")
					}
					return "(" + base + " ++ " + t.expr(c.Args[1]) + ")"
				}
				var els []string
				for _, a := range c.Args[1:] {
					els = append(els, t.expr(a))
				}
				return "(" + base + " ++ [" + strings.Join(els, ", ") + "])"
			case "copy":
				// value = number of elements copied; the effect is emitted as a pre-statement
				cnt := fmt.Sprintf("cnt%d'", t.tmpN)
				t.tmpN++
				o := &out{}
				t.copyStmt(o, c)
				for _, l := range strings.Split(strings.TrimRight(o.b.String(), "\n"), "\n") {
					t.pre = append(t.pre, l)
				}
				dstLen := "((" + t.expr(c.Args[0]) + ").length : Int)"
				if d, ok := c.Args[0].(*ast.SliceExpr); ok {
					lo, hi := "(0 : Int)", "(("+t.expr(d.X)+").length : Int)"
					if d.Low != nil {
						lo = t.intOf(d.Low)
					}
					if d.High != nil {
						hi = t.intOf(d.High)
					}
					dstLen = "(" + hi + " - " + lo + ")"
				}
				_ = cnt
				return "(min " + dstLen + " ((" + t.expr(c.Args[1]) + ").length : Int))"
			case "make":
				if len(c.Args) == 3 {
					if tv, ok := t.info.Types[c.Args[1]]; ok && tv.Value != nil && tv.Value.ExactString() == "0" {
						return "[]"
					}
				}
				if len(c.Args) != 2 {
					bad("make with capacity")
				}
				st, ok := t.typeOf(c.Args[0]).Underlying().(*types.Slice)
				if !ok {
					bad("make of a non-slice")
				}
				return t.act("Go.make " + t.atomS(t.zero(st.Elem())) + " " + t.atomS(t.intOf(c.Args[1])))
			}
			if id.Name == "new" && curOptPtr && isStructPtr(t.typeOf(c)) {
				return "(some {})"
			}
			bad("builtin %s in expression position", id.Name)
		}
	}
	if r, ok := t.externCall(c); ok {
		return r
	}
	// call of another translated function / method
	var callee *fnMeta
	var recvArg string
	switch f := c.Fun.(type) {
	case *ast.Ident:
		callee = t.byObj[t.info.Uses[f]]
	case *ast.SelectorExpr:
		if sel := t.info.Selections[f]; sel != nil && sel.Kind() == types.MethodVal {
			callee = t.byObj[sel.Obj()]
			recvArg = t.plainArg(f.X)
		}
	}
	if callee == nil && curOptPtr {
		if id, ok := c.Fun.(*ast.Ident); ok {
			if v, isVar := t.info.Uses[id].(*types.Var); isVar {
				if _, isSig := v.Type().Underlying().(*types.Signature); isSig {
					s := "(" + t.name(v)
					for _, a := range c.Args {
						s += " " + t.plainArg(a)
					}
					return s + ")"
				}
			}
		}
	}
	if callee == nil {
		bad("call of %s, which is not translated", t.src(c.Fun))
	}
	if callee.mutRecv || len(callee.mutParam) > 0 {
		if r := callee.resultsOf(); r != nil && r.NumFields() == 1 && callee.inner == nil {
			// the effects become statements in front of the one being translated (inside the guarded
			// block when this is the right operand of && / ||)
			saved := t.pre
			t.pre = nil
			eo := &out{}
			res, ok := t.effCall(eo, c)
			if !ok {
				bad("call of %s in expression position", callee.goName)
			}
			lines := strings.Split(strings.TrimRight(eo.b.String(), "\n"), "\n")
			t.pre = append(saved, lines...)
			t.actN++
			return res[0]
		}
		bad("call of %s, which writes through a reference argument, in expression position", callee.goName)
	}
	s := callee.leanName
	if callee.usesExt {
		s += " ext"
		t.meta.usesExt = true
	}
	if callee.usesRx {
		s += " rx"
		t.meta.usesRx = true
	}
	for _, tb := range callee.usesTabs {
		s += " " + tb
		t.useTab(tb)
	}
	if recvArg != "" {
		s += " " + recvArg
	}
	for _, a := range c.Args {
		s += " " + t.plainArg(a)
	}
	if callee.panics {
		return t.act(s)
	}
	return "(" + s + ")"
}

// externCall: the modelled library calls (see externStubs)
func (t *tr) externCall(c *ast.CallExpr) (string, bool) {
	sel, ok := c.Fun.(*ast.SelectorExpr)
	if !ok {
		return "", false
	}
	if id, ok := sel.X.(*ast.Ident); ok {
		if v, isVar := t.info.Uses[id].(*types.Var); isVar && v.Parent() == t.pkg.Scope() {
			switch id.Name + "." + sel.Sel.Name {
			case "hmac.New":
				if len(c.Args) == 2 {
					return "({ alg := " + t.expr(c.Args[0]) + ", key := " + t.expr(c.Args[1]) + ", input := [] } : Go.Hmac)", true
				}
				bad("hmac.New arity")
			case "subtle.ConstantTimeCompare":
				return "(Go.constantTimeCompare " + t.atom(c.Args[0]) + " " + t.atom(c.Args[1]) + ")", true
			case "bytes.Equal":
				return "(" + t.atom(c.Args[0]) + " == " + t.atom(c.Args[1]) + ")", true
			case "hex.EncodeToString":
				return "(Go.hexEncode " + t.atom(c.Args[0]) + ")", true
			case "strings.HasSuffix":
				return "(Go.hasSuffix " + t.atom(c.Args[0]) + " " + t.atom(c.Args[1]) + ")", true
			case "fmt.Errorf", "errors.New":
				return "(some Go.Error.other)", true
			case "subtle.ConstantTimeSelect":
				return "(Go.constantTimeSelect " + t.atom(c.Args[0]) + " " + t.atom(c.Args[1]) + " " + t.atom(c.Args[2]) + ")", true
			}
			if id.Name == "rxExtern" {
				t.meta.usesRx = true
				r := "(rx." + sel.Sel.Name
				for _, a := range c.Args {
					r += " " + t.atom(a)
				}
				return r + ")", true
			}
		}
	}
	// h.Sum(nil) on a modelled hash
	if s := t.info.Selections[sel]; s != nil && s.Kind() == types.MethodVal {
		if isHashIface(s.Recv()) {
			switch sel.Sel.Name {
			case "Sum":
				t.meta.usesExt = true
				h := t.atom(sel.X)
				if id, ok := c.Args[0].(*ast.Ident); !ok || id.Name != "nil" {
					// Sum(prefix): the digest appended to the prefix
					return "(" + t.atom(c.Args[0]) + " ++ ext.hmac " + h + ".alg " + h + ".key " + h + ".input)", true
				}
				return "(ext.hmac " + h + ".alg " + h + ".key " + h + ".input)", true
			case "Size":
				return t.act("Go.hashSize " + t.atom(sel.X)), true
			}
			bad("method %s of a hash in expression position", sel.Sel.Name)
		}
	}
	return "", false
}

func (t *tr) composite(c *ast.CompositeLit) string {
	ty := t.typeOf(c)
	if p, ok := ty.(*types.Pointer); ok {
		ty = p.Elem()
	}
	if sl, ok := ty.Underlying().(*types.Slice); ok {
		_ = sl
		var els []string
		for _, el := range c.Elts {
			if _, isKV := el.(*ast.KeyValueExpr); isKV {
				bad("keyed slice literal")
			}
			els = append(els, t.expr(el))
		}
		return "[" + strings.Join(els, ", ") + "]"
	}
	n, ok := ty.(*types.Named)
	if !ok {
		bad("composite literal of %s", ty)
	}
	st, ok := n.Underlying().(*types.Struct)
	if !ok {
		bad("composite literal of %s", ty)
	}
	given := map[string]string{}
	for _, el := range c.Elts {
		kv, ok := el.(*ast.KeyValueExpr)
		if !ok {
			bad("positional composite literal")
		}
		given[kv.Key.(*ast.Ident).Name] = t.expr(kv.Value)
	}
	var parts []string
	for i := 0; i < st.NumFields(); i++ {
		f := st.Field(i)
		if !supportedType(t, f.Type()) {
			continue
		}
		v, ok := given[f.Name()]
		if !ok {
			v = t.zero(f.Type())
		}
		parts = append(parts, f.Name()+" := "+v)
	}
	return "({ " + strings.Join(parts, ", ") + " } : " + n.Obj().Name() + ")"
}

// ---------------------------------------------------------------------------
// statements

type out struct {
	b      strings.Builder
	indent int
}

func (o *out) line(format string, a ...any) {
	o.b.WriteString(strings.Repeat("  ", o.indent))
	fmt.Fprintf(&o.b, format, a...)
	o.b.WriteString("\n")
}

// emit writes one statement line, preceded by the pre-statements its expressions produced
func (t *tr) emit(o *out, format string, a ...any) {
	pre := t.pre
	t.pre = nil
	for _, l := range pre {
		o.line("%s", l)
	}
	o.line(format, a...)
}

func (t *tr) retExpr(vals []string) string {
	var parts []string
	if t.meta.mutRecv {
		parts = append(parts, t.name(t.recv))
	}
	parts = append(parts, t.meta.mutParam...)
	parts = append(parts, vals...)
	switch len(parts) {
	case 0:
		return "()"
	case 1:
		return parts[0]
	}
	return "(" + strings.Join(parts, ", ") + ")"
}

// lvalue assignment: returns the Lean statement(s) for `lhs = rhs` where rhs is already Lean text
func (t *tr) assign(o *out, lhs ast.Expr, rhs string) {
	switch l := lhs.(type) {
	case *ast.StarExpr:
		t.assign(o, l.X, rhs)
		return
	case *ast.ParenExpr:
		t.assign(o, l.X, rhs)
		return
	case *ast.UnaryExpr:
		if l.Op == token.AND {
			t.assign(o, l.X, rhs)
			return
		}
	case *ast.Ident:
		if l.Name == "_" {
			return
		}
		obj := t.info.Uses[l]
		if obj == nil {
			obj = t.info.Defs[l]
		}
		if sub, isSub := t.ptrSubst[obj]; isSub {
			t.assign(o, sub, rhs) // c with c := hs.c is hs.c itself
			return
		}
		t.emit(o, "%s := %s", t.name(obj), rhs)
	case *ast.SelectorExpr:
		sel := t.info.Selections[l]
		if sel == nil || sel.Kind() != types.FieldVal {
			bad("assignment to %s", t.src(l))
		}
		if base, ok := l.X.(*ast.Ident); ok {
			bobj := t.info.Uses[base]
			if sub, isSub := t.ptrSubst[bobj]; isSub {
				// c.f = v with c := hs.c  ==>  hs.c.f = v
				if t.isOpt(sub) {
					t.assign(o, sub, "(some { "+t.act("Go.deref "+t.atom(sub))+" with "+sel.Obj().Name()+" := "+rhs+" })")
				} else {
					t.assign(o, sub, "{ "+t.expr(sub)+" with "+sel.Obj().Name()+" := "+rhs+" }")
				}
				return
			}
			if t.isOpt(base) {
				t.emit(o, "%s := (some { %s with %s := %s })", t.name(bobj), t.act("Go.deref "+t.name(bobj)), sel.Obj().Name(), rhs)
				return
			}
			t.emit(o, "%s := { %s with %s := %s }", t.name(bobj), t.name(bobj), sel.Obj().Name(), rhs)
			return
		}
		// a.b.c = v  ==>  a.b = { a.b with c := v }
		if t.isOpt(l.X) {
			t.assign(o, l.X, "(some { "+t.act("Go.deref "+t.atom(l.X))+" with "+sel.Obj().Name()+" := "+rhs+" })")
			return
		}
		t.assign(o, l.X, "{ "+t.expr(l.X)+" with "+sel.Obj().Name()+" := "+rhs+" }")
	case *ast.IndexExpr:
		// a[i] = v  with a a variable or a field of a variable
		upd := t.act("Go.set " + t.atom(l.X) + " " + t.atomS(t.intOf(l.Index)) + " " + t.atomS(rhs))
		t.assign(o, l.X, upd)
	default:
		bad("assignment to %s", t.src(lhs))
	}
}

func (t *tr) lhsSupported(lhs ast.Expr) bool {
	if sel, ok := lhs.(*ast.SelectorExpr); ok {
		if s := t.info.Selections[sel]; s != nil && s.Kind() == types.FieldVal {
			return supportedType(t, s.Obj().Type())
		}
	}
	return true
}

var opAssign = map[token.Token]token.Token{token.ADD_ASSIGN: token.ADD, token.SUB_ASSIGN: token.SUB, token.MUL_ASSIGN: token.MUL,
	token.QUO_ASSIGN: token.QUO, token.REM_ASSIGN: token.REM, token.AND_ASSIGN: token.AND, token.OR_ASSIGN: token.OR,
	token.XOR_ASSIGN: token.XOR, token.SHL_ASSIGN: token.SHL, token.SHR_ASSIGN: token.SHR, token.AND_NOT_ASSIGN: token.AND_NOT}

func (t *tr) stmts(o *out, list []ast.Stmt) {
	for _, s := range list {
		t.stmt(o, s)
	}
}

func (t *tr) stmt(o *out, s ast.Stmt) {
	switch x := s.(type) {
	case *ast.EmptyStmt:
	case *ast.BlockStmt:
		t.stmts(o, x.List)
	case *ast.ExprStmt:
		c, ok := x.X.(*ast.CallExpr)
		if !ok {
			bad("expression statement %s", t.src(x))
		}
		t.callStmt(o, c)
	case *ast.IncDecStmt:
		one := &ast.BasicLit{Kind: token.INT, Value: "1"}
		_ = one
		ty := t.typeOf(x.X)
		w, _, _ := intKind(ty)
		lit := "(1 : Int)"
		if w != 0 {
			lit = fmt.Sprintf("1#%d", w)
		}
		op := " + "
		if x.Tok == token.DEC {
			op = " - "
		}
		t.assign(o, x.X, "("+t.expr(x.X)+op+lit+")")
	case *ast.DeclStmt:
		gd := x.Decl.(*ast.GenDecl)
		if gd.Tok != token.VAR {
			bad("local %s declaration", gd.Tok)
		}
		for _, sp := range gd.Specs {
			vs := sp.(*ast.ValueSpec)
			for i, nm := range vs.Names {
				obj := t.info.Defs[nm]
				v := t.zero(obj.Type())
				if i < len(vs.Values) {
					v = t.expr(vs.Values[i])
				}
				t.emit(o, "let mut %s : %s := %s", t.name(obj), t.leanType(obj.Type()), v)
			}
		}
	case *ast.AssignStmt:
		if x.Tok == token.DEFINE || x.Tok == token.ASSIGN {
			if call, isCall := x.Rhs[0].(*ast.CallExpr); isCall && len(x.Rhs) == 1 {
				if callee, _ := t.mutCallee(call); callee != nil {
					if r := callee.resultsOf(); r != nil && r.NumFields() == len(x.Lhs) {
						res, _ := t.effCall(o, call)
						for i, l := range x.Lhs {
							t.assignOrDefine(o, x.Tok, l, res[i])
						}
						return
					}
				}
			}
			if call, isCall := x.Rhs[0].(*ast.CallExpr); isCall && len(x.Rhs) == 1 && len(x.Lhs) > 1 {
				// a, b = f(...): bind the tuple, then assign its components
				tmp := fmt.Sprintf("tup%d'", t.tmpN)
				t.tmpN++
				t.emit(o, "let %s := %s", tmp, t.expr(call))
				for i, l := range x.Lhs {
					proj := tmp + strings.Repeat(".2", i)
					if i < len(x.Lhs)-1 {
						proj += ".1"
					}
					t.assignOrDefine(o, x.Tok, l, proj)
				}
				return
			}
			if len(x.Lhs) != len(x.Rhs) {
				bad("multi-value assignment %s", t.src(x))
			}
			// foreign-typed field (e.g. a time stamp): the statement is dropped
			if len(x.Lhs) == 1 && !t.lhsSupported(x.Lhs[0]) {
				t.emit(o, "-- omitted (field of a type outside the subset): %s", t.src(x))
				return
			}
			if len(x.Lhs) > 1 {
				// parallel assignment: evaluate all right-hand sides first
				var tmps []string
				for i, r := range x.Rhs {
					tmp := fmt.Sprintf("tmp%d'", i)
					t.emit(o, "let %s := %s", tmp, t.expr(r))
					tmps = append(tmps, tmp)
				}
				for i, l := range x.Lhs {
					t.assignOrDefine(o, x.Tok, l, tmps[i])
				}
				return
			}
			if id, ok := x.Rhs[0].(*ast.Ident); ok && id.Name == "nil" {
				t.assignOrDefine(o, x.Tok, x.Lhs[0], t.zero(t.typeOf(x.Lhs[0])))
				return
			}
			if id, ok := x.Lhs[0].(*ast.Ident); ok && id.Name == "_" {
				if _, isCall := x.Rhs[0].(*ast.CallExpr); !isCall {
					return // `_ = x`: nothing to do
				}
				t.emit(o, "let _ := %s", t.expr(x.Rhs[0]))
				return
			}
			t.assignOrDefine(o, x.Tok, x.Lhs[0], t.exprAs(x.Rhs[0], t.typeOf(x.Lhs[0])))
			return
		}
		bop, ok := opAssign[x.Tok]
		if !ok || len(x.Lhs) != 1 {
			bad("assignment %s", t.src(x))
		}
		t.assign(o, x.Lhs[0], t.binary(bop, x.Lhs[0], x.Rhs[0], t.typeOf(x.Lhs[0])))
	case *ast.ReturnStmt:
		var vals []string
		if len(x.Results) == 1 {
			if call, ok := x.Results[0].(*ast.CallExpr); ok {
				if callee, _ := t.mutCallee(call); callee != nil {
					res, _ := t.effCall(o, call)
					t.emit(o, "return %s", t.retExpr(res))
					return
				}
			}
		}
		if len(x.Results) == 0 {
			for _, r := range t.results {
				vals = append(vals, t.name(r))
			}
		} else {
			var rts []types.Type
			if fr := t.meta.resultsOf(); fr != nil {
				for _, f := range fr.List {
					k := len(f.Names)
					if k == 0 {
						k = 1
					}
					for j := 0; j < k; j++ {
						rts = append(rts, t.info.Types[f.Type].Type)
					}
				}
			}
			for i, r := range x.Results {
				if i < len(rts) && len(rts) == len(x.Results) {
					vals = append(vals, t.exprAs(r, rts[i]))
				} else {
					vals = append(vals, t.expr(r))
				}
			}
		}
		t.emit(o, "return %s", t.retExpr(vals))
	case *ast.IfStmt:
		if x.Init != nil {
			t.stmt(o, x.Init)
		}
		t.emit(o, "if %s then", t.expr(x.Cond))
		o.indent++
		n := o.b.Len()
		t.stmts(o, x.Body.List)
		if o.b.Len() == n {
			t.emit(o, "pure ()")
		}
		o.indent--
		if x.Else != nil {
			t.emit(o, "else")
			o.indent++
			n := o.b.Len()
			t.stmt(o, x.Else)
			if o.b.Len() == n {
				t.emit(o, "pure ()")
			}
			o.indent--
		}
	case *ast.ForStmt:
		if t.countingLoop(x) {
			t.forStmt(o, x)
		} else {
			t.generalLoop(o, x)
		}
	case *ast.RangeStmt:
		t.rangeStmt(o, x)
	case *ast.SwitchStmt:
		t.switchStmt(o, x)
	case *ast.TypeSwitchStmt:
		t.typeSwitchStmt(o, x)
	case *ast.DeferStmt:
		// only `defer x.Unlock()`-style calls of EMPTY stub methods (locks are outside the model)
		if callee, _, _ := t.plainCallee(x.Call); callee != nil && callee.decl.Body != nil && len(callee.decl.Body.List) == 0 {
			t.emit(o, "-- omitted (empty stub): defer %s", t.src(x.Call))
			return
		}
		bad("defer %s", t.src(x.Call))
	case *ast.BranchStmt:
		switch x.Tok {
		case token.BREAK:
			if x.Label != nil {
				bad("labelled break")
			}
			t.emit(o, "break")
		case token.CONTINUE:
			if x.Label != nil {
				bad("labelled continue")
			}
			t.emit(o, "continue")
		default:
			bad("branch statement %s", x.Tok)
		}
	default:
		bad("statement %T", s)
	}
}

func (t *tr) assignOrDefine(o *out, tok token.Token, lhs ast.Expr, rhs string) {
	if id, ok := lhs.(*ast.Ident); ok && tok == token.DEFINE {
		if id.Name == "_" {
			return
		}
		if obj := t.info.Defs[id]; obj != nil {
			if _, isSub := t.ptrSubst[obj]; isSub {
				t.emit(o, "-- %s stands for %s from here on (a pointer copy, never reassigned)", id.Name, t.src(t.ptrSubst[obj]))
				return
			}
		}
		if obj := t.info.Defs[id]; obj != nil { // newly declared here
			t.emit(o, "let mut %s : %s := %s", t.name(obj), t.leanType(obj.Type()), rhs)
			return
		}
	}
	t.assign(o, lhs, rhs)
}

// copyStmt: copy(dst[a:b], src) / copy(dst, src) with dst rooted at a variable or a field of one
func (t *tr) copyStmt(o *out, c *ast.CallExpr) {
	dst, src := c.Args[0], t.atom(c.Args[1])
	switch d := dst.(type) {
	case *ast.SliceExpr:
		lo, hi := "(0 : Int)", "(("+t.expr(d.X)+").length : Int)"
		if d.Low != nil {
			lo = t.intOf(d.Low)
		}
		if d.High != nil {
			hi = t.intOf(d.High)
		}
		t.assign(o, d.X, t.act("Go.copyInto "+t.atom(d.X)+" "+t.atomS(lo)+" "+t.atomS(hi)+" "+src))
	default:
		t.assign(o, dst, t.act("Go.copyInto "+t.atom(dst)+" (0 : Int) (("+t.expr(dst)+").length : Int) "+src))
	}
}

// procCall: a call, for its effect, of a translated procedure (no results) that writes through exactly
// one slice argument: the argument is re-bound to the value the procedure returns
func (t *tr) procCall(o *out, callee *fnMeta, args []ast.Expr, c *ast.CallExpr) bool {
	return t.procCallR(o, callee, "", args, c)
}

func (t *tr) procCallR(o *out, callee *fnMeta, recvArg string, args []ast.Expr, c *ast.CallExpr) bool {
	res := callee.resultsOf()
	if len(callee.mutParam) != 1 || callee.mutRecv || (res != nil && res.NumFields() > 0) {
		return false
	}
	idx := -1
	for k, nm := range callee.paramNames() {
		if mangle(nm) == callee.mutParam[0] {
			idx = k
		}
	}
	if idx < 0 || idx >= len(args) {
		bad("call statement %s", t.src(c))
	}
	sx := callee.leanName
	if callee.usesExt {
		sx += " ext"
		t.meta.usesExt = true
	}
	if callee.usesRx {
		sx += " rx"
		t.meta.usesRx = true
	}
	for _, tb := range callee.usesTabs {
		sx += " " + tb
		t.useTab(tb)
	}
	if recvArg != "" {
		sx += " " + recvArg
	}
	for _, a := range args {
		sx += " " + t.plainArg(a)
	}
	if callee.panics {
		sx = t.act(sx)
	} else {
		sx = "(" + sx + ")"
	}
	t.assign(o, args[idx], sx)
	return true
}

// mutCallee: the translated function or method c invokes when it writes through its receiver or a
// slice argument (such a call is a statement of its own: see effCall)
func (t *tr) mutCallee(c *ast.CallExpr) (*fnMeta, ast.Expr) {
	var callee *fnMeta
	var recv ast.Expr
	switch f := c.Fun.(type) {
	case *ast.Ident:
		callee = t.byObj[t.info.Uses[f]]
	case *ast.SelectorExpr:
		if sel := t.info.Selections[f]; sel != nil && sel.Kind() == types.MethodVal {
			callee = t.byObj[sel.Obj()]
			recv = f.X
		}
	}
	if callee == nil || callee.inner != nil || (!callee.mutRecv && len(callee.mutParam) == 0) {
		return nil, nil
	}
	return callee, recv
}

// effCall: a call of a procedure-like callee WITH results: binds the tuple the translated callee returns,
// writes the receiver and the written slice arguments back (a window `x[lo:hi]` is copied back into x)
// and returns the Lean expressions of the Go results
func (t *tr) effCall(o *out, c *ast.CallExpr) ([]string, bool) {
	callee, recv := t.mutCallee(c)
	if callee == nil {
		return nil, false
	}
	nres := 0
	if r := callee.resultsOf(); r != nil {
		nres = r.NumFields()
	}
	sx := callee.leanName
	if callee.usesExt {
		sx += " ext"
		t.meta.usesExt = true
	}
	if callee.usesRx {
		sx += " rx"
		t.meta.usesRx = true
	}
	for _, tb := range callee.usesTabs {
		sx += " " + tb
		t.useTab(tb)
	}
	if recv != nil {
		sx += " " + t.plainArg(recv)
	}
	for _, a := range c.Args {
		sx += " " + t.plainArg(a)
	}
	if callee.panics {
		sx = t.act(sx)
	} else {
		sx = "(" + sx + ")"
	}
	total := nres + len(callee.mutParam)
	if callee.mutRecv {
		total++
	}
	tup := fmt.Sprintf("eff%d'", t.tmpN)
	t.tmpN++
	t.emit(o, "let %s := %s", tup, sx)
	proj := func(i int) string {
		if total == 1 {
			return tup
		}
		p := tup + strings.Repeat(".2", i)
		if i < total-1 {
			p += ".1"
		}
		return p
	}
	k := 0
	if callee.mutRecv {
		if recv == nil {
			bad("call %s of a receiver-assigning function without a receiver", t.src(c))
		}
		if t.isOpt(recv) {
			t.assign(o, recv, "(some "+proj(k)+")")
		} else {
			t.assign(o, recv, proj(k))
		}
		k++
	}
	names := callee.paramNames()
	for _, mp := range callee.mutParam {
		idx := -1
		for i, nm := range names {
			if mangle(nm) == mp {
				idx = i
			}
		}
		if idx < 0 || idx >= len(c.Args) {
			bad("call %s: written parameter %s not found", t.src(c), mp)
		}
		arg := t.lvalOfArg(c.Args[idx])
		switch a := arg.(type) {
		case *ast.StarExpr:
			t.assign(o, a, proj(k))
		case *ast.SliceExpr:
			lo, hi := "(0 : Int)", "(("+t.expr(a.X)+").length : Int)"
			if a.Low != nil {
				lo = t.intOf(a.Low)
			}
			if a.High != nil {
				hi = t.intOf(a.High)
			}
			t.assign(o, a.X, t.act("Go.copyInto "+t.atom(a.X)+" "+t.atomS(lo)+" "+t.atomS(hi)+" "+t.atomS(proj(k))))
		case *ast.Ident, *ast.SelectorExpr:
			t.assign(o, a, proj(k))
		default:
			// a temporary: nothing to write back
		}
		k++
	}
	var res []string
	for i := 0; i < nres; i++ {
		res = append(res, proj(k))
		k++
	}
	return res, true
}

// plainCallee: the translated function or method a call invokes
func (t *tr) plainCallee(c *ast.CallExpr) (*fnMeta, []ast.Expr, ast.Expr) {
	switch f := c.Fun.(type) {
	case *ast.Ident:
		if m := t.byObj[t.info.Uses[f]]; m != nil {
			return m, c.Args, nil
		}
	case *ast.SelectorExpr:
		if sel := t.info.Selections[f]; sel != nil && sel.Kind() == types.MethodVal {
			if m := t.byObj[sel.Obj()]; m != nil {
				return m, c.Args, f.X
			}
		}
	}
	return nil, nil, nil
}

// lvalOfArg: the variable an argument designates: `&x`, `(*T)(&x)`, `(x)` are x
func (t *tr) lvalOfArg(arg ast.Expr) ast.Expr {
	for {
		switch a := arg.(type) {
		case *ast.ParenExpr:
			arg = a.X
			continue
		case *ast.UnaryExpr:
			if a.Op == token.AND {
				arg = a.X
				continue
			}
		case *ast.CallExpr:
			if tv, ok := t.info.Types[a.Fun]; ok && tv.IsType() && len(a.Args) == 1 {
				if _, isPtr := tv.Type.Underlying().(*types.Pointer); isPtr {
					arg = a.Args[0]
					continue
				}
			}
		}
		return arg
	}
}

func (t *tr) callStmt(o *out, c *ast.CallExpr) {
	if id, ok := c.Fun.(*ast.Ident); ok && id.Name == "panic" {
		if _, isB := t.info.Uses[id].(*types.Builtin); isB {
			t.meta.panics = true
			t.actN++
			t.emit(o, "throw %q", "panic: "+strings.Trim(t.src(c.Args[0]), "\""))
			return
		}
	}
	if id, ok := c.Fun.(*ast.Ident); ok {
		if _, isB := t.info.Uses[id].(*types.Builtin); isB && id.Name == "copy" {
			t.copyStmt(o, c)
			return
		}
		if callee := t.byObj[t.info.Uses[id]]; callee != nil && callee.inner == nil && t.procCall(o, callee, c.Args, c) {
			return
		}
	}
	// f(outer...)(inner...) where f returns a closure (translated uncurried)
	if innerCall, ok := c.Fun.(*ast.CallExpr); ok {
		if id, ok := innerCall.Fun.(*ast.Ident); ok {
			if callee := t.byObj[t.info.Uses[id]]; callee != nil && callee.inner != nil {
				args := append(append([]ast.Expr{}, innerCall.Args...), c.Args...)
				if t.procCall(o, callee, args, c) {
					return
				}
			}
		}
	}
	// h.Write(x) on a modelled hash: the input grows
	if f, ok := c.Fun.(*ast.SelectorExpr); ok && (f.Sel.Name == "Write" || f.Sel.Name == "Reset") {
		if s := t.info.Selections[f]; s != nil && s.Kind() == types.MethodVal && isHashIface(s.Recv()) {
			h := t.expr(f.X)
			if f.Sel.Name == "Reset" {
				t.assign(o, f.X, "{ "+h+" with input := [] }")
			} else {
				t.assign(o, f.X, "{ "+h+" with input := "+h+".input ++ "+t.atom(c.Args[0])+" }")
			}
			return
		}
	}
	// method call for its effect on the receiver
	if f, ok := c.Fun.(*ast.SelectorExpr); ok {
		if sel := t.info.Selections[f]; sel != nil && sel.Kind() == types.MethodVal {
			if callee := t.byObj[sel.Obj()]; callee != nil && !callee.mutRecv && t.procCallR(o, callee, t.plainArg(f.X), c.Args, c) {
				return
			}
			if callee := t.byObj[sel.Obj()]; callee != nil && callee.mutRecv {
				s := callee.leanName
				if callee.usesExt {
					s += " ext"
					t.meta.usesExt = true
				}
				if callee.usesRx {
					s += " rx"
					t.meta.usesRx = true
				}
				for _, tb := range callee.usesTabs {
					s += " " + tb
					t.useTab(tb)
				}
				s += " " + t.plainArg(f.X)
				for _, a := range c.Args {
					s += " " + t.plainArg(a)
				}
				if callee.panics {
					s = t.act(s)
				} else {
					s = "(" + s + ")"
				}
				if callee.decl.Type.Results != nil && callee.decl.Type.Results.NumFields() > 0 {
					s = s + ".1"
				}
				if t.isOpt(f.X) {
					s = "(some " + s + ")"
				}
				t.assign(o, f.X, s)
				return
			}
		}
	}
	if _, ok := t.effCall(o, c); ok {
		return
	}
	if callee, _, _ := t.plainCallee(c); callee != nil && callee.decl.Body != nil && len(callee.decl.Body.List) == 0 {
		t.emit(o, "-- omitted (empty stub): %s", t.src(c))
		return
	}
	bad("call statement %s", t.src(c))
}

func assigned(body ast.Node, info *types.Info, obj types.Object) bool {
	found := false
	ast.Inspect(body, func(n ast.Node) bool {
		switch s := n.(type) {
		case *ast.AssignStmt:
			for _, l := range s.Lhs {
				if id, ok := l.(*ast.Ident); ok && (info.Uses[id] == obj || info.Defs[id] == obj) {
					found = true
				}
			}
		case *ast.IncDecStmt:
			if id, ok := s.X.(*ast.Ident); ok && info.Uses[id] == obj {
				found = true
			}
		case *ast.CallExpr:
			// h.Write / h.Reset on a modelled hash re-binds h
			if f, ok := s.Fun.(*ast.SelectorExpr); ok && (f.Sel.Name == "Write" || f.Sel.Name == "Reset") {
				if id, ok := f.X.(*ast.Ident); ok && info.Uses[id] == obj && isHashIface(obj.Type()) {
					found = true
				}
			}
		}
		return true
	})
	return found
}

// countingLoop: `for i := a; i < b; i++` whose variable and bound the body leaves alone
func (t *tr) countingLoop(f *ast.ForStmt) (ok bool) {
	as, isAs := f.Init.(*ast.AssignStmt)
	if !isAs || as.Tok != token.DEFINE || len(as.Lhs) != 1 || len(as.Rhs) != 1 || f.Cond == nil || f.Post == nil {
		return false
	}
	cond, isB := f.Cond.(*ast.BinaryExpr)
	inc, isInc := f.Post.(*ast.IncDecStmt)
	if !isB || !isInc {
		return false
	}
	return (cond.Op == token.LSS && inc.Tok == token.INC) || (cond.Op == token.GEQ && inc.Tok == token.DEC)
}

// generalLoop: `for cond { body }` (also with init / post).  Lean needs a bound: the loop runs
// at most FUEL times, FUEL being a Go expression configured per function (default: the length
// of the first slice parameter plus one); if the condition still holds afterwards the
// translated function fails with "loop fuel exhausted", which the tie theorems rule out.
func (t *tr) generalLoop(o *out, f *ast.ForStmt) {
	if f.Init != nil {
		t.stmt(o, f.Init)
	}
	hasContinue := false
	ast.Inspect(f.Body, func(n ast.Node) bool {
		switch b := n.(type) {
		case *ast.ForStmt, *ast.RangeStmt:
			return false
		case *ast.BranchStmt:
			if b.Tok == token.CONTINUE {
				hasContinue = true
			}
		}
		return true
	})
	if hasContinue && f.Post != nil {
		bad("continue in a loop with a post statement")
	}
	fuel := t.fuelFor(t.loopN)
	t.loopN++
	cond := "true"
	if f.Cond != nil {
		cond = t.expr(f.Cond)
		if len(t.pre) > 0 {
			bad("loop condition with side effects")
		}
	}
	t.meta.panics = true
	t.emit(o, "for _ in List.range (%s).toNat do", fuel)
	o.indent++
	t.emit(o, "if !(%s) then break", cond)
	t.stmts(o, f.Body.List)
	if f.Post != nil {
		t.stmt(o, f.Post)
	}
	o.indent--
	if f.Cond != nil {
		t.emit(o, "if %s then throw \"loop fuel exhausted\"", cond)
	} else {
		t.emit(o, "throw \"loop fuel exhausted\"")
	}
}

// fuelFor: the bound of the n-th general loop of the current function, as a Lean Int expression
func (t *tr) fuelFor(n int) string {
	key := t.pkgName + "." + t.meta.goName
	if exprs, ok := loopFuel[key]; ok && n < len(exprs) {
		e, err := parser.ParseExpr(exprs[n])
		if err != nil {
			bad("fuel expression %q does not parse", exprs[n])
		}
		if err := types.CheckExpr(t.fset, t.pkg, t.meta.decl.Body.Rbrace, e, t.info); err != nil {
			bad("fuel expression %q: %v", exprs[n], err)
		}
		return t.intOf(e)
	}
	for _, p := range t.meta.decl.Type.Params.List {
		for _, nm := range p.Names {
			obj := t.info.Defs[nm]
			if _, ok := obj.Type().Underlying().(*types.Slice); ok {
				return "(((" + t.name(obj) + "0').length : Int) + 1)"
			}
		}
	}
	bad("no fuel bound for the loop")
	return ""
}

func (t *tr) rangeStmt(o *out, r *ast.RangeStmt) {
	if r.Tok != token.DEFINE && r.Key != nil {
		bad("range with assignment to existing variables")
	}
	xt := t.typeOf(r.X)
	if _, ok := xt.Underlying().(*types.Slice); !ok {
		bad("range over %s", xt)
	}
	isBlank := func(e ast.Expr) bool {
		if e == nil {
			return true
		}
		id, ok := e.(*ast.Ident)
		return ok && id.Name == "_"
	}
	// the ranged-over slice is evaluated once
	xs := t.expr(r.X)
	switch {
	case isBlank(r.Key) && isBlank(r.Value):
		t.emit(o, "for _ in %s do", xs)
		o.indent++
	case isBlank(r.Key):
		v := t.info.Defs[r.Value.(*ast.Ident)]
		if assigned(r.Body, t.info, v) {
			bad("range value assigned in the loop body")
		}
		t.emit(o, "for %s in %s do", t.name(v), xs)
		o.indent++
	default:
		k := t.info.Defs[r.Key.(*ast.Ident)]
		if assigned(r.Body, t.info, k) {
			bad("range key assigned in the loop body")
		}
		kn := t.name(k) + "'k"
		if isBlank(r.Value) {
			t.emit(o, "for %s in List.range (%s).length do", kn, xs)
			o.indent++
		} else {
			v := t.info.Defs[r.Value.(*ast.Ident)]
			if assigned(r.Body, t.info, v) {
				bad("range value assigned in the loop body")
			}
			t.emit(o, "for (%s, %s) in (%s).zipIdx.map (fun p => (p.2, p.1)) do", kn, t.name(v), xs)
			o.indent++
		}
		t.emit(o, "let %s : Int := (%s : Int)", t.name(k), kn)
	}
	n := o.b.Len()
	t.stmts(o, r.Body.List)
	if o.b.Len() == n {
		t.emit(o, "pure ()")
	}
	o.indent--
}

func (t *tr) forStmt(o *out, f *ast.ForStmt) {
	// only `for i := a; i < b; i++ { body }` with i and the variables of b not assigned in body
	as, ok := f.Init.(*ast.AssignStmt)
	if !ok || as.Tok != token.DEFINE || len(as.Lhs) != 1 || len(as.Rhs) != 1 {
		bad("for loop without `i := a` initialiser")
	}
	iv := as.Lhs[0].(*ast.Ident)
	iobj := t.info.Defs[iv]
	if w, _, ok := intKind(iobj.Type()); !ok || w != 0 {
		bad("loop variable %s is not an int", iv.Name)
	}
	cond, ok := f.Cond.(*ast.BinaryExpr)
	if !ok || (cond.Op != token.LSS && cond.Op != token.GEQ) {
		bad("for loop condition is not `i < b` / `i >= b`")
	}
	if id, ok := cond.X.(*ast.Ident); !ok || t.info.Uses[id] != iobj {
		bad("for loop condition is not `i < b`")
	}
	inc, ok := f.Post.(*ast.IncDecStmt)
	if !ok {
		bad("for loop post statement is not `i++` / `i--`")
	}
	down := cond.Op == token.GEQ
	if down != (inc.Tok == token.DEC) {
		bad("for loop direction")
	}
	if id, ok := inc.X.(*ast.Ident); !ok || t.info.Uses[id] != iobj {
		bad("for loop post statement is not `i++`")
	}
	if assigned(f.Body, t.info, iobj) {
		bad("loop variable assigned in the loop body")
	}
	boundOK := true
	ast.Inspect(cond.Y, func(n ast.Node) bool {
		switch e := n.(type) {
		case *ast.Ident:
			if obj := t.info.Uses[e]; obj != nil {
				if _, isVar := obj.(*types.Var); isVar && assigned(f.Body, t.info, obj) {
					boundOK = false
				}
			}
		case *ast.CallExpr:
			if id, ok := e.Fun.(*ast.Ident); !ok || id.Name != "len" {
				if tv, ok := t.info.Types[e.Fun]; !ok || !tv.IsType() {
					boundOK = false
				}
			}
		case *ast.SelectorExpr:
			// a field of a variable that the body may update
			if id, ok := e.X.(*ast.Ident); ok {
				if obj := t.info.Uses[id]; obj != nil && assigned(f.Body, t.info, obj) {
					boundOK = false
				}
			}
		}
		return true
	})
	if !boundOK {
		bad("loop bound may change inside the loop")
	}
	a, b := t.expr(as.Rhs[0]), t.expr(cond.Y)
	k := t.name(iobj) + "'k"
	if down {
		// for i := a; i >= b; i-- : a - b + 1 iterations (none when a < b), i = a - k
		t.emit(o, "for %s in List.range (%s - %s + 1).toNat do", k, a, b)
		o.indent++
		t.emit(o, "let %s : Int := %s - (%s : Int)", t.name(iobj), a, k)
		t.stmts(o, f.Body.List)
		o.indent--
		return
	}
	if a == "(0 : Int)" {
		t.emit(o, "for %s in List.range (%s).toNat do", k, b)
		o.indent++
		t.emit(o, "let %s : Int := (%s : Int)", t.name(iobj), k)
	} else {
		t.emit(o, "for %s in List.range (%s - %s).toNat do", k, b, a)
		o.indent++
		t.emit(o, "let %s : Int := %s + (%s : Int)", t.name(iobj), a, k)
	}
	t.stmts(o, f.Body.List)
	o.indent--
}

// typeSwitchStmt: `switch v := x.(type) { case T1: ... default: ... }` over a value of the stub
// type `interface{}` whose dynamic types are the stub structs (Dyn)
func (t *tr) typeSwitchStmt(o *out, s *ast.TypeSwitchStmt) {
	if s.Init != nil {
		bad("type switch with an init statement")
	}
	var x ast.Expr
	bound := false
	switch a := s.Assign.(type) {
	case *ast.AssignStmt:
		x = a.Rhs[0].(*ast.TypeAssertExpr).X
		bound = true
	case *ast.ExprStmt:
		x = a.X.(*ast.TypeAssertExpr).X
	}
	ast.Inspect(s.Body, func(n ast.Node) bool {
		if b, ok := n.(*ast.BranchStmt); ok && (b.Tok == token.BREAK || b.Tok == token.FALLTHROUGH) {
			bad("break / fallthrough inside a type switch")
		}
		return true
	})
	t.emit(o, "match %s with", t.expr(x))
	var dflt *ast.CaseClause
	for _, c := range s.Body.List {
		cc := c.(*ast.CaseClause)
		if cc.List == nil {
			dflt = cc
			continue
		}
		if len(cc.List) != 1 {
			bad("type switch case with several types")
		}
		tn := t.src(cc.List[0])
		isDyn := false
		for _, d := range dynTypes {
			if d == tn {
				isDyn = true
			}
		}
		if !isDyn {
			bad("type switch case %s is not a view type", tn)
		}
		v := "_"
		if bound {
			if obj := t.info.Implicits[cc]; obj != nil {
				v = t.name(obj)
			}
		}
		t.emit(o, "| .%s %s =>", tn, v)
		o.indent++
		n := o.b.Len()
		if v != "_" && t.mutatedByMethod(cc, t.info.Implicits[cc]) {
			t.emit(o, "let mut %s := %s", v, v)
			n = o.b.Len()
		}
		t.stmts(o, cc.Body)
		if o.b.Len() == n {
			t.emit(o, "pure ()")
		}
		o.indent--
	}
	t.emit(o, "| _ =>")
	o.indent++
	n := o.b.Len()
	if dflt != nil {
		t.stmts(o, dflt.Body)
	}
	if o.b.Len() == n {
		t.emit(o, "pure ()")
	}
	o.indent--
}

// mutatedByMethod: the clause calls a receiver-assigning method on obj (the type switch's variable)
func (t *tr) mutatedByMethod(cc *ast.CaseClause, obj types.Object) bool {
	found := false
	ast.Inspect(cc, func(n ast.Node) bool {
		c, ok := n.(*ast.CallExpr)
		if !ok {
			return true
		}
		if f, ok := c.Fun.(*ast.SelectorExpr); ok {
			if id, ok := f.X.(*ast.Ident); ok && t.info.Uses[id] == obj {
				if sel := t.info.Selections[f]; sel != nil && sel.Kind() == types.MethodVal {
					if callee := t.byObj[sel.Obj()]; callee != nil && callee.mutRecv {
						found = true
					}
				}
			}
		}
		return true
	})
	return found
}

func (t *tr) switchStmt(o *out, s *ast.SwitchStmt) {
	if s.Init != nil {
		t.stmt(o, s.Init)
	}
	// value switch without fallthrough -> if-chain; `break` inside would leave an enclosing
	// loop in Lean, so it is refused
	ast.Inspect(s.Body, func(n ast.Node) bool {
		if b, ok := n.(*ast.BranchStmt); ok && (b.Tok == token.BREAK || b.Tok == token.FALLTHROUGH) {
			bad("break / fallthrough inside switch")
		}
		return true
	})
	var dflt *ast.CaseClause
	first := true
	for _, c := range s.Body.List {
		cc := c.(*ast.CaseClause)
		if cc.List == nil {
			dflt = cc
			continue
		}
		var conds []string
		for _, v := range cc.List {
			if s.Tag != nil {
				conds = append(conds, t.binary(token.EQL, s.Tag, v, types.Typ[types.Bool]))
			} else {
				conds = append(conds, t.expr(v))
			}
		}
		kw := "else if"
		if first {
			kw = "if"
			first = false
		}
		t.emit(o, "%s %s then", kw, strings.Join(conds, " || "))
		o.indent++
		n := o.b.Len()
		t.stmts(o, cc.Body)
		if o.b.Len() == n {
			t.emit(o, "pure ()")
		}
		o.indent--
	}
	if dflt != nil {
		if first {
			t.stmts(o, dflt.Body)
			return
		}
		t.emit(o, "else")
		o.indent++
		n := o.b.Len()
		t.stmts(o, dflt.Body)
		if o.b.Len() == n {
			t.emit(o, "pure ()")
		}
		o.indent--
	}
}

// ---------------------------------------------------------------------------
// functions

// copyRoots: top-level `x := a.b.c` definitions of a body: x -> a (a write through x may be a write through a:
// see findPtrSubst; over-approximate on purpose, the result only decides whether a is handed back)
func copyRoots(body *ast.BlockStmt) map[string]string {
	m := map[string]string{}
	if body == nil {
		return m
	}
	for _, st := range body.List {
		as, ok := st.(*ast.AssignStmt)
		if !ok || as.Tok != token.DEFINE || len(as.Lhs) != 1 || len(as.Rhs) != 1 {
			continue
		}
		id, ok := as.Lhs[0].(*ast.Ident)
		if !ok {
			continue
		}
		if p, ok := pathOf(as.Rhs[0]); ok && strings.Contains(p, ".") {
			m[id.Name] = rootOf(p)
		}
	}
	return m
}

func assignsThroughRecv(fd *ast.FuncDecl) bool {
	if fd.Recv == nil || len(fd.Recv.List) != 1 || len(fd.Recv.List[0].Names) != 1 {
		return false
	}
	if _, ok := fd.Recv.List[0].Type.(*ast.StarExpr); !ok {
		return false
	}
	rn := fd.Recv.List[0].Names[0].Name
	found := false
	cr := copyRoots(fd.Body)
	rooted := func(e ast.Expr) bool {
		for {
			switch x := e.(type) {
			case *ast.SelectorExpr:
				e = x.X
			case *ast.IndexExpr:
				e = x.X
			case *ast.SliceExpr:
				e = x.X
			case *ast.StarExpr:
				e = x.X
			case *ast.ParenExpr:
				e = x.X
			case *ast.Ident:
				if r, ok := cr[x.Name]; ok && r == rn {
					return true
				}
				return x.Name == rn
			default:
				return false
			}
		}
	}
	ast.Inspect(fd.Body, func(n ast.Node) bool {
		switch s := n.(type) {
		case *ast.AssignStmt:
			for _, l := range s.Lhs {
				if _, isId := l.(*ast.Ident); !isId && rooted(l) {
					found = true
				}
			}
		case *ast.IncDecStmt:
			if _, isId := s.X.(*ast.Ident); !isId && rooted(s.X) {
				found = true
			}
		case *ast.CallExpr:
			if id, ok := s.Fun.(*ast.Ident); ok && id.Name == "copy" && len(s.Args) == 2 && rooted(s.Args[0]) {
				found = true
			}
			// x.h.Write(p) / x.h.Reset() on a modelled hash held in a field of the receiver re-binds that field
			if f, ok := s.Fun.(*ast.SelectorExpr); ok && (f.Sel.Name == "Write" || f.Sel.Name == "Reset") {
				if _, isId := f.X.(*ast.Ident); !isId && rooted(f.X) {
					found = true
				}
			}
		}
		return true
	})
	return found
}

// writtenSliceParams: parameters `p []T` with `p[i] = v`, `p[i] op= v`, `copy(p.., ..)` in the body, or
// handed to a translated callee at a position the callee writes through (byName: metas so far)
// structPtrWritten: body assigns through the struct pointer `name` or calls a receiver-assigning method on it
func (t *tr) structPtrWritten(body ast.Node, name string) bool {
	cr := map[string]string{}
	if b, ok := body.(*ast.BlockStmt); ok {
		cr = copyRoots(b)
	}
	rooted := func(e ast.Expr) bool {
		for {
			switch x := e.(type) {
			case *ast.SelectorExpr:
				e = x.X
			case *ast.IndexExpr:
				e = x.X
			case *ast.SliceExpr:
				e = x.X
			case *ast.StarExpr:
				e = x.X
			case *ast.ParenExpr:
				e = x.X
			case *ast.Ident:
				if r, ok := cr[x.Name]; ok && r == name {
					return true
				}
				return x.Name == name
			default:
				return false
			}
		}
	}
	found := false
	ast.Inspect(body, func(n ast.Node) bool {
		switch s := n.(type) {
		case *ast.AssignStmt:
			for _, l := range s.Lhs {
				if _, isId := l.(*ast.Ident); !isId && rooted(l) {
					found = true
				}
			}
		case *ast.IncDecStmt:
			if _, isId := s.X.(*ast.Ident); !isId && rooted(s.X) {
				found = true
			}
		case *ast.CallExpr:
			if f, ok := s.Fun.(*ast.SelectorExpr); ok && rooted(f.X) {
				if sel := t.info.Selections[f]; sel != nil && sel.Kind() == types.MethodVal {
					if callee := t.byObj[sel.Obj()]; callee != nil && callee.mutRecv {
						found = true
					}
				}
			}
		}
		return true
	})
	return found
}

func writtenSliceParams(t *tr, m *fnMeta, byName map[string]*fnMeta) []string {
	var outp []string
	body := m.bodyOf()
	for _, fl := range m.paramLists() {
		for _, p := range fl.List {
			if _, isPtr := types.Unalias(t.info.Types[p.Type].Type).(*types.Pointer); isPtr {
				// an out-parameter `*T` (T not a struct) is always handed back
				if pt, ok := types.Unalias(t.info.Types[p.Type].Type).(*types.Pointer); ok {
					if _, isStruct := pt.Elem().Underlying().(*types.Struct); !isStruct {
						for _, nm := range p.Names {
							outp = append(outp, mangle(nm.Name))
						}
					} else {
						// a struct pointer: handed back when the function assigns through it or calls a
						// receiver-assigning method on it
						for _, nm := range p.Names {
							if t.structPtrWritten(body, nm.Name) {
								outp = append(outp, mangle(nm.Name))
							}
						}
					}
				}
				continue
			}
			if _, ok := p.Type.(*ast.ArrayType); !ok {
				continue
			}
			for _, nm := range p.Names {
				rooted := func(e ast.Expr) bool {
					for {
						switch x := e.(type) {
						case *ast.IndexExpr:
							e = x.X
						case *ast.SliceExpr:
							e = x.X
						case *ast.Ident:
							return x.Name == nm.Name
						default:
							return false
						}
					}
				}
				found := false
				ast.Inspect(body, func(n ast.Node) bool {
					switch s := n.(type) {
					case *ast.AssignStmt:
						for _, l := range s.Lhs {
							if _, isId := l.(*ast.Ident); !isId && rooted(l) {
								found = true
							}
						}
					case *ast.CallExpr:
						if id, ok := s.Fun.(*ast.Ident); ok && id.Name == "copy" && len(s.Args) == 2 && rooted(s.Args[0]) {
							found = true
						}
						// f(args) or f(outer...)(args): a callee that writes through that position
						var callee *fnMeta
						var args []ast.Expr
						if id, ok := s.Fun.(*ast.Ident); ok {
							callee, args = byName[id.Name], s.Args
						} else if f, ok := s.Fun.(*ast.SelectorExpr); ok {
							if sel := t.info.Selections[f]; sel != nil && sel.Kind() == types.MethodVal {
								callee, args = t.byObj[sel.Obj()], s.Args
							}
						} else if inner, ok := s.Fun.(*ast.CallExpr); ok {
							if id, ok := inner.Fun.(*ast.Ident); ok {
								callee = byName[id.Name]
								args = append(append([]ast.Expr{}, inner.Args...), s.Args...)
							}
						}
						if callee != nil {
							names := callee.paramNames()
							for i, a := range args {
								if i < len(names) && rooted(a) {
									for _, mp := range callee.mutParam {
										if mp == mangle(names[i]) {
											found = true
										}
									}
								}
							}
						}
					}
					return true
				})
				if found {
					outp = append(outp, mangle(nm.Name))
				}
			}
		}
	}
	return outp
}

func (t *tr) function(m *fnMeta) (text string, err error) {
	defer func() {
		if r := recover(); r != nil {
			if u, ok := r.(unsupported); ok {
				err = fmt.Errorf("%s", u.msg)
				return
			}
			panic(r)
		}
	}()
	fd := m.decl
	t.names = map[types.Object]string{}
	t.used = map[string]int{}
	t.meta = m
	t.recv = nil
	t.results = nil
	t.pre = nil
	t.tmpN = 0
	t.loopN = 0
	t.plainPtr = map[types.Object]bool{}
	t.ptrSubst = map[types.Object]ast.Expr{}
	t.findPtrSubst(m)
	var params []string
	var muts []string
	var snaps []string
	hasGeneralLoop := false
	fbody := m.bodyOf()
	fresults := m.resultsOf()
	ast.Inspect(fbody, func(n ast.Node) bool {
		if f, ok := n.(*ast.ForStmt); ok && !t.countingLoop(f) {
			hasGeneralLoop = true
		}
		return true
	})
	if fd.Recv != nil {
		rid := fd.Recv.List[0].Names[0]
		t.recv = t.info.Defs[rid]
		t.plainPtr[t.recv] = true
		params = append(params, fmt.Sprintf("(%s : %s)", t.name(t.recv), t.leanTypePlain(t.recv.Type())))
		if m.mutRecv {
			muts = append(muts, t.name(t.recv))
		}
	}
	var allParams []*ast.Field
	for _, fl := range m.paramLists() {
		allParams = append(allParams, fl.List...)
	}
	for _, p := range allParams {
		for _, nm := range p.Names {
			obj := t.info.Defs[nm]
			if isStructPtr(obj.Type()) {
				t.plainPtr[obj] = true
			}
			params = append(params, fmt.Sprintf("(%s : %s)", t.name(obj), t.leanTypePlain(obj.Type())))
			isMutP := false
			for _, mp := range m.mutParam {
				if mp == t.name(obj) {
					isMutP = true
				}
			}
			if assigned(fbody, t.info, obj) || isMutP {
				muts = append(muts, t.name(obj))
			}
			if _, isSlice := obj.Type().Underlying().(*types.Slice); isSlice && hasGeneralLoop {
				snaps = append(snaps, t.name(obj))
			}
		}
	}
	var resTypes []string
	if m.mutRecv {
		resTypes = append(resTypes, t.leanTypePlain(t.recv.Type()))
	}
	for _, p := range allParams {
		for _, nm := range p.Names {
			for _, mp := range m.mutParam {
				if mp == mangle(nm.Name) {
					resTypes = append(resTypes, t.leanTypePlain(t.info.Defs[nm].Type()))
				}
			}
		}
	}
	var resDecl []string
	if fresults != nil {
		for _, r := range fresults.List {
			if len(r.Names) == 0 {
				resTypes = append(resTypes, t.leanType(t.info.Types[r.Type].Type))
			}
			for _, nm := range r.Names {
				obj := t.info.Defs[nm]
				t.results = append(t.results, obj)
				resTypes = append(resTypes, t.leanType(obj.Type()))
				resDecl = append(resDecl, fmt.Sprintf("let mut %s : %s := %s", t.name(obj), t.leanType(obj.Type()), t.zero(obj.Type())))
			}
		}
	}
	ret := "Unit"
	if len(resTypes) > 0 {
		ret = strings.Join(resTypes, " × ")
	}
	// body first (it decides whether the function is monadic)
	o := &out{indent: 1}
	for _, sn := range snaps {
		t.emit(o, "let %s0' := %s", sn, sn)
	}
	for _, mname := range muts {
		t.emit(o, "let mut %s := %s", mname, mname)
	}
	for _, d := range resDecl {
		t.emit(o, "%s", d)
	}
	t.stmts(o, fbody.List)
	// fall-through return (procedures and named results)
	if n := len(fbody.List); n == 0 || !isReturn(fbody.List[n-1]) {
		var vals []string
		for _, r := range t.results {
			vals = append(vals, t.name(r))
		}
		if fresults != nil && fresults.NumFields() > 0 && len(t.results) == 0 {
			bad("function can fall off its end")
		}
		t.emit(o, "return %s", t.retExpr(vals))
	}
	if len(m.usesTabs) > 0 {
		var tp []string
		for _, tb := range m.usesTabs {
			tp = append(tp, fmt.Sprintf("(%s : %s)", tb, t.tabTypes[tb]))
		}
		params = append(tp, params...)
	}
	if m.usesRx {
		params = append([]string{"(rx : Go.RxExtern)"}, params...)
	}
	if m.usesExt {
		params = append([]string{"(ext : Go.Extern)"}, params...)
	}
	var b strings.Builder
	if m.nilIsEmpty {
		fmt.Fprintf(&b, "/-- translated from `%s` (`s == nil` on a slice is \"s is empty\": see the stubs of this group in go2lean) -/\n", m.goName)
	} else if m.nonNilPtr {
		fmt.Fprintf(&b, "/-- translated from `%s` (pointer arguments are assumed non-nil: `p != nil` is `true`) -/\n", m.goName)
	} else {
		fmt.Fprintf(&b, "/-- translated from `%s` -/\n", m.goName)
	}
	if m.panics {
		fmt.Fprintf(&b, "def %s %s : Except String (%s) := do\n", m.leanName, strings.Join(params, " "), ret)
	} else {
		fmt.Fprintf(&b, "def %s %s : %s := Id.run do\n", m.leanName, strings.Join(params, " "), ret)
	}
	b.WriteString(o.b.String())
	return b.String(), nil
}

// findPtrSubst: top-level `c := <path>` of struct-pointer type, c never assigned again, no prefix of the path
// assigned as a whole anywhere in the function: c is the same object as the path, so the translation reads and
// writes the path itself (a copy would lose writes through c)
func (t *tr) findPtrSubst(m *fnMeta) {
	body := m.bodyOf()
	if body == nil {
		return
	}
	for _, st := range body.List {
		as, ok := st.(*ast.AssignStmt)
		if !ok || as.Tok != token.DEFINE || len(as.Lhs) != 1 || len(as.Rhs) != 1 {
			continue
		}
		id, ok := as.Lhs[0].(*ast.Ident)
		if !ok || id.Name == "_" {
			continue
		}
		obj := t.info.Defs[id]
		if obj == nil || !isStructPtr(obj.Type()) {
			continue
		}
		path, ok := pathOf(as.Rhs[0])
		if !ok || !strings.Contains(path, ".") {
			continue
		}
		// c assigned only here
		n := 0
		ast.Inspect(body, func(nd ast.Node) bool {
			if a, ok := nd.(*ast.AssignStmt); ok {
				for _, l := range a.Lhs {
					if lid, ok := l.(*ast.Ident); ok && (t.info.Uses[lid] == obj || t.info.Defs[lid] == obj) {
						n++
					}
				}
			}
			return true
		})
		if n != 1 {
			continue
		}
		// no prefix of the path (beyond the root variable) is assigned as a whole
		bad := false
		ast.Inspect(body, func(nd ast.Node) bool {
			if a, ok := nd.(*ast.AssignStmt); ok {
				for _, l := range a.Lhs {
					if lp, ok := pathOf(l); ok && (lp == path || strings.HasPrefix(path, lp+".")) {
						bad = true // a prefix of the path (or its root variable) is assigned as a whole
					}
				}
			}
			return true
		})
		// … nor by a method called on the root variable (hs.reset() doing hs.c = …)
		root := rootOf(path)
		rest := strings.Split(path, ".")
		if len(rest) >= 2 && t.rootMethodAssigns(body, root, rest[1]) {
			bad = true
		}
		if !bad {
			t.ptrSubst[obj] = as.Rhs[0]
		}
	}
}

// assignsRecvField: method m assigns its receiver's field `field` as a whole (m.recv.field = …), directly or
// through a method it calls on its own receiver
func (t *tr) assignsRecvField(m *fnMeta, field string, depth int) bool {
	if m == nil || m.decl.Recv == nil || m.decl.Body == nil || depth > 6 || len(m.decl.Recv.List[0].Names) != 1 {
		return false
	}
	rn := m.decl.Recv.List[0].Names[0].Name
	found := false
	ast.Inspect(m.decl.Body, func(n ast.Node) bool {
		switch x := n.(type) {
		case *ast.AssignStmt:
			for _, l := range x.Lhs {
				if p, ok := pathOf(l); ok && p == rn+"."+field {
					found = true
				}
			}
		case *ast.CallExpr:
			if f, ok := x.Fun.(*ast.SelectorExpr); ok {
				if id, ok := f.X.(*ast.Ident); ok && id.Name == rn {
					if sel := t.info.Selections[f]; sel != nil && sel.Kind() == types.MethodVal {
						if t.assignsRecvField(t.byObj[sel.Obj()], field, depth+1) {
							found = true
						}
					}
				}
			}
		}
		return true
	})
	return found
}

// rootMethodAssigns: body calls, on the variable `root`, a method that assigns root.field as a whole
func (t *tr) rootMethodAssigns(body *ast.BlockStmt, root, field string) bool {
	found := false
	ast.Inspect(body, func(n ast.Node) bool {
		if c, ok := n.(*ast.CallExpr); ok {
			if f, ok := c.Fun.(*ast.SelectorExpr); ok {
				if id, ok := f.X.(*ast.Ident); ok && id.Name == root {
					if sel := t.info.Selections[f]; sel != nil && sel.Kind() == types.MethodVal {
						if t.assignsRecvField(t.byObj[sel.Obj()], field, 0) {
							found = true
						}
					}
				}
			}
		}
		return true
	})
	return found
}

func isStructPtr(ty types.Type) bool {
	p, ok := types.Unalias(ty).(*types.Pointer)
	if !ok {
		return false
	}
	_, ok = p.Elem().Underlying().(*types.Struct)
	return ok
}

// isReturn: control cannot flow past s (return; if/else and switch-with-default whose every
// branch ends that way)
func isReturn(s ast.Stmt) bool {
	switch x := s.(type) {
	case *ast.ReturnStmt:
		return true
	case *ast.BlockStmt:
		return len(x.List) > 0 && isReturn(x.List[len(x.List)-1])
	case *ast.IfStmt:
		return x.Else != nil && isReturn(x.Body) && isReturn(x.Else)
	case *ast.ExprStmt:
		if c, ok := x.X.(*ast.CallExpr); ok {
			if id, ok := c.Fun.(*ast.Ident); ok && id.Name == "panic" {
				return true
			}
		}
		return false
	case *ast.TypeSwitchStmt:
		hasDefault := false
		for _, c := range x.Body.List {
			cc := c.(*ast.CaseClause)
			if cc.List == nil {
				hasDefault = true
			}
			if len(cc.Body) == 0 || !isReturn(cc.Body[len(cc.Body)-1]) {
				return false
			}
		}
		return hasDefault
	case *ast.SwitchStmt:
		hasDefault := false
		for _, c := range x.Body.List {
			cc := c.(*ast.CaseClause)
			if cc.List == nil {
				hasDefault = true
			}
			if len(cc.Body) == 0 || !isReturn(cc.Body[len(cc.Body)-1]) {
				return false
			}
		}
		return hasDefault
	}
	return false
}

func (t *tr) structure(n *types.Named) string {
	st := n.Underlying().(*types.Struct)
	var b strings.Builder
	fmt.Fprintf(&b, "/-- translated from `type %s struct` -/\nstructure %s where\n", n.Obj().Name(), n.Obj().Name())
	var dropped []string
	for i := 0; i < st.NumFields(); i++ {
		f := st.Field(i)
		if !supportedType(t, f.Type()) {
			dropped = append(dropped, f.Name()+" "+f.Type().String())
			continue
		}
		fmt.Fprintf(&b, "  %s : %s := %s\n", f.Name(), t.leanType(f.Type()), t.zero(f.Type()))
	}
	b.WriteString("deriving Repr, DecidableEq\n")
	for _, d := range dropped {
		fmt.Fprintf(&b, "-- field dropped (type outside the subset): %s\n", d)
	}
	return b.String()
}

// group: one synthetic file = one package + one set of view stubs + the functions translated over them
type group struct {
	pkg   string
	sub   string // Lean sub-namespace ("" = the package namespace itself)
	stubs string
	funcs []string
	// `s == nil` on a slice is translated as "s is empty" (sound where no empty non-nil slice is ever stored
	// in the compared variable: stated per group, see paStubs)
	nilIsEmpty bool
	// struct pointers held in fields, locals and results are `Option T` (nil = none; a dereference of nil is
	// Except.error); receivers and parameters stay plain T (non-nil by convention)
	optPtr bool
}

func allGroups() []group {
	gs := []group{{pkg: "pa", stubs: paStubs, funcs: paWanted, nilIsEmpty: true},
		{pkg: "dtlcp", sub: "tx", stubs: txStubs, funcs: txWanted}}
	for _, name := range pkgOrder {
		gs = append(gs, group{pkg: name, stubs: viewStubs[name], funcs: wanted[name]})
		gs = append(gs, group{pkg: name, sub: "rx", stubs: rxStubs, funcs: rxWanted[name]})
		gs = append(gs, group{pkg: name, sub: "neg", stubs: negStubs, funcs: negWanted})
		gs = append(gs, group{pkg: name, sub: "codec", stubs: cbStubs, funcs: codecWanted[name], nilIsEmpty: true})
		gs = append(gs, group{pkg: name, sub: "fin", stubs: finStubs, funcs: finWanted})
		gs = append(gs, group{pkg: name, sub: "sel", stubs: selStubs, funcs: selWanted, optPtr: true})
	}
	return gs
}

func translatePackage(repo string, g group, w *strings.Builder, untranslated *[]string) {
	name := g.pkg
	ns := name
	if g.sub != "" {
		ns = name + "." + g.sub
	}
	fmt.Fprintf(w, "namespace %s\n\n", ns)
	defer fmt.Fprintf(w, "end %s\n\n", ns)
	wanted := map[string][]string{name: g.funcs}
	curStubs = g.stubs
	curNilIsEmpty = g.nilIsEmpty
	curOptPtr = g.optPtr
	fail := func(reason string) {
		for _, fn := range wanted[name] {
			*untranslated = append(*untranslated, ns+"."+fn)
		}
		fmt.Fprintf(w, "-- package not translated: %s\n\n", strings.ReplaceAll(reason, "\n", " "))
	}
	d, err := loadDecls(filepath.Join(repo, name))
	if err != nil {
		fail(err.Error())
		return
	}
	viewErr := checkViews(d, name)
	var present []string
	for _, fn := range wanted[name] {
		if viewErr != nil && (g.sub != "" || g.pkg == "pa" || strings.HasPrefix(fn, "Conn.") || strings.HasPrefix(fn, "halfConn.") || strings.HasPrefix(fn, "RetransmitTimer.") || fn == "masterFromPreMasterSecret" || fn == "keysFromMasterSecret") {
			*untranslated = append(*untranslated, ns+"."+fn)
			fmt.Fprintf(w, "-- %s not translated: %v\n\n", fn, viewErr)
			continue
		}
		if d.funcs[fn] != nil {
			present = append(present, fn)
		} else {
			*untranslated = append(*untranslated, ns+"."+fn)
			fmt.Fprintf(w, "-- %s: no such function in the tree\n\n", fn)
		}
	}
	fset, file, info, tp, droppedFns, err := synth(d, name, present)
	{
		var ks []string
		for k := range droppedFns {
			ks = append(ks, k)
		}
		sort.Strings(ks)
		for _, k := range ks {
			*untranslated = append(*untranslated, ns+"."+k)
			fmt.Fprintf(w, "-- %s not translated: %s\n\n", k, droppedFns[k])
		}
	}
	if err != nil {
		for _, fn := range present {
			if droppedFns[fn] == "" {
				*untranslated = append(*untranslated, ns+"."+fn)
			}
		}
		fmt.Fprintf(w, "-- package not translated: %s\n\n", strings.ReplaceAll(err.Error(), "\n", " "))
		return
	}
	t := &tr{fset: fset, info: info, pkg: tp, fnInfo: map[string]*fnMeta{}, byObj: map[types.Object]*fnMeta{}}
	// function metadata in the requested order
	var metas []*fnMeta
	for _, dc := range file.Decls {
		fd, ok := dc.(*ast.FuncDecl)
		if !ok {
			continue
		}
		key := fd.Name.Name
		m := &fnMeta{decl: fd, obj: info.Defs[fd.Name]}
		if fd.Recv != nil {
			key = recvName(fd.Recv.List[0].Type) + "." + key
			m.hasRecv = true
			_, m.ptrRecv = fd.Recv.List[0].Type.(*ast.StarExpr)
			if len(fd.Recv.List[0].Names) != 1 {
				continue
			}
		}
		m.goName = key
		m.leanName = key
		m.mutRecv = assignsThroughRecv(fd)
		m.inner = closureOf(fd)
		t.byObj[m.obj] = m
		metas = append(metas, m)
	}
	// a pointer-receiver method that calls a receiver-assigning method on (a field path of) its own receiver
	// assigns through its receiver too
	for round := 0; round < 6; round++ {
		for _, m := range metas {
			if m.mutRecv || !m.ptrRecv || m.decl.Body == nil {
				continue
			}
			rn := m.decl.Recv.List[0].Names[0].Name
			ast.Inspect(m.decl.Body, func(n ast.Node) bool {
				c, ok := n.(*ast.CallExpr)
				if !ok {
					return true
				}
				f, ok := c.Fun.(*ast.SelectorExpr)
				if !ok {
					return true
				}
				sel := info.Selections[f]
				if sel == nil || sel.Kind() != types.MethodVal {
					return true
				}
				callee := t.byObj[sel.Obj()]
				if callee == nil || !callee.mutRecv {
					return true
				}
				e := f.X
				for {
					if x, ok := e.(*ast.SelectorExpr); ok {
						e = x.X
						continue
					}
					break
				}
				if id, ok := e.(*ast.Ident); ok && id.Name == rn {
					m.mutRecv = true
				}
				return true
			})
		}
	}
	// slice parameters written through: fixpoint over the call graph
	byName := map[string]*fnMeta{}
	for _, m := range metas {
		if !m.hasRecv {
			byName[m.goName] = m
		}
	}
	for round := 0; round < 6; round++ {
		for _, m := range metas {
			m.mutParam = writtenSliceParams(t, m, byName)
		}
	}
	// emit callees before callers
	{
		var ordered []*fnMeta
		state := map[*fnMeta]int{}
		var visit func(m *fnMeta)
		visit = func(m *fnMeta) {
			if state[m] != 0 {
				return
			}
			state[m] = 1
			ast.Inspect(m.decl.Body, func(n ast.Node) bool {
				switch e := n.(type) {
				case *ast.Ident:
					if c := t.byObj[info.Uses[e]]; c != nil {
						visit(c)
					}
				case *ast.SelectorExpr:
					if sel := info.Selections[e]; sel != nil {
						if c := t.byObj[sel.Obj()]; c != nil {
							visit(c)
						}
					}
				}
				return true
			})
			state[m] = 2
			ordered = append(ordered, m)
		}
		for _, m := range metas {
			visit(m)
		}
		metas = ordered
	}
	// structures used by the functions, each after the structures its fields mention
	var structs []*types.Named
	for _, dc := range file.Decls {
		gd, ok := dc.(*ast.GenDecl)
		if !ok || gd.Tok != token.TYPE {
			continue
		}
		for _, sp := range gd.Specs {
			ts := sp.(*ast.TypeSpec)
			if n, ok := info.Defs[ts.Name].Type().(*types.Named); ok {
				if _, ok := n.Underlying().(*types.Struct); ok {
					structs = append(structs, n)
				}
			}
		}
	}
	emitted := map[*types.Named]bool{}
	var emitStruct func(n *types.Named, depth int)
	var mentions func(ty types.Type, f func(*types.Named))
	dynDone := false
	emitDyn := func() {
		if dynDone {
			return
		}
		dynDone = true
		for _, dn := range dynTypes {
			for _, n := range structs {
				if n.Obj().Name() == dn {
					emitStruct(n, 0)
				}
			}
		}
		w.WriteString("/-- the dynamic type of a value of the view type `interface{}` (see the stubs of go2lean) -/\ninductive Dyn where\n  | nil\n")
		for _, dn := range dynTypes {
			fmt.Fprintf(w, "  | %s (v : %s)\n", dn, dn)
		}
		w.WriteString("deriving Repr, DecidableEq\n\n")
	}
	mentions = func(ty types.Type, f func(*types.Named)) {
		switch u := ty.(type) {
		case *types.Interface:
			if u.NumMethods() == 0 {
				emitDyn()
			}
		case *types.Named:
			if _, ok := u.Underlying().(*types.Struct); ok && u.Obj().Pkg() == tp {
				f(u)
			}
		case *types.Slice:
			mentions(u.Elem(), f)
		case *types.Pointer:
			mentions(u.Elem(), f)
		}
	}
	emitStruct = func(n *types.Named, depth int) {
		if emitted[n] || depth > 20 {
			return
		}
		emitted[n] = true
		st := n.Underlying().(*types.Struct)
		for i := 0; i < st.NumFields(); i++ {
			mentions(st.Field(i).Type(), func(d *types.Named) { emitStruct(d, depth+1) })
		}
		w.WriteString(t.structure(n))
		w.WriteString("\n")
	}
	for _, n := range structs {
		emitStruct(n, 0)
	}
	// package-level slice variables the functions read (assumed never reassigned: checked below)
	t.pkgVars = map[types.Object]string{}
	t.tabVars = map[types.Object]string{}
	t.tabTypes = map[string]string{}
	t.pkgName = name
	if curOptPtr {
		for _, dc := range file.Decls {
			gd, ok := dc.(*ast.GenDecl)
			if !ok || gd.Tok != token.VAR {
				continue
			}
			for _, sp := range gd.Specs {
				vs := sp.(*ast.ValueSpec)
				for _, nm := range vs.Names {
					obj := info.Defs[nm]
					if obj == nil {
						continue
					}
					if _, isMap := obj.Type().Underlying().(*types.Map); isMap && len(vs.Values) == 0 {
						func() {
							defer func() { recover() }()
							t.meta = &fnMeta{goName: "var " + nm.Name}
							t.tabTypes[mangle(nm.Name)] = t.leanType(obj.Type())
							t.tabVars[obj] = mangle(nm.Name)
						}()
					}
				}
			}
		}
	}
	varDone := map[types.Object]bool{}
	for pass := 0; pass < 3; pass++ {
		for _, dc := range file.Decls {
			gd, ok := dc.(*ast.GenDecl)
			if !ok || gd.Tok != token.VAR {
				continue
			}
			for _, sp := range gd.Specs {
				vs := sp.(*ast.ValueSpec)
				for i, nm := range vs.Names {
					if nm.Name == "_" || i >= len(vs.Values) || nm.Name == "hmac" || nm.Name == "sm3" || nm.Name == "sha256" || nm.Name == "subtle" || nm.Name == "rxExtern" || nm.Name == "errOpaque" || nm.Name == "fmt" || nm.Name == "errors" || nm.Name == "io" || nm.Name == "strings" || nm.Name == "hex" || nm.Name == "bytes" {
						continue
					}
					obj := info.Defs[nm]
					if varDone[obj] {
						continue
					}
					func() {
						defer func() {
							if r := recover(); r != nil {
								if u, ok := r.(unsupported); ok {
									if pass == 2 {
										fmt.Fprintf(w, "-- var %s not translated: %s\n\n", nm.Name, u.msg)
									}
									return
								}
								panic(r)
							}
						}()
						t.names = map[types.Object]string{}
						t.used = map[string]int{}
						t.meta = &fnMeta{goName: "var " + nm.Name}
						ty := t.leanType(obj.Type())
						val := t.expr(vs.Values[i])
						if strings.Contains(val, "(← ") {
							// an initialiser that could panic (a slice expression): a panic at package initialisation is
							// not modelled — the zero value stands for it
							val = fmt.Sprintf("match (do pure %s : Except String (%s)) with | .ok v => v | .error _ => %s", t.atomS(val), ty, t.zero(obj.Type()))
						}
						fmt.Fprintf(w, "/-- translated from `var %s` (package level; no translated function assigns it) -/\ndef %s : %s := %s\n\n", nm.Name, mangle(nm.Name), ty, val)
						t.pkgVars[obj] = mangle(nm.Name)
						varDone[obj] = true
						// inside `def T.name`, a bare `name` would resolve to the method itself
						for _, m := range metas {
							if strings.HasSuffix(m.goName, "."+nm.Name) {
								t.pkgVars[obj] = "_root_.Gotlcp.Src." + ns + "." + mangle(nm.Name)
							}
						}
					}()
				}
			}
		}
	}
	aliasSums := map[*fnMeta]*aliasSummary{}
	for _, m := range metas {
		// slices get value semantics: refuse a function in which shared storage could be observed (alias.go)
		hz := aliasAnalyse(t, m, aliasSums)
		if len(hz) > 0 {
			why, reviewed := aliasReviewed[m.goName]
			if !reviewed {
				*untranslated = append(*untranslated, ns+"."+m.goName)
				fmt.Fprintf(w, "-- %s not translated: slices that share storage (value semantics would be wrong):\n", m.goName)
				for _, h := range hz {
					fmt.Fprintf(w, "--   %s\n", h)
				}
				w.WriteString("\n")
				delete(t.byObj, m.obj)
				continue
			}
			fmt.Fprintf(w, "/- %s: %d places where two slices share storage and one is written while the other is still read.\n   Reviewed (aliasReviewed in go2lean): %s\n", m.goName, len(hz), why)
			for _, h := range hz {
				fmt.Fprintf(w, "   * %s\n", h)
			}
			w.WriteString("-/\n")
		}
		// two passes: the first discovers whether the body needs the Except monad / the externs
		m.panics = false
		m.usesExt = false
		m.usesRx = false
		m.usesTabs = nil
		if _, err := t.function(m); err != nil {
			*untranslated = append(*untranslated, ns+"."+m.goName)
			fmt.Fprintf(w, "-- %s not translated: %s\n\n", m.goName, err)
			delete(t.byObj, m.obj)
			continue
		}
		text, _ := t.function(m)
		w.WriteString(text)
		w.WriteString("\n")
	}
}

func main() {
	repo := flag.String("repo", "/repo", "repository root")
	outLean := flag.String("out", "", "path of Src.lean to (re)write (stdout when empty)")
	self := flag.Bool("selftest", false, "run the alias-analysis self test and exit")
	flag.Parse()
	if *self {
		os.Exit(selfTest())
	}
	var w strings.Builder
	w.WriteString("/-\nGENERATED by harness/cmd/go2lean from the Go sources of /repo — do not edit.\nRewritten on every check run: a shallow embedding of selected pure functions, statement by\nstatement.  `Gotlcp.Lemmas.Tie*` prove these definitions equal to the hand-written models.\n-/\nimport Gotlcp.Base.GoSem\n\nset_option linter.unusedVariables false\n\nnamespace Gotlcp.Src\n\n")
	var untranslated []string
	for _, g := range allGroups() {
		translatePackage(*repo, g, &w, &untranslated)
	}
	sort.Strings(untranslated)
	var q []string
	for _, u := range untranslated {
		q = append(q, fmt.Sprintf("%q", u))
	}
	fmt.Fprintf(&w, "/-- functions the translator was asked for and could not translate (must be empty) -/\ndef untranslated : List String := [%s]\n\nend Gotlcp.Src\n", strings.Join(q, ", "))
	data := []byte(w.String())
	if *outLean == "" {
		os.Stdout.Write(data)
		return
	}
	if old, err := os.ReadFile(*outLean); err == nil && bytes.Equal(old, data) {
		return
	}
	if err := os.WriteFile(*outLean, data, 0o644); err != nil {
		fmt.Fprintln(os.Stderr, "go2lean:", err)
		os.Exit(2)
	}
}

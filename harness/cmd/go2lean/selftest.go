package main

import (
	"fmt"
	"os"
	"path/filepath"
	"sort"
	"strings"
)

// selfTestSrc: small functions on which value semantics for slices is / is not faithful.  `go2lean -selftest`
// (run by bin/setup and by every check through lib/framework.py) fails when the alias analysis stops refusing
// a bad* function or starts refusing an ok* one.
const selfTestSrc = `package t

func bad1(r []byte) byte { p := r[5:]; p[0] = 1; return r[5] }
func ok1(r []byte) byte  { p := r[5:]; p[0] = 1; return r[4] }
func bad2(buf []byte, d []byte) byte { x := append(buf[:0], d...); if len(x) > 0 { return buf[0] }; return 0 }
func ok2(b []byte, d []byte) []byte { b = append(b, d...); return b }
func bad3(a []byte) []byte { b := a; b[0] = 1; return a }
func ok3(a []byte, k int) []byte {
	var out []byte
	if k > 0 {
		b := a[1:]
		out = b
	} else {
		a[0] = 1
		out = a
	}
	return out
}
func bad4(a []byte) byte {
	b := a[1:]
	var s byte
	for i := 0; i < 2; i++ {
		s += b[0]
		a[1] = 2
	}
	return s
}
func callee(dst []byte) { dst[0] = 1 }
func bad5(a []byte) byte { b := a[:]; callee(a); return b[0] }
func ok5(a []byte) byte  { callee(a); return a[0] }
func win(a []byte) []byte { return a[2:] }
func bad6(a []byte) byte { b := win(a); a[3] = 9; return b[1] }
func ok6(a []byte) byte  { b := win(a); return b[1] + a[3] }
func bad7(a []byte, c []byte) []byte { b := a[:2]; n := copy(a, c); if n > 0 { return b }; return nil }
type holder struct{ raw []byte }
func bad8(m *holder, n int) []byte { x := make([]byte, n); y := x[1:]; y[0] = 7; m.raw = x; return m.raw }
func bad9(d []byte) byte { var xs [][]byte; xs = append(xs, d[1:]); d[1] = 9; return xs[0][0] }
func ok9(d []byte) byte  { var xs [][]byte; xs = append(xs, d[1:]); xs = append(xs, d[2:]); return xs[0][0] + d[1] }
type outer struct{ in *holder }
func (h *holder) set(b []byte) { h.raw = b }
type two struct{ a, b *holder }
func ok10b(o *outer, b []byte) []byte { c := o.in; c.raw = b; return o.in.raw }
func ok11b(o *outer, b []byte) []byte { c := o.in; c.set(b); return o.in.raw }
func bad10(o *two, b []byte, k int) []byte { c := o.a; if k > 0 { c = o.b }; c.raw = b; return o.a.raw }
func bad11(o *two, b []byte) []byte { c := o.a; o.a = o.b; c.set(b); return o.a.raw }
func (o *two) swap() { o.a = o.b }
func bad12(o *two, b []byte) []byte { c := o.a; o.swap(); c.raw = b; return o.a.raw }
func ok10(o *outer) []byte { c := o.in; return c.raw }
func ok8(m *holder, n int) []byte  { x := make([]byte, n); x[1] = 7; m.raw = x; return m.raw }
`

func selfTest() int {
	dir, err := os.MkdirTemp("", "go2lean-selftest")
	if err != nil {
		fmt.Fprintln(os.Stderr, "go2lean selftest:", err)
		return 2
	}
	defer os.RemoveAll(dir)
	os.MkdirAll(filepath.Join(dir, "t"), 0o755)
	if err := os.WriteFile(filepath.Join(dir, "t", "t.go"), []byte(selfTestSrc), 0o644); err != nil {
		fmt.Fprintln(os.Stderr, "go2lean selftest:", err)
		return 2
	}
	funcs := []string{"bad1", "ok1", "bad2", "ok2", "bad3", "ok3", "bad4", "callee", "bad5", "ok5", "win", "bad6", "ok6", "bad7", "bad8", "ok8", "bad9", "ok9", "holder.set", "ok10b", "ok11b", "bad10", "bad11", "two.swap", "bad12", "ok10"}
	var w strings.Builder
	var untranslated []string
	translatePackage(dir, group{pkg: "t", stubs: "", funcs: funcs}, &w, &untranslated)
	sort.Strings(untranslated)
	refused := map[string]bool{}
	for _, u := range untranslated {
		refused[strings.TrimPrefix(u, "t.")] = true
	}
	rc := 0
	for _, f := range funcs {
		if strings.Contains(f, ".") {
			continue
		}
		wantRefused := strings.HasPrefix(f, "bad")
		if refused[f] != wantRefused {
			fmt.Fprintf(os.Stderr, "go2lean selftest: %s: refused=%v, expected %v\n", f, refused[f], wantRefused)
			rc = 1
		}
		if wantRefused && !strings.Contains(w.String(), "-- "+f+" not translated: slices that share storage") {
			fmt.Fprintf(os.Stderr, "go2lean selftest: %s was refused for another reason\n", f)
			rc = 1
		}
	}
	if rc != 0 {
		fmt.Fprintln(os.Stderr, w.String())
	} else {
		fmt.Println("go2lean selftest: ok (", len(funcs), "functions )")
	}
	return rc
}

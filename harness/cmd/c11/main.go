// Driver for C11: runs operation sequences against the real built-in session cache of both
// stacks and writes `case => observed` lines for the Lean oracle (model + spec).
//
// Ops: `P.<key>.<obj|nil>`, `G.<key>`, and `N.<obj>.<buf>.<buf>…` which declares a session object
// together with the backing array of each of its reference fields (equal names = shared storage,
// `n` = nil; an undeclared object owns storage of its own). The driver assembles such objects by
// reflection and, after every operation, re-reads every field of every object (heap.go): the
// observation lists every change as `harm=<op>:<obj>.<field>:<n|z|x>`. Phase conn records the
// same for real handshake histories (storage identities observed by pointer, open connections
// as `H.<1000+i>…` objects in use).
package main

import (
	"fmt"
	"reflect"
	"sort"
	"strconv"
	"strings"

	"gitee.com/Trisia/gotlcp/dtlcp"
	"gitee.com/Trisia/gotlcp/tlcp"
	"verifharness/internal/hx"
	"verifharness/internal/resume"
)

// cache abstracts over the two stacks (identical code, different types). Sessions travel as
// `any` (a *SessionState of the stack); their fields are read and assembled by reflection
// (heap.go), so nothing here names a field.
type cache interface {
	put(key string, s any) // nil deletes
	get(key string) (s any, ok bool)
	lens() (int, int)
	newSession(tag int) any
	wiped(s any) bool
	sessionType() reflect.Type
}

type tlcpCache struct{ c tlcp.SessionCache }

func (t *tlcpCache) put(key string, s any) {
	if s == nil {
		t.c.Put(key, nil)
		return
	}
	t.c.Put(key, s.(*tlcp.SessionState))
}
func (t *tlcpCache) get(key string) (any, bool) {
	s, ok := t.c.Get(key)
	if s == nil {
		return nil, ok
	}
	return s, ok
}
func (t *tlcpCache) lens() (int, int)          { return tlcp.VerifLRULen(t.c) }
func (t *tlcpCache) newSession(tag int) any    { return tlcp.VerifNewSessionState(tag) }
func (t *tlcpCache) wiped(s any) bool          { return tlcp.VerifSessionWiped(s.(*tlcp.SessionState)) }
func (t *tlcpCache) sessionType() reflect.Type { return reflect.TypeOf(tlcp.SessionState{}) }

type dtlcpCache struct{ c dtlcp.SessionCache }

func (t *dtlcpCache) put(key string, s any) {
	if s == nil {
		t.c.Put(key, nil)
		return
	}
	t.c.Put(key, s.(*dtlcp.SessionState))
}
func (t *dtlcpCache) get(key string) (any, bool) {
	s, ok := t.c.Get(key)
	if s == nil {
		return nil, ok
	}
	return s, ok
}
func (t *dtlcpCache) lens() (int, int)          { return dtlcp.VerifLRULen(t.c) }
func (t *dtlcpCache) newSession(tag int) any    { return dtlcp.VerifNewSessionState(tag) }
func (t *dtlcpCache) wiped(s any) bool          { return dtlcp.VerifSessionWiped(s.(*dtlcp.SessionState)) }
func (t *dtlcpCache) sessionType() reflect.Type { return reflect.TypeOf(dtlcp.SessionState{}) }

func newCache(stack string, capacity int) cache {
	if stack == "dtlcp" {
		return &dtlcpCache{c: dtlcp.NewLRUSessionCache(capacity)}
	}
	return &tlcpCache{c: tlcp.NewLRUSessionCache(capacity)}
}

func b01(b bool) string {
	if b {
		return "1"
	}
	return "0"
}

func unkey(k string) string {
	if k == "_" {
		return ""
	}
	return k
}

// holderBase is the identity of the first connection state (connection i is object holderBase+i).
const holderBase = 1000

// observeConn attaches the heap observers to a history runner: every session pointer the client's
// cache sees is declared with its storage (`N.<obj>.<buf>…`, by pointer identity) and tracked,
// every completed connection is declared as a holder (`H.<1000+i>.…`) and tracked, and after
// every cache operation all tracked objects are compared with their registration-time content.
func observeConn[S comparable](r *resume.Runner[S], sessionType reflect.Type) *tracker {
	tr := newTracker(sessionType)
	r.Client.OnNew = func(id int, s S) string {
		tr.register(id, any(s))
		return tr.decl("N", id, any(s))
	}
	r.Client.AfterOp = func(idx int) { tr.scan(idx) }
	r.OnHS = func(i int, h resume.HS) {
		if h.CErr != nil || h.CPeer == nil {
			return
		}
		cs := h.CPeer()
		if len(cs) == 0 {
			return
		}
		r.Client.Note(tr.declHolder(holderBase+i, cs))
		tr.registerHolder(holderBase+i, h.CPeer)
	}
	return tr
}

// executeConn runs a history of real, honest client handshakes (phase conn) through a client
// cache of the given capacity wrapped in a recording cache, and returns the recorded
// Put/Get trace in the op syntax of this check together with each handshake's outcome.
func executeConn(desc, hist string) string {
	stack, _ := hx.KV(desc, "stack")
	capacity := hx.KVInt(desc, "cap")
	var obs string
	if p := hx.Guard(func() {
		h := resume.ParseHist(hist)
		render := func(ops, outs, state, hs string, tr *tracker) {
			obs = fmt.Sprintf("ops=%s outs=%s %s hs=%s fields=%s harm=%s", ops, outs, state, hs, tr.lay.refNames(), tr.harm())
		}
		if stack == "dtlcp" {
			r := resume.NewRunner(resume.DTLCP, capacity, 4, 1)
			r.NoCtl = true
			tr := observeConn(r, reflect.TypeOf(dtlcp.SessionState{}))
			r.Run(h)
			ops, outs := r.Trace()
			render(ops, outs, r.CacheState(), r.HSResults(), tr)
		} else {
			r := resume.NewRunner(resume.TLCP, capacity, 4, 1)
			r.NoCtl = true
			tr := observeConn(r, reflect.TypeOf(tlcp.SessionState{}))
			r.Run(h)
			ops, outs := r.Trace()
			render(ops, outs, r.CacheState(), r.HSResults(), tr)
		}
	}); p != "" {
		return "panic=" + p
	}
	return obs
}

// connCases generates the histories of phase conn: only fault-free connections between
// configurations that share a suite, so every handshake is expected to succeed.
func connCases(o hx.Opts, emit func(string)) {
	honest := func(pre string, dst int) string {
		return fmt.Sprintf("%s/d%d/s%d/e053.e013/e053.e013/ok", pre, dst, dst)
	}
	// evicting(k): a fault-free connection during which k unrelated sessions are Put into the
	// client's cache (after the ClientHello left): a session in use by a handshake is evicted
	evicting := func(dst, k int) string {
		return fmt.Sprintf("-/d%d/s%d/e053.e013/e053.e013/e%d", dst, dst, k)
	}
	stacks := []string{"tlcp", "dtlcp"}
	// witnesses first: F5 (capacity 1; capacity 2 with one unrelated Put in between)
	for _, st := range stacks {
		for cp := 1; cp <= 4; cp++ {
			emit(fmt.Sprintf("stack=%s cap=%d hist=%s", st, cp, strings.Join([]string{honest("-", 0), honest("-", 0), honest("-", 0)}, ",")))
		}
		emit(fmt.Sprintf("stack=%s cap=2 hist=%s", st, strings.Join([]string{honest("-", 0), honest("j1", 0), honest("-", 0)}, ",")))
		emit(fmt.Sprintf("stack=%s cap=3 hist=%s", st, strings.Join([]string{honest("-", 0), honest("-", 1), honest("-", 0), honest("-", 1)}, ",")))
		// F40: the cached session is evicted (and wiped) while the handshake that loaded it is in flight
		emit(fmt.Sprintf("stack=%s cap=2 hist=%s", st, strings.Join([]string{honest("-", 0), evicting(0, 2), honest("-", 0)}, ",")))
		emit(fmt.Sprintf("stack=%s cap=4 hist=%s", st, strings.Join([]string{honest("-", 0), evicting(0, 4), honest("-", 0)}, ",")))
		// two destinations alternating over ten connections, every connection staying open: whatever
		// the cache evicts on the way, sessions still cached and connections still open keep their
		// certificates, and the last reconnect resumes
		for cp := 1; cp <= 4; cp++ {
			var hs []string
			for _, d := range []int{0, 0, 1, 1, 0, 1, 1, 0, 0, 0} {
				hs = append(hs, honest("-", d))
			}
			emit(fmt.Sprintf("stack=%s cap=%d hist=%s", st, cp, strings.Join(hs, ",")))
		}
	}
	r := hx.NewRand(o.Seed + 77)
	n := 1500 * o.Scale
	if o.Tier == "thorough" {
		n = 40000 * o.Scale
	}
	for i := 0; i < n; i++ {
		st := "tlcp"
		if i%4 == 3 {
			st = "dtlcp"
		}
		cp := 1 + r.Intn(4)
		ln := 1 + r.Intn(6)
		cs := make([]string, ln)
		for j := range cs {
			pre := "-"
			switch x := r.Intn(100); {
			case x < 25:
				pre = fmt.Sprintf("j%d", 1+r.Intn(cp+1))
			case x < 32:
				pre = "sl"
			case x < 36:
				pre = "fg"
			case x < 39:
				pre = "fn"
			case x < 46:
				pre = fmt.Sprintf("st%d", r.Intn(2))
			}
			cs[j] = honest(pre, r.Intn(2))
			if pre == "-" && r.Chance(15) {
				cs[j] = evicting(r.Intn(2), 1+r.Intn(cp+1))
			}
		}
		emit(fmt.Sprintf("stack=%s cap=%d hist=%s", st, cp, strings.Join(cs, ",")))
	}
}

// execute one case description and return the observation
func execute(desc string) string {
	if hist, ok := hx.KV(desc, "hist"); ok {
		return executeConn(desc, hist)
	}
	stack, _ := hx.KV(desc, "stack")
	capacity := hx.KVInt(desc, "cap")
	opsStr, _ := hx.KV(desc, "ops")
	c := newCache(stack, capacity)
	tr := newTracker(c.sessionType())
	objs := map[int]any{}
	// object obj with the storage named by bufs (one backing-array name per reference field,
	// "n" = nil); an object the case did not declare owns storage of its own (named 100000+obj)
	ensure := func(obj int, bufs []string) any {
		if s, ok := objs[obj]; ok {
			return s
		}
		if bufs == nil {
			for range tr.lay.refs {
				bufs = append(bufs, strconv.Itoa(implicitBuf+obj))
			}
		}
		s := c.newSession(obj)
		tr.assemble(s, bufs)
		tr.register(obj, s)
		objs[obj] = s
		return s
	}
	var outs []string
	if opsStr != "-" && opsStr != "" {
		for i, op := range strings.Split(opsStr, ",") {
			parts := strings.Split(op, ".")
			switch parts[0] {
			case "N":
				id, _ := strconv.Atoi(parts[1])
				ensure(id, parts[2:])
			case "P":
				if parts[2] == "nil" {
					c.put(unkey(parts[1]), nil)
				} else {
					id, _ := strconv.Atoi(parts[2])
					c.put(unkey(parts[1]), ensure(id, nil))
				}
				outs = append(outs, "U")
			case "G":
				s, ok := c.get(unkey(parts[1]))
				o, wiped := "nil", false
				if s != nil {
					o = "?"
					if to := tr.byPtr[reflect.ValueOf(s).UnsafePointer()]; to != nil {
						o = strconv.Itoa(to.id)
					}
					wiped = c.wiped(s)
				}
				outs = append(outs, fmt.Sprintf("G.%s.%s.%s", o, b01(ok), b01(wiped)))
			}
			tr.scan(i)
		}
	}
	q, m := c.lens()
	var w []int
	for id, s := range objs {
		if c.wiped(s) {
			w = append(w, id)
		}
	}
	sort.Ints(w)
	ws := "-"
	if len(w) > 0 {
		ss := make([]string, len(w))
		for i, x := range w {
			ss[i] = strconv.Itoa(x)
		}
		ws = strings.Join(ss, ".")
	}
	os := "-"
	if len(outs) > 0 {
		os = strings.Join(outs, ",")
	}
	return fmt.Sprintf("outs=%s len=%d/%d wiped=%s fields=%s harm=%s", os, q, m, ws, tr.lay.refNames(), tr.harm())
}

// implicitBuf + obj names the private storage of an object the case does not declare.
const implicitBuf = 100000

var keys = []string{"a", "b", "c", "_"}

// alphabet of abstract ops for exhaustive enumeration. Value kinds: F(resh object), A(lias of
// object 1), N(il) and — when sharing is set, for keys a and b — C (a fresh object shaped like a
// clone() of object 1: it shares the storage of every reference field except the master secret)
// and S (a fresh object shaped like a struct copy of object 1: it shares all storage).
func alphabet(sharing bool) []string {
	var a []string
	for _, k := range keys {
		for _, v := range []string{"F", "A", "N"} {
			a = append(a, "P."+k+"."+v)
		}
		if sharing && (k == "a" || k == "b") {
			a = append(a, "P."+k+".C", "P."+k+".S")
		}
		a = append(a, "G."+k)
	}
	return a
}

// refFields lists the reference fields of the stack's SessionState (by reflection).
func refFields(stack string) []string {
	t := reflect.TypeOf(tlcp.SessionState{})
	if stack == "dtlcp" {
		t = reflect.TypeOf(dtlcp.SessionState{})
	}
	l := layoutOf(t)
	var out []string
	for _, fi := range l.refs {
		out = append(out, l.fields[fi].name)
	}
	return out
}

// the documented name of the field an eviction overwrites
const secretField = "masterSecret"

// concretise replaces F by fresh object ids (2,3,..), A by object 1, C / S by a declared fresh
// object sharing storage with object 1.
func concretise(seq []string, fields []string) string {
	next := 2
	var out []string
	for _, op := range seq {
		switch {
		case strings.HasSuffix(op, ".F"):
			out = append(out, op[:len(op)-1]+strconv.Itoa(next))
			next++
		case strings.HasSuffix(op, ".A"):
			out = append(out, op[:len(op)-1]+"1")
		case strings.HasSuffix(op, ".N"):
			out = append(out, op[:len(op)-1]+"nil")
		case strings.HasSuffix(op, ".C"), strings.HasSuffix(op, ".S"):
			decl := "N." + strconv.Itoa(next)
			for _, f := range fields {
				if f == secretField && strings.HasSuffix(op, ".C") {
					decl += "." + strconv.Itoa(implicitBuf+next)
				} else {
					decl += "." + strconv.Itoa(implicitBuf+1)
				}
			}
			out = append(out, decl, op[:len(op)-1]+strconv.Itoa(next))
			next++
		default:
			out = append(out, op)
		}
	}
	return strings.Join(out, ",")
}

func main() {
	o := hx.ParseOpts()
	tr := hx.NewTrace(o.Out)
	defer tr.Close()
	emit := func(desc string) {
		if _, isConc := hx.KV(desc, "conc"); isConc {
			tr.Line(desc, executeConc(desc))
			return
		}
		tr.Line(desc, execute(desc))
	}

	if o.Replay != "" {
		for _, c := range hx.ReplayCases(o.Replay) {
			emit(c)
		}
		return
	}
	if o.Phase == "conc" {
		concCases(o, tr.Line)
		return
	}
	if o.Phase == "conn" {
		connCases(o, emit)
		return
	}

	// 1. the documented witnesses (always first)
	for _, st := range []string{"tlcp", "dtlcp"} {
		emit("stack=" + st + " cap=2 ops=P.a.2,P.b.3,P.zz.nil,G.a,G.zz") // F17
		emit("stack=" + st + " cap=1 ops=P.sid.7,P.dst.7,G.dst")         // F5 pattern (aliasing)
		emit("stack=" + st + " cap=0 ops=P.a.2,G.a,G._")                 // default capacity
		emit("stack=" + st + " cap=-3 ops=P.a.2,P.a.nil,G.a,G._")
		// the heap one real handshake creates (session under the session-id key, its clone() under the
		// destination key, sharing identifier and certificates) at capacities 1 and 2, then one more store
		fs := refFields(st)
		emit("stack=" + st + " cap=1 ops=" + concretise([]string{"P.a.A", "P.b.C", "G.b", "G.a"}, fs))
		emit("stack=" + st + " cap=2 ops=" + concretise([]string{"P.a.A", "P.b.C", "P.c.F", "G.b", "G.a"}, fs))
		emit("stack=" + st + " cap=1 ops=" + concretise([]string{"P.a.A", "P.b.S", "G.b"}, fs))
	}

	// 2. exhaustive enumeration to a depth (thorough: depth 5 without the sharing kinds, depth 4 with them)
	type enum struct {
		depth   int
		sharing bool
	}
	enums := []enum{{3, true}}
	caps := []int{1, 2, 3}
	if o.Tier == "thorough" {
		enums = []enum{{5, false}, {4, true}}
		caps = []int{1, 2, 3, 4}
	}
	for _, en := range enums {
		al := alphabet(en.sharing)
		for _, st := range []string{"tlcp", "dtlcp"} {
			fs := refFields(st)
			for _, cp := range caps {
				var rec func(seq []string)
				rec = func(seq []string) {
					if len(seq) > 0 {
						emit(fmt.Sprintf("stack=%s cap=%d ops=%s", st, cp, concretise(seq, fs)))
					}
					if len(seq) == en.depth {
						return
					}
					for _, a := range al {
						rec(append(seq, a))
					}
				}
				rec(nil)
			}
		}
	}

	// 3. random long sequences, larger capacities and key alphabets
	r := hx.NewRand(o.Seed)
	n := 3000 * o.Scale
	if o.Tier == "thorough" {
		n = 200000 * o.Scale
	}
	for i := 0; i < n; i++ {
		st := hx.Pick(r, []string{"tlcp", "dtlcp"})
		cp := hx.Pick(r, []int{1, 1, 2, 2, 3, 4, 5, 8, 16, 64, 0, -1})
		nk := 2 + r.Intn(2*max(cp, 2)+3)
		ln := 1 + r.Intn(60)
		if cp >= 16 || cp < 1 {
			ln = 1 + r.Intn(400)
			nk = 50 + r.Intn(100)
		}
		next := 2
		alias := r.Chance(30)   // some sequences re-use objects (aliasing), most do not
		sharing := r.Chance(40) // some sequences have objects that share storage field by field
		fs := refFields(st)
		bufOf := map[int][]string{} // the storage of the objects introduced so far
		var ops []string
		for j := 0; j < ln; j++ {
			k := "k" + strconv.Itoa(r.Intn(nk))
			if r.Chance(5) {
				k = "_"
			}
			switch x := r.Intn(100); {
			case x < 45:
				id := next
				if alias && next > 2 && r.Chance(30) {
					id = 2 + r.Intn(next-2)
				} else {
					next++
					bufs := make([]string, len(fs))
					for f := range fs {
						bufs[f] = strconv.Itoa(implicitBuf + id)
					}
					if sharing && id > 2 && r.Chance(40) {
						// share some fields with an earlier object: mostly everything but the secret
						// (clone-shaped), sometimes any subset, sometimes a nil field
						src := bufOf[2+r.Intn(id-2)]
						mode := r.Intn(10)
						for f := range fs {
							switch {
							case mode < 6 && fs[f] != secretField, mode >= 6 && mode < 9 && r.Bool():
								bufs[f] = src[f]
							case mode == 9 && r.Chance(30):
								bufs[f] = "n"
							}
						}
						ops = append(ops, "N."+strconv.Itoa(id)+"."+strings.Join(bufs, "."))
					}
					bufOf[id] = bufs
				}
				ops = append(ops, "P."+k+"."+strconv.Itoa(id))
			case x < 55:
				ops = append(ops, "P."+k+".nil")
			default:
				ops = append(ops, "G."+k)
			}
		}
		emit(fmt.Sprintf("stack=%s cap=%d ops=%s", st, cp, strings.Join(ops, ",")))
	}
}

// Driver for C11: runs operation sequences against the real built-in session cache of both
// stacks and writes `case => observed` lines for the Lean oracle (model + spec).
package main

import (
	"fmt"
	"sort"
	"strconv"
	"strings"

	"gitee.com/Trisia/gotlcp/dtlcp"
	"gitee.com/Trisia/gotlcp/tlcp"
	"verifharness/internal/hx"
	"verifharness/internal/resume"
)

// cache abstracts over the two stacks (identical code, different types).
type cache interface {
	put(key string, obj int, isNil bool)
	get(key string) (obj int, isNil, ok, wiped bool)
	lens() (int, int)
	wipedObjs() []int
}

type tlcpCache struct {
	c    tlcp.SessionCache
	objs map[int]*tlcp.SessionState
}

func (t *tlcpCache) put(key string, obj int, isNil bool) {
	if isNil {
		t.c.Put(key, nil)
		return
	}
	s, ok := t.objs[obj]
	if !ok {
		s = tlcp.VerifNewSessionState(obj)
		t.objs[obj] = s
	}
	t.c.Put(key, s)
}
func (t *tlcpCache) get(key string) (int, bool, bool, bool) {
	s, ok := t.c.Get(key)
	if s == nil {
		return 0, true, ok, false
	}
	return tlcp.VerifSessionTag(s), false, ok, tlcp.VerifSessionWiped(s)
}
func (t *tlcpCache) lens() (int, int) { return tlcp.VerifLRULen(t.c) }
func (t *tlcpCache) wipedObjs() []int {
	var out []int
	for id, s := range t.objs {
		if tlcp.VerifSessionWiped(s) {
			out = append(out, id)
		}
	}
	sort.Ints(out)
	return out
}

type dtlcpCache struct {
	c    dtlcp.SessionCache
	objs map[int]*dtlcp.SessionState
}

func (t *dtlcpCache) put(key string, obj int, isNil bool) {
	if isNil {
		t.c.Put(key, nil)
		return
	}
	s, ok := t.objs[obj]
	if !ok {
		s = dtlcp.VerifNewSessionState(obj)
		t.objs[obj] = s
	}
	t.c.Put(key, s)
}
func (t *dtlcpCache) get(key string) (int, bool, bool, bool) {
	s, ok := t.c.Get(key)
	if s == nil {
		return 0, true, ok, false
	}
	return dtlcp.VerifSessionTag(s), false, ok, dtlcp.VerifSessionWiped(s)
}
func (t *dtlcpCache) lens() (int, int) { return dtlcp.VerifLRULen(t.c) }
func (t *dtlcpCache) wipedObjs() []int {
	var out []int
	for id, s := range t.objs {
		if dtlcp.VerifSessionWiped(s) {
			out = append(out, id)
		}
	}
	sort.Ints(out)
	return out
}

func newCache(stack string, capacity int) cache {
	if stack == "dtlcp" {
		return &dtlcpCache{c: dtlcp.NewLRUSessionCache(capacity), objs: map[int]*dtlcp.SessionState{}}
	}
	return &tlcpCache{c: tlcp.NewLRUSessionCache(capacity), objs: map[int]*tlcp.SessionState{}}
}

func b01(b bool) string {
	if b {
		return "1"
	}
	return "0"
}

func unkey(k string) string {
	if k == "_" {
		return ""
	}
	return k
}

// executeConn runs a history of real, honest client handshakes (phase conn) through a client
// cache of the given capacity wrapped in a recording cache, and returns the recorded
// Put/Get trace in the op syntax of this check together with each handshake's outcome.
func executeConn(desc, hist string) string {
	stack, _ := hx.KV(desc, "stack")
	capacity := hx.KVInt(desc, "cap")
	var obs string
	if p := hx.Guard(func() {
		h := resume.ParseHist(hist)
		render := func(ops, outs, state, hs string) {
			obs = fmt.Sprintf("ops=%s outs=%s %s hs=%s", ops, outs, state, hs)
		}
		if stack == "dtlcp" {
			r := resume.NewRunner(resume.DTLCP, capacity, 4, 1)
			r.NoCtl = true
			r.Run(h)
			ops, outs := r.Trace()
			render(ops, outs, r.CacheState(), r.HSResults())
		} else {
			r := resume.NewRunner(resume.TLCP, capacity, 4, 1)
			r.NoCtl = true
			r.Run(h)
			ops, outs := r.Trace()
			render(ops, outs, r.CacheState(), r.HSResults())
		}
	}); p != "" {
		return "panic=" + p
	}
	return obs
}

// connCases generates the histories of phase conn: only fault-free connections between
// configurations that share a suite, so every handshake is expected to succeed.
func connCases(o hx.Opts, emit func(string)) {
	honest := func(pre string, dst int) string {
		return fmt.Sprintf("%s/d%d/s%d/e053.e013/e053.e013/ok", pre, dst, dst)
	}
	// evicting(k): a fault-free connection during which k unrelated sessions are Put into the
	// client's cache (after the ClientHello left): a session in use by a handshake is evicted
	evicting := func(dst, k int) string {
		return fmt.Sprintf("-/d%d/s%d/e053.e013/e053.e013/e%d", dst, dst, k)
	}
	stacks := []string{"tlcp", "dtlcp"}
	// witnesses first: F5 (capacity 1; capacity 2 with one unrelated Put in between)
	for _, st := range stacks {
		for cp := 1; cp <= 4; cp++ {
			emit(fmt.Sprintf("stack=%s cap=%d hist=%s", st, cp, strings.Join([]string{honest("-", 0), honest("-", 0), honest("-", 0)}, ",")))
		}
		emit(fmt.Sprintf("stack=%s cap=2 hist=%s", st, strings.Join([]string{honest("-", 0), honest("j1", 0), honest("-", 0)}, ",")))
		emit(fmt.Sprintf("stack=%s cap=3 hist=%s", st, strings.Join([]string{honest("-", 0), honest("-", 1), honest("-", 0), honest("-", 1)}, ",")))
		// F40: the cached session is evicted (and wiped) while the handshake that loaded it is in flight
		emit(fmt.Sprintf("stack=%s cap=2 hist=%s", st, strings.Join([]string{honest("-", 0), evicting(0, 2), honest("-", 0)}, ",")))
		emit(fmt.Sprintf("stack=%s cap=4 hist=%s", st, strings.Join([]string{honest("-", 0), evicting(0, 4), honest("-", 0)}, ",")))
	}
	r := hx.NewRand(o.Seed + 77)
	n := 1500 * o.Scale
	if o.Tier == "thorough" {
		n = 40000 * o.Scale
	}
	for i := 0; i < n; i++ {
		st := "tlcp"
		if i%4 == 3 {
			st = "dtlcp"
		}
		cp := 1 + r.Intn(4)
		ln := 1 + r.Intn(6)
		cs := make([]string, ln)
		for j := range cs {
			pre := "-"
			switch x := r.Intn(100); {
			case x < 25:
				pre = fmt.Sprintf("j%d", 1+r.Intn(cp+1))
			case x < 32:
				pre = "sl"
			case x < 36:
				pre = "fg"
			case x < 39:
				pre = "fn"
			case x < 46:
				pre = fmt.Sprintf("st%d", r.Intn(2))
			}
			cs[j] = honest(pre, r.Intn(2))
			if pre == "-" && r.Chance(15) {
				cs[j] = evicting(r.Intn(2), 1+r.Intn(cp+1))
			}
		}
		emit(fmt.Sprintf("stack=%s cap=%d hist=%s", st, cp, strings.Join(cs, ",")))
	}
}

// execute one case description and return the observation
func execute(desc string) string {
	if hist, ok := hx.KV(desc, "hist"); ok {
		return executeConn(desc, hist)
	}
	stack, _ := hx.KV(desc, "stack")
	capacity := hx.KVInt(desc, "cap")
	opsStr, _ := hx.KV(desc, "ops")
	c := newCache(stack, capacity)
	var outs []string
	if opsStr != "-" && opsStr != "" {
		for _, op := range strings.Split(opsStr, ",") {
			parts := strings.Split(op, ".")
			switch parts[0] {
			case "P":
				if parts[2] == "nil" {
					c.put(unkey(parts[1]), 0, true)
				} else {
					id, _ := strconv.Atoi(parts[2])
					c.put(unkey(parts[1]), id, false)
				}
				outs = append(outs, "U")
			case "G":
				obj, isNil, ok, wiped := c.get(unkey(parts[1]))
				o := "nil"
				if !isNil {
					o = strconv.Itoa(obj)
				}
				outs = append(outs, fmt.Sprintf("G.%s.%s.%s", o, b01(ok), b01(wiped)))
			}
		}
	}
	q, m := c.lens()
	w := c.wipedObjs()
	ws := "-"
	if len(w) > 0 {
		ss := make([]string, len(w))
		for i, x := range w {
			ss[i] = strconv.Itoa(x)
		}
		ws = strings.Join(ss, ".")
	}
	os := "-"
	if len(outs) > 0 {
		os = strings.Join(outs, ",")
	}
	return fmt.Sprintf("outs=%s len=%d/%d wiped=%s", os, q, m, ws)
}

var keys = []string{"a", "b", "c", "_"}

// alphabet of abstract ops for exhaustive enumeration: value kinds F(resh) A(lias of 1) N(il)
func alphabet() []string {
	var a []string
	for _, k := range keys {
		for _, v := range []string{"F", "A", "N"} {
			a = append(a, "P."+k+"."+v)
		}
		a = append(a, "G."+k)
	}
	return a
}

// concretise replaces F by fresh object ids (2,3,..) and A by object 1
func concretise(seq []string) string {
	next := 2
	out := make([]string, len(seq))
	for i, op := range seq {
		switch {
		case strings.HasSuffix(op, ".F"):
			out[i] = op[:len(op)-1] + strconv.Itoa(next)
			next++
		case strings.HasSuffix(op, ".A"):
			out[i] = op[:len(op)-1] + "1"
		case strings.HasSuffix(op, ".N"):
			out[i] = op[:len(op)-1] + "nil"
		default:
			out[i] = op
		}
	}
	return strings.Join(out, ",")
}

func main() {
	o := hx.ParseOpts()
	tr := hx.NewTrace(o.Out)
	defer tr.Close()
	emit := func(desc string) {
		if _, isConc := hx.KV(desc, "conc"); isConc {
			tr.Line(desc, executeConc(desc))
			return
		}
		tr.Line(desc, execute(desc))
	}

	if o.Replay != "" {
		for _, c := range hx.ReplayCases(o.Replay) {
			emit(c)
		}
		return
	}
	if o.Phase == "conc" {
		concCases(o, tr.Line)
		return
	}
	if o.Phase == "conn" {
		connCases(o, emit)
		return
	}

	// 1. the documented witnesses (always first)
	for _, st := range []string{"tlcp", "dtlcp"} {
		emit("stack=" + st + " cap=2 ops=P.a.2,P.b.3,P.zz.nil,G.a,G.zz") // F17
		emit("stack=" + st + " cap=1 ops=P.sid.7,P.dst.7,G.dst")         // F5 pattern (aliasing)
		emit("stack=" + st + " cap=0 ops=P.a.2,G.a,G._")                 // default capacity
		emit("stack=" + st + " cap=-3 ops=P.a.2,P.a.nil,G.a,G._")
	}

	// 2. exhaustive enumeration to a depth
	depth := 3
	caps := []int{1, 2, 3}
	if o.Tier == "thorough" {
		depth = 5
		caps = []int{1, 2, 3, 4}
	}
	al := alphabet()
	for _, st := range []string{"tlcp", "dtlcp"} {
		for _, cp := range caps {
			var rec func(seq []string)
			rec = func(seq []string) {
				if len(seq) > 0 {
					emit(fmt.Sprintf("stack=%s cap=%d ops=%s", st, cp, concretise(seq)))
				}
				if len(seq) == depth {
					return
				}
				for _, a := range al {
					rec(append(seq, a))
				}
			}
			rec(nil)
		}
	}

	// 3. random long sequences, larger capacities and key alphabets
	r := hx.NewRand(o.Seed)
	n := 3000 * o.Scale
	if o.Tier == "thorough" {
		n = 200000 * o.Scale
	}
	for i := 0; i < n; i++ {
		st := hx.Pick(r, []string{"tlcp", "dtlcp"})
		cp := hx.Pick(r, []int{1, 1, 2, 2, 3, 4, 5, 8, 16, 64, 0, -1})
		nk := 2 + r.Intn(2*max(cp, 2)+3)
		ln := 1 + r.Intn(60)
		if cp >= 16 || cp < 1 {
			ln = 1 + r.Intn(400)
			nk = 50 + r.Intn(100)
		}
		next := 2
		alias := r.Chance(30) // some sequences re-use objects (aliasing), most do not
		ops := make([]string, ln)
		for j := range ops {
			k := "k" + strconv.Itoa(r.Intn(nk))
			if r.Chance(5) {
				k = "_"
			}
			switch x := r.Intn(100); {
			case x < 45:
				id := next
				if alias && next > 2 && r.Chance(30) {
					id = 2 + r.Intn(next-2)
				} else {
					next++
				}
				ops[j] = "P." + k + "." + strconv.Itoa(id)
			case x < 55:
				ops[j] = "P." + k + ".nil"
			default:
				ops[j] = "G." + k
			}
		}
		emit(fmt.Sprintf("stack=%s cap=%d ops=%s", st, cp, strings.Join(ops, ",")))
	}
}
